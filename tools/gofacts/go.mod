module gofacts

go 1.21
