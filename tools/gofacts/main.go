// gofacts prints syntactic shape facts of Go functions as Lean data (stdlib only).
//
//	gofacts <repo-root> <name>=<file>:<Recv>.<Func>:<regexp> ...
//
// For every query it finds the function declaration(s) in <file> (relative to the repo root)
// whose receiver type is <Recv> ("*" = every receiver, "-" = plain function) and whose name is
// <Func>, walks the body in source order and records one event per
//
//	call expression   ->  the callee as written, e.g. "recv.socket.Write", "copy" (the method's
//	                      receiver variable is always printed as "recv")
//	defer statement   ->  "defer " + callee
//	go statement      ->  "go " + callee
//
// keeping only the events the regular expression matches.  With Recv = "*" every event is
// prefixed by the receiver type and a space.  The output is a Lean file on stdout with one
// `def <name> : List String` per query; a query that matches no declaration is an error, so a
// renamed or removed function breaks the build of the facts rather than yielding an empty list.
package main

import (
	"fmt"
	"go/ast"
	"go/parser"
	"go/token"
	"os"
	"path/filepath"
	"regexp"
	"strconv"
	"strings"
)

func render(e ast.Expr) string {
	switch x := e.(type) {
	case *ast.Ident:
		return x.Name
	case *ast.SelectorExpr:
		return render(x.X) + "." + x.Sel.Name
	case *ast.CallExpr:
		return render(x.Fun) + "()"
	case *ast.ParenExpr:
		return render(x.X)
	case *ast.StarExpr:
		return render(x.X)
	case *ast.IndexExpr:
		return render(x.X) + "[]"
	case *ast.TypeAssertExpr:
		return render(x.X) + ".()"
	case *ast.FuncLit:
		return "func"
	}
	return "?"
}

func recvName(fd *ast.FuncDecl) string {
	if fd.Recv == nil || len(fd.Recv.List) == 0 {
		return "-"
	}
	t := fd.Recv.List[0].Type
	if s, ok := t.(*ast.StarExpr); ok {
		t = s.X
	}
	return render(t)
}

func events(body *ast.BlockStmt) []string {
	var out []string
	skip := map[*ast.CallExpr]bool{}
	ast.Inspect(body, func(n ast.Node) bool {
		switch x := n.(type) {
		case *ast.DeferStmt:
			skip[x.Call] = true
			out = append(out, "defer "+render(x.Call.Fun))
		case *ast.GoStmt:
			skip[x.Call] = true
			out = append(out, "go "+render(x.Call.Fun))
		case *ast.CallExpr:
			if !skip[x] {
				out = append(out, render(x.Fun))
			}
		}
		return true
	})
	return out
}

func main() {
	if len(os.Args) < 3 {
		fmt.Fprintln(os.Stderr, "usage: gofacts <repo-root> <name>=<file>:<Recv>.<Func>:<regexp> ...")
		os.Exit(2)
	}
	root := os.Args[1]
	fmt.Println("-- regenerated from the Go sources by tools/gofacts; do not edit")
	fmt.Println("namespace Emitter.Generated")
	for _, q := range os.Args[2:] {
		eq := strings.IndexByte(q, '=')
		parts := strings.SplitN(q[eq+1:], ":", 3)
		if eq < 0 || len(parts) != 3 {
			fmt.Fprintln(os.Stderr, "gofacts: bad query", q)
			os.Exit(2)
		}
		name, file, fn := q[:eq], parts[0], parts[1]
		re, err := regexp.Compile(parts[2])
		dot := strings.LastIndexByte(fn, '.')
		if err != nil || dot < 0 {
			fmt.Fprintln(os.Stderr, "gofacts: bad query", q)
			os.Exit(2)
		}
		recv, fname := fn[:dot], fn[dot+1:]
		f, err := parser.ParseFile(token.NewFileSet(), filepath.Join(root, file), nil, 0)
		if err != nil {
			fmt.Fprintln(os.Stderr, "gofacts:", err)
			os.Exit(1)
		}
		var evs []string
		found := false
		for _, d := range f.Decls {
			fd, ok := d.(*ast.FuncDecl)
			if !ok || fd.Body == nil || fd.Name.Name != fname {
				continue
			}
			r := recvName(fd)
			if recv != "*" && recv != r {
				continue
			}
			found = true
			rv := ""
			if fd.Recv != nil && len(fd.Recv.List) > 0 && len(fd.Recv.List[0].Names) > 0 {
				rv = fd.Recv.List[0].Names[0].Name
			}
			for _, e := range events(fd.Body) {
				// the receiver variable is printed as "recv", whatever it is called
				pre := ""
				for _, k := range []string{"defer ", "go "} {
					if strings.HasPrefix(e, k) {
						pre, e = k, e[len(k):]
					}
				}
				if rv != "" && (e == rv || strings.HasPrefix(e, rv+".")) {
					e = "recv" + e[len(rv):]
				}
				e = pre + e
				if re.MatchString(e) {
					if recv == "*" {
						e = r + " " + e
					}
					evs = append(evs, e)
				}
			}
		}
		if !found {
			fmt.Fprintf(os.Stderr, "gofacts: %s: no declaration of %s in %s\n", name, fn, file)
			os.Exit(1)
		}
		quoted := make([]string, len(evs))
		for i, e := range evs {
			quoted[i] = strconv.Quote(e)
		}
		fmt.Printf("def %s : List String := [%s]\n", name, strings.Join(quoted, ", "))
	}
	fmt.Println("end Emitter.Generated")
}
