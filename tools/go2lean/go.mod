module go2lean

go 1.21
