// go2lean translates a small, straight-line, bit-level fragment of Go into Lean 4 definitions
// (standard library only).
//
//	go2lean <repo-root> <targets-file> <lean-output-dir>
//
// For every `module` of the targets file it parses one package directory of the repository's
// CURRENT working tree and writes <lean-output-dir>/<Module>.lean (only when the content changed)
// with one `def` per unit.  A unit is
//
//	fn     F              the whole body of function / method F
//	var    F x            the value of the local (or named result) x of F when control reaches the
//	                      end of the block that declares it: only the statements that write x
//	field  F T.f          the value given to field f in the single composite literal T{...} of F
//	stores F              the single run of consecutive `s[const] = e` statements of F
//
// with the options `as <leanName>`, `opaque <go-expr>=<name>:<type>` (an expression outside the
// fragment -- a call of another package, a package variable -- becomes a parameter) and
// `free <name>:<type> ...` (locals of F computed outside the fragment become parameters).
// Anything outside the fragment is REFUSED with a message that names the function and the
// construct; the refusal is printed on stdout (`refused <Module> <unit>: <why>`), recorded as a
// comment in the generated file, and the definition is left out, so that the tie theorem about
// it no longer compiles.  The semantics of the Go operators this file assumes is the trusted part.
package main

import (
	"bytes"
	"fmt"
	"go/ast"
	"go/constant"
	"go/parser"
	"go/printer"
	"go/token"
	"os"
	"path/filepath"
	"sort"
	"strings"
)

// ------------------------------------------------------------------ types
// type codes: u8 u16 u32 u64 i64 bool bytes u32s ptr:<Struct> untyped
var leanT = map[string]string{"u8": "UInt8", "u16": "UInt16", "u32": "UInt32", "u64": "UInt64", "i64": "Int64",
	"bool": "Bool", "bytes": "List UInt8", "u32s": "List UInt32"}
var width = map[string]uint64{"u8": 8, "u16": 16, "u32": 32, "u64": 64, "i64": 64}
var basic = map[string]string{"byte": "u8", "uint8": "u8", "uint16": "u16", "uint32": "u32", "uint64": "u64",
	"int64": "i64", "int": "i64" /* 64-bit platforms */, "bool": "bool"}
var mathConst = map[string]string{"math.MaxUint8": "255", "math.MaxUint16": "65535", "math.MaxUint32": "4294967295",
	"math.MaxUint64": "18446744073709551615", "math.MaxInt64": "9223372036854775807", "math.MaxInt32": "2147483647"}
var keywords = map[string]bool{"from": true, "at": true, "end": true, "fun": true, "in": true, "let": true, "do": true,
	"then": true, "else": true, "if": true, "have": true, "show": true, "by": true, "open": true, "def": true,
	"match": true, "with": true, "where": true, "at_": true, "instance": true, "structure": true, "class": true,
	"theorem": true, "namespace": true, "section": true, "variable": true, "universe": true, "import": true, "Type": true}

func unsigned(t string) bool { return t == "u8" || t == "u16" || t == "u32" || t == "u64" }
func numeric(t string) bool  { return unsigned(t) || t == "i64" }
func lname(s string) string {
	if keywords[s] {
		return s + "_"
	}
	return s
}

type param struct{ name, typ string }

type val struct {
	s string         // Lean term (atomic or parenthesised) when not constant
	t string         // type code
	c constant.Value // constant value (typed when t != "untyped")
}

type refusal struct{ msg string }

type unit struct {
	mode, fn, arg, as string
	opaque            map[string]param
	opaqueOrder       []string
	free              []param
	lean, err, doc    string
	sig               []param // Lean parameters of a translated fn (without the opaque ones)
	opq               []param // its opaque parameters
	ret, mut          string  // scalar result type code ("" = none); name of the mutated slice parameter
}

func (u *unit) key() string { return strings.TrimSpace(u.mode + " " + u.fn + " " + u.arg) }
func (u *unit) name() string {
	if u.as != "" {
		return u.as
	}
	n := u.fn[strings.LastIndex(u.fn, ".")+1:]
	n = "go" + strings.ToUpper(n[:1]) + n[1:]
	switch u.mode {
	case "var":
		n += "_" + u.arg
	case "field":
		n += "_" + u.arg[strings.LastIndex(u.arg, ".")+1:]
	case "stores":
		n += "_stores"
	}
	return n
}

type module struct {
	name, dir string
	units     []*unit
	skips     []string
	done      map[string]*unit // fn units by Go name
}

type constSpec struct {
	typ, expr ast.Expr
	iota      int
}

type pkginfo struct {
	fset   *token.FileSet
	funcs  map[string]*ast.FuncDecl
	types  map[string]ast.Expr
	consts map[string]*constSpec
	cache  map[string]val
	busy   map[string]bool
}

func (p *pkginfo) str(n ast.Node) string {
	var b bytes.Buffer
	printer.Fprint(&b, p.fset, n)
	return strings.Join(strings.Fields(b.String()), " ")
}

func load(dir string) (*pkginfo, error) {
	p := &pkginfo{fset: token.NewFileSet(), funcs: map[string]*ast.FuncDecl{}, types: map[string]ast.Expr{},
		consts: map[string]*constSpec{}, cache: map[string]val{}, busy: map[string]bool{}}
	pkgs, err := parser.ParseDir(p.fset, dir, func(fi os.FileInfo) bool { return !strings.HasSuffix(fi.Name(), "_test.go") }, 0)
	if err != nil {
		return nil, err
	}
	for _, pk := range pkgs {
		for _, f := range pk.Files {
			for _, d := range f.Decls {
				switch d := d.(type) {
				case *ast.FuncDecl:
					name := d.Name.Name
					if d.Recv != nil && len(d.Recv.List) == 1 {
						t := d.Recv.List[0].Type
						if s, ok := t.(*ast.StarExpr); ok {
							t = s.X
						}
						if id, ok := t.(*ast.Ident); ok {
							name = id.Name + "." + name
						}
					}
					if d.Body != nil {
						p.funcs[name] = d
					}
				case *ast.GenDecl:
					var last *ast.ValueSpec
					for i, s := range d.Specs {
						switch s := s.(type) {
						case *ast.TypeSpec:
							p.types[s.Name.Name] = s.Type
						case *ast.ValueSpec:
							if d.Tok != token.CONST {
								continue
							}
							if len(s.Values) > 0 {
								last = s
							}
							for j, n := range s.Names {
								if last != nil && j < len(last.Values) {
									p.consts[n.Name] = &constSpec{typ: last.Type, expr: last.Values[j], iota: i}
								}
							}
						}
					}
				}
			}
		}
	}
	return p, nil
}

// resolve gives the type code of a Go type expression ("" = outside the fragment) and, for named types, the name.
func (p *pkginfo) resolve(e ast.Expr) (code, named string) {
	switch x := e.(type) {
	case *ast.Ident:
		if b, ok := basic[x.Name]; ok {
			return b, ""
		}
		if t, ok := p.types[x.Name]; ok {
			if _, ok := t.(*ast.StructType); ok {
				return "struct:" + x.Name, x.Name
			}
			c, _ := p.resolve(t)
			return c, x.Name
		}
	case *ast.ArrayType:
		if x.Len == nil {
			switch c, _ := p.resolve(x.Elt); c {
			case "u8":
				return "bytes", ""
			case "u32":
				return "u32s", ""
			}
		}
	case *ast.StarExpr:
		if c, n := p.resolve(x.X); strings.HasPrefix(c, "struct:") {
			return "ptr:" + n, n
		}
	case *ast.ParenExpr:
		return p.resolve(x.X)
	}
	return "", ""
}

// ------------------------------------------------------------------ translation context
type ctx struct {
	p      *pkginfo
	m      *module
	u      *unit
	fd     *ast.FuncDecl
	vars   map[string]string // Go variable in scope -> type code
	named  map[string]string // Go variable -> named type (for method calls)
	iota   int
	reads  map[string]bool            // parameters / free locals read
	fields map[string]map[string]bool // struct pointer parameter -> fields read ("?" = compared with nil)
	opq    map[string]bool            // opaque parameters used
	fn     string
	nest   int // depth of if-branches (re-declarations inside a branch are refused)
}

func (c *ctx) refuse(n ast.Node, f string, a ...interface{}) {
	msg := fmt.Sprintf(f, a...)
	if n != nil {
		msg += ": `" + c.p.str(n) + "`"
	}
	panic(refusal{msg})
}

func wrap(v val) val {
	w, ok := width[v.t]
	if !ok || v.c == nil || v.c.Kind() != constant.Int {
		return v
	}
	mask := constant.BinaryOp(constant.Shift(constant.MakeInt64(1), token.SHL, uint(w)), token.SUB, constant.MakeInt64(1))
	r := constant.BinaryOp(v.c, token.AND, mask)
	if v.t == "i64" && constant.Compare(r, token.GEQ, constant.Shift(constant.MakeInt64(1), token.SHL, 63)) {
		r = constant.BinaryOp(r, token.SUB, constant.Shift(constant.MakeInt64(1), token.SHL, 64))
	}
	v.c = r
	return v
}

func (c *ctx) render(n ast.Node, v val) string {
	if v.c == nil {
		return v.s
	}
	if v.c.Kind() == constant.Bool {
		return fmt.Sprint(constant.BoolVal(v.c))
	}
	if v.t == "untyped" {
		v = wrap(val{t: "i64", c: v.c}) // default type of an untyped integer constant: int
	}
	if v.c.Kind() != constant.Int || leanT[v.t] == "" {
		c.refuse(n, "constant outside the fragment")
	}
	return fmt.Sprintf("(%s : %s)", v.c.ExactString(), leanT[v.t])
}

func (c *ctx) coerce(n ast.Node, v val, t string) val {
	if v.t == t {
		return v
	}
	if v.t == "untyped" && v.c != nil {
		if v.c.Kind() == constant.Bool && t == "bool" {
			return val{t: t, c: v.c}
		}
		if numeric(t) && constant.ToInt(v.c).Kind() == constant.Int {
			w := wrap(val{t: t, c: constant.ToInt(v.c)})
			if !constant.Compare(w.c, token.EQL, constant.ToInt(v.c)) {
				c.refuse(n, "constant does not fit %s", t)
			}
			return w
		}
	}
	c.refuse(n, "operand of type %s where %s is needed", v.t, t)
	return v
}

func (c *ctx) constInt(n ast.Expr) int {
	v := c.expr(n)
	if v.c == nil || constant.ToInt(v.c).Kind() != constant.Int {
		c.refuse(n, "index / bound / shift count is not a constant")
	}
	i, ok := constant.Int64Val(constant.ToInt(v.c))
	if !ok || i < 0 || i > 1<<20 {
		c.refuse(n, "constant out of range")
	}
	return int(i)
}

func (c *ctx) ident(x *ast.Ident) val {
	if t, ok := c.vars[x.Name]; ok {
		if strings.HasPrefix(t, "ptr:") || strings.HasPrefix(t, "struct:") {
			c.refuse(x, "struct value used as a whole")
		}
		c.reads[x.Name] = true
		return val{s: lname(x.Name), t: t}
	}
	switch x.Name {
	case "true", "false":
		return val{t: "bool", c: constant.MakeBool(x.Name == "true")}
	case "iota":
		if c.iota >= 0 {
			return val{t: "untyped", c: constant.MakeInt64(int64(c.iota))}
		}
	}
	if _, ok := c.p.consts[x.Name]; ok {
		return c.constant(x.Name)
	}
	c.refuse(x, "identifier outside the fragment (package variable, or local computed by untranslated code)")
	return val{}
}

func (c *ctx) constant(name string) val {
	if v, ok := c.p.cache[name]; ok {
		return v
	}
	if c.p.busy[name] {
		c.refuse(nil, "constant cycle at %s", name)
	}
	c.p.busy[name] = true
	cs := c.p.consts[name]
	cc := &ctx{p: c.p, m: c.m, vars: map[string]string{}, named: map[string]string{}, iota: cs.iota, reads: map[string]bool{},
		fields: map[string]map[string]bool{}, opq: map[string]bool{}, fn: c.fn}
	v := cc.expr(cs.expr)
	if v.c == nil {
		c.refuse(cs.expr, "constant %s is not a constant expression of the fragment", name)
	}
	if cs.typ != nil {
		t, _ := c.p.resolve(cs.typ)
		v = c.convert(cs.expr, v, t)
	}
	c.p.busy[name] = false
	c.p.cache[name] = v
	return v
}

func (c *ctx) convert(n ast.Node, v val, to string) val {
	if to == "" || to == "bytes" || to == "u32s" {
		c.refuse(n, "conversion outside the fragment")
	}
	if v.c != nil {
		if to == "bool" || v.c.Kind() == constant.Bool {
			return c.coerce(n, v, to)
		}
		return wrap(val{t: to, c: constant.ToInt(v.c)})
	}
	switch {
	case v.t == to:
		return v
	case unsigned(v.t) && unsigned(to):
		return val{s: fmt.Sprintf("(%s.to%s)", v.s, leanT[to]), t: to}
	case unsigned(v.t) && to == "i64":
		if v.t == "u64" {
			return val{s: fmt.Sprintf("(%s.toInt64)", v.s), t: to}
		}
		return val{s: fmt.Sprintf("(%s.toUInt64.toInt64)", v.s), t: to}
	case v.t == "i64" && unsigned(to):
		if to == "u64" {
			return val{s: fmt.Sprintf("(%s.toUInt64)", v.s), t: to}
		}
		return val{s: fmt.Sprintf("(%s.toUInt64.to%s)", v.s, leanT[to]), t: to}
	}
	c.refuse(n, "conversion from %s to %s is outside the fragment", v.t, to)
	return v
}

var leanOp = map[token.Token]string{token.ADD: "+", token.SUB: "-", token.MUL: "*", token.QUO: "/", token.REM: "%",
	token.AND: "&&&", token.OR: "|||", token.XOR: "^^^", token.SHL: "<<<", token.SHR: ">>>",
	token.EQL: "==", token.NEQ: "!=", token.LSS: "<", token.LEQ: "≤", token.GTR: ">", token.GEQ: "≥", token.LAND: "&&", token.LOR: "||"}

func (c *ctx) binary(n ast.Node, op token.Token, x, y val) val {
	if op == token.SHL || op == token.SHR {
		if y.c == nil || constant.ToInt(y.c).Kind() != constant.Int || constant.Sign(y.c) < 0 {
			c.refuse(n, "shift by a non-constant count")
		}
		s, _ := constant.Uint64Val(constant.ToInt(y.c))
		if x.c != nil {
			return wrap(val{t: x.t, c: constant.Shift(constant.ToInt(x.c), op, uint(s))})
		}
		if !unsigned(x.t) {
			c.refuse(n, "shift of a value of type %s", x.t)
		}
		if s >= width[x.t] { // Go: all bits shifted out (Lean reduces the count modulo the width)
			return val{t: x.t, c: constant.MakeInt64(0)}
		}
		return val{s: fmt.Sprintf("(%s %s (%d : %s))", x.s, leanOp[op], s, leanT[x.t]), t: x.t}
	}
	if x.t == "untyped" && y.t != "untyped" {
		x = c.coerce(n, x, y.t)
	} else if y.t == "untyped" && x.t != "untyped" {
		y = c.coerce(n, y, x.t)
	}
	if x.t != y.t {
		c.refuse(n, "operands of types %s and %s", x.t, y.t)
	}
	cmp := op == token.EQL || op == token.NEQ || op == token.LSS || op == token.LEQ || op == token.GTR || op == token.GEQ
	isBool := x.t == "bool" || (x.c != nil && x.c.Kind() == constant.Bool)
	if x.c != nil && y.c != nil {
		if cmp {
			return val{t: "bool", c: constant.MakeBool(constant.Compare(x.c, op, y.c))}
		}
		o := op
		if (op == token.QUO || op == token.REM) && constant.Sign(y.c) == 0 {
			c.refuse(n, "division by zero")
		}
		if op == token.QUO && !isBool {
			o = token.QUO_ASSIGN
		}
		return wrap(val{t: x.t, c: constant.BinaryOp(x.c, o, y.c)})
	}
	xs, ys := c.render(n, x), c.render(n, y)
	switch {
	case isBool && (op == token.LAND || op == token.LOR || op == token.EQL || op == token.NEQ):
		return val{s: fmt.Sprintf("(%s %s %s)", xs, leanOp[op], ys), t: "bool"}
	case numeric(x.t) && (op == token.EQL || op == token.NEQ):
		return val{s: fmt.Sprintf("(%s %s %s)", xs, leanOp[op], ys), t: "bool"}
	case numeric(x.t) && cmp:
		return val{s: fmt.Sprintf("(decide (%s %s %s))", xs, leanOp[op], ys), t: "bool"}
	case numeric(x.t) && (op == token.ADD || op == token.SUB || op == token.MUL):
		return val{s: fmt.Sprintf("(%s %s %s)", xs, leanOp[op], ys), t: x.t}
	case unsigned(x.t) && (op == token.QUO || op == token.REM):
		if y.c == nil || constant.Sign(y.c) == 0 {
			c.refuse(n, "division by a non-constant or zero divisor (Go panics, Lean yields 0)")
		}
		return val{s: fmt.Sprintf("(%s %s %s)", xs, leanOp[op], ys), t: x.t}
	case unsigned(x.t) && (op == token.AND || op == token.OR || op == token.XOR):
		return val{s: fmt.Sprintf("(%s %s %s)", xs, leanOp[op], ys), t: x.t}
	case unsigned(x.t) && op == token.AND_NOT:
		return val{s: fmt.Sprintf("(%s &&& ~~~%s)", xs, ys), t: x.t}
	}
	c.refuse(n, "operator %s on %s is outside the fragment", op, x.t)
	return val{}
}

func (c *ctx) expr(e ast.Expr) val {
	if c.u != nil {
		if p, ok := c.u.opaque[c.p.str(e)]; ok {
			c.opq[p.name] = true
			return val{s: lname(p.name), t: p.typ}
		}
	}
	switch x := e.(type) {
	case *ast.ParenExpr:
		return c.expr(x.X)
	case *ast.BasicLit:
		if x.Kind == token.INT || x.Kind == token.CHAR {
			return val{t: "untyped", c: constant.ToInt(constant.MakeFromLiteral(x.Value, x.Kind, 0))}
		}
	case *ast.Ident:
		return c.ident(x)
	case *ast.UnaryExpr:
		v := c.expr(x.X)
		switch {
		case x.Op == token.NOT && v.c != nil && v.c.Kind() == constant.Bool:
			return val{t: "bool", c: constant.MakeBool(!constant.BoolVal(v.c))}
		case x.Op == token.NOT && v.t == "bool":
			return val{s: fmt.Sprintf("(!%s)", v.s), t: "bool"}
		case x.Op == token.ADD && (numeric(v.t) || v.t == "untyped"):
			return v
		case (x.Op == token.SUB || x.Op == token.XOR) && v.c != nil && v.c.Kind() == constant.Int:
			return wrap(val{t: v.t, c: constant.UnaryOp(x.Op, v.c, uint(width[v.t]*b2u(unsigned(v.t))))})
		case x.Op == token.SUB && numeric(v.t):
			return val{s: fmt.Sprintf("(-%s)", v.s), t: v.t}
		case x.Op == token.XOR && unsigned(v.t):
			return val{s: fmt.Sprintf("(~~~%s)", v.s), t: v.t}
		}
	case *ast.BinaryExpr:
		return c.binary(x, x.Op, c.expr(x.X), c.expr(x.Y))
	case *ast.IndexExpr:
		b := c.expr(x.X)
		if b.t == "bytes" || b.t == "u32s" {
			return val{s: fmt.Sprintf("(%s.getD %d 0)", b.s, c.constInt(x.Index)), t: map[string]string{"bytes": "u8", "u32s": "u32"}[b.t]}
		}
	case *ast.SelectorExpr:
		if v, ok := mathConst[c.p.str(x)]; ok {
			return val{t: "untyped", c: constant.MakeFromLiteral(v, token.INT, 0)}
		}
		if id, ok := x.X.(*ast.Ident); ok {
			if st := c.vars[id.Name]; strings.HasPrefix(st, "ptr:") || strings.HasPrefix(st, "struct:") {
				if t := c.fieldType(st[strings.Index(st, ":")+1:], x.Sel.Name); t != "" && !strings.Contains(t, ":") {
					c.useField(id.Name, x.Sel.Name)
					return val{s: lname(id.Name + "_" + x.Sel.Name), t: t}
				}
			}
		}
	case *ast.CallExpr:
		return c.call(x, false)
	}
	c.refuse(e, "expression outside the fragment")
	return val{}
}

func b2u(b bool) uint64 {
	if b {
		return 1
	}
	return 0
}

func (c *ctx) useField(v, f string) {
	c.reads[v] = true
	if c.fields[v] == nil {
		c.fields[v] = map[string]bool{}
	}
	c.fields[v][f] = true
}

func (c *ctx) fieldType(st, f string) string {
	s, ok := c.p.types[st].(*ast.StructType)
	if !ok {
		return ""
	}
	for _, fl := range s.Fields.List {
		for _, n := range fl.Names {
			if n.Name == f {
				t, _ := c.p.resolve(fl.Type)
				return t
			}
		}
	}
	return ""
}

// nilTest recognises `p == nil` / `p != nil` for a struct pointer parameter.
func (c *ctx) nilTest(e ast.Expr) (val, bool) {
	b, ok := e.(*ast.BinaryExpr)
	if !ok || (b.Op != token.EQL && b.Op != token.NEQ) {
		return val{}, false
	}
	id, ok1 := b.X.(*ast.Ident)
	nl, ok2 := b.Y.(*ast.Ident)
	if !ok1 || !ok2 || nl.Name != "nil" || !strings.HasPrefix(c.vars[id.Name], "ptr:") {
		return val{}, false
	}
	c.useField(id.Name, "?")
	s := lname(id.Name + "_nonnil")
	if b.Op == token.EQL {
		s = "(!" + s + ")"
	}
	return val{s: s, t: "bool"}, true
}

func (c *ctx) cond(e ast.Expr) string {
	if v, ok := c.nilTest(e); ok {
		return v.s
	}
	return c.render(e, c.coerce(e, c.expr(e), "bool"))
}

// sliceArg: `s[a:b]` of a byte-slice variable with constant bounds at least n apart -> (variable, a)
func (c *ctx) sliceArg(e ast.Expr, n int) (string, int) {
	sl, ok := e.(*ast.SliceExpr)
	if ok && sl.Low != nil && sl.High != nil && sl.Max == nil {
		if id, ok := sl.X.(*ast.Ident); ok && c.vars[id.Name] == "bytes" {
			a, b := c.constInt(sl.Low), c.constInt(sl.High)
			if b-a >= n {
				c.reads[id.Name] = true
				return id.Name, a
			}
		}
	}
	c.refuse(e, "argument is not a sub-slice s[a:b] of a byte slice with constant bounds (at least %d apart)", n)
	return "", 0
}

var beRead = map[string]string{"binary.BigEndian.Uint16": "u16", "binary.BigEndian.Uint32": "u32", "binary.BigEndian.Uint64": "u64"}
var beWrite = map[string]string{"binary.BigEndian.PutUint16": "u16", "binary.BigEndian.PutUint32": "u32", "binary.BigEndian.PutUint64": "u64"}

// call translates a call expression; in statement position (stmt) it returns the rebinding `let v := …` in val.s
// and the rebound variable in val.t.
func (c *ctx) call(x *ast.CallExpr, stmt bool) val {
	fun := c.p.str(x.Fun)
	if id, ok := x.Fun.(*ast.Ident); ok && len(x.Args) == 1 && c.p.funcs[id.Name] == nil {
		if t, _ := c.p.resolve(id); t != "" && !stmt {
			return c.convert(x, c.expr(x.Args[0]), t)
		}
	}
	if t, ok := beRead[fun]; ok && len(x.Args) == 1 && !stmt {
		s, a := c.sliceArg(x.Args[0], int(width[t]/8))
		return val{s: fmt.Sprintf("(be%s %s %d)", leanT[t], lname(s), a), t: t}
	}
	if t, ok := beWrite[fun]; ok && len(x.Args) == 2 && stmt {
		s, a := c.sliceArg(x.Args[0], int(width[t]/8))
		v := c.render(x, c.coerce(x, c.expr(x.Args[1]), t))
		return val{s: fmt.Sprintf("let %s := put%s %s %d %s", lname(s), leanT[t], lname(s), a, v), t: s}
	}
	if fun == "make" && len(x.Args) == 2 && !stmt {
		if t, _ := c.p.resolve(x.Args[0]); t == "bytes" {
			return val{s: fmt.Sprintf("(List.replicate %d (0 : UInt8))", c.constInt(x.Args[1])), t: "bytes"}
		}
	}
	// a function / method of the translated set
	key, recv := fun, ""
	if sel, ok := x.Fun.(*ast.SelectorExpr); ok {
		if id, ok := sel.X.(*ast.Ident); ok && c.named[id.Name] != "" {
			key, recv = c.named[id.Name]+"."+sel.Sel.Name, id.Name
		}
	}
	cal := c.m.done[key]
	if cal == nil || cal.err != "" {
		c.refuse(x, "call outside the fragment (only conversions, binary.BigEndian.*, make([]byte, const) and translated functions)")
	}
	args := []string{}
	sig := cal.sig
	if recv != "" {
		c.reads[recv] = true
		args, sig = append(args, lname(recv)), sig[1:]
	}
	if len(sig) != len(x.Args) {
		c.refuse(x, "argument count")
	}
	for i, a := range x.Args {
		args = append(args, c.render(a, c.coerce(a, c.expr(a), sig[i].typ)))
	}
	for _, o := range cal.opq {
		found := false
		for _, mine := range c.u.opaque {
			if mine == o {
				found = true
				c.opq[o.name] = true
			}
		}
		if !found {
			c.refuse(x, "callee needs the opaque parameter %s, which this unit does not declare", o.name)
		}
		args = append(args, lname(o.name))
	}
	app := "(" + cal.name() + " " + strings.Join(args, " ") + ")"
	if stmt {
		if cal.mut == "" || cal.ret != "" || recv == "" {
			c.refuse(x, "call statement of a function that is not a translated setter")
		}
		return val{s: fmt.Sprintf("let %s := %s", lname(recv), app), t: recv}
	}
	if cal.mut != "" || cal.ret == "" {
		c.refuse(x, "translated callee is not a pure scalar function")
	}
	return val{s: app, t: cal.ret}
}

// ------------------------------------------------------------------ statements
func zero(t string) string {
	switch t {
	case "bool":
		return "false"
	case "bytes", "u32s":
		return "[]"
	}
	return fmt.Sprintf("(0 : %s)", leanT[t])
}

var assignOp = map[token.Token]token.Token{token.ADD_ASSIGN: token.ADD, token.SUB_ASSIGN: token.SUB, token.MUL_ASSIGN: token.MUL,
	token.QUO_ASSIGN: token.QUO, token.REM_ASSIGN: token.REM, token.AND_ASSIGN: token.AND, token.OR_ASSIGN: token.OR,
	token.XOR_ASSIGN: token.XOR, token.SHL_ASSIGN: token.SHL, token.SHR_ASSIGN: token.SHR, token.AND_NOT_ASSIGN: token.AND_NOT}

// simple translates one non-branching statement into a `let` line and names the variable it binds.
func (c *ctx) simple(s ast.Stmt, nested bool) (string, string) {
	switch s := s.(type) {
	case *ast.AssignStmt:
		if len(s.Lhs) != 1 || len(s.Rhs) != 1 {
			c.refuse(s, "multiple assignment")
		}
		if ix, ok := s.Lhs[0].(*ast.IndexExpr); ok && s.Tok == token.ASSIGN {
			id, ok := ix.X.(*ast.Ident)
			if !ok || c.vars[id.Name] != "bytes" {
				c.refuse(s, "store into something that is not a byte-slice variable")
			}
			i := c.constInt(ix.Index)
			v := c.render(s, c.coerce(s, c.expr(s.Rhs[0]), "u8"))
			return fmt.Sprintf("let %s := %s.set %d %s", lname(id.Name), lname(id.Name), i, v), id.Name
		}
		id, ok := s.Lhs[0].(*ast.Ident)
		if !ok {
			c.refuse(s, "assignment target outside the fragment")
		}
		v := c.expr(s.Rhs[0])
		t, known := c.vars[id.Name]
		switch {
		case s.Tok == token.DEFINE:
			if known && nested {
				c.refuse(s, "re-declaration of %s inside a branch", id.Name)
			}
			if v.t == "untyped" {
				v = c.coerce(s, v, map[bool]string{true: "bool", false: "i64"}[v.c.Kind() == constant.Bool])
			}
			c.vars[id.Name] = v.t
			if call, ok := s.Rhs[0].(*ast.CallExpr); ok && c.p.str(call.Fun) == "make" {
				_, c.named[id.Name] = c.p.resolve(call.Args[0])
			}
		case !known:
			c.refuse(s, "assignment to a variable outside the fragment")
		case s.Tok == token.ASSIGN:
			v = c.coerce(s, v, t)
		default:
			v = c.binary(s, assignOp[s.Tok], val{s: lname(id.Name), t: t}, v)
		}
		return fmt.Sprintf("let %s := %s", lname(id.Name), c.render(s, v)), id.Name
	case *ast.DeclStmt:
		if g, ok := s.Decl.(*ast.GenDecl); ok && g.Tok == token.VAR && len(g.Specs) == 1 {
			vs := g.Specs[0].(*ast.ValueSpec)
			if len(vs.Names) == 1 && len(vs.Values) <= 1 && !(nested && c.vars[vs.Names[0].Name] != "") {
				t := ""
				if vs.Type != nil {
					if t, _ = c.p.resolve(vs.Type); leanT[t] == "" {
						c.refuse(s, "variable type outside the fragment")
					}
				}
				init := ""
				if len(vs.Values) == 1 {
					v := c.expr(vs.Values[0])
					if t != "" {
						v = c.coerce(s, v, t)
					}
					t, init = v.t, c.render(s, v)
				} else {
					init = zero(t)
				}
				c.vars[vs.Names[0].Name] = t
				return fmt.Sprintf("let %s := %s", lname(vs.Names[0].Name), init), vs.Names[0].Name
			}
		}
	case *ast.ExprStmt:
		if call, ok := s.X.(*ast.CallExpr); ok {
			v := c.call(call, true)
			return v.s, v.t
		}
	}
	c.refuse(s, "statement outside the fragment")
	return "", ""
}

func hasReturn(n ast.Node) bool {
	found := false
	ast.Inspect(n, func(n ast.Node) bool {
		if _, ok := n.(*ast.ReturnStmt); ok {
			found = true
		}
		return true
	})
	return found
}

func (c *ctx) scoped(f func() string) string {
	saved := map[string]string{}
	for k, v := range c.vars {
		saved[k] = v
	}
	r := f()
	c.vars = saved
	return r
}

func elseList(e ast.Stmt) []ast.Stmt {
	switch e := e.(type) {
	case nil:
		return nil
	case *ast.BlockStmt:
		return e.List
	}
	return []ast.Stmt{e}
}

// written lists, in a fixed order, the variables already in scope that the statements bind
func (c *ctx) written(list []ast.Stmt, acc map[string]bool) {
	for _, s := range list {
		switch s := s.(type) {
		case *ast.IfStmt:
			c.written(s.Body.List, acc)
			c.written(elseList(s.Else), acc)
		case *ast.AssignStmt:
			for _, l := range s.Lhs {
				if ix, ok := l.(*ast.IndexExpr); ok {
					l = ix.X
				}
				if id, ok := l.(*ast.Ident); ok && s.Tok != token.DEFINE {
					acc[id.Name] = true
				}
			}
		case *ast.ExprStmt:
			if call, ok := s.X.(*ast.CallExpr); ok {
				for _, a := range append([]ast.Expr{call.Fun}, call.Args...) {
					ast.Inspect(a, func(n ast.Node) bool {
						if id, ok := n.(*ast.Ident); ok && (c.vars[id.Name] == "bytes") {
							acc[id.Name] = true
						}
						return true
					})
				}
			}
		}
	}
}

// stmts translates a statement list; fin gives the term for "control falls off the end", ret the term for `return`.
func (c *ctx) stmts(list []ast.Stmt, fin func() string, ret func(*ast.ReturnStmt) string) string {
	if len(list) == 0 {
		return fin()
	}
	rest := func() string { return c.stmts(list[1:], fin, ret) }
	switch s := list[0].(type) {
	case *ast.ReturnStmt:
		return ret(s)
	case *ast.BlockStmt:
		c.refuse(s, "nested block")
	case *ast.IfStmt:
		if s.Init != nil {
			c.refuse(s.Init, "if with an init statement")
		}
		cond := c.cond(s.Cond)
		if hasReturn(s) { // the continuation is duplicated into the branches
			c.nest++
			th := c.scoped(func() string { return c.stmts(s.Body.List, rest, ret) })
			el := c.scoped(func() string { return c.stmts(elseList(s.Else), rest, ret) })
			c.nest--
			return fmt.Sprintf("if %s then (%s) else (%s)", cond, th, el)
		}
		acc := map[string]bool{}
		c.written(s.Body.List, acc)
		c.written(elseList(s.Else), acc)
		names := []string{}
		for n := range acc {
			if c.vars[n] != "" {
				names = append(names, lname(n))
			}
		}
		sort.Strings(names)
		if len(names) == 0 {
			c.refuse(s, "if statement without effect in the fragment")
		}
		tup := strings.Join(names, ", ")
		if len(names) > 1 {
			tup = "(" + tup + ")"
		}
		nofin := func() string { return tup }
		noret := func(*ast.ReturnStmt) string { return "" }
		c.nest++
		th := c.scoped(func() string { return c.stmts(s.Body.List, nofin, noret) })
		el := c.scoped(func() string { return c.stmts(elseList(s.Else), nofin, noret) })
		c.nest--
		return fmt.Sprintf("let %s := if %s then (%s) else (%s);\n  %s", tup, cond, th, el, rest())
	default:
		line, _ := c.simple(s, c.nest > 0)
		return line + ";\n  " + rest()
	}
	return ""
}

// ------------------------------------------------------------------ units
func (c *ctx) declare(fl *ast.FieldList, out *[]param) {
	if fl == nil {
		return
	}
	for _, f := range fl.List {
		t, named := c.p.resolve(f.Type)
		for _, n := range f.Names {
			if t == "" || n.Name == "_" {
				continue // a parameter of a type outside the fragment: any use of it is refused as an unknown identifier
			}
			c.vars[n.Name], c.named[n.Name] = t, named
			*out = append(*out, param{n.Name, t})
		}
	}
}

// signature expands struct-pointer parameters into the fields that were read (in declaration order)
func (c *ctx) signature(ps []param, onlyRead bool) []param {
	out := []param{}
	for _, p := range ps {
		if i := strings.Index(p.typ, ":"); i >= 0 {
			if c.fields[p.name]["?"] {
				out = append(out, param{p.name + "_nonnil", "bool"})
			}
			if st, ok := c.p.types[p.typ[i+1:]].(*ast.StructType); ok {
				for _, fl := range st.Fields.List {
					for _, n := range fl.Names {
						if c.fields[p.name][n.Name] {
							t, _ := c.p.resolve(fl.Type)
							out = append(out, param{p.name + "_" + n.Name, t})
						}
					}
				}
			}
		} else if !onlyRead || c.reads[p.name] {
			out = append(out, p)
		}
	}
	return out
}

func binders(ps []param) string {
	s := ""
	for _, p := range ps {
		s += fmt.Sprintf(" (%s : %s)", lname(p.name), leanT[p.typ])
	}
	return s
}

// writes counts the places of fn that may change variable `name` (assignment, declaration, ++/--, range, store
// through an index, address taken) and tells whether it is handed to a call as a bare argument.
func writes(fn ast.Node, name string) (n int, escapes bool) {
	is := func(e ast.Expr) bool {
		for { // s[i] = …, p.f = …, *p = … change s resp. what p points to
			if ix, ok := e.(*ast.IndexExpr); ok {
				e = ix.X
			} else if sel, ok := e.(*ast.SelectorExpr); ok {
				e = sel.X
			} else if st, ok := e.(*ast.StarExpr); ok {
				e = st.X
			} else if pe, ok := e.(*ast.ParenExpr); ok {
				e = pe.X
			} else {
				break
			}
		}
		id, ok := e.(*ast.Ident)
		return ok && id.Name == name
	}
	ast.Inspect(fn, func(x ast.Node) bool {
		switch x := x.(type) {
		case *ast.AssignStmt:
			for _, l := range x.Lhs {
				if is(l) {
					n++
				}
			}
		case *ast.IncDecStmt:
			if is(x.X) {
				n++
			}
		case *ast.RangeStmt:
			if (x.Key != nil && is(x.Key)) || (x.Value != nil && is(x.Value)) {
				n++
			}
		case *ast.UnaryExpr:
			if x.Op == token.AND && is(x.X) {
				n += 2
			}
		case *ast.ValueSpec:
			for _, id := range x.Names {
				if id.Name == name {
					n++
				}
			}
		case *ast.CallExpr:
			for _, a := range x.Args {
				if id, ok := a.(*ast.Ident); ok && id.Name == name {
					escapes = true
				}
			}
		}
		return true
	})
	return
}

// stable: what a `var` / `field` unit reads besides the tracked variable must not change inside the function
func (c *ctx) stable(params []param, tracked string) {
	for name := range c.reads {
		if name == tracked {
			continue
		}
		n, esc := writes(c.fd.Body, name)
		want := 0
		for _, f := range c.u.free {
			if f.name == name {
				want = 1
			}
		}
		if n != want {
			c.refuse(nil, "%s is read by the translated expression but written %d time(s) in the function (expected %d)", name, n, want)
		}
		if esc && (c.vars[name] == "bytes" || c.vars[name] == "u32s") {
			c.refuse(nil, "slice %s is read by the translated expression and handed to a call in the same function", name)
		}
	}
}

// lists collects every statement list of the function (blocks, case and comm clauses)
func lists(body *ast.BlockStmt) [][]ast.Stmt {
	out := [][]ast.Stmt{}
	ast.Inspect(body, func(n ast.Node) bool {
		switch n := n.(type) {
		case *ast.BlockStmt:
			out = append(out, n.List)
		case *ast.CaseClause:
			out = append(out, n.Body)
		case *ast.CommClause:
			out = append(out, n.Body)
		case *ast.FuncLit:
			return false
		}
		return true
	})
	return out
}

func declares(s ast.Stmt, name string) bool {
	switch s := s.(type) {
	case *ast.AssignStmt:
		if s.Tok == token.DEFINE {
			for _, l := range s.Lhs {
				if id, ok := l.(*ast.Ident); ok && id.Name == name {
					return true
				}
			}
		}
	case *ast.DeclStmt:
		if g, ok := s.Decl.(*ast.GenDecl); ok && g.Tok == token.VAR {
			for _, sp := range g.Specs {
				for _, id := range sp.(*ast.ValueSpec).Names {
					if id.Name == name {
						return true
					}
				}
			}
		}
	}
	return false
}

// onlyWrites: the statement is an assignment to x, or an if whose branches consist of such statements
func onlyWrites(s ast.Stmt, x string) bool {
	switch s := s.(type) {
	case *ast.AssignStmt:
		id, ok := s.Lhs[0].(*ast.Ident)
		return len(s.Lhs) == 1 && ok && id.Name == x
	case *ast.DeclStmt:
		return declares(s, x)
	case *ast.IfStmt:
		for _, b := range append(append([]ast.Stmt{}, s.Body.List...), elseList(s.Else)...) {
			if !onlyWrites(b, x) {
				return false
			}
		}
		return s.Init == nil
	}
	return false
}

func (c *ctx) translate() (body string, sig []param, result string) {
	u, fd := c.u, c.fd
	params := []param{}
	c.declare(fd.Recv, &params)
	c.declare(fd.Type.Params, &params)
	for _, f := range u.free {
		c.vars[f.name] = f.typ
	}
	extra := func() []param {
		out := []param{}
		for _, f := range u.free {
			if c.reads[f.name] {
				out = append(out, f)
			}
		}
		for _, k := range u.opaqueOrder {
			if c.opq[u.opaque[k].name] {
				out = append(out, u.opaque[k])
				u.opq = append(u.opq, u.opaque[k])
			}
		}
		return out
	}
	switch u.mode {
	case "fn":
		res := ""
		if r := fd.Type.Results; r != nil {
			if len(r.List) != 1 || len(r.List[0].Names) > 0 {
				c.refuse(r, "more than one result, or named results")
			}
			if res, _ = c.p.resolve(r.List[0].Type); leanT[res] == "" {
				c.refuse(r, "result type outside the fragment")
			}
		}
		acc := map[string]bool{}
		for _, l := range lists(fd.Body) {
			c.written(l, acc)
		}
		for _, p := range params {
			if acc[p.name] && p.typ == "bytes" {
				if u.mut != "" {
					c.refuse(nil, "two slice parameters are modified")
				}
				u.mut = p.name
			}
		}
		out := func(v string) string {
			if u.mut != "" && v != "" {
				return "(" + lname(u.mut) + ", " + v + ")"
			}
			return lname(u.mut) + v
		}
		body = c.stmts(fd.Body.List, func() string {
			if res != "" || u.mut == "" {
				c.refuse(nil, "control reaches the end of a function that has a result or no effect")
			}
			return out("")
		}, func(r *ast.ReturnStmt) string {
			if res == "" {
				if len(r.Results) != 0 || u.mut == "" {
					c.refuse(r, "return")
				}
				return out("")
			}
			return out(c.render(r, c.coerce(r, c.expr(r.Results[0]), res)))
		})
		u.ret = res
		u.sig = c.signature(params, false)
		sig = append(append([]param{}, u.sig...), extra()...)
		switch {
		case u.mut != "" && res != "":
			result = "List UInt8 × " + leanT[res]
		case u.mut != "":
			result = "List UInt8"
		default:
			result = leanT[res]
		}
	case "var":
		x := u.arg
		var home []ast.Stmt
		n := 0
		for _, l := range lists(fd.Body) {
			for _, s := range l {
				if declares(s, x) {
					home, n = l, n+1
				}
			}
		}
		lines := ""
		if n == 0 && fd.Type.Results != nil { // a named result starts as the zero value
			for _, f := range fd.Type.Results.List {
				for _, id := range f.Names {
					if t, _ := c.p.resolve(f.Type); id.Name == x && leanT[t] != "" {
						c.vars[x], home = t, fd.Body.List
						lines = fmt.Sprintf("let %s := %s;\n  ", lname(x), zero(t))
					}
				}
			}
		}
		if home == nil || n > 1 {
			c.refuse(nil, "local variable %s is declared %d times", x, n)
		}
		for _, s := range home {
			if w, _ := writes(s, x); w == 0 {
				continue
			}
			if !onlyWrites(s, x) {
				c.refuse(s, "%s is written by a statement outside the fragment (loop, switch, multiple assignment, address taken)", x)
			}
			lines += c.stmts([]ast.Stmt{s}, func() string { return "" }, nil)
		}
		if c.vars[x] == "" {
			c.refuse(nil, "variable %s not found", x)
		}
		c.stable(params, x)
		body, result = lines+lname(x), leanT[c.vars[x]]
		delete(c.reads, x)
		sig = append(c.signature(params, true), extra()...)
	case "field":
		i := strings.LastIndex(u.arg, ".")
		ty, fld := u.arg[:i], u.arg[i+1:]
		var found []ast.Expr
		ast.Inspect(fd.Body, func(n ast.Node) bool {
			if cl, ok := n.(*ast.CompositeLit); ok && cl.Type != nil && c.p.str(cl.Type) == ty {
				for _, e := range cl.Elts {
					if kv, ok := e.(*ast.KeyValueExpr); ok && c.p.str(kv.Key) == fld {
						found = append(found, kv.Value)
					}
				}
			}
			return true
		})
		if len(found) != 1 {
			c.refuse(nil, "%d composite literals %s{… %s: …}", len(found), ty, fld)
		}
		ft := c.fieldType(ty, fld)
		if leanT[ft] == "" {
			c.refuse(found[0], "field type outside the fragment")
		}
		for _, f := range u.free { // the type of a free local is inferred where its definition allows it
			for _, l := range lists(fd.Body) {
				for _, s := range l {
					if as, ok := s.(*ast.AssignStmt); ok && declares(s, f.name) && len(as.Lhs) == 1 {
						if ix, ok := as.Rhs[0].(*ast.IndexExpr); ok {
							if id, ok := ix.X.(*ast.Ident); ok && c.vars[id.Name] == "bytes" && f.typ != "u8" {
								c.refuse(s, "free local %s is declared %s in the targets but is a byte here", f.name, f.typ)
							}
						}
					}
				}
			}
		}
		v := c.coerce(found[0], c.expr(found[0]), ft)
		c.stable(params, "")
		body, result = c.render(found[0], v), leanT[ft]
		sig = append(c.signature(params, true), extra()...)
	case "stores":
		isStore := func(s ast.Stmt) bool {
			as, ok := s.(*ast.AssignStmt)
			if !ok || len(as.Lhs) != 1 || as.Tok != token.ASSIGN {
				return false
			}
			_, ok = as.Lhs[0].(*ast.IndexExpr)
			return ok
		}
		var run []ast.Stmt
		total := 0
		for _, l := range lists(fd.Body) {
			for i, s := range l {
				if isStore(s) {
					total++
					if len(run) == 0 || (i > 0 && len(run) > 0 && run[len(run)-1] == l[i-1]) {
						run = append(run, s)
					}
				}
			}
		}
		if len(run) == 0 || len(run) != total {
			c.refuse(nil, "the stores of the function do not form one run of consecutive statements (%d of %d)", len(run), total)
		}
		tgt := ""
		body = c.stmts(run, func() string { return "" }, nil)
		for _, s := range run {
			id, _ := s.(*ast.AssignStmt).Lhs[0].(*ast.IndexExpr).X.(*ast.Ident)
			if id == nil || (tgt != "" && tgt != id.Name) {
				c.refuse(s, "stores into more than one slice")
			}
			tgt = id.Name
		}
		c.reads[tgt] = true
		body, result = body+lname(tgt), "List UInt8"
		sig = append(c.signature(params, true), extra()...)
	default:
		c.refuse(nil, "unknown unit mode %s", u.mode)
	}
	return
}

func (m *module) run(p *pkginfo, u *unit) {
	defer func() {
		if r := recover(); r != nil {
			rf, ok := r.(refusal)
			if !ok {
				panic(r)
			}
			u.err = rf.msg
		}
	}()
	fd := p.funcs[u.fn]
	if fd == nil {
		panic(refusal{"function not found in " + m.dir})
	}
	c := &ctx{p: p, m: m, u: u, fd: fd, vars: map[string]string{}, named: map[string]string{}, iota: -1,
		reads: map[string]bool{}, fields: map[string]map[string]bool{}, opq: map[string]bool{}, fn: u.fn}
	hdr := *fd
	hdr.Body, hdr.Doc = nil, nil
	u.doc = p.str(&hdr)
	body, sig, result := c.translate()
	u.lean = fmt.Sprintf("def %s%s : %s :=\n  %s\n", u.name(), binders(sig), result, body)
}

const prelude = `-- written by tools/go2lean (fixed text): encoding/binary.BigEndian on a sub-slice b[i:…], as in the Go source
-- of encoding/binary (` + "`uint32(b[3]) | uint32(b[2])<<8 | uint32(b[1])<<16 | uint32(b[0])<<24`, `b[0] = byte(v >> 24)` …" + `).
namespace Emitter.Generated.GoPrelude
def beUInt16 (b : List UInt8) (i : Nat) : UInt16 :=
  (b.getD (i+1) 0).toUInt16 ||| ((b.getD i 0).toUInt16 <<< (8 : UInt16))
def beUInt32 (b : List UInt8) (i : Nat) : UInt32 :=
  (b.getD (i+3) 0).toUInt32 ||| ((b.getD (i+2) 0).toUInt32 <<< (8 : UInt32)) ||| ((b.getD (i+1) 0).toUInt32 <<< (16 : UInt32)) |||
  ((b.getD i 0).toUInt32 <<< (24 : UInt32))
def beUInt64 (b : List UInt8) (i : Nat) : UInt64 :=
  (b.getD (i+7) 0).toUInt64 ||| ((b.getD (i+6) 0).toUInt64 <<< (8 : UInt64)) ||| ((b.getD (i+5) 0).toUInt64 <<< (16 : UInt64)) |||
  ((b.getD (i+4) 0).toUInt64 <<< (24 : UInt64)) ||| ((b.getD (i+3) 0).toUInt64 <<< (32 : UInt64)) |||
  ((b.getD (i+2) 0).toUInt64 <<< (40 : UInt64)) ||| ((b.getD (i+1) 0).toUInt64 <<< (48 : UInt64)) |||
  ((b.getD i 0).toUInt64 <<< (56 : UInt64))
def putUInt16 (b : List UInt8) (i : Nat) (v : UInt16) : List UInt8 :=
  (b.set i (v >>> (8 : UInt16)).toUInt8).set (i+1) v.toUInt8
def putUInt32 (b : List UInt8) (i : Nat) (v : UInt32) : List UInt8 :=
  (((b.set i (v >>> (24 : UInt32)).toUInt8).set (i+1) (v >>> (16 : UInt32)).toUInt8).set (i+2) (v >>> (8 : UInt32)).toUInt8).set (i+3) v.toUInt8
def putUInt64 (b : List UInt8) (i : Nat) (v : UInt64) : List UInt8 :=
  (((((((b.set i (v >>> (56 : UInt64)).toUInt8).set (i+1) (v >>> (48 : UInt64)).toUInt8).set (i+2) (v >>> (40 : UInt64)).toUInt8).set (i+3)
    (v >>> (32 : UInt64)).toUInt8).set (i+4) (v >>> (24 : UInt64)).toUInt8).set (i+5) (v >>> (16 : UInt64)).toUInt8).set (i+6)
    (v >>> (8 : UInt64)).toUInt8).set (i+7) v.toUInt8
end Emitter.Generated.GoPrelude
`

func writeIfChanged(path, content string) {
	if old, err := os.ReadFile(path); err == nil && string(old) == content {
		return
	}
	if err := os.WriteFile(path, []byte(content), 0o644); err != nil {
		fmt.Fprintln(os.Stderr, err)
		os.Exit(2)
	}
}

func parseTargets(path string) ([]*module, error) {
	raw, err := os.ReadFile(path)
	if err != nil {
		return nil, err
	}
	var mods []*module
	for ln, line := range strings.Split(string(raw), "\n") {
		if i := strings.Index(line, "#"); i >= 0 {
			line = line[:i]
		}
		f := strings.Fields(line)
		if len(f) == 0 {
			continue
		}
		bad := fmt.Errorf("%s:%d: cannot parse %q", path, ln+1, line)
		if f[0] == "module" && len(f) == 3 {
			mods = append(mods, &module{name: f[1], dir: f[2], done: map[string]*unit{}})
			continue
		}
		if len(mods) == 0 || len(f) < 2 {
			return nil, bad
		}
		m := mods[len(mods)-1]
		if f[0] == "skip" {
			m.skips = append(m.skips, strings.Join(f[1:], " "))
			continue
		}
		u := &unit{mode: f[0], fn: f[1], opaque: map[string]param{}}
		i := 2
		if (u.mode == "var" || u.mode == "field") && len(f) > 2 {
			u.arg, i = f[2], 3
		}
		for i < len(f) {
			kind := f[i]
			i++
			switch kind {
			case "as":
				if i >= len(f) {
					return nil, bad
				}
				u.as = f[i]
				i++
			case "opaque", "free":
				for ; i < len(f) && strings.Contains(f[i], ":"); i++ {
					spec := f[i]
					c := strings.LastIndex(spec, ":")
					t, ok := basic[spec[c+1:]]
					e := strings.Index(spec, "=")
					if !ok || (kind == "opaque" && e < 0) {
						return nil, bad
					}
					if kind == "free" {
						u.free = append(u.free, param{spec[:c], t})
					} else {
						u.opaque[spec[:e]] = param{spec[e+1 : c], t}
						u.opaqueOrder = append(u.opaqueOrder, spec[:e])
					}
				}
			default:
				return nil, bad
			}
		}
		m.units = append(m.units, u)
	}
	return mods, nil
}

func main() {
	if len(os.Args) != 4 {
		fmt.Fprintln(os.Stderr, "usage: go2lean <repo-root> <targets-file> <lean-output-dir>")
		os.Exit(2)
	}
	repo, out := os.Args[1], os.Args[3]
	mods, err := parseTargets(os.Args[2])
	if err != nil {
		fmt.Fprintln(os.Stderr, err)
		os.Exit(2)
	}
	writeIfChanged(filepath.Join(out, "GoPrelude.lean"), prelude)
	for _, m := range mods {
		var b strings.Builder
		fmt.Fprintf(&b, "-- regenerated from %s of the repository's working tree by tools/go2lean; do not edit\n", m.dir)
		fmt.Fprintf(&b, "import Emitter.Generated.GoPrelude\nset_option linter.unusedVariables false\nnamespace Emitter.Generated.%s\nopen Emitter.Generated.GoPrelude\n\n", m.name)
		p, err := load(filepath.Join(repo, m.dir))
		for _, u := range m.units {
			if err != nil {
				u.err = "package does not parse: " + err.Error()
			} else {
				m.run(p, u)
			}
			if u.err != "" {
				fmt.Printf("refused %s %s: %s\n", m.name, u.key(), u.err)
				fmt.Fprintf(&b, "-- REFUSED `%s` (%s): %s\n\n", u.key(), u.name(), strings.ReplaceAll(u.err, "\n", " "))
				continue
			}
			if u.mode == "fn" {
				m.done[u.fn] = u
			}
			fmt.Printf("ok %s %s -> %s\n", m.name, u.key(), u.name())
			fmt.Fprintf(&b, "/-- `%s`: `%s` -/\n%s\n", u.key(), u.doc, u.lean)
		}
		for _, s := range m.skips {
			fmt.Fprintf(&b, "-- outside the fragment, not translated: %s\n", s)
		}
		fmt.Fprintf(&b, "end Emitter.Generated.%s\n", m.name)
		writeIfChanged(filepath.Join(out, m.name+".lean"), b.String())
	}
}
