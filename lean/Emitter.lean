import Emitter.Model.Base
