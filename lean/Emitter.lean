-- This module serves as the root of the `Emitter` library.
-- Import modules here that should be built as part of the library.
import Emitter.Basic
