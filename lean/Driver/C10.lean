import Driver.Common
import Emitter.Model.Delivery
namespace Driver.C10
open Emitter Emitter.Delivery Driver

/-! ## packets of the harness: PUBLISH, topic "c", payload "<thread>:<seq>:" ++ 'x'* -/

def payloadOf (t seq size : Nat) : Bytes := strBytes s!"{t}:{seq}:" ++ List.replicate size 120

def packetOf (t seq size : Nat) : Outcome Bytes :=
  Mqtt.encode (.publish Mqtt.noHeader [99] 0 (payloadOf t seq size))

def natOfDigits (l : Bytes) : Option Nat :=
  if l.isEmpty || !l.all (fun b => 48 ≤ b && b ≤ 57) then none
  else some (l.foldl (fun n b => n * 10 + (b.toNat - 48)) 0)

/-- `(thread, seq)` of a harness payload; `none` when it is not one (torn or foreign bytes) -/
def parsePayload (pl : Bytes) : Option (Nat × Nat) :=
  match pl.splitOn 58 with
  | [a, b, pad] => do
      let t ← natOfDigits a
      let q ← natOfDigits b
      if pad.all (· == 120) then some (t, q) else none
  | _ => none

def tagOf : Mqtt.Packet → Option (Nat × Nat)
  | .publish h topic _ pl => if h == Mqtt.noHeader && topic == [99] then parsePayload pl else none
  | _ => none

/-! ## the spec predicate on a received byte stream (used for the schedule-dependent `run` lines):
the stream splits into whole packets with the C16 decoder, and every publisher's packets are
exactly 1..per in order -/

def checkStream (pubs per : Nat) (stream : Bytes) : Except String Nat :=
  match decodeAll 65536 (stream.length + 1) stream with
  | .err e => .error s!"framing broken: decoder says {e}"
  | .panic w => .error s!"framing broken: decoder panics {w}"
  | .ok pkts =>
      match pkts.mapM tagOf with
      | none => .error "framing broken: a packet is not one that was published"
      | some tags =>
          if tags.any (fun x => x.1 ≥ pubs) then .error "a packet of an unknown publisher"
          else
            let bad := (List.range pubs).filter (fun t =>
              ((tags.filter (fun x => x.1 == t)).map (·.2)) != (List.range per).map (· + 1))
            match bad with
            | [] => .ok pkts.length
            | t :: _ =>
                let got := (tags.filter (fun x => x.1 == t)).map (·.2)
                let firstBad := ((got.zip ((List.range per).map (· + 1))).find? (fun x => x.1 != x.2)).map (·.1)
                let what := match firstBad with
                  | some q => s!"first deviation: seq {q} at position {(got.takeWhile (· != q)).length + 1}"
                  | none => if got.length < per then s!"seq {got.length + 1}.. never arrived" else "extra packets after the last"
                .error s!"publisher {t}: order/loss/duplication (got {got.length} of {per}, {what})"

def kv (w : String) (k : String) : Option String := (w.dropPrefix? (k ++ "=")).map (·.toString)

def findKv (ws : List String) (k : String) : Option String := ws.findSome? (kv · k)

/-! ## scripted sessions: the harness parks `socket.Write` calls at a gate and releases them one
by one, so the schedule is the script.  The session state is the model state plus what the
script controls. -/

structure Sess where
  ws : Bool := false
  st : State := { threads := fun _ => {} }
  wst : WsState := { threads := fun _ => {} }
  hold : Bool := false                 -- the gate is closed: socket writes park
  tokens : Nat := 1000                 -- what the pinned limiter still admits
  holder : Option Tid := none          -- the thread parked INSIDE a locked region
  parked : List Tid := []
  blocked : Option Tid := none         -- the thread waiting for the lock held by `holder`

def insertSorted (t : Nat) : List Nat → List Nat
  | [] => [t]
  | x :: xs => if t ≤ x then t :: x :: xs else x :: insertSorted t xs

def csv (l : List Nat) : String :=
  if l.isEmpty then "-" else ",".intercalate ((l.foldr insertSorted []).map toString)

def Sess.render (x : Sess) : String :=
  let stream := if x.ws then (if x.wst.frames.isEmpty then "-" else ",".intercalate (x.wst.frames.map hexOfBytes))
                else hexOfBytes x.st.stream
  let q := if x.ws then "-" else if x.holder.isSome then "?" else toString x.st.queue.length
  s!"stream={stream} q={q} parked={csv x.parked} blocked={csv x.blocked.toList}"

/-- let thread `t` run until it returns, parks at the gate or waits for the lock -/
def advance (x : Sess) (t : Tid) : Nat → Sess
  | 0 => x
  | fuel + 1 =>
    let go (a : Action) : Sess :=
      match step? x.st a with
      | some s => advance { x with st := s } t fuel
      | none => x
    match (x.st.threads t).pc with
    | .idle => x
    | .enq _ | .enqf _ => if x.holder.isSome then { x with blocked := some t } else go (.enqueue t)
    | .chk _ | .fl => if x.holder.isSome then { x with blocked := some t } else go (.len t)
    | .direct _ => if x.hold then { x with parked := x.parked ++ [t] } else go (.sock t)
    | .flw =>
        if x.holder.isSome then { x with blocked := some t }
        else if x.hold then { x with parked := x.parked ++ [t], holder := some t }
        else go (.flush t)

def wsAdvance (x : Sess) (t : Tid) : Sess :=
  if x.holder.isSome then { x with blocked := some t }
  else if x.hold then { x with parked := x.parked ++ [t], holder := some t }
  else match wsStep? x.wst t with
    | some s => { x with wst := s }
    | none => x

def busy (x : Sess) (t : Tid) : Bool :=
  x.parked.contains t || x.blocked == some t || (x.holder.isSome && x.blocked.isSome)

def skip : Ans := { m := "skip" }

def step (x : Sess) (ws : List String) (impl : String) : Sess × Ans :=
  match ws with
  | "run" :: tr :: rest =>
      match (findKv rest "pubs").bind (·.toNat?), (findKv rest "per").bind (·.toNat?) with
      | some pubs, some per =>
          let iw := (impl.splitOn " ").filter (· ≠ "")
          match (findKv iw "stream").bind bytesOfHex with
          | none => (x, { m := "stream=<an interleaving of the publishers' packets>" })
          | some stream =>
              let wsOk := tr != "ws" ||
                (findKv iw "frames" == some (toString (pubs * per)) && findKv iw "overlap" == some "0")
              match checkStream pubs per stream with
              | .ok n =>
                  if n == pubs * per && wsOk then (x, { m := impl })
                  else (x, { m := s!"stream=<{pubs * per} packets, one per frame, no overlapping writers>" })
              | .error e => (x, { m := s!"stream=<an interleaving of {pubs}x{per} whole packets> ({e})" })
      | _, _ => (x, bad)
  | ["reset", tr] => ({ ws := tr == "ws" }, { m := "ok" })
  | ["tokens", n] =>
      match n.toNat? with
      | some n => if x.blocked.isSome then (x, skip) else ({ x with tokens := min n 1000 }, { m := "ok" })
      | none => (x, bad)
  | ["hold"] => if x.blocked.isSome then (x, skip) else ({ x with hold := true }, { m := "ok" })
  | ["open"] => if !x.parked.isEmpty then (x, skip) else ({ x with hold := false }, { m := "ok" })
  | ["w", t, seq, size] =>
      match t.toNat?, seq.toNat?, size.toNat? with
      | some t, some seq, some size =>
          if busy x t then (x, skip) else
          match packetOf t seq size with
          | .ok p =>
              if x.ws then
                let th := x.wst.threads t
                let x1 := { x with wst := { x.wst with threads := upd x.wst.threads t { th with todo := th.todo ++ [p] } } }
                let x2 := wsAdvance x1 t
                (x2, { m := x2.render })
              else
                let th := x.st.threads t
                let x1 := { x with st := { x.st with threads := upd x.st.threads t { th with todo := th.todo ++ [p] } } }
                let limited := x1.tokens == 0
                match step? x1.st (.call t limited) with
                | some s =>
                    let x2 := advance { x1 with st := s, tokens := x1.tokens - 1 } t 10
                    (x2, { m := x2.render })
                | none => (x, skip)
          | _ => (x, { m := "err" })
      | _, _, _ => (x, bad)
  | ["flush", t] =>
      match t.toNat? with
      | some t =>
          if x.ws || busy x t then (x, skip) else
          match step? x.st (.tick t) with
          | some s => let x2 := advance { x with st := s } t 10; (x2, { m := x2.render })
          | none => (x, skip)
      | none => (x, bad)
  | ["release", t] =>
      match t.toNat? with
      | some t =>
          if !x.parked.contains t then (x, skip) else
          let wasHolder := x.holder == some t
          let x1 := { x with parked := x.parked.erase t, holder := if wasHolder then none else x.holder }
          let x2 : Sess :=
            if x.ws then
              match wsStep? x1.wst t with
              | some s => { x1 with wst := s }
              | none => x1
            else
              let a : Action := match (x1.st.threads t).pc with
                | .flw => .flush t
                | _ => .sock t
              match step? x1.st a with
              | some s => advance { x1 with st := s } t 10
              | none => x1
          let x3 : Sess :=
            match x2.blocked with
            | some b =>
                if wasHolder then
                  let y := { x2 with blocked := none }
                  if x.ws then wsAdvance y b else advance y b 10
                else x2
            | none => x2
          (x3, { m := x3.render })
      | none => (x, bad)
  | _ => (x, bad)

end Driver.C10
