import Driver.Common
import Emitter.Model.License
namespace Driver.C20
open Emitter Emitter.Cipher Emitter.License Driver

def parseCipher (s : String) : Option CipherSpec :=
  match s.splitOn ":" with
  | ["x", k] => do
      let kb ← bytesOfHex k
      if kb.length != 16 then none else pure (.xtea (xteaKeyOf kb))
  | ["s", k, n] => do pure (.salsa (← bytesOfHex k) (← bytesOfHex n))
  | ["h", k, n] => do pure (.shuffle (← bytesOfHex k) (← bytesOfHex n))
  | _ => none

def validKeyString (s : Bytes) : Bool := s.length == 32 && s.all (fun c => decodeMap c != 0xFF)

def showLicense : Outcome License.License → String
  | .ok (.v1 l) => s!"ok v1 key={hexOfBytes l.encKey} user={l.user} sign={l.sign} master=1 type={l.type} expires={l.expires}"
  | .ok (.v23 l) => s!"ok v{l.version} key={hexOfBytes l.encKey} salt={hexOfBytes l.encSalt} user={l.user} sign={l.sign} master={l.index}"
  | .err _ => "err"
  | .panic _ => "panic"

def noBody : Nat → Bytes → Outcome V23 := fun _ _ => .err "external"

/-- the spec of an encrypt/decrypt round trip is a predicate on the implementation's answer:
the ciphertext is 32 alphabet characters and it decrypts to the key. It does not pin the
ciphertext itself. -/
def rtSpecHolds (impl : String) (k : Bytes) : Bool :=
  match impl.splitOn " " with
  | [e, "dec=ok", d] =>
      match (e.dropPrefix? "enc=").bind (fun x => bytesOfHex x.toString) with
      | some eb => validKeyString eb && d == hexOfBytes k
      | none => false
  | _ => false

def step (ws : List String) (impl : String) : Ans :=
  match ws with
  | ["rt", c, k] =>
      match parseCipher c, bytesOfHex k with
      | some c, some k =>
          match encryptKey c k with
          | .ok e =>
              let d := decryptKey c e
              let m := s!"enc={hexOfBytes e} dec={outcomeHex d}"
              let mOk := validKeyString e && outcomeHex d == "ok " ++ hexOfBytes k
              { m := m,
                s := if rtSpecHolds impl k then impl else if mOk then m else s!"enc=<32 alphabet chars> dec=ok {hexOfBytes k}" }
          | .err _ => { m := "err" }
          | .panic _ => { m := "panic" }
      | _, _ => bad
  | ["dec", c, s] =>
      match parseCipher c, bytesOfHex s with
      | some c, some s =>
          let d := decryptKey c s
          -- spec: not 32 alphabet characters ⇒ error; otherwise some 24-byte key
          let implOkKey : Bool := match impl.splitOn " " with
            | ["ok", h] => (bytesOfHex h).map (·.length == 24) == some true
            | _ => false
          { m := outcomeHex d,
            s := if validKeyString s then (if implOkKey then impl else "=") else "err" }
      | _, _ => bad
  | ["b64", k] =>
      match bytesOfHex k with
      | some k =>
          let e := b64Encode k
          { m := s!"{hexOfBytes e} {outcomeHex (decodeKey e)}", s := s!"{hexOfBytes e} ok {hexOfBytes k}" }
      | none => bad
  | ["lic1", s] =>
      match bytesOfHex s with
      | some s =>
          let r := License.parse noBody s
          let m := showLicense r
          { m := m, s := if r.isPanic then "err" else "=" }
      | none => bad
  | ["licstr1", k, u, sg] =>
      match bytesOfHex k, u.toNat?, sg.toNat? with
      | some k, some u, some sg =>
          let l : V1 := { encKey := k, user := UInt32.ofNat u, sign := UInt32.ofNat sg, expires := 0, type := 2 }
          let str := l.toString
          let back := License.parse noBody str
          { m := s!"{hexOfBytes str} {showLicense back}", s := s!"{hexOfBytes str} {showLicense (.ok (.v1 l))}" }
      | _, _, _ => bad
  | ["licrt", _, _, _, _] => { m := "same" }
  | ["licmut", _] => { m := "nopanic" }
  | _ => bad

end Driver.C20
