import Driver.Common
import Emitter.Model.Lww
namespace Driver.C04
open Emitter Emitter.Lww Driver

structure Rep where
  durable : Bool := false
  sub : Durable := {}
  ban : Durable := {}
  conn : Durable := {}

def Rep.sel (r : Rep) : SetId → Durable
  | .sub => r.sub
  | .ban => r.ban
  | .conn => r.conn

def Rep.upd (r : Rep) (i : SetId) (d : Durable) : Rep :=
  match i with
  | .sub => { r with sub := d }
  | .ban => { r with ban := d }
  | .conn => { r with conn := d }

structure St where
  reps : Array Rep := #[]
  last : Array (Option State) := #[]
  clock : Int := 1

def parseSet (s : String) : Option SetId :=
  match s with
  | "sub" => some .sub
  | "ban" => some .ban
  | "conn" => some .conn
  | _ => none

/-- byte-wise order of keys, as Go's sort.Strings on the hex rendering gives -/
def entryStr (name : String) (e : Bytes × Val) : String :=
  s!"{name}:{hexOfBytes e.1}:({e.2.add},{e.2.del}):{hexOfBytes e.2.payload}"

def dumpMaps (a b c : Map) : String :=
  let l := a.map (entryStr "sub") ++ b.map (entryStr "ban") ++ c.map (entryStr "conn")
  if l.isEmpty then "empty" else ",".intercalate (l.toArray.qsort (· < ·)).toList

def dumpState (s : State) : String := dumpMaps s.sub s.ban s.conn
def dumpRep (r : Rep) : String := dumpMaps r.sub.db r.ban.db r.conn.db

/-- `State.Merge(other)` on a replica (volatile replicas never touch the cache) -/
def repMerge (r : Rep) (o : State) : Rep × Option State :=
  let (a, da) := r.sub.merge o.sub
  let (b, db) := r.ban.merge o.ban
  let (c, dc) := r.conn.merge o.conn
  ({ r with sub := a, ban := b, conn := c },
   if da.length + db.length + dc.length == 0 then none else some ⟨da, db, dc⟩)

def repState (r : Rep) : State := ⟨r.sub.db, r.ban.db, r.conn.db⟩

def mergeInto (st : St) (dst : Nat) (o : State) : St × Ans :=
  match st.reps[dst]? with
  | some r =>
      let (r', d) := repMerge r o
      let specOk := match d with
        | some dd => dumpState dd
        | none => "nil"
      ({ st with reps := st.reps.set! dst r', last := st.last.set! dst d }, { m := specOk })
  | none => (st, bad)

def step (st : St) (ws : List String) (_impl : String) : St × Ans :=
  match ws with
  | ["reset", n, b] =>
      match n.toNat? with
      | some n =>
          let mk (i : Nat) : Rep := { durable := b == "d" || (b == "m" && i % 2 == 0) }
          ({ reps := (Array.range n).map mk, last := Array.replicate n none, clock := 1 }, { m := "ok" })
      | none => (st, bad)
  | ["clock", t] =>
      match t.toInt? with
      | some t => ({ st with clock := t }, { m := "ok" })
      | none => (st, bad)
  | ["add", r, s, k, p] =>
      match r.toNat?, parseSet s, bytesOfHex k, bytesOfHex p with
      | some r, some s, some k, some p =>
          match st.reps[r]? with
          | some rep => ({ st with reps := st.reps.set! r (rep.upd s ((rep.sel s).add k st.clock p)) }, { m := "ok" })
          | none => (st, bad)
      | _, _, _, _ => (st, bad)
  | ["del", r, s, k] =>
      match r.toNat?, parseSet s, bytesOfHex k with
      | some r, some s, some k =>
          match st.reps[r]? with
          | some rep => ({ st with reps := st.reps.set! r (rep.upd s ((rep.sel s).del k st.clock)) }, { m := "ok" })
          | none => (st, bad)
      | _, _, _ => (st, bad)
  | ["sync", dst, src] =>
      match dst.toNat?, src.toNat? with
      | some dst, some src =>
          match st.reps[src]? with
          | some r => mergeInto st dst (repState r)
          | none => (st, bad)
      | _, _ => (st, bad)
  | ["relay", dst, frm, mode] =>
      match dst.toNat?, frm.toNat? with
      | some dst, some frm =>
          match st.last[frm]? with
          | some (some d) =>
              if mode == "enc" then mergeInto st dst d
              else if dst == frm then (st, { m := "nil" })
              else mergeInto { st with last := st.last.set! frm none } dst d
          | some none => (st, { m := "nil" })
          | none => (st, bad)
      | _, _ => (st, bad)
  | "inject" :: dst :: s :: k :: a :: d :: p :: _ =>
      match dst.toNat?, parseSet s, bytesOfHex k, a.toInt?, d.toInt?, bytesOfHex p with
      | some dst, some s, some k, some a, some d, some p =>
          mergeInto st dst ((({} : State)).upd s [(k, ⟨a, d, p⟩)])
      | _, _, _, _, _, _ => (st, bad)
  | ["get", r, s, k] =>
      match r.toNat?, parseSet s, bytesOfHex k with
      | some r, some s, some k =>
          match st.reps[r]? with
          | some rep =>
              if rep.durable then
                -- Get then Has: both go through fetch
                let (v, d1) := (rep.sel s).fetch k
                let (h, d2) := d1.has k
                let truth := get (rep.sel s).db k
                ({ st with reps := st.reps.set! r (rep.upd s d2) },
                 { m := s!"({v.add},{v.del}) has={h}", s := s!"({truth.add},{truth.del}) has={truth.isAdded}" })
              else
                let v := get (rep.sel s).db k
                (st, { m := s!"({v.add},{v.del}) has={v.isAdded}" })
          | none => (st, bad)
      | _, _, _ => (st, bad)
  | ["dump", r] =>
      match r.toNat? with
      | some r =>
          match st.reps[r]? with
          | some rep => (st, { m := dumpRep rep })
          | none => (st, bad)
      | none => (st, bad)
  | _ => (st, bad)

end Driver.C04
