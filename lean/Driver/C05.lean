import Driver.Common
import Emitter.Model.Cluster
import Emitter.Model.Hash
namespace Driver.C05
open Emitter Emitter.Lww Emitter.Cluster Driver

structure Client where
  name : String
  broker : PeerName
  luid : ConnId
deriving Repr

structure St where
  c : Cluster := {}
  contract : UInt32 := 0
  clock : Int := 1
  clients : List Client := []
  /-- the client history, and nothing else: (broker, connection, filter) of every live subscription -/
  truth : List (PeerName × ConnId × Ssid) := []
  /-- the replicated state of every broker as the pointwise maximum of everything it was given
  (kept apart from the model's merge code: the specification of C04 / C13) -/
  spec : List (PeerName × List (Bytes × Int × Int)) := []
  /-- flags raised so far, by broker -/
  flags : List (PeerName × Flag) := []

/-! ## rendering (same canonical text as harness/c05) -/

def sortStrs (l : List String) : List String := (l.toArray.qsort (· < ·)).toList

def ssidStr (σ : Ssid) : String := "/".intercalate (σ.map (fun w => toString w.toNat))

def keyStr (k : Bytes) : Option String :=
  (decKey k).map (fun sk => s!"{sk.peer}.{sk.conn}.{ssidStr sk.ssid}")

def entriesStr (es : List (Bytes × Int × Int)) : String :=
  "{" ++ ",".intercalate (sortStrs (es.filterMap (fun e => (keyStr e.1).map (fun ks => s!"{ks}:{e.2.1}:{e.2.2}")))) ++ "}"

def mapStr (m : Map) : String := entriesStr (m.map (fun e => (e.1, e.2.add, e.2.del)))

def countersStr (cs : List (PeerName × Ssid × Nat)) : String :=
  "{" ++ ",".intercalate (sortStrs (cs.map (fun e => s!"{e.1}:{ssidStr e.2.1}={e.2.2}"))) ++ "}"

def routesStr (rs : List (Ssid × PeerName)) : String :=
  "{" ++ ",".intercalate (sortStrs (rs.map (fun e => s!"{ssidStr e.1}>{e.2}"))) ++ "}"

def membersStr (ms : Members) : String :=
  let sorted := (ms.toArray.qsort (fun a b => a.1 < b.1)).toList
  "{" ++ ",".intercalate (sorted.map (fun e => s!"{e.1}:{if e.2.active then 1 else 0}")) ++ "}"

def dumpModel (b : Broker) : String :=
  let cs := b.members.flatMap (fun e => e.2.subs.map (fun c => (e.1, c.1, c.2)))
  s!"s={mapStr b.state} c={countersStr cs} r={routesStr (b.routes.map (fun r => (r.1, r.2.1)))} m={membersStr b.members}"

/-- the invariant as a specification: counters and routes as functions of the (spec) state -/
def activeKeys (es : List (Bytes × Int × Int)) : List SubKey :=
  es.filterMap (fun e => if e.2.1 != 0 && e.2.1 ≥ e.2.2 then decKey e.1 else none)

def countPairs (ks : List (PeerName × Ssid)) : List (PeerName × Ssid × Nat) :=
  ks.eraseDups.map (fun k => (k.1, k.2, (ks.filter (· == k)).length))

def dumpSpec (self : PeerName) (es : List (Bytes × Int × Int)) (ms : Members) : String :=
  let remote := ((activeKeys es).filter (fun sk => sk.peer != self)).map (fun sk => (sk.peer, sk.ssid))
  let cs := countPairs remote
  s!"s={entriesStr es} c={countersStr cs} r={routesStr (cs.map (fun e => (e.2.1, e.1)))} m={membersStr ms}"

/-! ## the specification's state: pointwise maximum -/

def specGet (es : List (Bytes × Int × Int)) (k : Bytes) : Int × Int := (es.lookup k).getD (0, 0)

def specJoin (es : List (Bytes × Int × Int)) (r : List (Bytes × Int × Int)) : List (Bytes × Int × Int) :=
  r.foldl (fun es e =>
    let old := specGet es e.1
    let new := (max old.1 e.2.1, max old.2 e.2.2)
    if new == old then es else (e.1, new) :: es.filter (fun x => x.1 != e.1)) es

/-- what is new in `r` against `es` (C13: the delta carries exactly the newer times) -/
def specDelta (es : List (Bytes × Int × Int)) (r : List (Bytes × Int × Int)) : List (Bytes × Int × Int) :=
  r.filterMap (fun e =>
    let old := specGet es e.1
    let d : Int × Int := (if old.1 < e.2.1 then e.2.1 else 0, if old.2 < e.2.2 then e.2.2 else 0)
    if d == (0, 0) then none else some (e.1, d))

def St.specOf (st : St) (p : PeerName) : List (Bytes × Int × Int) := (st.spec.lookup p).getD []
def St.setSpec (st : St) (p : PeerName) (es : List (Bytes × Int × Int)) : St :=
  { st with spec := (p, es) :: st.spec.filter (fun e => e.1 != p) }

def timesOf (m : Map) : List (Bytes × Int × Int) := m.map (fun e => (e.1, e.2.add, e.2.del))

/-! ## helpers -/

def St.client? (st : St) (n : String) : Option Client := st.clients.find? (·.name == n)

/-- `message.NewSsid(contract, channel.Query)`: the contract and the hash of every channel level -/
def splitLevels (ch : Bytes) : List Bytes :=
  let r := ch.foldl (fun (acc : List Bytes × Bytes) c => if c == 47 then (acc.1 ++ [acc.2], []) else (acc.1, acc.2 ++ [c])) ([], [])
  (r.1 ++ [r.2]).filter (fun p => !p.isEmpty)

def ssidOf (contract : UInt32) (ch : Bytes) : Ssid := contract :: (splitLevels ch).map Hash.hashOf

def St.flagsOf (st : St) (p : PeerName) : String :=
  let fs := ((st.flags.filter (fun e => e.1 == p)).map (·.2)).eraseDups
  if fs.isEmpty then "-" else ",".intercalate fs

def St.allFlags (st : St) : String :=
  let fs := (st.flags.map (·.2)).eraseDups
  if fs.isEmpty then "-" else ",".intercalate fs

def St.addFlags (st : St) (p : PeerName) (fs : List Flag) : St :=
  { st with flags := st.flags ++ fs.map (fun f => (p, f)) }

def St.apply (st : St) (e : Ev) : St × Res :=
  let r := st.c.step e
  ({ st with c := r.1 }, r.2)

/-- answer of an op that changes broker `p`: the model's dump, the invariant's dump, p's flags -/
def St.dumpAns (st : St) (p : PeerName) (pre : String := "") (preS : String := "") : Ans :=
  match st.c.broker? p with
  | some b => { m := pre ++ dumpModel b, s := preS ++ dumpSpec p (st.specOf p) b.members, f := st.flagsOf p }
  | none => bad

def wireStr : Wire → String
  | .gossip m => "gossip:" ++ mapStr m
  | .bcast src m => s!"bcast:{src}:{mapStr m}"

def parseRelay (s : String) : Option (List PeerName) :=
  if s == "-" then some [] else (s.splitOn ",").mapM (·.toNat?)

/-! ## deliver / drain -/

def St.deliver (st : St) (a b : PeerName) (relay : List PeerName) (keep : Bool) (rev : WalkOrder := .forward) : St × Ans :=
  match (st.c.link a b).wire, st.c.broker? b with
  | w :: _, some _ =>
      let (st1, res) := st.apply (.deliver a b relay keep rev)
      let st1 := st1.addFlags b res.flags
      let payload := match w with
        | .gossip m => some m
        | .bcast src m => if src == b then none else some m
      let (st2, sd) := match payload with
        | some m =>
            let old := st1.specOf b
            let d := specDelta old (timesOf m)
            (st1.setSpec b (specJoin old (timesOf m)), if d.isEmpty then "nil" else entriesStr d)
        | none => (st1, "nil")
      let md := match res.delta with
        | some d => mapStr d
        | none => "nil"
      (st2, st2.dumpAns b s!"delta={md} " s!"delta={sd} ")
  | _, _ => (st, { m := "none" })

def St.pickAll (st : St) (a b : PeerName) : Nat → St
  | 0 => st
  | fuel + 1 =>
      let l := st.c.link a b
      let src := match l.gossip, l.bcasts with
        | none, (s, _) :: _ => s
        | _, _ => 0
      let (st1, res) := st.apply (.pick a b src)
      match res.picked with
      | some _ => St.pickAll st1 a b fuel
      | none => st

/-- FNV-1a (32 bit), as harness/c05 computes it over the answer of a delivery -/
def fnv (s : String) : UInt32 :=
  s.toUTF8.foldl (fun h b => (h ^^^ b.toUInt32) * 16777619) 2166136261

def hex32 (x : UInt32) : String :=
  let ds := (Nat.toDigits 16 x.toNat)
  String.ofList ds

def orders : List WalkOrder := [.forward, .reverse, .addsFirst, .removesFirst]

/-- the answer under the first walk order that explains the implementation's answer (the forward one if none does) -/
def firstMatching (run : WalkOrder → St × Ans) (ok : St × Ans → Bool) : St × Ans :=
  match (orders.map run).find? ok with
  | some r => r
  | none => run .forward

/-- deliver everything on link a→b; each delta is walked in the order that explains the
implementation's answer for that delivery (`tags`: its FNV per delivery, in drain order) -/
def St.deliverAll (st : St) (tags : List String) (a b : PeerName) (n : Nat) : Nat → St × Nat
  | 0 => (st, n)
  | fuel + 1 =>
      if (st.c.link a b).wire.isEmpty then (st, n) else
      let relay := (st.c.neighbours b).filter (· != a)
      let want := tags[n]?
      let r := firstMatching (fun o => st.deliver a b relay false o) (fun r => want == some (hex32 (fnv r.2.m)))
      St.deliverAll r.1 tags a b (n + 1) fuel

def St.pending (st : St) : Bool :=
  st.c.links.any (fun e => e.2.up && (e.2.gossip.isSome || !e.2.bcasts.isEmpty || !e.2.wire.isEmpty))

def St.sweep (st : St) (tags : List String) (n : Nat) : St × Nat :=
  let names := st.c.brokers.map (·.self)
  names.foldl (fun acc a => names.foldl (fun acc b =>
    if a == b || !(acc.1.c.link a b).up then acc else
    let st1 := acc.1.pickAll a b 64
    st1.deliverAll tags a b acc.2 256) acc) (st, n)

def St.drain (st : St) (tags : List String) (n : Nat) : Nat → St × Nat
  | 0 => (st, n)
  | fuel + 1 => if !st.pending then (st, n) else let r := st.sweep tags n; St.drain r.1 tags r.2 fuel

def St.allDumps (st : St) : String :=
  " | ".intercalate (st.c.brokers.map dumpModel)

/-! ## publishing -/

def St.nameOf (st : St) (p : PeerName) (cn : ConnId) : String :=
  match st.clients.find? (fun c => c.broker == p && c.luid == cn) with
  | some c => c.name
  | none => s!"?{p}.{cn}"

def pubStr (fwd : List PeerName) (got : List String) : String :=
  let f := (fwd.toArray.qsort (· < ·)).toList
  s!"fwd={",".intercalate (f.map toString)} got={",".intercalate (sortStrs got)}"

/-! ## the line protocol -/

def step (st : St) (ws : List String) (_impl : String) : St × Ans :=
  match ws with
  | ["reset", n, mode, _spec, contract, _sign] =>
      match n.toNat?, contract.toNat? with
      | some n, some ct =>
          let m : Trie.Mode := if mode == "mqtt" then .mqtt else .emitter
          ({ c := Cluster.init m n, contract := UInt32.ofNat ct }, { m := "ok" })
      | _, _ => (st, bad)
  | ["clock", t] =>
      match t.toInt? with
      | some t => ({ st with clock := t }, { m := "ok" })
      | none => (st, bad)
  | ["conn", b, name, luid] =>
      match b.toNat?, luid.toNat? with
      | some b, some l => ({ st with clients := st.clients ++ [⟨name, b, l⟩] }, { m := "ok" })
      | _, _ => (st, bad)
  | ["sub", name, ch] =>
      match st.client? name, bytesOfHex ch with
      | some cl, some chb =>
          let σ := ssidOf st.contract chb
          let live := st.truth.contains (cl.broker, cl.luid, σ)
          let (st1, res) := st.apply (.sub cl.broker cl.luid σ st.clock)
          let st1 := st1.addFlags cl.broker res.flags
          let st1 := if live then st1 else
            { st1.setSpec cl.broker (specJoin (st1.specOf cl.broker) [(encKey cl.broker cl.luid σ, st.clock, 0)]) with
              truth := (cl.broker, cl.luid, σ) :: st1.truth }
          (st1, st1.dumpAns cl.broker)
      | _, _ => (st, bad)
  | ["unsub", name, ch] =>
      match st.client? name, bytesOfHex ch with
      | some cl, some chb =>
          let σ := ssidOf st.contract chb
          let live := st.truth.contains (cl.broker, cl.luid, σ)
          let (st1, res) := st.apply (.unsub cl.broker cl.luid σ st.clock)
          let st1 := st1.addFlags cl.broker res.flags
          let st1 := if !live then st1 else
            { st1.setSpec cl.broker (specJoin (st1.specOf cl.broker) [(encKey cl.broker cl.luid σ, 0, st.clock)]) with
              truth := st1.truth.filter (fun e => e != (cl.broker, cl.luid, σ)) }
          (st1, st1.dumpAns cl.broker)
      | _, _ => (st, bad)
  | ["close", name] =>
      match st.client? name with
      | some cl =>
          let mine := st.truth.filter (fun e => e.1 == cl.broker && e.2.1 == cl.luid)
          let (st1, res) := st.apply (.close cl.broker cl.luid st.clock)
          let st1 := st1.addFlags cl.broker res.flags
          let es := mine.map (fun e => (encKey cl.broker cl.luid e.2.2, (0 : Int), st.clock))
          let st1 := { st1.setSpec cl.broker (specJoin (st1.specOf cl.broker) es) with
            truth := st1.truth.filter (fun e => !(e.1 == cl.broker && e.2.1 == cl.luid)),
            clients := st1.clients.filter (fun c => c.name != name) }
          (st1, st1.dumpAns cl.broker)
      | none => (st, bad)
  | ["pick", a, b, src] =>
      match a.toNat?, b.toNat?, src.toNat? with
      | some a, some b, some src =>
          let (st1, res) := st.apply (.pick a b src)
          (st1, { m := match res.picked with | some w => wireStr w | none => "none" })
      | _, _, _ => (st, bad)
  | ["deliver", a, b, keep, relay] =>
      match a.toNat?, b.toNat?, parseRelay relay with
      | some a, some b, some relay =>
          -- the delta is walked in Go map order: where that order matters (only on flagged, i.e.
          -- already desynchronised, counters) the order that explains the implementation's answer is taken
          (firstMatching (fun o => st.deliver a b relay (keep == "1") o) (fun r => r.2.m == _impl))
      | _, _, _ => (st, bad)
  | ["gossip", a, b] =>
      match a.toNat?, b.toNat? with
      | some a, some b => ((st.apply (.gossip a b)).1, { m := "ok" })
      | _, _ => (st, bad)
  | ["linkdown", a, b] =>
      match a.toNat?, b.toNat? with
      | some a, some b => ((st.apply (.linkDown a b)).1, { m := "ok" })
      | _, _ => (st, bad)
  | ["linkup", a, b] =>
      match a.toNat?, b.toNat? with
      | some a, some b => ((st.apply (.linkUp a b)).1, { m := "ok" })
      | _, _ => (st, bad)
  | ["touch", b, p] =>
      match b.toNat?, p.toNat? with
      | some b, some p => let st1 := (st.apply (.touch b p)).1; (st1, st1.dumpAns b)
      | _, _ => (st, bad)
  | ["expire", b, p] =>
      match b.toNat?, p.toNat? with
      | some b, some p => let st1 := (st.apply (.expire b p)).1; (st1, st1.dumpAns b)
      | _, _ => (st, bad)
  | ["offline", b, p] =>
      match b.toNat?, p.toNat? with
      | some b, some p =>
          -- the specification's state follows what the state is given: the removes onPeerOffline stamps
          let act := match st.c.broker? b with
            | some br => if (mget br.members p).isSome then activeOf br.state p else []
            | none => []
          let (st1, res) := st.apply (.offline b p st.clock)
          let st1 := st1.addFlags b res.flags
          let st1 := st1.setSpec b (specJoin (st1.specOf b) (act.map (fun e => (encKey b e.1 e.2, (0 : Int), st.clock))))
          (st1, st1.dumpAns b)
      | _, _ => (st, bad)
  | ["inject", b, peer, conn, ch, add, del] =>
      match b.toNat?, peer.toNat?, conn.toNat?, bytesOfHex ch, add.toInt?, del.toInt? with
      | some b, some peer, some conn, some chb, some add, some del =>
          match st.c.broker? b with
          | some br =>
              let m : Map := [(encKey peer conn (ssidOf st.contract chb), ⟨add, del, []⟩)]
              let run (rev : WalkOrder) : St × Ans :=
                let r := mergeStep rev br m
                let st1 := ({ st with c := st.c.setBroker r.broker }).addFlags b r.flags
                let old := st1.specOf b
                let d := specDelta old (timesOf m)
                let st2 := st1.setSpec b (specJoin old (timesOf m))
                let md := match r.delta with | some d => mapStr d | none => "nil"
                (st2, st2.dumpAns b s!"delta={md} " s!"delta={if d.isEmpty then "nil" else entriesStr d} ")
              firstMatching run (fun r => r.2.m == _impl)
          | none => (st, bad)
      | _, _, _, _, _, _ => (st, bad)
  | ["drain"] =>
      -- the implementation's answer carries one tag per delivery: "n=.. t=a.b.c <dumps>"
      let tags := match (_impl.splitOn " t=") with
        | _ :: rest :: _ => ((rest.splitOn " ").headD "").splitOn "."
        | _ => []
      let r := st.drain tags 0 200
      let ts := match (_impl.splitOn " t=") with
        | _ :: rest :: _ => (rest.splitOn " ").headD ""
        | _ => ""
      (r.1, { m := s!"n={r.2} t={ts} {r.1.allDumps}" })
  | ["quiesce"] => (st, { m := "ok" })
  | ["dump", b] =>
      match b.toNat? with
      | some b => (st, st.dumpAns b)
      | none => (st, bad)
  | ["qdump", b] =>
      match b.toNat? with
      | some b =>
          match st.c.broker? b with
          | some br =>
              let act := (br.state.filter (fun e => e.2.isAdded)).filterMap (fun e => keyStr e.1)
              let cs := br.members.flatMap (fun e => e.2.subs.map (fun c => (e.1, c.1, c.2)))
              let m := s!"a=\{{",".intercalate (sortStrs act)}} c={countersStr cs} r={routesStr (br.routes.map (fun r => (r.1, r.2.1)))}"
              -- from the client history alone
              let tAct := st.truth.map (fun e => s!"{e.1}.{e.2.1}.{ssidStr e.2.2}")
              let tc := countPairs ((st.truth.filter (fun e => e.1 != b)).map (fun e => (e.1, e.2.2)))
              let s := s!"a=\{{",".intercalate (sortStrs tAct)}} c={countersStr tc} r={routesStr (tc.map (fun e => (e.2.1, e.1)))}"
              (st, { m := m, s := s, f := st.allFlags })
          | none => (st, bad)
      | none => (st, bad)
  | [op, name, ch, _payload] =>
      if op != "pub" && op != "qpub" then (st, bad) else
      match st.client? name, bytesOfHex ch with
      | some cl, some chb =>
          let q := ssidOf st.contract chb
          let r := st.c.publish cl.broker q
          let m := pubStr r.fwd (r.got.map (fun g => st.nameOf g.1 g.2))
          if op == "pub" then (st, { m := m }) else
          -- at quiescence, from the client history alone: forwarded to exactly the other brokers with a
          -- live matching subscription, received once by every client that holds one
          let hits := st.truth.filter (fun e => Trie.matchesMode st.c.mode e.2.2 q)
          let fwd := ((hits.filter (fun e => e.1 != cl.broker)).map (·.1)).eraseDups
          let got := (hits.map (fun e => (e.1, e.2.1))).eraseDups.map (fun g => st.nameOf g.1 g.2)
          (st, { m := m, s := pubStr fwd got, f := st.allFlags })
      | _, _ => (st, bad)
  | _ => (st, bad)

end Driver.C05
