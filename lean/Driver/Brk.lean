import Driver.Common
import Driver.Sec
import Emitter.Model.Broker
import Emitter.Model.Mqtt
import Emitter.Spec.Retained
namespace Driver.Brk
open Emitter Emitter.Security Emitter.Broker Emitter.Trie Driver

structure St where
  b : B := {}
  cipher : Cipher.CipherSpec := .xtea ⟨0, 0, 0, 0⟩
  contract : UInt32 := 0
  sign : UInt32 := 0
  now : Int := 0
  remoteBanned : List Bytes := []
  keys : List (String × Bytes) := []        -- key name ↦ key string
  order : List String := []                  -- client names in creation order
  deaf : List String := []                   -- connections whose socket fails every write (injected fault)

def St.env (st : St) (banned : List Bytes) : Env :=
  { cipher := st.cipher, contractId := st.contract, signature := st.sign, now := st.now, banned := banned }

def St.auth (st : St) : Auth := fun banned ch perm =>
  let env : Env := { cipher := st.cipher, contractId := st.contract, signature := st.sign, now := st.now, banned := banned }
  (authorize env ch perm).map (fun k => ⟨k.contract, k.permissions⟩)

def showPkt : Pkt → String
  | .connack rc => s!"connack:{rc}"
  | .pub t p => s!"pub:{hexOfBytes t}:{hexOfBytes p}"
  | .suback mid q => s!"suback:{mid}:{hexOfBytes q}"
  | .unsuback mid => s!"unsuback:{mid}"
  | .puback mid => s!"puback:{mid}"
  | .json t f => "pub:" ++ hexOfBytes t ++ ":J{" ++ f ++ "}"

/-- sort the maximal run of plain `pub:` packets that directly precedes a suback -/
def sortHistory (ps : List String) : List String :=
  match ps.findIdx? (fun p => p.startsWith "suback:") with
  | none => ps
  | some i =>
      let pre := ps.take i
      let tail := ps.drop i
      let histRev := pre.reverse.takeWhile (fun p => p.startsWith "pub:" && (p.splitOn ":J{").length < 2)
      let keep := pre.take (pre.length - histRev.length)
      keep ++ (histRev.toArray.qsort (· < ·)).toList ++ tail

/-- presence notifications are dispatched by their own goroutine: relative to the packets the
connection's own goroutine writes they may arrive earlier or later, so they are listed after
them (in queue order among themselves) -/
def isNotification (p : String) : Bool :=
  (p.splitOn "event=subscribe").length > 1 || (p.splitOn "event=unsubscribe").length > 1

def renderOut (st : St) (out : Out) (sortAll sortHist : Bool) (drop : Option String) : String :=
  let parts := st.order.filterMap (fun n =>
    if drop == some n || st.deaf.contains n then none else
    let ps := (out.filter (·.1 == n)).map (fun e => showPkt e.2)
    let ps := ps.filter (!isNotification ·) ++ ps.filter isNotification
    if ps.isEmpty then none else
    let ps := if sortAll then (ps.toArray.qsort (· < ·)).toList else if sortHist then sortHistory ps else ps
    some (n ++ "<" ++ "|".intercalate ps))
  if parts.isEmpty then "-" else " ".intercalate parts

/-- the key string of a key name; a name that was never minted is the invalid key "nokey" -/
def St.keyOf (st : St) (k : String) : Bytes := (st.keys.lookup k).getD (strBytes "nokey")

def St.topic (st : St) (k rest : String) : Option Bytes := do
  let r ← bytesOfHex rest
  if k == "-" then pure r
  else if k == "emitter" then pure (strBytes "emitter" ++ r)
  else
    pure ((st.keyOf k) ++ r)

def apply (st : St) (name : String) (r : Req) (sortAll sortHist : Bool) (drop : Option String) : St × Ans :=
  let (b, out) := step st.auth st.b name r
  ({ st with b := b }, { m := renderOut st out sortAll sortHist drop })

def stepLine (st : St) (ws : List String) (_impl : String) : St × Ans :=
  match ws with
  | ["reset", mode, c, contract, sign, now] =>
      match C20.parseCipher c, contract.toNat?, sign.toNat?, Sec.kvInt now "now" with
      | some c, some ct, some sg, some now =>
          ({ b := { mode := if mode == "mqtt" then .mqtt else .emitter }, cipher := c,
             contract := UInt32.ofNat ct, sign := UInt32.ofNat sg, now := now }, { m := "ok" })
      | _, _, _, _ => (st, bad)
  | ["key", name, salt, master, contract, sign, perms, target, expires] =>
      match salt.toNat?, master.toNat?, contract.toNat?, sign.toNat?, perms.toNat?, expires.toInt? with
      | some salt, some master, some contract, some sign, some perms, some expires =>
          match Sec.mkKey salt master contract sign perms target expires with
          | some k =>
              match Cipher.encryptKey st.cipher k with
              | .ok ks => ({ st with keys := (name, ks) :: st.keys }, { m := hexOfBytes ks })
              | _ => (st, bad)
          | none => (st, { m := "bad-target" })
      | _, _, _, _, _, _ => (st, bad)
  | ["transport", _] => (st, { m := "ok" })
  | ["conn", name, guid] =>
      match (guid.dropPrefix? "guid=").bind (fun g => bytesOfHex g.toString) with
      | some g => ({ st with b := accept st.b name g, order := st.order ++ [name] }, { m := "ok" })
      | none => (st, bad)
  | ["connect", name, user, wf, wr, wk, wt, wm] =>
      match bytesOfHex user, st.topic wk wt, bytesOfHex wm with
      | some user, some wt, some wm => apply st name (.connect user (wf == "1") (wr == "1") wt wm) false false none
      | _, _, _ => (st, bad)
  | ["sub", name, mid, k, rest, qos] =>
      match mid.toNat?, st.topic k rest, qos.toNat? with
      | some mid, some t, some q =>
          -- the broker model has no clock: every stored message of a session carries the session's second, so a
          -- from/until window either contains all of them or none (Spec.inWindow); in the latter case nothing is replayed
          let ch := parseChannel (fixTopic t)
          if Broker.Spec.inWindow st.now ch.window then
            apply st name (.subscribe (UInt16.ofNat mid) t (UInt8.ofNat q)) false true none
          else
            let (b, out) := step st.auth st.b name (.subscribe (UInt16.ofNat mid) t (UInt8.ofNat q))
            let out := out.filter (fun e => !(e.1 == name && (match e.2 with | .pub _ _ => true | _ => false)))
            ({ st with b := b }, { m := renderOut st out false true none })
      | _, _, _ => (st, bad)
  | ["unsub", name, mid, k, rest] =>
      match mid.toNat?, st.topic k rest with
      | some mid, some t => apply st name (.unsubscribe (UInt16.ofNat mid) t) false false none
      | _, _ => (st, bad)
  | ["burst", _hold, n, mid0, k, rest, _watcher, names] =>
      -- every listed connection sends n SUBSCRIBE / UNSUBSCRIBE pairs back to back, all at once; the
      -- comparison groups notifications per source connection, so the model serves the connections one
      -- after the other
      match n.toNat?, mid0.toNat?, st.topic k rest with
      | some n, some mid0, some t =>
          let (b, out) := (names.splitOn ",").foldl (fun (acc : B × Out) name =>
            (List.range n).foldl (fun (acc : B × Out) i =>
              let (b1, o1) := step st.auth acc.1 name (.subscribe (UInt16.ofNat (mid0 + 2 * i)) t 0)
              let (b2, o2) := step st.auth b1 name (.unsubscribe (UInt16.ofNat (mid0 + 2 * i + 1)) t)
              (b2, acc.2 ++ o1 ++ o2)) acc) (st.b, [])
          ({ st with b := b }, { m := renderOut st out false false none })
      | _, _, _ => (st, bad)
  | ["pub", name, qos, retain, mid, k, rest, payload] =>
      match qos.toNat?, mid.toNat?, st.topic k rest, bytesOfHex payload with
      | some q, some mid, some t, some p =>
          apply st name (.publish (UInt8.ofNat q) (retain == "1") (UInt16.ofNat mid) t p) false false none
      | _, _, _, _ => (st, bad)
  | ["link", name, mid, nm, k, chan, sub] =>
      match mid.toNat?, bytesOfHex nm, (if k == "-" then some [] else some (st.keyOf k)), bytesOfHex chan with
      | some mid, some nm, some ks, some chan => apply st name (.link (UInt16.ofNat mid) nm ks chan (sub == "1")) false false none
      | _, _, _, _ => (st, bad)
  | ["presence", name, mid, k, chan, status, changes] =>
      match mid.toNat?, (if k == "-" then some [] else some (st.keyOf k)), bytesOfHex chan with
      | some mid, some ks, some chan =>
          let ch := if changes == "1" then some true else if changes == "0" then some false else none
          apply st name (.presence (UInt16.ofNat mid) ks chan (status == "1") ch) false false none
      | _, _, _ => (st, bad)
  | ["keyban", name, mid, sk, tk, banned] =>
      match mid.toNat?, some (st.keyOf sk), some (st.keyOf tk), st.b.conn? name with
      | some mid, some secret, some target, some c =>
          if !c.alive then (st, { m := "-" }) else
          let env := st.env st.b.banned
          let topic := hexOfBytes (emitterTopic "keyban")
          let deny : St × Ans := (st, { m := name ++ "<pub:" ++ topic ++ ":J{req=" ++ toString mid ++ ",status=401}|puback:" ++ toString mid })
          let want := banned == "1"
          let r := Security.keyban env secret target want
          if r.2 != 200 then deny else
          ({ st with b := { st.b with banned := r.1 } },
           { m := name ++ "<pub:" ++ topic ++ ":J{banned=" ++ toString want ++ ",req=" ++ toString mid ++ ",status=200}|puback:" ++ toString mid })
      | _, _, _, _ => (st, bad)
  | ["keygen", name, mid, pk, chan, ty, ttl, newName] =>
      match mid.toNat?, some (st.keyOf pk), bytesOfHex chan, bytesOfHex ty, ttl.toInt?, st.b.conn? name with
      | some mid, some parent, some chan, some ty, some ttl, some c =>
          if !c.alive then (st, { m := "-" }) else
          let env := st.env st.b.banned
          let fail (status : Nat) : St × Ans := (st, { m := name ++ "<keygen:status=" ++ toString status ++ "|puback:" ++ toString mid })
          let access := accessOf ty
          let expires := expiresOf st.now ttl
          match env.decrypt parent with
          | none => fail 401
          | some pkey =>
              if pkey.isExpired st.now then fail 401 else
              -- expected raw key (salt unknown) and response channel
              let expected : Outcome (Key × Bytes) :=
                if pkey.isMaster then (createKey env parent chan access expires 0).map (fun k => (k, chan))
                else if pkey.hasPermission permExtend then extendKey env parent chan c.guid access expires
                else .err "unauthorized"
              match expected with
              | .err e =>
                  fail (if e == "unauthorized" then 401 else if e == "not-found" then 404
                        else if e == "bad-request" || e == "target-invalid" || e == "target-too-long" then
                          (if pkey.isMaster || e == "bad-request" then 400 else 500) else 500)
              | .panic _ => (st, { m := "panic" })
              | .ok (k, respChan) =>
                  -- the implementation's answer carries the minted key: accept it iff it decrypts
                  -- (under the model cipher) to the expected fields, any salt, expiry within a minute
                  let fields (i : String) : List (String × String) :=
                    (i.splitOn ":").filterMap (fun kv => match kv.splitOn "=" with | [a, b] => some (a, b) | _ => none)
                  let implPart := ((_impl.splitOn "<").getD 1 "").splitOn "|" |>.headD ""
                  let fs := fields implPart
                  let get (n : String) : String := (fs.lookup n).getD ""
                  let keyStr := (bytesOfHex (get "key")).getD []
                  let okKey := match env.decrypt keyStr with
                    | some k' =>
                        k'.master == k.master && k'.contract == k.contract && k'.signature == k.signature &&
                        k'.permissions == k.permissions && k'.targetPath == k.targetPath && k'.target == k.target &&
                        (if expires == 0 then k'.expires == 0 else (k'.expires - k.expires).natAbs ≤ 60)
                    | none => false
                  let okFields := get "status" == "200" && get "channel" == hexOfBytes respChan &&
                    get "master" == toString k.master && get "contract" == toString k.contract &&
                    get "sign" == toString k.signature && get "perms" == toString k.permissions &&
                    get "path" == toString k.targetPath && get "hash" == toString k.target
                  if okKey && okFields then
                    ({ st with keys := (newName, keyStr) :: st.keys }, { m := _impl })
                  else
                    (st, { m := s!"{name}<keygen:status=200:channel={hexOfBytes respChan}:key=?:master={k.master}:contract={k.contract}:sign={k.signature}:perms={k.permissions}:path={k.targetPath}:hash={k.target}:expires~{k.expires}|puback:{mid}" })
      | _, _, _, _, _, _ => (st, bad)
  | ["ckey", pk, chan, access, expires, newName] =>
      -- direct call of keygen.Service.CreateKey (the path of the HTTP keygen page): the minting
      -- function itself must refuse anything but a valid, unexpired master key of the contract
      match some (st.keyOf pk), bytesOfHex chan, access.toNat?, expires.toInt? with
      | some parent, some chan, some access, some expires =>
          let env := st.env st.b.banned
          match createKey env parent chan (UInt8.ofNat access) expires 0 with
          | .err e => (st, { m := "ckey:status=" ++ (if e == "unauthorized" then "401" else if e == "not-found" then "404" else "400") })
          | .panic _ => (st, { m := "panic" })
          | .ok k =>
              let fs : List (String × String) :=
                (_impl.splitOn ":").filterMap (fun kv => match kv.splitOn "=" with | [a, b] => some (a, b) | _ => none)
              let get (n : String) : String := (fs.lookup n).getD ""
              let keyStr := (bytesOfHex (get "key")).getD []
              let okKey := match env.decrypt keyStr with
                | some k' =>
                    k'.master == k.master && k'.contract == k.contract && k'.signature == k.signature &&
                    k'.permissions == k.permissions && k'.targetPath == k.targetPath && k'.target == k.target &&
                    k'.expires == k.expires
                | none => false
              if okKey && get "status" == "200" then
                ({ st with keys := (newName, keyStr) :: st.keys }, { m := _impl })
              else
                (st, { m := s!"ckey:status=200:key=?:master={k.master}:contract={k.contract}:sign={k.signature}:perms={k.permissions}:path={k.targetPath}:hash={k.target}:expires={k.expires}" })
      | _, _, _, _ => (st, bad)
  | ["saltspread", _, k, _] =>
      -- keys minted from a valid master carry fresh random salts; from anything else nothing is minted
      let env := st.env st.b.banned
      let ok := match env.decrypt (st.keyOf k) with
        | some pk => pk.isMaster && !pk.isExpired st.now && env.contractOk pk
        | none => false
      (st, { m := if ok then "distinct" else "no-keys" })
  | ["restart"] =>
      ({ st with b := { mode := st.b.mode, banned := st.b.banned }, order := [] }, { m := "ok" })
  | ["remote-new", _, _, _] => ({ st with remoteBanned := [] }, { m := "ok" })
  | ["remote-merge"] => ({ st with remoteBanned := st.b.banned }, { m := "ok" })
  | ["remote-use", k, rest, perm] =>
      match st.topic k rest, perm.toNat? with
      | some t, some perm =>
          (st, { m := toString ((authorize (st.env st.remoteBanned) (parseChannel t) (UInt8.ofNat perm)).isSome) })
      | _, _ => (st, bad)
  | ["deafen", name] => ({ st with deaf := name :: st.deaf }, { m := "ok" })
  | ["close", name] => apply st name .close true false (some name)
  | ["closeheld", name, _watcher] => apply st name .close true false (some name)
  | ["disc", name] => apply st name .close true false (some name)
  | ["rawclose", name, _] => apply st name .close true false (some name)
  | "cutsend" :: name :: k :: inner =>
      -- the first k bytes of the packet of the inner op, then the socket is dropped: a truncated
      -- packet has no effect (DecodePacket fails), a complete one is served first
      let req : Option (Req × Mqtt.Packet) :=
        match inner with
        | ["sub", _, mid, kk, rest, qos] =>
            match mid.toNat?, st.topic kk rest, qos.toNat? with
            | some mid, some t, some q =>
                some (.subscribe (UInt16.ofNat mid) t (UInt8.ofNat q),
                      .subscribe ⟨false, 1, false⟩ (UInt16.ofNat mid) [⟨t, UInt8.ofNat q⟩])
            | _, _, _ => none
        | ["unsub", _, mid, kk, rest] =>
            match mid.toNat?, st.topic kk rest with
            | some mid, some t => some (.unsubscribe (UInt16.ofNat mid) t, .unsubscribe ⟨false, 1, false⟩ (UInt16.ofNat mid) [⟨t, 0⟩])
            | _, _ => none
        | ["pub", _, qos, retain, mid, kk, rest, payload] =>
            match qos.toNat?, mid.toNat?, st.topic kk rest, bytesOfHex payload with
            | some q, some mid, some t, some p =>
                some (.publish (UInt8.ofNat q) (retain == "1") (UInt16.ofNat mid) t p,
                      .publish ⟨false, UInt8.ofNat q, retain == "1"⟩ t (UInt16.ofNat mid) p)
            | _, _, _, _ => none
        | _ => none
      match k.toNat?, req with
      | some k, some (r, pkt) =>
          let len := (Mqtt.encodeWire pkt).length
          if k ≥ len then
            let (b1, out1) := step st.auth st.b name r
            let (b2, out2) := step st.auth b1 name .close
            ({ st with b := b2 }, { m := renderOut st (out1 ++ out2) true false (some name) })
          else apply st name .close true false (some name)
      | _, _ => (st, bad)
  | ["dump"] =>
      let pairs := st.b.trie.root.abs.map (fun e =>
        let owner := match st.b.conns.find? (fun c => c.key == e.2) with
          | some c => c.name
          | none => s!"#{e.2}"
        (if e.1.isEmpty then "" else ".".intercalate (e.1.map toString)) ++ "=" ++ owner)
      let sorted := (pairs.toArray.qsort (· < ·)).toList
      (st, { m := s!"nodes={st.b.trie.root.size} count={st.b.trie.count} pairs={",".intercalate sorted} open={st.b.open_}" })
  | _ => (st, bad)

end Driver.Brk
