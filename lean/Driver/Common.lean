import Emitter.Model.Base
namespace Driver
open Emitter

/-- one model answer: what the model computes, what the spec demands, flags raised -/
structure Ans where
  m : String
  s : String := "="     -- "=" means: the spec demands exactly the model's answer
  f : String := "-"

def Ans.render (a : Ans) : String := a.m ++ "\t" ++ a.s ++ "\t" ++ a.f

def bad : Ans := { m := "bad-op" }

def hexArg (s : String) : Option Bytes := bytesOfHex s

/-- split a trace line `op a b c => impl answer` into (words, impl answer) -/
def splitLine (line : String) : List String × String :=
  let t := line.trimAscii.toString
  match t.splitOn " => " with
  | [l] => ((l.splitOn " ").filter (· ≠ ""), "")
  | l :: r => ((l.splitOn " ").filter (· ≠ ""), " => ".intercalate r)
  | [] => ([], "")

def outcomeHex : Outcome Bytes → String
  | .ok b => "ok " ++ hexOfBytes b
  | .err _ => "err"
  | .panic _ => "panic"

end Driver
