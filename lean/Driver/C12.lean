import Driver.Common
import Emitter.Model.License
import Emitter.Model.KeyTamper
namespace Driver.C12
open Emitter Emitter.Cipher Emitter.License Emitter.KeyTamper Driver

/-- `1:<key16>:<user>:<sign>` | `2:<key32>:<nonce24>:<user>:<sign>` | `3:<key32>:<nonce16>:<user>:<sign>`
→ (license version, cipher, the contract `SingleContractProvider` derives from the license) -/
def parseLic (s : String) : Option (Nat × CipherSpec × Contract) :=
  match s.splitOn ":" with
  | ["1", k, u, sg] => do
      let kb ← bytesOfHex k
      let u ← u.toNat?
      let sg ← sg.toNat?
      if kb.length != 16 then none
      else pure (1, .xtea (xteaKeyOf kb), { id := UInt32.ofNat u, master := 1, sign := UInt32.ofNat sg })
  | [v, k, n, u, sg] => do
      let kb ← bytesOfHex k
      let nb ← bytesOfHex n
      let u ← u.toNat?
      let sg ← sg.toNat?
      let ct : Contract := { id := UInt32.ofNat u, master := 1, sign := UInt32.ofNat sg }
      if v == "2" && kb.length == 32 && nb.length == 24 then pure (2, .salsa kb nb, ct)
      else if v == "3" && kb.length == 32 && nb.length == 16 then pure (3, .shuffle kb nb, ct)
      else none
  | _ => none

def field (pre : String) (w : String) : Option String := (w.dropPrefix? pre).map (·.toString)

def showMasks : List (Outcome UInt8) → String
  | l => if l.any (fun o => match o with | .ok _ => false | _ => true) then "panic"
         else hexOfBytes (l.filterMap (fun o => match o with | .ok b => some b | _ => none))

/-- the property on an answer `orig=<masks> mod=<masks>`: the modified string is rejected or
grants nothing the original did not grant (pointwise over the probe set) -/
def subsetOK (orig md : Bytes) : Bool :=
  orig.length == md.length && (orig.zip md).all (fun (o, m) => (m &&& ~~~ o) == 0)

def parseAns (s : String) : Option (Bytes × Bytes) :=
  match s.splitOn " " with
  | [a, b] => do
      let o ← (field "orig=" a).bind bytesOfHex
      let m ← (field "mod=" b).bind bytesOfHex
      pure (o, m)
  | _ => none

def specHolds (s : String) : Bool :=
  match parseAns s with
  | some (o, m) => subsetOK o m
  | none => false

def orMasks (a b : Outcome UInt8) : Outcome UInt8 :=
  match a, b with
  | .ok x, .ok y => .ok (x ||| y)
  | .ok _, e => e
  | e, _ => e

/-- every 8-byte cipher block of `md` is the block at the same position of one of the held keys
(a cut-and-paste of issued keys: recognisable without any secret) -/
def isSplice (keys : List Bytes) (md : Bytes) : Bool :=
  match decodeKey md with
  | .ok r =>
      r.length == 24 && (List.range 3).all (fun i =>
        keys.any (fun k => match decodeKey k with
          | .ok rk => block rk i == block r i
          | _ => false))
  | _ => false

def step (ws : List String) (impl : String) : Ans :=
  match ws with
  | ["tamper", lic, _salt, _issues, _desc, probes, nowW, keyW, modW] =>
      match parseLic lic, (field "now=" nowW).bind (·.toInt?),
            (field "key=" keyW).bind (fun s => (s.splitOn ",").mapM bytesOfHex),
            (field "mod=" modW).bind bytesOfHex with
      | some (ver, cs, ct), some now, some (key :: keys), some md =>
          let chans := (probes.splitOn ",").map (fun p => chanOf (strBytes p))
          let mo := showMasks (chans.map (fun ch =>
            keys.foldl (fun acc k => orMasks acc (grantMask cs ct now k ch)) (grantMask cs ct now key ch)))
          let mm := showMasks (chans.map (grantMask cs ct now md))
          let m := s!"orig={mo} mod={mm}"
          let okM := specHolds m
          { m := m,
            s := if specHolds impl then impl else if okM then m else s!"orig={mo} mod=<nothing beyond orig>",
            f := if okM then "-"
                 else if ver == 2 then "C12.stream-malleable.v2"
                 else if ver == 3 then "C12.stream-malleable.v3"
                 else if isSplice (key :: keys) md then "C12.xtea-block-splice"
                 else "C12.xtea-forgery" }
      | _, _, _, _ => bad
  | ["salts", _, _] =>
      -- the salt is what ties the three cipher blocks (v1) resp. the keystream (v3) to ONE key: keys the
      -- broker issues carry fresh random salts (12 equal draws from 32767 values do not happen)
      { m := "distinct" }
  | ["shape", lic, p, q] =>
      match parseLic lic, bytesOfHex p, bytesOfHex q with
      | some (_, cs, _), some p, some q =>
          match encryptKey cs p, encryptKey cs q with
          | .ok ep, .ok eq =>
              match decodeKey ep, decodeKey eq with
              | .ok rp, .ok rq => { m := hexOfBytes (xorBytes rp rq) }
              | _, _ => { m := "err" }
          | .panic _, _ => { m := "panic" }
          | _, .panic _ => { m := "panic" }
          | _, _ => { m := "err" }
      | _, _, _ => bad
  | _ => bad

end Driver.C12
