import Driver.Common
import Emitter.Model.Security
import Emitter.Spec.Covers
import Driver.C20
namespace Driver.Sec
open Emitter Emitter.Security Emitter.Spec Driver

structure St where
  cipher : Cipher.CipherSpec := .xtea ⟨0, 0, 0, 0⟩
  contract : UInt32 := 0
  sign : UInt32 := 0

def showQuery (q : List UInt32) : String := if q.isEmpty then "none" else ",".intercalate (q.map toString)

def showOpts (os : List (Bytes × Bytes)) : String :=
  if os.isEmpty then "none" else ",".intercalate (os.map (fun o => s!"{hexOfBytes o.1}={hexOfBytes o.2}"))

def showOptInt (o : Option Int) : String := match o with | some v => toString v | none => "none"

def showChannel (c : Channel) : String :=
  if c.ctype == chInvalid then "type=0" else
  let w := c.window
  s!"type={c.ctype} key={hexOfBytes c.key} chan={hexOfBytes c.channel} query={showQuery c.query} opts={showOpts c.options} ttl={showOptInt c.ttl} last={showOptInt c.last} me={c.exclude} win={w.1},{w.2}"

/-- key from the explicit fields of an op line; the target is a target string (hex) or
`raw:<bitpath>:<hash>` to set the fields directly -/
def mkKey (salt master contract sign perms : Nat) (target : String) (expires : Int) : Option Key := do
  let k : Key := List.replicate 24 0
  let k := k.setAt 0 (putBe16 (UInt16.ofNat salt))
  let k := k.setAt 2 (putBe16 (UInt16.ofNat master))
  let k := k.setAt 4 (putBe32 (UInt32.ofNat contract))
  let k := k.setAt 8 (putBe32 (UInt32.ofNat sign))
  let k := k.setPermissions (UInt8.ofNat perms)
  let k := k.setExpires expires
  match target.splitOn ":" with
  | ["raw", p, h] =>
      let p ← p.toNat?
      let h ← h.toNat?
      pure ((k.setAt 12 [UInt8.ofNat (p / 65536), UInt8.ofNat (p / 256), UInt8.ofNat p]).setAt 16 (putBe32 (UInt32.ofNat h)))
  | [t] =>
      let t ← bytesOfHex t
      match k.setTarget t with
      | .ok k' => pure k'
      | _ => none
  | _ => none

def kvNat (w k : String) : Option Nat := (w.dropPrefix? (k ++ "=")).bind (·.toString.toNat?)
def kvInt (w k : String) : Option Int := (w.dropPrefix? (k ++ "=")).bind (·.toString.toInt?)

def showKey (k : Key) : String :=
  s!"master={k.master} contract={k.contract} sign={k.signature} perms={k.permissions} path={k.targetPath} hash={k.target} expires={k.expires}"

def step (st : St) (ws : List String) (_impl : String) : St × Ans :=
  match ws with
  | ["reset", c, contract, sign] =>
      match C20.parseCipher c, contract.toNat?, sign.toNat? with
      | some c, some ct, some sg => ({ cipher := c, contract := UInt32.ofNat ct, sign := UInt32.ofNat sg }, { m := "ok" })
      | _, _, _ => (st, bad)
  | ["parse", t] =>
      match bytesOfHex t with
      | some t => (st, { m := showChannel (parseChannel t) })
      | none => (st, bad)
  | ["target", t] =>
      match bytesOfHex t with
      | some t =>
          match Key.setTarget (List.replicate 24 (0 : UInt8)) t with
          | .ok k => (st, { m := s!"ok path={k.targetPath} hash={k.target}" })
          | _ => (st, { m := "err" })
      | none => (st, bad)
  | ["authz", salt, master, contract, sign, perms, target, expires, banned, chan, perm, mangle, now] =>
      -- the presented string is derived from an issued key (characters appended / prepended / dropped):
      -- the ban, if any, is on the issued string
      match salt.toNat?, master.toNat?, contract.toNat?, sign.toNat?, perms.toNat?, expires.toInt?,
            bytesOfHex chan, perm.toNat?, kvInt now "now" with
      | some salt, some master, some contract, some sign, some perms, some expires, some chan, some perm, some now =>
          match mkKey salt master contract sign perms target expires with
          | some k =>
              match Cipher.encryptKey st.cipher k with
              | .ok keyStr =>
                  let presented : Option Bytes :=
                    match (mangle.dropPrefix? "mangle=").map (·.toString.splitOn ":") with
                    | some ["app", h] => (bytesOfHex h).map (keyStr ++ ·)
                    | some ["pre", h] => (bytesOfHex h).map (· ++ keyStr)
                    | some ["trunc", n] => n.toNat?.map (fun n => keyStr.take (keyStr.length - n))
                    | _ => none
                  match presented with
                  | none => (st, bad)
                  | some pk =>
                      let env : Env := { cipher := st.cipher, contractId := st.contract, signature := st.sign, now := now,
                                         banned := if banned == "1" then [keyStr] else [] }
                      let ch := parseChannel (pk ++ [sep] ++ chan)
                      let m := (authorize env ch (UInt8.ofNat perm)).isSome
                      -- specification: a string of another length than an issued key is no key of this license
                      (st, { m := toString m, s := if pk.length != keyStr.length then "false" else "=" })
              | _ => (st, bad)
          | none => (st, { m := "bad-target" })
      | _, _, _, _, _, _, _, _, _ => (st, bad)
  | ["extend", salt, master, contract, sign, perms, target, expires, chan, connId, access, now] =>
      match salt.toNat?, master.toNat?, contract.toNat?, sign.toNat?, perms.toNat?, expires.toInt?,
            bytesOfHex chan, bytesOfHex connId, access.toNat?, kvInt now "now" with
      | some salt, some master, some contract, some sign, some perms, some expires, some chan, some connId, some access, some now =>
          match mkKey salt master contract sign perms target expires with
          | some k =>
              match Cipher.encryptKey st.cipher k with
              | .ok keyStr =>
                  let env : Env := { cipher := st.cipher, contractId := st.contract, signature := st.sign, now := now, banned := [] }
                  match extendKey env keyStr chan connId (UInt8.ofNat access) 0 with
                  | .ok _ => (st, { m := "extended" })
                  | _ => (st, { m := "refused" })
              | _ => (st, bad)
          | none => (st, { m := "bad-target" })
      | _, _, _, _, _, _, _, _, _, _ => (st, bad)
  | ["authz", salt, master, contract, sign, perms, target, expires, banned, chan, perm, now] =>
      match salt.toNat?, master.toNat?, contract.toNat?, sign.toNat?, perms.toNat?, expires.toInt?,
            bytesOfHex chan, perm.toNat?, kvInt now "now" with
      | some salt, some master, some contract, some sign, some perms, some expires, some chan, some perm, some now =>
          match mkKey salt master contract sign perms target expires with
          | some k =>
              match Cipher.encryptKey st.cipher k with
              | .ok keyStr =>
                  let env : Env := { cipher := st.cipher, contractId := st.contract, signature := st.sign, now := now,
                                     banned := if banned == "1" then [keyStr] else [] }
                  let ch := parseChannel (keyStr ++ [sep] ++ chan)
                  let m := (authorize env ch (UInt8.ofNat perm)).isSome
                  -- specification: the conjunction the property states
                  let tgt := (bytesOfHex target).getD []
                  let isRaw := target.startsWith "raw:"
                  let base := ch.ctype != chInvalid && banned != "1" && !(k.isExpired now) &&
                              UInt32.ofNat contract == st.contract && UInt32.ofNat sign == st.sign && master == 1 &&
                              (UInt8.ofNat perms &&& UInt8.ofNat perm) == UInt8.ofNat perm
                  if isRaw || !targetSupported tgt || !base then
                    -- outside the target grammar the property speaks about (raw / retro keys, targets the
                    -- code cannot express), or already refused for a reason the spec shares: when `base`
                    -- fails the spec says false
                    if !base then (st, { m := toString m, s := "false" })
                    else
                      let sp := if isRaw then m else covers tgt ch.channel
                      (st, { m := toString m, s := toString sp,
                             f := if sp != m then (if (levelsOf tgt).2 then "C03.target-plus-hash" else "C03.target-trailing-plus") else "-" })
                  else (st, { m := toString m, s := toString (covers tgt ch.channel) })
              | _ => (st, bad)
          | none => (st, { m := "bad-target" })
      | _, _, _, _, _, _, _, _, _ => (st, bad)
  | _ => (st, bad)

end Driver.Sec
