import Driver.Common
import Emitter.Model.Trie
import Emitter.Model.Hash
namespace Driver.C01
open Emitter Emitter.Trie Driver

structure St where
  mode : Mode := .emitter
  t : T := {}
  /-- subscriber ids seen, with their keys (to print ids back and to detect key collisions) -/
  ids : List (String × Sub) := []

def parsePath (s : String) : Option Path :=
  if s == "none" then some [] else (s.splitOn ".").mapM (fun w => w.toNat?.map UInt32.ofNat)

def keyOf (id : String) : Sub := Hash.hashOf (strBytes id)

def St.idOf (st : St) (k : Sub) : String :=
  match st.ids.find? (fun e => e.2 == k) with
  | some e => e.1
  | none => s!"#{k}"

def showSet (st : St) (l : List Sub) : String :=
  let names := (l.eraseDups.map st.idOf).toArray.qsort (· < ·)
  "{" ++ ",".intercalate names.toList ++ "}"

def parseSet (s : String) : List String :=
  let inner := (s.drop 1).dropEnd 1 |>.toString
  if inner.isEmpty then [] else inner.splitOn ","

/-- all ways to pick one candidate per non-empty group -/
def allPicks : List (List Sub) → List (List Sub)
  | [] => [[]]
  | g :: gs => (allPicks gs).flatMap (fun rest => g.eraseDups.map (fun x => x :: rest))

def step (st : St) (ws : List String) (impl : String) : St × Ans :=
  match ws with
  | ["reset", m] => ({ mode := if m == "mqtt" then .mqtt else .emitter }, { m := "ok" })
  | ["sub", p, id] =>
      match parsePath p with
      | some p =>
          let k := keyOf id
          -- a different subscriber id stored under the same 32-bit key: AddUnique refuses it
          let clash := st.ids.any (fun e => e.2 == k && e.1 != id) && (st.t.root.abs.any (fun e => e.1 == p && e.2 == k))
          let t' := st.t.subscribe p k
          let ids := if st.ids.any (fun e => e.1 == id) then st.ids else st.ids ++ [(id, k)]
          ({ st with t := t', ids := ids },
           { m := s!"count={t'.count}", s := if clash then s!"count={st.t.count + 1}" else "=",
             f := if clash then "C01.subid-hash-collision" else "-" })
      | none => (st, bad)
  | ["unsub", p, id] =>
      match parsePath p with
      | some p =>
          let t' := st.t.unsubscribe p (keyOf id)
          ({ st with t := t' }, { m := s!"count={t'.count}" })
      | none => (st, bad)
  | ["look", p] =>
      match parsePath p with
      | some p =>
          let direct := (st.t.root.lookup st.mode p).eraseDups
          let groups := ((shareGroups st.mode st.t.root p).map (·.2.eraseDups)).filter (!·.isEmpty)
          if groups.isEmpty then (st, { m := showSet st direct })
          else
            -- the share pick is random: the model's answer is the set of valid answers; the
            -- implementation's answer is accepted iff it is one of them
            let valid := (allPicks groups).map (fun picks => showSet st (direct ++ picks))
            if valid.contains impl then (st, { m := impl })
            else (st, { m := s!"one-of[{";".intercalate valid.eraseDups}]" })
      | none => (st, bad)
  | ["count"] => (st, { m := s!"{st.t.count}" })
  | ["dump"] =>
      let pairs := st.t.root.abs.map (fun e =>
        (if e.1.isEmpty then "" else ".".intercalate (e.1.map toString)) ++ "=" ++ st.idOf e.2)
      let sorted := (pairs.toArray.qsort (· < ·)).toList
      (st, { m := s!"nodes={st.t.root.size} pairs={",".intercalate sorted}",
             s := if st.t.root.abs.isEmpty then "nodes=1 pairs=" else "=" })
  | ["conc", _] => (st, { m := "same" })
  | ["concshare", _] => (st, { m := "valid" })
  -- a pair owned by one caller: whatever other callers do concurrently (all under the one RWMutex),
  -- its subscribe is visible to its next lookup and the index ends empty
  | ["nested", _] => (st, { m := "ok" })
  | _ => (st, bad)

end Driver.C01
