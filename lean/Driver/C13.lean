import Driver.Common
import Emitter.Model.Gossip
import Emitter.Spec.Delta
namespace Driver.C13
open Emitter Emitter.Lww Emitter.Gossip Emitter.Spec.Delta Driver

/-- which payload `Merge` the tree under test has (reported by the harness on the `reset` line) -/
inductive Kind where
  | delta | union
deriving DecidableEq

structure Named where
  ref : Option Ref := none     -- `none`: the swarm returned nil
  raw : Bool := false          -- constructed by `mk` (an `*event.State`, never handed to the library)
  live : Bool := false         -- the replicated state itself
  snap : State := {}           -- value when created (spec of `peek`)

structure St where
  kind : Kind := .union
  wd : World Ref := {}
  wu : World Pay := {}
  names : List (String × Named) := []
  links : List String := []                 -- link name → index
  used : List (Nat × Bucket) := []          -- buckets ever written (enumeration for `drain`)
  clock : Clock := {}
  wedged : Bool := false
  ready : Bool := false

def flagDelta := "C13.sender-merge-is-delta"

def St.heap (st : St) : Heap := match st.kind with | .delta => st.wd.heap | .union => st.wu.heap
def St.setHeap (st : St) (h : Heap) : St :=
  match st.kind with
  | .delta => { st with wd := { st.wd with heap := h } }
  | .union => { st with wu := { st.wu with heap := h } }

def St.alloc (st : St) (o : Obj) : St × Ref := (st.setHeap (st.heap ++ [o]), st.heap.length)
def St.liveObj (st : St) : Obj := st.heap[0]?.getD { st := {} }
def St.setLive (st : St) (o : Obj) : St := st.setHeap (st.heap.set 0 o)
def St.name (st : St) (n : String) : Option Named := st.names.lookup n
def St.bind (st : St) (n : String) (v : Named) : St := { st with names := (n, v) :: st.names.filter (·.1 != n) }
def St.valueOf (st : St) (v : Named) : Option State := v.ref.bind fun r => st.heap[r]?.map (·.st)

def St.linkIx (st : St) (n : String) : St × Nat :=
  match st.links.idxOf? n with
  | some i => (st, i)
  | none => ({ st with links := st.links ++ [n] }, st.links.length)

/-! ### rendering (as the harness) -/

def setName : SetId → String
  | .sub => "sub" | .ban => "ban" | .conn => "conn"
def parseSet (s : String) : Option SetId :=
  match s with
  | "sub" => some .sub | "ban" => some .ban | "conn" => some .conn | _ => none
def allSets : List SetId := [.sub, .ban, .conn]

def sortJoin (l : List String) (sep : String) (none : String) : String :=
  if l.isEmpty then none else sep.intercalate (l.toArray.qsort (· < ·)).toList

def dump (s : State) : String :=
  sortJoin (allSets.flatMap fun i => (s.sel i).map fun e =>
    s!"{setName i}:{hexOfBytes e.1}:({e.2.add},{e.2.del}):{hexOfBytes e.2.payload}") "," "empty"

def dumpOpt : Option State → String
  | some s => dump s
  | none => "nil"

abbrev STimes := List (SetId × Times)

def renderTimes (t : STimes) : String :=
  sortJoin (t.flatMap fun p => p.2.filterMap fun e =>
    if e.2.1 = 0 ∧ e.2.2 = 0 then none else some s!"{setName p.1}:{hexOfBytes e.1}:({e.2.1},{e.2.2})") "," "empty"

def stateTimes (s : State) : STimes := allSets.map fun i => (i, (s.sel i).map fun e => (e.1, e.2.add, e.2.del))
def timesStr (s : State) : String := renderTimes (stateTimes s)
def joinStates (vs : List State) : STimes := allSets.map fun i => (i, joinTimes (vs.map (·.sel i)))
def stimesLe (a b : STimes) : Bool :=
  allSets.all fun i => timesLe ((a.lookup i).getD []) ((b.lookup i).getD [])

def dropFirst (s : String) : String := String.ofList (s.toList.drop 1)
def dropLast (s : String) : String := String.ofList s.toList.dropLast

/-- parse `set:key:(a,d),…` / `empty` as printed by the harness -/
def parseTimes (s : String) : Option STimes :=
  if s == "empty" then some (allSets.map fun i => (i, []))
  else do
    -- entries are separated by ',' but so are the two times: split on "),"
    let items := (s.splitOn "),").map fun x => if x.endsWith ")" then dropLast x else x
    let parsed ← items.mapM fun it =>
      match it.splitOn ":" with
      | [n, k, t] => do
          let i ← parseSet n
          let kb ← bytesOfHex k
          match (dropFirst t).splitOn "," with
          | [a, d] => do
              let a ← a.toInt?
              let d ← d.toInt?
              pure (i, kb, a, d)
          | _ => none
      | _ => none
    pure (allSets.map fun i => (i, parsed.filterMap fun e => if e.1 = i then some e.2 else none))

/-! ### spec of an emission: at least what was queued, at most what the queued objects hold now -/

def curValue (h : Heap) (r : Ref) : State := (h[r]?.map (·.st)).getD {}

/-- `S` for one emission, given the implementation's rendering of the same emission -/
def specEmission (queued : List (Ref × State)) (h : Heap) (implBody : String) : String :=
  let lower := joinStates (queued.map (·.2))
  let upper := joinStates (queued.map fun e => curValue h e.1)
  match parseTimes implBody with
  | some t => if stimesLe lower t && stimesLe t upper then implBody else renderTimes lower
  | none => renderTimes lower

def tagOf : Bucket → String
  | none => "g"
  | some p => s!"b{p}"

def parseTag (s : String) : Option Bucket :=
  if s == "g" then some none
  else if s.startsWith "b" then ((dropFirst s).toNat?).map some
  else none

/-- split `tag body` -/
def splitTag (s : String) : String × String :=
  match s.splitOn " " with
  | t :: rest => (t, " ".intercalate rest)
  | [] => ("", "")

/-! ### sender operations, generic in the payload instance -/

section
variable {D : Type}

def present (w : World D) (l : Nat) (used : List (Nat × Bucket)) : List Bucket :=
  (used.filterMap fun e => if e.1 = l ∧ ((w.links l).bk e.2).isSome then some e.2 else none).eraseDups

/-- the bucket `pick` takes when the implementation reports `hint` (any legal choice is accepted) -/
def choose (w : World D) (l : Nat) (used : List (Nat × Bucket)) (hint : Option Bucket) : Option Bucket :=
  let ps := present w l used
  match hint with
  | some b => if legal (w.links l) b then some b else (ps.find? fun b => legal (w.links l) b)
  | none => ps.find? fun b => legal (w.links l) b

/-- buckets of link `l` on which something was queued since their last pick although nothing is pending -/
def lost (w : World D) (l : Nat) (used : List (Nat × Bucket)) : List Bucket :=
  (used.filterMap fun e =>
    if e.1 = l ∧ ((w.links l).bk e.2).isNone ∧ !((w.links l).ghost e.2).isEmpty then some e.2 else none).eraseDups

def renderEvents (evs : List Event) (implItems : List (String × String)) : List (String × String) :=
  evs.filterMap fun
    | .emitted _ b sent q h =>
        let tag := tagOf b
        let m := tag ++ " " ++ (match sent with | some x => timesStr x | none => "nil")
        let body := (implItems.lookup tag).getD ""
        some (m, tag ++ " " ++ specEmission q h body)
    | _ => none

def doPick (I : Impl D) (w : World D) (l : Nat) (used : List (Nat × Bucket)) (impl : String) : World D × Ans :=
  let (itag, ibody) := splitTag impl
  match choose w l used (parseTag itag) with
  | none =>
      -- nothing pending: fine unless something was queued on this link and never sent
      match lost w l used with
      | b :: _ => (w, { m := "none", s := tagOf b ++ " " ++ renderTimes (joinStates (((w.links l).ghost b).map (·.2))) })
      | [] => (w, { m := "none" })
  | some b =>
      let (w', evs) := pick I w l b
      match renderEvents evs [(itag, ibody)] with
      | [(m, s)] => (w', { m := m, s := s })
      | _ => (w', { m := "none" })

partial def drainLoop (I : Impl D) (w : World D) (l : Nat) (used : List (Nat × Bucket)) (items : List (String × String))
    (fuel : Nat) (acc : List (String × String)) : World D × List (String × String) :=
  match fuel, choose w l used none with
  | fuel + 1, some b =>
      let (w', evs) := pick I w l b
      drainLoop I w' l used items fuel (acc ++ renderEvents evs items)
  | _, _ => (w, acc)

def doDrain (I : Impl D) (w : World D) (l : Nat) (used : List (Nat × Bucket)) (impl : String) : World D × Ans :=
  let items := (impl.splitOn " ; ").map splitTag
  let (w', out) := drainLoop I w l used items 64 []
  let missing := (lost w' l used).map fun b => tagOf b ++ " " ++ renderTimes (joinStates (((w'.links l).ghost b).map (·.2)))
  (w', { m := sortJoin (out.map (·.1)) " ; " "none", s := sortJoin (out.map (·.2) ++ missing) " ; " "none" })

def doPut (I : Impl D) (w : World D) (l : Nat) (b : Bucket) (r : Ref) : World D × String :=
  let (w', evs) := put I w l b r
  match evs with
  | [] => (w', "ok")
  | .hung _ _ :: _ => (w', "hang")
  | _ => (w', "panic")
end

/-- run a sender operation on the world of the tree's kind -/
def onWorld (st : St) (fd : World Ref → World Ref × α) (fu : World Pay → World Pay × α) : St × α :=
  match st.kind with
  | .delta => let (w, a) := fd st.wd; ({ st with wd := w }, a)
  | .union => let (w, a) := fu st.wu; ({ st with wu := w }, a)

def flagged (st : St) (a : Ans) : Ans :=
  if st.kind = .delta && a.s != "=" && a.s != a.m then { a with f := flagDelta } else a

/-! ### operations on states -/

def parseEntry (w : String) : Option (SetId × Bytes × Val) :=
  match w.splitOn ":" with
  | [s, k, a, d, p] => do
      let s ← parseSet s
      let k ← bytesOfHex k
      let a ← a.toInt?
      let d ← d.toInt?
      let p ← bytesOfHex p
      pure (s, k, ⟨a, d, p⟩)
  | _ => none

/-- `live.Merge(other)` for a decoded / constructed `other`: answer, spec, new live state, the delta -/
def mergeLive (st : St) (other : State) : St × Option State × String × String :=
  let live := st.liveObj
  let r := live.st.merge other
  let st' := st.setLive { live with st := r.1 }
  let sd := deltaState live.st other
  (st', r.2, dumpOpt r.2, dumpOpt sd)

def ok : Ans := { m := "ok" }
def noObj : Ans := { m := "no-object" }

def step (st : St) (ws : List String) (impl : String) : St × Ans :=
  match ws with
  | "reset" :: b :: rest =>
      let kind := if rest.contains "impl=delta" then Kind.delta else Kind.union
      let live : Obj := { st := {}, durable := b == "d" }
      ({ kind := kind, wd := { heap := [live] }, wu := { heap := [live] }, ready := true }, ok)
  | _ =>
  if !st.ready then (st, bad) else
  if st.wedged then (st, { m := "wedged" }) else
  match ws with
  | ["clock", t] =>
      match t.toInt? with
      | some t => ({ st with clock := { cur := t, tick := 0 } }, ok)
      | none => (st, bad)
  | ["clock", t, k] =>
      match t.toInt?, k.toInt? with
      | some t, some k => ({ st with clock := { cur := t, tick := k } }, ok)
      | _, _ => (st, bad)
  | "mk" :: o :: es =>
      match es.mapM parseEntry with
      | some es =>
          let v : State := es.foldl (fun acc e => acc.upd e.1 (set (acc.sel e.1) e.2.1 e.2.2)) {}
          let (st1, r) := st.alloc { st := v }
          (st1.bind o { ref := some r, raw := true, snap := v }, ok)
      | none => (st, bad)
  | ["ladd", s, k, p] =>
      match parseSet s, bytesOfHex k, bytesOfHex p with
      | some s, some k, some p =>
          let live := st.liveObj
          let (m, c) := localAdd live.durable (live.st.sel s) k p st.clock
          ({ st.setLive { live with st := live.st.upd s m } with clock := c }, ok)
      | _, _, _ => (st, bad)
  | ["ldel", s, k] =>
      match parseSet s, bytesOfHex k with
      | some s, some k =>
          let live := st.liveObj
          let (m, c) := localDel live.durable (live.st.sel s) k st.clock
          ({ st.setLive { live with st := live.st.upd s m } with clock := c }, ok)
      | _, _ => (st, bad)
  | "merge" :: o :: mode =>
      match st.name o with
      | some v =>
          match v.raw, v.ref, st.valueOf v with
          | true, some r, some other =>
              let (st1, d, m, s) := mergeLive st other
              let live' := st1.liveObj.st
              -- without an encode/decode hop the object handed in is itself turned into the delta
              let st2 := if mode == ["enc"] then st1 else
                (st1.setHeap (st1.heap.set r { st := d.getD {} })).bind o { v with snap := d.getD {} }
              (st2, { m := s!"d={m} s={timesStr live'}", s := s!"d={s} s={renderTimes (joinStates [st.liveObj.st, other])}" })
          | _, _, _ => (st, noObj)
      | none => (st, noObj)
  | ["state"] => (st, { m := dump st.liveObj.st })
  | ["peek", o] =>
      match st.name o with
      | some v =>
          let a : Ans := { m := dumpOpt (st.valueOf v), s := if v.live then "=" else (if v.ref.isSome then dump v.snap else "nil") }
          (st, flagged st a)
      | none => (st, noObj)
  | ["notify", o, s, k, p, on] =>
      match parseSet s, bytesOfHex k, bytesOfHex p with
      | some s, some k, some p =>
          let (live', op, c) := notify st.liveObj s k p (on == "on") st.clock
          let (st1, r) := ({ st.setLive live' with clock := c }).alloc { st := op }
          (st1.bind o { ref := some r, snap := op }, { m := dump op })
      | _, _, _ => (st, bad)
  | ["gossip", o] => (st.bind o { ref := some 0, live := true }, { m := dump st.liveObj.st })
  | "ongossip" :: o :: rest | "onbcast" :: o :: rest =>
      let own := ws.head? == some "onbcast" && rest.head? == some "1"       -- our own broadcast comes back
      match rest.getLast?.bind st.name with
      | some v =>
          match st.valueOf v with
          | some other =>
              if own then (st.bind o {}, { m := "nil" }) else
              let (st1, d, m, s) := mergeLive st other
              match d with
              | some dv =>
                  let (st2, r) := st1.alloc { st := dv }
                  (st2.bind o { ref := some r, snap := dv }, { m := m, s := s })
              | none => (st1.bind o {}, { m := m, s := s })
          | none => (st, noObj)
      | none => (st, noObj)
  | "send" :: l :: rest | "bcast" :: l :: rest =>
      let b : Option Bucket := if ws.head? == some "send" then some none else (rest.head?.bind String.toNat?).map some
      match b, rest.getLast?.bind st.name with
      | some b, some v =>
          if v.raw then (st, { m := "not-payload" }) else
          match v.ref with
          | none => (st, { m := "skip-nil" })
          | some r =>
              let (st0, li) := st.linkIx l
              let st1 := { st0 with used := (li, b) :: st0.used }
              let (st2, m) := onWorld st1 (fun w => doPut implDelta w li b r) (fun w => doPut implUnion w li b r)
              ({ st2 with wedged := m == "hang" }, flagged st2 { m := m, s := "ok" })
      | none, _ => (st, bad)
      | _, none => (st, noObj)
  | ["pick", l] =>
      let (st0, li) := st.linkIx l
      let (st1, a) := onWorld st0 (fun w => doPick implDelta w li st0.used impl) (fun w => doPick implUnion w li st0.used impl)
      (st1, flagged st1 a)
  | ["drain", l] =>
      let (st0, li) := st.linkIx l
      let (st1, a) := onWorld st0 (fun w => doDrain implDelta w li st0.used impl) (fun w => doDrain implUnion w li st0.used impl)
      (st1, flagged st1 a)
  | _ => (st, bad)

end Driver.C13
