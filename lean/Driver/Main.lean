import Driver.C20
import Driver.Sec
import Driver.Brk
import Driver.C01
import Driver.C04
import Driver.C05
import Driver.C06
import Driver.C09
import Driver.C10
import Driver.C12
import Driver.C13
import Driver.C15
import Driver.C16
import Driver.C17
import Driver.C19
open Driver

partial def loop (h : IO.FS.Stream) (out : IO.FS.Stream) (f : List String → String → Ans) : IO Unit := do
  let line ← h.getLine
  if line.isEmpty then return ()
  let (ws, impl) := splitLine line
  if ws.isEmpty then
    out.putStrLn "#"
  else
    out.putStrLn (f ws impl).render
  loop h out f

partial def loopSt {σ} (h : IO.FS.Stream) (out : IO.FS.Stream) (f : σ → List String → String → σ × Ans) (st : σ) : IO Unit := do
  let line ← h.getLine
  if line.isEmpty then return ()
  let (ws, impl) := splitLine line
  if ws.isEmpty then
    out.putStrLn "#"
    loopSt h out f st
  else
    let (st', a) := f st ws impl
    out.putStrLn a.render
    loopSt h out f st'

def main (args : List String) : IO UInt32 := do
  let stdin ← IO.getStdin
  let stdout ← IO.getStdout
  match args with
  | ["C01"] => loopSt stdin stdout C01.step {}; return 0
  | ["C02"] => loopSt stdin stdout Brk.stepLine {}; return 0
  | ["C11"] => loopSt stdin stdout Brk.stepLine {}; return 0
  | ["C14"] => loopSt stdin stdout Brk.stepLine {}; return 0
  | ["C07"] => loopSt stdin stdout Brk.stepLine {}; return 0
  | ["C08"] => loopSt stdin stdout Brk.stepLine {}; return 0
  | ["C18"] => loopSt stdin stdout Brk.stepLine {}; return 0
  | ["C03"] => loopSt stdin stdout Sec.step {}; return 0
  | ["C04"] => loopSt stdin stdout C04.step {}; return 0
  | ["C05"] => loopSt stdin stdout C05.step {}; return 0
  | ["C06"] => loopSt stdin stdout C06.step {}; return 0
  | ["C09"] => loop stdin stdout C09.step; return 0
  | ["C10"] => loopSt stdin stdout C10.step {}; return 0
  | ["C15"] => loopSt stdin stdout C15.step {}; return 0
  | ["C12"] => loop stdin stdout C12.step; return 0
  | ["C13"] => loopSt stdin stdout C13.step {}; return 0
  | ["C16"] => loop stdin stdout C16.step; return 0
  | ["C17"] => loop stdin stdout C17.step; return 0
  | ["C19"] => loopSt stdin stdout C19.step {}; return 0
  | ["C20"] => loop stdin stdout C20.step; return 0
  | _ => IO.eprintln "usage: driver <property> < trace"; return 2
