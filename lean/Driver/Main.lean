import Driver.C20
import Driver.C16
open Driver

partial def loop (h : IO.FS.Stream) (out : IO.FS.Stream) (f : List String → String → Ans) : IO Unit := do
  let line ← h.getLine
  if line.isEmpty then return ()
  let (ws, impl) := splitLine line
  if ws.isEmpty then
    out.putStrLn "#"
  else
    out.putStrLn (f ws impl).render
  loop h out f

def main (args : List String) : IO UInt32 := do
  let stdin ← IO.getStdin
  let stdout ← IO.getStdout
  match args with
  | ["C16"] => loop stdin stdout C16.step; return 0
  | ["C20"] => loop stdin stdout C20.step; return 0
  | _ => IO.eprintln "usage: driver <property> < trace"; return 2
