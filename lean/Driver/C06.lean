import Driver.Common
import Driver.C19
import Emitter.Model.Storage
import Emitter.Spec.Storage
namespace Driver.C06
open Emitter Emitter.Message Emitter.Storage Driver

structure St where
  store : Store := []
  retain : UInt32 := 1       -- a session without a reset line: the harness opens `mem` with retain 1, base 0
  base : Int := 0
  ids : List (Bytes × Bytes) := []     -- (id, channel) of the stores of this session, in order
  prev : List Bytes := []              -- ids of the previous query result, key order

def kv := C19.kv
def parseSsid := C19.parseSsid

def showPayload (p : Bytes) : String :=
  match p with
  | b :: _ => if p.length > 8 && p.all (· == b) then s!"{p.length}x{hexOfByte b}" else hexOfBytes p
  | [] => hexOfBytes p

def showMsg (m : Msg) : String := s!"{hexOfBytes m.id}:{hexOfBytes m.channel}:{showPayload m.payload}:{m.ttl}"

def byKey (l : List Msg) : List Msg := l.mergeSort (fun a b => !bytesLt b.id a.id)

def showMsgs (l : List Msg) : String :=
  if l.isEmpty then "none" else ",".intercalate ((byKey l).map showMsg)

def ascending : List Msg → Bool
  | a :: b :: rest => decide (idTime a.id ≤ idTime b.id) && ascending (b :: rest)
  | _ => true

def showFrame (l : List Msg) : String := (if ascending l then "asc " else "unsorted ") ++ showMsgs l

def absTime (base : Int) (s : String) : Option Int :=
  match s.toList with
  | 'r' :: rest => (String.ofList rest).toInt?.map (base + ·)
  | 'a' :: rest => (String.ofList rest).toInt?
  | _ => none

def nth? {α} (l : List α) (i : Nat) : Option α := if l.isEmpty then none else l[i % l.length]?

/-- the flags of a query: the branches the partial theorems exclude -/
def step (st : St) (ws : List String) (_impl : String) : St × Ans :=
  match ws with
  | ["reset", _, retain, b] =>
      match retain.toNat?, (kv b "base").bind (·.toInt?) with
      | some r, some b => ({ retain := UInt32.ofNat r, base := b }, { m := "ok" })
      | _, _ => (st, bad)
  | ["store", ssid, _, ttl, ch, size, tag, t, sq, un] =>
      match parseSsid ssid, ttl.toNat?, bytesOfHex ch, size.toNat?, tag.toNat?,
            (kv t "t").bind (·.toInt?), (kv sq "seq").bind (·.toNat?), (kv un "uniq").bind (·.toNat?) with
      | some ssid, some ttl, some ch, some size, some tag, some t, some seq, some uniq =>
          match newId ssid t (UInt32.ofNat seq) (UInt32.ofNat uniq) with
          | .ok id =>
              let m : Msg := { id := id, channel := ch, payload := List.replicate size (UInt8.ofNat tag), ttl := UInt32.ofNat ttl }
              match store st.retain st.store m with
              | .ok s' => ({ st with store := s', ids := st.ids ++ [(id, ch)] }, { m := "ok " ++ hexOfBytes id })
              | .err _ => (st, { m := "err" })
              | .panic _ => (st, { m := "panic" })
          | _ => (st, bad)
      | _, _, _, _, _, _, _, _ => (st, bad)
  | ["store", ssid, _, _, _, _, _] =>
      match parseSsid ssid with
      | some ssid => (st, { m := if ssid.length < 2 then "skipped" else "bad-op" })
      | none => (st, bad)
  | ["again", k, ttl, size, tag] =>
      match k.toNat?, ttl.toNat?, size.toNat?, tag.toNat? with
      | some k, some ttl, some size, some tag =>
          match nth? st.ids k with
          | none => (st, { m := "skipped" })
          | some (id, ch) =>
              let m : Msg := { id := id, channel := ch, payload := List.replicate size (UInt8.ofNat tag), ttl := UInt32.ofNat ttl }
              match store st.retain st.store m with
              | .ok s' => ({ st with store := s' }, { m := "ok " ++ hexOfBytes id })
              | .err _ => (st, { m := "err" })
              | .panic _ => (st, { m := "panic" })
      | _, _, _, _ => (st, bad)
  | ["query", ssid, _, _, limit, _, f, u, sid, now] =>
      match parseSsid ssid, limit.toInt?, (kv f "from").bind (·.toInt?), (kv u "until").bind (·.toInt?),
            (kv sid "sid").bind bytesOfHex, (kv now "now").bind (·.toInt?) with
      | some ssid, some limit, some from_, some until_, some start, some now =>
          match query ssid from_ until_ start limit now st.store with
          | .err _ => (st, { m := "err" })
          | .panic _ => (st, { m := "panic" })
          | .ok res =>
              let st' := { st with prev := (byKey res).map (·.id) }
              let m := showFrame res
              let w := window from_ until_
              let pfx := ssid.getD 0 0 ^^^ ssid.getD 1 0
              if ssid.length < 2 || limit < 0 then (st', { m := m })
              else if isWild (ssid.getD 1 0) then
                -- outside the property (first level must be literal); tenant isolation is still demanded
                let own := res.filter (fun x => idContract x.id == ssid.getD 0 0)
                (st', { m := m, s := showFrame own,
                        f := if own.length == res.length then "-" else "C06.wildcard-contract-id" })
              else if w.2 ≥ timeOffset + 4294967296 then (st', { m := m })
              else if !start.isEmpty && word start 0 != pfx then (st', { m := m })
              else
                let a : Spec.Ask := { ssid := ssid, from_ := w.1, until_ := w.2, start := start, limit := limit.toNat }
                let want := Spec.answer a now st.store
                let vis := st.store.filter (live now)
                let startLive := match seek start vis with
                  | e :: _ => e.key == start
                  | [] => false
                (st', { m := m, s := "asc " ++ showMsgs want,
                        f := if !continuationRepaired && !start.isEmpty && !startLive then "C06.continuation-start-not-live" else "-" })
      | _, _, _, _, _, _ => (st, bad)
  | ["wait", _] => (st, { m := "ok" })
  | ["flimit", n, ts] =>
      match n.toInt?, (if ts == "none" then some [] else (ts.splitOn ",").mapM (·.toInt?)) with
      | some n, some ts =>
          let f := ts.filterMap (fun t => match newId [1, 2] t 0 0 with
            | .ok id => some ({ id := id, channel := [], payload := [], ttl := 0 } : Msg)
            | _ => none)
          match frameLimit n f with
          | .ok r => (st, { m := if r.isEmpty then "none" else ",".intercalate (r.map (fun x => toString (idTime x.id))) })
          | .err _ => (st, { m := "err" })
          | .panic _ => (st, { m := "panic" })
      | _, _ => (st, bad)
  | _ => (st, bad)

end Driver.C06
