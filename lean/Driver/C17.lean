import Driver.Common
import Emitter.Model.Transport
namespace Driver.C17
open Emitter Emitter.Transport Driver

def flagEarly : String := "C17.sniffed-error-replayed-early"

/-- `none` = empty list, otherwise `sep`-separated items -/
def parseList {α} (sep : String) (item : String → Option α) (s : String) : Option (List α) :=
  if s == "none" then some [] else (s.splitOn sep).mapM item

def parseNat (s : String) : Option Nat := s.toNat?

def showRR (r : RR) : String := hexOfBytes r.data ++ (if r.err then "!" else "")

def showReads (rs : List RR) : String :=
  if rs.isEmpty then "none" else ",".intercalate (rs.map showRR)

def parseMatcher (s : String) : Option Matcher :=
  match s.splitOn ":" with
  | ["any"] => some .any
  | ["http"] => some Matcher.http
  | ["p", strs] => (parseList ";" bytesOfHex strs).map .pref
  | ["r", sizes, v] => (parseList ";" parseNat sizes).map (fun l => .custom l (v == "1"))
  | _ => none

/-- `set/set/…`, each `matcher+matcher+…` → flattened list of (set index, matcher) -/
def parseSets (s : String) : Option (List (Nat × Matcher)) := do
  let sets ← parseList "/" (fun t => parseList "+" parseMatcher t) s
  pure ((sets.zipIdx).flatMap (fun (ms, i) => ms.map (fun m => (i, m))))

/-- every call that reports an error has, together with the calls before it, delivered the
whole stream; and the whole stream is delivered in the end -/
def deliveredOk (stream : Bytes) (rs : List RR) : Bool :=
  let rec go (got : Bytes) : List RR → Bool
    | [] => got == stream
    | r :: rest => (!r.err || got ++ r.data == stream) && go (got ++ r.data) rest
  go [] rs

def parseFrame (s : String) : Option Frame :=
  match s.splitOn ":" with
  | [op, body] => do
      let op ← op.toNat?
      let tail := body.endsWith "!"
      let body := if tail then (body.dropEnd 1).toString else body
      let chunks ← parseList "." bytesOfHex body
      pure { opcode := op, body := { chunks := chunks, tailErr := tail } }
  | _ => none

def parseWOp (s : String) : Option WOp :=
  match s.splitOn ":" with
  | ["f"] => some .flush
  | ["w0", p] => (bytesOfHex p).map (.write false)
  | ["w1", p] => (bytesOfHex p).map (.write true)
  | _ => none

def showWrites (l : List Bytes) : String :=
  if l.isEmpty then "." else "+".intercalate (l.map hexOfBytes)

def step (ws : List String) (_impl : String) : Ans :=
  match ws with
  | ["sniff", chunks, tail, sets, after, drain] =>
      match parseList "," bytesOfHex chunks, parseSets sets, parseList "," parseNat after, drain.toNat? with
      | some chunks, some sets, some after, some d =>
          let src : Src := { chunks := chunks, tailErr := tail == "1" }
          let stream := src.stream
          let (res, seen, s1) := serve (Sniffer.new src) sets
          let seenStr := if seen.isEmpty then "none" else "/".intercalate (seen.map showReads)
          let seenOk := seen.all (fun rs => isPrefix (cat rs) stream)
          match res with
          | none =>
              { m := s!"m=none seen={seenStr} closed=true",
                s := if seenOk then "=" else "every matcher must see a prefix of the stream" }
          | some i =>
              let (r1, s2) := s1.reads after
              let (r2, _) := s2.drain d (s2.todo + 1)
              let out := r1 ++ r2
              let early := (seen.flatten ++ out).any (·.early)
              let ok := seenOk && deliveredOk stream out
              { m := s!"m={i} seen={seenStr} out={showReads out}",
                s := if ok then "=" else s!"m={i}; every matcher sees a prefix of the stream; out: {hexOfBytes stream} once, in order, the error only after its last byte",
                f := if early then flagEarly else "-" }
      | _, _, _, _ => bad
  | ["wq", ops] =>
      match parseList "," parseWOp ops with
      | some ops =>
          let rec run (s : WQ) : List WOp → List String → List String × WQ
            | [], acc => (acc.reverse, s)
            | op :: rest, acc =>
                let (n, s1) := match op with
                  | .write l p => s.write l p
                  | .flush => s.flush
                run s1 rest (s!"{n}:{showWrites (s1.sock.drop s.sock.length)}" :: acc)
          let (outs, s1) := run {} ops []
          let (n, s2) := s1.flush
          let all := s2.sock.flatten
          let ok := s1.sock.flatten ++ s1.queue == written ops && all == written ops && s2.queue.isEmpty
          { m := s!"ops={if outs.isEmpty then "none" else ",".intercalate outs} q={s1.queue.length} fin={n}:{showWrites (s2.sock.drop s1.sock.length)} all={hexOfBytes all}",
            s := if ok then "=" else s!"all={hexOfBytes (written ops)}" }
      | none => bad
  | ["wqc", a, b, _limited] =>
      -- a write that arrives while a flush is inside the socket's Write waits for it (Flush keeps the
      -- connection's lock while it writes): the client receives a, then b
      match bytesOfHex a, bytesOfHex b with
      | some a, some b => { m := s!"all={hexOfBytes (a ++ b)}" }
      | _, _ => bad
  | ["wsr", frames, after, drain] =>
      match parseList "," parseFrame frames, parseList "," parseNat after, drain.toNat? with
      | some frames, some after, some d =>
          let w : Ws := { frames := frames }
          let stream := payload frames
          let (r1, w1) := w.reads after
          let (r2, _) := w1.drain d (w1.todo + 1)
          let out := r1 ++ r2
          { m := s!"out={showReads out} dropped=0",
            s := if deliveredOk stream out then "=" else s!"out: {hexOfBytes stream} once, in order, then the error; dropped=0" }
      | _, _, _ => bad
  | ["wsw", ps] =>
      match parseList "," bytesOfHex ps with
      | some ps =>
          let sink := wsWrites [] ps
          let ns := ps.map (fun p => toString p.length)
          let msgs := sink.map (fun (o, b) => s!"{o}:{hexOfBytes b}")
          let ok := sink.map (·.2) == ps && sink.all (fun m => m.1 == Generated.wsBinaryMessage)
          { m := s!"n={if ns.isEmpty then "none" else ",".intercalate ns} msgs={if msgs.isEmpty then "none" else ",".intercalate msgs} unclosed=0",
            s := if ok then "=" else "one binary message per Write carrying exactly its bytes" }
      | none => bad
  | _ => bad

end Driver.C17
