import Driver.Common
import Emitter.Model.Message
namespace Driver.C19
open Emitter Emitter.Message Driver

def parseSsid (s : String) : Option Ssid :=
  if s == "none" then some [] else
  (s.splitOn ",").mapM (fun w => w.toNat?.map UInt32.ofNat)

def showSsid (s : Ssid) : String :=
  if s.isEmpty then "none" else ",".intercalate (s.map (fun w => toString w))

def kv (w : String) (k : String) : Option String := (w.dropPrefix? (k ++ "=")).map (·.toString)

def showMsg (m : Msg) : String := s!"{hexOfBytes m.id}:{hexOfBytes m.channel}:{hexOfBytes m.payload}:{m.ttl}"

def parseMsg (s : String) : Option Msg :=
  match s.splitOn ":" with
  | [i, c, p, t] => do
      let i ← bytesOfHex i
      let c ← bytesOfHex c
      let p ← bytesOfHex p
      let t ← t.toNat?
      pure { id := i, channel := c, payload := p, ttl := UInt32.ofNat t }
  | _ => none

def showMsgs (l : List Msg) : String := if l.isEmpty then "none" else ",".intercalate (l.map showMsg)
def parseMsgs (s : String) : Option (List Msg) := if s == "none" then some [] else (s.splitOn ",").mapM parseMsg

/-- a message of the peer-queue ops is just (tag, size): payload of `size` bytes whose first
bytes carry the tag; the model only needs sizes and tags -/
def mkMsg (tag size : Nat) : Msg :=
  { id := [], channel := [], payload := List.replicate size (UInt8.ofNat tag), ttl := UInt32.ofNat tag }

def showChunks (cs : List (List Msg)) : String :=
  if cs.isEmpty then "none" else
  "|".intercalate (cs.map (fun c => ",".intercalate (c.map (fun m => toString m.ttl))))

structure St where
  peer : Peer := {}
  max : Nat := maxByteFrameSize

def step (st : St) (ws : List String) (_impl : String) : St × Ans :=
  match ws with
  | ["id", ssid, u, sq, un] =>
      match parseSsid ssid, (kv u "unix").bind (·.toInt?), (kv sq "seq").bind (·.toNat?), (kv un "uniq").bind (·.toNat?) with
      | some ssid, some unix, some seq, some uniq =>
          match newId ssid unix (UInt32.ofNat seq) (UInt32.ofNat uniq) with
          | .ok id =>
              (st, { m := s!"{hexOfBytes id} time={idTime id} contract={idContract id} ssid={showSsid (idSsid id)}",
                     s := s!"{hexOfBytes id} time={unix} contract={ssid.getD 0 0} ssid={showSsid ssid}" })
          | .err _ => (st, { m := "err" })
          | .panic _ => (st, { m := "panic" })
      | _, _, _, _ => (st, bad)
  | ["id", ssid] =>
      -- the harness could not enrich the line: NewID panicked (ssid shorter than two words)
      match parseSsid ssid with
      | some ssid => (st, { m := if ssid.length < 2 then "panic" else "bad-op" })
      | none => (st, bad)
  | ["idwrap", ssid, n, start] =>
      -- n ids created back to back in one second, the sequence counter starting at `start`
      match parseSsid ssid, n.toNat?, start.toNat? with
      | some ssid, some n, some start =>
          let ids := (List.range n).filterMap (fun i =>
            match newId ssid 1600000000 (UInt32.ofNat (start + i + 1)) 7 with
            | .ok id => some id
            | _ => none)
          let desc := (ids.zip (ids.drop 1)).all (fun (a, b) => bytesLt b a)
          let distinct := ids.eraseDups.length == ids.length
          (st, { m := (if desc then "desc" else "not-descending") ++ (if distinct then " distinct" else " duplicate"),
                 s := "desc distinct", f := if desc then "-" else "C19.sequence-wrap-order" })
      | _, _, _ => (st, bad)
  | ["idseq", _, _] => (st, { m := "desc distinct" })
  | ["idconc", _, _] => (st, { m := "dups=0" })
  | ["settime", hex, t] =>
      match bytesOfHex hex, t.toInt? with
      | some id, some t =>
          -- SetTime rewrites bytes 4..8
          let id' := id.take 4 ++ putBe32 (maxU32 - relTime t) ++ id.drop 8
          (st, { m := s!"{hexOfBytes id'} time={idTime id'}", s := s!"{hexOfBytes id'} time={t}" })
      | _, _ => (st, bad)
  | ["msg", m] =>
      match parseMsg m with
      | some m =>
          let e := encodeMsg m
          let d := match decodeMsg e with
            | .ok (m', rest) => s!"ok {showMsg m'} rest={rest.length}"
            | .err _ => "err"
            | .panic _ => "panic"
          (st, { m := s!"{hexOfBytes e} {d}", s := s!"{hexOfBytes e} ok {showMsg m} rest=0" })
      | none => (st, bad)
  | ["frame", ms] =>
      match parseMsgs ms with
      | some f =>
          let e := encodeFrame f
          let d := match decodeFrame e with
            | .ok f' => s!"ok {showMsgs f'}"
            | .err _ => "err"
            | .panic _ => "panic"
          (st, { m := s!"{hexOfBytes e} {d}", s := s!"{hexOfBytes e} ok {showMsgs f}" })
      | none => (st, bad)
  | "split" :: max :: sizes =>
      match max.toNat?, sizes.mapM (·.toNat?) with
      | some max, some sizes =>
          let f := sizes.map (fun s => mkMsg 0 s)
          let (h, t) := split f max
          let hs := (h.map msgSize).foldl (· + ·) 0
          -- spec: nothing lost or reordered (sizes are the identity here), bound respected,
          -- empty head only for an empty frame or an oversize first message
          let ok := (h ++ t).map msgSize == f.map msgSize && (h.isEmpty || hs < max) &&
                    (!h.isEmpty || f.isEmpty || msgSize (f.headD (mkMsg 0 0)) ≥ max || max == 0) &&
                    (t.isEmpty || hs + msgSize (t.headD (mkMsg 0 0)) ≥ max)
          (st, { m := s!"head={h.length} tail={t.length}", s := if ok then "=" else "split-spec-violated" })
      | _, _ => (st, bad)
  | ["reset"] => ({}, { m := "ok" })
  | ["pmax", n] =>
      match n.toNat? with
      | some n => ({ st with max := n }, { m := "ok" })
      | none => (st, bad)
  | ["psend", act, tag, size] =>
      match tag.toNat?, size.toNat? with
      | some tag, some size =>
          let p := st.peer.send (act == "1") (mkMsg tag size)
          ({ st with peer := p }, { m := s!"queued={p.frame.length}" })
      | _, _ => (st, bad)
  | ["pflush"] =>
      let before := st.peer.sent.length
      let p := st.peer.flush st.max
      let new := p.sent.drop before
      let droppedNow := p.dropped.length - st.peer.dropped.length
      -- spec: everything that was queued goes to the transport exactly once, in order
      let want := st.peer.frame.map (fun m => toString m.ttl)
      let got := (new.flatten).map (fun m => toString m.ttl)
      ({ st with peer := p },
       { m := s!"sent={showChunks new} queued={p.frame.length}",
         s := if got == want then "=" else s!"sent=<all of {",".intercalate want}> queued=0",
         f := if droppedNow > 0 then "C19.oversize-message-drops-frame" else "-" })
  | ["pconc", _, _] => (st, { m := "ok" })
  -- a message sent while a flush is writing: it is in the new frame and goes out with the next flush
  | ["pduring", k] => (st, { m := if k == "0" then "sent=1 queued=1" else "sent=1,2 queued=0" })
  | _ => (st, bad)

end Driver.C19
