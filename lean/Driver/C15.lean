import Driver.Common
import Emitter.Model.Store
namespace Driver.C15
open Emitter Emitter.Message Emitter.Store Driver

def kv (w : String) (k : String) : Option String := (w.dropPrefix? (k ++ "=")).map (·.toString)

/-- value of `key=` among the words of the implementation's answer -/
def field (ws : List String) (k : String) : Option String := ws.findSome? (fun w => kv w k)

def parseSsid (s : String) : Option Ssid := (s.splitOn ",").mapM (fun w => w.toNat?.map UInt32.ofNat)

/-- `<ssid>[/cut]:<dt>:<seq>:<uniq>:<channel>:<payload>:<ttl>`: the id is what `NewID(ssid)` makes
at second `t0+dt` with sequence number `seq` and process nonce `uniq` (cut to `cut` bytes) -/
def parseMsg (t0 : Int) (s : String) : Option Msg :=
  match s.splitOn ":" with
  | [ss, dt, seq, uniq, ch, pl, ttl] => do
      let (ss, cut) ← match ss.splitOn "/" with
        | [a] => some (a, none)
        | [a, c] => c.toNat?.map (fun c => (a, some c))
        | _ => none
      let ssid ← parseSsid ss
      let dt ← dt.toInt?
      let seq ← seq.toNat?
      let uniq ← uniq.toNat?
      let ch ← bytesOfHex ch
      let pl ← bytesOfHex pl
      let ttl ← ttl.toNat?
      match newId ssid (t0 + dt) (UInt32.ofNat seq) (UInt32.ofNat uniq) with
      | .ok id =>
          let id := match cut with
            | some c => id.take c
            | none => id
          some { id := id, channel := ch, payload := pl, ttl := UInt32.ofNat ttl }
      | _ => none
  | _ => none

/-- `none` | `3,5-9,12` -/
def parseRanges (s : String) : Option (List Nat) :=
  if s == "none" then some [] else
  (s.splitOn ",").foldlM (fun acc r =>
    match r.splitOn "-" with
    | [a] => a.toNat?.map (fun a => acc ++ [a])
    | [a, b] => do
        let a ← a.toNat?
        let b ← b.toNat?
        if a ≤ b then some (acc ++ (List.range (b + 1 - a)).map (· + a)) else none
    | _ => none) []

def showFound (f : Found) : String :=
  s!"{hexOfBytes f.msg.id}:{hexOfBytes f.msg.channel}:{hexOfBytes f.msg.payload}:{f.msg.ttl}:{f.expiresAt}"

def join (l : List String) : String := if l.isEmpty then "none" else ",".intercalate l

structure St where
  t0 : Int := 0
  retain : UInt32 := defaultRetain
  /-- the directory, as the list instance of the durable store -/
  disk : List Entry := []
  /-- entries of messages whose `Store` was in flight when the process died and that no history
  query has looked for yet -/
  pending : List Msg := []
  /-- ids handed to `Store` so far (ids made by `NewID` are distinct, C19) -/
  used : List Bytes := []
  /-- the last process that had the directory open was killed -/
  lastKilled : Bool := false
  /-- a `reset` line opened a session -/
  started : Bool := false

/-- Finding C15.reopen-fails-once-after-kill: badger v3 truncates a memtable file to length 0
before it unlinks it (and creates one before it sizes it); a kill in between leaves a zero-length
`.mem` file, the next `badger.Open` fails on it ("Create a new file") and, failing, re-initialises
it, so the open after that succeeds. Only the first open after a kill can fail this way. -/
def reopenFlag : String := "C15.reopen-fails-once-after-kill"

def isReopenFailure (opn : String) : Bool :=
  opn.startsWith "err:" && (opn.splitOn "Create_a_new_file").length > 1

def isOk {α} : Outcome α → Bool
  | .ok _ => true
  | _ => false

def step (st : St) (ws : List String) (impl : String) : St × Ans :=
  let iw := (impl.splitOn " ").filter (· ≠ "")
  match ws with
  | ["reset", r, t] =>
      match r.toNat?, (kv t "t0").bind (·.toInt?) with
      | some r, some t0 => ({ t0 := t0, retain := configRetain r, started := true }, { m := "ok" })
      | _, _ => (st, bad)
  | ["sleep", _] => (st, { m := "ok" })
  | ["plant"] => (st, { m := "ok" })   -- a zero-length memtable file appears: no effect on what the store holds
  | ["incarnations", _, _] =>
      -- ids are store keys: successive incarnations of the broker never create the same id (the per
      -- process nonce of `NewID`), else a later store overwrites an acknowledged message
      (st, { m := "distinct" })
  | "run" :: how :: _k :: _d :: _w :: _fill :: ms =>
      if !st.started then (st, bad) else
      match ms.mapM (parseMsg st.t0) with
      | none => (st, bad)
      | some msgs =>
        -- ids that reach the store (`Store` panics on a shorter one before it touches the store)
        let ids := (msgs.filter (fun m => isOk (entryOf Zip.id st.retain m))).map (·.id)
        if ids.eraseDups.length != ids.length || ids.any (st.used.contains ·) then (st, bad) else
        let n := msgs.length
        let ents := msgs.map (entryOf Zip.id st.retain)
        match (field iw "acked").bind parseRanges, (field iw "inflight").bind parseRanges,
              (field iw "errs").bind parseRanges, (field iw "panics").bind parseRanges,
              field iw "exit", field iw "open", field iw "closed" with
        | some acked, some inflight, some errs, some panics, some exit, some opn, some closed =>
            if isReopenFailure opn && st.lastKilled && exit == "3" && (acked ++ inflight ++ errs ++ panics).isEmpty then
              -- the process could not open the store and stored nothing
              ({ st with lastKilled := false },
               { m := impl, s := s!"an outcome a {how} run can have: the store opens", f := reopenFlag })
            else
            let all := acked ++ inflight ++ errs ++ panics
            let closeAt := (_k.toNat?).getD 0
            let shape := all.eraseDups.length == all.length && all.all (· < n) &&
              (if how == "lateclose" then errs.all (· ≥ closeAt) else errs.isEmpty) &&
              acked.all (fun i => isOk (ents.getD i (.err ""))) &&
              panics.all (fun i => (ents.getD i (.err "")).isPanic)
            let complete := inflight.isEmpty && (acked ++ panics ++ (if how == "lateclose" then errs else [])).length == n
            let okHow :=
              if how == "clean" then exit == "0" && opn == "ok" && closed == "yes" && complete
              else if how == "lateclose" then exit == "0" && opn == "ok" && closed == "yes" && complete
              else if how == "kill" then exit == "killed" && opn == "ok" && closed == "no"
              else if how == "killclose" then exit == "killed" && opn == "ok" && complete && (closed == "yes" || closed == "no")
              else if how == "killopen" then exit == "killed" && closed == "no" && (opn == "ok" || all.isEmpty)
              else false
            if shape && okHow then
              -- acknowledged stores are committed; in-flight ones are decided by the next history query
              let disk := acked.foldl (fun d i => match msgs[i]? with
                | some m => commitMsg Zip.id st.retain d m
                | none => d) st.disk
              let pend := inflight.filterMap (fun i => msgs[i]?)
              ({ st with disk := disk, pending := st.pending ++ pend, used := st.used ++ ids, lastKilled := exit == "killed" }, { m := impl })
            else
              ({ st with used := st.used ++ ids },
               { m := s!"an outcome a {how} run of {n} stores can have (no Store error, no panic on a well-formed id, clean: all acknowledged)" })
        | _, _, _, _, _, _, _ => (st, { m := "unparsable-run-answer" })
  | ["check", _limit, how, nw] =>
      if !st.started then (st, bad) else
      match (kv nw "now").bind (·.toNat?) with
      | none => (st, bad)
      | some now =>
        -- an in-flight message is either wholly there (exactly as it would have been stored) or
        -- not there: look for it in the implementation's answer
        let implHist := ((field iw "hist").getD "none").splitOn ","
        let landed := st.pending.filter (fun m =>
          isOk (entryOf Zip.id st.retain m) && implHist.contains (showFound (foundOf st.retain m)))
        let disk := landed.foldl (commitMsg Zip.id st.retain) st.disk
        let st' := { st with disk := disk, pending := [], lastKilled := how != "clean" }
        match query listKV Zip.id disk now with
        | .ok res =>
            let closed := if how == "clean" then "yes" else "na"
            let normal := s!"open=ok exit=ok closed={closed} odd=none n={(listKV.scan disk now).length} orphans=none hist={join (res.map showFound)}"
            if isReopenFailure ((field iw "open").getD "") && st.lastKilled then
              -- the query process could not open the store: nothing was looked at, nothing is decided
              ({ st with lastKilled := false }, { m := impl, s := normal, f := reopenFlag })
            else (st', { m := normal })
        | .err _ => (st', { m := "err" })
        | .panic _ => (st', { m := "panic" })
  | _ => (st, bad)

end Driver.C15
