import Driver.Common
import Emitter.Model.Hostile
import Emitter.Model.Security
namespace Driver.C09
open Emitter Emitter.Hostile Driver

def kv (w : String) (k : String) : Option String := (w.dropPrefix? (k ++ "=")).map (·.toString)

def cls {α} : Outcome α → (α → String) → String
  | .ok a, f => f a
  | .err _, _ => "err"
  | .panic _, _ => "panic"

/-- a callback verdict as the harness prints it -/
def verdict : Verdict → String → String
  | .served, ok => ok
  | .rejected, _ => "err"
  | .closed, _ => "closed"
  | .fatal, _ => "fatal"

/-- the property demands: never fatal -/
def notFatal (m : String) : String := if m == "fatal" then "ok-or-err" else "="

/-- the handler outcome the model assumes for a well-addressed ssdstore survey (repaired lookup) -/
def storeOk : Outcome Unit := .ok ()

def gossipM (recovers : Bool) (skipEmpty : Bool) (inner : Bytes) : String :=
  if skipEmpty && inner.isEmpty then "ok delta=0" else
  match mergeInner inner with
  | .ok n => s!"ok delta={n}"
  | o => verdict (contain recovers o) ""

def unicastM (inner : Bytes) : String :=
  verdict (contain facts.onUnicastRecovers (unicastInner storeOk inner)) "ok"

/-- the stored messages of the lookup operations: 10 × (1 payload + 24 id + 2 channel) -/
def storedSizes : List Nat := List.replicate 10 27

def innerOf (s : String) : Option (Option Bytes) :=
  if s == "err" || s == "big" then some none else (bytesOfHex s).map some

/-- inputs the harness never runs inside its own process (they could exhaust the machine on an
unrepaired tree); they are sent to the child broker as `attack` operations instead -/
def refused : Ans := { m := "refused-unsafe-in-process" }

def unsafeFrame (inner : Bytes) : Bool :=
  match readUvar inner with
  | (some n, _) => n > 1000000 && n < 1125899906842624
  | (none, _) => false

def unsafeRaw (raw : Bytes) : Bool :=
  match decodedLen raw with
  | some n => n > 67108864
  | none => false

def aliveOf (v : Verdict) : String := if v == .fatal then "fatal" else "alive"

def step (ws : List String) (_impl : String) : Ans :=
  match ws with
  | ["mqtt", max, hex] =>
      match max.toNat?, bytesOfHex hex with
      | some max, some s =>
          if max > 16777216 then refused else
          { m := cls (Mqtt.decode s max) (fun (_, rest) =>
              let ty := ((s.headD 0) &&& 0xf0) >>> 4
              s!"ok t={ty} used={s.length - rest.length}") }
      | _, _ => bad
  | ["pubenc", tl, pl, q] =>
      match tl.toNat?, pl.toNat?, q.toNat? with
      | some tl, some pl, some q =>
          let r := Mqtt.encode (.publish ⟨false, UInt8.ofNat q, false⟩ (List.replicate tl 116) 7 (List.replicate pl 112))
          { m := match r with
              | .ok bs => s!"ok n={bs.length}"
              | .err _ => "err"
              | .panic _ => "panic",
            -- the property: never a panic, whatever the size
            s := if r.isPanic then "err" else "=" }
      | _, _, _ => bad
  | ["frame", hex] =>
      match bytesOfHex hex with
      | some inner =>
          if unsafeFrame inner then refused else
          { m := cls (decodeFrame inner) (fun ms => s!"ok n={ms.length}") }
      | none => bad
  | ["state", hex] =>
      match bytesOfHex hex with
      | some inner => { m := cls (decodeState inner) (fun _ => "ok") }
      | none => bad
  | ["gossip", hex] =>
      match bytesOfHex hex with
      | some inner => let m := gossipM facts.onGossipRecovers true inner; { m := m, s := notFatal m }
      | none => bad
  | ["bcast", hex] =>
      match bytesOfHex hex with
      | some inner => let m := gossipM facts.onBroadcastRecovers false inner; { m := m, s := notFatal m }
      | none => bad
  | ["unicast", hex] =>
      match bytesOfHex hex with
      | some inner =>
          if unsafeFrame inner then refused else
          let m := unicastM inner; { m := m, s := notFatal m }
      | none => bad
  | ["rawgossip", hex, inn] =>
      match bytesOfHex hex, (kv inn "inner").bind innerOf with
      | some raw, some inner =>
          if unsafeRaw raw then refused else
          let v := onGossip facts (fun _ => inner) raw
          let m := match v, inner with
            | .served, some i => if raw.length ≤ 1 then "ok delta=0" else gossipM true false i
            | .served, none => "ok delta=0"
            | v, _ => verdict v ""
          { m := m, s := notFatal m }
      | _, _ => bad
  | ["rawunicast", hex, inn] =>
      match bytesOfHex hex, (kv inn "inner").bind innerOf with
      | some raw, some inner =>
          if unsafeRaw raw || (inner.map unsafeFrame).getD false then refused else
          let m := verdict (onUnicast facts (fun _ => inner) storeOk raw) "ok"
          { m := m, s := notFatal m }
      | _, _ => bad
  | ["chan", hex] =>
      match bytesOfHex hex with
      | some t =>
          let c := Security.parseChannel t
          let m := if c.ctype == Security.chInvalid then "type=0" else s!"type={c.ctype} levels={c.query.length} opts={c.options.length}"
          -- the property: the parser answers, and what it builds is bounded by the text it was given
          { m := m, s := if c.options.length ≤ t.length && c.query.length ≤ t.length then "=" else "bounded-by-input" }
      | none => bad
  | ["survey", limit] =>
      match limit.toInt? with
      | some l => if l > 1000000 then refused else { m := verdict (contain facts.onUnicastRecovers storeOk) "ok" }
      | none => bad
  | ["lookup", limit] =>
      match limit.toInt? with
      | some l => if l > 1000000 then refused else { m := s!"n={(lookup l storedSizes).length} cap={lookupCap l}" }
      | none => bad
  | "attack" :: kind :: args =>
      let m : Option String :=
        match kind, args with
        | "client", [hex] => (bytesOfHex hex).map (fun s => aliveOf (streamFate facts Mqtt.maxMessageSize s.length s))
        | "session", [hex] => (bytesOfHex hex).map (fun s => aliveOf (streamFate facts Mqtt.maxMessageSize s.length s))
        | "sub", [_] => some "alive"
        | "request", [_, _] => some "alive"
        | "survey", [_] => some (aliveOf (contain facts.onUnicastRecovers storeOk))
        | "gossip", [hex] => (bytesOfHex hex).map (fun i =>
            if i.isEmpty then "alive" else aliveOf (contain facts.onGossipRecovers (mergeInner i)))
        | "bcast", [hex] => (bytesOfHex hex).map (fun i => aliveOf (contain facts.onBroadcastRecovers (mergeInner i)))
        | "unicast", [hex] => (bytesOfHex hex).map (fun i => aliveOf (contain facts.onUnicastRecovers (unicastInner storeOk i)))
        | "rawgossip", [hex, inn] =>
            match bytesOfHex hex, (kv inn "inner").bind innerOf with
            | some raw, some inner => some (aliveOf (onGossip facts (fun _ => inner) raw))
            | _, _ => none
        | "rawunicast", [hex, inn] =>
            match bytesOfHex hex, (kv inn "inner").bind innerOf with
            | some raw, some inner => some (aliveOf (onUnicast facts (fun _ => inner) storeOk raw))
            | _, _ => none
        | _, _ => none
      match m with
      | some m => { m := m, s := "alive" }
      | none => bad
  | _ => bad

end Driver.C09
