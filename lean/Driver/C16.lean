import Driver.Common
import Emitter.Model.Mqtt
import Emitter.Spec.Mqtt
namespace Driver.C16
open Emitter Emitter.Mqtt Driver

def b01 (b : Bool) : String := if b then "1" else "0"
def pb (s : String) : Option Bool := if s == "1" then some true else if s == "0" then some false else none
def pu8 (s : String) : Option UInt8 := s.toNat?.bind (fun n => if n < 256 then some (UInt8.ofNat n) else none)
def pu16 (s : String) : Option UInt16 := s.toNat?.bind (fun n => if n < 65536 then some (UInt16.ofNat n) else none)

def showSubs (withQos : Bool) (l : List TopicQos) : String :=
  if l.isEmpty then "none" else
  ",".intercalate (l.map (fun t => if withQos then s!"{hexOfBytes t.topic}:{t.qos}" else hexOfBytes t.topic))

def parseSubs (withQos : Bool) (s : String) : Option (List TopicQos) :=
  if s == "none" then some [] else
  (s.splitOn ",").mapM (fun e =>
    if withQos then
      match e.splitOn ":" with
      | [t, q] => do pure { topic := ← bytesOfHex t, qos := ← pu8 q }
      | _ => none
    else do pure { topic := ← bytesOfHex e, qos := 0 })

def showHeader (h : Header) : String := s!"{b01 h.dup} {h.qos} {b01 h.retain}"

def showPacket : Packet → String
  | .connect c => s!"connect {hexOfBytes c.protoName} {c.version} {b01 c.usernameFlag} {b01 c.passwordFlag} {b01 c.willRetain} {c.willQos} {b01 c.willFlag} {b01 c.cleanSession} {c.keepAlive} {hexOfBytes c.clientId} {hexOfBytes c.willTopic} {hexOfBytes c.willMessage} {hexOfBytes c.username} {hexOfBytes c.password}"
  | .connack rc => s!"connack {rc}"
  | .publish h t mid p => s!"publish {showHeader h} {hexOfBytes t} {mid} {hexOfBytes p}"
  | .puback mid => s!"puback {mid}"
  | .pubrec mid => s!"pubrec {mid}"
  | .pubrel h mid => s!"pubrel {showHeader h} {mid}"
  | .pubcomp mid => s!"pubcomp {mid}"
  | .subscribe h mid subs => s!"subscribe {showHeader h} {mid} {showSubs true subs}"
  | .suback mid qos => s!"suback {mid} {hexOfBytes qos}"
  | .unsubscribe h mid ts => s!"unsubscribe {showHeader h} {mid} {showSubs false ts}"
  | .unsuback mid => s!"unsuback {mid}"
  | .pingreq => "pingreq"
  | .pingresp => "pingresp"
  | .disconnect => "disconnect"

def parseHeader (d q r : String) : Option Header := do
  pure { dup := ← pb d, qos := ← pu8 q, retain := ← pb r }

def parsePacket : List String → Option Packet
  | ["connect", pn, ver, uf, pf, wr, wq, wf, cs, ka, cid, wt, wm, un, pw] => do
      let pn ← bytesOfHex pn
      let ver ← pu8 ver
      let uf ← pb uf
      let pf ← pb pf
      let wr ← pb wr
      let wq ← pu8 wq
      let wf ← pb wf
      let cs ← pb cs
      let ka ← pu16 ka
      let cid ← bytesOfHex cid
      let wt ← bytesOfHex wt
      let wm ← bytesOfHex wm
      let un ← bytesOfHex un
      let pw ← bytesOfHex pw
      pure (.connect ⟨pn, ver, uf, pf, wr, wq, wf, cs, ka, cid, wt, wm, un, pw⟩)
  | ["connack", rc] => do pure (.connack (← pu8 rc))
  | ["publish", d, q, r, t, mid, p] => do
      pure (.publish (← parseHeader d q r) (← bytesOfHex t) (← pu16 mid) (← bytesOfHex p))
  | ["puback", mid] => do pure (.puback (← pu16 mid))
  | ["pubrec", mid] => do pure (.pubrec (← pu16 mid))
  | ["pubrel", d, q, r, mid] => do pure (.pubrel (← parseHeader d q r) (← pu16 mid))
  | ["pubcomp", mid] => do pure (.pubcomp (← pu16 mid))
  | ["subscribe", d, q, r, mid, subs] => do
      pure (.subscribe (← parseHeader d q r) (← pu16 mid) (← parseSubs true subs))
  | ["suback", mid, qos] => do pure (.suback (← pu16 mid) (← bytesOfHex qos))
  | ["unsubscribe", d, q, r, mid, ts] => do
      pure (.unsubscribe (← parseHeader d q r) (← pu16 mid) (← parseSubs false ts))
  | ["unsuback", mid] => do pure (.unsuback (← pu16 mid))
  | ["pingreq"] => some .pingreq
  | ["pingresp"] => some .pingresp
  | ["disconnect"] => some .disconnect
  | _ => none

def showDecoded : Outcome (Packet × Bytes) → String
  | .ok (p, rest) => s!"ok {showPacket p} rest={rest.length}"
  | .err _ => "err"
  | .panic _ => "panic"

/-- the standard's answer for a decoder (`Spec.Mqtt.decode`), rendered like `showDecoded`; `none` when the
bytes are not a valid MQTT 3.1.1 packet (the standard then only demands that the connection be closed, and
the codec's permissiveness is recorded as `*_deviation` theorems in Props/C16.lean) -/
def showSpecDecoded (expected : Packet) (bs : Bytes) : Option String :=
  match Spec.Mqtt.decode bs with
  | some (q, rest) =>
      if q = expected then some s!"ok {showPacket q} rest={rest.length}"
      else some s!"spec-decodes ok {showPacket q} rest={rest.length}"
  | none => none

def step (ws : List String) (_impl : String) : Ans :=
  match ws with
  | "enc" :: desc =>
      match parsePacket desc with
      | some p =>
          let r := encode p
          -- the spec constrains what the broker emits: a PUBLISH that does not fit must be refused
          -- with an error, never a panic; oversize packets of types only clients send are not in scope
          let isPub := match p with | .publish .. => true | _ => false
          let other := if r.isPanic && isPub then "err" else "="
          -- S: the bytes MQTT 3.1.1 prescribes for the packet (Spec/Mqtt.lean), when the value denotes a
          -- valid standard packet and its Remaining Length fits the broker's buffer
          let s := match Spec.Mqtt.encode p, Spec.Mqtt.remainingLengthOf p with
            | some bs, some n => if n ≤ bodyRoom then "ok " ++ hexOfBytes bs else other
            | _, _ => other
          { m := outcomeHex r, s := s }
      | none => bad
  | "dec" :: max :: [hex] =>
      match max.toNat?, bytesOfHex hex with
      | some max, some bs =>
          let r := decode bs max
          -- malformed input may make the decoder panic (contained per connection, see C09).
          -- S: when the bytes start with a valid MQTT 3.1.1 packet (the standard's strict parser accepts
          -- them) whose Remaining Length is within the limit, the decoder must return that packet and
          -- leave the same rest; on anything else the standard asks for nothing but closing the connection
          let s := match Spec.Mqtt.decode bs, Spec.Mqtt.remainingLength 4 (bs.drop 1) with
            | some (q, rest), some (n, _) => if n ≤ max then s!"ok {showPacket q} rest={rest.length}" else "="
            | _, _ => "="
          { m := showDecoded r, s := s }
      | _, _ => bad
  -- encode with the broker, decode with the reference codec: must give the packet back.
  -- S: what the standard's parser makes of the emitted bytes
  | "refdec" :: desc =>
      match parsePacket desc with
      | some p =>
          match encode p with
          | .ok bs =>
              { m := showDecoded (decode bs maxMessageSize),
                s := (showSpecDecoded (normal p) bs).getD s!"ok {showPacket (normal p)} rest=0" }
          | .err _ => { m := "err" }
          | .panic _ => { m := "panic" }   -- oversize packet of a type only clients send: out of scope
      | none => bad
  -- encode with the reference codec, decode with the broker.
  -- the reference bytes are the standard's (`Spec.Mqtt.encode`) where it prescribes any; S: the standard's
  -- parser on them
  | "refenc" :: desc =>
      match parsePacket desc with
      | some p =>
          let sb := Spec.Mqtt.encode p
          let bs := sb.getD (encodeWire p)
          let r := decode bs maxMessageSize
          let old := s!"ok {showPacket (normal p)} rest=0"
          { m := showDecoded r,
            -- a packet beyond the broker's size limit is refused; that is the broker's right (C09), not the
            -- standard's demand. (The Remaining Length is the standard's when the value denotes a packet.)
            s := if (Spec.Mqtt.remainingLengthOf p).getD (parts p).2.2.length > maxMessageSize then "="
                 else match sb with
                   | some sb => (showSpecDecoded (normal p) sb).getD old
                   | none => old }
      | none => bad
  -- concurrent encodes (one goroutine per publisher): the encoder has no shared state a writer could
  -- observe, every frame is the sequential encoding of its packet
  | ["conc", _, _, _] => { m := "ok" }
  | _ => bad

end Driver.C16
