import Emitter.Props.C07
#print axioms Emitter.C07.ttl_positive_iff
#print axioms Emitter.C07.stored_iff
#print axioms Emitter.C07.replay_exact
#print axioms Emitter.C07.last_n
#print axioms Emitter.C07.will_fires_iff
#print axioms Emitter.C07.step_refines
#print axioms Emitter.C07.store_history_refines
#print axioms Emitter.C07.store_history_exact
#print axioms Emitter.C07.replay_history_exact
#print axioms Emitter.C07.replay_history_pubs
#print axioms Emitter.C07.unstored_never_replayed
#print axioms Emitter.C07.replay_sublist
#print axioms Emitter.C07.replay_zero
#print axioms Emitter.C07.replay_all
