import Emitter.Props.C07
#print axioms Emitter.C07.ttl_positive_iff
#print axioms Emitter.C07.stored_iff
#print axioms Emitter.C07.replay_exact
#print axioms Emitter.C07.last_n
#print axioms Emitter.C07.will_fires_iff
