import Emitter.Props.C07
#print axioms Emitter.C07.placeholder
