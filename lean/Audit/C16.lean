import Emitter.Props.C16
#print axioms Emitter.C16.placeholder
