import Emitter.Props.C16
#print axioms Emitter.C16.fact_type_codes
#print axioms Emitter.C16.fact_sizes
#print axioms Emitter.C16.encLen_length
#print axioms Emitter.C16.len_roundtrip
#print axioms Emitter.C16.string_roundtrip
#print axioms Emitter.C16.decode_encode
#print axioms Emitter.C16.encode_fits
#print axioms Emitter.C16.encode_publish_total
#print axioms Emitter.C16.decode_refuses_oversize
