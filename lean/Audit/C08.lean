import Emitter.Props.C08
#print axioms Emitter.C08.close_cleans
#print axioms Emitter.C08.will_fires_iff
#print axioms Emitter.C08.will_once
#print axioms Emitter.C08.presence_leave
#print axioms Emitter.C08.sync_step
#print axioms Emitter.C08.close_history_clean
