import Emitter.Props.C08
#print axioms Emitter.C08.placeholder
