import Emitter.Props.C20
#print axioms Emitter.C20.placeholder
