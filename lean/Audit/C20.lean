import Emitter.Props.C20
#print axioms Emitter.C20.fact_xtea_sum
#print axioms Emitter.C20.fact_alphabet
#print axioms Emitter.C20.fact_decode_table
#print axioms Emitter.C20.key_roundtrip
#print axioms Emitter.C20.encrypt_injective
#print axioms Emitter.C20.reject_invalid
#print axioms Emitter.C20.decrypt_total
#print axioms Emitter.C20.stream_roundtrip
#print axioms Emitter.C20.shuffle_roundtrip
#print axioms Emitter.C20.xtea_block_roundtrip
#print axioms Emitter.C20.parse_total
#print axioms Emitter.C20.v1_roundtrip
