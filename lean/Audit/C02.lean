import Emitter.Props.C02
#print axioms Emitter.C02.sync_init
#print axioms Emitter.C02.sync_accept
#print axioms Emitter.C02.sync_step
#print axioms Emitter.C02.sync_history
#print axioms Emitter.C02.deliver_spec
#print axioms Emitter.C02.deliver_once
#print axioms Emitter.C02.publish_exact
#print axioms Emitter.C02.subscribe_records
#print axioms Emitter.C02.unsubscribe_removes
#print axioms Emitter.C02.reject_subscribe
#print axioms Emitter.C02.reject_unsubscribe
#print axioms Emitter.C02.reject_publish
#print axioms Emitter.C02.history_refines
#print axioms Emitter.C02.refines_step
#print axioms Emitter.C02.publish_history_exact
#print axioms Emitter.C02.publish_history_iff
#print axioms Emitter.C02.removed_never_receives
