import Emitter.Props.C02
#print axioms Emitter.C02.placeholder
