import Emitter.Props.C18
#print axioms Emitter.C18.placeholder
