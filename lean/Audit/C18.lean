import Emitter.Props.C18
#print axioms Emitter.C18.status_exact
#print axioms Emitter.C18.subscribe_notifies_once
#print axioms Emitter.C18.unsubscribe_notifies_once
#print axioms Emitter.C18.notification_receivers
#print axioms Emitter.C18.sync_step
#print axioms Emitter.C18.status_history
#print axioms Emitter.C18.notify_history
