import Emitter.Props.C19
#print axioms Emitter.C19.fact_layout
#print axioms Emitter.C19.id_time
#print axioms Emitter.C19.id_ssid
#print axioms Emitter.C19.id_order
#print axioms Emitter.C19.id_injective
#print axioms Emitter.C19.id_order_wrap_refuted
#print axioms Emitter.C19.uvarint_roundtrip
#print axioms Emitter.C19.message_roundtrip
#print axioms Emitter.C19.frame_roundtrip
#print axioms Emitter.C19.split_ok
#print axioms Emitter.C19.flush_ok
#print axioms Emitter.C19.peer_exactly_once
#print axioms Emitter.Tie.Id.tie_Contract
#print axioms Emitter.Tie.Id.tie_Time
#print axioms Emitter.Tie.Id.tie_SetTime
#print axioms Emitter.Tie.Id.tie_NewPrefix
#print axioms Emitter.Tie.Id.tie_HasPrefix
