import Emitter.Props.C01
#print axioms Emitter.C01.fact_words
#print axioms Emitter.C01.matchesE_iff
#print axioms Emitter.C01.matchesM_iff
#print axioms Emitter.C01.history_refines
#print axioms Emitter.C01.lookup_exact
#print axioms Emitter.C01.lookup_share
#print axioms Emitter.C01.share_candidates
#print axioms Emitter.C01.index_empty_again
#print axioms Emitter.C01.subid_collision_exists
