import Emitter.Props.C01
#print axioms Emitter.C01.placeholder
