import Emitter.Props.C04
#print axioms Emitter.C04.placeholder
