import Emitter.Props.C04
#print axioms Emitter.C04.merge_is_max
#print axioms Emitter.C04.nonneg_preserved
#print axioms Emitter.C04.nodup_preserved
#print axioms Emitter.C04.local_ops_are_updates
#print axioms Emitter.C04.idempotent
#print axioms Emitter.C04.commutative
#print axioms Emitter.C04.associative
#print axioms Emitter.C04.converge
#print axioms Emitter.C04.converge_active
#print axioms Emitter.C04.schedule_converge
#print axioms Emitter.C04.active_iff
#print axioms Emitter.C04.active_after_add
#print axioms Emitter.C04.inactive_after_del
#print axioms Emitter.C04.durable_same_state
#print axioms Emitter.C04.durable_has
