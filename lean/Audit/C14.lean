import Emitter.Props.C14
#print axioms Emitter.C14.ban_immediate
#print axioms Emitter.C14.unban_immediate
#print axioms Emitter.C14.toggles
#print axioms Emitter.C14.others_unaffected
#print axioms Emitter.C14.refused_request_changes_nothing
#print axioms Emitter.C14.only_master_of_same_contract
#print axioms Emitter.C14.cache_coherent_step
#print axioms Emitter.C14.has_is_stored
#print axioms Emitter.C14.ban_restart
#print axioms Emitter.C14.ban_remote
