import Emitter.Props.C10
#print axioms Emitter.C10.fact_conn_write
#print axioms Emitter.C10.fact_conn_flush
#print axioms Emitter.C10.fact_conn_len
#print axioms Emitter.C10.fact_conn_enqueue
#print axioms Emitter.C10.fact_ws_write
#print axioms Emitter.C10.fact_broker_shape
#print axioms Emitter.C10.framing
#print axioms Emitter.C10.framing_mqtt
#print axioms Emitter.C10.publisher_order
#print axioms Emitter.C10.no_loss
#print axioms Emitter.C10.no_loss_count
#print axioms Emitter.C10.final_flush
#print axioms Emitter.C10.no_loss_after_flush
#print axioms Emitter.C10.ws_delivery
