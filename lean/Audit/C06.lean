import Emitter.Model.Base
import Emitter.Props.C06
#print axioms Emitter.C06.fact_consts
#print axioms Emitter.C06.store_invariant
#print axioms Emitter.C06.store_contents
#print axioms Emitter.C06.key_order
#print axioms Emitter.C06.query_exact
#print axioms Emitter.C06.answer_shape
#print axioms Emitter.C06.answer_last_n
#print axioms Emitter.C06.sort_perm
#print axioms Emitter.C06.query_sound
#print axioms Emitter.C06.isolation
#print axioms Emitter.C06.isolation_refuted
#print axioms Emitter.C06.continuation_after
#print axioms Emitter.C06.pages_disjoint
#print axioms Emitter.C06.continuation_exact_repaired
#print axioms Emitter.C06.continuation_exact_refuted
#print axioms Emitter.C06.limit_zero
#print axioms Emitter.C06.limit_bound
#print axioms Emitter.C06.query_ordered
#print axioms Emitter.C06.frame_limit
#print axioms Emitter.Tie.Id.tie_Contract
#print axioms Emitter.Tie.Id.tie_Time
#print axioms Emitter.Tie.Id.tie_SetTime
#print axioms Emitter.Tie.Id.tie_NewPrefix
#print axioms Emitter.Tie.Id.tie_HasPrefix
