import Emitter.Props.C13
#print axioms Emitter.C13.delta_times
