import Emitter.Props.C11
#print axioms Emitter.C11.create_requires_master
#print axioms Emitter.C11.create_fields
#print axioms Emitter.C11.create_target
#print axioms Emitter.C11.access_never_master
#print axioms Emitter.C11.extend_requires_extend
#print axioms Emitter.C11.extend_subset
#print axioms Emitter.C11.extendable_cannot_subscribe
#print axioms Emitter.C11.extendable_cannot_publish
