import Emitter.Props.C03
#print axioms Emitter.C03.fact_permissions
#print axioms Emitter.C03.authorize_iff
#print axioms Emitter.C03.contract_isolation
#print axioms Emitter.C03.banned_refused
#print axioms Emitter.C03.expired_refused
#print axioms Emitter.C03.permission_required
#print axioms Emitter.C03.undecryptable_refused
#print axioms Emitter.C03.validate_covers
#print axioms Emitter.C03.validate_covers_exact
#print axioms Emitter.C03.setTarget_fields
#print axioms Emitter.C03.hash_target_covers_all
#print axioms Emitter.C03.trailing_plus_refuted
