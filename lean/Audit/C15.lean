import Emitter.Props.C15
#print axioms Emitter.C15.fact_consts
#print axioms Emitter.C15.stored_messages_survive
#print axioms Emitter.C15.acked_is_durable
#print axioms Emitter.C15.unacked_whole_or_absent
#print axioms Emitter.C15.no_invented_entry
#print axioms Emitter.C15.store_entry
#print axioms Emitter.C15.expiry
#print axioms Emitter.C15.list_store_laws
#print axioms Emitter.C15.identity_zip_ok
#print axioms Emitter.C15.list_run
#print axioms Emitter.C15.driver_answer
#print axioms Emitter.C15.always_reopens_refuted
#print axioms Emitter.C15.always_reopens_partial
#print axioms Emitter.C15.reopens_on_second_try
