import Emitter.Props.C05
#print axioms Emitter.C05.init_no_routes
