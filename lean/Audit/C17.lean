import Emitter.Props.C17
#print axioms Emitter.C17.fact_consts
#print axioms Emitter.C17.sniffer_phase_sees_prefix
#print axioms Emitter.C17.sniffer_stream
#print axioms Emitter.C17.sniffer_delivers_partial
#print axioms Emitter.C17.sniffer_flag_needs_data_with_error
#print axioms Emitter.C17.sniffer_delivers_net
#print axioms Emitter.C17.sniffer_delivers_refuted
#print axioms Emitter.C17.sniffer_slice_in_range
#print axioms Emitter.C17.write_queue
#print axioms Emitter.C17.ws_stream
#print axioms Emitter.C17.ws_read
#print axioms Emitter.C17.ws_write
