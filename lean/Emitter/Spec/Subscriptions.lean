/-
  Specification side of C02 (and of the subscription part of C08 / C18): the set `A` of
  acknowledged, not yet removed subscriptions, read literally from the property.

  The state is a list of `(connection name, filter)` pairs plus the names of the connections
  that are still open (and the list of banned keys, which the authorizer consults). There are
  no counters, no subscription index and no connection records here: the step function only
  says WHICH requests are acknowledged (the topic parses, the authorizer grants the permission,
  the key is not an extendable one) and what an acknowledged request does to the set.

  From the broker model only the vocabulary is used: `Req` (decoded requests), `Auth` / `Grant`
  (the authorizer is a parameter), the transcribed channel parser and the C01 matching relation
  `matchesMode`.
-/
import Emitter.Model.Broker

namespace Emitter.Broker.Spec
open Emitter Emitter.Trie Emitter.Security Emitter.Broker

/-- one event of a broker history -/
inductive Ev where
  /-- a new connection is accepted under a name (the harness's client label) and a connection id -/
  | accept (name : String) (guid : Bytes)
  /-- a decoded request arrives on a connection -/
  | req (name : String) (r : Req)
  /-- the list of banned keys changes (a keyban request, a cluster merge) -/
  | ban (keys : List Bytes)
deriving Repr

structure SpecState where
  /-- banned keys (only handed to the authorizer) -/
  banned : List Bytes := []
  /-- names of the connections that are open, in the order they were accepted -/
  alive : List String := []
  /-- `A`: the acknowledged, not yet removed subscriptions -/
  A : List (String × Path) := []
deriving Repr, DecidableEq

/-- A request on `ch` needing `perm` is ACCEPTED iff the channel parses, the authorizer grants
the permission and the key is not an extendable one; the filter it is about is then the
contract followed by the hashed channel levels. -/
def granted (auth : Auth) (banned : List Bytes) (ch : Channel) (perm : UInt8) : Option Path :=
  if ch.ctype == chInvalid then none else
  match auth banned ch perm with
  | none => none
  | some g => if g.has permExtend then none else some (g.contract :: ch.query)

/-- what an acknowledged request does to `A` -/
inductive Effect where
  | none
  | add (σ : Path)
  | remove (σ : Path)
  | closeAll
deriving Repr, DecidableEq

/-- The effect of a request of an open connection on the set of its subscriptions.

* SUBSCRIBE (topic normalised as `OnSubscribe` does), accepted with the read permission: the
  filter is added.
* UNSUBSCRIBE, accepted with the read permission: the filter is removed.
* link request with a valid shortcut name and `subscribe = true` whose channel is accepted
  with the read permission: the filter is added (an extendable key creates the link but no
  subscription — the C11 repair).
* presence request accepted with the presence permission: `changes = true` adds, and
  `changes = false` removes, the presence-change subscription: the filter
  `system :: presence :: contract :: levels` (C18: a watcher is an ordinary subscriber of that
  filter; C08: it goes away with the connection like every other pair).
* DISCONNECT / end of the connection: every pair of the connection is removed.
* CONNECT, PUBLISH, refused requests: nothing.

REPEATED SUBSCRIBES. A connection holds a filter or it does not: subscribing to a filter that
is already held adds no second entry, and ONE accepted unsubscribe removes the subscription no
matter how many times it was subscribed. This is what the code does: `Conn.CanSubscribe` calls
`Counters.IncrementOnce`, which only ever raises a counter from 0 to 1, so `Counters.Decrement`
in `Conn.CanUnsubscribe` always reaches 0 and removes the counter and the trie entry
(/repo/internal/broker/conn.go, /repo/internal/message/sub.go). The reference-counting
`Counters.Increment` is used for the cluster-level counters of remote peers only, not for
the requests of client connections (`Peer.onSubscribe`; the exported `Conn.Increment` has no caller among the
request handlers). -/
def effect (auth : Auth) (banned : List Bytes) : Req → Effect
  | .connect .. => .none
  | .publish .. => .none
  | .subscribe _ topic _ =>
      match granted auth banned (parseChannel (fixTopic topic)) permRead with
      | some σ => .add σ
      | none => .none
  | .unsubscribe _ topic =>
      match granted auth banned (parseChannel topic) permRead with
      | some σ => .remove σ
      | none => .none
  | .link _ nm key channel sub =>
      if isShortcut nm && sub then
        match granted auth banned (parseChannel (key ++ [sep] ++ channel)) permRead with
        | some σ => .add σ
        | none => .none
      else .none
  | .presence _ key channel _ changes =>
      let channel := if channel.getLast? == some sep then channel else channel ++ [sep]
      match granted auth banned (parseChannel (key ++ [sep] ++ channel)) permPresence with
      | none => .none
      | some σ =>
          match changes with
          | some true => .add (presenceSsid σ)
          | some false => .remove (presenceSsid σ)
          | none => .none
  | .close => .closeAll

/-- a held filter is not entered a second time -/
def insertPair (A : List (String × Path)) (n : String) (σ : Path) : List (String × Path) :=
  if A.contains (n, σ) then A else A ++ [(n, σ)]

def removePair (A : List (String × Path)) (n : String) (σ : Path) : List (String × Path) :=
  A.filter (· != (n, σ))

/-- requests of a connection that is not open (never accepted, or ended) are not served -/
def step (auth : Auth) (s : SpecState) (name : String) (r : Req) : SpecState :=
  if !s.alive.contains name then s else
  match effect auth s.banned r with
  | .none => s
  | .add σ => { s with A := insertPair s.A name σ }
  | .remove σ => { s with A := removePair s.A name σ }
  | .closeAll => { s with alive := s.alive.filter (· != name), A := s.A.filter (·.1 != name) }

def apply (auth : Auth) (s : SpecState) : Ev → SpecState
  | .accept name _ => { s with alive := s.alive ++ [name] }
  | .req name r => step auth s name r
  | .ban keys => { s with banned := keys }

def run (auth : Auth) (s : SpecState) (evs : List Ev) : SpecState := evs.foldl (apply auth) s

/-- the connection holds in `A` a filter that matches the channel -/
def holdsMatching (m : Mode) (s : SpecState) (n : String) (ssid : Path) : Bool :=
  s.A.any (fun e => e.1 == n && matchesMode m e.2 ssid)

/-- Who receives a message published on the channel `ssid`: every open connection holding a
matching filter, except the publisher when it excluded itself (`me=0`). -/
def receivers (m : Mode) (s : SpecState) (ssid : Path) (excluded : Option String) : List String :=
  s.alive.filter (fun n => holdsMatching m s n ssid && excluded != some n)

/-- the pair an event adds to `A`, if it adds one -/
def adds (auth : Auth) (s : SpecState) : Ev → Option (String × Path)
  | .req name r =>
      if s.alive.contains name then
        match effect auth s.banned r with
        | .add σ => some (name, σ)
        | _ => none
      else none
  | _ => none

/-- some event of `evs`, run from `s`, adds the pair `p` -/
def everAdds (auth : Auth) (s : SpecState) : List Ev → String × Path → Bool
  | [], _ => false
  | e :: es, p => adds auth s e == some p || everAdds auth (apply auth s e) es p

/-- the event removes the pair `p` from `A`: an accepted unsubscribe (or presence request with
`changes = false`) for that filter by that open connection, or the end of that connection -/
def removes (auth : Auth) (s : SpecState) : Ev → String × Path → Bool
  | .req name r, p =>
      s.alive.contains name && p.1 == name &&
        (match effect auth s.banned r with
         | .remove σ => p.2 == σ
         | .closeAll => true
         | _ => false)
  | _, _ => false

/-- the names and the subscriber keys (hashes of the connection ids) of the accepted connections -/
def acceptNames : List Ev → List String
  | [] => []
  | .accept n _ :: es => n :: acceptNames es
  | _ :: es => acceptNames es

def acceptKeys : List Ev → List Sub
  | [] => []
  | .accept _ g :: es => Hash.hashOf g :: acceptKeys es
  | _ :: es => acceptKeys es

/-- Well-formed histories (those the harness produces): every connection is accepted under a
new name and a connection id whose hash is new (the broker draws connection ids from a
counter; two ids with the same 32-bit hash are the C01 finding `subid-hash-collision`). -/
def wellFormed (evs : List Ev) : Bool :=
  decide (acceptNames evs).Nodup && decide (acceptKeys evs).Nodup

end Emitter.Broker.Spec
