/-
  C13, second sentence, as a statement about any payload implementation `I` plugged into the transcribed
  gossipSender (Model/Gossip.lean): "when several payloads are queued for the same link and combined by the
  gossip transport, the payload finally sent carries every update that was in any of them".
-/
import Emitter.Model.Gossip
import Emitter.Lemmas.LwwDelta

namespace Emitter.Gossip
open Emitter Emitter.Lww

/-- join of a collection of states on set `i`, key `k`: largest add time, largest remove time -/
def sjoin (vs : List State) (i : SetId) (k : Bytes) : Int × Int := joinT (vs.map (·.sel i)) k

/-- the value an object holds now (`{}` for a dangling reference) -/
def curValue (h : Heap) (r : Ref) : State := (h[r]?.map (·.st)).getD {}

/-- One emission is good: something is sent, and on every set and key its times are
 * at least the join of the values the queued objects had WHEN THEY WERE QUEUED (no update lost), and
 * at most the join of the values those objects hold at the moment of the pick (nothing invented).
For objects that did not change while queued the two bounds coincide and the emission is exactly the join. -/
def GoodEmission (sent : Option State) (queued : List (Ref × State)) (h : Heap) : Prop :=
  ∃ x, sent = some x ∧ ∀ i k,
    tle (sjoin (queued.map (·.2)) i k) (tget (x.sel i) k) ∧
    tle (tget (x.sel i) k) (sjoin (queued.map fun e => curValue h e.1) i k)

/-- a panic or a deadlock inside `Send` / `Broadcast` is never good -/
def GoodEvent : Event → Prop
  | .emitted _ _ sent q h => GoodEmission sent q h
  | .panicked _ _ => False
  | .hung _ _ => False

variable {D : Type}

/-- nothing queued is ever dropped: whenever something was queued on a bucket since its last pick, a payload
is pending there, and sending it now would be a good emission -/
def GoodPending (I : Impl D) (w : World D) : Prop :=
  ∀ l b, (w.links l).ghost b ≠ [] →
    ∃ d, (w.links l).bk b = some (some d) ∧ GoodEmission (I.read w.heap d) ((w.links l).ghost b) w.heap

def HeapOk (h : Heap) : Prop := ∀ o ∈ h, StateOk o.st

/-- what may be assumed of a call: the swarm only ever replaces an object's value by a larger one (the live
state: local add / remove / merge, see `add_grows`, `del_grows`, `merge_grows`) that keeps the invariants -/
def CallOk (h : Heap) : Call → Prop
  | .grow r v => StateOk v ∧ ∀ i k, tle (tget ((curValue h r).sel i) k) (tget (v.sel i) k)
  | _ => True

def CallsOk (I : Impl D) (w : World D) : List Call → Prop
  | [] => True
  | c :: cs => CallOk w.heap c ∧ CallsOk I (step I w c).1 cs

/-- no object handed to the library is modified by it ("no object another link still holds loses an update") -/
def Intact (I : Impl D) : Prop :=
  ∀ (w : World D) (l : Nat) (b : Bucket) (r : Ref), (put I w l b r).1.heap = w.heap ∧ (pick I w l b).1.heap = w.heap

/-- The full statement: for every heap of payload objects (shared between links or not, the live state among them),
every sequence of `Send` / `Broadcast` / `pick` calls on any links, interleaved with changes of the live state:
every emission is good, no call panics or hangs, nothing queued is dropped, and no object is modified. -/
def SenderUnion (I : Impl D) : Prop :=
  (∀ (h : Heap) (cs : List Call), HeapOk h → CallsOk I { heap := h } cs →
      (∀ e ∈ (run I { heap := h } cs).2, GoodEvent e) ∧ GoodPending I (run I { heap := h } cs).1) ∧
  Intact I

end Emitter.Gossip
