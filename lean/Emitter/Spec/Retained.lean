/-
  Specification side of C07: the log of stored messages and what a new subscriber is replayed,
  read from the property.

  "A message published with the retain flag or a positive ttl option, by a key that has the
  store permission, is stored under the publisher's contract and channel with the requested ttl
  (retain = configured default retention), and the same for a last-will message; nothing else
  is stored. A client whose subscription is accepted with a key that has the load permission is
  sent the last N stored matching messages (N from the `last` option, 1 by default, 0 meaning
  none; optionally restricted by from/until) before its SUBACK, and none without load
  permission."

  The state is the LOG — a list of records (contract, channel ssid, channel bytes, payload,
  ttl, order of arrival), oldest first — plus what is needed to say which publishes happen at
  all: the banned keys (handed to the authorizer), the configured retention, and per client
  whether it is open, the last will it announced at CONNECT and its link shortcuts (a PUBLISH
  on a one- or two-character topic is a publish on the linked channel).

  There is no storage key layout, no `RetainedTTL` marker value inside stored messages, no
  query by key prefix here. From the broker model only the vocabulary is used: `Req`, `Auth` /
  `Grant`, the transcribed channel parser and its option accessors, `fixTopic`, `isShortcut`,
  and the history events `Ev` of `Spec/Subscriptions.lean`.

  TIME. The broker model has no clock (`queryStore`: "restricted to what a single-second
  session can observe"): a whole history takes place within one second `now`. Nothing expires
  within it (a stored message has a ttl of at least one second), and a from/until restriction
  either contains that second — then it restricts nothing — or it does not — then nothing is
  replayed. `now` is therefore a parameter of `replay`, not a field of the records; the records
  carry their order of arrival.
-/
import Emitter.Model.Broker
import Emitter.Spec.Subscriptions

namespace Emitter.Broker.Spec
open Emitter Emitter.Trie Emitter.Security Emitter.Broker

/-- one stored message -/
structure Rec where
  /-- the publisher's contract (from its key) -/
  contract : UInt32
  /-- the channel: hashed levels -/
  ssid : Path
  /-- the channel as text (key and options stripped) -/
  channel : Bytes
  payload : Bytes
  /-- seconds the message is kept -/
  ttl : Nat
  /-- order of arrival: 0 for the first message ever stored, 1 for the next, … -/
  seq : Nat
deriving Repr, DecidableEq

/-- the last will a client announced at CONNECT -/
structure Will where
  retain : Bool
  topic : Bytes
  message : Bytes
deriving Repr, DecidableEq

structure Client where
  open_ : Bool := true
  /-- `none`: no CONNECT yet, or the CONNECT had no will flag -/
  will : Option Will := none
  /-- link shortcuts: (name, channel with key) -/
  links : List (Bytes × Bytes) := []
deriving Repr, DecidableEq

structure StoreState where
  banned : List Bytes := []
  /-- the configured default retention, in seconds -/
  retention : Nat := 2592000
  /-- the clients in the order they were accepted -/
  clients : List (String × Client) := []
  /-- the stored messages, oldest first -/
  log : List Rec := []
deriving Repr, DecidableEq

/-! ### what is stored -/

/-- The ttl a message is to be stored with, `none` if it is not to be stored at all: a positive
`ttl` option is the requested ttl; the retain flag (without a positive ttl option) asks for the
configured default retention; neither: not stored. The message format carries the ttl in 32
bits and its largest value stands for "default retention", so a ttl option of 2³²−1 or more is
the default retention too (the C07 repair D15: clamped, no wrap-around). -/
def requestedTtl (retention : Nat) (retain : Bool) (ch : Channel) : Option Nat :=
  match ch.ttl with
  | some t =>
      if t > 0 then some (if t ≥ 4294967295 then retention else t.toNat)
      else if retain then some retention else none
  | none => if retain then some retention else none

/-- The record a message leaves in the log when it is published on `topic` (key/channel/options),
`none` if it leaves none. The publish has to be ACCEPTED — the topic is a static channel (no
wildcards), the authorizer grants the write permission, the key is not an extendable one — the
key has to have the STORE permission, and the message has to ask for storage (`requestedTtl`).
The record is filed under the key's contract and the channel of the topic. -/
def stored (auth : Auth) (banned : List Bytes) (retention : Nat) (seq : Nat) (retain : Bool)
    (topic payload : Bytes) : Option Rec :=
  let ch := parseChannel topic
  if ch.ctype != chStatic then none else
  match auth banned ch permWrite with
  | none => none
  | some g =>
      if g.has permExtend then none else
      if !g.has permStore then none else
      match requestedTtl retention retain ch with
      | none => none
      | some ttl => some ⟨g.contract, ch.query, ch.channel, payload, ttl, seq⟩

/-- the topic a PUBLISH is about: a topic of at most two bytes is a link shortcut -/
def Client.resolve (i : Client) (topic : Bytes) : Bytes :=
  if topic.length ≤ 2 then ((i.links.find? (·.1 == topic)).map (·.2)).getD [] else topic

def StoreState.client? (s : StoreState) (name : String) : Option Client :=
  (s.clients.find? (·.1 == name)).map (·.2)

def StoreState.setClient (s : StoreState) (name : String) (i : Client) : StoreState :=
  { s with clients := s.clients.map (fun e => if e.1 == name then (name, i) else e) }

/-- The record a request of the open client `i` appends to the log: a PUBLISH its message, the
end of the connection the announced last will (published as the connection ends, under the same
rule: will topic, will message, will-retain flag), any other request nothing. -/
def appended (auth : Auth) (s : StoreState) (i : Client) : Req → Option Rec
  | .publish _ retain _ topic payload =>
      stored auth s.banned s.retention s.log.length retain (i.resolve topic) payload
  | .close =>
      match i.will with
      | some w => stored auth s.banned s.retention s.log.length w.retain w.topic w.message
      | none => none
  | _ => none

/-- One request. Requests of a client that is not open (never accepted, or ended) are not
served. The log grows by `appended`; besides, CONNECT records the will, a link request with a
valid shortcut name and channel records the shortcut, the end of the connection closes the
client. -/
def stepStore (auth : Auth) (s : StoreState) (name : String) (r : Req) : StoreState :=
  match s.client? name with
  | none => s
  | some i =>
      if !i.open_ then s else
      let s := { s with log := s.log ++ (appended auth s i r).toList }
      match r with
      | .connect _ wf wr wt wm => s.setClient name { i with will := if wf then some ⟨wr, wt, wm⟩ else none }
      | .link _ nm key channel _ =>
          let ch := parseChannel (key ++ [sep] ++ channel)
          if isShortcut nm && ch.ctype != chInvalid then
            s.setClient name { i with links := (nm, ch.toBytes) :: i.links.filter (·.1 != nm) }
          else s
      | .close => s.setClient name { i with open_ := false }
      | _ => s

def applyStore (auth : Auth) (s : StoreState) : Ev → StoreState
  | .accept name _ => { s with clients := s.clients ++ [(name, {})] }
  | .req name r => stepStore auth s name r
  | .ban keys => { s with banned := keys }

def runStore (auth : Auth) (s : StoreState) (evs : List Ev) : StoreState := evs.foldl (applyStore auth) s

/-- the record an event appends to the log, if it appends one -/
def stores (auth : Auth) (s : StoreState) : Ev → Option Rec
  | .req name r =>
      match s.client? name with
      | some i => if i.open_ then appended auth s i r else none
      | none => none
  | _ => none

/-! ### what is replayed -/

/-- the filter is a level-wise prefix of the channel; a wildcard level matches any level -/
def levelPrefix : Path → Path → Bool
  | [], _ => true
  | _ :: _, [] => false
  | a :: q, x :: s => (a == x || a == wildcard || a == multiWildcard) && levelPrefix q s

/-- The record MATCHES a subscription under `contract` with the filter `filter`: same contract,
the same first channel level (literally — the store files messages under contract and first
level), and the filter is a level-wise prefix of the record's channel, deeper levels possibly
being wildcards. -/
def Rec.matches (contract : UInt32) (filter : Path) (r : Rec) : Bool :=
  r.contract == contract && filter.take 1 == r.ssid.take 1 && levelPrefix filter r.ssid

/-- N: the `last` option; 1 when there is none; 0 means none -/
def limitOf : Option Int → Nat
  | none => 1
  | some v => v.toNat

/-- the last `n` of a list, in the order of the list (all of it when `n` is larger) -/
def lastN {α : Type} (n : Nat) (l : List α) : List α := l.drop (l.length - n)

/-- the second `now` lies inside the from/until window as `Channel.window` returns it
(0 = no bound; an `until` of 0 is open-ended) -/
def inWindow (now : Int) (w : Int × Int) : Bool :=
  decide (w.1 ≤ now) && (w.2 == 0 || decide (now ≤ w.2))

/-- What a subscriber whose subscription is accepted with the grant `g` for the filter
`filter` is sent before its SUBACK: nothing without the load permission; otherwise the last N
matching records in the order they arrived (nothing if the window excludes the present). -/
def replay (now : Int) (L : List Rec) (g : Grant) (filter : Path) (last : Option Int) (window : Int × Int) :
    List Rec :=
  if !g.has permLoad then [] else
  if !inWindow now window then [] else
  lastN (limitOf last) (L.filter (Rec.matches g.contract filter))

/-- A SUBSCRIBE is ACCEPTED iff the topic (normalised as `OnSubscribe` does) parses, the
authorizer grants the read permission and the key is not an extendable one. -/
def acceptedSub (auth : Auth) (banned : List Bytes) (topic : Bytes) : Option Grant :=
  let ch := parseChannel (fixTopic topic)
  if ch.ctype == chInvalid then none else
  match auth banned ch permRead with
  | none => none
  | some g => if g.has permExtend then none else some g

/-- the records replayed to a SUBSCRIBE on `topic` in the state `s` (none if it is refused) -/
def replayFor (auth : Auth) (now : Int) (s : StoreState) (topic : Bytes) : List Rec :=
  let ch := parseChannel (fixTopic topic)
  match acceptedSub auth s.banned topic with
  | none => []
  | some g => replay now s.log g ch.query ch.last ch.window

end Emitter.Broker.Spec
