/-
  MQTT Version 3.1.1 wire format — the specification side of C16.

  Written from the OASIS Standard "MQTT Version 3.1.1" (mqtt-v3.1.1-os, 29 October 2014), section by
  section; every rule cites the section and, where there is one, the normative statement [MQTT-x.y.z-n].
  Nothing here is taken from the Go code or from `Emitter/Model/Mqtt.lean`:

  * Part 1 (types, `body`, `encodePacket`, `decodePacket`, `valid`) uses only `Bytes` and arithmetic on
    `Nat` (`16 * type + flags`, `128 * u + 64 * p + …`, a table for the Remaining Length) where the Go code
    and its model use shifts, ors and a digit loop; the parser consumes a byte list field by field where the
    Go code indexes a buffer with a bookmark. It has its own packet type, `ControlPacket`, with the field
    names of the standard: optional fields are `Option`s (a Packet Identifier in PUBLISH exists exactly when
    QoS > 0, a Will exists exactly when the Will Flag is set, …), flag bits whose value the standard fixes
    are not fields at all.
  * Part 2 says which standard packet a Go packet value denotes (`ofModel`), which Go value a decoder must
    return for a standard packet (`toModel`), and from these `Spec.Mqtt.encode` / `Spec.Mqtt.decode` on the
    model's packet type — the `S` column of the correspondence check (`Driver/C16.lean`).

  The parser is strict: it returns a packet only if the bytes are exactly one well-formed MQTT 3.1.1 Control
  Packet (every "MUST" on the packet's content that is modelled below holds). Character-level rules on
  strings (well-formed UTF-8, no U+0000, topic syntax) are stated separately (`utf8Ok`, `textOk`) and are
  not part of `valid`, because the property is about byte-exact strings.
-/
import Emitter.Model.Mqtt

namespace Emitter.Spec.Mqtt
open Emitter

/-! # Part 1 — the standard -/

/-! ## 1.5 Data representations -/

/-- a parser consumes a prefix of the input and returns the unread rest -/
abbrev Parser (α : Type) := Bytes → Option (α × Bytes)

/-- 1.5.1 Bits: one byte -/
def u8 : Parser UInt8
  | b :: r => some (b, r)
  | [] => none

/-- 1.5.2 Integer data values: 16 bits in big-endian order, most significant byte first -/
def encU16 (x : UInt16) : Bytes := [UInt8.ofNat (x.toNat / 256), UInt8.ofNat (x.toNat % 256)]

def u16 : Parser UInt16
  | msb :: lsb :: r => some (UInt16.ofNat (256 * msb.toNat + lsb.toNat), r)
  | _ => none

/-- 1.5.3 UTF-8 encoded strings: "prefixed with a two byte length field that gives the number of bytes";
consequently at most 65535 bytes (`strOk`). The same layout is used for the binary fields Will Message
(3.1.3.3) and Password (3.1.3.5). -/
def encStr (s : Bytes) : Bytes := encU16 (UInt16.ofNat s.length) ++ s

def strOk (s : Bytes) : Bool := s.length ≤ 65535

def str : Parser Bytes := fun bs =>
  match u16 bs with
  | some (n, r) => if r.length < n.toNat then none else some (r.take n.toNat, r.drop n.toNat)
  | none => none

/-! ## 2.2.3 Remaining Length -/

/-- 2.2.3, Table 2.4 "Size of Remaining Length field": one byte up to 127, two up to 16 383, three up to
2 097 151, four up to 268 435 455; seven value bits per byte, least significant group first, bit 7 is the
continuation bit. Larger values cannot be represented. -/
def encRemainingLength (x : Nat) : Option Bytes :=
  if x ≤ 127 then some [UInt8.ofNat x]
  else if x ≤ 16383 then some [UInt8.ofNat (128 + x % 128), UInt8.ofNat (x / 128)]
  else if x ≤ 2097151 then
    some [UInt8.ofNat (128 + x % 128), UInt8.ofNat (128 + x / 128 % 128), UInt8.ofNat (x / 16384)]
  else if x ≤ 268435455 then
    some [UInt8.ofNat (128 + x % 128), UInt8.ofNat (128 + x / 128 % 128), UInt8.ofNat (128 + x / 16384 % 128),
          UInt8.ofNat (x / 2097152)]
  else none

/-- 2.2.3: "The maximum number of bytes in the Remaining Length field is four": `remainingLength 4`.
value = (low seven bits) + 128 · (value of the following bytes). -/
def remainingLength : Nat → Parser Nat
  | 0, _ => none
  | _ + 1, [] => none
  | k + 1, b :: r =>
      if b.toNat < 128 then some (b.toNat, r)
      else match remainingLength k r with
        | some (v, r') => some (b.toNat - 128 + 128 * v, r')
        | none => none

/-! ## Control packets (chapter 3), fields named as in the standard -/

/-- 3.1.2.5–3.1.2.7, 3.1.3.2, 3.1.3.3 -/
structure Will where
  topic : Bytes
  message : Bytes
  qos : UInt8
  retain : Bool
deriving Repr, DecidableEq

/-- 3.1 CONNECT. The User Name Flag, Password Flag and Will Flag of 3.1.2.3 are the presence of the
corresponding payload fields (3.1.3: "determined by the flags in the variable header"). -/
structure Connect where
  protocolName : Bytes        -- 3.1.2.1
  protocolLevel : UInt8       -- 3.1.2.2
  cleanSession : Bool         -- 3.1.2.4
  will : Option Will          -- 3.1.2.5
  userName : Option Bytes     -- 3.1.2.8, 3.1.3.4
  password : Option Bytes     -- 3.1.2.9, 3.1.3.5
  keepAlive : UInt16          -- 3.1.2.10
  clientId : Bytes            -- 3.1.3.1
deriving Repr, DecidableEq

inductive ControlPacket where
  | connect (c : Connect)                                                      -- 3.1
  | connack (sessionPresent : Bool) (returnCode : UInt8)                       -- 3.2
  | publish (dup : Bool) (qos : UInt8) (retain : Bool) (topicName : Bytes)
      (packetId : Option UInt16) (payload : Bytes)                             -- 3.3
  | puback (packetId : UInt16)                                                 -- 3.4
  | pubrec (packetId : UInt16)                                                 -- 3.5
  | pubrel (packetId : UInt16)                                                 -- 3.6
  | pubcomp (packetId : UInt16)                                                -- 3.7
  | subscribe (packetId : UInt16) (filters : List (Bytes × UInt8))             -- 3.8
  | suback (packetId : UInt16) (returnCodes : List UInt8)                      -- 3.9
  | unsubscribe (packetId : UInt16) (filters : List Bytes)                     -- 3.10
  | unsuback (packetId : UInt16)                                               -- 3.11
  | pingreq                                                                    -- 3.12
  | pingresp                                                                   -- 3.13
  | disconnect                                                                 -- 3.14
deriving Repr, DecidableEq

def bit (b : Bool) : Nat := if b then 1 else 0

/-- 2.2.1 Table 2.1 "Control packet types" (0 and 15 are reserved / forbidden) -/
def typeOf : ControlPacket → Nat
  | .connect _ => 1 | .connack .. => 2 | .publish .. => 3 | .puback _ => 4 | .pubrec _ => 5
  | .pubrel _ => 6 | .pubcomp _ => 7 | .subscribe .. => 8 | .suback .. => 9 | .unsubscribe .. => 10
  | .unsuback _ => 11 | .pingreq => 12 | .pingresp => 13 | .disconnect => 14

/-- 2.2.2 Table 2.2 "Flag Bits": PUBLISH carries DUP (bit 3), QoS (bits 2–1), RETAIN (bit 0);
PUBREL, SUBSCRIBE and UNSUBSCRIBE carry the reserved value 0,0,1,0; every other type 0,0,0,0
[MQTT-2.2.2-1]. -/
def flagBits : ControlPacket → Nat
  | .publish dup qos retain _ _ _ => 8 * bit dup + 2 * qos.toNat + bit retain
  | .pubrel _ | .subscribe .. | .unsubscribe .. => 2
  | _ => 0

/-- 3.1.2.3 Connect Flags: User Name Flag bit 7, Password Flag bit 6, Will Retain bit 5, Will QoS bits 4–3,
Will Flag bit 2, Clean Session bit 1, bit 0 reserved (zero). Without a Will the Will QoS and Will Retain
bits are zero [MQTT-3.1.2-11, -13, -15]. -/
def connectFlags (c : Connect) : UInt8 :=
  UInt8.ofNat (128 * bit c.userName.isSome + 64 * bit c.password.isSome +
    (match c.will with
     | some w => 32 * bit w.retain + 8 * w.qos.toNat + 4
     | none => 0) +
    2 * bit c.cleanSession)

def encOptStr : Option Bytes → Bytes
  | some s => encStr s
  | none => []

/-- 3.1.2 variable header: Protocol Name, Protocol Level, Connect Flags, Keep Alive; 3.1.3 payload: "these
fields, if present, MUST appear in the order Client Identifier, Will Topic, Will Message, User Name,
Password" [MQTT-3.1.3-1] -/
def connectBody (c : Connect) : Bytes :=
  encStr c.protocolName ++ [c.protocolLevel] ++ [connectFlags c] ++ encU16 c.keepAlive ++
  encStr c.clientId ++
  (match c.will with
   | some w => encStr w.topic ++ encStr w.message
   | none => []) ++
  encOptStr c.userName ++ encOptStr c.password

/-- 3.8.3: list of (Topic Filter, Requested QoS byte) pairs, "packed contiguously" -/
def subscribePayload : List (Bytes × UInt8) → Bytes
  | [] => []
  | (f, q) :: l => encStr f ++ [q] ++ subscribePayload l

/-- 3.10.3: list of Topic Filters, packed contiguously -/
def unsubscribePayload : List Bytes → Bytes
  | [] => []
  | f :: l => encStr f ++ unsubscribePayload l

/-- variable header followed by payload; its length is the Remaining Length (2.2.3: "the number of bytes
remaining within the current packet, including data in the variable header and the payload") -/
def body : ControlPacket → Bytes
  | .connect c => connectBody c
  -- 3.2.2: Connect Acknowledge Flags (bit 0 = Session Present, bits 7–1 reserved 0), Connect Return code
  | .connack sp rc => [UInt8.ofNat (bit sp), rc]
  -- 3.3.2: Topic Name, Packet Identifier ("only present in PUBLISH Packets where the QoS level is 1 or 2"),
  -- 3.3.3: Application Message
  | .publish _ _ _ topic id payload =>
      encStr topic ++ (match id with | some i => encU16 i | none => []) ++ payload
  -- 3.4.2, 3.5.2, 3.6.2, 3.7.2, 3.11.2: Packet Identifier; no payload
  | .puback id | .pubrec id | .pubrel id | .pubcomp id | .unsuback id => encU16 id
  | .subscribe id fs => encU16 id ++ subscribePayload fs          -- 3.8.2, 3.8.3
  | .suback id rcs => encU16 id ++ rcs                            -- 3.9.2, 3.9.3 (one byte per return code)
  | .unsubscribe id fs => encU16 id ++ unsubscribePayload fs      -- 3.10.2, 3.10.3
  | .pingreq | .pingresp | .disconnect => []                      -- 3.12–3.14: no variable header, no payload

/-- 2.2 Fixed header: byte 1 = packet type in bits 7–4, flags in bits 3–0; then the Remaining Length;
then variable header and payload (2.1 Figure 2.1). `none` when the Remaining Length cannot be represented. -/
def encodePacket (p : ControlPacket) : Option Bytes :=
  match encRemainingLength (body p).length with
  | some l => some (UInt8.ofNat (16 * typeOf p + flagBits p) :: l ++ body p)
  | none => none

/-! ## what makes a packet value a valid MQTT 3.1.1 packet (beyond having the right shape) -/

/-- 4.3: QoS is 0, 1 or 2; "3 – Reserved – must not be used" (Table 3.2) -/
def qosOk (q : UInt8) : Bool := q.toNat ≤ 2

def optStrOk : Option Bytes → Bool
  | some s => strOk s
  | none => true

def Connect.valid (c : Connect) : Bool :=
  strOk c.protocolName && strOk c.clientId &&
  (match c.will with
   | some w => strOk w.topic && strOk w.message && qosOk w.qos      -- [MQTT-3.1.2-14] Will QoS 3 is malformed
   | none => true) &&
  optStrOk c.userName && optStrOk c.password &&
  (!c.password.isSome || c.userName.isSome)                        -- [MQTT-3.1.2-22]

def valid : ControlPacket → Bool
  | .connect c => c.valid
  -- Table 3.1: return codes 6–255 are reserved; [MQTT-3.2.2-4]: a non-zero return code goes with Session Present 0
  | .connack sp rc => rc.toNat ≤ 5 && (!sp || rc.toNat = 0)
  | .publish dup qos _ topic id _ =>
      qosOk qos &&                                                  -- [MQTT-3.3.1-4] both QoS bits set is malformed
      strOk topic &&
      (qos.toNat ≠ 0 || !dup) &&                                    -- [MQTT-3.3.1-2]
      (match id with
       | some i => qos.toNat ≠ 0 && i.toNat ≠ 0                     -- 2.3.1, [MQTT-2.3.1-1] non-zero identifier
       | none => qos.toNat = 0)                                     -- [MQTT-2.3.1-5] none when QoS is 0
  | .subscribe id fs =>
      id.toNat ≠ 0 &&                                               -- [MQTT-2.3.1-1]
      !fs.isEmpty &&                                                -- [MQTT-3.8.3-3] at least one pair
      fs.all (fun f => strOk f.1 && qosOk f.2)                      -- [MQTT-3-8.3-4] reserved bits 0, QoS ≠ 3
  | .suback _ rcs => rcs.all (fun c => c.toNat ≤ 2 || c.toNat = 128)  -- [MQTT-3.9.3-2]
  | .unsubscribe id fs =>
      id.toNat ≠ 0 &&                                               -- [MQTT-2.3.1-1]
      !fs.isEmpty &&                                                -- [MQTT-3.10.3-2]
      fs.all strOk
  | _ => true

/-! ## parsing one packet -/

def optStr (present : Bool) : Parser (Option Bytes) := fun bs =>
  if present then
    match str bs with
    | some (s, r) => some (some s, r)
    | none => none
  else some (none, bs)

/-- 3.1.2, 3.1.3. The whole body must be used up. -/
def parseConnect (bs : Bytes) : Option Connect :=
  match str bs with
  | none => none
  | some (name, r) =>
  match u8 r with
  | none => none
  | some (level, r) =>
  match u8 r with
  | none => none
  | some (fl, r) =>
  let f := fl.toNat
  if f % 2 ≠ 0 then none else                                       -- [MQTT-3.1.2-3] reserved flag must be 0
  match u16 r with
  | none => none
  | some (ka, r) =>
  match str r with
  | none => none
  | some (cid, r) =>
  let willQos := UInt8.ofNat (f / 8 % 4)
  let willRetain := f / 32 % 2 = 1
  match (if f / 4 % 2 = 1 then
           match str r with
           | none => none
           | some (t, r) =>
             match str r with
             | none => none
             | some (m, r) => some (some (⟨t, m, willQos, willRetain⟩ : Will), r)
         else if f / 8 % 4 ≠ 0 ∨ willRetain then none              -- [MQTT-3.1.2-11], [-13], [-15]
         else some (none, r) : Option (Option Will × Bytes)) with
  | none => none
  | some (will, r) =>
  match optStr (f / 128 % 2 = 1) r with
  | none => none
  | some (user, r) =>
  match optStr (f / 64 % 2 = 1) r with
  | none => none
  | some (pass, r) =>
  if r.isEmpty then
    some { protocolName := name, protocolLevel := level, cleanSession := f / 2 % 2 = 1, will := will,
           userName := user, password := pass, keepAlive := ka, clientId := cid }
  else none

/-- 3.8.3 payload. `fuel` bounds the number of pairs (each takes at least three bytes). -/
def parseSubscribePayload : Nat → Bytes → Option (List (Bytes × UInt8))
  | 0, bs => if bs.isEmpty then some [] else none
  | k + 1, bs =>
      if bs.isEmpty then some [] else
      match str bs with
      | some (f, q :: r) =>
          (match parseSubscribePayload k r with
           | some l => some ((f, q) :: l)
           | none => none)
      | _ => none

/-- 3.10.3 payload -/
def parseUnsubscribePayload : Nat → Bytes → Option (List Bytes)
  | 0, bs => if bs.isEmpty then some [] else none
  | k + 1, bs =>
      if bs.isEmpty then some [] else
      match str bs with
      | some (f, r) =>
          (match parseUnsubscribePayload k r with
           | some l => some (f :: l)
           | none => none)
      | none => none

/-- packets whose variable header is a Packet Identifier and nothing else: Remaining Length is 2 (3.4.1 …) -/
def parseIdOnly (b : Bytes) (k : UInt16 → ControlPacket) : Option ControlPacket :=
  match u16 b with
  | some (id, []) => some (k id)
  | _ => none

/-- variable header and payload of a packet of the given type, from exactly the bytes the Remaining
Length announced. Flag bits: 2.2.2, "If invalid flags are received, the receiver MUST close the Network
Connection" [MQTT-2.2.2-2]. -/
def parseBody (type flags : Nat) (b : Bytes) : Option ControlPacket :=
  match type with
  | 1 => if flags ≠ 0 then none else
         match parseConnect b with
         | some c => some (.connect c)
         | none => none
  | 2 => if flags ≠ 0 then none else
         match b with
         | [ack, rc] => if ack.toNat ≤ 1 then some (.connack (ack.toNat = 1) rc) else none   -- 3.2.2.1: bits 7–1 are 0
         | _ => none
  | 3 => match str b with
         | none => none
         | some (topic, r) =>
           let dup := flags / 8 % 2 = 1
           let qos := flags / 2 % 4
           let retain := flags % 2 = 1
           if qos = 0 then some (.publish dup 0 retain topic none r)
           else match u16 r with
             | some (id, r) => some (.publish dup (UInt8.ofNat qos) retain topic (some id) r)
             | none => none
  | 4 => if flags ≠ 0 then none else parseIdOnly b .puback
  | 5 => if flags ≠ 0 then none else parseIdOnly b .pubrec
  | 6 => if flags ≠ 2 then none else parseIdOnly b .pubrel                   -- [MQTT-3.6.1-1]
  | 7 => if flags ≠ 0 then none else parseIdOnly b .pubcomp
  | 8 => if flags ≠ 2 then none else                                          -- [MQTT-3.8.1-1]
         match u16 b with
         | some (id, r) =>
           (match parseSubscribePayload r.length r with
            | some fs => some (.subscribe id fs)
            | none => none)
         | none => none
  | 9 => if flags ≠ 0 then none else
         match u16 b with
         | some (id, r) => some (.suback id r)
         | none => none
  | 10 => if flags ≠ 2 then none else                                         -- [MQTT-3.10.1-1]
          match u16 b with
          | some (id, r) =>
            (match parseUnsubscribePayload r.length r with
             | some fs => some (.unsubscribe id fs)
             | none => none)
          | none => none
  | 11 => if flags ≠ 0 then none else parseIdOnly b .unsuback
  | 12 => if flags ≠ 0 ∨ !b.isEmpty then none else some .pingreq              -- 3.12: Remaining Length 0
  | 13 => if flags ≠ 0 ∨ !b.isEmpty then none else some .pingresp
  | 14 => if flags ≠ 0 ∨ !b.isEmpty then none else some .disconnect           -- [MQTT-3.14.1-1]
  | _ => none                                                                 -- 0 and 15: reserved (Table 2.1)

/-- one Control Packet from the front of a byte stream, and the unread rest. `none`: the stream does not
start with a complete, well-formed and valid MQTT 3.1.1 packet. -/
def decodePacket (bs : Bytes) : Option (ControlPacket × Bytes) :=
  match bs with
  | [] => none
  | b :: r =>
    match remainingLength 4 r with
    | none => none
    | some (len, r) =>
      if r.length < len then none else
      match parseBody (b.toNat / 16) (b.toNat % 16) (r.take len) with
      | some p => if valid p then some (p, r.drop len) else none
      | none => none

/-! ## character-level rules (not part of `valid`; the property is about byte-exact strings) -/

/-- one step of the UTF-8 automaton of the Unicode standard (Table 3-7 "Well-Formed UTF-8 Byte
Sequences"): state = (continuation bytes still expected, bounds for the next byte). Rejects overlong forms,
the surrogates U+D800…U+DFFF [MQTT-1.5.3-1] and U+0000 [MQTT-1.5.3-2]. -/
def utf8Step : Nat × UInt8 × UInt8 → UInt8 → Option (Nat × UInt8 × UInt8)
  | (0, _, _), b =>
      if b == 0 then none
      else if b ≤ 0x7f then some (0, 0x80, 0xbf)
      else if 0xc2 ≤ b && b ≤ 0xdf then some (1, 0x80, 0xbf)
      else if b == 0xe0 then some (2, 0xa0, 0xbf)
      else if b == 0xed then some (2, 0x80, 0x9f)
      else if 0xe1 ≤ b && b ≤ 0xef then some (2, 0x80, 0xbf)
      else if b == 0xf0 then some (3, 0x90, 0xbf)
      else if 0xf1 ≤ b && b ≤ 0xf3 then some (3, 0x80, 0xbf)
      else if b == 0xf4 then some (3, 0x80, 0x8f)
      else none
  | (n + 1, lo, hi), b => if lo ≤ b && b ≤ hi then some (n, 0x80, 0xbf) else none

def utf8Ok (s : Bytes) : Bool :=
  match s.foldlM utf8Step (0, 0x80, 0xbf) with
  | some (0, _, _) => true
  | _ => false

/-- 4.7.3: at least one character [MQTT-4.7.3-1]; a Topic Name in a PUBLISH has no wildcard characters
[MQTT-3.3.2-2] -/
def topicNameOk (s : Bytes) : Bool := utf8Ok s && !s.isEmpty && !s.contains 0x23 && !s.contains 0x2b

def topicFilterOk (s : Bytes) : Bool := utf8Ok s && !s.isEmpty

def textOk : ControlPacket → Bool
  | .connect c =>
      utf8Ok c.protocolName && utf8Ok c.clientId &&
      (match c.will with | some w => topicNameOk w.topic | none => true) &&
      (match c.userName with | some u => utf8Ok u | none => true)
  | .publish _ _ _ topic _ _ => topicNameOk topic
  | .subscribe _ fs => fs.all (fun f => topicFilterOk f.1)
  | .unsubscribe _ fs => fs.all topicFilterOk
  | _ => true

/-! # Part 2 — Go packet values as standard packets -/

open Emitter.Mqtt (Packet Header TopicQos)

/-- the flag bits the standard fixes for PUBREL, SUBSCRIBE, UNSUBSCRIBE, as a Go `Header` value:
0,0,1,0 = DUP 0, QoS 1, RETAIN 0 -/
def reservedHeader : Header := { dup := false, qos := 1, retain := false }

/-- The standard packet a Go packet value denotes. `none`: the value carries something the standard has no
place for — Will QoS / Will Retain without a Will, or header bits other than 0,0,1,0 on PUBREL / SUBSCRIBE /
UNSUBSCRIBE (`EncodeTo` writes both to the wire as they are). Payload fields whose flag is off are not
part of the denotation (they are not written either). CONNACK: the Go struct has no Session Present field
and `EncodeTo` writes 0. -/
def ofModel : Packet → Option ControlPacket
  | .connect c =>
      if !c.willFlag && (c.willQos != 0 || c.willRetain) then none else
      some (.connect {
        protocolName := c.protoName, protocolLevel := c.version, cleanSession := c.cleanSession,
        will := if c.willFlag then some ⟨c.willTopic, c.willMessage, c.willQos, c.willRetain⟩ else none,
        userName := if c.usernameFlag then some c.username else none,
        password := if c.passwordFlag then some c.password else none,
        keepAlive := c.keepAlive, clientId := c.clientId })
  | .connack rc => some (.connack false rc)
  | .publish h topic mid payload =>
      some (.publish h.dup h.qos h.retain topic (if h.qos.toNat = 0 then none else some mid) payload)
  | .puback mid => some (.puback mid)
  | .pubrec mid => some (.pubrec mid)
  | .pubrel h mid => if h = reservedHeader then some (.pubrel mid) else none
  | .pubcomp mid => some (.pubcomp mid)
  | .subscribe h mid subs =>
      if h = reservedHeader then some (.subscribe mid (subs.map (fun t => (t.topic, t.qos)))) else none
  | .suback mid qos => some (.suback mid qos)
  | .unsubscribe h mid ts =>
      if h = reservedHeader then some (.unsubscribe mid (ts.map (fun t => t.topic))) else none
  | .unsuback mid => some (.unsuback mid)
  | .pingreq => some .pingreq
  | .pingresp => some .pingresp
  | .disconnect => some .disconnect

/-- The Go value a decoder must produce for a standard packet: absent fields are the zero value.
The Session Present flag of a CONNACK has no counterpart (`connack_session_present_deviation`). -/
def toModel : ControlPacket → Packet
  | .connect c =>
      .connect {
        protoName := c.protocolName, version := c.protocolLevel,
        usernameFlag := c.userName.isSome, passwordFlag := c.password.isSome,
        willRetain := (match c.will with | some w => w.retain | none => false),
        willQos := (match c.will with | some w => w.qos | none => 0),
        willFlag := c.will.isSome, cleanSession := c.cleanSession, keepAlive := c.keepAlive,
        clientId := c.clientId,
        willTopic := (match c.will with | some w => w.topic | none => []),
        willMessage := (match c.will with | some w => w.message | none => []),
        username := c.userName.getD [], password := c.password.getD [] }
  | .connack _ rc => .connack rc
  | .publish dup qos retain topic id payload => .publish ⟨dup, qos, retain⟩ topic (id.getD 0) payload
  | .puback id => .puback id
  | .pubrec id => .pubrec id
  | .pubrel id => .pubrel reservedHeader id
  | .pubcomp id => .pubcomp id
  | .subscribe id fs => .subscribe reservedHeader id (fs.map (fun f => ⟨f.1, f.2⟩))
  | .suback id rcs => .suback id rcs
  | .unsubscribe id fs => .unsubscribe reservedHeader id (fs.map (fun f => ⟨f, 0⟩))
  | .unsuback id => .unsuback id
  | .pingreq => .pingreq
  | .pingresp => .pingresp
  | .disconnect => .disconnect

/-- the bytes the standard prescribes for a Go packet value; `none` when the value does not denote a
valid MQTT 3.1.1 packet (`ofModel`, `valid`) or is too long for the Remaining Length field -/
def encode (p : Packet) : Option Bytes :=
  match ofModel p with
  | some sp => if valid sp then encodePacket sp else none
  | none => none

/-- the exact condition under which `encode` is defined (`encode_defined_iff`): the Go value denotes a
standard packet, that packet is valid, and its Remaining Length fits the four-byte field -/
def conforming (p : Packet) : Bool :=
  match ofModel p with
  | some sp => valid sp && decide ((body sp).length ≤ 268435455)
  | none => false

/-- what a conforming decoder returns for a byte stream, as a Go packet value, and the unread rest -/
def decode (bs : Bytes) : Option (Packet × Bytes) :=
  match decodePacket bs with
  | some (sp, rest) => some (toModel sp, rest)
  | none => none

/-- Remaining Length of the packet a Go value denotes (for the broker's size limits) -/
def remainingLengthOf (p : Packet) : Option Nat := (ofModel p).map (fun sp => (body sp).length)

end Emitter.Spec.Mqtt
