/-
  Specification side of C03: what it means for a key target to cover a requested channel,
  on lists of level names (independent of hashes and bit paths).
-/
import Emitter.Model.Security
namespace Emitter.Spec
open Emitter Emitter.Security

/-- levels of a target / channel string such as "a/+/#/": the level names without the
trailing "#", and whether there was one -/
def levelsOf (s : Bytes) : List Bytes × Bool :=
  let parts := splitSlash (trimRightSlash s)
  if parts.getLast? == some hashSym then (parts.dropLast, true) else (parts, false)

/-- one level: equal where the target has a literal (a wildcard level of the request is never
accepted there), anything where the target has '+' -/
def levelOk (t r : Bytes) : Bool := t == plus || (t == r && r != plus)

def levelsOk : List Bytes → List Bytes → Bool
  | [], _ => true
  | _ :: _, [] => false
  | t :: ts, r :: rs => levelOk t r && levelsOk ts rs

/-- the target covers the request: same depth for exact targets (and no trailing '#' in the
request), at least that depth for '#/' targets; level-wise `levelOk` -/
def covers (target request : Bytes) : Bool :=
  let (tp, tw) := levelsOf target
  let (rp, rw) := levelsOf request
  if tw then rp.length ≥ tp.length && levelsOk tp rp
  else !rw && rp.length == tp.length && levelsOk tp rp

/-- targets on which the code implements `covers` (up to hash collisions): the last level
before an optional '#' is a literal, or the target is exact and consists of '+' only;
no '#' other than a trailing one; at most 23 levels -/
def targetSupported (target : Bytes) : Bool :=
  let (tp, tw) := levelsOf target
  tp.length ≤ 23 && !tp.contains hashSym &&
  (match tp.getLast? with
   | none => true                       -- "#/": everything
   | some l => l != plus || (!tw && tp.all (· == plus)))

end Emitter.Spec
