/-
  Executable reading of C13 that does not go through the model's `merge`:
  * the delta of an incoming payload `r` against a local map `s`, key by key, from the property's own words
    ("exactly the entries, and only the add/remove times, that changed its own state");
  * the join (pointwise maximum of add and of remove times) of a collection of payloads;
  * the pointwise order on times used for "carries every update".
-/
import Emitter.Model.Lww

namespace Emitter.Spec.Delta
open Emitter Emitter.Lww

/-- what must be passed on of `r`, given the local map `s` BEFORE the merge: per key the incoming add time
if it is newer than the local one, else 0; likewise the remove time; the key only if one of them is kept -/
def deltaMap (s r : Map) : Map :=
  r.filterMap fun e =>
    let sv := get s e.1
    let a := if sv.add < e.2.add then e.2.add else 0
    let d := if sv.del < e.2.del then e.2.del else 0
    if a = 0 ∧ d = 0 then none else some (e.1, ⟨a, d, e.2.payload⟩)

def deltaState (s r : State) : Option State :=
  let a := deltaMap s.sub r.sub
  let b := deltaMap s.ban r.ban
  let c := deltaMap s.conn r.conn
  if a.isEmpty && b.isEmpty && c.isEmpty then none else some ⟨a, b, c⟩

/-- (key, add, remove) triples; a key that is not listed stands for (0, 0) -/
abbrev Times := List (Bytes × Int × Int)

def keysOf (ms : List Map) : List Bytes := (ms.flatMap (·.map Prod.fst)).eraseDups

/-- join of a collection of maps: per key the largest add and the largest remove time (at least 0) -/
def joinTimes (ms : List Map) : Times :=
  (keysOf ms).filterMap fun k =>
    let a := ms.foldl (fun acc m => max acc (get m k).add) 0
    let d := ms.foldl (fun acc m => max acc (get m k).del) 0
    if a = 0 ∧ d = 0 then none else some (k, a, d)

def timesGet (t : Times) (k : Bytes) : Int × Int := (t.lookup k).getD (0, 0)

/-- `a ≤ b` on every key -/
def timesLe (a b : Times) : Bool :=
  (a ++ b).all fun e =>
    let x := timesGet a e.1
    let y := timesGet b e.1
    decide (x.1 ≤ y.1) && decide (x.2 ≤ y.2)

end Emitter.Spec.Delta
