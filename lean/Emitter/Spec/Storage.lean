/-
  Specification of a history query (C06), independent of how the store is searched:
  "filter, then take the most recent `limit`, cut where the reply would get too large".
  Executable, so the driver uses it as the oracle of the three-way check.
-/
import Emitter.Model.Storage

namespace Emitter.Storage.Spec
open Emitter Emitter.Message Emitter.Storage

/-- the filter is a level-wise prefix of the channel; a wildcard level matches any level -/
def channelMatch (filter channel : Ssid) : Bool :=
  decide (filter.length ≤ channel.length) && (filter.zip channel).all (fun p => p.1 == p.2 || isWild p.1)

/-- what a query asks for: `ssid = contract :: filter levels`, window, optional continuation id -/
structure Ask where
  ssid : Ssid
  from_ : Int
  until_ : Int
  start : Bytes
  limit : Nat

/-- the entry is one the query is entitled to and asks for: same contract, channel under the
filter, time inside the window, not expired, and — on a continuation page — strictly after
the continuation id in key order (keys sort most recent first) -/
def wanted (a : Ask) (now : Int) (e : Entry) : Bool :=
  live now e &&
  idContract e.key == a.ssid.getD 0 0 &&
  channelMatch (a.ssid.drop 1) ((idSsid e.key).drop 1) &&
  decide (a.from_ ≤ idTime e.key) && decide (idTime e.key ≤ a.until_) &&
  (a.start.isEmpty || bytesLt a.start e.key)

/-- the first `limit` entries, cut before the first one that makes the byte total pass `cap`
(`n`, `size`: entries and bytes already taken) -/
def firstFitting (limit cap : Nat) : Nat → Nat → List Entry → List Entry
  | _, _, [] => []
  | n, size, e :: es =>
      if limit ≤ n then [] else if size + msgLen e.msg > cap then []
      else e :: firstFitting limit cap (n + 1) (size + msgLen e.msg) es

/-- the answer, most recent first (the store is in key order) -/
def answer (a : Ask) (now : Int) (s : Store) : List Msg :=
  (firstFitting a.limit replyCap 0 0 (s.filter (wanted a now))).map (·.msg)

end Emitter.Storage.Spec
