/-
  C05 — lemma library, part 4: on flag-free schedules a broker's own entries tell the truth about
  its clients, and every entry anywhere names a broker of the cluster (nobody but the owner ever
  stamps a key of the owner, so everything in flight is dominated by the owner's state).
-/
import Emitter.Lemmas.Cluster

namespace Emitter.Cluster
open Emitter Emitter.Lww

/-- well-formed client events: 64-bit connection ids, ssids with at least the contract word -/
def Ev.ok : Ev → Prop
  | .sub _ c σ _ => c < 18446744073709551616 ∧ σ ≠ []
  | .unsub _ c σ _ => c < 18446744073709551616 ∧ σ ≠ []
  | .close _ c _ => c < 18446744073709551616
  | _ => True

/-! ## the mode never changes -/

theorem sendFrom_mode (c : Cluster) (a : PeerName) (d : Pending) (to : List PeerName) :
    (c.sendFrom a d to).mode = c.mode := by
  unfold Cluster.sendFrom
  induction to generalizing c with
  | nil => rfl
  | cons x to ih => rw [List.foldl_cons, ih]; rfl

theorem broadcastFrom_mode (c : Cluster) (a src : PeerName) (m : Map) (to : List PeerName) :
    (c.broadcastFrom a src m to).mode = c.mode := by
  unfold Cluster.broadcastFrom
  induction to generalizing c with
  | nil => rfl
  | cons x to ih => rw [List.foldl_cons, ih]; rfl

theorem applyNotify_mode (c : Cluster) (a : PeerName) (r : NotifyRes) : (c.applyNotify a r).mode = c.mode := by
  unfold Cluster.applyNotify
  simp only
  split
  · rfl
  · rw [broadcastFrom_mode]; rfl

theorem fold_applyNotify_mode (a : PeerName) (rs : List NotifyRes) (c : Cluster) :
    (rs.foldl (fun c r => c.applyNotify a r) c).mode = c.mode := by
  induction rs generalizing c with
  | nil => rfl
  | cons r rs ih => rw [List.foldl_cons, ih, applyNotify_mode]

theorem step_mode_deliver (c : Cluster) (a b : PeerName) (relay : List PeerName) (keep : Bool) (rev : WalkOrder) :
    (c.step (.deliver a b relay keep rev)).1.mode = c.mode := by
  have h0 : ∀ l : Link, (if keep = true then c else c.setLink a b l).mode = c.mode := by
    intro l; cases keep <;> rfl
  cases hw : (c.link a b).wire with
  | nil => simp only [Cluster.step, hw]
  | cons w rest =>
    cases hb : c.broker? b with
    | none => simp only [Cluster.step, hw, hb]
    | some br =>
      cases w with
      | gossip m =>
        simp only [Cluster.step, hw, hb]
        split
        · rw [sendFrom_mode]; exact h0 _
        · exact h0 _
      | bcast src m =>
        simp only [Cluster.step, hw, hb]
        split
        · exact h0 _
        · simp only
          split
          · rw [broadcastFrom_mode]; exact h0 _
          · exact h0 _

theorem step_mode (c : Cluster) (e : Ev) : (c.step e).1.mode = c.mode := by
  cases e with
  | sub a cn σ now =>
    simp only [Cluster.step]
    split
    · rfl
    · exact applyNotify_mode _ _ _
  | unsub a cn σ now =>
    simp only [Cluster.step]
    split
    · rfl
    · exact applyNotify_mode _ _ _
  | close a cn now =>
    simp only [Cluster.step]
    split
    · rfl
    · exact fold_applyNotify_mode _ _ _
  | pick a b src =>
    simp only [Cluster.step]
    split
    · rfl
    · split
      · rfl
      · split <;> rfl
  | deliver a b relay keep rev => exact step_mode_deliver c a b relay keep rev
  | gossip a b => rfl
  | linkDown a b => rfl
  | linkUp a b =>
    simp only [Cluster.step]
    split <;> rfl
  | touch b p =>
    simp only [Cluster.step]
    split <;> rfl
  | expire b p =>
    simp only [Cluster.step]
    split <;> rfl
  | offline b p now =>
    simp only [Cluster.step]
    split <;> rfl

theorem run_mode_aux (evs : List Ev) (acc : Cluster × List Flag) :
    (evs.foldl (fun (acc : Cluster × List Flag) e =>
      let r := acc.1.step e; (r.1, acc.2 ++ r.2.flags)) acc).1.mode = acc.1.mode := by
  induction evs generalizing acc with
  | nil => rfl
  | cons e evs ih =>
    rw [List.foldl_cons, ih]
    exact step_mode acc.1 e

theorem run_mode (c : Cluster) (evs : List Ev) : (c.run evs).1.mode = c.mode :=
  run_mode_aux evs (c, [])

/-! ## pointwise order on (add, remove) times -/

def Le2 (a b : Int × Int) : Prop := a.1 ≤ b.1 ∧ a.2 ≤ b.2

theorem le2_refl (a : Int × Int) : Le2 a a := ⟨Int.le_refl _, Int.le_refl _⟩

theorem le2_trans {a b c : Int × Int} (h1 : Le2 a b) (h2 : Le2 b c) : Le2 a c :=
  ⟨Int.le_trans h1.1 h2.1, Int.le_trans h1.2 h2.2⟩

theorem tmax_le2 {a b c : Int × Int} (h1 : Le2 a c) (h2 : Le2 b c) : Le2 (tmax a b) c := by
  unfold Le2 tmax at *
  simp only
  omega

theorem le2_tmax_left (a b : Int × Int) : Le2 a (tmax a b) := by
  unfold Le2 tmax
  simp only
  omega

theorem tmax_eq_left {a b : Int × Int} (h : Le2 b a) : tmax a b = a := by
  obtain ⟨a1, a2⟩ := a
  unfold Le2 at h
  unfold tmax
  simp only [Prod.mk.injEq] at *
  omega

theorem le2_zero (s : Map) (hs : NonNeg s) (k : Bytes) : Le2 (0, 0) (tget s k) := hs k

theorem le2_of_eq_zero {a b : Int × Int} (h : a = (0, 0)) (hb : Le2 (0, 0) b) : Le2 a b := by
  rw [h]; exact hb

theorem tmax_ne_zero {a b : Int × Int} (h : tmax a b ≠ (0, 0)) : a ≠ (0, 0) ∨ b ≠ (0, 0) := by
  by_cases ha : a = (0, 0)
  · right
    intro hb
    apply h
    rw [ha, hb]; rfl
  · exact Or.inl ha

/-! ## keys -/

/-- the first eight bytes of a key determine the peer name (mod 2^64) -/
theorem encKey_peer_inj (p p' : PeerName) (c c' : ConnId) (σ σ' : Ssid)
    (hp : p < 18446744073709551616) (hp' : p' < 18446744073709551616)
    (h : encKey p c σ = encKey p' c' σ') : p = p' := by
  have h1 : (encKey p c σ).take 8 = (encKey p' c' σ').take 8 := by rw [h]
  rw [encKey_take8, encKey_take8] at h1
  have h2 : rdNat (be64 p) = rdNat (be64 p') := by rw [h1]
  rw [rdNat_be64, rdNat_be64, Nat.mod_eq_of_lt hp, Nat.mod_eq_of_lt hp'] at h2
  exact h2

theorem encKey_inj (p : PeerName) (c c' : ConnId) (σ σ' : Ssid)
    (hc : c < 18446744073709551616) (hc' : c' < 18446744073709551616) (hσ : σ ≠ []) (hσ' : σ' ≠ [])
    (h : encKey p c σ = encKey p c' σ') : c = c' ∧ σ = σ' := by
  have h1 : decKey (encKey p c σ) = decKey (encKey p c' σ') := by rw [h]
  rw [decKey_encKey _ _ _ hσ, decKey_encKey _ _ _ hσ', Nat.mod_eq_of_lt hc, Nat.mod_eq_of_lt hc'] at h1
  simp only [Option.some.injEq, SubKey.mk.injEq] at h1
  exact ⟨h1.2.1, h1.2.2⟩

theorem keyIs_encKey_self (p : PeerName) (hp : p < 18446744073709551616) (c : ConnId) (σ : Ssid) (hσ : σ ≠ []) :
    keyIs (encKey p c σ) p σ = true := by
  unfold keyIs
  rw [decKey_encKey _ _ _ hσ, Nat.mod_eq_of_lt hp]
  simp

/-- a key that decodes for (p, σ') and is `encKey q c σ` -/
theorem keyIs_encKey_ssid (q : PeerName) (hq : q < 18446744073709551616) (c : ConnId) (σ : Ssid) (hσ : σ ≠ [])
    (p : PeerName) (σ' : Ssid) (h : keyIs (encKey q c σ) p σ' = true) : p = q ∧ σ' = σ := by
  unfold keyIs at h
  rw [decKey_encKey _ _ _ hσ, Nat.mod_eq_of_lt hq] at h
  simp only [Bool.and_eq_true, beq_iff_eq] at h
  exact ⟨h.1.symm, h.2.symm⟩

/-! ## what every map of the cluster satisfies -/

def bnames (bs : List Broker) : List PeerName := bs.map Broker.self

/-- a key stamped by a broker of the cluster for a well-formed (connection, ssid) -/
def GoodKey (ns : List PeerName) (k : Bytes) : Prop :=
  ∃ p, p ∈ ns ∧ ∃ cn σ, cn < 18446744073709551616 ∧ σ ≠ [] ∧ k = encKey p cn σ

/-- a map living anywhere in the cluster (a state, a bucket, a message in flight): distinct keys,
non-negative times, every entry names a broker, and on the keys of a broker it is dominated by
that broker's own state -/
structure MapOK (bs : List Broker) (H : Map) : Prop where
  nodup : NoDup H
  nonneg : NonNeg H
  keys : ∀ k, tget H k ≠ (0, 0) → GoodKey (bnames bs) k
  dom : ∀ x ∈ bs, ∀ cn σ, Le2 (tget H (encKey x.self cn σ)) (tget x.state (encKey x.self cn σ))

theorem mapOK_nil (bs : List Broker) (hnn : ∀ x ∈ bs, NonNeg x.state) : MapOK bs [] := by
  refine ⟨nodup_nil, nonneg_nil, ?_, ?_⟩
  · intro k h; exact absurd (tget_nil k) h
  · intro x hx cn σ
    rw [tget_nil]; exact le2_zero _ (hnn x hx) _

theorem mapOK_merge (bs : List Broker) (a b : Map) (ha : MapOK bs a) (hb : MapOK bs b) :
    MapOK bs (merge a b).1 := by
  refine ⟨nodup_merge a b ha.nodup, nonneg_merge a b ha.nonneg, ?_, ?_⟩
  · intro k h
    rw [tget_merge a b ha.nonneg hb.nodup] at h
    rcases tmax_ne_zero h with h | h
    · exact ha.keys k h
    · exact hb.keys k h
  · intro x hx cn σ
    rw [tget_merge a b ha.nonneg hb.nodup]
    exact tmax_le2 (ha.dom x hx cn σ) (hb.dom x hx cn σ)

theorem nonneg_of_tget (m : Map) (h : ∀ k, Le2 (0, 0) (tget m k)) : NonNeg m := h

theorem delta_cases (s r : Map) (hs : NonNeg s) (hr : NoDup r) (k : Bytes) :
    ((tget (merge s r).2 k).1 = (tget r k).1 ∨ (tget (merge s r).2 k).1 = 0) ∧
    ((tget (merge s r).2 k).2 = (tget r k).2 ∨ (tget (merge s r).2 k).2 = 0) := by
  rw [delta_times s r hs hr k]
  unfold tget
  simp only
  constructor
  · split
    · exact Or.inl rfl
    · exact Or.inr rfl
  · split
    · exact Or.inl rfl
    · exact Or.inr rfl

theorem mapOK_delta (bs : List Broker) (hnn : ∀ x ∈ bs, NonNeg x.state) (s r : Map) (hs : NonNeg s)
    (hr : MapOK bs r) : MapOK bs (merge s r).2 := by
  refine ⟨delta_nodup s r hr.nodup, ?_, ?_, ?_⟩
  · intro k
    have h := delta_cases s r hs hr.nodup k
    have h2 := hr.nonneg k
    unfold tget at h
    simp only at h
    omega
  · intro k hk
    apply hr.keys k
    intro h0
    apply hk
    have h := delta_cases s r hs hr.nodup k
    rw [h0] at h
    simp only at h
    apply Prod.ext
    · simp only; omega
    · simp only; omega
  · intro x hx cn σ
    have h := delta_cases s r hs hr.nodup (encKey x.self cn σ)
    have h1 := hr.dom x hx cn σ
    have h2 := le2_zero _ (hnn x hx) (encKey x.self cn σ)
    unfold Le2 at *
    simp only at h2
    omega

/-! ## links -/

structure LinkOK (bs : List Broker) (l : Link) : Prop where
  gossip : ∀ m, l.gossip = some (.data m) → MapOK bs m
  bcasts : ∀ e ∈ l.bcasts, MapOK bs e.2
  wire : ∀ w ∈ l.wire, MapOK bs w.payload

theorem linkOK_empty (bs : List Broker) (u : Bool) : LinkOK bs { up := u } :=
  ⟨fun m h => by simp at h, fun e h => by simp at h, fun w h => by simp at h⟩

theorem linkOK_complete (bs : List Broker) (u : Bool) : LinkOK bs { up := u, gossip := some .complete } :=
  ⟨fun m h => by simp at h, fun e h => by simp at h, fun w h => by simp at h⟩

theorem mapOK_payload (bs : List Broker) (cur : Map) (hcur : MapOK bs cur) (g : Pending)
    (hg : ∀ m, g = .data m → MapOK bs m) : MapOK bs (g.payload cur) := by
  cases g with
  | complete => exact hcur
  | data m => exact hg m rfl

theorem mapOK_pending_merge (bs : List Broker) (cur : Map) (hcur : MapOK bs cur) (g d : Pending)
    (hg : ∀ m, g = .data m → MapOK bs m)
    (hd : ∀ m, d = .data m → MapOK bs m) : ∀ m, g.merge cur d = .data m → MapOK bs m := by
  intro m h
  simp only [Pending.merge, Pending.data.injEq] at h
  subst h
  exact mapOK_merge bs _ _ (mapOK_payload bs cur hcur g hg) (mapOK_payload bs cur hcur d hd)

theorem linkOK_send (bs : List Broker) (l : Link) (cur : Map) (hcur : MapOK bs cur) (d : Pending) (hl : LinkOK bs l)
    (hd : ∀ m, d = .data m → MapOK bs m) : LinkOK bs (l.send cur d) := by
  unfold Link.send
  split
  · exact hl
  · refine ⟨?_, hl.bcasts, hl.wire⟩
    intro m hm
    simp only [Option.some.injEq] at hm
    cases hg : l.gossip with
    | none => rw [hg] at hm; exact hd m hm
    | some g =>
      rw [hg] at hm
      exact mapOK_pending_merge bs cur hcur g d (fun m' h' => hl.gossip m' (by rw [hg, h'])) hd m hm

theorem linkOK_broadcast (bs : List Broker) (l : Link) (src : PeerName) (m : Map) (hl : LinkOK bs l)
    (hm : MapOK bs m) : LinkOK bs (l.broadcast src m) := by
  unfold Link.broadcast
  split
  · exact hl
  · split
    · refine ⟨hl.gossip, ?_, hl.wire⟩
      intro e he
      rcases List.mem_append.1 he with h | h
      · exact hl.bcasts e h
      · rw [List.mem_singleton] at h; subst h; exact hm
    · rename_i old ho
      refine ⟨hl.gossip, ?_, hl.wire⟩
      intro e he
      simp only [List.mem_map] at he
      obtain ⟨x, hx, rfl⟩ := he
      split
      · exact mapOK_merge bs _ _ (hl.bcasts _ (mem_of_lookup_some _ _ _ ho)) hm
      · exact hl.bcasts x hx

/-! ## the cluster invariant -/

structure OInv (c : Cluster) : Prop where
  names : (bnames c.brokers).Nodup
  range : ∀ x ∈ c.brokers, x.self < 18446744073709551616
  locals : ∀ x ∈ c.brokers, ∀ cn σ, (cn, σ) ∈ x.locals → cn < 18446744073709551616 ∧ σ ≠ []
  states : ∀ x ∈ c.brokers, MapOK c.brokers x.state
  links : ∀ e ∈ c.links, LinkOK c.brokers e.2
  truth : ∀ x ∈ c.brokers, ∀ cn σ, cn < 18446744073709551616 → σ ≠ [] →
    (has x.state (encKey x.self cn σ) = true ↔ (cn, σ) ∈ x.locals)

theorem OInv.nonneg {c : Cluster} (h : OInv c) : ∀ x ∈ c.brokers, NonNeg x.state :=
  fun x hx => (h.states x hx).nonneg

theorem linkOK_link (c : Cluster) (hc : OInv c) (a b : PeerName) : LinkOK c.brokers (c.link a b) := by
  unfold Cluster.link
  cases h : c.links.lookup (a, b) with
  | none => exact linkOK_empty _ false
  | some l => exact hc.links _ (mem_of_lookup_some _ _ _ h)

theorem oinv_setLink (c : Cluster) (a b : PeerName) (l : Link) (hc : OInv c) (hl : LinkOK c.brokers l) :
    OInv (c.setLink a b l) := by
  refine ⟨hc.names, hc.range, hc.locals, hc.states, ?_, hc.truth⟩
  intro x hx
  simp only [Cluster.setLink, List.mem_map] at hx
  obtain ⟨y, hy, rfl⟩ := hx
  split
  · exact hl
  · exact hc.links y hy

theorem setLink_brokers (c : Cluster) (a b : PeerName) (l : Link) : (c.setLink a b l).brokers = c.brokers := rfl

theorem sendFrom_brokers (c : Cluster) (a : PeerName) (d : Pending) (to : List PeerName) :
    (c.sendFrom a d to).brokers = c.brokers := by
  unfold Cluster.sendFrom
  induction to generalizing c with
  | nil => rfl
  | cons x to ih => rw [List.foldl_cons, ih]; rfl

theorem broadcastFrom_brokers (c : Cluster) (a src : PeerName) (m : Map) (to : List PeerName) :
    (c.broadcastFrom a src m to).brokers = c.brokers := by
  unfold Cluster.broadcastFrom
  induction to generalizing c with
  | nil => rfl
  | cons x to ih => rw [List.foldl_cons, ih]; rfl

theorem mapOK_stateOf (c : Cluster) (hc : OInv c) (a : PeerName) : MapOK c.brokers (c.stateOf a) := by
  unfold Cluster.stateOf
  cases hb : c.broker? a with
  | none => exact mapOK_nil _ hc.nonneg
  | some x => exact hc.states x (broker?_mem c a x hb)

theorem oinv_sendFrom (c : Cluster) (a : PeerName) (d : Pending) (to : List PeerName) (hc : OInv c)
    (hd : ∀ m, d = .data m → MapOK c.brokers m) : OInv (c.sendFrom a d to) := by
  unfold Cluster.sendFrom
  induction to generalizing c with
  | nil => exact hc
  | cons x to ih =>
    rw [List.foldl_cons]
    exact ih _ (oinv_setLink c a x _ hc (linkOK_send _ _ _ (mapOK_stateOf c hc a) d (linkOK_link c hc a x) hd)) hd

theorem oinv_broadcastFrom (c : Cluster) (a src : PeerName) (m : Map) (to : List PeerName) (hc : OInv c)
    (hm : MapOK c.brokers m) : OInv (c.broadcastFrom a src m to) := by
  unfold Cluster.broadcastFrom
  induction to generalizing c with
  | nil => exact hc
  | cons x to ih =>
    rw [List.foldl_cons]
    exact ih _ (oinv_setLink c a x _ hc (linkOK_broadcast _ _ src m (linkOK_link c hc a x) hm)) hm

/-! ## replacing one broker -/

theorem bnames_setBroker (c : Cluster) (b' : Broker) : bnames (c.setBroker b').brokers = bnames c.brokers := by
  unfold bnames Cluster.setBroker
  simp only [List.map_map]
  apply List.map_congr_left
  intro x _
  simp only [Function.comp]
  split
  · rename_i h; exact (eq_of_beq h).symm
  · rfl

theorem eq_of_names_nodup (bs : List Broker) (h : (bnames bs).Nodup) (x y : Broker) (hx : x ∈ bs) (hy : y ∈ bs)
    (hs : x.self = y.self) : x = y := by
  induction bs with
  | nil => cases hx
  | cons z bs ih =>
    unfold bnames at h
    rw [List.map_cons, List.nodup_cons] at h
    rcases List.mem_cons.1 hx with hx | hx <;> rcases List.mem_cons.1 hy with hy | hy
    · rw [hx, hy]
    · exfalso; apply h.1
      rw [← hx, hs]; exact List.mem_map_of_mem hy
    · exfalso; apply h.1
      rw [← hy, ← hs]; exact List.mem_map_of_mem hx
    · exact ih h.2 hx hy

theorem mem_setBroker (c : Cluster) (b' x' : Broker) (h : x' ∈ (c.setBroker b').brokers) :
    x' = b' ∨ (x' ∈ c.brokers ∧ x'.self ≠ b'.self) := by
  simp only [Cluster.setBroker, List.mem_map] at h
  obtain ⟨y, hy, rfl⟩ := h
  split
  · exact Or.inl rfl
  · rename_i hne
    exact Or.inr ⟨hy, by simpa using hne⟩

theorem mem_setBroker_self (c : Cluster) (b b' : Broker) (hb : b ∈ c.brokers) (hself : b'.self = b.self) :
    b' ∈ (c.setBroker b').brokers := by
  simp only [Cluster.setBroker, List.mem_map]
  exact ⟨b, hb, by simp [hself]⟩

theorem mem_names (bs : List Broker) (x : Broker) (hx : x ∈ bs) : x.self ∈ bnames bs :=
  List.mem_map_of_mem hx

/-- broker `b` is replaced by `b'`: same name, a state that only grew, and that is still made of
keys of the cluster, still dominated by the other owners, and truthful on its own keys -/
theorem oinv_setBroker (c : Cluster) (b b' : Broker) (hc : OInv c) (hb : b ∈ c.brokers)
    (hself : b'.self = b.self) (hnd : NoDup b'.state) (hnn : NonNeg b'.state)
    (hgrow : ∀ k, Le2 (tget b.state k) (tget b'.state k))
    (hkeys : ∀ k, tget b'.state k ≠ (0, 0) → GoodKey (bnames c.brokers) k)
    (hdom : ∀ x ∈ c.brokers, x.self ≠ b.self → ∀ cn σ,
      Le2 (tget b'.state (encKey x.self cn σ)) (tget x.state (encKey x.self cn σ)))
    (hloc : ∀ cn σ, (cn, σ) ∈ b'.locals → cn < 18446744073709551616 ∧ σ ≠ [])
    (htruth : ∀ cn σ, cn < 18446744073709551616 → σ ≠ [] →
      (has b'.state (encKey b.self cn σ) = true ↔ (cn, σ) ∈ b'.locals)) :
    OInv (c.setBroker b') := by
  have mono : ∀ H, MapOK c.brokers H → MapOK (c.setBroker b').brokers H := by
    intro H h
    refine ⟨h.nodup, h.nonneg, ?_, ?_⟩
    · rw [bnames_setBroker]; exact h.keys
    · intro x' hx' cn σ
      rcases mem_setBroker c b' x' hx' with rfl | ⟨hx, _⟩
      · rw [hself]; exact le2_trans (h.dom b hb cn σ) (hgrow _)
      · exact h.dom x' hx cn σ
  constructor
  · rw [bnames_setBroker]; exact hc.names
  · intro x' hx'
    rcases mem_setBroker c b' x' hx' with rfl | ⟨hx, _⟩
    · rw [hself]; exact hc.range b hb
    · exact hc.range x' hx
  · intro x' hx'
    rcases mem_setBroker c b' x' hx' with rfl | ⟨hx, _⟩
    · exact hloc
    · exact hc.locals x' hx
  · intro x' hx'
    rcases mem_setBroker c b' x' hx' with rfl | ⟨hx, _⟩
    · refine ⟨hnd, hnn, ?_, ?_⟩
      · rw [bnames_setBroker]; exact hkeys
      · intro y' hy' cn σ
        rcases mem_setBroker c x' y' hy' with rfl | ⟨hy, hne⟩
        · exact le2_refl _
        · rw [hself] at hne
          exact hdom y' hy hne cn σ
    · exact mono _ (hc.states x' hx)
  · intro e he
    have h := hc.links e he
    exact ⟨fun m hm => mono _ (h.gossip m hm), fun x hx => mono _ (h.bcasts x hx), fun w hw => mono _ (h.wire w hw)⟩
  · intro x' hx'
    rcases mem_setBroker c b' x' hx' with rfl | ⟨hx, _⟩
    · rw [hself]; exact htruth
    · exact hc.truth x' hx

/-- only members / routes / generation counters change -/
theorem oinv_setBroker_same (c : Cluster) (b b' : Broker) (hc : OInv c) (hb : b ∈ c.brokers)
    (hself : b'.self = b.self) (hs : b'.state = b.state) (hl : b'.locals = b.locals) : OInv (c.setBroker b') := by
  have h := hc.states b hb
  apply oinv_setBroker c b b' hc hb hself
  · rw [hs]; exact h.nodup
  · rw [hs]; exact h.nonneg
  · intro k; rw [hs]; exact le2_refl _
  · rw [hs]; exact h.keys
  · intro x hx _ cn σ; rw [hs]; exact h.dom x hx cn σ
  · rw [hl]; exact hc.locals b hb
  · rw [hs, hl]; exact hc.truth b hb

/-! ## `Notify` -/

/-- what a flag-free local subscribe / unsubscribe of (cn, σ) at `b` does -/
structure NStep (b : Broker) (cn : ConnId) (σ : Ssid) (r : NotifyRes) : Prop where
  self : r.broker.self = b.self
  nodup : NoDup r.broker.state
  nonneg : NonNeg r.broker.state
  grow : ∀ k, Le2 (tget b.state k) (tget r.broker.state k)
  frame : ∀ k, k ≠ encKey b.self cn σ → tget r.broker.state k = tget b.state k
  pdom : Le2 (tget r.payload (encKey b.self cn σ)) (tget r.broker.state (encKey b.self cn σ))
  pframe : ∀ k, k ≠ encKey b.self cn σ → tget r.payload k = (0, 0)
  pnodup : NoDup r.payload
  pnonneg : NonNeg r.payload
  locals : ∀ cn' σ', (cn', σ') ∈ r.broker.locals → cn' < 18446744073709551616 ∧ σ' ≠ []
  truth : ∀ cn' σ', cn' < 18446744073709551616 → σ' ≠ [] →
    (has r.broker.state (encKey b.self cn' σ') = true ↔ (cn', σ') ∈ r.broker.locals)

theorem oinv_applyNotify (c : Cluster) (a : PeerName) (b : Broker) (cn : ConnId) (σ : Ssid) (r : NotifyRes)
    (hc : OInv c) (hb : b ∈ c.brokers) (hcn : cn < 18446744073709551616) (hσ : σ ≠ [])
    (hr : NStep b cn σ r) : OInv (c.applyNotify a r) := by
  have hgood : GoodKey (bnames c.brokers) (encKey b.self cn σ) :=
    ⟨b.self, mem_names _ b hb, cn, σ, hcn, hσ, rfl⟩
  have h1 : OInv (c.setBroker r.broker) := by
    apply oinv_setBroker c b r.broker hc hb hr.self hr.nodup hr.nonneg hr.grow ?_ ?_ hr.locals hr.truth
    · intro k h
      by_cases hk : k = encKey b.self cn σ
      · rw [hk]; exact hgood
      · rw [hr.frame k hk] at h
        exact (hc.states b hb).keys k h
    · intro x hx hne cn' σ'
      have hk : encKey x.self cn' σ' ≠ encKey b.self cn σ :=
        fun h => hne (encKey_peer_inj _ _ _ _ _ _ (hc.range x hx) (hc.range b hb) h)
      rw [hr.frame _ hk]
      exact (hc.states b hb).dom x hx cn' σ'
  unfold Cluster.applyNotify
  simp only
  split
  · exact h1
  · apply oinv_broadcastFrom _ _ _ _ _ h1
    refine ⟨hr.pnodup, hr.pnonneg, ?_, ?_⟩
    · intro k h
      by_cases hk : k = encKey b.self cn σ
      · rw [hk, bnames_setBroker]; exact hgood
      · exact absurd (hr.pframe k hk) h
    · intro x' hx' cn' σ'
      by_cases hk : encKey x'.self cn' σ' = encKey b.self cn σ
      · have hs : x'.self = b.self := encKey_peer_inj _ _ _ _ _ _ (h1.range x' hx') (hc.range b hb) hk
        rcases mem_setBroker c r.broker x' hx' with rfl | ⟨_, hne⟩
        · rw [hk]; exact hr.pdom
        · exact absurd (hs.trans hr.self.symm) hne
      · rw [hr.pframe _ hk]
        exact le2_zero _ (h1.nonneg x' hx') _

theorem nstep_noop (b : Broker) (cn : ConnId) (σ : Ssid) (hnd : NoDup b.state) (hnn : NonNeg b.state)
    (hloc : ∀ cn' σ', (cn', σ') ∈ b.locals → cn' < 18446744073709551616 ∧ σ' ≠ [])
    (htruth : ∀ cn' σ', cn' < 18446744073709551616 → σ' ≠ [] →
      (has b.state (encKey b.self cn' σ') = true ↔ (cn', σ') ∈ b.locals)) :
    NStep b cn σ { broker := b, payload := [], flags := [] } :=
  ⟨rfl, hnd, hnn, fun _ => le2_refl _, fun _ _ => rfl, by rw [tget_nil]; exact le2_zero _ hnn _,
    fun _ _ => tget_nil _, nodup_nil, nonneg_nil, hloc, htruth⟩

theorem tget_set (m : Map) (k k' : Bytes) (v : Val) :
    tget (set m k v) k' = if k' = k then (v.add, v.del) else tget m k' := by
  unfold tget
  rw [get_set]
  split <;> rfl

theorem tget_singleton (k k' : Bytes) (v : Val) :
    tget [(k, v)] k' = if k' = k then (v.add, v.del) else (0, 0) := by
  unfold tget
  rw [get_cons]
  split
  · rfl
  · rfl

theorem nonneg_singleton (k : Bytes) (v : Val) (h1 : 0 ≤ v.add) (h2 : 0 ≤ v.del) : NonNeg [(k, v)] := by
  intro k'
  rw [get_cons]
  split
  · exact ⟨h1, h2⟩
  · rw [get_nil]; simp [Val.zero]

theorem localSub_nstep (b : Broker) (cn : ConnId) (σ : Ssid) (now : Int)
    (hnd : NoDup b.state) (hnn : NonNeg b.state)
    (hcn : cn < 18446744073709551616) (hσ : σ ≠ [])
    (hloc : ∀ cn' σ', (cn', σ') ∈ b.locals → cn' < 18446744073709551616 ∧ σ' ≠ [])
    (htruth : ∀ cn' σ', cn' < 18446744073709551616 → σ' ≠ [] →
      (has b.state (encKey b.self cn' σ') = true ↔ (cn', σ') ∈ b.locals))
    (hf : (localSub b cn σ now).flags = []) : NStep b cn σ (localSub b cn σ now) := by
  unfold localSub at hf ⊢
  split
  · exact nstep_noop b cn σ hnd hnn hloc htruth
  · rename_i hcont
    rw [if_neg hcont] at hf
    simp only at hf
    have hnot : (cn, σ) ∉ b.locals := by
      intro h; exact hcont (List.contains_iff_mem.2 h)
    have hold : has b.state (encKey b.self cn σ) = false := by
      rw [← Bool.not_eq_true]
      intro h; exact hnot ((htruth cn σ hcn hσ).1 h)
    have hnew : has (add b.state (encKey b.self cn σ) now []) (encKey b.self cn σ) = true := by
      cases h : has (add b.state (encKey b.self cn σ) now []) (encKey b.self cn σ) with
      | true => rfl
      | false => rw [h] at hf; simp at hf
    have hlt : (get b.state (encKey b.self cn σ)).add < now := by
      apply Classical.byContradiction
      intro h
      have : add b.state (encKey b.self cn σ) now [] = b.state := by
        unfold add; simp only; rw [if_neg h]
      rw [this, hold] at hnew
      cases hnew
    have hadd : add b.state (encKey b.self cn σ) now [] =
        set b.state (encKey b.self cn σ) { get b.state (encKey b.self cn σ) with add := now, payload := [] } := by
      unfold add; simp only; rw [if_pos hlt]
    have h0 := hnn (encKey b.self cn σ)
    constructor
    · rfl
    · exact nodup_add _ _ _ _ hnd
    · exact nonneg_add _ _ _ _ hnn
    · intro k
      show Le2 _ (tget (add b.state (encKey b.self cn σ) now []) k)
      rw [hadd, tget_set]
      split
      · rename_i hk
        rw [hk]; unfold Le2 tget; simp only; omega
      · exact le2_refl _
    · intro k hk
      show tget (add b.state (encKey b.self cn σ) now []) k = _
      rw [hadd, tget_set, if_neg hk]
    · show Le2 (tget [(encKey b.self cn σ, _)] _) (tget (add b.state (encKey b.self cn σ) now []) _)
      rw [hadd, tget_set, if_pos rfl, tget_singleton, if_pos rfl]
      unfold Le2; simp only; omega
    · intro k hk
      show tget [(encKey b.self cn σ, _)] k = _
      rw [tget_singleton, if_neg hk]
    · exact nodup_singleton _ _
    · exact nonneg_singleton _ _ (by simp only; omega) (Int.le_refl 0)
    · intro cn' σ' h
      rcases List.mem_cons.1 h with h | h
      · cases h; exact ⟨hcn, hσ⟩
      · exact hloc cn' σ' h
    · intro cn' σ' hcn' hσ'
      show has (add b.state (encKey b.self cn σ) now []) _ = true ↔ (cn', σ') ∈ (cn, σ) :: b.locals
      by_cases hk : encKey b.self cn' σ' = encKey b.self cn σ
      · have := encKey_inj b.self cn' cn σ' σ hcn' hcn hσ' hσ hk
        rw [this.1, this.2]
        exact ⟨fun _ => List.mem_cons_self, fun _ => hnew⟩
      · have hne : (cn', σ') ≠ (cn, σ) := by
          intro h; cases h; exact hk rfl
        rw [has_congr _ b.state _ (by rw [hadd, tget_set, if_neg hk]), htruth cn' σ' hcn' hσ', List.mem_cons]
        constructor
        · exact Or.inr
        · rintro (h | h)
          · exact absurd h hne
          · exact h

theorem localUnsub_nstep (b : Broker) (cn : ConnId) (σ : Ssid) (now : Int)
    (hnd : NoDup b.state) (hnn : NonNeg b.state)
    (hcn : cn < 18446744073709551616) (hσ : σ ≠ [])
    (hloc : ∀ cn' σ', (cn', σ') ∈ b.locals → cn' < 18446744073709551616 ∧ σ' ≠ [])
    (htruth : ∀ cn' σ', cn' < 18446744073709551616 → σ' ≠ [] →
      (has b.state (encKey b.self cn' σ') = true ↔ (cn', σ') ∈ b.locals))
    (hf : (localUnsub b cn σ now).flags = []) : NStep b cn σ (localUnsub b cn σ now) := by
  unfold localUnsub at hf ⊢
  split
  · exact nstep_noop b cn σ hnd hnn hloc htruth
  · rename_i hcont
    rw [if_neg hcont] at hf
    simp only at hf
    have hin : (cn, σ) ∈ b.locals := by
      apply List.contains_iff_mem.1
      simpa using hcont
    have hold : has b.state (encKey b.self cn σ) = true := (htruth cn σ hcn hσ).2 hin
    have hnew : has (del b.state (encKey b.self cn σ) now) (encKey b.self cn σ) = false := by
      cases h : has (del b.state (encKey b.self cn σ) now) (encKey b.self cn σ) with
      | false => rfl
      | true => rw [h] at hf; simp at hf
    have hlt : (get b.state (encKey b.self cn σ)).del < now := by
      apply Classical.byContradiction
      intro h
      have : del b.state (encKey b.self cn σ) now = b.state := by
        unfold del; simp only; rw [if_neg h]
      rw [this, hold] at hnew
      cases hnew
    have hdel : del b.state (encKey b.self cn σ) now =
        set b.state (encKey b.self cn σ) { get b.state (encKey b.self cn σ) with del := now } := by
      unfold del; simp only; rw [if_pos hlt]
    have h0 := hnn (encKey b.self cn σ)
    constructor
    · rfl
    · exact nodup_del _ _ _ hnd
    · exact nonneg_del _ _ _ hnn
    · intro k
      show Le2 _ (tget (del b.state (encKey b.self cn σ) now) k)
      rw [hdel, tget_set]
      split
      · rename_i hk
        rw [hk]; unfold Le2 tget; simp only; omega
      · exact le2_refl _
    · intro k hk
      show tget (del b.state (encKey b.self cn σ) now) k = _
      rw [hdel, tget_set, if_neg hk]
    · show Le2 (tget [(encKey b.self cn σ, _)] _) (tget (del b.state (encKey b.self cn σ) now) _)
      rw [hdel, tget_set, if_pos rfl, tget_singleton, if_pos rfl]
      unfold Le2; simp only; omega
    · intro k hk
      show tget [(encKey b.self cn σ, _)] k = _
      rw [tget_singleton, if_neg hk]
    · exact nodup_singleton _ _
    · exact nonneg_singleton _ _ (Int.le_refl 0) (by simp only; omega)
    · intro cn' σ' h
      exact hloc cn' σ' (List.mem_filter.1 h).1
    · intro cn' σ' hcn' hσ'
      show has (del b.state (encKey b.self cn σ) now) _ = true ↔ (cn', σ') ∈ b.locals.filter (fun e => e != (cn, σ))
      by_cases hk : encKey b.self cn' σ' = encKey b.self cn σ
      · have := encKey_inj b.self cn' cn σ' σ hcn' hcn hσ' hσ hk
        rw [this.1, this.2, hnew]
        simp [List.mem_filter]
      · have hne : (cn', σ') ≠ (cn, σ) := by
          intro h; cases h; exact hk rfl
        rw [has_congr _ b.state _ (by rw [hdel, tget_set, if_neg hk]), htruth cn' σ' hcn' hσ', List.mem_filter]
        constructor
        · intro h; exact ⟨h, by simpa using hne⟩
        · exact fun h => h.1

/-! ## one lemma per kind of step -/

theorem oinv_step_sub (c : Cluster) (a : PeerName) (cn : ConnId) (σ : Ssid) (now : Int) (hc : OInv c)
    (hcn : cn < 18446744073709551616) (hσ : σ ≠ [])
    (hf : (c.step (.sub a cn σ now)).2.flags = []) : OInv (c.step (.sub a cn σ now)).1 := by
  cases hb : c.broker? a with
  | none => simp only [Cluster.step, hb]; exact hc
  | some b =>
    simp only [Cluster.step, hb] at hf ⊢
    have hbm := broker?_mem c a b hb
    have hs := hc.states b hbm
    exact oinv_applyNotify c a b cn σ _ hc hbm hcn hσ
      (localSub_nstep b cn σ now hs.nodup hs.nonneg hcn hσ (hc.locals b hbm) (hc.truth b hbm) hf)

theorem oinv_step_unsub (c : Cluster) (a : PeerName) (cn : ConnId) (σ : Ssid) (now : Int) (hc : OInv c)
    (hcn : cn < 18446744073709551616) (hσ : σ ≠ [])
    (hf : (c.step (.unsub a cn σ now)).2.flags = []) : OInv (c.step (.unsub a cn σ now)).1 := by
  cases hb : c.broker? a with
  | none => simp only [Cluster.step, hb]; exact hc
  | some b =>
    simp only [Cluster.step, hb] at hf ⊢
    have hbm := broker?_mem c a b hb
    have hs := hc.states b hbm
    exact oinv_applyNotify c a b cn σ _ hc hbm hcn hσ
      (localUnsub_nstep b cn σ now hs.nodup hs.nonneg hcn hσ (hc.locals b hbm) (hc.truth b hbm) hf)

/-- the results of closing a connection, as a plain recursion -/
def unsubAll (cn : ConnId) (now : Int) : List (ConnId × Ssid) → Broker → List NotifyRes
  | [], _ => []
  | e :: l, b => localUnsub b cn e.2 now :: unsubAll cn now l (localUnsub b cn e.2 now).broker

theorem closeFold_eq (cn : ConnId) (now : Int) (l : List (ConnId × Ssid)) (b : Broker) (acc : List NotifyRes) :
    (l.foldl (fun (st : Broker × List NotifyRes) e =>
      let r := localUnsub st.1 cn e.2 now
      (r.broker, st.2 ++ [r])) (b, acc)).2 = acc ++ unsubAll cn now l b := by
  induction l generalizing b acc with
  | nil => simp [unsubAll]
  | cons e l ih =>
    rw [List.foldl_cons, ih]
    simp [unsubAll]

theorem closeConn_eq (b : Broker) (cn : ConnId) (now : Int) :
    (closeConn b cn now []).2 = unsubAll cn now (b.locals.filter (fun e => e.1 == cn)) b := by
  unfold closeConn
  rw [closeFold_eq, List.nil_append]

theorem applyNotify_brokers (c : Cluster) (a : PeerName) (r : NotifyRes) :
    (c.applyNotify a r).brokers = (c.setBroker r.broker).brokers := by
  unfold Cluster.applyNotify
  simp only
  split
  · rfl
  · rw [broadcastFrom_brokers]

theorem oinv_unsubAll (a : PeerName) (cn : ConnId) (now : Int) (hcn : cn < 18446744073709551616)
    (l : List (ConnId × Ssid)) (b : Broker) (c : Cluster) (hc : OInv c) (hb : b ∈ c.brokers)
    (hl : ∀ e ∈ l, e.2 ≠ []) (hf : ∀ r ∈ unsubAll cn now l b, r.flags = []) :
    OInv ((unsubAll cn now l b).foldl (fun c r => c.applyNotify a r) c) := by
  induction l generalizing b c with
  | nil => exact hc
  | cons e l ih =>
    have hs := hc.states b hb
    have hr : NStep b cn e.2 (localUnsub b cn e.2 now) :=
      localUnsub_nstep b cn e.2 now hs.nodup hs.nonneg hcn (hl e List.mem_cons_self) (hc.locals b hb) (hc.truth b hb)
        (hf _ (by simp [unsubAll]))
    show OInv ((localUnsub b cn e.2 now :: unsubAll cn now l (localUnsub b cn e.2 now).broker).foldl _ c)
    rw [List.foldl_cons]
    apply ih
    · exact oinv_applyNotify c a b cn e.2 _ hc hb hcn (hl e List.mem_cons_self) hr
    · rw [applyNotify_brokers]
      exact mem_setBroker_self c b _ hb hr.self
    · exact fun x hx => hl x (List.mem_cons_of_mem _ hx)
    · intro r h
      exact hf r (by simp [unsubAll, h])

theorem oinv_step_close (c : Cluster) (a : PeerName) (cn : ConnId) (now : Int) (hc : OInv c)
    (hcn : cn < 18446744073709551616)
    (hf : (c.step (.close a cn now)).2.flags = []) : OInv (c.step (.close a cn now)).1 := by
  cases hb : c.broker? a with
  | none => simp only [Cluster.step, hb]; exact hc
  | some b =>
    simp only [Cluster.step, hb] at hf ⊢
    have hbm := broker?_mem c a b hb
    rw [closeConn_eq] at hf ⊢
    apply oinv_unsubAll a cn now hcn _ b c hc hbm
    · intro e he
      exact (hc.locals b hbm e.1 e.2 (List.mem_filter.1 he).1).2
    · exact List.flatMap_eq_nil_iff.1 hf

theorem oinv_step_pick (c : Cluster) (a b src : PeerName) (hc : OInv c) :
    OInv (c.step (.pick a b src)).1 := by
  simp only [Cluster.step]
  have hl := linkOK_link c hc a b
  split
  · exact hc
  · split
    · rename_i g hg
      apply oinv_setLink _ _ _ _ hc
      refine ⟨fun m h => by simp at h, hl.bcasts, ?_⟩
      intro w hw
      rcases List.mem_append.1 hw with h | h
      · exact hl.wire w h
      · rw [List.mem_singleton] at h
        subst h
        exact mapOK_payload _ _ (mapOK_stateOf c hc a) g (fun m hm => hl.gossip m (by rw [hg, hm]))
    · split
      · rename_i m hm
        apply oinv_setLink _ _ _ _ hc
        refine ⟨hl.gossip, ?_, ?_⟩
        · intro e he
          exact hl.bcasts e (List.mem_filter.1 he).1
        · intro w hw
          rcases List.mem_append.1 hw with h | h
          · exact hl.wire w h
          · rw [List.mem_singleton] at h
            subst h
            exact hl.bcasts _ (mem_of_lookup_some _ _ _ hm)
      · exact hc

theorem oinv_step_gossip (c : Cluster) (a b : PeerName) (hc : OInv c) :
    OInv (c.step (.gossip a b)).1 := by
  simp only [Cluster.step]
  exact oinv_setLink c a b _ hc (linkOK_send _ _ _ (mapOK_stateOf c hc a) _ (linkOK_link c hc a b) (by intro m h; cases h))

theorem oinv_step_linkDown (c : Cluster) (a b : PeerName) (hc : OInv c) :
    OInv (c.step (.linkDown a b)).1 := by
  simp only [Cluster.step]
  exact oinv_setLink _ b a _ (oinv_setLink c a b _ hc (linkOK_empty _ false)) (linkOK_empty _ false)

theorem oinv_step_linkUp (c : Cluster) (a b : PeerName) (hc : OInv c) :
    OInv (c.step (.linkUp a b)).1 := by
  simp only [Cluster.step]
  split
  · exact hc
  · exact oinv_setLink _ b a _ (oinv_setLink c a b _ hc (linkOK_complete _ true)) (linkOK_complete _ true)

theorem touch_same (b : Broker) (p : PeerName) :
    (touch b p).self = b.self ∧ (touch b p).state = b.state ∧ (touch b p).locals = b.locals := by
  unfold touch
  split
  · exact ⟨rfl, rfl, rfl⟩
  · split <;> exact ⟨rfl, rfl, rfl⟩

theorem expire_same (b : Broker) (p : PeerName) :
    (expire b p).self = b.self ∧ (expire b p).state = b.state ∧ (expire b p).locals = b.locals := by
  unfold expire
  split <;> exact ⟨rfl, rfl, rfl⟩

theorem oinv_step_touch (c : Cluster) (b p : PeerName) (hc : OInv c) :
    OInv (c.step (.touch b p)).1 := by
  simp only [Cluster.step]
  split
  · rename_i br hb
    have h := touch_same br p
    exact oinv_setBroker_same c br _ hc (broker?_mem c b br hb) h.1 h.2.1 h.2.2
  · exact hc

theorem oinv_step_expire (c : Cluster) (b p : PeerName) (hc : OInv c) :
    OInv (c.step (.expire b p)).1 := by
  simp only [Cluster.step]
  split
  · rename_i br hb
    have h := expire_same br p
    exact oinv_setBroker_same c br _ hc (broker?_mem c b br hb) h.1 h.2.1 h.2.2
  · exact hc

theorem oinv_step_offline (c : Cluster) (b p : PeerName) (now : Int) (hc : OInv c)
    (hf : (c.step (.offline b p now)).2.flags = []) :
    OInv (c.step (.offline b p now)).1 := by
  cases hb : c.broker? b with
  | none => simp only [Cluster.step, hb]; exact hc
  | some br =>
    simp only [Cluster.step, hb] at hf ⊢
    have hbm := broker?_mem c b br hb
    cases hm : mget br.members p with
    | none =>
      rw [offline_none br p now hm]
      exact oinv_setBroker_same c br br hc hbm rfl rfl rfl
    | some r =>
      have ha := offline_flags_nil br p now r hm hf
      rw [offline_some_nil br p now r hm ha]
      exact oinv_setBroker_same c br _ hc hbm rfl rfl rfl

/-! ### a merge at a broker -/

theorem mapOK_setBroker (c : Cluster) (b b' : Broker) (hb : b ∈ c.brokers) (hself : b'.self = b.self)
    (hgrow : ∀ k, Le2 (tget b.state k) (tget b'.state k)) (H : Map) (h : MapOK c.brokers H) :
    MapOK (c.setBroker b').brokers H := by
  refine ⟨h.nodup, h.nonneg, ?_, ?_⟩
  · rw [bnames_setBroker]; exact h.keys
  · intro x' hx' cn σ
    rcases mem_setBroker c b' x' hx' with rfl | ⟨hx, _⟩
    · rw [hself]; exact le2_trans (h.dom b hb cn σ) (hgrow _)
    · exact h.dom x' hx cn σ

theorem mergeStep_state (rev : WalkOrder) (b : Broker) (r : Map) :
    (mergeStep rev b r).broker.state = (merge b.state r).1 ∧
    (mergeStep rev b r).broker.self = b.self ∧
    (mergeStep rev b r).broker.locals = b.locals ∧
    (mergeStep rev b r).delta = (if (merge b.state r).2.isEmpty then none else some (merge b.state r).2) := by
  unfold mergeStep
  exact mergeOrd_state _ b r

theorem oinv_merge_at (c : Cluster) (hc : OInv c) (br : Broker) (hbr : br ∈ c.brokers) (m : Map)
    (hm : MapOK c.brokers m) (rev : WalkOrder) :
    OInv (c.setBroker (mergeStep rev br m).broker) ∧
    MapOK (c.setBroker (mergeStep rev br m).broker).brokers (merge br.state m).2 := by
  obtain ⟨hst, hself, hloc, _⟩ := mergeStep_state rev br m
  have hs := hc.states br hbr
  have hmm := mapOK_merge c.brokers _ _ hs hm
  have hgrow : ∀ k, Le2 (tget br.state k) (tget (mergeStep rev br m).broker.state k) := by
    intro k
    rw [hst, tget_merge _ _ hs.nonneg hm.nodup]
    exact le2_tmax_left _ _
  constructor
  · apply oinv_setBroker c br _ hc hbr hself
    · rw [hst]; exact hmm.nodup
    · rw [hst]; exact hmm.nonneg
    · exact hgrow
    · rw [hst]; exact hmm.keys
    · intro x hx _ cn σ
      rw [hst]; exact hmm.dom x hx cn σ
    · rw [hloc]; exact hc.locals br hbr
    · intro cn σ hcn hσ
      rw [hloc, ← hc.truth br hbr cn σ hcn hσ]
      rw [has_congr _ br.state _ (by rw [hst, tget_merge _ _ hs.nonneg hm.nodup, tmax_eq_left (hm.dom br hbr cn σ)])]
  · exact mapOK_setBroker c br _ hbr hself hgrow _ (mapOK_delta c.brokers hc.nonneg br.state m hs.nonneg hm)

theorem mergeStep_delta_eq (rev : WalkOrder) (br : Broker) (m d : Map) (h : (mergeStep rev br m).delta = some d) :
    d = (merge br.state m).2 := by
  rw [(mergeStep_state rev br m).2.2.2] at h
  split at h
  · cases h
  · cases h; rfl

theorem oinv_deliver_gossip (c : Cluster) (hc : OInv c) (br : Broker) (hbr : br ∈ c.brokers) (m : Map)
    (hm : MapOK c.brokers m) (rev : WalkOrder) (b : PeerName) (to : List PeerName) :
    OInv (match (mergeStep rev br m).delta with
      | some d => (c.setBroker (mergeStep rev br m).broker).sendFrom b (.data d) to
      | none => c.setBroker (mergeStep rev br m).broker) := by
  have h := oinv_merge_at c hc br hbr m hm rev
  split
  · rename_i d hd
    apply oinv_sendFrom _ b _ to h.1
    intro m' h'
    cases h'
    rw [mergeStep_delta_eq rev br m _ hd]
    exact h.2
  · exact h.1

theorem oinv_deliver_bcast (c : Cluster) (hc : OInv c) (br : Broker) (hbr : br ∈ c.brokers) (m : Map)
    (hm : MapOK c.brokers m) (rev : WalkOrder) (b src : PeerName) (to : List PeerName) :
    OInv (match (mergeStep rev br m).delta with
      | some d => (c.setBroker (mergeStep rev br m).broker).broadcastFrom b src d to
      | none => c.setBroker (mergeStep rev br m).broker) := by
  have h := oinv_merge_at c hc br hbr m hm rev
  split
  · rename_i d hd
    apply oinv_broadcastFrom _ b src d to h.1
    rw [mergeStep_delta_eq rev br m _ hd]
    exact h.2
  · exact h.1

theorem oinv_step_deliver (c : Cluster) (a b : PeerName) (relay : List PeerName) (keep : Bool) (rev : WalkOrder) (hc : OInv c) :
    OInv (c.step (.deliver a b relay keep rev)).1 := by
  have hl := linkOK_link c hc a b
  cases hw : (c.link a b).wire with
  | nil =>
    simp only [Cluster.step, hw]
    exact hc
  | cons w rest =>
    cases hb : c.broker? b with
    | none =>
      simp only [Cluster.step, hw, hb]
      exact hc
    | some br =>
      have hwm : MapOK c.brokers w.payload := hl.wire w (by rw [hw]; exact List.mem_cons_self)
      have hc0 : OInv (if keep then c else c.setLink a b { c.link a b with wire := rest }) := by
        split
        · exact hc
        · exact oinv_setLink c a b _ hc ⟨hl.gossip, hl.bcasts,
            fun x hx => hl.wire x (by rw [hw]; exact List.mem_cons_of_mem _ hx)⟩
      have hb0 : (if keep then c else c.setLink a b { c.link a b with wire := rest }).brokers = c.brokers := by
        cases keep <;> rfl
      have hbr : br ∈ (if keep then c else c.setLink a b { c.link a b with wire := rest }).brokers := by
        rw [hb0]; exact broker?_mem c b br hb
      cases w with
      | gossip m =>
        simp only [Cluster.step, hw, hb]
        exact oinv_deliver_gossip _ hc0 br hbr m (by rw [hb0]; exact hwm) rev b _
      | bcast src m =>
        simp only [Cluster.step, hw, hb]
        split
        · exact hc0
        · exact oinv_deliver_bcast _ hc0 br hbr m (by rw [hb0]; exact hwm) rev b src _

/-- every step of well-formed events that raises no flag preserves the invariant -/
theorem oinv_step (c : Cluster) (e : Ev) (hc : OInv c) (hok : e.ok) (hf : (c.step e).2.flags = []) :
    OInv (c.step e).1 := by
  cases e with
  | sub a cn σ now => exact oinv_step_sub c a cn σ now hc hok.1 hok.2 hf
  | unsub a cn σ now => exact oinv_step_unsub c a cn σ now hc hok.1 hok.2 hf
  | close a cn now => exact oinv_step_close c a cn now hc hok hf
  | pick a b src => exact oinv_step_pick c a b src hc
  | deliver a b relay keep rev => exact oinv_step_deliver c a b relay keep rev hc
  | gossip a b => exact oinv_step_gossip c a b hc
  | linkDown a b => exact oinv_step_linkDown c a b hc
  | linkUp a b => exact oinv_step_linkUp c a b hc
  | touch b p => exact oinv_step_touch c b p hc
  | expire b p => exact oinv_step_expire c b p hc
  | offline b p now => exact oinv_step_offline c b p now hc hf

theorem oinv_run_aux (evs : List Ev) (acc : Cluster × List Flag) (hc : OInv acc.1) (hok : ∀ e ∈ evs, e.ok)
    (hf : (evs.foldl (fun (acc : Cluster × List Flag) e =>
      let r := acc.1.step e; (r.1, acc.2 ++ r.2.flags)) acc).2 = []) :
    OInv (evs.foldl (fun (acc : Cluster × List Flag) e =>
      let r := acc.1.step e; (r.1, acc.2 ++ r.2.flags)) acc).1 := by
  induction evs generalizing acc with
  | nil => exact hc
  | cons e evs ih =>
    rw [List.foldl_cons] at hf ⊢
    apply ih _ _ (fun x hx => hok x (List.mem_cons_of_mem _ hx)) hf
    apply oinv_step acc.1 e hc (hok e List.mem_cons_self)
    rw [List.eq_nil_iff_forall_not_mem]
    intro f hfl
    have := run_flags_mono evs ((acc.1.step e).1, acc.2 ++ (acc.1.step e).2.flags) f
      (List.mem_append_right acc.2 hfl)
    rw [hf] at this
    cases this

theorem oinv_init (mode : Trie.Mode) (n : Nat) (hn : n < 18446744073709551615) : OInv (Cluster.init mode n) := by
  have hmem : ∀ x ∈ (Cluster.init mode n).brokers, ∃ i, i < n ∧ x = { self := i + 1 } := by
    intro x hx
    simp only [Cluster.init, List.mem_map, List.mem_range] at hx
    obtain ⟨p, ⟨i, hi, rfl⟩, rfl⟩ := hx
    exact ⟨i, hi, rfl⟩
  have hnn : ∀ x ∈ (Cluster.init mode n).brokers, NonNeg x.state := by
    intro x hx
    obtain ⟨i, _, rfl⟩ := hmem x hx
    exact nonneg_nil
  constructor
  · unfold bnames Cluster.init
    simp only [List.map_map]
    unfold List.Nodup
    rw [List.pairwise_map]
    apply List.Pairwise.imp _ List.nodup_range
    intro i j hij h
    apply hij
    simp only [Function.comp] at h
    exact Nat.add_right_cancel h
  · intro x hx
    obtain ⟨i, hi, rfl⟩ := hmem x hx
    show i + 1 < 18446744073709551616
    omega
  · intro x hx
    obtain ⟨i, _, rfl⟩ := hmem x hx
    intro cn σ h
    cases h
  · intro x hx
    obtain ⟨i, _, rfl⟩ := hmem x hx
    exact mapOK_nil _ hnn
  · intro e he
    simp only [Cluster.init, List.mem_flatMap, List.mem_filterMap, List.mem_map] at he
    obtain ⟨a, _, b, _, h⟩ := he
    split at h
    · cases h
    · cases h; exact linkOK_empty _ true
  · intro x hx
    obtain ⟨i, _, rfl⟩ := hmem x hx
    intro cn σ _ _
    show has [] _ = true ↔ (cn, σ) ∈ []
    rw [has_nil]
    simp

theorem has_tget_ne (m : Map) (k : Bytes) (h : has m k = true) : tget m k ≠ (0, 0) := by
  intro h0
  unfold has at h
  rw [isAdded_iff] at h
  unfold tget at h0
  simp only [Prod.mk.injEq] at h0
  exact h.1 h0.1

/-- what the invariant says about active entries -/
theorem oinv_active (c : Cluster) (hc : OInv c) (a : Broker) (ha : a ∈ c.brokers) (p : PeerName) (σ : Ssid)
    (h : 0 < cnt a.state p σ) :
    ∃ y ∈ c.brokers, y.self = p ∧ ∃ cn, cn < 18446744073709551616 ∧ σ ≠ [] ∧ has a.state (encKey p cn σ) = true := by
  rw [cnt_pos_iff_has a.state (hc.states a ha).nodup] at h
  obtain ⟨k, hk, hki⟩ := h
  obtain ⟨q, hq, cn, σ', hcn, hσ', rfl⟩ := (hc.states a ha).keys k (has_tget_ne _ _ hk)
  unfold bnames at hq
  rw [List.mem_map] at hq
  obtain ⟨y, hy, rfl⟩ := hq
  obtain ⟨h1, h2⟩ := keyIs_encKey_ssid y.self (hc.range y hy) cn σ' hσ' p σ hki
  subst h1; subst h2
  exact ⟨y, hy, rfl, cn, hcn, hσ', hk⟩

theorem oinv_ownTruth (c : Cluster) (hc : OInv c) (x : Broker) (hx : x ∈ c.brokers) : OwnTruth x := by
  intro σ
  constructor
  · intro h
    obtain ⟨_, _, _, cn, hcn, hσ, hk⟩ := oinv_active c hc x hx x.self σ h
    exact ⟨cn, (hc.truth x hx cn σ hcn hσ).1 hk⟩
  · rintro ⟨cn, h⟩
    obtain ⟨hcn, hσ⟩ := hc.locals x hx cn σ h
    rw [cnt_pos_iff_has x.state (hc.states x hx).nodup]
    exact ⟨encKey x.self cn σ, (hc.truth x hx cn σ hcn hσ).2 h, keyIs_encKey_self x.self (hc.range x hx) cn σ hσ⟩

/-- On every schedule of well-formed events that raises NO flag (in particular the clock readings
of two operations on one (connection, channel) advance, and no peer holding entries is
garbage-collected): every broker's own entries are active exactly for its live local
subscriptions, and every active entry anywhere belongs to a broker of the cluster. -/
theorem own_truth_run (mode : Trie.Mode) (n : Nat) (hn : n < 18446744073709551615) (evs : List Ev)
    (hok : ∀ e ∈ evs, e.ok) (hf : ((Cluster.init mode n).run evs).2 = []) :
    (∀ x ∈ ((Cluster.init mode n).run evs).1.brokers, OwnTruth x) ∧
    (∀ a ∈ ((Cluster.init mode n).run evs).1.brokers, ∀ p σ, 0 < cnt a.state p σ →
      ∃ y ∈ ((Cluster.init mode n).run evs).1.brokers, y.self = p) := by
  have hO : OInv ((Cluster.init mode n).run evs).1 :=
    oinv_run_aux evs (Cluster.init mode n, []) (oinv_init mode n hn) hok hf
  constructor
  · exact fun x hx => oinv_ownTruth _ hO x hx
  · intro a ha p σ h
    obtain ⟨y, hy, hs, _⟩ := oinv_active _ hO a ha p σ h
    exact ⟨y, hy, hs⟩

end Emitter.Cluster
