/-
  Proofs for C13, second sentence: the sender with the payload wrapper of the repaired swarm.go (`implUnion`)
  satisfies `SenderUnion` for all call sequences; the unrepaired `State.Merge` (`implDelta`) does not.
-/
import Emitter.Spec.SenderUnion

namespace Emitter.Gossip
open Emitter Emitter.Lww

/-! ### joins -/

theorem tmax_mono {a a' b b' : Int × Int} (h1 : tle a a') (h2 : tle b b') : tle (tmax a b) (tmax a' b') := by
  unfold tle tmax at *; simp only; omega

theorem le_joinT (ds : List Map) (u : Map) (hu : u ∈ ds) (k : Bytes) : tle (tget u k) (joinT ds k) := by
  rw [joinT_eq]
  have h1 := (joinFrom_fst_le_iff (0, 0) ds k (joinFrom (0, 0) ds k).1).1 (Int.le_refl _)
  have h2 := (joinFrom_snd_le_iff (0, 0) ds k (joinFrom (0, 0) ds k).2).1 (Int.le_refl _)
  exact ⟨h1.2 u hu, h2.2 u hu⟩

theorem joinT_le (ds : List Map) (k : Bytes) (B : Int × Int) (h0 : tle (0, 0) B) (h : ∀ u ∈ ds, tle (tget u k) B) :
    tle (joinT ds k) B := by
  rw [joinT_eq]
  constructor
  · rw [joinFrom_fst_le_iff]; exact ⟨h0.1, fun u hu => (h u hu).1⟩
  · rw [joinFrom_snd_le_iff]; exact ⟨h0.2, fun u hu => (h u hu).2⟩

theorem sjoin_nonneg (vs : List State) (i : SetId) (k : Bytes) : tle (0, 0) (sjoin vs i k) := by
  have := joinT_nonneg (vs.map (·.sel i)) k
  exact ⟨this.1, this.2⟩

theorem sjoin_mono_map {α : Type} (q : List α) (f g : α → State) (i : SetId) (k : Bytes)
    (h : ∀ e ∈ q, tle (tget ((f e).sel i) k) (tget ((g e).sel i) k)) :
    tle (sjoin (q.map f) i k) (sjoin (q.map g) i k) := by
  unfold sjoin
  apply joinT_le _ _ _ (sjoin_nonneg (q.map g) i k)
  intro u hu
  simp only [List.map_map, List.mem_map, Function.comp] at hu
  obtain ⟨e, he, rfl⟩ := hu
  apply tle_trans (h e he)
  apply le_joinT
  simp only [List.map_map, List.mem_map, Function.comp]
  exact ⟨e, he, rfl⟩

theorem sjoin_append_single (vs : List State) (v : State) (i : SetId) (k : Bytes) (hv : NonNeg (v.sel i)) :
    sjoin (vs ++ [v]) i k = tmax (sjoin vs i k) (tget (v.sel i) k) := by
  unfold sjoin
  rw [List.map_append, joinT_append, List.map_cons, List.map_nil, joinT_singleton, tmax_zero_left _ (hv k)]

theorem sjoin_single (v : State) (i : SetId) (k : Bytes) (hv : NonNeg (v.sel i)) : sjoin [v] i k = tget (v.sel i) k := by
  unfold sjoin
  rw [List.map_cons, List.map_nil, joinT_singleton, tmax_zero_left _ (hv k)]

/-! ### heap -/

theorem stateOk_curValue (h : Heap) (hh : HeapOk h) (r : Ref) : StateOk (curValue h r) := by
  unfold curValue
  cases hr : h[r]? with
  | none => exact stateOk_empty
  | some O => exact hh O (List.mem_of_getElem? hr)

theorem curValue_of_get (h : Heap) (r : Ref) (O : Obj) (hr : h[r]? = some O) : curValue h r = O.st := by
  unfold curValue; rw [hr]; rfl

theorem curValue_set (h : Heap) (r r' : Ref) (O : Obj) (v : State) (hr : h[r]? = some O) :
    curValue (h.set r { O with st := v }) r' = if r' = r then v else curValue h r' := by
  unfold curValue
  rw [List.getElem?_set]
  by_cases e : r = r'
  · subst e
    have hlt : r < h.length := by
      have := List.getElem?_eq_some_iff.1 hr
      exact this.1
    simp [hlt]
  · have e' : ¬ r' = r := fun x => e x.symm
    simp [e, e']

theorem heapOk_set (h : Heap) (hh : HeapOk h) (r : Ref) (O : Obj) (hO : StateOk O.st) : HeapOk (h.set r O) := by
  intro o ho
  rcases List.mem_or_eq_of_mem_set ho with h1 | h1
  · exact hh o h1
  · rw [h1]; exact hO

/-! ### the invariant -/

/-- every queue record: the snapshot satisfies the invariants and is below the object's present value -/
def QOk (h : Heap) (q : List (Ref × State)) : Prop :=
  ∀ e ∈ q, StateOk e.2 ∧ ∀ i k, tle (tget (e.2.sel i) k) (tget ((curValue h e.1).sel i) k)

/-- what a bucket holds, against its queue record -/
def BucketInv (h : Heap) : Option (Option Pay) → List (Ref × State) → Prop
  | none, q => q = []
  | some none, _ => False
  | some (some (.ref r)), q => (∃ O, h[r]? = some O) ∧ ∃ v0, q = [(r, v0)]
  | some (some (.own s)), q => q ≠ [] ∧ StateOk s ∧ ∀ i k,
      tle (sjoin (q.map (·.2)) i k) (tget (s.sel i) k) ∧
      tle (tget (s.sel i) k) (sjoin (q.map fun e => curValue h e.1) i k)

def Inv (w : World Pay) : Prop :=
  HeapOk w.heap ∧ ∀ l b, QOk w.heap ((w.links l).ghost b) ∧ BucketInv w.heap ((w.links l).bk b) ((w.links l).ghost b)

/-- a pending payload reads as a state within the two bounds -/
theorem bucket_good (h : Heap) (hh : HeapOk h) (d : Pay) (q : List (Ref × State)) (hq : QOk h q)
    (hb : BucketInv h (some (some d)) q) :
    q ≠ [] ∧ ∃ x, d.read h = some x ∧ StateOk x ∧ ∀ i k,
      tle (sjoin (q.map (·.2)) i k) (tget (x.sel i) k) ∧
      tle (tget (x.sel i) k) (sjoin (q.map fun e => curValue h e.1) i k) := by
  cases d with
  | own s => exact ⟨hb.1, s, rfl, hb.2.1, hb.2.2⟩
  | ref r =>
    obtain ⟨⟨O, hO⟩, v0, rfl⟩ := hb
    refine ⟨by simp, O.st, by simp [Pay.read, hO], hh O (List.mem_of_getElem? hO), fun i k => ?_⟩
    have h1 := hq (r, v0) List.mem_cons_self
    have hc := curValue_of_get h r O hO
    simp only [List.map_cons, List.map_nil]
    rw [sjoin_single _ _ _ (h1.1 i).1, sjoin_single _ _ _ ((stateOk_curValue h hh r) i).1, hc]
    have := h1.2 i k
    rw [hc] at this
    exact ⟨this, tle_refl _⟩

theorem good_of_bucket (h : Heap) (hh : HeapOk h) (d : Pay) (q : List (Ref × State)) (hq : QOk h q)
    (hb : BucketInv h (some (some d)) q) : GoodEmission (d.read h) q h := by
  obtain ⟨_, x, hx, _, hbd⟩ := bucket_good h hh d q hq hb
  exact ⟨x, hx, hbd⟩

theorem inv_init (h : Heap) (hh : HeapOk h) : Inv { heap := h } := by
  refine ⟨hh, fun l b => ⟨?_, rfl⟩⟩
  intro e he
  exact absurd he List.not_mem_nil

theorem fupd_same {α β : Type} [DecidableEq α] (f : α → β) (a : α) (v : β) : fupd f a v a = v := by
  unfold fupd; rw [if_pos rfl]
theorem fupd_other {α β : Type} [DecidableEq α] (f : α → β) (a a' : α) (v : β) (h : a' ≠ a) : fupd f a v a' = f a' := by
  unfold fupd; rw [if_neg h]

/-- replacing bucket `b` of link `l` (content `c`, record `q`) keeps the invariant when the new pair fits -/
theorem inv_update (w : World Pay) (hw : Inv w) (l : Nat) (b : Bucket) (c : Option (Option Pay)) (q : List (Ref × State))
    (hq : QOk w.heap q) (hb : BucketInv w.heap c q) :
    Inv { w with links := fupd w.links l { bk := fupd (w.links l).bk b c, ghost := fupd (w.links l).ghost b q } } := by
  refine ⟨hw.1, fun l' b' => ?_⟩
  by_cases hl : l' = l
  · subst hl
    simp only [fupd_same]
    by_cases hb' : b' = b
    · subst hb'
      simp only [fupd_same]
      exact ⟨hq, hb⟩
    · simp only [fupd_other _ _ _ _ hb']
      exact hw.2 l' b'
  · simp only [fupd_other _ _ _ _ hl]
    exact hw.2 l' b'

theorem qok_append (h : Heap) (hh : HeapOk h) (q : List (Ref × State)) (hq : QOk h q) (r : Ref) (O : Obj) (hO : h[r]? = some O) :
    QOk h (q ++ [(r, O.st)]) := by
  intro e he
  rw [List.mem_append, List.mem_singleton] at he
  rcases he with he | he
  · exact hq e he
  · subst he
    refine ⟨hh O (List.mem_of_getElem? hO), fun i k => ?_⟩
    simp only
    rw [curValue_of_get h r O hO]
    exact tle_refl _

/-- `Send` / `Broadcast` keep the invariant, change no object and never fail -/
theorem put_inv (w : World Pay) (hw : Inv w) (l : Nat) (b : Bucket) (r : Ref) :
    Inv (put implUnion w l b r).1 ∧ (put implUnion w l b r).2 = [] := by
  unfold put
  cases hO : w.heap[r]? with
  | none => exact ⟨hw, rfl⟩
  | some O =>
    simp only
    have hq := (hw.2 l b).1
    have hb := (hw.2 l b).2
    have hq' := qok_append w.heap hw.1 _ hq r O hO
    cases hc : (w.links l).bk b with
    | none =>
      simp only
      rw [hc] at hb
      have hq0 : (w.links l).ghost b = [] := hb
      refine ⟨inv_update w hw l b _ _ hq' ?_, trivial⟩
      rw [hq0]
      exact ⟨⟨O, hO⟩, O.st, rfl⟩
    | some c =>
      cases c with
      | none => rw [hc] at hb; exact absurd hb (by simp [BucketInv])
      | some p =>
        rw [hc] at hb
        obtain ⟨hne, a, ha, haok, hbd⟩ := bucket_good w.heap hw.1 p _ hq hb
        have hread : (Pay.ref r).read w.heap = some O.st := by simp [Pay.read, hO]
        have hm : implUnion.merge w.heap p (implUnion.wrap r) = .ok (w.heap, some (.own (a.merge O.st).1)) := by
          show mergeUnion w.heap p (.ref r) = _
          unfold mergeUnion
          rw [ha, hread]
        simp only [hm]
        have hstored : (if b.isNone && (some (Pay.own (a.merge O.st).1)).isNone then none
            else some (some (Pay.own (a.merge O.st).1))) = some (some (Pay.own (a.merge O.st).1)) := by
          simp
        rw [hstored]
        have hOok := hw.1 O (List.mem_of_getElem? hO)
        refine ⟨?_, trivial⟩
        have := inv_update w hw l b (some (some (Pay.own (a.merge O.st).1))) _ hq' ?_
        · exact this
        · refine ⟨by simp, stateOk_merge a O.st haok, fun i k => ?_⟩
          rw [state_tget_merge a O.st haok (fun i => (hOok i).2) i k]
          simp only [List.map_append, List.map_cons, List.map_nil]
          rw [sjoin_append_single _ _ _ _ (hOok i).1, sjoin_append_single _ _ _ _ ((stateOk_curValue w.heap hw.1 r) i).1,
            curValue_of_get w.heap r O hO]
          exact ⟨tmax_mono (hbd i k).1 (tle_refl _), tmax_mono (hbd i k).2 (tle_refl _)⟩

/-- `pick` keeps the invariant and what it emits is good -/
theorem pick_inv (w : World Pay) (hw : Inv w) (l : Nat) (b : Bucket) :
    Inv (pick implUnion w l b).1 ∧ ∀ e ∈ (pick implUnion w l b).2, GoodEvent e := by
  unfold pick
  simp only
  split
  · cases hc : (w.links l).bk b with
    | none => exact ⟨hw, fun e he => absurd he List.not_mem_nil⟩
    | some c =>
      simp only
      have hq := (hw.2 l b).1
      have hb := (hw.2 l b).2
      rw [hc] at hb
      constructor
      · exact inv_update w hw l b none [] (fun e he => absurd he List.not_mem_nil) rfl
      · intro e he
        rw [List.mem_singleton] at he
        subst he
        cases c with
        | none => exact absurd hb (by simp [BucketInv])
        | some p => exact good_of_bucket w.heap hw.1 p _ hq hb
  · exact ⟨hw, fun e he => absurd he List.not_mem_nil⟩

theorem curValue_grow (w : World Pay) (r : Ref) (v : State) (r' : Ref) :
    curValue (grow w r v).heap r' = if r' = r ∧ (w.heap[r]?).isSome then v else curValue w.heap r' := by
  unfold grow
  cases hO : w.heap[r]? with
  | none => simp
  | some O =>
    simp only [Option.isSome_some, and_true]
    exact curValue_set w.heap r r' O v hO

/-- a change of the live state that only grows keeps the invariant -/
theorem grow_inv (w : World Pay) (hw : Inv w) (r : Ref) (v : State) (hc : CallOk w.heap (.grow r v)) : Inv (grow w r v) := by
  have hmono : ∀ r' i k, tle (tget ((curValue w.heap r').sel i) k) (tget ((curValue (grow w r v).heap r').sel i) k) := by
    intro r' i k
    rw [curValue_grow]
    split
    · rename_i h; rw [h.1]; exact hc.2 i k
    · exact tle_refl _
  have hlinks : (grow w r v).links = w.links := by
    unfold grow; split <;> rfl
  have hheap : HeapOk (grow w r v).heap := by
    unfold grow
    cases hO : w.heap[r]? with
    | none => exact hw.1
    | some O => exact heapOk_set w.heap hw.1 r _ hc.1
  refine ⟨hheap, fun l b => ?_⟩
  rw [hlinks]
  have hq := (hw.2 l b).1
  have hb := (hw.2 l b).2
  constructor
  · intro e he
    exact ⟨(hq e he).1, fun i k => tle_trans ((hq e he).2 i k) (hmono e.1 i k)⟩
  · cases hcb : (w.links l).bk b with
    | none => rw [hcb] at hb; exact hb
    | some c =>
      rw [hcb] at hb
      cases c with
      | none => exact hb
      | some p =>
        cases p with
        | ref r' =>
          obtain ⟨⟨O, hO⟩, v0, hv0⟩ := hb
          refine ⟨?_, v0, hv0⟩
          unfold grow
          cases hO' : w.heap[r]? with
          | none => exact ⟨O, hO⟩
          | some O' =>
            simp only
            rw [List.getElem?_set]
            by_cases e : r = r'
            · subst e
              have hlt : r < w.heap.length := (List.getElem?_eq_some_iff.1 hO).1
              simp [hlt]
            · simp [e, hO]
        | own s =>
          refine ⟨hb.1, hb.2.1, fun i k => ⟨(hb.2.2 i k).1, tle_trans (hb.2.2 i k).2 ?_⟩⟩
          exact sjoin_mono_map _ _ _ i k (fun e _ => hmono e.1 i k)

theorem step_inv (w : World Pay) (hw : Inv w) (c : Call) (hc : CallOk w.heap c) :
    Inv (step implUnion w c).1 ∧ ∀ e ∈ (step implUnion w c).2, GoodEvent e := by
  cases c with
  | put l b r =>
    have := put_inv w hw l b r
    exact ⟨this.1, fun e he => by rw [show (step implUnion w (.put l b r)).2 = (put implUnion w l b r).2 from rfl, this.2] at he; exact absurd he List.not_mem_nil⟩
  | pick l b => exact pick_inv w hw l b
  | grow r v => exact ⟨grow_inv w hw r v hc, fun e he => absurd he List.not_mem_nil⟩

theorem run_inv (cs : List Call) (w : World Pay) (hw : Inv w) (hc : CallsOk implUnion w cs) :
    Inv (run implUnion w cs).1 ∧ ∀ e ∈ (run implUnion w cs).2, GoodEvent e := by
  induction cs generalizing w with
  | nil => exact ⟨hw, fun e he => absurd he List.not_mem_nil⟩
  | cons c cs ih =>
    have h1 := step_inv w hw c hc.1
    have h2 := ih _ h1.1 hc.2
    refine ⟨h2.1, fun e he => ?_⟩
    have : (run implUnion w (c :: cs)).2 = (step implUnion w c).2 ++ (run implUnion (step implUnion w c).1 cs).2 := rfl
    rw [this, List.mem_append] at he
    rcases he with he | he
    · exact h1.2 e he
    · exact h2.2 e he

theorem pending_of_inv (w : World Pay) (hw : Inv w) : GoodPending implUnion w := by
  intro l b hne
  have hq := (hw.2 l b).1
  have hb := (hw.2 l b).2
  cases hc : (w.links l).bk b with
  | none => rw [hc] at hb; exact absurd hb hne
  | some c =>
    rw [hc] at hb
    cases c with
    | none => exact absurd hb (by simp [BucketInv])
    | some p => exact ⟨p, rfl, good_of_bucket w.heap hw.1 p _ hq hb⟩

theorem intact_union : Intact implUnion := by
  intro w l b r
  constructor
  · unfold put
    cases w.heap[r]? with
    | none => rfl
    | some O =>
      simp only
      cases (w.links l).bk b with
      | none => rfl
      | some c =>
        cases c with
        | none => rfl
        | some p =>
          simp only
          have hm : implUnion.merge w.heap p (implUnion.wrap r) = mergeUnion w.heap p (.ref r) := rfl
          rw [hm]
          unfold mergeUnion
          cases p.read w.heap <;> cases (Pay.ref r).read w.heap <;> rfl
  · unfold pick
    simp only
    split
    · cases (w.links l).bk b <;> rfl
    · rfl

/-- the sender with the repaired payload type: the full statement, for all call sequences -/
theorem sender_union_holds : SenderUnion implUnion := by
  refine ⟨fun h cs hh hc => ?_, intact_union⟩
  have := run_inv cs { heap := h } (inv_init h hh) hc
  exact ⟨this.2, pending_of_inv _ this.1⟩

/-- when the queued objects did not change while queued, the emission is exactly the join -/
theorem good_exact (sent : Option State) (q : List (Ref × State)) (h : Heap) (hg : GoodEmission sent q h)
    (hsame : ∀ e ∈ q, curValue h e.1 = e.2) :
    ∃ x, sent = some x ∧ ∀ i k, tget (x.sel i) k = sjoin (q.map (·.2)) i k := by
  obtain ⟨x, hx, hb⟩ := hg
  refine ⟨x, hx, fun i k => ?_⟩
  have hm : (q.map fun e => curValue h e.1) = q.map (·.2) := List.map_congr_left hsame
  have := hb i k
  rw [hm] at this
  exact tle_antisymm this.2 this.1

/-! ### the unrepaired tree: literal witnesses -/

def nonNegB (m : Map) : Bool := m.all fun e => decide (0 ≤ e.2.add) && decide (0 ≤ e.2.del)

theorem lookup_mem (m : Map) (k : Bytes) (v : Val) (h : List.lookup k m = some v) : (k, v) ∈ m := by
  induction m with
  | nil => simp at h
  | cons e m ih =>
    obtain ⟨a, b⟩ := e
    rw [lookup_cons_eq] at h
    by_cases hk : k = a
    · subst hk; rw [if_pos rfl] at h; rw [Option.some.inj h]; exact List.mem_cons_self
    · rw [if_neg hk] at h; exact List.mem_cons_of_mem _ (ih h)

theorem nonNeg_of_nonNegB (m : Map) (h : nonNegB m = true) : NonNeg m := by
  intro k
  unfold Lww.get
  cases hl : List.lookup k m with
  | none => simp [Val.zero]
  | some v =>
    have := List.all_eq_true.1 h _ (lookup_mem m k v hl)
    simpa using this

instance (m : Map) : Decidable (NoDup m) := by unfold NoDup; infer_instance

def stateOkB (s : State) : Bool :=
  [SetId.sub, SetId.ban, SetId.conn].all fun i => nonNegB (s.sel i) && decide (NoDup (s.sel i))

theorem stateOk_of_stateOkB (s : State) (h : stateOkB s = true) : StateOk s := by
  intro i
  have := List.all_eq_true.1 h i (by cases i <;> simp)
  simp only [Bool.and_eq_true, decide_eq_true_eq] at this
  exact ⟨nonNeg_of_nonNegB _ this.1, this.2⟩

theorem heapOk_of_all (h : Heap) (hb : h.all (fun o => stateOkB o.st) = true) : HeapOk h :=
  fun o ho => stateOk_of_stateOkB _ (List.all_eq_true.1 hb o ho)

instance (a b : Int × Int) : Decidable (tle a b) := by unfold tle; infer_instance

def k1 : Bytes := [0x6b, 0x31]
def k2 : Bytes := [0x6b, 0x32]
/-- two one-operation payloads, as two `Notify` calls produce them -/
def opA : Obj := { st := { ban := [(k1, ⟨5, 0, []⟩)] } }
def opB : Obj := { st := { ban := [(k2, ⟨5, 0, []⟩)] } }
/-- the live state of a broker: durable -/
def liveA : Obj := { st := { ban := [(k1, ⟨5, 0, []⟩)] }, durable := true }

/-- two different operations broadcast over one link before it sends: only the second one is sent -/
def lostUpdate : List Call := [.put 0 (some 1) 0, .put 0 (some 1) 1, .pick 0 (some 1)]

theorem lostUpdate_emits :
    (run implDelta { heap := [opA, opB] } lostUpdate).2 =
      [.emitted 0 (some 1) (some opB.st) [(0, opA.st), (1, opB.st)]
        [{ st := { ban := [(k2, ⟨5, 0, []⟩), (k1, ⟨5, 0, []⟩)] } }, opB]] := by
  rfl

theorem heapOk_AB : HeapOk [opA, opB] := heapOk_of_all _ (by decide)
theorem heapOk_liveB : HeapOk [liveA, opB] := heapOk_of_all _ (by decide)

theorem callsOk_lostUpdate : CallsOk implDelta { heap := [opA, opB] } lostUpdate :=
  ⟨trivial, trivial, trivial, trivial⟩

/-- the full statement is false of the unrepaired code: the first of two queued operations is lost -/
theorem sender_union_delta_refuted : ¬ SenderUnion implDelta := by
  intro h
  have h1 := (h.1 [opA, opB] lostUpdate heapOk_AB callsOk_lostUpdate).1
  rw [lostUpdate_emits] at h1
  obtain ⟨x, hx, hb⟩ := h1 _ List.mem_cons_self
  cases hx
  have := (hb .ban k1).1
  revert this
  decide

/-- the same update queued twice (two objects): `Merge` returns nil, the bucket becomes empty, nothing is pending -/
def duplicate : List Call := [.put 0 none 0, .put 0 none 1]

theorem duplicate_drops_queue : ¬ GoodPending implDelta (run implDelta { heap := [opA, opA] } duplicate).1 := by
  intro h
  have hg : ((run implDelta { heap := [opA, opA] } duplicate).1.links 0).ghost none = [(0, opA.st), (1, opA.st)] := rfl
  obtain ⟨d, hd, _⟩ := h 0 none (by rw [hg]; simp)
  have hb : ((run implDelta { heap := [opA, opA] } duplicate).1.links 0).bk none = none := rfl
  rw [hb] at hd
  cases hd

/-- one object on two links: the merge on the first link rewrites the object the second link still holds -/
theorem shared_object_rewritten : ¬ Intact implDelta := by
  intro h
  have := (h (run implDelta { heap := [opA, opB] } [.put 0 (some 1) 0, .put 1 (some 1) 0]).1 0 (some 1) 1).1
  have := congrArg (fun hp => (curValue hp 0).ban) this
  revert this
  decide

/-- a delta is pending and the periodic gossip queues the live (durable) state: failed type assertion -/
theorem live_state_panics :
    (run implDelta { heap := [liveA, opB] } [.put 0 none 1, .put 0 none 0]).2 = [.panicked 0 none] := rfl

/-- the full state is pending and a delta arrives: it is merged into the live state (where it already is), `Merge`
returns nil and the queued full-state gossip is gone -/
theorem live_state_dropped :
    ((run implDelta { heap := [{ liveA with st := { ban := [(k1, ⟨5, 0, []⟩), (k2, ⟨5, 0, []⟩)] } }, opB] }
        [.put 0 none 0, .put 0 none 1]).1.links 0).bk none = none := rfl

/-- the same object twice on one bucket: one mutex locked twice -/
theorem repeat_deadlocks :
    (run implDelta { heap := [opA] } [.put 0 (some 1) 0, .put 0 (some 1) 0]).2 = [.hung 0 (some 1)] := rfl

/-- a nil interface left in `broadcasts[src]` by a nil `Merge` result: the next `Broadcast` for that source panics,
and `pick` hands nil to the deliver loop -/
theorem nil_entry_panics :
    (run implDelta { heap := [opA, opA, opB] } [.put 0 (some 1) 0, .put 0 (some 1) 1, .put 0 (some 1) 2]).2 = [.panicked 0 (some 1)] ∧
    (run implDelta { heap := [opA, opA] } [.put 0 (some 1) 0, .put 0 (some 1) 1, .pick 0 (some 1)]).2 =
      [.emitted 0 (some 1) none [(0, opA.st), (1, opA.st)] [opA, { st := {} }]] := ⟨rfl, rfl⟩

/-- the same histories on the repaired payload type -/
example : ∃ x, (run implUnion { heap := [opA, opB] } lostUpdate).2 = [.emitted 0 (some 1) (some x) [(0, opA.st), (1, opB.st)] [opA, opB]] ∧
    tget x.ban k1 = (5, 0) ∧ tget x.ban k2 = (5, 0) := ⟨_, rfl, by decide, by decide⟩

end Emitter.Gossip
