/-
  C05 — lemma library, part 1: the subscription key codec, peer counters, the memberlist,
  and counting the active entries of a (peer, ssid) in an LWW map through `set` and `merge`.
-/
import Emitter.Model.Cluster
import Emitter.Lemmas.Lww

namespace Emitter.Cluster
open Emitter Emitter.Lww

/-! ## key codec -/

theorem rdNat_be64 (n : Nat) : rdNat (be64 n) = n % 18446744073709551616 := by
  sorry

theorem rdWords_ssidBytes (σ : Ssid) : rdWords (ssidBytes σ) = σ := by
  sorry

theorem length_ssidBytes (σ : Ssid) : (ssidBytes σ).length = 4 * σ.length := by
  sorry

/-- `decodeSubscription(Key())` is the identity on (peer, conn, ssid) for 64-bit names and a
non-empty ssid -/
theorem decKey_encKey (p : PeerName) (c : ConnId) (σ : Ssid) (hσ : σ ≠ []) :
    decKey (encKey p c σ) = some ⟨p % 18446744073709551616, c % 18446744073709551616, σ⟩ := by
  sorry

theorem decKey_encKey_nil (p : PeerName) (c : ConnId) : decKey (encKey p c []) = none := by
  sorry

/-- a key built by broker `self` never counts for another peer -/
theorem keyIs_encKey (self : PeerName) (hself : self < 18446744073709551616) (c : ConnId) (σ : Ssid)
    (p : PeerName) (σ' : Ssid) (h : keyIs (encKey self c σ) p σ' = true) : p = self := by
  sorry

theorem keyPeer_encKey (self : PeerName) (hself : self < 18446744073709551616) (c : ConnId) (σ : Ssid)
    (p : PeerName) (h : keyPeer (encKey self c σ) p = true) : p = self := by
  sorry

/-! ## counters -/

/-- every stored counter is at least 1 (a counter that reaches 0 is removed) -/
def CWF (cs : Counters) : Prop := ∀ σ n, cs.lookup σ = some n → 1 ≤ n

theorem cwf_nil : CWF [] := by
  sorry

theorem cget_nil (σ : Ssid) : cget [] σ = 0 := rfl

theorem cget_cset (cs : Counters) (σ : Ssid) (n : Nat) (σ' : Ssid) :
    cget (cset cs σ n) σ' = if σ' = σ then n else cget cs σ' := by
  sorry

theorem cget_cdel (cs : Counters) (σ σ' : Ssid) :
    cget (cdel cs σ) σ' = if σ' = σ then 0 else cget cs σ' := by
  sorry

theorem cwf_cset (cs : Counters) (σ : Ssid) (n : Nat) (h : CWF cs) (hn : 1 ≤ n) : CWF (cset cs σ n) := by
  sorry

theorem cwf_cdel (cs : Counters) (σ : Ssid) (h : CWF cs) : CWF (cdel cs σ) := by
  sorry

/-- `Increment` -/
theorem cget_cinc (cs : Counters) (σ σ' : Ssid) :
    cget (cinc cs σ).1 σ' = if σ' = σ then cget cs σ + 1 else cget cs σ' := by
  sorry
theorem cinc_first (cs : Counters) (σ : Ssid) : (cinc cs σ).2 = (cget cs σ == 0) := rfl
theorem cwf_cinc (cs : Counters) (σ : Ssid) (h : CWF cs) : CWF (cinc cs σ).1 := by
  sorry

/-- `Decrement`: the predecessor (a missing counter stays missing), "last" iff it was 1 -/
theorem cget_cdec (cs : Counters) (σ σ' : Ssid) (h : CWF cs) :
    cget (cdec cs σ).1 σ' = if σ' = σ then cget cs σ - 1 else cget cs σ' := by
  sorry
theorem cdec_last (cs : Counters) (σ : Ssid) (h : CWF cs) : (cdec cs σ).2 = (cget cs σ == 1) := by
  sorry
theorem cwf_cdec (cs : Counters) (σ : Ssid) (h : CWF cs) : CWF (cdec cs σ).1 := by
  sorry

/-! ## memberlist -/

theorem mget_mset (ms : Members) (p q : PeerName) (r : PeerRec) :
    mget (mset ms p r) q = if q = p then (mget ms p).map (fun _ => r) else mget ms q := by
  sorry

theorem mget_append_new (ms : Members) (p q : PeerName) (r : PeerRec) (h : mget ms p = none) :
    mget (ms ++ [(p, r)]) q = if q = p then some r else mget ms q := by
  sorry

theorem mget_filter_ne (ms : Members) (p q : PeerName) :
    mget (ms.filter (fun e => e.1 != p)) q = if q = p then none else mget ms q := by
  sorry

/-! ## routes -/

theorem hasRoute_iff (rs : List Route) (σ : Ssid) (p : PeerName) :
    hasRoute rs σ p = true ↔ ∃ g, (σ, p, g) ∈ rs := by
  sorry

theorem mem_routeAdd (rs : List Route) (σ : Ssid) (p : PeerName) (g : Nat) (x : Route) :
    x ∈ routeAdd rs σ p g ↔ x ∈ rs ∨ (x = (σ, p, g) ∧ hasRoute rs σ p = false) := by
  sorry

theorem mem_routeDel (rs : List Route) (σ : Ssid) (p : PeerName) (x : Route) :
    x ∈ routeDel rs σ p ↔ x ∈ rs ∧ ¬ (x.1 = σ ∧ x.2.1 = p) := by
  sorry

/-! ## counting active entries -/

/-- the active entries of (p, σ): the entry of `k` apart from the others (`NoDup`) -/
theorem cnt_split (s : Map) (hs : NoDup s) (k : Bytes) (p : PeerName) (σ : Ssid) :
    cnt s p σ = (if has s k && keyIs k p σ then 1 else 0) + cnt (s.filter (fun e => e.1 != k)) p σ := by
  sorry

/-- writing one key changes the count by that key's contribution only (additive form) -/
theorem cnt_set (s : Map) (hs : NoDup s) (k : Bytes) (v : Val) (p : PeerName) (σ : Ssid) :
    cnt (set s k v) p σ + (if has s k && keyIs k p σ then 1 else 0) =
      cnt s p σ + (if v.isAdded && keyIs k p σ then 1 else 0) := by
  sorry

theorem cnt_pos_iff (s : Map) (p : PeerName) (σ : Ssid) :
    0 < cnt s p σ ↔ ∃ k v, (k, v) ∈ s ∧ v.isAdded = true ∧ keyIs k p σ = true := by
  sorry

/-- with `NoDup`, membership of an active entry is `has` -/
theorem cnt_pos_iff_has (s : Map) (hs : NoDup s) (p : PeerName) (σ : Ssid) :
    0 < cnt s p σ ↔ ∃ k, has s k = true ∧ keyIs k p σ = true := by
  sorry

theorem cnt_nil (p : PeerName) (σ : Ssid) : cnt [] p σ = 0 := rfl

/-- `activeOf` lists exactly the active entries of the peer -/
theorem mem_activeOf (s : Map) (p : PeerName) (c : ConnId) (σ : Ssid) :
    (c, σ) ∈ activeOf s p ↔ ∃ k v, (k, v) ∈ s ∧ v.isAdded = true ∧ decKey k = some ⟨p, c, σ⟩ := by
  sorry

theorem cnt_zero_of_activeOf_nil (s : Map) (p : PeerName) (h : activeOf s p = []) (σ : Ssid) : cnt s p σ = 0 := by
  sorry

/-- transitions of a walk: entries of (p, σ) in `ks` that became active / inactive -/
def dplus (bf af : Bytes → Bool) (ks : List Bytes) (p : PeerName) (σ : Ssid) : Nat :=
  (ks.filter (fun k => keyIs k p σ && !bf k && af k)).length
def dminus (bf af : Bytes → Bool) (ks : List Bytes) (p : PeerName) (σ : Ssid) : Nat :=
  (ks.filter (fun k => keyIs k p σ && bf k && !af k)).length

theorem dplus_perm (bf af : Bytes → Bool) (ks ks' : List Bytes) (h : ks.Perm ks') (p : PeerName) (σ : Ssid) :
    dplus bf af ks p σ = dplus bf af ks' p σ := by
  sorry
theorem dminus_perm (bf af : Bytes → Bool) (ks ks' : List Bytes) (h : ks.Perm ks') (p : PeerName) (σ : Ssid) :
    dminus bf af ks p σ = dminus bf af ks' p σ := by
  sorry

/-- entries that were active and are walked are distinct active entries of the old state -/
theorem dminus_le_cnt (s : Map) (hs : NoDup s) (af : Bytes → Bool) (ks : List Bytes) (hk : ks.Nodup)
    (p : PeerName) (σ : Ssid) : dminus (has s) af ks p σ ≤ cnt s p σ := by
  sorry

/-- the delta's keys do not repeat and a key outside the delta keeps its activity -/
theorem delta_keys_nodup (s r : Map) (hr : NoDup r) : ((merge s r).2.map Prod.fst).Nodup := delta_nodup s r hr

theorem has_merge_of_not_delta (s r : Map) (hs : NonNeg s) (hr : NoDup r) (k : Bytes)
    (h : k ∉ (merge s r).2.map Prod.fst) : has (merge s r).1 k = has s k := by
  sorry

/-- `Merge` changes the number of active entries of (p, σ) by exactly the transitions among the
entries of its delta -/
theorem cnt_merge (s r : Map) (hs : NoDup s) (hn : NonNeg s) (hr : NoDup r) (p : PeerName) (σ : Ssid) :
    cnt (merge s r).1 p σ + dminus (has s) (has (merge s r).1) ((merge s r).2.map Prod.fst) p σ =
      cnt s p σ + dplus (has s) (has (merge s r).1) ((merge s r).2.map Prod.fst) p σ := by
  sorry

end Emitter.Cluster
