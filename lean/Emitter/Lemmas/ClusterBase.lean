/-
  C05 — lemma library, part 1: the subscription key codec, peer counters, the memberlist,
  and counting the active entries of a (peer, ssid) in an LWW map through `set` and `merge`.
-/
import Emitter.Model.Cluster
import Emitter.Lemmas.Lww

namespace Emitter.Cluster
open Emitter Emitter.Lww

/-! ## key codec -/

theorem rdNat_be64 (n : Nat) : rdNat (be64 n) = n % 18446744073709551616 := by
  unfold rdNat be64
  simp only [List.foldl_cons, List.foldl_nil, UInt8.toNat_ofNat']
  omega

theorem rdWords_ssidBytes (σ : Ssid) : rdWords (ssidBytes σ) = σ := by
  induction σ with
  | nil => rfl
  | cons w ws ih =>
    show rdWords (putBe32 w ++ ssidBytes ws) = w :: ws
    unfold putBe32
    simp only [List.cons_append, List.nil_append, rdWords, ih, be32_putBe32]

theorem length_ssidBytes (σ : Ssid) : (ssidBytes σ).length = 4 * σ.length := by
  induction σ with
  | nil => rfl
  | cons w ws ih =>
    show (putBe32 w ++ ssidBytes ws).length = _
    simp only [putBe32, List.cons_append, List.nil_append, List.length_cons, ih]
    omega

theorem encKey_take8 (p c : Nat) (σ : Ssid) : (encKey p c σ).take 8 = be64 p := rfl

theorem encKey_drop8_take8 (p c : Nat) (σ : Ssid) : ((encKey p c σ).drop 8).take 8 = be64 c := rfl

theorem encKey_drop16 (p c : Nat) (σ : Ssid) : (encKey p c σ).drop 16 = ssidBytes σ := rfl

theorem length_encKey (p c : Nat) (σ : Ssid) : (encKey p c σ).length = 16 + 4 * σ.length := by
  unfold encKey be64
  simp only [List.cons_append, List.nil_append, List.length_cons, length_ssidBytes]
  omega

/-- `decodeSubscription(Key())` is the identity on (peer, conn, ssid) for 64-bit names and a
non-empty ssid -/
theorem decKey_encKey (p : PeerName) (c : ConnId) (σ : Ssid) (hσ : σ ≠ []) :
    decKey (encKey p c σ) = some ⟨p % 18446744073709551616, c % 18446744073709551616, σ⟩ := by
  unfold decKey
  rw [encKey_take8, encKey_drop8_take8, encKey_drop16, length_encKey, rdWords_ssidBytes, rdNat_be64, rdNat_be64]
  have h1 : ¬ (16 + 4 * σ.length < 16) := by omega
  have h2 : σ.isEmpty = false := by cases σ with | nil => exact absurd rfl hσ | cons _ _ => rfl
  simp [h1, h2]

theorem decKey_encKey_nil (p : PeerName) (c : ConnId) : decKey (encKey p c []) = none := by
  unfold decKey
  rw [encKey_drop16, length_encKey]
  simp [ssidBytes, rdWords]

/-- a key built by broker `self` never counts for another peer -/
theorem keyIs_encKey (self : PeerName) (hself : self < 18446744073709551616) (c : ConnId) (σ : Ssid)
    (p : PeerName) (σ' : Ssid) (h : keyIs (encKey self c σ) p σ' = true) : p = self := by
  unfold keyIs at h
  by_cases hσ : σ = []
  · subst hσ; rw [decKey_encKey_nil] at h; exact absurd h (by simp)
  · rw [decKey_encKey _ _ _ hσ] at h
    simp only [Bool.and_eq_true, beq_iff_eq] at h
    have h1 : self % 18446744073709551616 = p := h.1
    rw [Nat.mod_eq_of_lt hself] at h1
    exact h1.symm

theorem keyPeer_encKey (self : PeerName) (hself : self < 18446744073709551616) (c : ConnId) (σ : Ssid)
    (p : PeerName) (h : keyPeer (encKey self c σ) p = true) : p = self := by
  unfold keyPeer at h
  by_cases hσ : σ = []
  · subst hσ; rw [decKey_encKey_nil] at h; exact absurd h (by simp)
  · rw [decKey_encKey _ _ _ hσ] at h
    simp only [beq_iff_eq] at h
    have h1 : self % 18446744073709551616 = p := h
    rw [Nat.mod_eq_of_lt hself] at h1
    exact h1.symm

/-! ## counters -/

theorem glookup_cons_eq {α β : Type} [BEq α] [LawfulBEq α] [DecidableEq α] (m : List (α × β)) (k k' : α) (v : β) :
    List.lookup k' ((k, v) :: m) = if k' = k then some v else List.lookup k' m := by
  rw [List.lookup_cons]
  by_cases h : k' = k
  · simp [h]
  · have : (k' == k) = false := by simpa using h
    simp [h, this]

theorem glookup_filter_ne {α β : Type} [BEq α] [LawfulBEq α] [DecidableEq α] (m : List (α × β)) (k k' : α) :
    List.lookup k' (m.filter (fun e => e.1 != k)) = if k' = k then none else List.lookup k' m := by
  induction m with
  | nil => simp
  | cons e m ih =>
    obtain ⟨a, b⟩ := e
    by_cases ha : a = k
    · subst ha
      rw [List.filter_cons_of_neg (by simp), ih, glookup_cons_eq]
      by_cases h : k' = a <;> simp [h]
    · rw [List.filter_cons_of_pos (by simpa using ha), glookup_cons_eq, glookup_cons_eq, ih]
      by_cases h : k' = a
      · subst h; simp [ha]
      · simp [h]

/-- every stored counter is at least 1 (a counter that reaches 0 is removed) -/
def CWF (cs : Counters) : Prop := ∀ σ n, cs.lookup σ = some n → 1 ≤ n

theorem cwf_nil : CWF [] := by
  intro σ n h
  simp at h

theorem cget_nil (σ : Ssid) : cget [] σ = 0 := rfl

theorem lookup_cset (cs : Counters) (σ : Ssid) (n : Nat) (σ' : Ssid) :
    (cset cs σ n).lookup σ' = if σ' = σ then some n else cs.lookup σ' := by
  unfold cset
  rw [glookup_cons_eq, glookup_filter_ne]
  by_cases h : σ' = σ <;> simp [h]

theorem lookup_cdel (cs : Counters) (σ σ' : Ssid) :
    (cdel cs σ).lookup σ' = if σ' = σ then none else cs.lookup σ' := by
  unfold cdel
  rw [glookup_filter_ne]

theorem cget_cset (cs : Counters) (σ : Ssid) (n : Nat) (σ' : Ssid) :
    cget (cset cs σ n) σ' = if σ' = σ then n else cget cs σ' := by
  unfold cget
  rw [lookup_cset]
  by_cases h : σ' = σ <;> simp [h]

theorem cget_cdel (cs : Counters) (σ σ' : Ssid) :
    cget (cdel cs σ) σ' = if σ' = σ then 0 else cget cs σ' := by
  unfold cget
  rw [lookup_cdel]
  by_cases h : σ' = σ <;> simp [h]

theorem cwf_cset (cs : Counters) (σ : Ssid) (n : Nat) (h : CWF cs) (hn : 1 ≤ n) : CWF (cset cs σ n) := by
  intro σ' m hm
  rw [lookup_cset] at hm
  by_cases hσ : σ' = σ
  · simp [hσ] at hm; omega
  · simp [hσ] at hm; exact h σ' m hm

theorem cwf_cdel (cs : Counters) (σ : Ssid) (h : CWF cs) : CWF (cdel cs σ) := by
  intro σ' m hm
  rw [lookup_cdel] at hm
  by_cases hσ : σ' = σ
  · simp [hσ] at hm
  · simp [hσ] at hm; exact h σ' m hm

/-- `Increment` -/
theorem cget_cinc (cs : Counters) (σ σ' : Ssid) :
    cget (cinc cs σ).1 σ' = if σ' = σ then cget cs σ + 1 else cget cs σ' := by
  unfold cinc
  exact cget_cset _ _ _ _
theorem cinc_first (cs : Counters) (σ : Ssid) : (cinc cs σ).2 = (cget cs σ == 0) := rfl
theorem cwf_cinc (cs : Counters) (σ : Ssid) (h : CWF cs) : CWF (cinc cs σ).1 := by
  unfold cinc
  exact cwf_cset _ _ _ h (by omega)

/-- `Decrement`: the predecessor (a missing counter stays missing), "last" iff it was 1 -/
theorem cget_cdec (cs : Counters) (σ σ' : Ssid) (h : CWF cs) :
    cget (cdec cs σ).1 σ' = if σ' = σ then cget cs σ - 1 else cget cs σ' := by
  unfold cdec
  cases hl : cs.lookup σ with
  | none =>
    simp only
    by_cases hσ : σ' = σ
    · subst hσ; simp [cget, hl]
    · simp [hσ]
  | some n =>
    simp only
    have hn := h σ n hl
    have hg : cget cs σ = n := by simp [cget, hl]
    split
    · rw [cget_cdel, hg]
      by_cases hσ : σ' = σ
      · simp [hσ]; omega
      · simp [hσ]
    · rw [cget_cset, hg]
theorem cdec_last (cs : Counters) (σ : Ssid) (h : CWF cs) : (cdec cs σ).2 = (cget cs σ == 1) := by
  unfold cdec
  cases hl : cs.lookup σ with
  | none => simp [cget, hl]
  | some n =>
    simp only
    have hn := h σ n hl
    have hg : cget cs σ = n := by simp [cget, hl]
    rw [hg]
    split
    · have : n = 1 := by omega
      simp [this]
    · have : ¬ n = 1 := by omega
      simp [this]
theorem cwf_cdec (cs : Counters) (σ : Ssid) (h : CWF cs) : CWF (cdec cs σ).1 := by
  unfold cdec
  cases hl : cs.lookup σ with
  | none => exact h
  | some n =>
    simp only
    split
    · exact cwf_cdel _ _ h
    · exact cwf_cset _ _ _ h (by omega)

/-! ## memberlist -/

theorem mget_mset (ms : Members) (p q : PeerName) (r : PeerRec) :
    mget (mset ms p r) q = if q = p then (mget ms p).map (fun _ => r) else mget ms q := by
  unfold mget mset
  induction ms with
  | nil => by_cases h : q = p <;> simp [h]
  | cons e ms ih =>
    obtain ⟨a, b⟩ := e
    rw [List.map_cons]
    by_cases ha : a = p
    · subst ha
      simp only [beq_self_eq_true, if_true]
      simp only [glookup_cons_eq]
      by_cases h : q = a
      · subst h; simp
      · simp only [h, if_false] at ih ⊢; exact ih
    · have : (a == p) = false := by simpa using ha
      simp only [this, Bool.false_eq_true, if_false, glookup_cons_eq, ih]
      by_cases h : q = p
      · subst h
        have h1 : ¬ q = a := fun h => ha h.symm
        simp [h1]
      · simp [h]

theorem mget_append_new (ms : Members) (p q : PeerName) (r : PeerRec) (h : mget ms p = none) :
    mget (ms ++ [(p, r)]) q = if q = p then some r else mget ms q := by
  unfold mget at *
  induction ms with
  | nil => rw [List.nil_append, glookup_cons_eq]
  | cons e ms ih =>
    obtain ⟨a, b⟩ := e
    rw [glookup_cons_eq] at h
    rw [List.cons_append]
    simp only [glookup_cons_eq]
    by_cases hpa : p = a
    · simp [hpa] at h
    · simp only [hpa, if_false] at h
      rw [ih h]
      by_cases hq : q = a
      · have h1 : ¬ a = p := fun h' => hpa h'.symm
        subst hq
        simp [h1]
      · simp [hq]

theorem mget_filter_ne (ms : Members) (p q : PeerName) :
    mget (ms.filter (fun e => e.1 != p)) q = if q = p then none else mget ms q := by
  unfold mget
  exact glookup_filter_ne ms p q

/-! ## routes -/

theorem hasRoute_iff (rs : List Route) (σ : Ssid) (p : PeerName) :
    hasRoute rs σ p = true ↔ ∃ g, (σ, p, g) ∈ rs := by
  unfold hasRoute
  rw [List.any_eq_true]
  constructor
  · rintro ⟨⟨a, b, g⟩, hm, hx⟩
    simp only [Bool.and_eq_true, beq_iff_eq] at hx
    obtain ⟨h1, h2⟩ := hx
    subst h1; subst h2
    exact ⟨g, hm⟩
  · rintro ⟨g, hm⟩
    exact ⟨(σ, p, g), hm, by simp⟩

theorem mem_routeAdd (rs : List Route) (σ : Ssid) (p : PeerName) (g : Nat) (x : Route) :
    x ∈ routeAdd rs σ p g ↔ x ∈ rs ∨ (x = (σ, p, g) ∧ hasRoute rs σ p = false) := by
  unfold routeAdd
  cases h : hasRoute rs σ p with
  | true => simp
  | false =>
    simp only [Bool.false_eq_true, if_false, List.mem_cons, and_true]
    exact Or.comm

theorem mem_routeDel (rs : List Route) (σ : Ssid) (p : PeerName) (x : Route) :
    x ∈ routeDel rs σ p ↔ x ∈ rs ∧ ¬ (x.1 = σ ∧ x.2.1 = p) := by
  unfold routeDel
  rw [List.mem_filter]
  simp only [Bool.not_eq_true', Bool.and_eq_false_iff, beq_eq_false_iff_ne, ne_eq]
  constructor
  · rintro ⟨h1, h2⟩
    refine ⟨h1, ?_⟩
    rintro ⟨a, b⟩
    rcases h2 with h | h
    · exact h a
    · exact h b
  · rintro ⟨h1, h2⟩
    refine ⟨h1, ?_⟩
    by_cases a : x.1 = σ
    · right; intro b; exact h2 ⟨a, b⟩
    · left; exact a

/-! ## counting active entries -/

theorem has_nil (k : Bytes) : has [] k = false := rfl

theorem has_cons (m : Map) (k k' : Bytes) (v : Val) :
    has ((k, v) :: m) k' = if k' = k then v.isAdded else has m k' := by
  unfold has; rw [get_cons]; split <;> rfl

theorem has_of_not_mem (m : Map) (k : Bytes) (h : k ∉ m.map Prod.fst) : has m k = false := by
  unfold has; rw [get_of_not_mem m k h]; rfl

theorem has_filter_ne (m : Map) (k k' : Bytes) (h : k' ≠ k) :
    has (m.filter (fun e => e.1 != k)) k' = has m k' := by
  unfold has Lww.get; rw [lookup_filter_ne, if_neg h]

theorem has_set (m : Map) (k k' : Bytes) (v : Val) :
    has (set m k v) k' = if k' = k then v.isAdded else has m k' := by
  unfold has; rw [get_set]; split <;> rfl

theorem filter_ne_of_not_mem (s : Map) (k : Bytes) (h : k ∉ s.map Prod.fst) :
    s.filter (fun e => e.1 != k) = s := by
  rw [List.filter_eq_self]
  intro e he
  simp only [bne_iff_ne, ne_eq]
  intro hk; exact h (List.mem_map.2 ⟨e, he, hk⟩)

theorem cnt_cons (e : Bytes × Val) (s : Map) (p : PeerName) (σ : Ssid) :
    cnt (e :: s) p σ = (if e.2.isAdded && keyIs e.1 p σ then 1 else 0) + cnt s p σ := by
  unfold cnt; rw [List.filter_cons]
  split
  · rw [List.length_cons]; omega
  · omega

/-- the active entries of (p, σ): the entry of `k` apart from the others (`NoDup`) -/
theorem cnt_split (s : Map) (hs : NoDup s) (k : Bytes) (p : PeerName) (σ : Ssid) :
    cnt s p σ = (if has s k && keyIs k p σ then 1 else 0) + cnt (s.filter (fun e => e.1 != k)) p σ := by
  induction s with
  | nil => rw [has_nil]; rfl
  | cons e tail ih =>
    obtain ⟨k0, v0⟩ := e
    have hs' : k0 ∉ tail.map Prod.fst ∧ NoDup tail := by
      unfold NoDup at hs; rw [List.map_cons, List.nodup_cons] at hs; exact hs
    by_cases h : k0 = k
    · subst h
      rw [List.filter_cons_of_neg (by simp), filter_ne_of_not_mem tail k0 hs'.1, cnt_cons, has_cons, if_pos rfl]
    · have hne : ¬ k = k0 := fun h' => h h'.symm
      rw [List.filter_cons_of_pos (by simpa using h), cnt_cons, cnt_cons, has_cons, if_neg hne, ih hs'.2]
      omega

/-- writing one key changes the count by that key's contribution only (additive form) -/
theorem cnt_set (s : Map) (hs : NoDup s) (k : Bytes) (v : Val) (p : PeerName) (σ : Ssid) :
    cnt (set s k v) p σ + (if has s k && keyIs k p σ then 1 else 0) =
      cnt s p σ + (if v.isAdded && keyIs k p σ then 1 else 0) := by
  have h := cnt_split s hs k p σ
  have h2 := cnt_cons (k, v) (s.filter (fun e => e.1 != k)) p σ
  simp only at h2
  unfold Lww.set
  omega

theorem cnt_pos_iff (s : Map) (p : PeerName) (σ : Ssid) :
    0 < cnt s p σ ↔ ∃ k v, (k, v) ∈ s ∧ v.isAdded = true ∧ keyIs k p σ = true := by
  unfold cnt
  rw [List.length_pos_iff_exists_mem]
  constructor
  · rintro ⟨⟨k, v⟩, hm⟩
    rw [List.mem_filter] at hm
    simp only [Bool.and_eq_true] at hm
    exact ⟨k, v, hm.1, hm.2.1, hm.2.2⟩
  · rintro ⟨k, v, h1, h2, h3⟩
    refine ⟨(k, v), ?_⟩
    rw [List.mem_filter]
    simp only [Bool.and_eq_true]
    exact ⟨h1, h2, h3⟩

theorem mem_of_lookup (m : Map) (k : Bytes) (v : Val) (h : List.lookup k m = some v) : (k, v) ∈ m := by
  induction m with
  | nil => simp at h
  | cons e m ih =>
    obtain ⟨a, b⟩ := e
    rw [lookup_cons_eq] at h
    by_cases hk : k = a
    · rw [if_pos hk] at h
      simp only [Option.some.injEq] at h
      subst hk; subst h
      exact List.mem_cons_self
    · rw [if_neg hk] at h
      exact List.mem_cons_of_mem _ (ih h)

theorem lookup_of_mem (m : Map) (hm : NoDup m) (k : Bytes) (v : Val) (h : (k, v) ∈ m) :
    List.lookup k m = some v := by
  induction m with
  | nil => simp at h
  | cons e m ih =>
    obtain ⟨a, b⟩ := e
    have hm' : a ∉ m.map Prod.fst ∧ NoDup m := by
      unfold NoDup at hm; rw [List.map_cons, List.nodup_cons] at hm; exact hm
    rw [lookup_cons_eq]
    rw [List.mem_cons] at h
    rcases h with h | h
    · simp only [Prod.mk.injEq] at h
      rw [if_pos h.1, h.2]
    · have : k ≠ a := by
        intro hk; subst hk
        exact hm'.1 (List.mem_map.2 ⟨(k, v), h, rfl⟩)
      rw [if_neg this]
      exact ih hm'.2 h

/-- with `NoDup`, membership of an active entry is `has` -/
theorem cnt_pos_iff_has (s : Map) (hs : NoDup s) (p : PeerName) (σ : Ssid) :
    0 < cnt s p σ ↔ ∃ k, has s k = true ∧ keyIs k p σ = true := by
  rw [cnt_pos_iff]
  constructor
  · rintro ⟨k, v, h1, h2, h3⟩
    refine ⟨k, ?_, h3⟩
    unfold has Lww.get
    rw [lookup_of_mem s hs k v h1]
    exact h2
  · rintro ⟨k, h1, h2⟩
    unfold has Lww.get at h1
    cases hl : List.lookup k s with
    | none => rw [hl] at h1; exact absurd h1 (by decide)
    | some v =>
      rw [hl] at h1
      exact ⟨k, v, mem_of_lookup s k v hl, h1, h2⟩

theorem cnt_nil (p : PeerName) (σ : Ssid) : cnt [] p σ = 0 := rfl

/-- `activeOf` lists exactly the active entries of the peer -/
theorem mem_activeOf (s : Map) (p : PeerName) (c : ConnId) (σ : Ssid) :
    (c, σ) ∈ activeOf s p ↔ ∃ k v, (k, v) ∈ s ∧ v.isAdded = true ∧ decKey k = some ⟨p, c, σ⟩ := by
  unfold activeOf
  rw [List.mem_filterMap]
  constructor
  · rintro ⟨⟨k, v⟩, hm, hf⟩
    simp only at hf
    cases ha : v.isAdded with
    | false => rw [ha] at hf; simp at hf
    | true =>
      rw [ha] at hf
      simp only [if_true] at hf
      cases hd : decKey k with
      | none => rw [hd] at hf; simp at hf
      | some sk =>
        rw [hd] at hf
        simp only at hf
        obtain ⟨pp, cc, ss⟩ := sk
        simp only at hf
        by_cases hp : pp = p
        · subst hp
          simp only [beq_self_eq_true, if_true, Option.some.injEq, Prod.mk.injEq] at hf
          obtain ⟨h1, h2⟩ := hf
          subst h1; subst h2
          exact ⟨k, v, hm, ha, hd⟩
        · have : (pp == p) = false := by simpa using hp
          rw [this] at hf
          simp at hf
  · rintro ⟨k, v, hm, ha, hd⟩
    refine ⟨(k, v), hm, ?_⟩
    simp only [ha, hd, if_true, beq_self_eq_true]

theorem cnt_zero_of_activeOf_nil (s : Map) (p : PeerName) (h : activeOf s p = []) (σ : Ssid) : cnt s p σ = 0 := by
  apply Nat.eq_zero_of_not_pos
  intro hpos
  rw [cnt_pos_iff] at hpos
  obtain ⟨k, v, hm, ha, hk⟩ := hpos
  unfold keyIs at hk
  cases hd : decKey k with
  | none => rw [hd] at hk; simp at hk
  | some sk =>
    rw [hd] at hk
    obtain ⟨pp, cc, ss⟩ := sk
    simp only [Bool.and_eq_true, beq_iff_eq] at hk
    obtain ⟨h1, h2⟩ := hk
    subst h1; subst h2
    have : (cc, ss) ∈ activeOf s pp := (mem_activeOf s pp cc ss).2 ⟨k, v, hm, ha, hd⟩
    rw [h] at this
    simp at this

/-- transitions of a walk: entries of (p, σ) in `ks` that became active / inactive -/
def dplus (bf af : Bytes → Bool) (ks : List Bytes) (p : PeerName) (σ : Ssid) : Nat :=
  (ks.filter (fun k => keyIs k p σ && !bf k && af k)).length
def dminus (bf af : Bytes → Bool) (ks : List Bytes) (p : PeerName) (σ : Ssid) : Nat :=
  (ks.filter (fun k => keyIs k p σ && bf k && !af k)).length

theorem dplus_perm (bf af : Bytes → Bool) (ks ks' : List Bytes) (h : ks.Perm ks') (p : PeerName) (σ : Ssid) :
    dplus bf af ks p σ = dplus bf af ks' p σ := by
  unfold dplus
  exact (h.filter _).length_eq
theorem dminus_perm (bf af : Bytes → Bool) (ks ks' : List Bytes) (h : ks.Perm ks') (p : PeerName) (σ : Ssid) :
    dminus bf af ks p σ = dminus bf af ks' p σ := by
  unfold dminus
  exact (h.filter _).length_eq

theorem dplus_nil (bf af : Bytes → Bool) (p : PeerName) (σ : Ssid) : dplus bf af [] p σ = 0 := rfl

theorem dminus_nil (bf af : Bytes → Bool) (p : PeerName) (σ : Ssid) : dminus bf af [] p σ = 0 := rfl

theorem dplus_cons (bf af : Bytes → Bool) (k : Bytes) (ks : List Bytes) (p : PeerName) (σ : Ssid) :
    dplus bf af (k :: ks) p σ = (if keyIs k p σ && !bf k && af k then 1 else 0) + dplus bf af ks p σ := by
  unfold dplus; rw [List.filter_cons]
  split
  · rw [List.length_cons]; omega
  · omega

theorem dminus_cons (bf af : Bytes → Bool) (k : Bytes) (ks : List Bytes) (p : PeerName) (σ : Ssid) :
    dminus bf af (k :: ks) p σ = (if keyIs k p σ && bf k && !af k then 1 else 0) + dminus bf af ks p σ := by
  unfold dminus; rw [List.filter_cons]
  split
  · rw [List.length_cons]; omega
  · omega

theorem dplus_congr (bf bf' af af' : Bytes → Bool) (ks : List Bytes) (p : PeerName) (σ : Ssid)
    (h : ∀ k ∈ ks, bf k = bf' k ∧ af k = af' k) : dplus bf af ks p σ = dplus bf' af' ks p σ := by
  unfold dplus
  congr 1
  apply List.filter_congr
  intro k hk
  rw [(h k hk).1, (h k hk).2]

theorem dminus_congr (bf bf' af af' : Bytes → Bool) (ks : List Bytes) (p : PeerName) (σ : Ssid)
    (h : ∀ k ∈ ks, bf k = bf' k ∧ af k = af' k) : dminus bf af ks p σ = dminus bf' af' ks p σ := by
  unfold dminus
  congr 1
  apply List.filter_congr
  intro k hk
  rw [(h k hk).1, (h k hk).2]

/-- entries that were active and are walked are distinct active entries of the old state -/
theorem dminus_le_cnt (s : Map) (hs : NoDup s) (af : Bytes → Bool) (ks : List Bytes) (hk : ks.Nodup)
    (p : PeerName) (σ : Ssid) : dminus (has s) af ks p σ ≤ cnt s p σ := by
  induction ks generalizing s with
  | nil => rw [dminus_nil]; exact Nat.zero_le _
  | cons k ks ih =>
    rw [List.nodup_cons] at hk
    rw [dminus_cons]
    by_cases hc : (keyIs k p σ && has s k && !af k) = true
    · rw [if_pos hc]
      simp only [Bool.and_eq_true] at hc
      have h1 := cnt_split s hs k p σ
      rw [hc.1.1, hc.1.2] at h1
      simp only [Bool.and_self, if_true] at h1
      have h2 := ih (s.filter (fun e => e.1 != k)) (nodup_filter s _ hs) hk.2
      have h3 : dminus (has (s.filter (fun e => e.1 != k))) af ks p σ = dminus (has s) af ks p σ := by
        apply dminus_congr
        intro k' hk'
        refine ⟨has_filter_ne s k k' ?_, rfl⟩
        intro he; subst he; exact hk.1 hk'
      omega
    · rw [if_neg hc]
      have := ih s hs hk.2
      omega

/-- the delta's keys do not repeat and a key outside the delta keeps its activity -/
theorem delta_keys_nodup (s r : Map) (hr : NoDup r) : ((merge s r).2.map Prod.fst).Nodup := delta_nodup s r hr

theorem has_merge_of_not_delta (s r : Map) (hs : NonNeg s) (hr : NoDup r) (k : Bytes)
    (h : k ∉ (merge s r).2.map Prod.fst) : has (merge s r).1 k = has s k := by
  apply has_congr
  have := (delta_mem_iff s r hs hr k)
  apply Classical.byContradiction
  intro hne
  obtain ⟨v, hv⟩ := this.2 hne
  exact h (List.mem_map.2 ⟨(k, v), hv, rfl⟩)

theorem get_merge_of_not_mem (s r : Map) (k : Bytes) (h : k ∉ r.map Prod.fst) :
    get (merge s r).1 k = get s k := by
  induction r generalizing s with
  | nil => rfl
  | cons e rest ih =>
    obtain ⟨k0, rt⟩ := e
    rw [List.map_cons, List.mem_cons, not_or] at h
    rw [merge_cons]
    simp only
    rw [ih _ h.2, get_mergeOne_ne _ _ _ _ h.1]

theorem mergeOne_fst_of_none (s : Map) (k : Bytes) (rt : Val) (h : (mergeOne s k rt).2 = none) :
    (mergeOne s k rt).1 = s := by
  rw [mergeOne_def] at h ⊢
  split
  · rfl
  · rename_i hz; rw [if_neg hz] at h; simp at h

theorem cnt_mergeOne (s : Map) (hs : NoDup s) (k : Bytes) (rt : Val) (p : PeerName) (σ : Ssid) :
    cnt (mergeOne s k rt).1 p σ + (if has s k && keyIs k p σ then 1 else 0) =
      cnt s p σ + (if has (mergeOne s k rt).1 k && keyIs k p σ then 1 else 0) := by
  rw [mergeOne_def]
  split
  · rfl
  · simp only
    rw [has_set, if_pos rfl]
    exact cnt_set s hs k _ p σ

theorem has_mergeOne_ne (s : Map) (k : Bytes) (rt : Val) (k' : Bytes) (h : k' ≠ k) :
    has (mergeOne s k rt).1 k' = has s k' := by
  unfold has; rw [get_mergeOne_ne s k rt k' h]

/-- `Merge` changes the number of active entries of (p, σ) by exactly the transitions among the
entries of its delta -/
theorem cnt_merge (s r : Map) (hs : NoDup s) (hn : NonNeg s) (hr : NoDup r) (p : PeerName) (σ : Ssid) :
    cnt (merge s r).1 p σ + dminus (has s) (has (merge s r).1) ((merge s r).2.map Prod.fst) p σ =
      cnt s p σ + dplus (has s) (has (merge s r).1) ((merge s r).2.map Prod.fst) p σ := by
  induction r generalizing s with
  | nil => rw [merge_nil]; rfl
  | cons e rest ih =>
    obtain ⟨k, rt⟩ := e
    have hr' : k ∉ rest.map Prod.fst ∧ NoDup rest := by
      unfold NoDup at hr; rw [List.map_cons, List.nodup_cons] at hr; exact hr
    have IH := ih (mergeOne s k rt).1 (nodup_mergeOne s k rt hs) (nonneg_mergeOne s k rt hn) hr'.2
    have hM : has (merge (mergeOne s k rt).1 rest).1 k = has (mergeOne s k rt).1 k := by
      unfold has; rw [get_merge_of_not_mem _ _ _ hr'.1]
    have hcg : ∀ k' ∈ (merge (mergeOne s k rt).1 rest).2.map Prod.fst,
        has (mergeOne s k rt).1 k' = has s k' ∧
          has (merge (mergeOne s k rt).1 rest).1 k' = has (merge (mergeOne s k rt).1 rest).1 k' := by
      intro k' hk'
      refine ⟨has_mergeOne_ne s k rt k' ?_, rfl⟩
      intro he; subst he
      exact hr'.1 ((delta_keys_sublist _ rest).subset hk')
    rw [dminus_congr _ _ _ _ _ p σ hcg, dplus_congr _ _ _ _ _ p σ hcg] at IH
    have h1 := cnt_mergeOne s hs k rt p σ
    rw [merge_cons]
    simp only
    cases hd : (mergeOne s k rt).2 with
    | none =>
      simp only
      rw [mergeOne_fst_of_none s k rt hd] at h1 IH ⊢
      exact IH
    | some v =>
      simp only [List.map_cons]
      rw [dminus_cons, dplus_cons, hM]
      revert h1 IH
      generalize has s k = b1
      generalize has (mergeOne s k rt).1 k = b2
      generalize keyIs k p σ = b3
      intro ha hb
      cases b1 <;> cases b2 <;> cases b3 <;> simp only [Bool.and_true, Bool.and_false, Bool.not_true, Bool.not_false, Bool.false_eq_true, if_true, if_false] at ha hb ⊢ <;> omega

end Emitter.Cluster
