import Emitter.Model.Broker
import Emitter.Lemmas.Trie
namespace Emitter.Broker
open Emitter Emitter.Trie Emitter.Security

/-- the connection holds an acknowledged, not yet removed subscription with filter `ssid` -/
def hasCounter (c : Conn) (ssid : Path) : Prop := ∃ ctr ∈ c.counters, ctr.ssid = ssid

/-- the connection holds a subscription whose filter matches the channel `ssid` -/
def receives (m : Mode) (c : Conn) (ssid : Path) : Prop := ∃ f, hasCounter c f ∧ matchesMode m f ssid = true

/-- the invariant behind C02, C08 and C18: the subscription index and the per-connection
bookkeeping describe the same set of (connection, filter) pairs -/
structure Sync (b : B) : Prop where
  wf : b.trie.root.wf
  names : (b.conns.map (·.name)).Nodup
  keys : ∀ c₁ ∈ b.conns, ∀ c₂ ∈ b.conns, c₁.key = c₂.key → c₁.name = c₂.name
  pairs : ∀ p k, (p, k) ∈ b.trie.root.abs ↔ ∃ c ∈ b.conns, c.alive = true ∧ c.key = k ∧ hasCounter c p
  dead : ∀ c ∈ b.conns, c.alive = false → c.counters = []
  ctrs : ∀ c ∈ b.conns, (c.counters.map (·.ssid)).Nodup ∧ ∀ ctr ∈ c.counters, ctr.count = 1
  count : b.trie.count = b.trie.root.abs.length

theorem sync_init : Sync {} := by
  sorry

/-- accepting a connection whose name and subscriber key are new -/
theorem sync_accept (b : B) (name : String) (guid : Bytes) (h : Sync b)
    (hn : ∀ c ∈ b.conns, c.name ≠ name) (hk : ∀ c ∈ b.conns, c.key ≠ Hash.hashOf guid) :
    Sync (accept b name guid) := by
  sorry

/-- every request, by any connection, under any authorizer, preserves the invariant -/
theorem sync_step (auth : Auth) (b : B) (name : String) (r : Req) (h : Sync b) :
    Sync (step auth b name r).1 := by
  sorry

/-- a filter matches itself as a channel, in both modes -/
theorem matches_self (m : Mode) (p : Path) : matchesMode m p p = true := by
  sorry

/-- who a lookup reaches, in terms of the bookkeeping -/
theorem receivers_spec (b : B) (h : Sync b) (ssid : Path) (c : Conn) (hc : c ∈ b.conns) :
    (c.alive && ((b.trie.root.lookup b.mode ssid).eraseDups).contains c.key) = true ↔
      c.alive = true ∧ receives b.mode c ssid := by
  sorry

/-- `Publish`: exactly the live connections holding a matching subscription, minus the
excluded publisher, each once, the packet unchanged -/
theorem deliver_spec (b : B) (h : Sync b) (ssid : Path) (excl : Option Sub) (pkt : Pkt) (n : String) (p : Pkt) :
    (n, p) ∈ deliver b ssid excl pkt ↔
      p = pkt ∧ ∃ c ∈ b.conns, c.name = n ∧ c.alive = true ∧ receives b.mode c ssid ∧ excl ≠ some c.key := by
  sorry

theorem deliver_once (b : B) (h : Sync b) (ssid : Path) (excl : Option Sub) (pkt : Pkt) :
    ((deliver b ssid excl pkt).map Prod.fst).Nodup := by
  sorry

/-- the topic a PUBLISH is processed under (`GetLink`) -/
def resolve (c : Conn) (topic : Bytes) : Bytes :=
  if topic.length ≤ 2 then ((c.links.find? (·.1 == topic)).map (·.2)).getD [] else topic

/-- An accepted PUBLISH: delivered through `deliver` on the publisher's contract and the parsed
channel, payload and channel (key and options stripped) unchanged, followed by the PUBACK;
subscriptions and connections untouched. -/
theorem publish_exact (auth : Auth) (b : B) (name : String) (c : Conn) (qos : UInt8) (retain : Bool)
    (mid : UInt16) (topic payload : Bytes) (g : Grant)
    (hc : b.conn? name = some c) (ha : c.alive = true)
    (hs : (parseChannel (resolve c topic)).ctype = chStatic)
    (hauth : auth b.banned (parseChannel (resolve c topic)) permWrite = some g) (hx : g.has permExtend = false) :
    let ch := parseChannel (resolve c topic)
    let r := step auth b name (.publish qos retain mid topic payload)
    r.1.trie = b.trie ∧ r.1.conns = b.conns ∧
    r.2 = deliver r.1 (g.contract :: ch.query) (if ch.exclude then some c.key else none) (.pub ch.channel payload)
            ++ (if qos > 0 then [(name, .puback mid)] else []) := by
  sorry

/-- A request that fails parsing or authorization changes nothing and is answered with an
error (SUBACK 0x80 for a subscribe). -/
theorem reject_subscribe (auth : Auth) (b : B) (name : String) (c : Conn) (mid : UInt16) (topic : Bytes) (qos : UInt8)
    (hc : b.conn? name = some c) (ha : c.alive = true)
    (hbad : (parseChannel (fixTopic topic)).ctype = chInvalid ∨
            auth b.banned (parseChannel (fixTopic topic)) permRead = none ∨
            ∃ g, auth b.banned (parseChannel (fixTopic topic)) permRead = some g ∧ g.has permExtend = true) :
    ∃ st, step auth b name (.subscribe mid topic qos) = (b, [(name, errPkt mid st), (name, .suback mid [0x80])]) := by
  sorry

theorem reject_unsubscribe (auth : Auth) (b : B) (name : String) (c : Conn) (mid : UInt16) (topic : Bytes)
    (hc : b.conn? name = some c) (ha : c.alive = true)
    (hbad : (parseChannel topic).ctype = chInvalid ∨ auth b.banned (parseChannel topic) permRead = none ∨
            ∃ g, auth b.banned (parseChannel topic) permRead = some g ∧ g.has permExtend = true) :
    ∃ st, step auth b name (.unsubscribe mid topic) = (b, [(name, errPkt mid st), (name, .unsuback mid)]) := by
  sorry

theorem reject_publish (auth : Auth) (b : B) (name : String) (c : Conn) (qos : UInt8) (retain : Bool)
    (mid : UInt16) (topic payload : Bytes)
    (hc : b.conn? name = some c) (ha : c.alive = true)
    (hbad : (parseChannel (resolve c topic)).ctype ≠ chStatic ∨
            auth b.banned (parseChannel (resolve c topic)) permWrite = none ∨
            ∃ g, auth b.banned (parseChannel (resolve c topic)) permWrite = some g ∧ g.has permExtend = true) :
    ∃ st, step auth b name (.publish qos retain mid topic payload)
      = (b, [(name, errPkt mid st)] ++ (if qos > 0 then [(name, .puback mid)] else [])) := by
  sorry

/-- a closed connection is never served again (so its last will cannot fire twice) -/
theorem dead_silent (auth : Auth) (b : B) (name : String) (c : Conn) (r : Req)
    (hc : b.conn? name = some c) (ha : c.alive = false) : step auth b name r = (b, []) := by
  sorry

/-- an accepted SUBSCRIBE is recorded (and a repeated one changes nothing) -/
theorem subscribe_records (auth : Auth) (b : B) (name : String) (c : Conn) (mid : UInt16) (topic : Bytes) (qos : UInt8)
    (g : Grant) (h : Sync b) (hc : b.conn? name = some c) (ha : c.alive = true)
    (hv : (parseChannel (fixTopic topic)).ctype ≠ chInvalid)
    (hauth : auth b.banned (parseChannel (fixTopic topic)) permRead = some g) (hx : g.has permExtend = false) :
    let ssid := g.contract :: (parseChannel (fixTopic topic)).query
    let r := step auth b name (.subscribe mid topic qos)
    (∃ c', r.1.conn? name = some c' ∧ hasCounter c' ssid) ∧
    (hasCounter c ssid → r.1.trie = b.trie ∧ r.1.conns = b.conns) ∧
    r.2.getLast? = some (name, .suback mid [qos]) := by
  sorry

/-- an accepted UNSUBSCRIBE removes exactly that subscription -/
theorem unsubscribe_removes (auth : Auth) (b : B) (name : String) (c : Conn) (mid : UInt16) (topic : Bytes)
    (g : Grant) (h : Sync b) (hc : b.conn? name = some c) (ha : c.alive = true)
    (hv : (parseChannel topic).ctype ≠ chInvalid)
    (hauth : auth b.banned (parseChannel topic) permRead = some g) (hx : g.has permExtend = false) :
    let ssid := g.contract :: (parseChannel topic).query
    let r := step auth b name (.unsubscribe mid topic)
    (∃ c', r.1.conn? name = some c' ∧ ¬ hasCounter c' ssid ∧ ∀ p, p ≠ ssid → (hasCounter c' p ↔ hasCounter c p)) ∧
    (∀ c₂ ∈ b.conns, c₂.name ≠ name → c₂ ∈ r.1.conns) := by
  sorry

/-- C08: when a connection ends, every subscription it held is removed, it stops receiving,
other connections are untouched, the connection counter goes down by one -/
theorem close_cleans (auth : Auth) (b : B) (name : String) (c : Conn) (h : Sync b)
    (hc : b.conn? name = some c) (ha : c.alive = true) :
    let r := step auth b name .close
    (∃ c', r.1.conn? name = some c' ∧ c'.alive = false ∧ c'.counters = []) ∧
    (∀ p, (p, c.key) ∉ r.1.trie.root.abs) ∧
    (∀ c₂ ∈ b.conns, c₂.name ≠ name → c₂ ∈ r.1.conns) ∧
    r.1.open_ = b.open_ - 1 ∧
    (∀ ssid excl pkt, (name, pkt) ∉ deliver r.1 ssid excl pkt) := by
  sorry

/-- C08: the last will is published exactly when one was supplied, its topic is a static
channel and its key allows publishing there (and is not extendable) -/
theorem will_fires_iff (auth : Auth) (b : B) (c : Conn) :
    (∃ g, c.hasConnect = true ∧ c.willFlag = true ∧ (parseChannel c.willTopic).ctype = chStatic ∧
        auth b.banned (parseChannel c.willTopic) permWrite = some g ∧ g.has permExtend = false ∧
        (lastWill auth b c).2 = deliver (lastWill auth b c).1 (g.contract :: (parseChannel c.willTopic).query) none
                                  (.pub (parseChannel c.willTopic).channel c.willMessage)) ∨
    ((¬ ∃ g, c.hasConnect = true ∧ c.willFlag = true ∧ (parseChannel c.willTopic).ctype = chStatic ∧
        auth b.banned (parseChannel c.willTopic) permWrite = some g ∧ g.has permExtend = false) ∧
      lastWill auth b c = (b, [])) := by
  sorry

/-! ### C07: storing and replaying -/

theorem ttlOf_pos_iff (retain : Bool) (ch : Channel) :
    ttlOf retain ch > 0 ↔ retain = true ∨ ∃ t, ch.ttl = some t ∧ t > 0 := by
  sorry

/-- a publish is written to history iff it carries a positive ttl or the retain flag and its
key has the store permission; once; under the publisher's contract and channel; with the
requested ttl (retain = the configured retention period) -/
theorem store_iff (auth : Auth) (b : B) (name : String) (c : Conn) (qos : UInt8) (retain : Bool)
    (mid : UInt16) (topic payload : Bytes) (g : Grant)
    (hc : b.conn? name = some c) (ha : c.alive = true)
    (hs : (parseChannel (resolve c topic)).ctype = chStatic)
    (hauth : auth b.banned (parseChannel (resolve c topic)) permWrite = some g) (hx : g.has permExtend = false) :
    let ch := parseChannel (resolve c topic)
    let ttl := ttlOf retain ch
    (step auth b name (.publish qos retain mid topic payload)).1.store =
      if ttl > 0 ∧ g.has permStore = true then
        b.store ++ [⟨g.contract :: ch.query, ch.channel, payload, if ttl = Generated.msgRetainedTTL then b.retain else ttl⟩]
      else b.store := by
  sorry

/-- an accepted subscription with the load permission is sent exactly the last N stored
matching messages before its SUBACK (N from `last`, 1 by default, 0 for none); none without -/
theorem replay_exact (auth : Auth) (b : B) (name : String) (c : Conn) (mid : UInt16) (topic : Bytes) (qos : UInt8)
    (g : Grant) (hc : b.conn? name = some c) (ha : c.alive = true)
    (hv : (parseChannel (fixTopic topic)).ctype ≠ chInvalid)
    (hauth : auth b.banned (parseChannel (fixTopic topic)) permRead = some g) (hx : g.has permExtend = false) :
    let ch := parseChannel (fixTopic topic)
    let ssid := g.contract :: ch.query
    let limit : Nat := match ch.last with | some v => v.toNat | none => 1
    let r := step auth b name (.subscribe mid topic qos)
    r.1.store = b.store ∧
    (r.2.filter (fun e => e.1 == name && (match e.2 with | .json _ _ => false | _ => true))) =
      (if g.has permLoad then (queryStore b ssid limit).map (fun m => (name, Pkt.pub m.channel m.payload)) else [])
        ++ [(name, .suback mid [qos])] := by
  sorry

theorem queryStore_spec (b : B) (ssid : Path) (limit : Nat) :
    queryStore b ssid limit = ((b.store.filter (fun m => ssidMatches ssid m.ssid)).reverse.take limit).reverse := by
  sorry

/-! ### C18: presence -/

/-- a first subscription emits exactly one 'subscribe' notification (to the watchers of the
channel or of a parent), a repeated one none -/
theorem subscribeConn_out (b : B) (c : Conn) (ssid : Path) (channel : Bytes) :
    (subscribeConn b c ssid channel).2 =
      if c.counters.any (·.ssid == ssid) then []
      else notify (subscribeConn b c ssid channel).1 "subscribe"
             { c with counters := c.counters ++ [⟨ssid, channel, 1⟩] } ssid channel := by
  sorry

/-- the end of a subscription emits exactly one 'unsubscribe' notification; unsubscribing
something not held emits none -/
theorem unsubscribeConn_out (b : B) (c : Conn) (ssid : Path) (channel : Bytes)
    (h1 : ∀ ctr ∈ c.counters, ctr.count = 1) :
    (unsubscribeConn b c ssid channel).2 =
      if c.counters.any (·.ssid == ssid) then
        notify (unsubscribeConn b c ssid channel).1 "unsubscribe"
          { c with counters := c.counters.filter (·.ssid != ssid) } ssid channel
      else [] := by
  sorry

/-- who receives a notification about `ssid`: exactly the live connections watching it
(a presence subscription on the channel or on a parent channel) -/
theorem notify_receivers (b : B) (h : Sync b) (event : String) (c : Conn) (ssid : Path) (channel : Bytes) (n : String) (p : Pkt) :
    (n, p) ∈ notify b event c ssid channel ↔
      (∃ f, p = .json (strBytes "emitter/presence/") f) ∧
      ∃ w ∈ b.conns, w.name = n ∧ w.alive = true ∧ receives b.mode w (presenceSsid ssid) := by
  sorry

end Emitter.Broker
