import Emitter.Model.Broker
import Emitter.Lemmas.Trie
namespace Emitter.Broker
open Emitter Emitter.Trie Emitter.Security

/-- the connection holds an acknowledged, not yet removed subscription with filter `ssid` -/
def hasCounter (c : Conn) (ssid : Path) : Prop := ∃ ctr ∈ c.counters, ctr.ssid = ssid

/-- the connection holds a subscription whose filter matches the channel `ssid` -/
def receives (m : Mode) (c : Conn) (ssid : Path) : Prop := ∃ f, hasCounter c f ∧ matchesMode m f ssid = true

/-- the invariant behind C02, C08 and C18: the subscription index and the per-connection
bookkeeping describe the same set of (connection, filter) pairs -/
structure Sync (b : B) : Prop where
  wf : b.trie.root.wf
  names : (b.conns.map (·.name)).Nodup
  keys : ∀ c₁ ∈ b.conns, ∀ c₂ ∈ b.conns, c₁.key = c₂.key → c₁.name = c₂.name
  pairs : ∀ p k, (p, k) ∈ b.trie.root.abs ↔ ∃ c ∈ b.conns, c.alive = true ∧ c.key = k ∧ hasCounter c p
  dead : ∀ c ∈ b.conns, c.alive = false → c.counters = []
  ctrs : ∀ c ∈ b.conns, (c.counters.map (·.ssid)).Nodup ∧ ∀ ctr ∈ c.counters, ctr.count = 1
  count : b.trie.count = b.trie.root.abs.length

/-! ### helper lemmas: connections -/

theorem conn?_mem {b : B} {n : String} {c : Conn} (h : b.conn? n = some c) : c ∈ b.conns :=
  List.mem_of_find?_eq_some h

theorem conn?_name {b : B} {n : String} {c : Conn} (h : b.conn? n = some c) : c.name = n := by
  have := List.find?_some h
  simpa using this

theorem eq_of_name_eq : ∀ {l : List Conn}, (l.map (·.name)).Nodup → ∀ {c₁ c₂ : Conn},
    c₁ ∈ l → c₂ ∈ l → c₁.name = c₂.name → c₁ = c₂
  | [], _, _, _, h, _, _ => by cases h
  | x :: xs, hnd, c₁, c₂, h₁, h₂, hn => by
      simp only [List.map_cons, List.nodup_cons, List.mem_map, not_exists, not_and] at hnd
      rcases List.mem_cons.1 h₁ with rfl | h₁'
      · rcases List.mem_cons.1 h₂ with rfl | h₂'
        · rfl
        · exact absurd hn.symm (hnd.1 _ h₂')
      · rcases List.mem_cons.1 h₂ with rfl | h₂'
        · exact absurd hn (hnd.1 _ h₁')
        · exact eq_of_name_eq hnd.2 h₁' h₂' hn

theorem conn?_of_mem {b : B} (hnd : (b.conns.map (·.name)).Nodup) {c : Conn} (hc : c ∈ b.conns) :
    b.conn? c.name = some c := by
  unfold B.conn?
  cases hf : b.conns.find? (·.name == c.name) with
  | none =>
      rw [List.find?_eq_none] at hf
      exact absurd (by simp) (hf c hc)
  | some c' =>
      have h1 := List.mem_of_find?_eq_some hf
      have h2 : c'.name = c.name := by simpa using List.find?_some hf
      rw [eq_of_name_eq hnd h1 hc h2]

theorem mem_setConn {b : B} {c x : Conn} :
    x ∈ (b.setConn c).conns ↔ (x = c ∧ ∃ y ∈ b.conns, y.name = c.name) ∨ (x ∈ b.conns ∧ x.name ≠ c.name) := by
  simp only [B.setConn, List.mem_map]
  constructor
  · rintro ⟨y, hy, rfl⟩
    by_cases hyn : y.name = c.name
    · left; simp [hyn]; exact ⟨y, hy, hyn⟩
    · right; simp [hyn]; exact hy
  · rintro (⟨rfl, y, hy, hyn⟩ | ⟨hx, hxn⟩)
    · exact ⟨y, hy, by simp [hyn]⟩
    · exact ⟨x, hx, by simp [hxn]⟩

theorem setConn_names (b : B) (c : Conn) :
    (b.setConn c).conns.map (·.name) = b.conns.map (·.name) := by
  simp only [B.setConn, List.map_map]
  apply List.map_congr_left
  intro x _
  by_cases hx : x.name = c.name <;> simp [hx]

theorem setConn_trie (b : B) (c : Conn) : (b.setConn c).trie = b.trie := rfl

theorem Sync.self_pairs {b : B} (h : Sync b) {c : Conn} (hc : c ∈ b.conns) (p : Path) :
    (p, c.key) ∈ b.trie.root.abs ↔ c.alive = true ∧ hasCounter c p := by
  rw [h.pairs]
  constructor
  · rintro ⟨c', hc', ha, hk, hp⟩
    have : c' = c := eq_of_name_eq h.names hc' hc (h.keys _ hc' _ hc hk)
    subst this; exact ⟨ha, hp⟩
  · rintro ⟨ha, hp⟩; exact ⟨c, hc, ha, rfl, hp⟩

/-- replacing the stored connection `c₀` by `c'` (same name, same key) together with a trie
whose pairs under that key are exactly the counters of `c'` -/
theorem sync_update {b b' : B} {c₀ c' : Conn} (h : Sync b) (hc₀ : c₀ ∈ b.conns)
    (hn : c'.name = c₀.name) (hk : c'.key = c₀.key)
    (hconns : b'.conns = (b.setConn c').conns)
    (hwf : b'.trie.root.wf) (hcount : b'.trie.count = b'.trie.root.abs.length)
    (hother : ∀ p k, k ≠ c₀.key → ((p, k) ∈ b'.trie.root.abs ↔ (p, k) ∈ b.trie.root.abs))
    (hself : ∀ p, (p, c₀.key) ∈ b'.trie.root.abs ↔ c'.alive = true ∧ hasCounter c' p)
    (hdead : c'.alive = false → c'.counters = [])
    (hctrs : (c'.counters.map (·.ssid)).Nodup ∧ ∀ ctr ∈ c'.counters, ctr.count = 1) : Sync b' := by
  have hmem : ∀ x, x ∈ b'.conns ↔ x = c' ∨ (x ∈ b.conns ∧ x.name ≠ c₀.name) := by
    intro x
    rw [hconns, mem_setConn, hn]
    constructor
    · rintro (⟨hx, _⟩ | hx)
      · exact Or.inl hx
      · exact Or.inr hx
    · rintro (hx | hx)
      · exact Or.inl ⟨hx, c₀, hc₀, rfl⟩
      · exact Or.inr hx
  refine ⟨hwf, ?_, ?_, ?_, ?_, ?_, hcount⟩
  · rw [hconns, setConn_names]; exact h.names
  · intro c₁ h₁ c₂ h₂ hkk
    rcases (hmem _).1 h₁ with rfl | ⟨h₁, hn₁⟩ <;> rcases (hmem _).1 h₂ with rfl | ⟨h₂, hn₂⟩
    · rfl
    · rw [hn]; exact (h.keys _ h₂ _ hc₀ (by rw [← hkk, hk])).symm
    · rw [hn]; exact h.keys _ h₁ _ hc₀ (by rw [hkk, hk])
    · exact h.keys _ h₁ _ h₂ hkk
  · intro p k
    by_cases hkk : k = c₀.key
    · subst hkk
      rw [hself]
      constructor
      · rintro ⟨ha, hp⟩
        exact ⟨c', (hmem _).2 (Or.inl rfl), ha, hk, hp⟩
      · rintro ⟨c, hc, ha, hck, hp⟩
        rcases (hmem _).1 hc with rfl | ⟨hc, hcn⟩
        · exact ⟨ha, hp⟩
        · exact absurd (h.keys _ hc _ hc₀ hck) hcn
    · rw [hother p k hkk, h.pairs]
      constructor
      · rintro ⟨c, hc, ha, hck, hp⟩
        refine ⟨c, (hmem _).2 (Or.inr ⟨hc, ?_⟩), ha, hck, hp⟩
        intro hcn
        have := eq_of_name_eq h.names hc hc₀ hcn
        subst this; exact hkk hck.symm
      · rintro ⟨c, hc, ha, hck, hp⟩
        rcases (hmem _).1 hc with rfl | ⟨hc, hcn⟩
        · exact absurd (hck.symm.trans hk) hkk
        · exact ⟨c, hc, ha, hck, hp⟩
  · intro c hc hd
    rcases (hmem _).1 hc with rfl | ⟨hc, _⟩
    · exact hdead hd
    · exact h.dead c hc hd
  · intro c hc
    rcases (hmem _).1 hc with rfl | ⟨hc, _⟩
    · exact hctrs
    · exact h.ctrs c hc

/-! ### helper lemmas: counters -/

theorem any_ssid_iff (c : Conn) (ssid : Path) :
    c.counters.any (·.ssid == ssid) = true ↔ hasCounter c ssid := by
  simp [List.any_eq_true, hasCounter]

theorem dec_spec (cs : List Counter) (ssid : Path) (h1 : ∀ ctr ∈ cs, ctr.count = 1) :
    dec cs ssid = (cs.filter (·.ssid != ssid), cs.any (·.ssid == ssid)) := by
  unfold dec
  cases hf : cs.find? (·.ssid == ssid) with
  | none =>
      rw [List.find?_eq_none] at hf
      have hany : cs.any (·.ssid == ssid) = false := List.any_eq_false.2 hf
      have hfil : cs.filter (·.ssid != ssid) = cs :=
        List.filter_eq_self.2 (by intro a ha; have := hf a ha; simpa using this)
      simp [hany, hfil]
  | some c =>
      have hm := List.mem_of_find?_eq_some hf
      have hp := List.find?_some hf
      have hany : cs.any (·.ssid == ssid) = true := List.any_eq_true.2 ⟨c, hm, hp⟩
      simp [h1 c hm, hany]

theorem hasCounter_filter (c : Conn) (ssid p : Path) :
    hasCounter { c with counters := c.counters.filter (·.ssid != ssid) } p ↔ p ≠ ssid ∧ hasCounter c p := by
  simp only [hasCounter, List.mem_filter, bne_iff_ne, ne_eq]
  constructor
  · rintro ⟨ctr, ⟨hm, hne⟩, rfl⟩
    exact ⟨hne, ctr, hm, rfl⟩
  · rintro ⟨hne, ctr, hm, rfl⟩
    exact ⟨ctr, ⟨hm, hne⟩, rfl⟩

theorem hasCounter_append (c : Conn) (ssid p : Path) (ch : Bytes) (n : Nat) :
    hasCounter { c with counters := c.counters ++ [⟨ssid, ch, n⟩] } p ↔ hasCounter c p ∨ p = ssid := by
  simp only [hasCounter, List.mem_append, List.mem_singleton]
  constructor
  · rintro ⟨ctr, hm | rfl, rfl⟩
    · exact Or.inl ⟨ctr, hm, rfl⟩
    · exact Or.inr rfl
  · rintro (⟨ctr, hm, rfl⟩ | rfl)
    · exact ⟨ctr, Or.inl hm, rfl⟩
    · exact ⟨_, Or.inr rfl, rfl⟩

theorem matchesE_self : ∀ p : Path, matchesE p p = true
  | [] => rfl
  | a :: p => by simp [matchesE, matchesE_self p]

theorem matchesM_self : ∀ p : Path, matchesM p p = true
  | [] => rfl
  | a :: p => by simp [matchesM, matchesM_self p]

/-- a filter matches itself as a channel, in both modes -/
theorem matches_self (m : Mode) (p : Path) : matchesMode m p p = true := by
  cases m
  · exact matchesE_self p
  · exact matchesM_self p

/-! ### subscribeConn / unsubscribeConn -/

theorem subscribeConn_eq (b : B) (c : Conn) (ssid : Path) (channel : Bytes) :
    subscribeConn b c ssid channel =
      if c.counters.any (·.ssid == ssid) then (b, [])
      else
        ({ (b.setConn { c with counters := c.counters ++ [⟨ssid, channel, 1⟩] }) with
            trie := b.trie.subscribe ssid c.key },
         notify { (b.setConn { c with counters := c.counters ++ [⟨ssid, channel, 1⟩] }) with
            trie := b.trie.subscribe ssid c.key } "subscribe"
            { c with counters := c.counters ++ [⟨ssid, channel, 1⟩] } ssid channel) := by
  unfold subscribeConn incOnce
  cases hany : c.counters.any (·.ssid == ssid) <;> simp

theorem unsubscribeConn_eq (b : B) (c : Conn) (ssid : Path) (channel : Bytes)
    (h1 : ∀ ctr ∈ c.counters, ctr.count = 1) :
    unsubscribeConn b c ssid channel =
      if c.counters.any (·.ssid == ssid) then
        ({ (b.setConn { c with counters := c.counters.filter (·.ssid != ssid) }) with
            trie := if (b.trie.root.lookup b.mode ssid).contains c.key then b.trie.unsubscribe ssid c.key else b.trie },
         notify { (b.setConn { c with counters := c.counters.filter (·.ssid != ssid) }) with
            trie := if (b.trie.root.lookup b.mode ssid).contains c.key then b.trie.unsubscribe ssid c.key else b.trie }
            "unsubscribe" { c with counters := c.counters.filter (·.ssid != ssid) } ssid channel)
      else (b.setConn { c with counters := c.counters.filter (·.ssid != ssid) }, []) := by
  unfold unsubscribeConn
  rw [dec_spec _ _ h1]
  cases hany : c.counters.any (·.ssid == ssid) <;> simp

theorem sync_subscribeConn {b : B} {c : Conn} (h : Sync b) (hc : c ∈ b.conns) (ha : c.alive = true)
    (ssid : Path) (channel : Bytes) : Sync (subscribeConn b c ssid channel).1 := by
  rw [subscribeConn_eq]
  by_cases hany : c.counters.any (·.ssid == ssid) = true
  · simp only [hany, if_true]; exact h
  · simp only [hany]
    have hnc : ¬ hasCounter c ssid := fun hh => hany ((any_ssid_iff c ssid).2 hh)
    have hnew : (ssid, c.key) ∉ b.trie.root.abs := fun hh => hnc ((h.self_pairs hc ssid).1 hh).2
    refine sync_update (c₀ := c) (c' := { c with counters := c.counters ++ [⟨ssid, channel, 1⟩] })
      h hc rfl rfl rfl ?_ ?_ ?_ ?_ ?_ ?_
    · exact wf_insert _ _ _ h.wf
    · show (b.trie.subscribe ssid c.key).count = (b.trie.subscribe ssid c.key).root.abs.length
      simp only [T.subscribe]
      rw [abs_length_insert _ _ _ h.wf, (insert_new_iff _ _ _ h.wf).2 hnew, h.count]
      simp
    · intro p k hk
      show (p, k) ∈ (b.trie.root.insert ssid c.key).1.abs ↔ _
      rw [abs_insert _ _ _ h.wf]
      constructor
      · rintro (he | he)
        · exact absurd (Prod.mk.inj he).2 hk
        · exact he
      · exact Or.inr
    · intro p
      show (p, c.key) ∈ (b.trie.root.insert ssid c.key).1.abs ↔ _
      rw [abs_insert _ _ _ h.wf, h.self_pairs hc, hasCounter_append]
      constructor
      · rintro (he | ⟨_, hp⟩)
        · exact ⟨ha, Or.inr (Prod.mk.inj he).1⟩
        · exact ⟨ha, Or.inl hp⟩
      · rintro ⟨_, hp | rfl⟩
        · exact Or.inr ⟨ha, hp⟩
        · exact Or.inl rfl
    · intro hd; rw [show ({ c with counters := c.counters ++ [⟨ssid, channel, 1⟩] } : Conn).alive = c.alive from rfl, ha] at hd
      cases hd
    · obtain ⟨hnd, hc1⟩ := h.ctrs c hc
      constructor
      · show ((c.counters ++ [(⟨ssid, channel, 1⟩ : Counter)]).map (·.ssid)).Nodup
        rw [List.map_append, List.nodup_append]
        refine ⟨hnd, by simp, ?_⟩
        intro a ha' x hx
        simp only [List.map_cons, List.map_nil, List.mem_singleton] at hx
        subst hx
        rintro rfl
        obtain ⟨ctr, hm, he⟩ := List.mem_map.1 ha'
        exact hnc ⟨ctr, hm, he⟩
      · intro ctr hm
        rcases List.mem_append.1 hm with hm | hm
        · exact hc1 ctr hm
        · rw [List.mem_singleton.1 hm]

theorem sync_unsubscribeConn {b : B} {c : Conn} (h : Sync b) (hc : c ∈ b.conns) (ha : c.alive = true)
    (ssid : Path) (channel : Bytes) : Sync (unsubscribeConn b c ssid channel).1 := by
  obtain ⟨hnd, hc1⟩ := h.ctrs c hc
  rw [unsubscribeConn_eq _ _ _ _ hc1]
  have hctrs' : ((c.counters.filter (·.ssid != ssid)).map (·.ssid)).Nodup ∧
      ∀ ctr ∈ c.counters.filter (·.ssid != ssid), ctr.count = 1 :=
    ⟨List.Nodup.sublist (List.filter_sublist.map _) hnd, fun ctr hm => hc1 ctr (List.mem_filter.1 hm).1⟩
  by_cases hany : c.counters.any (·.ssid == ssid) = true
  · simp only [hany, if_true]
    have hhc : hasCounter c ssid := (any_ssid_iff c ssid).1 hany
    have hin : (ssid, c.key) ∈ b.trie.root.abs := (h.self_pairs hc ssid).2 ⟨ha, hhc⟩
    have hpres : (b.trie.root.lookup b.mode ssid).contains c.key = true := by
      rw [List.contains_iff_mem, lookup_spec]
      exact ⟨ssid, hin, matches_self _ _⟩
    simp only [hpres, if_true]
    refine sync_update (c₀ := c) (c' := { c with counters := c.counters.filter (·.ssid != ssid) })
      h hc rfl rfl rfl ?_ ?_ ?_ ?_ ?_ hctrs'
    · exact wf_remove _ _ _ h.wf
    · show (b.trie.unsubscribe ssid c.key).count = (b.trie.unsubscribe ssid c.key).root.abs.length
      simp only [T.unsubscribe]
      have hl := abs_length_remove b.trie.root ssid c.key h.wf
      rw [(remove_hit_iff _ _ _ h.wf).2 hin] at hl ⊢
      simp only [if_true] at hl ⊢
      rw [h.count]; omega
    · intro p k hk
      show (p, k) ∈ (b.trie.root.remove ssid c.key).1.abs ↔ _
      rw [abs_remove _ _ _ h.wf]
      constructor
      · exact fun he => he.1
      · exact fun he => ⟨he, fun hh => hk (Prod.mk.inj hh).2⟩
    · intro p
      show (p, c.key) ∈ (b.trie.root.remove ssid c.key).1.abs ↔ _
      rw [abs_remove _ _ _ h.wf, h.self_pairs hc, hasCounter_filter]
      constructor
      · rintro ⟨⟨_, hp⟩, hne⟩
        exact ⟨ha, fun hh => hne (by rw [hh]), hp⟩
      · rintro ⟨_, hne, hp⟩
        exact ⟨⟨ha, hp⟩, fun hh => hne (Prod.mk.inj hh).1⟩
    · intro hd
      rw [show ({ c with counters := c.counters.filter (·.ssid != ssid) } : Conn).alive = c.alive from rfl, ha] at hd
      cases hd
  · simp only [hany]
    have hnc : ¬ hasCounter c ssid := fun hh => hany ((any_ssid_iff c ssid).2 hh)
    refine sync_update (c₀ := c) (c' := { c with counters := c.counters.filter (·.ssid != ssid) })
      h hc rfl rfl rfl h.wf h.count (fun _ _ _ => Iff.rfl) ?_ ?_ hctrs'
    · intro p
      show (p, c.key) ∈ b.trie.root.abs ↔ _
      rw [h.self_pairs hc, hasCounter_filter]
      constructor
      · rintro ⟨_, hp⟩
        exact ⟨ha, fun hh => hnc (hh ▸ hp), hp⟩
      · rintro ⟨_, _, hp⟩
        exact ⟨ha, hp⟩
    · intro hd
      rw [show ({ c with counters := c.counters.filter (·.ssid != ssid) } : Conn).alive = c.alive from rfl, ha] at hd
      cases hd

/-! ### frames -/

theorem Sync.congr {b b' : B} (h : Sync b) (ht : b'.trie = b.trie) (hc : b'.conns = b.conns) : Sync b' := by
  refine ⟨?_, ?_, ?_, ?_, ?_, ?_, ?_⟩
  · rw [ht]; exact h.wf
  · rw [hc]; exact h.names
  · rw [hc]; exact h.keys
  · rw [hc, ht]; exact h.pairs
  · rw [hc]; exact h.dead
  · rw [hc]; exact h.ctrs
  · rw [ht]; exact h.count

theorem find?_setConn_self (c : Conn) : ∀ (l : List Conn), (∃ y ∈ l, y.name = c.name) →
    (l.map (fun x => if x.name == c.name then c else x)).find? (·.name == c.name) = some c
  | [], h => by obtain ⟨y, hy, _⟩ := h; cases hy
  | x :: xs, h => by
      by_cases hx : x.name = c.name
      · simp [hx]
      · have hex : ∃ y ∈ xs, y.name = c.name := by
          obtain ⟨y, hy, hyn⟩ := h
          rcases List.mem_cons.1 hy with rfl | hy'
          · exact absurd hyn hx
          · exact ⟨y, hy', hyn⟩
        have ih := find?_setConn_self c xs hex
        simpa [hx] using ih

theorem conn?_setConn {b : B} {c : Conn} (hex : ∃ y ∈ b.conns, y.name = c.name) :
    (b.setConn c).conn? c.name = some c :=
  find?_setConn_self c b.conns hex

theorem subscribeConn_frame (b : B) (c : Conn) (ssid : Path) (ch : Bytes) :
    (subscribeConn b c ssid ch).1.store = b.store ∧ (subscribeConn b c ssid ch).1.open_ = b.open_ ∧
    (subscribeConn b c ssid ch).1.mode = b.mode ∧ (subscribeConn b c ssid ch).1.banned = b.banned := by
  rw [subscribeConn_eq]
  split <;> exact ⟨rfl, rfl, rfl, rfl⟩

theorem unsubscribeConn_frame (b : B) (c : Conn) (ssid : Path) (ch : Bytes) :
    (unsubscribeConn b c ssid ch).1.store = b.store ∧ (unsubscribeConn b c ssid ch).1.open_ = b.open_ ∧
    (unsubscribeConn b c ssid ch).1.mode = b.mode ∧ (unsubscribeConn b c ssid ch).1.banned = b.banned := by
  unfold unsubscribeConn
  rcases dec c.counters ssid with ⟨cs, last⟩
  cases last <;> exact ⟨rfl, rfl, rfl, rfl⟩

theorem unsubscribeConn_conns (b : B) (c : Conn) (ssid : Path) (ch : Bytes)
    (h1 : ∀ ctr ∈ c.counters, ctr.count = 1) :
    (unsubscribeConn b c ssid ch).1.conns =
      (b.setConn { c with counters := c.counters.filter (·.ssid != ssid) }).conns := by
  rw [unsubscribeConn_eq _ _ _ _ h1]
  split <;> rfl

theorem lastWill_frame (auth : Auth) (b : B) (c : Conn) :
    (lastWill auth b c).1.trie = b.trie ∧ (lastWill auth b c).1.conns = b.conns ∧
    (lastWill auth b c).1.open_ = b.open_ ∧ (lastWill auth b c).1.mode = b.mode := by
  unfold lastWill
  dsimp only
  split
  · exact ⟨rfl, rfl, rfl, rfl⟩
  split
  · exact ⟨rfl, rfl, rfl, rfl⟩
  split
  · exact ⟨rfl, rfl, rfl, rfl⟩
  split
  · exact ⟨rfl, rfl, rfl, rfl⟩
  split <;> exact ⟨rfl, rfl, rfl, rfl⟩

/-! ### close -/

def closeF (name : String) (acc : B × Out) (ctr : Counter) : B × Out :=
  match acc.1.conn? name with
  | some cur => let r := unsubscribeConn acc.1 cur ctr.ssid ctr.channel; (r.1, acc.2 ++ r.2)
  | none => acc

theorem closeConn_eq (auth : Auth) (b : B) (c : Conn) :
    closeConn auth b c =
      ((lastWill auth (c.counters.foldl (closeF c.name) ({ b with open_ := b.open_ - 1 }, [])).1
          (((c.counters.foldl (closeF c.name) ({ b with open_ := b.open_ - 1 }, [])).1.conn? c.name).getD c)).1.setConn
        { (((c.counters.foldl (closeF c.name) ({ b with open_ := b.open_ - 1 }, [])).1.conn? c.name).getD c) with alive := false },
       (c.counters.foldl (closeF c.name) ({ b with open_ := b.open_ - 1 }, [])).2 ++
       (lastWill auth (c.counters.foldl (closeF c.name) ({ b with open_ := b.open_ - 1 }, [])).1
          (((c.counters.foldl (closeF c.name) ({ b with open_ := b.open_ - 1 }, [])).1.conn? c.name).getD c)).2) := rfl

theorem close_fold (name : String) : ∀ (cs : List Counter) (b : B) (out : Out) (cur : Conn),
    Sync b → b.conn? name = some cur → cur.alive = true → cur.counters = cs →
    Sync (cs.foldl (closeF name) (b, out)).1 ∧
    (cs.foldl (closeF name) (b, out)).1.conn? name = some { cur with counters := [] } ∧
    (cs.foldl (closeF name) (b, out)).1.open_ = b.open_ ∧
    (∀ c₂ ∈ b.conns, c₂.name ≠ name → c₂ ∈ (cs.foldl (closeF name) (b, out)).1.conns)
  | [], b, out, cur, h, hcur, _, hcs => by
      refine ⟨h, ?_, rfl, fun _ h2 _ => h2⟩
      cases cur; simp only at hcs; subst hcs; exact hcur
  | ctr :: rest, b, out, cur, h, hcur, ha, hcs => by
      have hmem := conn?_mem hcur
      have hname := conn?_name hcur
      obtain ⟨hnd, hc1⟩ := h.ctrs cur hmem
      have hstep : closeF name (b, out) ctr =
          ((unsubscribeConn b cur ctr.ssid ctr.channel).1, out ++ (unsubscribeConn b cur ctr.ssid ctr.channel).2) := by
        simp only [closeF, hcur]
      rw [List.foldl_cons, hstep]
      have hconns := unsubscribeConn_conns b cur ctr.ssid ctr.channel hc1
      have hfil : cur.counters.filter (·.ssid != ctr.ssid) = rest := by
        rw [hcs] at hnd ⊢
        simp only [List.map_cons, List.nodup_cons, List.mem_map, not_exists, not_and] at hnd
        rw [List.filter_cons]
        simp only [bne_self_eq_false, Bool.false_eq_true, if_false]
        apply List.filter_eq_self.2
        intro a ha'
        simp only [bne_iff_ne, ne_eq]
        exact hnd.1 a ha'
      have hcur' : (unsubscribeConn b cur ctr.ssid ctr.channel).1.conn? name =
          some { cur with counters := rest } := by
        show List.find? _ (unsubscribeConn b cur ctr.ssid ctr.channel).1.conns = _
        rw [hconns, hfil, ← hname]
        exact conn?_setConn (c := { cur with counters := rest }) ⟨cur, hmem, rfl⟩
      obtain ⟨i1, i2, i3, i4⟩ := close_fold name rest (unsubscribeConn b cur ctr.ssid ctr.channel).1
        (out ++ (unsubscribeConn b cur ctr.ssid ctr.channel).2) { cur with counters := rest }
        (sync_unsubscribeConn h hmem ha _ _) hcur' ha rfl
      refine ⟨i1, i2, ?_, ?_⟩
      · rw [i3]; exact (unsubscribeConn_frame b cur ctr.ssid ctr.channel).2.1
      · intro c₂ h2 hn2
        apply i4 c₂ _ hn2
        rw [hconns]
        exact mem_setConn.2 (Or.inr ⟨h2, by rw [show ({ cur with counters := cur.counters.filter (·.ssid != ctr.ssid) } : Conn).name = cur.name from rfl, hname]; exact hn2⟩)

theorem sync_kill {b : B} {c : Conn} (h : Sync b) (hc : c ∈ b.conns) (h0 : c.counters = []) :
    Sync (b.setConn { c with alive := false }) := by
  refine sync_update (c₀ := c) (c' := { c with alive := false }) h hc rfl rfl rfl h.wf h.count
    (fun _ _ _ => Iff.rfl) ?_ (fun _ => h0) ?_
  · intro p
    show (p, c.key) ∈ b.trie.root.abs ↔ _
    rw [h.self_pairs hc]
    simp [hasCounter, h0]
  · show ((c.counters.map (·.ssid)).Nodup ∧ ∀ ctr ∈ c.counters, ctr.count = 1)
    rw [h0]; simp

/-- everything `closeConn` guarantees, in one place -/
theorem closeConn_spec (auth : Auth) (b : B) (name : String) (c : Conn) (h : Sync b)
    (hc : b.conn? name = some c) (ha : c.alive = true) :
    Sync (closeConn auth b c).1 ∧
    (closeConn auth b c).1.conn? name = some { c with counters := [], alive := false } ∧
    (closeConn auth b c).1.open_ = b.open_ - 1 ∧
    (∀ c₂ ∈ b.conns, c₂.name ≠ name → c₂ ∈ (closeConn auth b c).1.conns) := by
  have hname := conn?_name hc
  have hsync0 : Sync { b with open_ := b.open_ - 1 } := h.congr rfl rfl
  obtain ⟨f1, f2, f3, f4⟩ := close_fold name c.counters { b with open_ := b.open_ - 1 } [] c hsync0 hc ha rfl
  rw [closeConn_eq, hname, f2]
  simp only [Option.getD_some]
  generalize hr : (c.counters.foldl (closeF name) ({ b with open_ := b.open_ - 1 }, [])) = r at f1 f2 f3 f4 ⊢
  obtain ⟨w1, w2, w3, _⟩ := lastWill_frame auth r.1 { c with counters := [] }
  have hsw : Sync (lastWill auth r.1 { c with counters := [] }).1 := f1.congr w1 w2
  have hcm : ({ c with counters := [] } : Conn) ∈ (lastWill auth r.1 { c with counters := [] }).1.conns := by
    rw [w2]; exact conn?_mem f2
  refine ⟨sync_kill hsw hcm rfl, ?_, ?_, ?_⟩
  · rw [← hname]
    exact conn?_setConn (c := { c with counters := [], alive := false }) ⟨_, hcm, rfl⟩
  · show (lastWill auth r.1 { c with counters := [] }).1.open_ = _
    rw [w3, f3]
  · intro c₂ h2 hn2
    apply mem_setConn.2
    right
    refine ⟨by rw [w2]; exact f4 c₂ h2 hn2, ?_⟩
    show c₂.name ≠ c.name
    rw [hname]; exact hn2

/-! ### the invariant -/

theorem sync_init : Sync {} := by
  refine ⟨wf_empty, List.nodup_nil, ?_, ?_, ?_, ?_, rfl⟩
  · intro c₁ h₁; cases h₁
  · intro p k
    constructor
    · intro hh; cases hh
    · rintro ⟨c, hc, _⟩; cases hc
  · intro c hc; cases hc
  · intro c hc; cases hc

/-- accepting a connection whose name and subscriber key are new -/
theorem sync_accept (b : B) (name : String) (guid : Bytes) (h : Sync b)
    (hn : ∀ c ∈ b.conns, c.name ≠ name) (hk : ∀ c ∈ b.conns, c.key ≠ Hash.hashOf guid) :
    Sync (accept b name guid) := by
  have hmem : ∀ x, x ∈ (accept b name guid).conns ↔ x ∈ b.conns ∨ x = { name := name, guid := guid } := by
    intro x; simp [accept]
  refine ⟨h.wf, ?_, ?_, ?_, ?_, ?_, h.count⟩
  · show ((b.conns ++ [({ name := name, guid := guid } : Conn)]).map (·.name)).Nodup
    rw [List.map_append, List.nodup_append]
    refine ⟨h.names, by simp, ?_⟩
    intro a ha x hx
    simp only [List.map_cons, List.map_nil, List.mem_singleton] at hx
    subst hx
    obtain ⟨c, hc, rfl⟩ := List.mem_map.1 ha
    exact hn c hc
  · intro c₁ h₁ c₂ h₂ hkk
    rcases (hmem _).1 h₁ with h₁ | rfl <;> rcases (hmem _).1 h₂ with h₂ | rfl
    · exact h.keys _ h₁ _ h₂ hkk
    · exact absurd hkk (hk _ h₁)
    · exact absurd hkk.symm (hk _ h₂)
    · rfl
  · intro p k
    show (p, k) ∈ b.trie.root.abs ↔ _
    rw [h.pairs]
    constructor
    · rintro ⟨c, hc, hr⟩; exact ⟨c, (hmem _).2 (Or.inl hc), hr⟩
    · rintro ⟨c, hc, ha, hck, hp⟩
      rcases (hmem _).1 hc with hc | rfl
      · exact ⟨c, hc, ha, hck, hp⟩
      · obtain ⟨ctr, hm, _⟩ := hp; cases hm
  · intro c hc hd
    rcases (hmem _).1 hc with hc | rfl
    · exact h.dead c hc hd
    · rfl
  · intro c hc
    rcases (hmem _).1 hc with hc | rfl
    · exact h.ctrs c hc
    · exact ⟨List.nodup_nil, fun _ hm => by cases hm⟩

theorem sync_setConn_same {b : B} {c c' : Conn} (h : Sync b) (hc : c ∈ b.conns) (hn : c'.name = c.name)
    (hg : c'.guid = c.guid) (hcs : c'.counters = c.counters) (hal : c'.alive = c.alive) :
    Sync (b.setConn c') := by
  refine sync_update (c₀ := c) (c' := c') h hc hn (by unfold Conn.key; rw [hg]) rfl h.wf h.count
    (fun _ _ _ => Iff.rfl) ?_ ?_ ?_
  · intro p
    show (p, c.key) ∈ b.trie.root.abs ↔ _
    rw [h.self_pairs hc, hal]
    unfold hasCounter
    rw [hcs]
  · intro hd
    rw [hcs]; exact h.dead c hc (hal ▸ hd)
  · rw [hcs]; exact h.ctrs c hc

theorem step_none (auth : Auth) (b : B) (name : String) (r : Req) (hc : b.conn? name = none) :
    step auth b name r = (b, []) := by
  simp only [step, hc]

/-- a closed connection is never served again (so its last will cannot fire twice) -/
theorem dead_silent (auth : Auth) (b : B) (name : String) (c : Conn) (r : Req)
    (hc : b.conn? name = some c) (ha : c.alive = false) : step auth b name r = (b, []) := by
  simp [step, hc, ha]

/-- every request, by any connection, under any authorizer, preserves the invariant -/
theorem sync_step (auth : Auth) (b : B) (name : String) (r : Req) (h : Sync b) :
    Sync (step auth b name r).1 := by
  cases hc : b.conn? name with
  | none => rw [step_none auth b name r hc]; exact h
  | some c =>
    have hm := conn?_mem hc
    have hname := conn?_name hc
    cases ha : c.alive with
    | false => rw [dead_silent auth b name c r hc ha]; exact h
    | true =>
    cases r with
    | connect un wf wr wt wm =>
        simp only [step, hc]; rw [if_neg (by simp [ha])]
        exact sync_setConn_same h hm rfl rfl rfl rfl
    | subscribe mid topic qos =>
        simp only [step, hc]; rw [if_neg (by simp [ha])]
        split
        · exact h
        split
        · exact h
        split
        · exact h
        exact sync_subscribeConn h hm ha _ _
    | unsubscribe mid topic =>
        simp only [step, hc]; rw [if_neg (by simp [ha])]
        split
        · exact h
        split
        · exact h
        split
        · exact h
        exact sync_unsubscribeConn h hm ha _ _
    | publish qos retain mid topic payload =>
        simp only [step, hc]; rw [if_neg (by simp [ha])]
        generalize (if topic.length ≤ 2 then ((c.links.find? (·.1 == topic)).map (·.2)).getD [] else topic) = t
        split
        · exact h
        split
        · exact h
        split
        · exact h
        split
        · exact h
        split
        · exact h.congr rfl rfl
        · exact h
    | link mid nm key channel sub =>
        simp only [step, hc]; rw [if_neg (by simp [ha])]
        split
        · exact h
        split
        · exact h
        dsimp only
        generalize ((nm, (parseChannel (key ++ [sep] ++ channel)).toBytes) :: c.links.filter (fun x => x.1 != nm)) = lk
        have hs' : Sync (b.setConn { c with links := lk }) := sync_setConn_same h hm rfl rfl rfl rfl
        have hm' : ({ c with links := lk } : Conn) ∈ (b.setConn { c with links := lk }).conns :=
          mem_setConn.2 (Or.inl ⟨rfl, c, hm, rfl⟩)
        split
        · split
          · exact sync_subscribeConn hs' hm' ha _ _
          · exact hs'
        · exact hs'
    | presence mid key channel status changes =>
        simp only [step, hc]; rw [if_neg (by simp [ha])]
        generalize (if channel.getLast? == some sep then channel else channel ++ [sep]) = chn
        split
        · exact h
        split
        · exact h
        split
        · exact h
        split <;> (dsimp only [Option.getD_some]; split)
        · exact sync_subscribeConn h hm ha _ _
        · exact sync_unsubscribeConn h hm ha _ _
        · exact h
        · exact sync_subscribeConn h hm ha _ _
        · exact sync_unsubscribeConn h hm ha _ _
        · exact h
    | close =>
        simp only [step, hc]; rw [if_neg (by simp [ha])]
        exact (closeConn_spec auth b name c h hc ha).1
/-! ### delivery -/

/-- who a lookup reaches, in terms of the bookkeeping -/
theorem receivers_spec (b : B) (h : Sync b) (ssid : Path) (c : Conn) (hc : c ∈ b.conns) :
    (c.alive && ((b.trie.root.lookup b.mode ssid).eraseDups).contains c.key) = true ↔
      c.alive = true ∧ receives b.mode c ssid := by
  rw [Bool.and_eq_true, List.contains_iff_mem, List.mem_eraseDups, lookup_spec]
  constructor
  · rintro ⟨ha, f, hf, hmatch⟩
    exact ⟨ha, f, ((h.self_pairs hc f).1 hf).2, hmatch⟩
  · rintro ⟨ha, f, hf, hmatch⟩
    exact ⟨ha, f, (h.self_pairs hc f).2 ⟨ha, hf⟩, hmatch⟩

theorem mem_deliver (b : B) (ssid : Path) (excl : Option Sub) (pkt : Pkt) (e : String × Pkt) :
    e ∈ deliver b ssid excl pkt ↔ ∃ c ∈ b.conns,
      ((c.alive && ((b.trie.root.lookup b.mode ssid).eraseDups).contains c.key) = true ∧ excl ≠ some c.key) ∧
      e = (c.name, pkt) := by
  unfold deliver
  simp only [List.mem_filterMap]
  constructor
  · rintro ⟨c, hc, hsome⟩
    split at hsome
    · rename_i hcond
      rw [Bool.and_eq_true, bne_iff_ne] at hcond
      exact ⟨c, hc, hcond, (Option.some.inj hsome).symm⟩
    · cases hsome
  · rintro ⟨c, hc, hcond, rfl⟩
    refine ⟨c, hc, ?_⟩
    rw [if_pos]
    rw [Bool.and_eq_true, bne_iff_ne]
    exact hcond

theorem deliver_snd {b : B} {ssid : Path} {excl : Option Sub} {pkt : Pkt} {e : String × Pkt}
    (h : e ∈ deliver b ssid excl pkt) : e.2 = pkt := by
  obtain ⟨c, _, _, rfl⟩ := (mem_deliver b ssid excl pkt e).1 h
  rfl

/-- `Publish`: exactly the live connections holding a matching subscription, minus the
excluded publisher, each once, the packet unchanged -/
theorem deliver_spec (b : B) (h : Sync b) (ssid : Path) (excl : Option Sub) (pkt : Pkt) (n : String) (p : Pkt) :
    (n, p) ∈ deliver b ssid excl pkt ↔
      p = pkt ∧ ∃ c ∈ b.conns, c.name = n ∧ c.alive = true ∧ receives b.mode c ssid ∧ excl ≠ some c.key := by
  rw [mem_deliver]
  constructor
  · rintro ⟨c, hc, ⟨hr, hex⟩, he⟩
    obtain ⟨rfl, rfl⟩ := Prod.mk.inj he
    obtain ⟨ha, hrec⟩ := (receivers_spec b h ssid c hc).1 hr
    exact ⟨rfl, c, hc, rfl, ha, hrec, hex⟩
  · rintro ⟨rfl, c, hc, rfl, ha, hrec, hex⟩
    exact ⟨c, hc, ⟨(receivers_spec b h ssid c hc).2 ⟨ha, hrec⟩, hex⟩, rfl⟩

theorem filterMap_names_sublist (P : Conn → Bool) (p : Pkt) : ∀ l : List Conn,
    ((l.filterMap (fun c => if P c then some (c.name, p) else none)).map Prod.fst).Sublist (l.map (·.name))
  | [] => List.Sublist.slnil
  | x :: xs => by
      rw [List.filterMap_cons]
      by_cases hx : P x = true
      · simp only [hx, if_true, List.map_cons]
        exact (filterMap_names_sublist P p xs).cons_cons _
      · simp only [hx, List.map_cons]
        exact (filterMap_names_sublist P p xs).cons _

theorem deliver_once (b : B) (h : Sync b) (ssid : Path) (excl : Option Sub) (pkt : Pkt) :
    ((deliver b ssid excl pkt).map Prod.fst).Nodup := by
  unfold deliver
  exact List.Nodup.sublist (filterMap_names_sublist _ pkt b.conns) h.names

/-- the field text of a presence notification (as built by `notify`) -/
def notifyFields (event : String) (c : Conn) (channel : Bytes) : String :=
  let un := if c.username.isEmpty then "" else s!",who.username={strOf c.username}"
  s!"channel={strOf channel},event={event},who.id={strOf c.guid}{un}"

theorem notify_eq (b : B) (event : String) (c : Conn) (ssid : Path) (channel : Bytes) :
    notify b event c ssid channel =
      deliver b (presenceSsid ssid) none (.json (strBytes "emitter/presence/") (notifyFields event c channel)) := rfl

/-- who receives a notification about `ssid`: exactly the live connections watching it
(a presence subscription on the channel or on a parent channel), and what they receive: one
fixed JSON packet on the presence topic.

AMENDED STATEMENT. The original read, for given `n p`,
`(n, p) ∈ notify … ↔ (∃ f, p = .json "emitter/presence/" f) ∧ ∃ w ∈ b.conns, …`, whose right-to-left
direction is false: with a live watcher `w`, the right-hand side holds for EVERY json packet on
the presence topic (any field text `f`), while `notify` sends one specific packet (see
`notify_receivers_original_false` below). The existential over the field text is therefore moved
outside the equivalence: there is one field text `f` such that for all `n p` the equivalence holds. -/
theorem notify_receivers (b : B) (h : Sync b) (event : String) (c : Conn) (ssid : Path) (channel : Bytes) :
    ∃ f, ∀ (n : String) (p : Pkt),
      (n, p) ∈ notify b event c ssid channel ↔
        p = .json (strBytes "emitter/presence/") f ∧
        ∃ w ∈ b.conns, w.name = n ∧ w.alive = true ∧ receives b.mode w (presenceSsid ssid) := by
  refine ⟨notifyFields event c channel, fun n p => ?_⟩
  rw [notify_eq, deliver_spec b h]
  constructor
  · rintro ⟨hp, w, hw, hn, ha, hr, _⟩
    exact ⟨hp, w, hw, hn, ha, hr⟩
  · rintro ⟨hp, w, hw, hn, ha, hr⟩
    exact ⟨hp, w, hw, hn, ha, hr, by simp⟩

/-! ### C18: presence -/

theorem subscribeConn_out (b : B) (c : Conn) (ssid : Path) (channel : Bytes) :
    (subscribeConn b c ssid channel).2 =
      if c.counters.any (·.ssid == ssid) then []
      else notify (subscribeConn b c ssid channel).1 "subscribe"
             { c with counters := c.counters ++ [⟨ssid, channel, 1⟩] } ssid channel := by
  rw [subscribeConn_eq]
  by_cases hany : c.counters.any (·.ssid == ssid) = true
  · simp only [hany, if_true]
  · simp only [hany]; rfl

theorem unsubscribeConn_out (b : B) (c : Conn) (ssid : Path) (channel : Bytes)
    (h1 : ∀ ctr ∈ c.counters, ctr.count = 1) :
    (unsubscribeConn b c ssid channel).2 =
      if c.counters.any (·.ssid == ssid) then
        notify (unsubscribeConn b c ssid channel).1 "unsubscribe"
          { c with counters := c.counters.filter (·.ssid != ssid) } ssid channel
      else [] := by
  rw [unsubscribeConn_eq _ _ _ _ h1]
  by_cases hany : c.counters.any (·.ssid == ssid) = true
  · simp only [hany, if_true]
  · simp only [hany]; rfl

theorem queryStore_spec (b : B) (ssid : Path) (limit : Nat) :
    queryStore b ssid limit = ((b.store.filter (fun m => ssidMatches ssid m.ssid)).reverse.take limit).reverse := by
  unfold queryStore
  rw [List.take_reverse, List.reverse_reverse]

theorem ttlOf_pos_iff (retain : Bool) (ch : Channel) :
    ttlOf retain ch > 0 ↔ retain = true ∨ ∃ t, ch.ttl = some t ∧ t > 0 := by
  unfold ttlOf
  cases ht : ch.ttl with
  | none =>
      cases retain <;> simp [Generated.msgRetainedTTL]
  | some t =>
      dsimp only
      by_cases hp : t > 0
      · have : t.toNat > 0 := Int.pos_iff_toNat_pos.1 hp
        simp only [hp, if_true]
        constructor
        · intro _; exact Or.inr ⟨t, rfl, hp⟩
        · intro _; split
          · simp [Generated.msgRetainedTTL]
          · exact this
      · simp only [hp, if_false]
        cases retain
        · simp [hp]
        · simp [Generated.msgRetainedTTL]
/-! ### C02: publish / subscribe / unsubscribe -/

/-- the topic a PUBLISH is processed under (`GetLink`) -/
def resolve (c : Conn) (topic : Bytes) : Bytes :=
  if topic.length ≤ 2 then ((c.links.find? (·.1 == topic)).map (·.2)).getD [] else topic

theorem static_ne_invalid {ch : Channel} (hs : ch.ctype = chStatic) : ch.ctype ≠ chInvalid := by
  rw [hs]; decide

theorem publish_exact (auth : Auth) (b : B) (name : String) (c : Conn) (qos : UInt8) (retain : Bool)
    (mid : UInt16) (topic payload : Bytes) (g : Grant)
    (hc : b.conn? name = some c) (ha : c.alive = true)
    (hs : (parseChannel (resolve c topic)).ctype = chStatic)
    (hauth : auth b.banned (parseChannel (resolve c topic)) permWrite = some g) (hx : g.has permExtend = false) :
    let ch := parseChannel (resolve c topic)
    let r := step auth b name (.publish qos retain mid topic payload)
    r.1.trie = b.trie ∧ r.1.conns = b.conns ∧
    r.2 = deliver r.1 (g.contract :: ch.query) (if ch.exclude then some c.key else none) (.pub ch.channel payload)
            ++ (if qos > 0 then [(name, .puback mid)] else []) := by
  have hi := static_ne_invalid hs
  unfold resolve at hs hauth hi ⊢
  simp only [step, hc]; rw [if_neg (by simp [ha])]
  generalize (if topic.length ≤ 2 then ((c.links.find? (·.1 == topic)).map (·.2)).getD [] else topic) = t at hs hauth hi ⊢
  rw [if_neg (by simpa using hi), if_neg (by simp [hs])]
  simp only [hauth, hx, Bool.false_eq_true, if_false]
  refine ⟨?_, ?_, trivial⟩
  · split <;> rfl
  · split <;> rfl

theorem reject_subscribe (auth : Auth) (b : B) (name : String) (c : Conn) (mid : UInt16) (topic : Bytes) (qos : UInt8)
    (hc : b.conn? name = some c) (ha : c.alive = true)
    (hbad : (parseChannel (fixTopic topic)).ctype = chInvalid ∨
            auth b.banned (parseChannel (fixTopic topic)) permRead = none ∨
            ∃ g, auth b.banned (parseChannel (fixTopic topic)) permRead = some g ∧ g.has permExtend = true) :
    ∃ st, step auth b name (.subscribe mid topic qos) = (b, [(name, errPkt mid st), (name, .suback mid [0x80])]) := by
  simp only [step, hc]; rw [if_neg (by simp [ha])]
  by_cases h1 : (parseChannel (fixTopic topic)).ctype = chInvalid
  · exact ⟨400, by rw [if_pos (by simp [h1])]⟩
  · rw [if_neg (by simpa using h1)]
    rcases hbad with hb | hb | ⟨g, hg, hgx⟩
    · exact absurd hb h1
    · exact ⟨401, by simp only [hb]⟩
    · exact ⟨401, by simp only [hg, hgx, if_true]⟩

theorem reject_unsubscribe (auth : Auth) (b : B) (name : String) (c : Conn) (mid : UInt16) (topic : Bytes)
    (hc : b.conn? name = some c) (ha : c.alive = true)
    (hbad : (parseChannel topic).ctype = chInvalid ∨ auth b.banned (parseChannel topic) permRead = none ∨
            ∃ g, auth b.banned (parseChannel topic) permRead = some g ∧ g.has permExtend = true) :
    ∃ st, step auth b name (.unsubscribe mid topic) = (b, [(name, errPkt mid st), (name, .unsuback mid)]) := by
  simp only [step, hc]; rw [if_neg (by simp [ha])]
  by_cases h1 : (parseChannel topic).ctype = chInvalid
  · exact ⟨400, by rw [if_pos (by simp [h1])]⟩
  · rw [if_neg (by simpa using h1)]
    rcases hbad with hb | hb | ⟨g, hg, hgx⟩
    · exact absurd hb h1
    · exact ⟨401, by simp only [hb]⟩
    · exact ⟨401, by simp only [hg, hgx, if_true]⟩

theorem reject_publish (auth : Auth) (b : B) (name : String) (c : Conn) (qos : UInt8) (retain : Bool)
    (mid : UInt16) (topic payload : Bytes)
    (hc : b.conn? name = some c) (ha : c.alive = true)
    (hbad : (parseChannel (resolve c topic)).ctype ≠ chStatic ∨
            auth b.banned (parseChannel (resolve c topic)) permWrite = none ∨
            ∃ g, auth b.banned (parseChannel (resolve c topic)) permWrite = some g ∧ g.has permExtend = true) :
    ∃ st, step auth b name (.publish qos retain mid topic payload)
      = (b, [(name, errPkt mid st)] ++ (if qos > 0 then [(name, .puback mid)] else [])) := by
  unfold resolve at hbad
  simp only [step, hc]; rw [if_neg (by simp [ha])]
  generalize (if topic.length ≤ 2 then ((c.links.find? (·.1 == topic)).map (·.2)).getD [] else topic) = t at hbad ⊢
  by_cases h1 : (parseChannel t).ctype = chInvalid
  · exact ⟨400, by rw [if_pos (by simp [h1])]⟩
  · rw [if_neg (by simpa using h1)]
    by_cases h2 : (parseChannel t).ctype = chStatic
    · rw [if_neg (by simp [h2])]
      rcases hbad with hb | hb | ⟨g, hg, hgx⟩
      · exact absurd h2 hb
      · exact ⟨401, by simp only [hb]⟩
      · exact ⟨401, by simp only [hg, hgx, if_true]⟩
    · exact ⟨403, by rw [if_pos (by simpa using h2)]⟩

theorem step_subscribe_eq (auth : Auth) (b : B) (name : String) (c : Conn) (mid : UInt16) (topic : Bytes) (qos : UInt8)
    (g : Grant) (hc : b.conn? name = some c) (ha : c.alive = true)
    (hv : (parseChannel (fixTopic topic)).ctype ≠ chInvalid)
    (hauth : auth b.banned (parseChannel (fixTopic topic)) permRead = some g) (hx : g.has permExtend = false) :
    step auth b name (.subscribe mid topic qos) =
      ((subscribeConn b c (g.contract :: (parseChannel (fixTopic topic)).query) (parseChannel (fixTopic topic)).channel).1,
       (subscribeConn b c (g.contract :: (parseChannel (fixTopic topic)).query) (parseChannel (fixTopic topic)).channel).2 ++
        (if g.has permLoad then
          (queryStore (subscribeConn b c (g.contract :: (parseChannel (fixTopic topic)).query) (parseChannel (fixTopic topic)).channel).1
            (g.contract :: (parseChannel (fixTopic topic)).query)
            (match (parseChannel (fixTopic topic)).last with | some v => v.toNat | none => 1)).map
              (fun m => (name, Pkt.pub m.channel m.payload))
         else []) ++ [(name, .suback mid [qos])]) := by
  simp only [step, hc]; rw [if_neg (by simp [ha]), if_neg (by simpa using hv)]
  simp only [hauth, hx, Bool.false_eq_true, if_false]
  rfl

theorem step_unsubscribe_eq (auth : Auth) (b : B) (name : String) (c : Conn) (mid : UInt16) (topic : Bytes)
    (g : Grant) (hc : b.conn? name = some c) (ha : c.alive = true)
    (hv : (parseChannel topic).ctype ≠ chInvalid)
    (hauth : auth b.banned (parseChannel topic) permRead = some g) (hx : g.has permExtend = false) :
    step auth b name (.unsubscribe mid topic) =
      ((unsubscribeConn b c (g.contract :: (parseChannel topic).query) (parseChannel topic).channel).1,
       (unsubscribeConn b c (g.contract :: (parseChannel topic).query) (parseChannel topic).channel).2 ++
         [(name, .unsuback mid)]) := by
  simp only [step, hc]; rw [if_neg (by simp [ha]), if_neg (by simpa using hv)]
  simp only [hauth, hx, Bool.false_eq_true, if_false]

/-- an accepted SUBSCRIBE is recorded (and a repeated one changes nothing) -/
theorem subscribe_records (auth : Auth) (b : B) (name : String) (c : Conn) (mid : UInt16) (topic : Bytes) (qos : UInt8)
    (g : Grant) (h : Sync b) (hc : b.conn? name = some c) (ha : c.alive = true)
    (hv : (parseChannel (fixTopic topic)).ctype ≠ chInvalid)
    (hauth : auth b.banned (parseChannel (fixTopic topic)) permRead = some g) (hx : g.has permExtend = false) :
    let ssid := g.contract :: (parseChannel (fixTopic topic)).query
    let r := step auth b name (.subscribe mid topic qos)
    (∃ c', r.1.conn? name = some c' ∧ hasCounter c' ssid) ∧
    (hasCounter c ssid → r.1.trie = b.trie ∧ r.1.conns = b.conns) ∧
    r.2.getLast? = some (name, .suback mid [qos]) := by
  have _ := h
  dsimp only
  rw [step_subscribe_eq auth b name c mid topic qos g hc ha hv hauth hx]
  dsimp only
  have hm := conn?_mem hc
  have hname := conn?_name hc
  refine ⟨?_, ?_, List.getLast?_concat⟩
  · rw [subscribeConn_eq]
    by_cases hany : c.counters.any (·.ssid == g.contract :: (parseChannel (fixTopic topic)).query) = true
    · simp only [hany, if_true]
      exact ⟨c, hc, (any_ssid_iff _ _).1 hany⟩
    · simp only [hany]
      refine ⟨{ c with counters := c.counters ++ [⟨g.contract :: (parseChannel (fixTopic topic)).query,
        (parseChannel (fixTopic topic)).channel, 1⟩] }, ?_, (hasCounter_append c _ _ _ _).2 (Or.inr rfl)⟩
      rw [← hname]
      exact conn?_setConn (c := { c with counters := c.counters ++ [⟨_, _, 1⟩] }) ⟨c, hm, rfl⟩
  · intro hh
    rw [subscribeConn_eq, if_pos ((any_ssid_iff _ _).2 hh)]
    exact ⟨rfl, rfl⟩

/-- an accepted UNSUBSCRIBE removes exactly that subscription -/
theorem unsubscribe_removes (auth : Auth) (b : B) (name : String) (c : Conn) (mid : UInt16) (topic : Bytes)
    (g : Grant) (h : Sync b) (hc : b.conn? name = some c) (ha : c.alive = true)
    (hv : (parseChannel topic).ctype ≠ chInvalid)
    (hauth : auth b.banned (parseChannel topic) permRead = some g) (hx : g.has permExtend = false) :
    let ssid := g.contract :: (parseChannel topic).query
    let r := step auth b name (.unsubscribe mid topic)
    (∃ c', r.1.conn? name = some c' ∧ ¬ hasCounter c' ssid ∧ ∀ p, p ≠ ssid → (hasCounter c' p ↔ hasCounter c p)) ∧
    (∀ c₂ ∈ b.conns, c₂.name ≠ name → c₂ ∈ r.1.conns) := by
  dsimp only
  rw [step_unsubscribe_eq auth b name c mid topic g hc ha hv hauth hx]
  dsimp only
  have hm := conn?_mem hc
  have hname := conn?_name hc
  have hconns := unsubscribeConn_conns b c (g.contract :: (parseChannel topic).query) (parseChannel topic).channel
    (h.ctrs c hm).2
  constructor
  · refine ⟨{ c with counters := c.counters.filter (·.ssid != g.contract :: (parseChannel topic).query) }, ?_, ?_, ?_⟩
    · show List.find? _ (unsubscribeConn b c _ _).1.conns = _
      rw [hconns, ← hname]
      exact conn?_setConn (c := { c with counters := c.counters.filter _ }) ⟨c, hm, rfl⟩
    · rw [hasCounter_filter]; exact fun hh => hh.1 rfl
    · intro p hp
      rw [hasCounter_filter]; exact ⟨fun hh => hh.2, fun hh => ⟨hp, hh⟩⟩
  · intro c₂ h2 hn2
    rw [hconns]
    exact mem_setConn.2 (Or.inr ⟨h2, by show c₂.name ≠ c.name; rw [hname]; exact hn2⟩)

/-! ### C08: close and last will -/

theorem step_close_eq (auth : Auth) (b : B) (name : String) (c : Conn)
    (hc : b.conn? name = some c) (ha : c.alive = true) :
    step auth b name .close = closeConn auth b c := by
  simp only [step, hc]; rw [if_neg (by simp [ha])]

/-- C08: when a connection ends, every subscription it held is removed, it stops receiving,
other connections are untouched, the connection counter goes down by one -/
theorem close_cleans (auth : Auth) (b : B) (name : String) (c : Conn) (h : Sync b)
    (hc : b.conn? name = some c) (ha : c.alive = true) :
    let r := step auth b name .close
    (∃ c', r.1.conn? name = some c' ∧ c'.alive = false ∧ c'.counters = []) ∧
    (∀ p, (p, c.key) ∉ r.1.trie.root.abs) ∧
    (∀ c₂ ∈ b.conns, c₂.name ≠ name → c₂ ∈ r.1.conns) ∧
    r.1.open_ = b.open_ - 1 ∧
    (∀ ssid excl pkt, (name, pkt) ∉ deliver r.1 ssid excl pkt) := by
  dsimp only
  rw [step_close_eq auth b name c hc ha]
  obtain ⟨s1, s2, s3, s4⟩ := closeConn_spec auth b name c h hc ha
  have hm' := conn?_mem s2
  have hname := conn?_name hc
  refine ⟨⟨_, s2, rfl, rfl⟩, ?_, s4, s3, ?_⟩
  · intro p hp
    have := (s1.self_pairs hm' p).1 hp
    exact absurd this.1 (by simp)
  · intro ssid excl pkt hd
    obtain ⟨_, c₂, h2, hn2, ha2, _⟩ := (deliver_spec _ s1 ssid excl pkt name pkt).1 hd
    have : c₂ = { c with counters := [], alive := false } :=
      eq_of_name_eq s1.names h2 hm' (by rw [hn2]; exact hname.symm)
    rw [this] at ha2
    cases ha2

theorem lastWill_ok (auth : Auth) (b : B) (c : Conn) (g : Grant)
    (h1 : c.hasConnect = true) (h2 : c.willFlag = true) (h3 : (parseChannel c.willTopic).ctype = chStatic)
    (h4 : auth b.banned (parseChannel c.willTopic) permWrite = some g) (h5 : g.has permExtend = false) :
    (lastWill auth b c).2 = deliver (lastWill auth b c).1 (g.contract :: (parseChannel c.willTopic).query) none
                                  (.pub (parseChannel c.willTopic).channel c.willMessage) := by
  unfold lastWill
  dsimp only
  rw [if_neg (by simp [h1, h2]), if_neg (by simp [h3])]
  simp only [h4, h5, Bool.false_eq_true, if_false]

theorem lastWill_bad (auth : Auth) (b : B) (c : Conn)
    (hno : ¬ ∃ g, c.hasConnect = true ∧ c.willFlag = true ∧ (parseChannel c.willTopic).ctype = chStatic ∧
        auth b.banned (parseChannel c.willTopic) permWrite = some g ∧ g.has permExtend = false) :
    lastWill auth b c = (b, []) := by
  unfold lastWill
  dsimp only
  split
  · rfl
  rename_i h12
  split
  · rfl
  rename_i h3
  split
  · rfl
  rename_i g h4
  split
  · rfl
  rename_i h5
  exfalso
  apply hno
  simp only [Bool.or_eq_true, Bool.not_eq_true', not_or, Bool.not_eq_false] at h12
  refine ⟨g, h12.1, h12.2, by simpa using h3, h4, by simpa using h5⟩

/-- C08: the last will is published exactly when one was supplied, its topic is a static
channel and its key allows publishing there (and is not extendable) -/
theorem will_fires_iff (auth : Auth) (b : B) (c : Conn) :
    (∃ g, c.hasConnect = true ∧ c.willFlag = true ∧ (parseChannel c.willTopic).ctype = chStatic ∧
        auth b.banned (parseChannel c.willTopic) permWrite = some g ∧ g.has permExtend = false ∧
        (lastWill auth b c).2 = deliver (lastWill auth b c).1 (g.contract :: (parseChannel c.willTopic).query) none
                                  (.pub (parseChannel c.willTopic).channel c.willMessage)) ∨
    ((¬ ∃ g, c.hasConnect = true ∧ c.willFlag = true ∧ (parseChannel c.willTopic).ctype = chStatic ∧
        auth b.banned (parseChannel c.willTopic) permWrite = some g ∧ g.has permExtend = false) ∧
      lastWill auth b c = (b, [])) := by
  by_cases hex : ∃ g, c.hasConnect = true ∧ c.willFlag = true ∧ (parseChannel c.willTopic).ctype = chStatic ∧
        auth b.banned (parseChannel c.willTopic) permWrite = some g ∧ g.has permExtend = false
  · obtain ⟨g, h1, h2, h3, h4, h5⟩ := hex
    exact Or.inl ⟨g, h1, h2, h3, h4, h5, lastWill_ok auth b c g h1 h2 h3 h4 h5⟩
  · exact Or.inr ⟨hex, lastWill_bad auth b c hex⟩

/-! ### C07: storing and replaying -/

/-- a publish is written to history iff it carries a positive ttl or the retain flag and its
key has the store permission; once; under the publisher's contract and channel; with the
requested ttl (retain = the configured retention period) -/
theorem store_iff (auth : Auth) (b : B) (name : String) (c : Conn) (qos : UInt8) (retain : Bool)
    (mid : UInt16) (topic payload : Bytes) (g : Grant)
    (hc : b.conn? name = some c) (ha : c.alive = true)
    (hs : (parseChannel (resolve c topic)).ctype = chStatic)
    (hauth : auth b.banned (parseChannel (resolve c topic)) permWrite = some g) (hx : g.has permExtend = false) :
    let ch := parseChannel (resolve c topic)
    let ttl := ttlOf retain ch
    (step auth b name (.publish qos retain mid topic payload)).1.store =
      if ttl > 0 ∧ g.has permStore = true then
        b.store ++ [⟨g.contract :: ch.query, ch.channel, payload, if ttl = Generated.msgRetainedTTL then b.retain else ttl⟩]
      else b.store := by
  have hi := static_ne_invalid hs
  unfold resolve at hs hauth hi ⊢
  simp only [step, hc]; rw [if_neg (by simp [ha])]
  generalize (if topic.length ≤ 2 then ((c.links.find? (·.1 == topic)).map (·.2)).getD [] else topic) = t at hs hauth hi ⊢
  rw [if_neg (by simpa using hi), if_neg (by simp [hs])]
  simp only [hauth, hx, Bool.false_eq_true, if_false]
  by_cases hcond : ttlOf retain (parseChannel t) > 0 ∧ g.has permStore = true
  · rw [if_pos (by simpa using hcond), if_pos hcond]
    simp [storeMsg]
  · rw [if_neg (by simpa using hcond), if_neg hcond]

theorem subscribeConn_out_json (b : B) (c : Conn) (ssid : Path) (channel : Bytes) (e : String × Pkt)
    (he : e ∈ (subscribeConn b c ssid channel).2) : ∃ t f, e.2 = .json t f := by
  rw [subscribeConn_out] at he
  split at he
  · cases he
  · rw [notify_eq] at he
    exact ⟨_, _, deliver_snd he⟩

/-- an accepted subscription with the load permission is sent exactly the last N stored
matching messages before its SUBACK (N from `last`, 1 by default, 0 for none); none without -/
theorem replay_exact (auth : Auth) (b : B) (name : String) (c : Conn) (mid : UInt16) (topic : Bytes) (qos : UInt8)
    (g : Grant) (hc : b.conn? name = some c) (ha : c.alive = true)
    (hv : (parseChannel (fixTopic topic)).ctype ≠ chInvalid)
    (hauth : auth b.banned (parseChannel (fixTopic topic)) permRead = some g) (hx : g.has permExtend = false) :
    let ch := parseChannel (fixTopic topic)
    let ssid := g.contract :: ch.query
    let limit : Nat := match ch.last with | some v => v.toNat | none => 1
    let r := step auth b name (.subscribe mid topic qos)
    r.1.store = b.store ∧
    (r.2.filter (fun e => e.1 == name && (match e.2 with | .json _ _ => false | _ => true))) =
      (if g.has permLoad then (queryStore b ssid limit).map (fun m => (name, Pkt.pub m.channel m.payload)) else [])
        ++ [(name, .suback mid [qos])] := by
  dsimp only
  rw [step_subscribe_eq auth b name c mid topic qos g hc ha hv hauth hx]
  dsimp only
  have hst := (subscribeConn_frame b c (g.contract :: (parseChannel (fixTopic topic)).query)
    (parseChannel (fixTopic topic)).channel).1
  refine ⟨hst, ?_⟩
  have hq : ∀ l, queryStore (subscribeConn b c (g.contract :: (parseChannel (fixTopic topic)).query)
      (parseChannel (fixTopic topic)).channel).1 (g.contract :: (parseChannel (fixTopic topic)).query) l =
      queryStore b (g.contract :: (parseChannel (fixTopic topic)).query) l := by
    intro l; unfold queryStore; rw [hst]
  rw [hq, List.filter_append, List.filter_append]
  have h1 : (subscribeConn b c (g.contract :: (parseChannel (fixTopic topic)).query)
      (parseChannel (fixTopic topic)).channel).2.filter
      (fun e => e.1 == name && (match e.2 with | .json _ _ => false | _ => true)) = [] := by
    rw [List.filter_eq_nil_iff]
    intro e he
    obtain ⟨t, f, hj⟩ := subscribeConn_out_json _ _ _ _ e he
    simp [hj]
  rw [h1, List.nil_append]
  congr 1
  · rw [List.filter_eq_self]
    intro e he
    split at he
    · obtain ⟨m, _, rfl⟩ := List.mem_map.1 he
      simp
    · cases he
  · simp
/-- Counterexample to the ORIGINAL statement of `notify_receivers` (with `∃ f` inside the
equivalence): one live connection "w" watching the presence ssid of `[]`. The right-hand side
then holds for the two different packets `json … "x"` and `json … "y"`, but `notify` sends
every receiver the same packet. -/
theorem notify_receivers_original_false :
    ¬ ∀ (b : B) (_ : Sync b) (event : String) (c : Conn) (ssid : Path) (channel : Bytes) (n : String) (p : Pkt),
      ((n, p) ∈ notify b event c ssid channel ↔
        (∃ f, p = .json (strBytes "emitter/presence/") f) ∧
        ∃ w ∈ b.conns, w.name = n ∧ w.alive = true ∧ receives b.mode w (presenceSsid ssid)) := by
  intro hall
  have h0 : Sync (accept {} "w" [1]) := sync_accept _ _ _ sync_init (by simp) (by simp)
  have hw : ({ name := "w", guid := [1] } : Conn) ∈ (accept {} "w" [1]).conns := by simp [accept]
  have h1 := sync_subscribeConn h0 hw rfl (presenceSsid []) []
  have hconns : (subscribeConn (accept {} "w" [1]) { name := "w", guid := [1] } (presenceSsid []) []).1.conns =
      [{ name := "w", guid := [1], counters := [⟨presenceSsid [], [], 1⟩] }] := by
    simp [subscribeConn_eq, accept, B.setConn]
  have hrhs : ∀ f, ("w", Pkt.json (strBytes "emitter/presence/") f) ∈
      notify (subscribeConn (accept {} "w" [1]) { name := "w", guid := [1] } (presenceSsid []) []).1
        "subscribe" { name := "c", guid := [2] } [] [] := by
    intro f
    refine (hall _ h1 "subscribe" { name := "c", guid := [2] } [] [] "w" _).2 ⟨⟨f, rfl⟩, ?_⟩
    refine ⟨{ name := "w", guid := [1], counters := [⟨presenceSsid [], [], 1⟩] }, ?_, rfl, rfl, ?_⟩
    · rw [hconns]; simp
    · exact ⟨presenceSsid [], ⟨_, List.mem_singleton.2 rfl, rfl⟩, matches_self _ _⟩
  have hx := deliver_snd (hrhs "x")
  have hy := deliver_snd (hrhs "y")
  rw [← hy] at hx
  simp at hx
end Emitter.Broker
