/-
  C05 — lemma library, part 2: the routing invariant of one broker and its preservation by
  `Swarm.merge` (D5 repaired) for every walk order of the delta.
-/
import Emitter.Lemmas.ClusterBase

namespace Emitter.Cluster
open Emitter Emitter.Lww

/-- the peer's counter for an ssid as the broker holds it (0 without a peer object) -/
def counterOf (b : Broker) (p : PeerName) (σ : Ssid) : Nat :=
  match mget b.members p with
  | some r => cget r.subs σ
  | none => 0

/-- the routing invariant of one broker: for every remote peer the counters equal the number of
active entries of that peer and ssid in the replicated state, and the remote part of the trie
holds exactly the (ssid, peer) pairs with a positive counter (pointing to the live peer object) -/
structure BInv (b : Broker) : Prop where
  selfRange : b.self < 18446744073709551616
  nodup : NoDup b.state
  nonneg : NonNeg b.state
  noself : mget b.members b.self = none
  cwf : ∀ p r, mget b.members p = some r → CWF r.subs
  counters : ∀ p r, mget b.members p = some r → ∀ σ, cget r.subs σ = cnt b.state p σ
  absent : ∀ p, p ≠ b.self → mget b.members p = none → ∀ σ, cnt b.state p σ = 0
  routes : ∀ σ p g, (σ, p, g) ∈ b.routes ↔ ∃ r, mget b.members p = some r ∧ r.gen = g ∧ 0 < cget r.subs σ

theorem binv_init (p : PeerName) (hp : p < 18446744073709551616) : BInv { self := p } := by
  sorry

/-- `Swarm.merge` preserves the routing invariant, whatever the order in which the delta (a Go
map) is walked, on every payload without repeated keys, unless it processes a first / last
transition of a peer that counts as inactive (the only flag that can be raised from a state
that satisfies the invariant) -/
theorem binv_mergeOrd (ord : List Bytes → List Bytes) (b : Broker) (r : Map)
    (hb : BInv b) (hr : NoDup r)
    (hord : (ord ((merge b.state r).2.map Prod.fst)).Perm ((merge b.state r).2.map Prod.fst))
    (hf : (mergeStepOrd ord b r).flags = []) : BInv (mergeStepOrd ord b r).broker := by
  sorry

/-- the merged state is the LWW merge, the returned delta is the LWW delta (C04 / C13 apply) -/
theorem mergeOrd_state (ord : List Bytes → List Bytes) (b : Broker) (r : Map) :
    (mergeStepOrd ord b r).broker.state = (merge b.state r).1 ∧
    (mergeStepOrd ord b r).broker.self = b.self ∧
    (mergeStepOrd ord b r).broker.locals = b.locals ∧
    (mergeStepOrd ord b r).delta = (if (merge b.state r).2.isEmpty then none else some (merge b.state r).2) := by
  sorry

end Emitter.Cluster
