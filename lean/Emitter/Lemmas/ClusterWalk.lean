/-
  C05 — lemma library, part 2: the routing invariant of one broker and its preservation by
  `Swarm.merge` (D5 repaired) for every walk order of the delta.
-/
import Emitter.Lemmas.ClusterBase

namespace Emitter.Cluster
open Emitter Emitter.Lww

/-- the peer's counter for an ssid as the broker holds it (0 without a peer object) -/
def counterOf (b : Broker) (p : PeerName) (σ : Ssid) : Nat :=
  match mget b.members p with
  | some r => cget r.subs σ
  | none => 0

/-- the routing invariant of one broker: for every remote peer the counters equal the number of
active entries of that peer and ssid in the replicated state, and the remote part of the trie
holds exactly the (ssid, peer) pairs with a positive counter (pointing to the live peer object) -/
structure BInv (b : Broker) : Prop where
  selfRange : b.self < 18446744073709551616
  nodup : NoDup b.state
  nonneg : NonNeg b.state
  noself : mget b.members b.self = none
  cwf : ∀ p r, mget b.members p = some r → CWF r.subs
  counters : ∀ p r, mget b.members p = some r → ∀ σ, cget r.subs σ = cnt b.state p σ
  absent : ∀ p, p ≠ b.self → mget b.members p = none → ∀ σ, cnt b.state p σ = 0
  routes : ∀ σ p g, (σ, p, g) ∈ b.routes ↔ ∃ r, mget b.members p = some r ∧ r.gen = g ∧ 0 < cget r.subs σ

theorem binv_init (p : PeerName) (hp : p < 18446744073709551616) : BInv { self := p } := by
  refine ⟨hp, nodup_nil, nonneg_nil, rfl, ?_, ?_, ?_, ?_⟩
  · intro q r h; simp [mget] at h
  · intro q r h; simp [mget] at h
  · intro q _ _ σ; rfl
  · intro σ q g; simp [mget]

/-! ## keys -/

theorem keyIs_iff (k : Bytes) (p : PeerName) (σ : Ssid) :
    keyIs k p σ = true ↔ ∃ sk, decKey k = some sk ∧ sk.peer = p ∧ sk.ssid = σ := by
  unfold keyIs
  cases h : decKey k with
  | none => simp
  | some sk => simp

theorem keyPeer_iff (k : Bytes) (p : PeerName) :
    keyPeer k p = true ↔ ∃ sk, decKey k = some sk ∧ sk.peer = p := by
  unfold keyPeer
  cases h : decKey k with
  | none => simp
  | some sk => simp

theorem keyPeer_of_keyIs (k : Bytes) (p : PeerName) (σ : Ssid) (h : keyIs k p σ = true) : keyPeer k p = true := by
  rw [keyIs_iff] at h; rw [keyPeer_iff]
  obtain ⟨sk, h1, h2, _⟩ := h
  exact ⟨sk, h1, h2⟩

theorem keyIs_of_dec (k : Bytes) (sk : SubKey) (h : decKey k = some sk) (p : PeerName) (σ : Ssid) :
    keyIs k p σ = true ↔ (p = sk.peer ∧ σ = sk.ssid) := by
  rw [keyIs_iff, h]
  constructor
  · rintro ⟨sk', h1, h2, h3⟩
    cases h1
    exact ⟨h2.symm, h3.symm⟩
  · rintro ⟨h2, h3⟩
    exact ⟨sk, rfl, h2.symm, h3.symm⟩

theorem keyIs_of_dec_none (k : Bytes) (h : decKey k = none) (p : PeerName) (σ : Ssid) : keyIs k p σ = false := by
  unfold keyIs; rw [h]

/-! ## transitions -/

/-! ## the fields a walk never touches -/

theorem findPeer_state (b : Broker) (bf : Bytes → Bool) (p : PeerName) :
    (findPeer b bf p).1.state = b.state ∧ (findPeer b bf p).1.self = b.self ∧ (findPeer b bf p).1.locals = b.locals := by
  unfold findPeer
  split <;> simp

theorem onAdded_none (b : Broker) (p : PeerName) (σ : Ssid) (h : mget b.members p = none) :
    onAdded b p σ = (b, []) := by
  unfold onAdded; rw [h]

theorem onRemoved_none (b : Broker) (p : PeerName) (σ : Ssid) (h : mget b.members p = none) :
    onRemoved b p σ = (b, []) := by
  unfold onRemoved; rw [h]

theorem onAdded_some (b : Broker) (p : PeerName) (σ : Ssid) (r : PeerRec) (h : mget b.members p = some r) :
    (onAdded b p σ).1.state = b.state ∧ (onAdded b p σ).1.self = b.self ∧ (onAdded b p σ).1.locals = b.locals ∧
    (onAdded b p σ).1.members = mset b.members p { r with subs := (cinc r.subs σ).1 } ∧
    (onAdded b p σ).1.routes = (if (cinc r.subs σ).2 = true ∧ r.active = true then routeAdd b.routes σ p r.gen else b.routes) ∧
    ((onAdded b p σ).2 = [] → (cinc r.subs σ).2 = true → r.active = true) := by
  unfold onAdded; rw [h]
  cases hc : (cinc r.subs σ).2 <;> cases ha : r.active <;> simp [hc, ha]

theorem onRemoved_some (b : Broker) (p : PeerName) (σ : Ssid) (r : PeerRec) (h : mget b.members p = some r) :
    (onRemoved b p σ).1.state = b.state ∧ (onRemoved b p σ).1.self = b.self ∧ (onRemoved b p σ).1.locals = b.locals ∧
    (onRemoved b p σ).1.members = mset b.members p { r with subs := (cdec r.subs σ).1 } ∧
    (onRemoved b p σ).1.routes = (if (cdec r.subs σ).2 = true ∧ r.active = true then routeDel b.routes σ p else b.routes) ∧
    ((onRemoved b p σ).2 = [] → (cdec r.subs σ).2 = true → r.active = true) := by
  unfold onRemoved; rw [h]
  cases hc : (cdec r.subs σ).2 <;> cases ha : r.active <;> simp [hc, ha]

theorem onAdded_state (b : Broker) (p : PeerName) (σ : Ssid) :
    (onAdded b p σ).1.state = b.state ∧ (onAdded b p σ).1.self = b.self ∧ (onAdded b p σ).1.locals = b.locals := by
  cases h : mget b.members p with
  | none => rw [onAdded_none b p σ h]; simp
  | some r => have := onAdded_some b p σ r h; exact ⟨this.1, this.2.1, this.2.2.1⟩

theorem onRemoved_state (b : Broker) (p : PeerName) (σ : Ssid) :
    (onRemoved b p σ).1.state = b.state ∧ (onRemoved b p σ).1.self = b.self ∧ (onRemoved b p σ).1.locals = b.locals := by
  cases h : mget b.members p with
  | none => rw [onRemoved_none b p σ h]; simp
  | some r => have := onRemoved_some b p σ r h; exact ⟨this.1, this.2.1, this.2.2.1⟩

theorem walkOne_none (bf : Bytes → Bool) (acc : Broker × List Flag) (k : Bytes) (h : decKey k = none) :
    walkOne bf acc k = acc := by
  unfold walkOne; rw [h]

theorem walkOne_self (bf : Bytes → Bool) (acc : Broker × List Flag) (k : Bytes) (sk : SubKey)
    (h : decKey k = some sk) (hs : sk.peer = acc.1.self) : walkOne bf acc k = acc := by
  unfold walkOne; rw [h]; simp [hs]

theorem walkOne_add (bf : Bytes → Bool) (acc : Broker × List Flag) (k : Bytes) (sk : SubKey)
    (h : decKey k = some sk) (hs : sk.peer ≠ acc.1.self) (h1 : bf k = false) (h2 : has acc.1.state k = true) :
    walkOne bf acc k = ((onAdded (findPeer acc.1 bf sk.peer).1 sk.peer sk.ssid).1,
      acc.2 ++ (findPeer acc.1 bf sk.peer).2 ++ (onAdded (findPeer acc.1 bf sk.peer).1 sk.peer sk.ssid).2) := by
  unfold walkOne; rw [h]
  simp [hs, h1, h2, (findPeer_state acc.1 bf sk.peer).1]

theorem walkOne_del (bf : Bytes → Bool) (acc : Broker × List Flag) (k : Bytes) (sk : SubKey)
    (h : decKey k = some sk) (hs : sk.peer ≠ acc.1.self) (h1 : bf k = true) (h2 : has acc.1.state k = false) :
    walkOne bf acc k = ((onRemoved (findPeer acc.1 bf sk.peer).1 sk.peer sk.ssid).1,
      acc.2 ++ (findPeer acc.1 bf sk.peer).2 ++ (onRemoved (findPeer acc.1 bf sk.peer).1 sk.peer sk.ssid).2) := by
  unfold walkOne; rw [h]
  simp [hs, h1, h2, (findPeer_state acc.1 bf sk.peer).1]

theorem walkOne_same (bf : Bytes → Bool) (acc : Broker × List Flag) (k : Bytes) (sk : SubKey)
    (h : decKey k = some sk) (hs : sk.peer ≠ acc.1.self) (h1 : bf k = has acc.1.state k) :
    walkOne bf acc k = ((findPeer acc.1 bf sk.peer).1, acc.2 ++ (findPeer acc.1 bf sk.peer).2) := by
  unfold walkOne; rw [h]
  simp [hs, h1, (findPeer_state acc.1 bf sk.peer).1]

theorem walkOne_state (bf : Bytes → Bool) (acc : Broker × List Flag) (k : Bytes) :
    (walkOne bf acc k).1.state = acc.1.state ∧ (walkOne bf acc k).1.self = acc.1.self ∧
      (walkOne bf acc k).1.locals = acc.1.locals := by
  cases h : decKey k with
  | none => rw [walkOne_none bf acc k h]; simp
  | some sk =>
    by_cases hs : sk.peer = acc.1.self
    · rw [walkOne_self bf acc k sk h hs]; simp
    · have hf := findPeer_state acc.1 bf sk.peer
      cases h1 : bf k <;> cases h2 : has acc.1.state k
      · rw [walkOne_same bf acc k sk h hs (by rw [h1, h2])]; exact hf
      · rw [walkOne_add bf acc k sk h hs h1 h2]
        have := onAdded_state (findPeer acc.1 bf sk.peer).1 sk.peer sk.ssid
        exact ⟨this.1.trans hf.1, this.2.1.trans hf.2.1, this.2.2.trans hf.2.2⟩
      · rw [walkOne_del bf acc k sk h hs h1 h2]
        have := onRemoved_state (findPeer acc.1 bf sk.peer).1 sk.peer sk.ssid
        exact ⟨this.1.trans hf.1, this.2.1.trans hf.2.1, this.2.2.trans hf.2.2⟩
      · rw [walkOne_same bf acc k sk h hs (by rw [h1, h2])]; exact hf

theorem foldl_walkOne_state (bf : Bytes → Bool) (ks : List Bytes) (acc : Broker × List Flag) :
    (ks.foldl (walkOne bf) acc).1.state = acc.1.state ∧ (ks.foldl (walkOne bf) acc).1.self = acc.1.self ∧
      (ks.foldl (walkOne bf) acc).1.locals = acc.1.locals := by
  induction ks generalizing acc with
  | nil => simp
  | cons k ks ih =>
    rw [List.foldl_cons]
    have h1 := ih (walkOne bf acc k)
    have h2 := walkOne_state bf acc k
    rw [h1.1, h1.2.1, h1.2.2, h2.1, h2.2.1, h2.2.2]
    simp

/-! ## `findPeer` -/

theorem findPeer_some (b : Broker) (bf : Bytes → Bool) (p : PeerName) (r : PeerRec)
    (h : mget b.members p = some r) : findPeer b bf p = (b, []) := by
  unfold findPeer; rw [h]

theorem findPeer_none (b : Broker) (bf : Bytes → Bool) (p : PeerName) (h : mget b.members p = none) :
    (findPeer b bf p).1.members = b.members ++ [(p, { active := true, gen := b.nextGen, subs := [] })] ∧
    (findPeer b bf p).1.routes = (activeOf b.state p).foldl (fun rs e => routeAdd rs e.2 p b.nextGen) b.routes ∧
    (findPeer b bf p).2 = (if b.state.any (fun e => e.2.isAdded && keyPeer e.1 p && bf e.1) then
      ["C05.online-bypasses-counters"] else []) := by
  unfold findPeer; rw [h]
  exact ⟨rfl, rfl, rfl⟩

/-- `onPeerOnline`: the routes after every active entry of the new peer was subscribed -/
theorem mem_foldl_routeAdd (act : List (ConnId × Ssid)) (p : PeerName) (g : Nat) (rs : List Route)
    (hrs : ∀ σ g', (σ, p, g') ∈ rs → g' = g) (x : Route) :
    x ∈ act.foldl (fun rs e => routeAdd rs e.2 p g) rs ↔ x ∈ rs ∨ ∃ e, e ∈ act ∧ x = (e.2, p, g) := by
  induction act generalizing rs with
  | nil => simp
  | cons e act ih =>
    rw [List.foldl_cons, ih]
    · rw [mem_routeAdd]
      constructor
      · rintro ((h | ⟨h, _⟩) | ⟨e', he', h⟩)
        · exact Or.inl h
        · exact Or.inr ⟨e, List.mem_cons_self, h⟩
        · exact Or.inr ⟨e', List.mem_cons_of_mem _ he', h⟩
      · rintro (h | ⟨e', he', h⟩)
        · exact Or.inl (Or.inl h)
        · rcases List.mem_cons.mp he' with rfl | he''
          · by_cases hh : hasRoute rs e'.2 p = true
            · obtain ⟨g', hg'⟩ := (hasRoute_iff rs e'.2 p).mp hh
              have := hrs _ _ hg'
              subst this
              subst h
              exact Or.inl (Or.inl hg')
            · exact Or.inl (Or.inr ⟨h, by simpa using hh⟩)
          · exact Or.inr ⟨e', he'', h⟩
    · intro σ g' hm
      rcases (mem_routeAdd rs e.2 p g (σ, p, g')).mp hm with h | ⟨h, _⟩
      · exact hrs σ g' h
      · simp only [Prod.mk.injEq] at h
        exact h.2.2

theorem activeOf_iff_cnt (s : Map) (p : PeerName) (σ : Ssid) :
    (∃ c, (c, σ) ∈ activeOf s p) ↔ 0 < cnt s p σ := by
  rw [cnt_pos_iff]
  constructor
  · rintro ⟨c, hc⟩
    obtain ⟨k, v, hm, hv, hd⟩ := (mem_activeOf s p c σ).mp hc
    exact ⟨k, v, hm, hv, (keyIs_iff k p σ).mpr ⟨_, hd, rfl, rfl⟩⟩
  · rintro ⟨k, v, hm, hv, hk⟩
    obtain ⟨sk, hd, h1, h2⟩ := (keyIs_iff k p σ).mp hk
    refine ⟨sk.conn, (mem_activeOf s p sk.conn σ).mpr ⟨k, v, hm, hv, ?_⟩⟩
    rw [hd, ← h1, ← h2]

theorem dminus_zero (bf af : Bytes → Bool) (ks : List Bytes) (p : PeerName) (σ : Ssid)
    (h : ∀ k, keyIs k p σ = true → bf k = false) : dminus bf af ks p σ = 0 := by
  induction ks with
  | nil => rfl
  | cons k ks ih =>
    rw [dminus_cons, ih]
    cases hk : keyIs k p σ
    · simp
    · simp [h k hk]

/-! ## the invariant in the middle of a walk -/

/-- `rem` = the keys of the delta that are still to be walked, `M0` = the memberlist when the
walk began, `bf` = activity before the merge, `s'` = the merged state -/
structure WInv (bf : Bytes → Bool) (s' : Map) (me : PeerName) (M0 : Members) (b : Broker)
    (rem : List Bytes) : Prop where
  st : b.state = s'
  sf : b.self = me
  noself : mget b.members me = none
  mono : ∀ p, mget b.members p = none → mget M0 p = none
  cwf : ∀ p r, mget b.members p = some r → CWF r.subs
  ceq : ∀ p r, mget b.members p = some r → ∀ σ,
    cget r.subs σ + dplus bf (has s') rem p σ = cnt s' p σ + dminus bf (has s') rem p σ
  cle : ∀ p r, mget b.members p = some r → ∀ σ, dminus bf (has s') rem p σ ≤ cget r.subs σ
  absent : ∀ p, p ≠ me → mget b.members p = none → ∀ σ, cnt s' p σ = dplus bf (has s') rem p σ
  routes : ∀ σ p g, (σ, p, g) ∈ b.routes ↔ ∃ r, mget b.members p = some r ∧ r.gen = g ∧
    (0 < cget r.subs σ ∨ (mget M0 p = none ∧ 0 < dplus bf (has s') rem p σ))

theorem WInv.ne_self {bf : Bytes → Bool} {s' : Map} {me : PeerName} {M0 : Members} {b : Broker}
    {rem : List Bytes} (h : WInv bf s' me M0 b rem) {p : PeerName} {r : PeerRec}
    (hm : mget b.members p = some r) : p ≠ me := by
  intro hp; subst hp; rw [h.noself] at hm; cases hm

/-- a key that is no transition of a remote peer is passed over -/
theorem winv_skip (bf : Bytes → Bool) (s' : Map) (me : PeerName) (M0 : Members) (b : Broker)
    (k : Bytes) (rem : List Bytes) (h : WInv bf s' me M0 b (k :: rem))
    (hk : ∀ p σ, p ≠ me → (keyIs k p σ && !bf k && has s' k) = false ∧ (keyIs k p σ && bf k && !has s' k) = false) :
    WInv bf s' me M0 b rem := by
  have hp : ∀ p σ, p ≠ me → dplus bf (has s') (k :: rem) p σ = dplus bf (has s') rem p σ := by
    intro p σ hp; rw [dplus_cons, (hk p σ hp).1]; simp
  have hm : ∀ p σ, p ≠ me → dminus bf (has s') (k :: rem) p σ = dminus bf (has s') rem p σ := by
    intro p σ hp; rw [dminus_cons, (hk p σ hp).2]; simp
  refine ⟨h.st, h.sf, h.noself, h.mono, h.cwf, ?_, ?_, ?_, ?_⟩
  · intro p r hr σ
    have := h.ceq p r hr σ
    rwa [hp p σ (h.ne_self hr), hm p σ (h.ne_self hr)] at this
  · intro p r hr σ
    have := h.cle p r hr σ
    rwa [hm p σ (h.ne_self hr)] at this
  · intro p hps hr σ
    have := h.absent p hps hr σ
    rwa [hp p σ hps] at this
  · intro σ p g
    rw [h.routes]
    constructor
    · rintro ⟨r, hr, hg, hc⟩
      rw [hp p σ (h.ne_self hr)] at hc
      exact ⟨r, hr, hg, hc⟩
    · rintro ⟨r, hr, hg, hc⟩
      rw [← hp p σ (h.ne_self hr)] at hc
      exact ⟨r, hr, hg, hc⟩

/-- `findPeer` for a remote peer: the peer is a member afterwards, no flag -/
theorem winv_findPeer (bf : Bytes → Bool) (s' : Map) (me : PeerName) (M0 : Members)
    (hB : ∀ p, p ≠ me → mget M0 p = none → ∀ k, keyPeer k p = true → bf k = false)
    (b : Broker) (rem : List Bytes) (h : WInv bf s' me M0 b rem) (q : PeerName) (hq : q ≠ me) :
    WInv bf s' me M0 (findPeer b bf q).1 rem ∧ (findPeer b bf q).2 = [] ∧
      ∃ r, mget (findPeer b bf q).1.members q = some r := by
  cases hm : mget b.members q with
  | some r =>
    rw [findPeer_some b bf q r hm]
    exact ⟨h, rfl, r, hm⟩
  | none =>
    obtain ⟨hst, hsf, _⟩ := findPeer_state b bf q
    obtain ⟨hmem, hrt, hfl⟩ := findPeer_none b bf q hm
    have hM0 : mget M0 q = none := h.mono q hm
    have hbf : ∀ k, keyPeer k q = true → bf k = false := hB q hq hM0
    have hget : ∀ p, mget (findPeer b bf q).1.members p =
        if p = q then some { active := true, gen := b.nextGen, subs := [] } else mget b.members p := by
      intro p; rw [hmem]; exact mget_append_new b.members q p _ hm
    have hdm : ∀ σ, dminus bf (has s') rem q σ = 0 :=
      fun σ => dminus_zero bf (has s') rem q σ (fun k hk => hbf k (keyPeer_of_keyIs k q σ hk))
    refine ⟨⟨hst.trans h.st, hsf.trans h.sf, ?_, ?_, ?_, ?_, ?_, ?_, ?_⟩, ?_, ?_⟩
    · rw [hget, if_neg (Ne.symm hq)]; exact h.noself
    · intro p hp
      rw [hget] at hp
      by_cases hpq : p = q
      · rw [if_pos hpq] at hp; cases hp
      · rw [if_neg hpq] at hp; exact h.mono p hp
    · intro p r hr
      rw [hget] at hr
      by_cases hpq : p = q
      · rw [if_pos hpq] at hr; cases hr; exact cwf_nil
      · rw [if_neg hpq] at hr; exact h.cwf p r hr
    · intro p r hr σ
      rw [hget] at hr
      by_cases hpq : p = q
      · rw [if_pos hpq] at hr; cases hr; subst hpq
        rw [hdm σ, h.absent p hq hm σ]; simp [cget_nil]
      · rw [if_neg hpq] at hr; exact h.ceq p r hr σ
    · intro p r hr σ
      rw [hget] at hr
      by_cases hpq : p = q
      · rw [if_pos hpq] at hr; cases hr; subst hpq
        rw [hdm σ]; exact Nat.zero_le _
      · rw [if_neg hpq] at hr; exact h.cle p r hr σ
    · intro p hps hp σ
      rw [hget] at hp
      by_cases hpq : p = q
      · rw [if_pos hpq] at hp; cases hp
      · rw [if_neg hpq] at hp; exact h.absent p hps hp σ
    · intro σ p g
      have hnone : ∀ σ g', (σ, q, g') ∈ b.routes → g' = b.nextGen := by
        intro σ g' hr
        obtain ⟨r, hr', _⟩ := (h.routes σ q g').mp hr
        rw [hm] at hr'; cases hr'
      rw [hrt, mem_foldl_routeAdd _ q b.nextGen b.routes hnone, hget]
      by_cases hpq : p = q
      · subst hpq
        rw [if_pos rfl]
        constructor
        · rintro (hr | ⟨e, he, hx⟩)
          · obtain ⟨r, hr', _⟩ := (h.routes σ p g).mp hr
            rw [hm] at hr'; cases hr'
          · simp only [Prod.mk.injEq] at hx
            obtain ⟨hσ, _, hg⟩ := hx
            refine ⟨_, rfl, hg.symm, Or.inr ⟨hM0, ?_⟩⟩
            rw [← h.absent p hq hm σ, ← activeOf_iff_cnt, ← h.st]
            exact ⟨e.1, by rw [hσ]; exact he⟩
        · rintro ⟨r, hr, hg, hc⟩
          cases hr
          rcases hc with hc | ⟨_, hc⟩
          · simp [cget_nil] at hc
          · rw [← h.absent p hq hm σ, ← activeOf_iff_cnt, ← h.st] at hc
            obtain ⟨c, hc⟩ := hc
            exact Or.inr ⟨(c, σ), hc, by rw [← hg]⟩
      · rw [if_neg hpq, ← h.routes]
        constructor
        · rintro (hr | ⟨e, _, hx⟩)
          · exact hr
          · simp only [Prod.mk.injEq] at hx
            exact absurd hx.2.1 hpq
        · exact Or.inl
    · rw [hfl, if_neg]
      intro hany
      rw [List.any_eq_true] at hany
      obtain ⟨e, _, he⟩ := hany
      simp only [Bool.and_eq_true] at he
      rw [hbf e.1 he.1.2] at he
      exact absurd he.2 (by simp)
    · rw [hget, if_pos rfl]; exact ⟨_, rfl⟩

/-- an entry of a member became active -/
theorem winv_onAdded (bf : Bytes → Bool) (s' : Map) (me : PeerName) (M0 : Members) (b : Broker)
    (k : Bytes) (rem : List Bytes) (h : WInv bf s' me M0 b (k :: rem))
    (q : PeerName) (σk : Ssid) (hki : ∀ p σ, keyIs k p σ = true ↔ (p = q ∧ σ = σk)) (h1 : bf k = false) (h2 : has s' k = true)
    (r : PeerRec) (hm : mget b.members q = some r)
    (hfl : (onAdded b q σk).2 = []) :
    WInv bf s' me M0 (onAdded b q σk).1 rem := by
  obtain ⟨hst, hsf, _, hmem, hrt, hact⟩ := onAdded_some b q σk r hm
  have hdp : ∀ p σ, dplus bf (has s') (k :: rem) p σ =
      (if p = q ∧ σ = σk then 1 else 0) + dplus bf (has s') rem p σ := by
    intro p σ; rw [dplus_cons]
    by_cases hc : p = q ∧ σ = σk
    · rw [if_pos hc, (hki p σ).mpr hc, h1, h2]; rfl
    · have : keyIs k p σ = false := by
        cases hh : keyIs k p σ
        · rfl
        · exact absurd ((hki p σ).mp hh) hc
      rw [if_neg hc, this]; rfl
  have hdm : ∀ p σ, dminus bf (has s') (k :: rem) p σ = dminus bf (has s') rem p σ := by
    intro p σ; rw [dminus_cons, h1]; simp
  have hget : ∀ p, mget (onAdded b q σk).1.members p =
      if p = q then some { r with subs := (cinc r.subs σk).1 } else mget b.members p := by
    intro p; rw [hmem, mget_mset, hm]; rfl
  have hcg := cget_cinc r.subs σk
  have hqme : q ≠ me := h.ne_self hm
  refine ⟨hst.trans h.st, hsf.trans h.sf, ?_, ?_, ?_, ?_, ?_, ?_, ?_⟩
  · rw [hget, if_neg (Ne.symm hqme)]; exact h.noself
  · intro p hp
    rw [hget] at hp
    by_cases hpq : p = q
    · rw [if_pos hpq] at hp; cases hp
    · rw [if_neg hpq] at hp; exact h.mono p hp
  · intro p r' hr
    rw [hget] at hr
    by_cases hpq : p = q
    · rw [if_pos hpq] at hr; cases hr; exact cwf_cinc r.subs σk (h.cwf _ r hm)
    · rw [if_neg hpq] at hr; exact h.cwf p r' hr
  · intro p r' hr σ
    rw [hget] at hr
    by_cases hpq : p = q
    · rw [if_pos hpq] at hr; cases hr; subst hpq
      have := h.ceq _ r hm σ
      rw [hdp, hdm] at this
      show cget (cinc r.subs σk).1 σ + _ = _
      rw [hcg]
      by_cases hσ : σ = σk
      · subst hσ; rw [if_pos ⟨rfl, rfl⟩] at this; rw [if_pos rfl]; omega
      · rw [if_neg (fun hh => hσ hh.2)] at this; rw [if_neg hσ]; omega
    · rw [if_neg hpq] at hr
      have := h.ceq p r' hr σ
      rw [hdp, hdm, if_neg (fun hh => hpq hh.1)] at this
      omega
  · intro p r' hr σ
    rw [hget] at hr
    by_cases hpq : p = q
    · rw [if_pos hpq] at hr; cases hr; subst hpq
      have := h.cle _ r hm σ
      rw [hdm] at this
      show _ ≤ cget (cinc r.subs σk).1 σ
      rw [hcg]
      by_cases hσ : σ = σk
      · subst hσ; rw [if_pos rfl]; omega
      · rw [if_neg hσ]; omega
    · rw [if_neg hpq] at hr
      have := h.cle p r' hr σ
      rwa [hdm] at this
  · intro p hps hp σ
    rw [hget] at hp
    by_cases hpq : p = q
    · rw [if_pos hpq] at hp; cases hp
    · rw [if_neg hpq] at hp
      have := h.absent p hps hp σ
      rw [hdp, if_neg (fun hh => hpq hh.1)] at this
      omega
  · intro σ p g
    have hold := h.routes σ p g
    rw [hdp] at hold
    rw [hget]
    by_cases hpq : p = q
    · subst hpq
      rw [if_pos rfl]
      rw [hm] at hold
      simp only [Option.some.injEq, exists_eq_left'] at hold ⊢
      rw [hcg]
      by_cases hσ : σ = σk
      · subst hσ
        rw [if_pos rfl]
        rw [if_pos (by simp)] at hold
        have hR : (r.gen = g ∧ (0 < cget r.subs σ + 1 ∨ mget M0 p = none ∧ 0 < dplus bf (has s') rem p σ)) ↔ r.gen = g :=
          ⟨fun hh => hh.1, fun hh => ⟨hh, Or.inl (Nat.succ_pos _)⟩⟩
        rw [hR, hrt]
        by_cases hfirst : (cinc r.subs σ).2 = true
        · rw [if_pos ⟨hfirst, hact hfl hfirst⟩, mem_routeAdd]
          constructor
          · rintro (hh | ⟨hh, _⟩)
            · exact (hold.mp hh).1
            · simp only [Prod.mk.injEq] at hh; exact hh.2.2.symm
          · intro hg
            by_cases hhr : hasRoute b.routes σ p = true
            · obtain ⟨g', hg'⟩ := (hasRoute_iff b.routes σ p).mp hhr
              have := ((h.routes σ p g').mp hg')
              rw [hm] at this
              simp only [Option.some.injEq, exists_eq_left'] at this
              rw [← hg, this.1]; exact Or.inl hg'
            · exact Or.inr ⟨by rw [hg], by simpa using hhr⟩
        · rw [if_neg (fun hh => hfirst hh.1), hold]
          rw [cinc_first] at hfirst
          have hpos : 0 < cget r.subs σ := by
            apply Nat.pos_of_ne_zero; intro h0; apply hfirst; rw [h0]; rfl
          exact ⟨fun hh => hh.1, fun hh => ⟨hh, Or.inl hpos⟩⟩
      · rw [if_neg hσ]
        rw [if_neg (fun hh => hσ hh.2), Nat.zero_add] at hold
        rw [← hold, hrt]
        by_cases hfirst : (cinc r.subs σk).2 = true ∧ r.active = true
        · rw [if_pos hfirst, mem_routeAdd]
          constructor
          · rintro (hh | ⟨hh, _⟩)
            · exact hh
            · simp only [Prod.mk.injEq] at hh; exact absurd hh.1 hσ
          · exact Or.inl
        · rw [if_neg hfirst]
    · rw [if_neg hpq]
      rw [if_neg (fun hh => hpq hh.1), Nat.zero_add] at hold
      rw [← hold, hrt]
      by_cases hfirst : (cinc r.subs σk).2 = true ∧ r.active = true
      · rw [if_pos hfirst, mem_routeAdd]
        constructor
        · rintro (hh | ⟨hh, _⟩)
          · exact hh
          · simp only [Prod.mk.injEq] at hh; exact absurd hh.2.1 hpq
        · exact Or.inl
      · rw [if_neg hfirst]

/-- an entry of a member became inactive -/
theorem winv_onRemoved (bf : Bytes → Bool) (s' : Map) (me : PeerName) (M0 : Members) (b : Broker)
    (k : Bytes) (rem : List Bytes) (h : WInv bf s' me M0 b (k :: rem))
    (q : PeerName) (σk : Ssid) (hki : ∀ p σ, keyIs k p σ = true ↔ (p = q ∧ σ = σk)) (h1 : bf k = true) (h2 : has s' k = false)
    (hM0 : mget M0 q ≠ none)
    (r : PeerRec) (hm : mget b.members q = some r)
    (hfl : (onRemoved b q σk).2 = []) :
    WInv bf s' me M0 (onRemoved b q σk).1 rem := by
  obtain ⟨hst, hsf, _, hmem, hrt, hact⟩ := onRemoved_some b q σk r hm
  have hdm : ∀ p σ, dminus bf (has s') (k :: rem) p σ =
      (if p = q ∧ σ = σk then 1 else 0) + dminus bf (has s') rem p σ := by
    intro p σ; rw [dminus_cons]
    by_cases hc : p = q ∧ σ = σk
    · rw [if_pos hc, (hki p σ).mpr hc, h1, h2]; rfl
    · have : keyIs k p σ = false := by
        cases hh : keyIs k p σ
        · rfl
        · exact absurd ((hki p σ).mp hh) hc
      rw [if_neg hc, this]; rfl
  have hdp : ∀ p σ, dplus bf (has s') (k :: rem) p σ = dplus bf (has s') rem p σ := by
    intro p σ; rw [dplus_cons, h1]; simp
  have hget : ∀ p, mget (onRemoved b q σk).1.members p =
      if p = q then some { r with subs := (cdec r.subs σk).1 } else mget b.members p := by
    intro p; rw [hmem, mget_mset, hm]; rfl
  have hcwf : CWF r.subs := h.cwf q r hm
  have hcg := fun σ => cget_cdec r.subs σk σ hcwf
  have hqme : q ≠ me := h.ne_self hm
  have hge : 1 + dminus bf (has s') rem q σk ≤ cget r.subs σk := by
    have := h.cle q r hm σk
    rwa [hdm, if_pos ⟨rfl, rfl⟩] at this
  refine ⟨hst.trans h.st, hsf.trans h.sf, ?_, ?_, ?_, ?_, ?_, ?_, ?_⟩
  · rw [hget, if_neg (Ne.symm hqme)]; exact h.noself
  · intro p hp
    rw [hget] at hp
    by_cases hpq : p = q
    · rw [if_pos hpq] at hp; cases hp
    · rw [if_neg hpq] at hp; exact h.mono p hp
  · intro p r' hr
    rw [hget] at hr
    by_cases hpq : p = q
    · rw [if_pos hpq] at hr; cases hr; exact cwf_cdec r.subs σk hcwf
    · rw [if_neg hpq] at hr; exact h.cwf p r' hr
  · intro p r' hr σ
    rw [hget] at hr
    by_cases hpq : p = q
    · rw [if_pos hpq] at hr; cases hr; subst hpq
      have := h.ceq _ r hm σ
      rw [hdp, hdm] at this
      show cget (cdec r.subs σk).1 σ + _ = _
      rw [hcg]
      by_cases hσ : σ = σk
      · subst hσ; rw [if_pos ⟨rfl, rfl⟩] at this; rw [if_pos rfl]; omega
      · rw [if_neg (fun hh => hσ hh.2)] at this; rw [if_neg hσ]; omega
    · rw [if_neg hpq] at hr
      have := h.ceq p r' hr σ
      rw [hdp, hdm, if_neg (fun hh => hpq hh.1)] at this
      omega
  · intro p r' hr σ
    rw [hget] at hr
    by_cases hpq : p = q
    · rw [if_pos hpq] at hr; cases hr; subst hpq
      have := h.cle _ r hm σ
      rw [hdm] at this
      show _ ≤ cget (cdec r.subs σk).1 σ
      rw [hcg]
      by_cases hσ : σ = σk
      · subst hσ; rw [if_pos rfl]; omega
      · rw [if_neg (fun hh => hσ hh.2)] at this; rw [if_neg hσ]; omega
    · rw [if_neg hpq] at hr
      have := h.cle p r' hr σ
      rw [hdm, if_neg (fun hh => hpq hh.1)] at this
      omega
  · intro p hps hp σ
    rw [hget] at hp
    by_cases hpq : p = q
    · rw [if_pos hpq] at hp; cases hp
    · rw [if_neg hpq] at hp
      have := h.absent p hps hp σ
      rwa [hdp] at this
  · intro σ p g
    have hold := h.routes σ p g
    rw [hdp] at hold
    rw [hget]
    by_cases hpq : p = q
    · subst hpq
      rw [if_pos rfl]
      rw [hm] at hold
      simp only [Option.some.injEq, exists_eq_left', hM0, false_and, or_false] at hold ⊢
      rw [hcg]
      by_cases hσ : σ = σk
      · subst hσ
        rw [if_pos rfl, hrt]
        by_cases hlast : (cdec r.subs σ).2 = true
        · rw [if_pos ⟨hlast, hact hfl hlast⟩, mem_routeDel]
          rw [cdec_last r.subs σ hcwf] at hlast
          have h1' : cget r.subs σ = 1 := by simpa using hlast
          constructor
          · rintro ⟨_, hh⟩; exact absurd ⟨rfl, rfl⟩ hh
          · rintro ⟨_, hh⟩; omega
        · rw [if_neg (fun hh => hlast hh.1), hold]
          rw [cdec_last r.subs σ hcwf] at hlast
          have h1' : cget r.subs σ ≠ 1 := by simpa using hlast
          constructor
          · rintro ⟨hg, _⟩; exact ⟨hg, by omega⟩
          · rintro ⟨hg, _⟩; exact ⟨hg, by omega⟩
      · rw [if_neg hσ, ← hold, hrt]
        by_cases hlast : (cdec r.subs σk).2 = true ∧ r.active = true
        · rw [if_pos hlast, mem_routeDel]
          exact ⟨fun hh => hh.1, fun hh => ⟨hh, fun hc => hσ hc.1⟩⟩
        · rw [if_neg hlast]
    · rw [if_neg hpq, ← hold, hrt]
      by_cases hlast : (cdec r.subs σk).2 = true ∧ r.active = true
      · rw [if_pos hlast, mem_routeDel]
        exact ⟨fun hh => hh.1, fun hh => ⟨hh, fun hc => hpq hc.2⟩⟩
      · rw [if_neg hlast]

/-! ## one step and the whole walk -/

theorem walkOne_flags (bf : Bytes → Bool) (acc : Broker × List Flag) (k : Bytes) :
    ∃ l, (walkOne bf acc k).2 = acc.2 ++ l := by
  cases h : decKey k with
  | none => rw [walkOne_none bf acc k h]; exact ⟨[], by simp⟩
  | some sk =>
    by_cases hs : sk.peer = acc.1.self
    · rw [walkOne_self bf acc k sk h hs]; exact ⟨[], by simp⟩
    · cases h1 : bf k <;> cases h2 : has acc.1.state k
      · rw [walkOne_same bf acc k sk h hs (by rw [h1, h2])]; exact ⟨_, rfl⟩
      · rw [walkOne_add bf acc k sk h hs h1 h2]; exact ⟨_, List.append_assoc _ _ _⟩
      · rw [walkOne_del bf acc k sk h hs h1 h2]; exact ⟨_, List.append_assoc _ _ _⟩
      · rw [walkOne_same bf acc k sk h hs (by rw [h1, h2])]; exact ⟨_, rfl⟩

theorem foldl_walkOne_flags (bf : Bytes → Bool) (ks : List Bytes) (acc : Broker × List Flag) :
    ∃ l, (ks.foldl (walkOne bf) acc).2 = acc.2 ++ l := by
  induction ks generalizing acc with
  | nil => exact ⟨[], by simp⟩
  | cons k ks ih =>
    rw [List.foldl_cons]
    obtain ⟨l1, h1⟩ := ih (walkOne bf acc k)
    obtain ⟨l2, h2⟩ := walkOne_flags bf acc k
    exact ⟨l2 ++ l1, by rw [h1, h2, List.append_assoc]⟩

theorem winv_walkOne (bf : Bytes → Bool) (s' : Map) (me : PeerName) (M0 : Members)
    (hB : ∀ p, p ≠ me → mget M0 p = none → ∀ k, keyPeer k p = true → bf k = false)
    (acc : Broker × List Flag) (k : Bytes) (rem : List Bytes)
    (h : WInv bf s' me M0 acc.1 (k :: rem)) (hfl : (walkOne bf acc k).2 = []) :
    WInv bf s' me M0 (walkOne bf acc k).1 rem := by
  cases hd : decKey k with
  | none =>
    rw [walkOne_none bf acc k hd]
    refine winv_skip bf s' me M0 acc.1 k rem h ?_
    intro p σ _
    rw [keyIs_of_dec_none k hd]; simp
  | some sk =>
    have hki := keyIs_of_dec k sk hd
    by_cases hs : sk.peer = acc.1.self
    · rw [walkOne_self bf acc k sk hd hs]
      refine winv_skip bf s' me M0 acc.1 k rem h ?_
      intro p σ hp
      have : keyIs k p σ = false := by
        cases hh : keyIs k p σ
        · rfl
        · exact absurd (((hki p σ).mp hh).1.trans (hs.trans h.sf)) hp
      rw [this]; simp
    · have hq : sk.peer ≠ me := fun hh => hs (hh.trans h.sf.symm)
      obtain ⟨hW, hf2, r, hr⟩ := winv_findPeer bf s' me M0 hB acc.1 (k :: rem) h sk.peer hq
      have hst : acc.1.state = s' := h.st
      cases h1 : bf k <;> cases h2 : has s' k
      · rw [walkOne_same bf acc k sk hd hs (by rw [h1, hst, h2])]
        refine winv_skip bf s' me M0 _ k rem hW ?_
        intro p σ _; rw [h1, h2]; simp
      · rw [walkOne_add bf acc k sk hd hs h1 (by rw [hst, h2])] at hfl ⊢
        have hfl' : (onAdded (findPeer acc.1 bf sk.peer).1 sk.peer sk.ssid).2 = [] :=
          (List.append_eq_nil_iff.mp hfl).2
        exact winv_onAdded bf s' me M0 _ k rem hW sk.peer sk.ssid hki h1 h2 r hr hfl'
      · rw [walkOne_del bf acc k sk hd hs h1 (by rw [hst, h2])] at hfl ⊢
        have hfl' : (onRemoved (findPeer acc.1 bf sk.peer).1 sk.peer sk.ssid).2 = [] :=
          (List.append_eq_nil_iff.mp hfl).2
        have hM0 : mget M0 sk.peer ≠ none := by
          intro hn
          have := hB sk.peer hq hn k ((keyPeer_iff k sk.peer).mpr ⟨sk, hd, rfl⟩)
          rw [h1] at this; cases this
        exact winv_onRemoved bf s' me M0 _ k rem hW sk.peer sk.ssid hki h1 h2 hM0 r hr hfl'
      · rw [walkOne_same bf acc k sk hd hs (by rw [h1, hst, h2])]
        refine winv_skip bf s' me M0 _ k rem hW ?_
        intro p σ _; rw [h1, h2]; simp

theorem winv_foldl (bf : Bytes → Bool) (s' : Map) (me : PeerName) (M0 : Members)
    (hB : ∀ p, p ≠ me → mget M0 p = none → ∀ k, keyPeer k p = true → bf k = false)
    (ks : List Bytes) (acc : Broker × List Flag)
    (h : WInv bf s' me M0 acc.1 ks) (hfl : (ks.foldl (walkOne bf) acc).2 = []) :
    WInv bf s' me M0 (ks.foldl (walkOne bf) acc).1 [] := by
  induction ks generalizing acc with
  | nil => exact h
  | cons k ks ih =>
    rw [List.foldl_cons] at hfl ⊢
    obtain ⟨l, hl⟩ := foldl_walkOne_flags bf ks (walkOne bf acc k)
    rw [hl] at hfl
    exact ih (walkOne bf acc k) (winv_walkOne bf s' me M0 hB acc k ks h (List.append_eq_nil_iff.mp hfl).1)
      (by rw [hl]; exact hfl)

/-- the end of the walk: the invariant of the broker -/
theorem binv_of_winv (bf : Bytes → Bool) (M0 : Members) (b : Broker)
    (h : WInv bf b.state b.self M0 b []) (hself : b.self < 18446744073709551616)
    (hnd : NoDup b.state) (hnn : NonNeg b.state) : BInv b := by
  refine ⟨hself, hnd, hnn, h.noself, h.cwf, ?_, ?_, ?_⟩
  · intro p r hr σ
    have := h.ceq p r hr σ
    rw [dplus_nil, dminus_nil] at this
    omega
  · intro p hp hm σ
    have := h.absent p hp hm σ
    rwa [dplus_nil] at this
  · intro σ p g
    rw [h.routes]
    constructor
    · rintro ⟨r, hr, hg, hc | ⟨_, hc⟩⟩
      · exact ⟨r, hr, hg, hc⟩
      · rw [dplus_nil] at hc; exact absurd hc (Nat.lt_irrefl 0)
    · rintro ⟨r, hr, hg, hc⟩
      exact ⟨r, hr, hg, Or.inl hc⟩

/-- the start of the walk -/
theorem winv_start (ord : List Bytes → List Bytes) (b : Broker) (r : Map)
    (hb : BInv b) (hr : NoDup r)
    (hord : (ord ((merge b.state r).2.map Prod.fst)).Perm ((merge b.state r).2.map Prod.fst)) :
    WInv (fun k => has b.state k) (merge b.state r).1 b.self b.members
      { b with state := (merge b.state r).1 } (ord ((merge b.state r).2.map Prod.fst)) := by
  have hbf : (fun k => has b.state k) = has b.state := rfl
  rw [hbf]
  have hcm := cnt_merge b.state r hb.nodup hb.nonneg hr
  have hnd : (ord ((merge b.state r).2.map Prod.fst)).Nodup := hord.nodup_iff.mpr (delta_keys_nodup b.state r hr)
  have hle := fun p σ => dminus_le_cnt b.state hb.nodup (has (merge b.state r).1) _ hnd p σ
  have hp := fun p σ => dplus_perm (has b.state) (has (merge b.state r).1) _ _ hord p σ
  have hm := fun p σ => dminus_perm (has b.state) (has (merge b.state r).1) _ _ hord p σ
  refine ⟨rfl, rfl, hb.noself, fun _ hh => hh, hb.cwf, ?_, ?_, ?_, ?_⟩
  · intro p rc hrc σ
    have := hcm p σ
    rw [hp, hm, hb.counters p rc hrc σ]
    omega
  · intro p rc hrc σ
    rw [hb.counters p rc hrc σ]; exact hle p σ
  · intro p hps hpm σ
    have h0 := hb.absent p hps hpm σ
    have h1 := hle p σ
    have := hcm p σ
    rw [hp]
    rw [hm] at h1
    omega
  · intro σ p g
    show (σ, p, g) ∈ b.routes ↔ _
    rw [hb.routes]
    constructor
    · rintro ⟨rc, hrc, hg, hc⟩
      exact ⟨rc, hrc, hg, Or.inl hc⟩
    · rintro ⟨rc, hrc, hg, hc | ⟨hn, _⟩⟩
      · exact ⟨rc, hrc, hg, hc⟩
      · rw [hrc] at hn; cases hn

/-- an absent peer had no active entry before the merge -/
theorem before_of_absent (b : Broker) (hb : BInv b) :
    ∀ p, p ≠ b.self → mget b.members p = none → ∀ k, keyPeer k p = true → has b.state k = false := by
  intro p hp hm k hk
  cases hh : has b.state k
  · rfl
  · obtain ⟨sk, hd, hpeer⟩ := (keyPeer_iff k p).mp hk
    have : 0 < cnt b.state p sk.ssid :=
      (cnt_pos_iff_has b.state hb.nodup p sk.ssid).mpr ⟨k, hh, (keyIs_iff k p sk.ssid).mpr ⟨sk, hd, hpeer, rfl⟩⟩
    rw [hb.absent p hp hm sk.ssid] at this
    exact absurd this (Nat.lt_irrefl 0)

/-- `Swarm.merge` preserves the routing invariant, whatever the order in which the delta (a Go
map) is walked, on every payload without repeated keys, unless it processes a first / last
transition of a peer that counts as inactive (the only flag that can be raised from a state
that satisfies the invariant) -/
theorem binv_mergeOrd (ord : List Bytes → List Bytes) (b : Broker) (r : Map)
    (hb : BInv b) (hr : NoDup r)
    (hord : (ord ((merge b.state r).2.map Prod.fst)).Perm ((merge b.state r).2.map Prod.fst))
    (hf : (mergeStepOrd ord b r).flags = []) : BInv (mergeStepOrd ord b r).broker := by
  have hW := winv_foldl (fun k => has b.state k) (merge b.state r).1 b.self b.members
    (before_of_absent b hb) (ord ((merge b.state r).2.map Prod.fst))
    ({ b with state := (merge b.state r).1 }, []) (winv_start ord b r hb hr hord) hf
  have hst := foldl_walkOne_state (fun k => has b.state k) (ord ((merge b.state r).2.map Prod.fst))
    ({ b with state := (merge b.state r).1 }, [])
  show BInv (List.foldl (walkOne fun k => has b.state k) ({ b with state := (merge b.state r).1 }, [])
    (ord ((merge b.state r).2.map Prod.fst))).1
  refine binv_of_winv (fun k => has b.state k) b.members _ ?_ ?_ ?_ ?_
  · rw [hst.1, hst.2.1]; exact hW
  · rw [hst.2.1]; exact hb.selfRange
  · rw [hst.1]; exact nodup_merge b.state r hb.nodup
  · rw [hst.1]; exact nonneg_merge b.state r hb.nonneg

/-- the merged state is the LWW merge, the returned delta is the LWW delta (C04 / C13 apply) -/
theorem mergeOrd_state (ord : List Bytes → List Bytes) (b : Broker) (r : Map) :
    (mergeStepOrd ord b r).broker.state = (merge b.state r).1 ∧
    (mergeStepOrd ord b r).broker.self = b.self ∧
    (mergeStepOrd ord b r).broker.locals = b.locals ∧
    (mergeStepOrd ord b r).delta = (if (merge b.state r).2.isEmpty then none else some (merge b.state r).2) := by
  have h := foldl_walkOne_state (fun k => has b.state k) (ord ((merge b.state r).2.map Prod.fst))
    ({ b with state := (merge b.state r).1 }, [])
  unfold mergeStepOrd walk
  exact ⟨h.1, h.2.1, h.2.2, rfl⟩

end Emitter.Cluster
