import Emitter.Model.Cipher
namespace Emitter.Cipher
open Emitter

/-! ### base64 -/

theorem decodeMap_encChar : ∀ i : Fin 64, decodeMap (encChar i.val) = UInt8.ofNat i.val := by decide +kernel

theorem decodeMap_encChar' (i : Nat) (h : i < 64) : decodeMap (encChar i) = UInt8.ofNat i :=
  decodeMap_encChar ⟨i, h⟩

theorem ofNat_ne_ff (i : Nat) (h : i < 64) : (UInt8.ofNat i == 0xFF) = false := by
  have : (UInt8.ofNat i).toNat = i := by simp [UInt8.toNat_ofNat']; omega
  simp only [beq_eq_false_iff_ne, ne_eq]
  intro hc
  have h2 := congrArg UInt8.toNat hc
  rw [this] at h2
  simp at h2
  omega

theorem decodeKeyAux_encode (bs : Bytes) (idx : Nat) :
    decodeKeyAux (b64Encode bs) idx = .ok bs := by
  induction bs using b64Encode.induct generalizing idx with
  | case1 a b c rest ih =>
      have ha := a.toNat_lt; have hb := b.toNat_lt; have hc := c.toNat_lt
      simp only [b64Encode, decodeKeyAux]
      have e1 := decodeMap_encChar' ((a.toNat * 65536 + b.toNat * 256 + c.toNat) / 262144 % 64) (by omega)
      have e2 := decodeMap_encChar' ((a.toNat * 65536 + b.toNat * 256 + c.toNat) / 4096 % 64) (by omega)
      have e3 := decodeMap_encChar' ((a.toNat * 65536 + b.toNat * 256 + c.toNat) / 64 % 64) (by omega)
      have e4 := decodeMap_encChar' ((a.toNat * 65536 + b.toNat * 256 + c.toNat) % 64) (by omega)
      rw [e1, e2, e3, e4]
      rw [ofNat_ne_ff _ (by omega), ofNat_ne_ff _ (by omega), ofNat_ne_ff _ (by omega), ofNat_ne_ff _ (by omega)]
      simp only [Bool.false_eq_true, if_false]
      rw [ih (idx + 4)]
      simp only [Outcome.ok.injEq, List.cons.injEq, and_true]
      refine ⟨?_, ?_, ?_⟩ <;> apply UInt8.toNat.inj <;> simp [UInt8.toNat_ofNat'] <;> omega
  | case2 a b =>
      have ha := a.toNat_lt; have hb := b.toNat_lt
      simp only [b64Encode, decodeKeyAux]
      have e1 := decodeMap_encChar' ((a.toNat * 65536 + b.toNat * 256) / 262144 % 64) (by omega)
      have e2 := decodeMap_encChar' ((a.toNat * 65536 + b.toNat * 256) / 4096 % 64) (by omega)
      have e3 := decodeMap_encChar' ((a.toNat * 65536 + b.toNat * 256) / 64 % 64) (by omega)
      rw [e1, e2, e3]
      rw [ofNat_ne_ff _ (by omega), ofNat_ne_ff _ (by omega), ofNat_ne_ff _ (by omega)]
      simp only [Bool.false_eq_true, if_false]
      simp only [Outcome.ok.injEq, List.cons.injEq, and_true]
      refine ⟨?_, ?_⟩ <;> apply UInt8.toNat.inj <;> simp [UInt8.toNat_ofNat'] <;> omega
  | case3 a =>
      have ha := a.toNat_lt
      simp only [b64Encode, decodeKeyAux]
      have e1 := decodeMap_encChar' ((a.toNat * 65536) / 262144 % 64) (by omega)
      have e2 := decodeMap_encChar' ((a.toNat * 65536) / 4096 % 64) (by omega)
      rw [e1, e2]
      rw [ofNat_ne_ff _ (by omega), ofNat_ne_ff _ (by omega)]
      simp only [Bool.false_eq_true, if_false]
      simp only [Outcome.ok.injEq, List.cons.injEq, and_true]
      apply UInt8.toNat.inj; simp [UInt8.toNat_ofNat']; omega
  | case4 => simp [b64Encode, decodeKeyAux]

/-- every character `b64Encode` emits is in the alphabet -/
theorem b64Encode_valid (bs : Bytes) : ∀ ch ∈ b64Encode bs, (decodeMap ch == 0xFF) = false := by
  have key : ∀ n, (decodeMap (encChar (n % 64)) == 0xFF) = false := by
    intro n
    rw [decodeMap_encChar' (n % 64) (by omega)]
    exact ofNat_ne_ff _ (by omega)
  induction bs using b64Encode.induct with
  | case1 a b c rest ih =>
      intro ch h
      simp only [b64Encode, List.mem_cons] at h
      rcases h with h | h | h | h | h
      · subst h; exact key _
      · subst h; exact key _
      · subst h; exact key _
      · subst h; exact key _
      · exact ih ch h
  | case2 a b =>
      intro ch h
      simp only [b64Encode, List.mem_cons, List.not_mem_nil, or_false] at h
      rcases h with h | h | h <;> subst h <;> exact key _
  | case3 a =>
      intro ch h
      simp only [b64Encode, List.mem_cons, List.not_mem_nil, or_false] at h
      rcases h with h | h <;> subst h <;> exact key _
  | case4 => intro ch h; simp [b64Encode] at h

/-- a string containing a character outside the alphabet is rejected -/
theorem decodeKeyAux_err (s : Bytes) (idx : Nat) (h : ∃ ch ∈ s, (decodeMap ch == 0xFF) = true) :
    ∃ e, decodeKeyAux s idx = .err e := by
  fun_induction decodeKeyAux s idx with
  | case1 => exact ⟨_, rfl⟩
  | case2 => exact ⟨_, rfl⟩
  | case3 => exact ⟨_, rfl⟩
  | case4 => exact ⟨_, rfl⟩
  | case5 a b c d rest idx da db dc dd h1 h2 h3 h4 v r hr ih =>
      obtain ⟨ch, hm, hc⟩ := h
      simp only [List.mem_cons] at hm
      rcases hm with hm | hm | hm | hm | hm
      · subst hm; exact absurd hc h1
      · subst hm; exact absurd hc h2
      · subst hm; exact absurd hc h3
      · subst hm; exact absurd hc h4
      · obtain ⟨e, he⟩ := ih ⟨ch, hm, hc⟩
        rw [hr] at he; cases he
  | case6 a b c d rest idx da db dc dd h1 h2 h3 h4 hne ih =>
      obtain ⟨ch, hm, hc⟩ := h
      simp only [List.mem_cons] at hm
      rcases hm with hm | hm | hm | hm | hm
      · subst hm; exact absurd hc h1
      · subst hm; exact absurd hc h2
      · subst hm; exact absurd hc h3
      · subst hm; exact absurd hc h4
      · exact ih ⟨ch, hm, hc⟩
  | case7 => exact ⟨_, rfl⟩
  | case8 => exact ⟨_, rfl⟩
  | case9 => exact ⟨_, rfl⟩
  | case10 a b c idx da db dc h1 h2 h3 v =>
      obtain ⟨ch, hm, hc⟩ := h
      simp only [List.mem_cons, List.not_mem_nil, or_false] at hm
      rcases hm with hm | hm | hm
      · subst hm; exact absurd hc h1
      · subst hm; exact absurd hc h2
      · subst hm; exact absurd hc h3
  | case11 => exact ⟨_, rfl⟩
  | case12 => exact ⟨_, rfl⟩
  | case13 a b idx da db h1 h2 v =>
      obtain ⟨ch, hm, hc⟩ := h
      simp only [List.mem_cons, List.not_mem_nil, or_false] at hm
      rcases hm with hm | hm
      · subst hm; exact absurd hc h1
      · subst hm; exact absurd hc h2
  | case14 => exact ⟨_, rfl⟩
  | case15 => simp at h

theorem b64Encode_length (bs : Bytes) (h : bs.length % 3 = 0) : (b64Encode bs).length = bs.length / 3 * 4 := by
  induction bs using b64Encode.induct with
  | case1 a b c rest ih =>
      have hl : rest.length % 3 = 0 := by simp at h; omega
      simp only [b64Encode, List.length_cons, ih hl]
      omega
  | case2 a b => simp at h
  | case3 a => simp at h
  | case4 => simp [b64Encode]

end Emitter.Cipher

namespace Emitter.Cipher
open Emitter

/-! ### XTEA -/

theorem iter_succ' {α} (f : α → α) (n : Nat) (a : α) : iter f (n + 1) a = f (iter f n a) := by
  induction n generalizing a with
  | zero => rfl
  | succ n ih => simp only [iter] at ih ⊢; rw [ih]

theorem decRound_encRound (k : XteaKey) (st : UInt32 × UInt32 × UInt32) : decRound k (encRound k st) = st := by
  obtain ⟨y, z, s⟩ := st
  simp [decRound, encRound, UInt32.add_sub_cancel]

theorem iter_dec_enc (k : XteaKey) (n : Nat) (st : UInt32 × UInt32 × UInt32) :
    iter (decRound k) n (iter (encRound k) n st) = st := by
  induction n generalizing st with
  | zero => rfl
  | succ n ih =>
      rw [iter_succ' (encRound k)]
      simp only [iter]
      rw [decRound_encRound, ih]

theorem encRound_sum (k : XteaKey) (n : Nat) (st : UInt32 × UInt32 × UInt32) :
    (iter (encRound k) n st).2.2 = st.2.2 + UInt32.ofNat n * xteaDelta := by
  induction n generalizing st with
  | zero => simp [iter]
  | succ n ih =>
      simp only [iter]
      rw [ih]
      obtain ⟨y, z, s⟩ := st
      simp only [encRound]
      have : UInt32.ofNat (n + 1) = UInt32.ofNat n + 1 := by
        apply UInt32.toNat.inj; simp [UInt32.toNat_ofNat', UInt32.toNat_add]
      rw [this, UInt32.add_mul, UInt32.one_mul, UInt32.add_assoc, UInt32.add_comm xteaDelta]

/-- regenerated constants: the decipher start value is `delta * rounds` -/
theorem xteaSum_eq : xteaSum = UInt32.ofNat xteaRounds * xteaDelta := by decide

theorem decBlock_encBlock (k : XteaKey) (y z : UInt32) :
    decBlock k (encBlock k y z).1 (encBlock k y z).2 = (y, z) := by
  unfold decBlock encBlock
  have hs := encRound_sum k xteaRounds (y, z, 0)
  have hi := iter_dec_enc k xteaRounds (y, z, 0)
  generalize iter (encRound k) xteaRounds (y, z, 0) = r at hs hi
  obtain ⟨y', z', s'⟩ := r
  simp only [UInt32.zero_add] at hs
  simp only
  rw [xteaSum_eq, ← hs, hi]

theorem whitenTail_invol (s0 s1 : UInt8) (bs : Bytes) : whitenTail s0 s1 (whitenTail s0 s1 bs) = bs := by
  fun_induction whitenTail s0 s1 bs with
  | case1 a b rest ih => simp [whitenTail, ih, UInt8.xor_assoc]
  | case2 t h =>
      rw [whitenTail.eq_def]
      split
      · rename_i a b r; exact absurd rfl (h a b r)
      · rfl

theorem whiten_invol (bs : Bytes) : whiten (whiten bs) = bs := by
  match bs with
  | [] => rfl
  | [a] => rfl
  | a :: b :: r => simp [whiten, whitenTail_invol]

theorem mapBlocks_inv (f g : UInt32 → UInt32 → UInt32 × UInt32)
    (hfg : ∀ y z, g (f y z).1 (f y z).2 = (y, z)) (bs : Bytes) :
    mapBlocks g (mapBlocks f bs) = bs := by
  fun_induction mapBlocks f bs with
  | case1 a b c d e f' g' h rest r ih =>
      have h1 : putBe32 r.1 = [UInt8.ofNat (r.1.toNat / 16777216), UInt8.ofNat (r.1.toNat / 65536), UInt8.ofNat (r.1.toNat / 256), UInt8.ofNat r.1.toNat] := rfl
      have h2 : putBe32 r.2 = [UInt8.ofNat (r.2.toNat / 16777216), UInt8.ofNat (r.2.toNat / 65536), UInt8.ofNat (r.2.toNat / 256), UInt8.ofNat r.2.toNat] := rfl
      rw [h1, h2]
      simp only [List.cons_append, List.nil_append, mapBlocks, be32_putBe32, putBe32_be32, ih]
      have := hfg (be32 a b c d) (be32 e f' g' h)
      simp only [r] at *
      rw [this]
      simp [putBe32_be32]
  | case2 t h =>
      rw [mapBlocks.eq_def]
      split
      · rename_i a b c d e f' g' h' rest
        exact absurd rfl (h a b c d e f' g' h' rest)
      · rfl

theorem mapBlocks_length (f : UInt32 → UInt32 → UInt32 × UInt32) (bs : Bytes) :
    (mapBlocks f bs).length = bs.length := by
  fun_induction mapBlocks f bs with
  | case1 a b c d e f' g' h rest r ih => simp [putBe32, ih]
  | case2 t h => rfl

theorem whitenTail_length (s0 s1 : UInt8) (l : Bytes) : (whitenTail s0 s1 l).length = l.length := by
  fun_induction whitenTail s0 s1 l with
  | case1 a b rest ih => simp [ih]
  | case2 t h => rfl

theorem whiten_length (bs : Bytes) : (whiten bs).length = bs.length := by
  match bs with
  | [] => rfl
  | [a] => rfl
  | a :: b :: r => simp [whiten, whitenTail_length]

/-! ### stream ciphers: XOR with an arbitrary keystream is an involution -/

theorem xorBytes_invol (bs ks : Bytes) : xorBytes (xorBytes bs ks) ks = bs := by
  induction bs generalizing ks with
  | nil => cases ks <;> rfl
  | cons a as ih =>
      cases ks with
      | nil => rfl
      | cons k ks => simp [xorBytes, ih, UInt8.xor_assoc]

theorem xorBytes_length (bs ks : Bytes) : (xorBytes bs ks).length = bs.length := by
  induction bs generalizing ks with
  | nil => cases ks <;> rfl
  | cons a as ih =>
      cases ks with
      | nil => rfl
      | cons k ks => simp [xorBytes, ih]

theorem shuffleCrypt_invol (ks : UInt8 → UInt8 → Bytes) (bs : Bytes) :
    shuffleCrypt ks (shuffleCrypt ks bs) = bs := by
  match bs with
  | [] => rfl
  | [a] => rfl
  | a :: b :: r => simp [shuffleCrypt, xorBytes_invol]

theorem shuffleCrypt_length (ks : UInt8 → UInt8 → Bytes) (bs : Bytes) :
    (shuffleCrypt ks bs).length = bs.length := by
  match bs with
  | [] => rfl
  | [a] => rfl
  | a :: b :: r => simp [shuffleCrypt, xorBytes_length]

end Emitter.Cipher
