/-
  Lemmas for C15: order facts about `bytesLt`, the list instance of the durable store satisfies
  `KV.Laws`, and the store protocol over ANY store satisfying the laws.
-/
import Emitter.Model.Store
import Emitter.Lemmas.Message

namespace Emitter.Store
open Emitter Emitter.Message

/-! ## `bytesLt` is a strict total order -/

theorem bytesLt_irrefl : ∀ a : Bytes, bytesLt a a = false
  | [] => rfl
  | x :: xs => by
      have ih := bytesLt_irrefl xs
      cases h : bytesLt (x :: xs) (x :: xs) with
      | false => rfl
      | true =>
          rw [bytesLt_cons] at h
          rcases h with h | ⟨_, h⟩
          · omega
          · rw [ih] at h; cases h

theorem bytesLt_trans : ∀ a b c : Bytes, bytesLt a b = true → bytesLt b c = true → bytesLt a c = true
  | [], [], _, h, _ => by simp [bytesLt] at h
  | [], _ :: _, [], _, h => by simp [bytesLt] at h
  | [], _ :: _, _ :: _, _, _ => rfl
  | _ :: _, [], _, h, _ => by simp [bytesLt] at h
  | _ :: _, _ :: _, [], _, h => by simp [bytesLt] at h
  | x :: xs, y :: ys, z :: zs, h1, h2 => by
      rw [bytesLt_cons] at *
      rcases h1 with h1 | ⟨e1, h1⟩ <;> rcases h2 with h2 | ⟨e2, h2⟩
      · left; omega
      · left; omega
      · left; omega
      · right; exact ⟨by omega, bytesLt_trans xs ys zs h1 h2⟩

theorem bytesLt_total : ∀ a b : Bytes, bytesLt a b = true ∨ a = b ∨ bytesLt b a = true
  | [], [] => .inr (.inl rfl)
  | [], _ :: _ => .inl rfl
  | _ :: _, [] => .inr (.inr rfl)
  | x :: xs, y :: ys => by
      rw [bytesLt_cons, bytesLt_cons]
      rcases Nat.lt_trichotomy x.toNat y.toNat with h | h | h
      · left; left; exact h
      · rcases bytesLt_total xs ys with t | t | t
        · left; right; exact ⟨h, t⟩
        · right; left; rw [UInt8.toNat_inj.mp h, t]
        · right; right; right; exact ⟨h.symm, t⟩
      · right; right; left; exact h

theorem bytesLt_ne {a b : Bytes} (h : bytesLt a b = true) : a ≠ b := by
  intro e; subst e; rw [bytesLt_irrefl] at h; cases h

/-! ## the list instance -/

theorem linsert_lt {e a : Entry} {t : List Entry} (h : bytesLt a.key e.key = true) :
    linsert e (a :: t) = a :: linsert e t := by
  rw [linsert, if_pos h]

theorem linsert_eq {e a : Entry} {t : List Entry} (h1 : ¬ bytesLt a.key e.key = true) (h2 : a.key = e.key) :
    linsert e (a :: t) = e :: t := by
  rw [linsert, if_neg h1, if_pos h2]

theorem linsert_gt {e a : Entry} {t : List Entry} (h1 : ¬ bytesLt a.key e.key = true) (h2 : ¬ a.key = e.key) :
    linsert e (a :: t) = e :: a :: t := by
  rw [linsert, if_neg h1, if_neg h2]

theorem lget_cons (a : Entry) (t : List Entry) (k : Bytes) :
    lget (a :: t) k = if k = a.key then some a else lget t k := rfl

theorem lget_linsert (e : Entry) (k : Bytes) : ∀ d : List Entry,
    lget (linsert e d) k = if k = e.key then some e else lget d k
  | [] => by simp [linsert, lget]
  | a :: t => by
      have ih := lget_linsert e k t
      by_cases h1 : bytesLt a.key e.key = true
      · have hne : a.key ≠ e.key := bytesLt_ne h1
        rw [linsert_lt h1, lget_cons, lget_cons, ih]
        by_cases hk : k = e.key
        · have : ¬ k = a.key := fun x => hne (x.symm.trans hk)
          simp only [if_neg this, if_pos hk]
        · simp only [if_neg hk]
      · by_cases h2 : a.key = e.key
        · rw [linsert_eq h1 h2, lget_cons, lget_cons]
          by_cases hk : k = e.key
          · rw [if_pos hk, if_pos hk]
          · have : ¬ k = a.key := fun x => hk (x.trans h2)
            rw [if_neg hk, if_neg hk, if_neg this]
        · rw [linsert_gt h1 h2, lget_cons]

theorem mem_linsert {e x : Entry} : ∀ {d : List Entry}, x ∈ linsert e d → x = e ∨ x ∈ d
  | [], h => by simp [linsert] at h; exact .inl h
  | a :: t, h => by
      by_cases h1 : bytesLt a.key e.key = true
      · rw [linsert_lt h1, List.mem_cons] at h
        rcases h with h | h
        · exact .inr (by simp [h])
        · rcases mem_linsert h with r | r
          · exact .inl r
          · exact .inr (List.mem_cons_of_mem _ r)
      · by_cases h2 : a.key = e.key
        · rw [linsert_eq h1 h2, List.mem_cons] at h
          rcases h with h | h
          · exact .inl h
          · exact .inr (List.mem_cons_of_mem _ h)
        · rw [linsert_gt h1 h2, List.mem_cons] at h
          rcases h with h | h
          · exact .inl h
          · exact .inr h

theorem sorted_linsert (e : Entry) : ∀ d : List Entry, Sorted d → Sorted (linsert e d)
  | [], _ => by simp [linsert, Sorted]
  | a :: t, hs => by
      unfold Sorted at hs
      rw [List.pairwise_cons] at hs
      obtain ⟨ha, ht⟩ := hs
      have ih := sorted_linsert e t ht
      by_cases h1 : bytesLt a.key e.key = true
      · rw [linsert_lt h1]
        unfold Sorted
        rw [List.pairwise_cons]
        refine ⟨?_, ih⟩
        intro b hb
        rcases mem_linsert hb with r | r
        · rw [r]; exact h1
        · exact ha b r
      · by_cases h2 : a.key = e.key
        · rw [linsert_eq h1 h2]
          unfold Sorted
          rw [List.pairwise_cons]
          exact ⟨fun b hb => h2 ▸ ha b hb, ht⟩
        · rw [linsert_gt h1 h2]
          have h3 : bytesLt e.key a.key = true := by
            rcases bytesLt_total a.key e.key with t | t | t
            · exact absurd t h1
            · exact absurd t h2
            · exact t
          unfold Sorted
          rw [List.pairwise_cons, List.pairwise_cons]
          refine ⟨?_, ha, ht⟩
          intro b hb
          rcases List.mem_cons.mp hb with r | r
          · rw [r]; exact h3
          · exact bytesLt_trans _ _ _ h3 (ha b r)

theorem lget_some_iff (e : Entry) : ∀ d : List Entry, Sorted d → (lget d e.key = some e ↔ e ∈ d)
  | [], _ => by simp [lget]
  | a :: t, hs => by
      unfold Sorted at hs
      rw [List.pairwise_cons] at hs
      obtain ⟨ha, ht⟩ := hs
      have ih := lget_some_iff e t ht
      unfold lget
      by_cases hk : e.key = a.key
      · simp only [hk, if_true, List.mem_cons]
        constructor
        · intro h; left; exact (Option.some.inj h).symm
        · intro h
          rcases h with h | h
          · rw [h]
          · have := ha e h
            rw [hk, bytesLt_irrefl] at this
            cases this
      · simp only [hk, if_false, List.mem_cons]
        rw [ih]
        constructor
        · exact .inr
        · intro h
          rcases h with h | h
          · rw [h] at hk; exact absurd rfl hk
          · exact h

theorem listKV_laws : listKV.Laws where
  inv_empty := by simp [listKV, Sorted]
  inv_commit := fun d e h => sorted_linsert e d h
  inv_torn := by
    intro d e d' h t
    rcases t with t | t
    · rw [t]; exact h
    · rw [t]; exact sorted_linsert e d h
  inv_maint := by intro d d' h t; rw [t]; exact h
  get_empty := fun _ => rfl
  get_commit := fun d e k _ => lget_linsert e k d
  torn_atomic := by
    intro d e d' _ t
    rcases t with t | t
    · left; intro k; rw [t]
    · right; intro k; rw [t]; rfl
  get_maint := by intro d d' k _ t; rw [t]
  mem_scan := by
    intro (d : List Entry) now e (h : Sorted d)
    show e ∈ List.filter (fun e => live e now) d ↔ lget d e.key = some e ∧ live e now = true
    rw [List.mem_filter, lget_some_iff e d h]
  scan_sorted := by
    intro (d : List Entry) now (h : Sorted d)
    exact List.Pairwise.filter _ h


/-! ## `Store` builds the entry the property talks about -/

theorem storedMsg_id (r : UInt32) (m : Msg) : (storedMsg r m).id = m.id := by
  unfold storedMsg; split <;> rfl

theorem storedMsg_channel (r : UInt32) (m : Msg) : (storedMsg r m).channel = m.channel := by
  unfold storedMsg; split <;> rfl

theorem storedMsg_payload (r : UInt32) (m : Msg) : (storedMsg r m).payload = m.payload := by
  unfold storedMsg; split <;> rfl

theorem storedMsg_ok (r : UInt32) (m : Msg) (h : m.ok) : (storedMsg r m).ok := by
  unfold Msg.ok at *
  rw [storedMsg_id, storedMsg_channel, storedMsg_payload]
  exact h

theorem entryOf_ok_iff (z : Zip) (r : UInt32) (m : Msg) (e : Entry) :
    entryOf z r m = .ok e ↔
      8 ≤ m.id.length ∧ e = ⟨m.id, z.enc (encodeMsg (storedMsg r m)), expiryOf r m⟩ := by
  simp only [entryOf, expires, expiryOf, storedMsg_id]
  by_cases h : m.id.length < 8
  · simp only [if_pos h]
    constructor
    · intro x; cases x
    · intro ⟨x, _⟩; omega
  · simp only [if_neg h, Outcome.ok.injEq]
    constructor
    · intro x; exact ⟨by omega, x.symm⟩
    · intro ⟨_, x⟩; exact x.symm

theorem entryOf_key {z : Zip} {r : UInt32} {m : Msg} {e : Entry} (h : entryOf z r m = .ok e) : e.key = m.id := by
  rw [entryOf_ok_iff] at h; rw [h.2]

theorem entryOf_expiresAt {z : Zip} {r : UInt32} {m : Msg} {e : Entry} (h : entryOf z r m = .ok e) :
    e.expiresAt = expiryOf r m := by
  rw [entryOf_ok_iff] at h; rw [h.2]

theorem idTime_pos (id : Bytes) : 0 < idTime id := by
  unfold idTime timeOffset
  have : (Generated.msgTimeOffset : Int) = 1514764800 := rfl
  omega

theorem expiryOf_pos (r : UInt32) (m : Msg) : 0 < expiryOf r m := by
  unfold expiryOf
  have := idTime_pos m.id
  omega

/-- what `loadMessage` reads back from an entry written by `Store` -/
theorem loadMsg_entryOf {z : Zip} (hz : z.Ok) {r : UInt32} {m : Msg} {e : Entry} (hm : m.ok)
    (h : entryOf z r m = .ok e) : loadMsg z e = .ok (storedMsg r m) := by
  rw [entryOf_ok_iff] at h
  rw [h.2]
  unfold loadMsg
  simp only [hz (encodeMsg (storedMsg r m))]
  have := decodeMsg_encodeMsg (storedMsg r m) (storedMsg_ok r m hm) []
  rw [List.append_nil] at this
  rw [this]

/-! ## the protocol over any store that satisfies the laws -/

section protocol
variable {K : KV} {z : Zip} {retain : UInt32}

theorem mem_msgs {evs : List Ev} {m : Msg} : m ∈ msgs evs ↔ (.acked m ∈ evs ∨ .died m ∈ evs) := by
  unfold msgs
  rw [List.mem_filterMap]
  constructor
  · rintro ⟨ev, hev, hm⟩
    cases ev with
    | acked x => simp [Ev.msg?] at hm; subst hm; exact .inl hev
    | died x => simp [Ev.msg?] at hm; subst hm; exact .inr hev
    | maint => simp [Ev.msg?] at hm
  · rintro (h | h)
    · exact ⟨_, h, rfl⟩
    · exact ⟨_, h, rfl⟩

theorem step_inv (L : K.Laws) {d d' : K.Disk} {ev : Ev} (hi : K.inv d) (hs : Step K z retain d ev d') : K.inv d' := by
  cases hs with
  | acked _ => exact L.inv_commit _ _ hi
  | died _ t => exact L.inv_torn _ _ _ hi t
  | diedEarly => exact hi
  | maint t => exact L.inv_maint _ _ hi t

theorem run_inv (L : K.Laws) {d d' : K.Disk} {evs : List Ev} (hi : K.inv d) (hr : Run K z retain d evs d') : K.inv d' := by
  induction hr with
  | nil => exact hi
  | cons s _ ih => exact ih (step_inv L hi s)

/-- an event leaves every key but its own alone -/
theorem step_get_other (L : K.Laws) {d d' : K.Disk} {ev : Ev} {k : Bytes} (hi : K.inv d)
    (hs : Step K z retain d ev d') (hk : ev.key? ≠ some k) : K.get d' k = K.get d k := by
  cases hs with
  | acked he =>
      rename_i m e
      rw [L.get_commit _ _ _ hi]
      have : ¬ k = e.key := by
        intro x; apply hk; rw [x, entryOf_key he]; rfl
      rw [if_neg this]
  | died he t =>
      rename_i m e
      have hne : ¬ k = e.key := by
        intro x; apply hk; rw [x, entryOf_key he]; rfl
      rcases L.torn_atomic _ _ _ hi t with a | a
      · exact a k
      · rw [a k, L.get_commit _ _ _ hi, if_neg hne]
  | diedEarly => rfl
  | maint t => exact L.get_maint _ _ _ hi t

theorem run_get_other (L : K.Laws) {d d' : K.Disk} {evs : List Ev} {k : Bytes} (hi : K.inv d)
    (hr : Run K z retain d evs d') (hk : ∀ ev ∈ evs, ev.key? ≠ some k) : K.get d' k = K.get d k := by
  induction hr with
  | nil => rfl
  | cons s _ ih =>
      rw [ih (step_inv L hi s) (fun ev h => hk ev (List.mem_cons_of_mem _ h))]
      exact step_get_other L hi s (hk _ (List.mem_cons_self ..))

/-- whatever is in the directory was there before or was written whole by a `Store` call -/
theorem step_get_origin (L : K.Laws) {d d' : K.Disk} {ev : Ev} {k : Bytes} {e : Entry} (hi : K.inv d)
    (hs : Step K z retain d ev d') (hg : K.get d' k = some e) :
    K.get d k = some e ∨ ∃ m, ev.msg? = some m ∧ entryOf z retain m = .ok e := by
  cases hs with
  | acked he =>
      rename_i m e'
      rw [L.get_commit _ _ _ hi] at hg
      by_cases hk : k = e'.key
      · rw [if_pos hk] at hg
        cases hg
        exact .inr ⟨m, rfl, he⟩
      · rw [if_neg hk] at hg
        exact .inl hg
  | died he t =>
      rename_i m e'
      rcases L.torn_atomic _ _ _ hi t with a | a
      · rw [a k] at hg; exact .inl hg
      · rw [a k, L.get_commit _ _ _ hi] at hg
        by_cases hk : k = e'.key
        · rw [if_pos hk] at hg
          cases hg
          exact .inr ⟨m, rfl, he⟩
        · rw [if_neg hk] at hg
          exact .inl hg
  | diedEarly => exact .inl hg
  | maint t => rw [L.get_maint _ _ _ hi t] at hg; exact .inl hg

theorem run_get_origin (L : K.Laws) {d d' : K.Disk} {evs : List Ev} {k : Bytes} {e : Entry} (hi : K.inv d)
    (hr : Run K z retain d evs d') (hg : K.get d' k = some e) :
    K.get d k = some e ∨ ∃ m ∈ msgs evs, entryOf z retain m = .ok e := by
  induction hr with
  | nil => exact .inl hg
  | @cons d ev d₁ evs d₂ s _ ih =>
      rcases ih (step_inv L hi s) hg with h | ⟨m, hm, he⟩
      · rcases step_get_origin L hi s h with h' | ⟨m, hm, he⟩
        · exact .inl h'
        · refine .inr ⟨m, ?_, he⟩
          unfold msgs
          rw [List.filterMap_cons, hm]
          exact List.mem_cons_self ..
      · refine .inr ⟨m, ?_, he⟩
        unfold msgs at *
        rw [List.filterMap_cons]
        split
        · exact hm
        · exact List.mem_cons_of_mem _ hm

theorem run_append {d d' : K.Disk} : ∀ {a b : List Ev}, Run K z retain d (a ++ b) d' →
    ∃ d₁, Run K z retain d a d₁ ∧ Run K z retain d₁ b d'
  | [], _, h => ⟨d, .nil, h⟩
  | _ :: a, b, h => by
      cases h with
      | cons s r =>
          obtain ⟨d₁, r1, r2⟩ := run_append (a := a) (b := b) r
          exact ⟨d₁, .cons s r1, r2⟩

/-- **durability at the level of the directory**: after an acknowledged `Store(m)`, whatever
else happens (more stores, kills inside other stores, restarts, background work), the entry of `m`
is the durable version of its key — until a later `Store` of the same id -/
theorem acked_get (L : K.Laws) {pre post : List Ev} {m : Msg} {d' : K.Disk}
    (hr : Run K z retain K.empty (pre ++ .acked m :: post) d')
    (hlater : ∀ ev ∈ post, ev.key? ≠ some m.id) :
    ∃ e, entryOf z retain m = .ok e ∧ K.get d' m.id = some e := by
  obtain ⟨d₁, r1, r2⟩ := run_append hr
  have i1 := run_inv L L.inv_empty r1
  cases r2 with
  | cons s r3 =>
      cases s with
      | acked he =>
          rename_i e
          refine ⟨e, he, ?_⟩
          rw [run_get_other L (L.inv_commit _ _ i1) r3 hlater, L.get_commit _ _ _ i1, if_pos (entryOf_key he).symm]

/-- an unacknowledged `Store(m)` leaves either the whole entry of `m` or nothing under its key -/
theorem died_get (L : K.Laws) {pre post : List Ev} {m : Msg} {d' : K.Disk}
    (hr : Run K z retain K.empty (pre ++ .died m :: post) d')
    (hpre : ∀ ev ∈ pre, ev.key? ≠ some m.id) (hpost : ∀ ev ∈ post, ev.key? ≠ some m.id) :
    K.get d' m.id = none ∨ ∃ e, entryOf z retain m = .ok e ∧ K.get d' m.id = some e := by
  obtain ⟨d₁, r1, r2⟩ := run_append hr
  have i1 := run_inv L L.inv_empty r1
  have g1 : K.get d₁ m.id = none := by
    rw [run_get_other L L.inv_empty r1 hpre, L.get_empty]
  cases r2 with
  | cons s r3 =>
      have i2 := step_inv L i1 s
      rw [run_get_other L i2 r3 hpost]
      cases s with
      | died he t =>
          rename_i e
          rcases L.torn_atomic _ _ _ i1 t with a | a
          · left; rw [a, g1]
          · right
            refine ⟨e, he, ?_⟩
            rw [a, L.get_commit _ _ _ i1, if_pos (entryOf_key he).symm]
      | diedEarly => left; exact g1

/-- every durable entry was written whole by some `Store` call of the history -/
theorem reachable_origin (L : K.Laws) {evs : List Ev} {d' : K.Disk} {k : Bytes} {e : Entry}
    (hr : Run K z retain K.empty evs d') (hg : K.get d' k = some e) :
    ∃ m ∈ msgs evs, entryOf z retain m = .ok e := by
  rcases run_get_origin L L.inv_empty hr hg with h | h
  · rw [L.get_empty] at h; cases h
  · exact h


/-! ## the history query after reopen -/

theorem loadAll_spec (z : Zip) : ∀ es : List Entry,
    (∀ e ∈ es, ∃ m, loadMsg z e = .ok m ∧ m.id = e.key) →
    ∃ res, loadAll z es = .ok res ∧ res.map (·.msg.id) = es.map (·.key) ∧
      ∀ f, f ∈ res ↔ ∃ e ∈ es, loadMsg z e = .ok f.msg ∧ f.expiresAt = e.expiresAt
  | [], _ => ⟨[], rfl, rfl, by simp⟩
  | e :: es, h => by
      obtain ⟨m, hm, hid⟩ := h e (List.mem_cons_self ..)
      obtain ⟨res, hres, hids, hmem⟩ := loadAll_spec z es (fun e' he' => h e' (List.mem_cons_of_mem _ he'))
      refine ⟨⟨m, e.expiresAt⟩ :: res, ?_, ?_, ?_⟩
      · simp only [loadAll, hm, hres]
      · simp only [List.map_cons, hids, hid]
      · intro f
        rw [List.mem_cons, hmem]
        constructor
        · rintro (h1 | ⟨e', he', h2⟩)
          · exact ⟨e, List.mem_cons_self .., by rw [h1]; exact ⟨hm, rfl⟩⟩
          · exact ⟨e', List.mem_cons_of_mem _ he', h2⟩
        · rintro ⟨e', he', h2, h3⟩
          rcases List.mem_cons.mp he' with r | r
          · left
            rw [r, hm] at h2
            cases f with
            | mk fm fe =>
                simp only at h2 h3
                cases h2
                rw [h3, r]
          · exact .inr ⟨e', r, h2, h3⟩

/-- every message a history query returns, traced back to the `Store` call that wrote it -/
theorem query_spec (L : K.Laws) (hz : z.Ok) {evs : List Ev} {d' : K.Disk}
    (hr : Run K z retain K.empty evs d') (hok : ∀ m ∈ msgs evs, m.ok) (now : Nat) :
    ∃ res, query K z d' now = .ok res ∧
      (res.map (·.msg.id)).Pairwise (fun a b => bytesLt a b = true) ∧
      ∀ f, f ∈ res ↔ ∃ e, K.get d' e.key = some e ∧ live e now = true ∧
        loadMsg z e = .ok f.msg ∧ f.expiresAt = e.expiresAt := by
  have hi := run_inv L L.inv_empty hr
  have hall : ∀ e ∈ K.scan d' now, ∃ m, loadMsg z e = .ok m ∧ m.id = e.key := by
    intro e he
    obtain ⟨hg, _⟩ := (L.mem_scan d' now e hi).mp he
    obtain ⟨m, hm, hent⟩ := reachable_origin L hr hg
    exact ⟨storedMsg retain m, loadMsg_entryOf hz (hok m hm) hent, by rw [storedMsg_id, entryOf_key hent]⟩
  obtain ⟨res, hres, hids, hmem⟩ := loadAll_spec z (K.scan d' now) hall
  refine ⟨res, hres, ?_, ?_⟩
  · rw [hids, List.pairwise_map]
    exact L.scan_sorted d' now hi
  · intro f
    rw [hmem]
    constructor
    · rintro ⟨e, he, h1, h2⟩
      obtain ⟨hg, hl⟩ := (L.mem_scan d' now e hi).mp he
      exact ⟨e, hg, hl, h1, h2⟩
    · rintro ⟨e, hg, hl, h1, h2⟩
      exact ⟨e, (L.mem_scan d' now e hi).mpr ⟨hg, hl⟩, h1, h2⟩

theorem live_iff (e : Entry) (now : Nat) (h : 0 < e.expiresAt) : live e now = true ↔ now < e.expiresAt := by
  unfold live
  have : ¬ e.expiresAt = 0 := by omega
  simp [this]

/-- **nothing else appears**: whatever a history query returns after any history is a message
that was handed to `Store` (acknowledged or in flight at a kill), whole, with the expiry `Store`
computed, and unexpired -/
theorem nothing_else (L : K.Laws) (hz : z.Ok) {evs : List Ev} {d' : K.Disk}
    (hr : Run K z retain K.empty evs d') (hok : ∀ m ∈ msgs evs, m.ok) (now : Nat) :
    ∃ res, query K z d' now = .ok res ∧
      ∀ f ∈ res, ∃ m, (.acked m ∈ evs ∨ .died m ∈ evs) ∧ f = foundOf retain m ∧ now < f.expiresAt := by
  obtain ⟨res, hres, _, hmem⟩ := query_spec L hz hr hok now
  refine ⟨res, hres, ?_⟩
  intro f hf
  obtain ⟨e, hg, hl, h1, h2⟩ := (hmem f).mp hf
  obtain ⟨m, hm, hent⟩ := reachable_origin L hr hg
  have hload := loadMsg_entryOf hz (hok m hm) hent
  rw [hload] at h1
  have hexp := entryOf_expiresAt hent
  refine ⟨m, mem_msgs.mp hm, ?_, ?_⟩
  · cases f with
    | mk fm fe =>
        simp only at h1 h2
        cases h1
        rw [h2, hexp]
        rfl
  · rw [h2]
    exact (live_iff e now (by rw [hexp]; exact expiryOf_pos _ _)).mp hl

/-- **acknowledged ⇒ returned after reopen**, identical, while unexpired -/
theorem acked_returned (L : K.Laws) (hz : z.Ok) {pre post : List Ev} {m : Msg} {d' : K.Disk}
    (hr : Run K z retain K.empty (pre ++ .acked m :: post) d')
    (hok : ∀ x ∈ msgs (pre ++ .acked m :: post), x.ok)
    (hlater : ∀ ev ∈ post, ev.key? ≠ some m.id) (now : Nat) (hlive : now < expiryOf retain m) :
    ∃ res, query K z d' now = .ok res ∧ foundOf retain m ∈ res := by
  obtain ⟨res, hres, _, hmem⟩ := query_spec L hz hr hok now
  refine ⟨res, hres, ?_⟩
  obtain ⟨e, hent, hg⟩ := acked_get L hr hlater
  have hm : m ∈ msgs (pre ++ .acked m :: post) := mem_msgs.mpr (.inl (by simp))
  rw [hmem]
  refine ⟨e, by rw [entryOf_key hent]; exact hg, ?_, ?_, ?_⟩
  · rw [live_iff e now (by rw [entryOf_expiresAt hent]; exact expiryOf_pos _ _), entryOf_expiresAt hent]
    exact hlive
  · exact loadMsg_entryOf hz (hok m hm) hent
  · exact (entryOf_expiresAt hent).symm

/-- **unacknowledged ⇒ wholly present or absent**: if the process died inside `Store(m)`, a later
history query returns nothing under that id, or exactly the message `Store` would have written -/
theorem unacked_atomic (L : K.Laws) (hz : z.Ok) {pre post : List Ev} {m : Msg} {d' : K.Disk}
    (hr : Run K z retain K.empty (pre ++ .died m :: post) d')
    (hok : ∀ x ∈ msgs (pre ++ .died m :: post), x.ok)
    (hpre : ∀ ev ∈ pre, ev.key? ≠ some m.id) (hpost : ∀ ev ∈ post, ev.key? ≠ some m.id) (now : Nat) :
    ∃ res, query K z d' now = .ok res ∧ ∀ f ∈ res, f.msg.id = m.id → f = foundOf retain m := by
  obtain ⟨res, hres, _, hmem⟩ := query_spec L hz hr hok now
  refine ⟨res, hres, ?_⟩
  intro f hf hid
  obtain ⟨e, hg, _, h1, h2⟩ := (hmem f).mp hf
  -- the entry the answer came from sits under the key `m.id`
  obtain ⟨m', hm', hent'⟩ := reachable_origin L hr hg
  have hload := loadMsg_entryOf hz (hok m' hm') hent'
  rw [hload] at h1
  have hkey : e.key = m.id := by
    have : (storedMsg retain m').id = f.msg.id := by rw [Outcome.ok.inj h1]
    rw [storedMsg_id] at this
    rw [entryOf_key hent', this, hid]
  rw [hkey] at hg
  rcases died_get L hr hpre hpost with hn | ⟨e₀, hent, hg₀⟩
  · rw [hn] at hg; cases hg
  · rw [hg₀] at hg
    cases hg
    have hm : m ∈ msgs (pre ++ .died m :: post) := mem_msgs.mpr (.inr (by simp))
    have hl := loadMsg_entryOf hz (hok m hm) hent
    rw [hl] at hload
    have e1 := Outcome.ok.inj hload
    have e2 := Outcome.ok.inj h1
    cases f with
    | mk fm fe =>
        simp only at e2 h2
        subst e2
        rw [h2, entryOf_expiresAt hent, ← e1]
        rfl

/-- the property in one statement -/
theorem survive (L : K.Laws) (hz : z.Ok) {evs : List Ev} {d' : K.Disk}
    (hr : Run K z retain K.empty evs d') (hok : ∀ m ∈ msgs evs, m.ok) (now : Nat) :
    ∃ res, query K z d' now = .ok res ∧
      (∀ pre m post, evs = pre ++ .acked m :: post → (∀ ev ∈ post, ev.key? ≠ some m.id) →
        now < expiryOf retain m → foundOf retain m ∈ res) ∧
      (∀ f ∈ res, ∃ m, (.acked m ∈ evs ∨ .died m ∈ evs) ∧ f = foundOf retain m ∧ now < f.expiresAt) ∧
      (∀ pre m post, evs = pre ++ .died m :: post → (∀ ev ∈ pre, ev.key? ≠ some m.id) →
        (∀ ev ∈ post, ev.key? ≠ some m.id) → ∀ f ∈ res, f.msg.id = m.id → f = foundOf retain m) ∧
      (res.map (·.msg.id)).Pairwise (fun a b => bytesLt a b = true) := by
  obtain ⟨res, hres, hsorted, _⟩ := query_spec L hz hr hok now
  refine ⟨res, hres, ?_, ?_, ?_, hsorted⟩
  · intro pre m post he hlater hlive
    subst he
    obtain ⟨res', hres', h⟩ := acked_returned L hz hr hok hlater now hlive
    rw [hres] at hres'
    cases hres'
    exact h
  · obtain ⟨res', hres', h⟩ := nothing_else L hz hr hok now
    rw [hres] at hres'
    cases hres'
    exact h
  · intro pre m post he hpre hpost
    subst he
    obtain ⟨res', hres', h⟩ := unacked_atomic L hz hr hok hpre hpost now
    rw [hres] at hres'
    cases hres'
    exact h

end protocol

/-! ## the executable list run is a run -/

def ackOk (z : Zip) (retain : UInt32) : Ev × Bool → Prop
  | (.acked m, _) => ∃ e, entryOf z retain m = .ok e
  | _ => True

theorem execEv_step (z : Zip) (retain : UInt32) (d : List Entry) (x : Ev × Bool) (h : ackOk z retain x) :
    Step listKV z retain d x.1 (execEv z retain d x) := by
  match x, h with
  | (.acked m, _), ⟨e, he⟩ =>
      simp only [execEv, commitMsg, he]
      exact Step.acked (K := listKV) he
  | (.died m, true), _ =>
      simp only [execEv, commitMsg]
      cases he : entryOf z retain m with
      | ok e => exact Step.died (K := listKV) he (.inr rfl)
      | err _ => exact Step.diedEarly
      | panic _ => exact Step.diedEarly
  | (.died m, false), _ => exact Step.diedEarly
  | (.maint, _), _ => exact Step.maint (K := listKV) rfl

theorem exec_run (z : Zip) (retain : UInt32) : ∀ (evs : List (Ev × Bool)) (d : List Entry),
    (∀ x ∈ evs, ackOk z retain x) → Run listKV z retain d (evs.map (·.1)) (exec z retain d evs)
  | [], _, _ => .nil
  | x :: evs, d, h => by
      unfold exec
      rw [List.foldl_cons, List.map_cons]
      exact .cons (execEv_step z retain d x (h x (List.mem_cons_self ..)))
        (exec_run z retain evs _ (fun y hy => h y (List.mem_cons_of_mem _ hy)))

/-! ## expiry arithmetic for ids made by `NewID` -/

/-- for a message whose id `NewID` made at second `unix` (2018 … 2154), the expiry the database
holds is `unix + ttl` (with the configured retention for a retained message) -/
theorem expiry_exact (ssid : Ssid) (unix : Int) (seq uniq : UInt32) (id ch pl : Bytes) (ttl retain : UInt32)
    (h : newId ssid unix seq uniq = .ok id) (h0 : timeOffset ≤ unix) (h1 : unix - timeOffset < 4294967296) :
    (expiryOf retain ⟨id, ch, pl, ttl⟩ : Int) = unix + (if ttl = retainedTTL then retain else ttl).toNat := by
  have ht := idTime_newId ssid unix seq uniq id h h0 h1
  have httl : (storedMsg retain ⟨id, ch, pl, ttl⟩).ttl = if ttl = retainedTTL then retain else ttl := by
    unfold storedMsg
    split <;> simp [*]
  have h2 : (0 : Int) ≤ unix := by
    have : timeOffset = 1514764800 := rfl
    omega
  simp only [expiryOf, httl, ht]
  generalize (if ttl = retainedTTL then retain else ttl).toNat = n
  omega

end Emitter.Store
