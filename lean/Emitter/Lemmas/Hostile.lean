/-
  Lemmas for C09 about the model in Emitter/Model/Hostile.lean.
-/
import Emitter.Model.Hostile
import Emitter.Lemmas.Mqtt
namespace Emitter.Hostile
open Emitter

/-! ### client port -/

theorem mqttAlloc_le (s : Bytes) (max : Nat) : mqttAlloc s max ≤ max := by
  unfold mqttAlloc
  split
  · omega
  · split
    · split
      · omega
      · split <;> omega
    · omega

/-- the length loop consumes at least one byte and leaves a suffix -/
theorem decodeLen_suffix : ∀ (bs : Bytes) (m l len : UInt32) (r : Bytes),
    Mqtt.decodeLen bs m l = .ok (len, r) → ∃ pre, bs = pre ++ r ∧ 0 < pre.length := by
  intro bs
  induction bs with
  | nil => intro m l len r h; simp [Mqtt.decodeLen] at h
  | cons b rest ih =>
    intro m l len r h
    unfold Mqtt.decodeLen at h
    simp only at h
    split at h
    · obtain ⟨pre, hp, _⟩ := ih _ _ _ _ h
      exact ⟨b :: pre, by simp [hp], by simp⟩
    · simp only [Outcome.ok.injEq, Prod.mk.injEq] at h
      exact ⟨[b], by simp [h.2], by simp⟩

/-- a packet above the limit is refused before anything is allocated or read -/
theorem mqtt_oversize (first : UInt8) (rest r : Bytes) (len : UInt32) (max : Nat)
    (hl : Mqtt.decodeLen rest 1 0 = .ok (len, r))
    (hp : isPingType ((first &&& 0xf0) >>> 4) = false) (hbig : max < len.toNat) :
    Mqtt.decode (first :: rest) max = .err "too-large" ∧ mqttAlloc (first :: rest) max = 0 := by
  simp only [isPingType, Bool.or_eq_false_iff, beq_eq_false_iff_ne, ne_eq] at hp
  obtain ⟨⟨h1, h2⟩, h3⟩ := hp
  constructor
  · simp [Mqtt.decode, hl, h1, h2, h3, hbig]
  · have hp' : isPingType ((first &&& 0xf0) >>> 4) = false := by simp [isPingType, h1, h2, h3]
    simp [mqttAlloc, hl, hp', hbig]

/-- a successful decode consumed a header, then exactly the body that was allocated (at most
`max` bytes), and left the rest of the stream untouched -/
theorem mqtt_consumes (s : Bytes) (max : Nat) (p : Mqtt.Packet) (rest : Bytes)
    (h : Mqtt.decode s max = .ok (p, rest)) :
    ∃ hdr body, s = hdr ++ body ++ rest ∧ 0 < hdr.length ∧ body.length = mqttAlloc s max := by
  cases s with
  | nil => simp [Mqtt.decode] at h
  | cons first r0 =>
    unfold Mqtt.decode at h
    simp only at h
    cases hl : Mqtt.decodeLen r0 1 0 with
    | err e => simp [hl] at h
    | panic w => simp [hl] at h
    | ok v =>
      obtain ⟨len, r1⟩ := v
      obtain ⟨pre, hpre, _⟩ := decodeLen_suffix r0 1 0 len r1 hl
      simp only [hl] at h
      have ping : isPingType ((first &&& 0xf0) >>> 4) = true → rest = r1 →
          ∃ hdr body, first :: r0 = hdr ++ body ++ rest ∧ 0 < hdr.length ∧ body.length = mqttAlloc (first :: r0) max := by
        intro hp hr
        have hal : mqttAlloc (first :: r0) max = 0 := by simp [mqttAlloc, hl, hp]
        refine ⟨first :: pre, [], ?_, by simp, by simp [hal]⟩
        simp [hpre, hr]
      split at h
      next hq =>
        simp only [Outcome.ok.injEq, Prod.mk.injEq] at h
        exact ping (by simp [isPingType, hq]) h.2.symm
      next hq =>
        split at h
        next hq2 =>
          simp only [Outcome.ok.injEq, Prod.mk.injEq] at h
          exact ping (by simp [isPingType, hq2]) h.2.symm
        next hq2 =>
          split at h
          next hq3 =>
            simp only [Outcome.ok.injEq, Prod.mk.injEq] at h
            exact ping (by simp [isPingType, hq3]) h.2.symm
          next hq3 =>
            have hp' : isPingType ((first &&& 0xf0) >>> 4) = false := by
              simp only [isPingType, Bool.or_eq_false_iff]
              exact ⟨⟨by simpa using hq, by simpa using hq2⟩, by simpa using hq3⟩
            split at h
            next hbig => simp at h
            next hbig =>
              split at h
              next hshort => simp at h
              next hshort =>
                have hal : mqttAlloc (first :: r0) max = len.toNat := by simp [mqttAlloc, hl, hp', hbig]
                cases hb : Mqtt.decodeBody ((first &&& 0xf0) >>> 4) (Mqtt.headerOf ((first &&& 0xf0) >>> 4) first) (r1.take len.toNat) with
                | err e => simp [hb, Outcome.map, Outcome.bind] at h
                | panic w => simp [hb, Outcome.map, Outcome.bind] at h
                | ok q =>
                  simp only [hb, Outcome.map, Outcome.bind, Outcome.ok.injEq, Prod.mk.injEq] at h
                  refine ⟨first :: pre, r1.take len.toNat, ?_, by simp, ?_⟩
                  · rw [← h.2, hpre]; simp [List.take_append_drop]
                  · rw [hal, List.length_take]; omega

/-! ### Conn.Process containment -/

def Facts.connSafe (f : Facts) : Prop := f.processDefersClose = true ∧ f.closeRecovers = true

theorem connFate_not_fatal {α} (f : Facts) (hf : f.connSafe) (o : Outcome α) : connFate f o ≠ .fatal := by
  obtain ⟨h1, h2⟩ := hf
  cases o <;> simp [connFate, h1, h2]

theorem connFate_panic_closed {α} (f : Facts) (hf : f.connSafe) (w : String) :
    connFate f (.panic w : Outcome α) = .closed := by
  obtain ⟨h1, h2⟩ := hf
  simp [connFate, h1, h2]

theorem step_down (f : Facts) (hf : f.connSafe) (b : Broker) (c : Nat) (o : Outcome Unit) :
    (b.step f c o).down = b.down := by
  unfold Broker.step
  by_cases hd : b.down = true
  · simp [hd]
  · simp only [hd, if_false]
    have := connFate_not_fatal f hf o
    cases hv : connFate f o <;> simp_all

theorem find_closeConn_ne (c c' : Nat) (h : c' ≠ c) : ∀ l : List (Nat × ConnSt),
    (closeConn c l).find? (·.1 == c') = l.find? (·.1 == c') := by
  intro l
  induction l with
  | nil => rfl
  | cons x rest ih =>
    obtain ⟨k, st⟩ := x
    unfold closeConn
    by_cases hk : (k == c) = true
    · have hkc : k = c := by simpa using hk
      have : (k == c') = false := by simp; omega
      simp [hk, List.find?, this, ih]
    · simp only [hk, if_false]
      by_cases hk' : (k == c') = true
      · simp [List.find?, hk']
      · simp [List.find?, hk', ih]

/-- frame property: one round on connection `c` leaves every other connection as it was -/
theorem step_frame (f : Facts) (b : Broker) (c c' : Nat) (o : Outcome Unit) (h : c' ≠ c) :
    (b.step f c o).get c' = b.get c' := by
  unfold Broker.step
  by_cases hd : b.down = true
  · simp [hd]
  · simp only [hd, if_false]
    cases hv : connFate f o <;> simp [Broker.get, find_closeConn_ne c c' h]

theorem find_closeConn_eq (c : Nat) : ∀ (l : List (Nat × ConnSt)) (st : ConnSt),
    (l.find? (·.1 == c)).map (·.2) = some st →
    ((closeConn c l).find? (·.1 == c)).map (·.2) = some { alive := false, subs := [] } := by
  intro l
  induction l with
  | nil => intro st h; simp at h
  | cons x rest ih =>
    intro st h
    obtain ⟨k, s⟩ := x
    unfold closeConn
    by_cases hk : (k == c) = true
    · simp [hk, List.find?]
    · have hk' : (k == c) = false := by simpa using hk
      simp only [hk', List.find?, Bool.false_eq_true, if_false] at h ⊢
      exact ih st h

/-- a panic under `Conn.Process` closes that connection (its subscriptions are gone) and nothing else -/
theorem step_panic_closes (f : Facts) (hf : f.connSafe) (b : Broker) (c : Nat) (w : String) (st : ConnSt)
    (hd : b.down = false) (hc : b.get c = some st) :
    (b.step f c (.panic w)).get c = some { alive := false, subs := [] } ∧ (b.step f c (.panic w)).down = false := by
  unfold Broker.step
  simp only [hd, connFate_panic_closed f hf]
  exact ⟨find_closeConn_eq c b.conns st hc, by simp [hd]⟩

theorem run_down (f : Facts) (hf : f.connSafe) : ∀ (h : List (Nat × Outcome Unit)) (b : Broker),
    (b.run f h).down = b.down := by
  intro h
  induction h with
  | nil => intro b; rfl
  | cons x rest ih =>
    intro b
    obtain ⟨c, o⟩ := x
    simp only [Broker.run]
    rw [ih, step_down f hf]

theorem run_frame (f : Facts) (c' : Nat) : ∀ (h : List (Nat × Outcome Unit)) (b : Broker),
    (∀ x ∈ h, x.1 ≠ c') → (b.run f h).get c' = b.get c' := by
  intro h
  induction h with
  | nil => intro b _; rfl
  | cons x rest ih =>
    intro b hne
    obtain ⟨c, o⟩ := x
    simp only [Broker.run]
    rw [ih _ (fun y hy => hne y (List.mem_cons_of_mem _ hy))]
    exact step_frame f b c c' o (fun e => hne (c, o) (List.mem_cons_self ..) e.symm)

theorem streamFate_not_fatal (f : Facts) (hf : f.connSafe) (max : Nat) : ∀ (fuel : Nat) (s : Bytes),
    streamFate f max fuel s ≠ .fatal := by
  intro fuel
  induction fuel with
  | zero => intro s; simp [streamFate]
  | succ n ih =>
    intro s
    unfold streamFate
    split
    · simp
    · split
      · split
        · exact ih _
        · simp
      · exact connFate_not_fatal f hf _

/-! ### gossip callbacks -/

theorem contain_not_fatal {α} (o : Outcome α) : contain true o ≠ .fatal := by
  cases o <;> simp [contain]

theorem onGossip_not_fatal (f : Facts) (hf : f.onGossipRecovers = true) (unsnap : Bytes → Option Bytes) (raw : Bytes) :
    onGossip f unsnap raw ≠ .fatal := by
  unfold onGossip
  split
  · simp
  · split
    · simp
    · split
      · simp
      · rw [hf]; exact contain_not_fatal _

theorem onBroadcast_not_fatal (f : Facts) (hf : f.onBroadcastRecovers = true) (unsnap : Bytes → Option Bytes) (raw : Bytes) :
    onBroadcast f unsnap raw ≠ .fatal := by
  unfold onBroadcast
  split
  · simp
  · split
    · simp
    · rw [hf]; exact contain_not_fatal _

theorem onUnicast_not_fatal (f : Facts) (hf : f.onUnicastRecovers = true) (unsnap : Bytes → Option Bytes)
    (store : Outcome Unit) (raw : Bytes) :
    onUnicast f unsnap store raw ≠ .fatal := by
  unfold onUnicast
  split
  · simp
  · split
    · simp
    · rw [hf]; exact contain_not_fatal _

/-- without the recover a panicking payload IS fatal (the fact is needed) -/
theorem contain_fatal_without_recover {α} (w : String) : contain false (.panic w : Outcome α) = .fatal := rfl

/-! #### allocation -/

theorem blockAlloc_le (raw : Bytes) : blockAlloc raw ≤ 32 * raw.length := by
  unfold blockAlloc
  split
  · split <;> omega
  · omega

theorem frameAlloc_le (inner : Bytes) : frameAlloc inner ≤ msgStruct * (inner.length / 3) := by
  unfold frameAlloc frameCount
  split
  · rename_i l heq
    split at heq
    · split at heq
      · simp at heq
      · simp only [Option.some.injEq] at heq
        subst heq
        exact Nat.mul_le_mul_left _ (by omega)
    · simp at heq
  · omega

/-- both input-sized allocations of a unicast are linear in the raw payload, when the snappy
decoder returns what the preamble announced -/
theorem unicastAlloc_linear (raw inner : Bytes) (h : inner.length ≤ blockAlloc raw) :
    unicastAlloc raw inner ≤ 886 * raw.length := by
  have h1 := blockAlloc_le raw
  have h2 := frameAlloc_le inner
  unfold unicastAlloc
  simp only [msgStruct] at h2
  omega

/-! #### value-length validation makes the merge panic-free -/

def GoodSet (es : List Entry) : Prop := ∀ e ∈ es, 16 ≤ e.2.length

theorem decodeEntries_good (total : Nat) : ∀ (n : Nat) (bs : Bytes) (es : List Entry) (r : Bytes),
    decodeEntries total n bs = .ok (es, r) → GoodSet es := by
  intro n
  induction n with
  | zero =>
    intro bs es r h
    simp only [decodeEntries, Outcome.ok.injEq, Prod.mk.injEq] at h
    intro e he; rw [← h.1] at he; simp at he
  | succ n ih =>
    intro bs es r h
    unfold decodeEntries at h
    split at h
    · split at h
      · split at h
        · simp at h
        · split at h
          · rename_i k bs1 _ v bs2 _ hv es' r' hrec
            simp only [Outcome.ok.injEq, Prod.mk.injEq] at h
            intro e he
            rw [← h.1] at he
            rcases List.mem_cons.mp he with rfl | he
            · simp only; omega
            · exact ih _ _ _ hrec e he
          · simp at h
          · simp at h
      · simp at h
      · simp at h
    · simp at h
    · simp at h

theorem decodeSet_good (total : Nat) (bs : Bytes) (es : List Entry) (r : Bytes)
    (h : decodeSet total bs = .ok (es, r)) : GoodSet es := by
  unfold decodeSet at h
  split at h
  · exact decodeEntries_good total _ _ _ _ h
  · simp at h

def GoodSets (sets : List (Nat × List Entry)) : Prop := ∀ s ∈ sets, GoodSet s.2

theorem decodeSets_good (total : Nat) : ∀ (n : Nat) (bs : Bytes) (sets : List (Nat × List Entry)),
    decodeSets total n bs = .ok sets → GoodSets sets := by
  intro n
  induction n with
  | zero =>
    intro bs sets h
    simp only [decodeSets, Outcome.ok.injEq] at h
    intro s hs; rw [← h] at hs; simp at hs
  | succ n ih =>
    intro bs sets h
    unfold decodeSets at h
    cases hu : readUvar bs with
    | mk o rest =>
      cases o with
      | none => simp [hu] at h
      | some typ =>
        simp only [hu] at h
        cases hset : decodeSet total rest with
        | err e => simp [hset] at h
        | panic w => simp [hset] at h
        | ok v =>
          obtain ⟨es, bs'⟩ := v
          simp only [hset] at h
          cases hrec : decodeSets total n bs' with
          | err e => simp [hrec] at h
          | panic w => simp [hrec] at h
          | ok r =>
            simp only [hrec, Outcome.ok.injEq] at h
            intro s hs
            rw [← h] at hs
            rcases List.mem_cons.mp hs with rfl | hs
            · exact decodeSet_good total _ _ _ hset
            · exact ih _ _ hrec s hs

theorem decodeState_good (inner : Bytes) (sets : List (Nat × List Entry))
    (h : decodeState inner = .ok sets) : GoodSets sets := by
  unfold decodeState at h
  split at h
  · exact decodeSets_good _ _ _ _ h
  · simp at h

theorem putEntry_good (k v : Bytes) (hv : 16 ≤ v.length) : ∀ m : List Entry, GoodSet m → GoodSet (putEntry k v m) := by
  intro m
  induction m with
  | nil => intro _ e he; simp [putEntry] at he; subst he; exact hv
  | cons x rest ih =>
    intro hm e he
    obtain ⟨k', v'⟩ := x
    unfold putEntry at he
    split at he
    · rcases List.mem_cons.mp he with rfl | he
      · exact hv
      · exact hm e (List.mem_cons_of_mem _ he)
    · rcases List.mem_cons.mp he with rfl | he
      · exact hm _ (List.mem_cons_self ..)
      · exact ih (fun e he => hm e (List.mem_cons_of_mem _ he)) e he

theorem foldl_put_good : ∀ (es : List Entry) (m : List Entry), GoodSet es → GoodSet m →
    GoodSet (es.foldl (fun m e => putEntry e.1 e.2 m) m) := by
  intro es
  induction es with
  | nil => intro m _ hm; exact hm
  | cons x rest ih =>
    intro m hes hm
    simp only [List.foldl]
    exact ih _ (fun e he => hes e (List.mem_cons_of_mem _ he))
      (putEntry_good _ _ (hes x (List.mem_cons_self ..)) m hm)

theorem asMap_good (es : List Entry) (h : GoodSet es) : GoodSet (asMap es) :=
  foldl_put_good es [] h (fun _ he => by simp at he)

theorem setOf_good (t : Nat) (sets : List (Nat × List Entry)) (h : GoodSets sets) : GoodSet (setOf t sets) := by
  unfold setOf
  split
  · rename_i x es heq
    have hm := List.mem_of_find?_eq_some heq
    exact asMap_good es (h _ (List.mem_reverse.mp hm))
  · intro e he; simp at he

theorem mergeFresh_ok : ∀ es : List Entry, GoodSet es → ∃ n, mergeFresh es = .ok n := by
  intro es
  induction es with
  | nil => intro _; exact ⟨0, rfl⟩
  | cons x rest ih =>
    intro h
    obtain ⟨k, v⟩ := x
    obtain ⟨n, hn⟩ := ih (fun e he => h e (List.mem_cons_of_mem _ he))
    have hv : ¬ v.length < 16 := by have := h (k, v) (List.mem_cons_self ..); simp at this; omega
    simp only [mergeFresh, times, hv, if_false, hn]
    exact ⟨_, rfl⟩

/-- once `DecodeState` has accepted a payload, `State.Merge` cannot panic -/
theorem mergeState_ok (sets : List (Nat × List Entry)) (h : GoodSets sets) : ∃ n, mergeState sets = .ok n := by
  obtain ⟨a, ha⟩ := mergeFresh_ok _ (setOf_good 0 sets h)
  obtain ⟨b, hb⟩ := mergeFresh_ok _ (setOf_good 1 sets h)
  obtain ⟨c, hc⟩ := mergeFresh_ok _ (setOf_good 2 sets h)
  exact ⟨a + b + c, by simp [mergeState, ha, hb, hc]⟩

theorem mergeInner_panic_only_in_decoder (inner : Bytes) (w : String) (h : mergeInner inner = .panic w) :
    decodeState inner = .panic w := by
  unfold mergeInner at h
  split at h
  · rename_i sets hd
    obtain ⟨n, hn⟩ := mergeState_ok sets (decodeState_good inner sets hd)
    rw [hn] at h; simp at h
  · simp at h
  · rename_i w' hd
    simp only [Outcome.panic.injEq] at h
    rw [hd, h]

/-! ### history lookup -/

theorem lookupCap_le (limit : Int) : lookupCap limit ≤ 64 := by
  unfold lookupCap
  split
  · omega
  · omega

theorem lookupLoop_bounds (limit : Int) : ∀ (sizes : List Nat) (count bytes : Nat), bytes ≤ maxReply →
    bytes + (lookupLoop limit count bytes sizes).sum ≤ maxReply ∧
    ((lookupLoop limit count bytes sizes).length = 0 ∨
      ((count + (lookupLoop limit count bytes sizes).length : Nat) : Int) ≤ limit) ∧
    (lookupLoop limit count bytes sizes).length ≤ sizes.length := by
  intro sizes
  induction sizes with
  | nil => intro count bytes hb; simp [lookupLoop, hb]
  | cons s rest ih =>
    intro count bytes hb
    unfold lookupLoop
    split
    · simp [hb]
    · split
      · simp [hb]
      · rename_i hlim hfit
        have hb' : bytes + s ≤ maxReply := by omega
        obtain ⟨h1, h2, h3⟩ := ih (count + 1) (bytes + s) hb'
        refine ⟨by simp only [List.sum_cons]; omega, Or.inr ?_, by simp only [List.length_cons]; omega⟩
        simp only [List.length_cons]
        rcases h2 with h2 | h2
        · rw [h2]; simp only [Nat.zero_add]
          have : (count : Int) < limit := by simpa using hlim
          omega
        · have e : count + ((lookupLoop limit (count + 1) (bytes + s) rest).length + 1) =
              count + 1 + (lookupLoop limit (count + 1) (bytes + s) rest).length := by omega
          rw [e]; exact h2

end Emitter.Hostile
