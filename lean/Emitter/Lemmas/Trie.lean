import Emitter.Model.Trie
namespace Emitter.Trie
open Emitter

/-- structural invariant of every reachable trie -/
def Node.wf (n : Node) : Prop := n.distinct = true ∧ n.pruned = true ∧ n.nodupSubs = true

theorem wf_empty : Node.empty.wf := by
  sorry

/-! ### subscribe / unsubscribe refine insertion / removal on the set of pairs -/

theorem abs_insert (n : Node) (p : Path) (s : Sub) (h : n.wf) (e : Path × Sub) :
    e ∈ (n.insert p s).1.abs ↔ e = (p, s) ∨ e ∈ n.abs := by
  sorry

theorem insert_new_iff (n : Node) (p : Path) (s : Sub) (h : n.wf) :
    (n.insert p s).2 = true ↔ (p, s) ∉ n.abs := by
  sorry

theorem abs_length_insert (n : Node) (p : Path) (s : Sub) (h : n.wf) :
    (n.insert p s).1.abs.length = n.abs.length + (if (n.insert p s).2 then 1 else 0) := by
  sorry

theorem wf_insert (n : Node) (p : Path) (s : Sub) (h : n.wf) : (n.insert p s).1.wf := by
  sorry

theorem abs_remove (n : Node) (p : Path) (s : Sub) (h : n.wf) (e : Path × Sub) :
    e ∈ (n.remove p s).1.abs ↔ e ∈ n.abs ∧ e ≠ (p, s) := by
  sorry

theorem remove_hit_iff (n : Node) (p : Path) (s : Sub) (h : n.wf) :
    (n.remove p s).2 = true ↔ (p, s) ∈ n.abs := by
  sorry

theorem abs_length_remove (n : Node) (p : Path) (s : Sub) (h : n.wf) :
    (n.remove p s).1.abs.length + (if (n.remove p s).2 then 1 else 0) = n.abs.length := by
  sorry

theorem wf_remove (n : Node) (p : Path) (s : Sub) (h : n.wf) : (n.remove p s).1.wf := by
  sorry

/-- the pairs of a well-formed trie are pairwise distinct -/
theorem abs_nodup (n : Node) (h : n.wf) : n.abs.Nodup := by
  sorry

/-! ### lookups return exactly the subscribers holding a matching filter -/

theorem lookupE_spec (n : Node) (q : Path) (s : Sub) :
    s ∈ n.lookupE q ↔ ∃ f, (f, s) ∈ n.abs ∧ matchesE f q = true := by
  sorry

theorem lookupM_spec (n : Node) (q : Path) (s : Sub) :
    s ∈ n.lookupM q ↔ ∃ f, (f, s) ∈ n.abs ∧ matchesM f q = true := by
  sorry

theorem lookup_spec (m : Mode) (n : Node) (q : Path) (s : Sub) :
    s ∈ n.lookup m q ↔ ∃ f, (f, s) ∈ n.abs ∧ matchesMode m f q = true := by
  sorry

/-- the candidates of a share group are the subscribers holding a matching filter inside
`contract/$share/group/…` -/
theorem shareGroups_spec (m : Mode) (root : Node) (c : Word) (q : Path) (h : root.wf)
    (g : Word) (cands : List Sub) (hg : (g, cands) ∈ shareGroups m root (c :: q)) (s : Sub) :
    s ∈ cands ↔ ∃ f, (c :: shareWord :: g :: f, s) ∈ root.abs ∧ matchesMode m f q = true := by
  sorry

/-- every group below `contract/$share` that holds any pair appears exactly once -/
theorem shareGroups_complete (m : Mode) (root : Node) (c : Word) (q : Path) (h : root.wf)
    (g : Word) (f : Path) (s : Sub) (hp : (c :: shareWord :: g :: f, s) ∈ root.abs) :
    ∃ cands, (g, cands) ∈ shareGroups m root (c :: q) := by
  sorry

theorem shareGroups_nodup (m : Mode) (root : Node) (ssid : Path) (h : root.wf) :
    ((shareGroups m root ssid).map Prod.fst).Nodup := by
  sorry

/-- `Lookup`: the direct receivers plus, for every share group with a matching member, the
one member chosen by `pick` — for every choice function -/
theorem lookupAll_spec (m : Mode) (pick : List Sub → Sub) (root : Node) (ssid : Path) (s : Sub) :
    s ∈ lookupAll m pick root ssid ↔
      s ∈ root.lookup m ssid ∨ ∃ g ∈ shareGroups m root ssid, g.2 ≠ [] ∧ s = pick g.2 := by
  sorry

/-! ### the matching relations, in index form -/

theorem matchesE_iff (f q : Path) :
    matchesE f q = true ↔ f.length ≤ q.length ∧ ∀ i (h : i < f.length) (h' : i < q.length),
      f[i] = q[i] ∨ f[i] = wildcard := by
  sorry

theorem matchesM_iff (f q : Path) :
    matchesM f q = true ↔
      (f.length = q.length ∧ ∀ i (h : i < f.length) (h' : i < q.length), f[i] = q[i] ∨ f[i] = wildcard) ∨
      (∃ g, f = g ++ [multiWildcard] ∧ g.length < q.length ∧
        ∀ i (h : i < g.length) (h' : i < q.length), g[i] = q[i] ∨ g[i] = wildcard) := by
  sorry

/-! ### pruning: no subscription left ⇒ the index is the bare root again -/

theorem empty_of_abs_nil (n : Node) (h : n.wf) (he : n.abs = []) : n = Node.empty := by
  sorry

/-! ### histories -/

inductive Op where
  | sub (p : Path) (s : Sub)
  | unsub (p : Path) (s : Sub)
deriving Repr

def T.step (t : T) : Op → T
  | .sub p s => t.subscribe p s
  | .unsub p s => t.unsubscribe p s

/-- the specification state: the set of acknowledged (filter, subscriber) pairs -/
def specStep (S : List (Path × Sub)) : Op → List (Path × Sub)
  | .sub p s => if (p, s) ∈ S then S else (p, s) :: S
  | .unsub p s => S.filter (fun e => e != (p, s))

def run (ops : List Op) : T := ops.foldl T.step {}
def specRun (ops : List Op) : List (Path × Sub) := ops.foldl specStep []

/-- for every finite history from the empty trie: the trie is well-formed, holds exactly the
specification's pairs, and its counter is their number -/
theorem history_refines (ops : List Op) :
    (run ops).root.wf ∧ (∀ e, e ∈ (run ops).root.abs ↔ e ∈ specRun ops) ∧
    (run ops).count = (specRun ops).length ∧ (specRun ops).Nodup := by
  sorry

/-- a lookup after any history returns exactly the subscribers that hold a matching filter -/
theorem history_lookup (ops : List Op) (m : Mode) (q : Path) (s : Sub) :
    s ∈ (run ops).root.lookup m q ↔ ∃ f, (f, s) ∈ specRun ops ∧ matchesMode m f q = true := by
  sorry

/-- when every subscription has been removed the index is empty again (one node, count 0) -/
theorem history_empty (ops : List Op) (h : specRun ops = []) :
    (run ops).root = Node.empty ∧ (run ops).count = 0 ∧ (run ops).root.size = 1 := by
  sorry

end Emitter.Trie
