import Emitter.Model.Trie
namespace Emitter.Trie
open Emitter

/-- structural invariant of every reachable trie -/
def Node.wf (n : Node) : Prop := n.distinct = true ∧ n.pruned = true ∧ n.nodupSubs = true

/-! ### helper lemmas (Node-level statements with their Kids-level companions) -/

theorem eraseDups_length_aux {α} [BEq α] [LawfulBEq α] : ∀ (n : Nat) (l : List α), l.length ≤ n →
    l.eraseDups.length ≤ l.length ∧ (l.eraseDups.length = l.length ↔ l.Nodup)
  | 0, l, h => by
      have : l = [] := List.eq_nil_of_length_eq_zero (by omega)
      subst this; simp
  | n+1, [], _ => by simp
  | n+1, a :: as, h => by
      have hf : (as.filter fun b => !b == a).length ≤ as.length := List.length_filter_le _ _
      have ih := eraseDups_length_aux n (as.filter fun b => !b == a) (by simp at h; omega)
      rw [List.eraseDups_cons]
      simp only [List.length_cons, List.nodup_cons]
      constructor
      · omega
      · constructor
        · intro heq
          have h1 : (as.filter fun b => !b == a).length = as.length := by omega
          have h2 : ∀ b ∈ as, (!b == a) = true := List.length_filter_eq_length_iff.mp h1
          have h3 : as.filter (fun b => !b == a) = as := List.filter_eq_self.mpr h2
          rw [h3] at ih heq
          refine ⟨?_, ih.2.mp (by omega)⟩
          intro hm
          have := h2 a hm
          simp at this
        · rintro ⟨hna, hnd⟩
          have h3 : as.filter (fun b => !b == a) = as := by
            apply List.filter_eq_self.mpr
            intro b hb
            simp only [Bool.not_eq_eq_eq_not, Bool.not_true, beq_eq_false_iff_ne, ne_eq]
            intro hba; subst hba; exact hna hb
          rw [h3] at ih ⊢
          have := ih.2.mpr hnd
          omega

theorem eraseDups_length_eq_iff {α} [BEq α] [LawfulBEq α] (l : List α) :
    (l.eraseDups.length == l.length) = true ↔ l.Nodup := by
  rw [beq_iff_eq]
  exact (eraseDups_length_aux l.length l (Nat.le_refl _)).2


theorem Kids.abs_path_ne_nil : (k : Kids) → (f : Path) → (s : Sub) → (f, s) ∈ k.abs → f ≠ []
  | .nil, f, s, h => by simp [Kids.abs] at h
  | .cons w n rest, f, s, h => by
      simp only [Kids.abs, List.mem_append, List.mem_map] at h
      rcases h with ⟨⟨p, s'⟩, _, he⟩ | h
      · simp only [Prod.mk.injEq] at he; rw [← he.1]; simp
      · exact Kids.abs_path_ne_nil rest f s h

theorem Kids.nil_not_mem_abs (k : Kids) (s : Sub) : ([], s) ∉ k.abs :=
  fun h => Kids.abs_path_ne_nil k [] s h rfl

theorem Node.mem_abs_nil (subs : List Sub) (kids : Kids) (s : Sub) :
    ([], s) ∈ (Node.mk subs kids).abs ↔ s ∈ subs := by
  simp [Node.abs, Kids.nil_not_mem_abs]

theorem Node.mem_abs_cons (subs : List Sub) (kids : Kids) (w : Word) (ws : Path) (s : Sub) :
    (w :: ws, s) ∈ (Node.mk subs kids).abs ↔ (w :: ws, s) ∈ kids.abs := by
  simp [Node.abs]

theorem Kids.mem_abs_cons (w' : Word) (n : Node) (rest : Kids) (w : Word) (ws : Path) (s : Sub) :
    (w :: ws, s) ∈ (Kids.cons w' n rest).abs ↔ (w' = w ∧ (ws, s) ∈ n.abs) ∨ (w :: ws, s) ∈ rest.abs := by
  simp only [Kids.abs, List.mem_append, List.mem_map, Prod.mk.injEq, List.cons.injEq]
  constructor
  · rintro (⟨⟨p, t⟩, hp, ⟨rfl, rfl⟩, rfl⟩ | h)
    · exact Or.inl ⟨rfl, hp⟩
    · exact Or.inr h
  · rintro (⟨rfl, h⟩ | h)
    · exact Or.inl ⟨(ws, s), h, ⟨rfl, rfl⟩, rfl⟩
    · exact Or.inr h

theorem Kids.not_mem_abs_of_find_none : (k : Kids) → (w : Word) → (ws : Path) → (s : Sub) →
    k.find? w = none → (w :: ws, s) ∉ k.abs
  | .nil, w, ws, s, _ => by simp [Kids.abs]
  | .cons w' n rest, w, ws, s, h => by
      simp only [Kids.find?] at h
      by_cases hw : w' = w
      · simp [hw] at h
      · have hb : (w' == w) = false := by simpa using hw
        rw [hb] at h
        simp only [Bool.false_eq_true, if_false] at h
        rw [Kids.mem_abs_cons]
        rintro (⟨h1, _⟩ | h2)
        · exact hw h1
        · exact Kids.not_mem_abs_of_find_none rest w ws s h h2

theorem Node.fresh_abs : (p : Path) → (s : Sub) → (Node.fresh p s).abs = [(p, s)]
  | [], s => by simp [Node.fresh, Node.abs, Kids.abs]
  | w :: ws, s => by simp [Node.fresh, Node.abs, Kids.abs, Node.fresh_abs ws s]

/-! insert -/
mutual
theorem Node.abs_insert' (n : Node) (p : Path) (s : Sub) (e : Path × Sub) :
    e ∈ (n.insert p s).1.abs ↔ e = (p, s) ∨ e ∈ n.abs := by
  match n, p with
  | .mk subs kids, [] =>
      simp only [Node.insert]
      split
      · rename_i hc
        constructor
        · exact Or.inr
        · rintro (rfl | h)
          · rw [Node.mem_abs_nil]; simpa using hc
          · exact h
      · simp only [Node.abs, List.map_cons, List.cons_append, List.mem_cons]
  | .mk subs kids, w :: ws =>
      simp only [Node.insert, Node.abs, List.mem_append]
      rw [Kids.abs_insertAt' kids w ws s e]
      constructor
      · rintro (h | h | h)
        · exact Or.inr (Or.inl h)
        · exact Or.inl h
        · exact Or.inr (Or.inr h)
      · rintro (h | h | h)
        · exact Or.inr (Or.inl h)
        · exact Or.inl h
        · exact Or.inr (Or.inr h)
theorem Kids.abs_insertAt' (k : Kids) (w : Word) (ws : Path) (s : Sub) (e : Path × Sub) :
    e ∈ (k.insertAt w ws s).1.abs ↔ e = (w :: ws, s) ∨ e ∈ k.abs := by
  match k with
  | .nil => simp [Kids.insertAt, Kids.abs, Node.fresh_abs]
  | .cons w' n rest =>
      simp only [Kids.insertAt]
      split
      · rename_i hw
        have hw : w' = w := by simpa using hw
        subst hw
        simp only [Kids.abs, List.mem_append, List.mem_map]
        constructor
        · rintro (⟨ps, hps, rfl⟩ | h)
          · rcases (Node.abs_insert' n ws s ps).mp hps with rfl | h
            · exact Or.inl rfl
            · exact Or.inr (Or.inl ⟨ps, h, rfl⟩)
          · exact Or.inr (Or.inr h)
        · rintro (rfl | ⟨ps, hps, rfl⟩ | h)
          · exact Or.inl ⟨(ws, s), (Node.abs_insert' n ws s _).mpr (Or.inl rfl), rfl⟩
          · exact Or.inl ⟨ps, (Node.abs_insert' n ws s _).mpr (Or.inr hps), rfl⟩
          · exact Or.inr h
      · simp only [Kids.abs, List.mem_append]
        rw [Kids.abs_insertAt' rest w ws s e]
        constructor
        · rintro (h | h | h)
          · exact Or.inr (Or.inl h)
          · exact Or.inl h
          · exact Or.inr (Or.inr h)
        · rintro (h | h | h)
          · exact Or.inr (Or.inl h)
          · exact Or.inl h
          · exact Or.inr (Or.inr h)
end

/-! #### insert -/
theorem Kids.distinct_cons (w : Word) (n : Node) (rest : Kids) :
    (Kids.cons w n rest).distinct = true ↔
      rest.find? w = none ∧ n.distinct = true ∧ rest.distinct = true := by
  simp [Kids.distinct, and_assoc]

theorem Kids.find?_cons_self (w : Word) (n : Node) (rest : Kids) :
    (Kids.cons w n rest).find? w = some n := by simp [Kids.find?]

theorem Kids.find?_cons_ne (w' : Word) (n : Node) (rest : Kids) (w : Word) (h : w' ≠ w) :
    (Kids.cons w' n rest).find? w = rest.find? w := by
  have hb : (w' == w) = false := by simpa using h
  simp [Kids.find?, hb]

mutual
theorem Node.insert_new_iff' (n : Node) (p : Path) (s : Sub) (h : n.distinct = true) :
    (n.insert p s).2 = true ↔ (p, s) ∉ n.abs := by
  match n, p with
  | .mk subs kids, [] =>
      rw [Node.mem_abs_nil]
      simp only [Node.insert]
      split
      · rename_i hc; simpa using hc
      · rename_i hc; simpa using hc
  | .mk subs kids, w :: ws =>
      rw [Node.mem_abs_cons]
      simp only [Node.insert]
      exact Kids.insertAt_new_iff' kids w ws s (by simpa [Node.distinct] using h)
theorem Kids.insertAt_new_iff' (k : Kids) (w : Word) (ws : Path) (s : Sub) (h : k.distinct = true) :
    (k.insertAt w ws s).2 = true ↔ (w :: ws, s) ∉ k.abs := by
  match k with
  | .nil => simp [Kids.insertAt, Kids.abs]
  | .cons w' n rest =>
      rw [Kids.distinct_cons] at h
      obtain ⟨hf, hn, hr⟩ := h
      rw [Kids.mem_abs_cons]
      simp only [Kids.insertAt]
      split
      · rename_i hw
        have hw : w' = w := by simpa using hw
        subst hw
        simp only
        rw [Node.insert_new_iff' n ws s hn]
        have := Kids.not_mem_abs_of_find_none rest w' ws s hf
        simp [this]
      · rename_i hw
        have hw : ¬ w' = w := by simpa using hw
        simp only
        rw [Kids.insertAt_new_iff' rest w ws s hr]
        simp [hw]
end

mutual
theorem Node.abs_length_insert' (n : Node) (p : Path) (s : Sub) :
    (n.insert p s).1.abs.length = n.abs.length + (if (n.insert p s).2 then 1 else 0) := by
  match n, p with
  | .mk subs kids, [] =>
      simp only [Node.insert]
      split
      · simp
      · simp [Node.abs]
  | .mk subs kids, w :: ws =>
      simp only [Node.insert, Node.abs, List.length_append]
      rw [Kids.abs_length_insertAt' kids w ws s]
      by_cases hb : (kids.insertAt w ws s).2 = true <;> simp [hb] <;> omega
theorem Kids.abs_length_insertAt' (k : Kids) (w : Word) (ws : Path) (s : Sub) :
    (k.insertAt w ws s).1.abs.length = k.abs.length + (if (k.insertAt w ws s).2 then 1 else 0) := by
  match k with
  | .nil => simp [Kids.insertAt, Kids.abs, Node.fresh_abs]
  | .cons w' n rest =>
      simp only [Kids.insertAt]
      split
      · simp only [Kids.abs, List.length_append, List.length_map]
        rw [Node.abs_length_insert' n ws s]
        omega
      · simp only [Kids.abs, List.length_append, List.length_map]
        rw [Kids.abs_length_insertAt' rest w ws s]
        omega
end

/-! wf of insert -/
theorem Node.fresh_distinct : (p : Path) → (s : Sub) → (Node.fresh p s).distinct = true
  | [], s => by simp [Node.fresh, Node.distinct, Kids.distinct]
  | w :: ws, s => by simp [Node.fresh, Node.distinct, Kids.distinct, Kids.find?, Node.fresh_distinct ws s]

theorem Node.fresh_not_empty : (p : Path) → (s : Sub) → (Node.fresh p s).isEmpty = false
  | [], s => by simp [Node.fresh, Node.isEmpty]
  | w :: ws, s => by simp [Node.fresh, Node.isEmpty, Kids.isNil]

theorem Node.fresh_pruned : (p : Path) → (s : Sub) → (Node.fresh p s).pruned = true
  | [], s => by simp [Node.fresh, Node.pruned, Kids.pruned]
  | w :: ws, s => by
      simp [Node.fresh, Node.pruned, Kids.pruned, Node.fresh_pruned ws s, Node.fresh_not_empty ws s]

theorem Node.fresh_nodupSubs : (p : Path) → (s : Sub) → (Node.fresh p s).nodupSubs = true
  | [], s => by simp [Node.fresh, Node.nodupSubs, Kids.nodupSubs, List.eraseDups_cons]
  | w :: ws, s => by
      simp [Node.fresh, Node.nodupSubs, Kids.nodupSubs, Node.fresh_nodupSubs ws s]

theorem Kids.find?_insertAt_ne : (k : Kids) → (w : Word) → (ws : Path) → (s : Sub) → (x : Word) →
    w ≠ x → (k.insertAt w ws s).1.find? x = k.find? x
  | .nil, w, ws, s, x, h => by
      simp only [Kids.insertAt]; rw [Kids.find?_cons_ne _ _ _ _ h]
  | .cons w' n rest, w, ws, s, x, h => by
      simp only [Kids.insertAt]
      split
      · rename_i hw
        have hw : w' = w := by simpa using hw
        subst hw
        rw [Kids.find?_cons_ne _ _ _ _ h, Kids.find?_cons_ne _ _ _ _ h]
      · by_cases hx : w' = x
        · subst hx; rw [Kids.find?_cons_self, Kids.find?_cons_self]
        · rw [Kids.find?_cons_ne _ _ _ _ hx, Kids.find?_cons_ne _ _ _ _ hx]
          exact Kids.find?_insertAt_ne rest w ws s x h

mutual
theorem Node.distinct_insert (n : Node) (p : Path) (s : Sub) (h : n.distinct = true) :
    (n.insert p s).1.distinct = true := by
  match n, p with
  | .mk subs kids, [] =>
      simp only [Node.insert]
      split <;> simpa [Node.distinct] using h
  | .mk subs kids, w :: ws =>
      simp only [Node.insert, Node.distinct]
      exact Kids.distinct_insertAt kids w ws s (by simpa [Node.distinct] using h)
theorem Kids.distinct_insertAt (k : Kids) (w : Word) (ws : Path) (s : Sub) (h : k.distinct = true) :
    (k.insertAt w ws s).1.distinct = true := by
  match k with
  | .nil =>
      simp only [Kids.insertAt]
      rw [Kids.distinct_cons]
      exact ⟨rfl, Node.fresh_distinct ws s, rfl⟩
  | .cons w' n rest =>
      rw [Kids.distinct_cons] at h
      obtain ⟨hf, hn, hr⟩ := h
      simp only [Kids.insertAt]
      split
      · rw [Kids.distinct_cons]
        exact ⟨hf, Node.distinct_insert n ws s hn, hr⟩
      · rename_i hw
        have hw : ¬ w' = w := by simpa using hw
        rw [Kids.distinct_cons]
        refine ⟨?_, hn, Kids.distinct_insertAt rest w ws s hr⟩
        rw [Kids.find?_insertAt_ne rest w ws s w' (fun h => hw h.symm)]
        exact hf
end

theorem Node.insert_not_empty (n : Node) (p : Path) (s : Sub) : (n.insert p s).1.isEmpty = false := by
  match n, p with
  | .mk subs kids, [] =>
      simp only [Node.insert]
      split
      · rename_i hc
        cases subs with
        | nil => simp at hc
        | cons a t => simp [Node.isEmpty]
      · simp [Node.isEmpty]
  | .mk subs kids, w :: ws =>
      cases kids with
      | nil => simp [Node.insert, Kids.insertAt, Node.isEmpty, Kids.isNil]
      | cons w' n' rest =>
          simp only [Node.insert, Kids.insertAt]
          split <;> simp [Node.isEmpty, Kids.isNil]

mutual
theorem Node.pruned_insert (n : Node) (p : Path) (s : Sub) (h : n.pruned = true) :
    (n.insert p s).1.pruned = true := by
  match n, p with
  | .mk subs kids, [] =>
      simp only [Node.insert]
      split <;> simpa [Node.pruned] using h
  | .mk subs kids, w :: ws =>
      simp only [Node.insert, Node.pruned]
      exact Kids.pruned_insertAt kids w ws s (by simpa [Node.pruned] using h)
theorem Kids.pruned_insertAt (k : Kids) (w : Word) (ws : Path) (s : Sub) (h : k.pruned = true) :
    (k.insertAt w ws s).1.pruned = true := by
  match k with
  | .nil =>
      simp [Kids.insertAt, Kids.pruned, Node.fresh_pruned, Node.fresh_not_empty]
  | .cons w' n rest =>
      simp only [Kids.pruned, Bool.and_eq_true, Bool.not_eq_eq_eq_not, Bool.not_true] at h
      obtain ⟨⟨he, hn⟩, hr⟩ := h
      simp only [Kids.insertAt]
      split
      · simp [Kids.pruned, Node.insert_not_empty, Node.pruned_insert n ws s hn, hr]
      · simp [Kids.pruned, he, hn, Kids.pruned_insertAt rest w ws s hr]
end

theorem Node.nodupSubs_mk (subs : List Sub) (kids : Kids) :
    (Node.mk subs kids).nodupSubs = true ↔ subs.Nodup ∧ kids.nodupSubs = true := by
  simp only [Node.nodupSubs, Bool.and_eq_true]
  rw [eraseDups_length_eq_iff]

mutual
theorem Node.nodupSubs_insert (n : Node) (p : Path) (s : Sub) (h : n.nodupSubs = true) :
    (n.insert p s).1.nodupSubs = true := by
  match n, p with
  | .mk subs kids, [] =>
      simp only [Node.insert]
      split
      · exact h
      · rename_i hc
        rw [Node.nodupSubs_mk] at h ⊢
        refine ⟨List.nodup_cons.mpr ⟨by simpa using hc, h.1⟩, h.2⟩
  | .mk subs kids, w :: ws =>
      simp only [Node.insert]
      rw [Node.nodupSubs_mk] at h ⊢
      exact ⟨h.1, Kids.nodupSubs_insertAt kids w ws s h.2⟩
theorem Kids.nodupSubs_insertAt (k : Kids) (w : Word) (ws : Path) (s : Sub) (h : k.nodupSubs = true) :
    (k.insertAt w ws s).1.nodupSubs = true := by
  match k with
  | .nil =>
      simp [Kids.insertAt, Kids.nodupSubs, Node.fresh_nodupSubs]
  | .cons w' n rest =>
      simp only [Kids.nodupSubs, Bool.and_eq_true] at h
      simp only [Kids.insertAt]
      split
      · simp [Kids.nodupSubs, Node.nodupSubs_insert n ws s h.1, h.2]
      · simp [Kids.nodupSubs, h.1, Kids.nodupSubs_insertAt rest w ws s h.2]
end

/-! #### remove -/
theorem Node.abs_of_isEmpty (n : Node) (h : n.isEmpty = true) : n.abs = [] := by
  match n with
  | .mk subs kids =>
      simp only [Node.isEmpty, Bool.and_eq_true, List.isEmpty_iff] at h
      obtain ⟨rfl, hk⟩ := h
      cases kids with
      | nil => simp [Node.abs, Kids.abs]
      | cons _ _ _ => simp [Kids.isNil] at hk

mutual
theorem Node.abs_remove' (n : Node) (p : Path) (s : Sub) (hd : n.distinct = true)
    (hn : n.nodupSubs = true) (f : Path) (t : Sub) :
    (f, t) ∈ (n.remove p s).1.abs ↔ (f, t) ∈ n.abs ∧ (f, t) ≠ (p, s) := by
  match n, p, f with
  | .mk subs kids, [], [] =>
      rw [Node.nodupSubs_mk] at hn
      simp only [Node.remove]
      split
      · rw [Node.mem_abs_nil, Node.mem_abs_nil, hn.1.mem_erase_iff]
        simp [and_comm]
      · rename_i hc
        rw [Node.mem_abs_nil]
        constructor
        · intro ht
          refine ⟨ht, ?_⟩
          intro he
          simp only [Prod.mk.injEq, true_and] at he
          subst he
          exact hc (by simpa using ht)
        · exact fun h => h.1
  | .mk subs kids, [], x :: xs =>
      simp only [Node.remove]
      split <;> simp [Node.mem_abs_cons]
  | .mk subs kids, w :: ws, [] =>
      simp only [Node.remove]
      simp [Node.mem_abs_nil]
  | .mk subs kids, w :: ws, x :: xs =>
      rw [Node.nodupSubs_mk] at hn
      simp only [Node.remove]
      rw [Node.mem_abs_cons, Node.mem_abs_cons]
      exact Kids.abs_removeAt' kids w ws s (by simpa [Node.distinct] using hd) hn.2 (x :: xs) t
theorem Kids.abs_removeAt' (k : Kids) (w : Word) (ws : Path) (s : Sub) (hd : k.distinct = true)
    (hn : k.nodupSubs = true) (f : Path) (t : Sub) :
    (f, t) ∈ (k.removeAt w ws s).1.abs ↔ (f, t) ∈ k.abs ∧ (f, t) ≠ (w :: ws, s) := by
  match k, f with
  | k, [] => simp [Kids.nil_not_mem_abs]
  | .nil, x :: xs => simp [Kids.removeAt, Kids.abs]
  | .cons w' n rest, x :: xs =>
      rw [Kids.distinct_cons] at hd
      obtain ⟨hf, hdn, hdr⟩ := hd
      simp only [Kids.nodupSubs, Bool.and_eq_true] at hn
      obtain ⟨hnn, hnr⟩ := hn
      simp only [Kids.removeAt]
      split
      · rename_i hw
        have hw : w' = w := by simpa using hw
        subst hw
        have ih := Node.abs_remove' n ws s hdn hnn xs t
        have hnr' : ∀ ys u, (w' :: ys, u) ∉ rest.abs :=
          fun ys u => Kids.not_mem_abs_of_find_none rest w' ys u hf
        split
        · rename_i he
          rw [Node.abs_of_isEmpty _ he] at ih
          simp only [List.not_mem_nil, false_iff, not_and, Classical.not_not] at ih
          rw [Kids.mem_abs_cons]
          constructor
          · intro h
            refine ⟨Or.inr h, ?_⟩
            intro heq
            simp only [Prod.mk.injEq, List.cons.injEq] at heq
            obtain ⟨⟨rfl, rfl⟩, rfl⟩ := heq
            exact hnr' _ _ h
          · rintro ⟨⟨rfl, h⟩ | h, hne⟩
            · exfalso
              have := ih h
              simp only [Prod.mk.injEq] at this
              obtain ⟨rfl, rfl⟩ := this
              exact hne rfl
            · exact h
        · rw [Kids.mem_abs_cons, Kids.mem_abs_cons, ih]
          constructor
          · rintro (⟨rfl, h, hne⟩ | h)
            · refine ⟨Or.inl ⟨rfl, h⟩, ?_⟩
              intro heq
              simp only [Prod.mk.injEq, List.cons.injEq, true_and] at heq
              exact hne (by simp [heq.1, heq.2])
            · refine ⟨Or.inr h, ?_⟩
              intro heq
              simp only [Prod.mk.injEq, List.cons.injEq] at heq
              obtain ⟨⟨rfl, rfl⟩, rfl⟩ := heq
              exact hnr' _ _ h
          · rintro ⟨⟨rfl, h⟩ | h, hne⟩
            · refine Or.inl ⟨rfl, h, ?_⟩
              intro heq
              simp only [Prod.mk.injEq] at heq
              exact hne (by simp [heq.1, heq.2])
            · exact Or.inr h
      · rename_i hw
        have hw : ¬ w' = w := by simpa using hw
        simp only
        rw [Kids.mem_abs_cons, Kids.mem_abs_cons, Kids.abs_removeAt' rest w ws s hdr hnr (x :: xs) t]
        constructor
        · rintro (⟨rfl, h⟩ | ⟨h, hne⟩)
          · refine ⟨Or.inl ⟨rfl, h⟩, ?_⟩
            intro heq
            simp only [Prod.mk.injEq, List.cons.injEq] at heq
            exact hw heq.1.1
          · exact ⟨Or.inr h, hne⟩
        · rintro ⟨⟨rfl, h⟩ | h, hne⟩
          · exact Or.inl ⟨rfl, h⟩
          · exact Or.inr ⟨h, hne⟩
end

mutual
theorem Node.remove_hit_iff' (n : Node) (p : Path) (s : Sub) (h : n.distinct = true) :
    (n.remove p s).2 = true ↔ (p, s) ∈ n.abs := by
  match n, p with
  | .mk subs kids, [] =>
      rw [Node.mem_abs_nil]
      simp only [Node.remove]
      split
      · rename_i hc; simpa using hc
      · rename_i hc; simpa using hc
  | .mk subs kids, w :: ws =>
      rw [Node.mem_abs_cons]
      simp only [Node.remove]
      exact Kids.removeAt_hit_iff' kids w ws s (by simpa [Node.distinct] using h)
theorem Kids.removeAt_hit_iff' (k : Kids) (w : Word) (ws : Path) (s : Sub) (h : k.distinct = true) :
    (k.removeAt w ws s).2 = true ↔ (w :: ws, s) ∈ k.abs := by
  match k with
  | .nil => simp [Kids.removeAt, Kids.abs]
  | .cons w' n rest =>
      rw [Kids.distinct_cons] at h
      obtain ⟨hf, hn, hr⟩ := h
      rw [Kids.mem_abs_cons]
      simp only [Kids.removeAt]
      split
      · rename_i hw
        have hw : w' = w := by simpa using hw
        subst hw
        have := Kids.not_mem_abs_of_find_none rest w' ws s hf
        split
        · simp only
          rw [Node.remove_hit_iff' n ws s hn]
          simp [this]
        · simp only
          rw [Node.remove_hit_iff' n ws s hn]
          simp [this]
      · rename_i hw
        have hw : ¬ w' = w := by simpa using hw
        simp only
        rw [Kids.removeAt_hit_iff' rest w ws s hr]
        simp [hw]
end

mutual
theorem Node.abs_length_remove' (n : Node) (p : Path) (s : Sub) :
    (n.remove p s).1.abs.length + (if (n.remove p s).2 then 1 else 0) = n.abs.length := by
  match n, p with
  | .mk subs kids, [] =>
      simp only [Node.remove]
      split
      · rename_i hc
        have hc : s ∈ subs := by simpa using hc
        have hpos : 0 < subs.length := List.length_pos_of_mem hc
        simp [Node.abs, List.length_erase_of_mem hc]
        omega
      · simp
  | .mk subs kids, w :: ws =>
      simp only [Node.remove, Node.abs, List.length_append]
      have := Kids.abs_length_removeAt' kids w ws s
      by_cases hb : (kids.removeAt w ws s).2 = true <;> simp [hb] at this ⊢ <;> omega
theorem Kids.abs_length_removeAt' (k : Kids) (w : Word) (ws : Path) (s : Sub) :
    (k.removeAt w ws s).1.abs.length + (if (k.removeAt w ws s).2 then 1 else 0) = k.abs.length := by
  match k with
  | .nil => simp [Kids.removeAt, Kids.abs]
  | .cons w' n rest =>
      simp only [Kids.removeAt]
      split
      · have ih := Node.abs_length_remove' n ws s
        split
        · rename_i he
          rw [Node.abs_of_isEmpty _ he] at ih
          simp only [Kids.abs, List.length_append, List.length_map]
          by_cases hb : (n.remove ws s).2 = true <;>
            simp only [hb, ↓reduceIte, List.length_nil] at ih ⊢ <;> omega
        · simp only [Kids.abs, List.length_append, List.length_map]
          by_cases hb : (n.remove ws s).2 = true <;> simp only [hb, ↓reduceIte] at ih ⊢ <;> omega
      · simp only [Kids.abs, List.length_append, List.length_map]
        have ih := Kids.abs_length_removeAt' rest w ws s
        by_cases hb : (rest.removeAt w ws s).2 = true <;> simp [hb] at ih ⊢ <;> omega
end

/-! #### well-formedness is preserved by remove -/
theorem Kids.find?_removeAt_none : (k : Kids) → (w : Word) → (ws : Path) → (s : Sub) → (x : Word) →
    k.find? x = none → (k.removeAt w ws s).1.find? x = none
  | .nil, w, ws, s, x, h => by simp [Kids.removeAt, Kids.find?]
  | .cons w' n rest, w, ws, s, x, h => by
      have hx : ¬ w' = x := by
        intro hx; subst hx; rw [Kids.find?_cons_self] at h; cases h
      rw [Kids.find?_cons_ne _ _ _ _ hx] at h
      simp only [Kids.removeAt]
      split
      · split
        · exact h
        · rw [Kids.find?_cons_ne _ _ _ _ hx]; exact h
      · rw [Kids.find?_cons_ne _ _ _ _ hx]
        exact Kids.find?_removeAt_none rest w ws s x h

mutual
theorem Node.distinct_remove (n : Node) (p : Path) (s : Sub) (h : n.distinct = true) :
    (n.remove p s).1.distinct = true := by
  match n, p with
  | .mk subs kids, [] =>
      simp only [Node.remove]
      split <;> simpa [Node.distinct] using h
  | .mk subs kids, w :: ws =>
      simp only [Node.remove, Node.distinct]
      exact Kids.distinct_removeAt kids w ws s (by simpa [Node.distinct] using h)
theorem Kids.distinct_removeAt (k : Kids) (w : Word) (ws : Path) (s : Sub) (h : k.distinct = true) :
    (k.removeAt w ws s).1.distinct = true := by
  match k with
  | .nil => simp [Kids.removeAt, Kids.distinct]
  | .cons w' n rest =>
      rw [Kids.distinct_cons] at h
      obtain ⟨hf, hn, hr⟩ := h
      simp only [Kids.removeAt]
      split
      · split
        · exact hr
        · rw [Kids.distinct_cons]
          exact ⟨hf, Node.distinct_remove n ws s hn, hr⟩
      · rw [Kids.distinct_cons]
        exact ⟨Kids.find?_removeAt_none rest w ws s w' hf, hn, Kids.distinct_removeAt rest w ws s hr⟩
end

mutual
theorem Node.pruned_remove (n : Node) (p : Path) (s : Sub) (h : n.pruned = true) :
    (n.remove p s).1.pruned = true := by
  match n, p with
  | .mk subs kids, [] =>
      simp only [Node.remove]
      split <;> simpa [Node.pruned] using h
  | .mk subs kids, w :: ws =>
      simp only [Node.remove, Node.pruned]
      exact Kids.pruned_removeAt kids w ws s (by simpa [Node.pruned] using h)
theorem Kids.pruned_removeAt (k : Kids) (w : Word) (ws : Path) (s : Sub) (h : k.pruned = true) :
    (k.removeAt w ws s).1.pruned = true := by
  match k with
  | .nil => simp [Kids.removeAt, Kids.pruned]
  | .cons w' n rest =>
      simp only [Kids.pruned, Bool.and_eq_true, Bool.not_eq_eq_eq_not, Bool.not_true] at h
      obtain ⟨⟨he, hn⟩, hr⟩ := h
      simp only [Kids.removeAt]
      split
      · split
        · exact hr
        · rename_i hne
          simp [Kids.pruned, hne, Node.pruned_remove n ws s hn, hr]
      · simp [Kids.pruned, he, hn, Kids.pruned_removeAt rest w ws s hr]
end

mutual
theorem Node.nodupSubs_remove (n : Node) (p : Path) (s : Sub) (h : n.nodupSubs = true) :
    (n.remove p s).1.nodupSubs = true := by
  match n, p with
  | .mk subs kids, [] =>
      simp only [Node.remove]
      split
      · rw [Node.nodupSubs_mk] at h ⊢
        exact ⟨h.1.erase s, h.2⟩
      · exact h
  | .mk subs kids, w :: ws =>
      simp only [Node.remove]
      rw [Node.nodupSubs_mk] at h ⊢
      exact ⟨h.1, Kids.nodupSubs_removeAt kids w ws s h.2⟩
theorem Kids.nodupSubs_removeAt (k : Kids) (w : Word) (ws : Path) (s : Sub) (h : k.nodupSubs = true) :
    (k.removeAt w ws s).1.nodupSubs = true := by
  match k with
  | .nil => simp [Kids.removeAt, Kids.nodupSubs]
  | .cons w' n rest =>
      simp only [Kids.nodupSubs, Bool.and_eq_true] at h
      simp only [Kids.removeAt]
      split
      · split
        · exact h.2
        · simp [Kids.nodupSubs, Node.nodupSubs_remove n ws s h.1, h.2]
      · simp [Kids.nodupSubs, h.1, Kids.nodupSubs_removeAt rest w ws s h.2]
end

/-! abs nodup -/
mutual
theorem Node.abs_nodup' (n : Node) (hd : n.distinct = true) (hn : n.nodupSubs = true) :
    n.abs.Nodup := by
  match n with
  | .mk subs kids =>
      rw [Node.nodupSubs_mk] at hn
      simp only [Node.abs]
      rw [List.nodup_append]
      refine ⟨?_, Kids.abs_nodup' kids (by simpa [Node.distinct] using hd) hn.2, ?_⟩
      · refine List.Pairwise.map _ ?_ hn.1
        intro a b hab heq
        simp only [Prod.mk.injEq, true_and] at heq
        exact hab heq
      · intro a ha b hb heq
        subst heq
        simp only [List.mem_map] at ha
        obtain ⟨t, _, rfl⟩ := ha
        exact Kids.nil_not_mem_abs kids t hb
theorem Kids.abs_nodup' (k : Kids) (hd : k.distinct = true) (hn : k.nodupSubs = true) :
    k.abs.Nodup := by
  match k with
  | .nil => simp [Kids.abs]
  | .cons w n rest =>
      rw [Kids.distinct_cons] at hd
      obtain ⟨hf, hdn, hdr⟩ := hd
      simp only [Kids.nodupSubs, Bool.and_eq_true] at hn
      simp only [Kids.abs]
      rw [List.nodup_append]
      refine ⟨?_, Kids.abs_nodup' rest hdr hn.2, ?_⟩
      · refine List.Pairwise.map _ ?_ (Node.abs_nodup' n hdn hn.1)
        intro a b hab heq
        simp only [Prod.mk.injEq, List.cons.injEq, true_and] at heq
        exact hab (Prod.ext heq.1 heq.2)
      · intro a ha b hb heq
        subst heq
        simp only [List.mem_map] at ha
        obtain ⟨⟨f, t⟩, _, rfl⟩ := ha
        exact Kids.not_mem_abs_of_find_none rest w f t hf hb
end

/-! #### lookups -/
theorem Node.mem_subs_iff (n : Node) (s : Sub) : s ∈ n.subs ↔ ([], s) ∈ n.abs := by
  match n with
  | .mk subs kids => rw [Node.mem_abs_nil]; rfl

mutual
theorem Node.lookupE_spec' (n : Node) (q : Path) (s : Sub) :
    s ∈ n.lookupE q ↔ ∃ f, (f, s) ∈ n.abs ∧ matchesE f q = true := by
  match n, q with
  | .mk subs kids, [] =>
      simp only [Node.lookupE]
      constructor
      · intro h; exact ⟨[], (Node.mem_abs_nil _ _ _).mpr h, rfl⟩
      · rintro ⟨f, h, hm⟩
        cases f with
        | nil => exact (Node.mem_abs_nil _ _ _).mp h
        | cons a t => simp [matchesE] at hm
  | .mk subs kids, w :: ws =>
      simp only [Node.lookupE, List.mem_append]
      rw [Kids.lookupE_spec' kids w ws s]
      constructor
      · rintro (h | ⟨f, h, hm⟩)
        · exact ⟨[], (Node.mem_abs_nil _ _ _).mpr h, rfl⟩
        · cases f with
          | nil => exact absurd h (Kids.nil_not_mem_abs _ _)
          | cons a t => exact ⟨a :: t, (Node.mem_abs_cons _ _ _ _ _).mpr h, hm⟩
      · rintro ⟨f, h, hm⟩
        cases f with
        | nil => exact Or.inl ((Node.mem_abs_nil _ _ _).mp h)
        | cons a t => exact Or.inr ⟨a :: t, (Node.mem_abs_cons _ _ _ _ _).mp h, hm⟩
theorem Kids.lookupE_spec' (k : Kids) (w : Word) (ws : Path) (s : Sub) :
    s ∈ k.lookupE w ws ↔ ∃ f, (f, s) ∈ k.abs ∧ matchesE f (w :: ws) = true := by
  match k with
  | .nil => simp [Kids.lookupE, Kids.abs]
  | .cons w' n rest =>
      simp only [Kids.lookupE, List.mem_append]
      rw [Kids.lookupE_spec' rest w ws s]
      constructor
      · rintro (h | ⟨f, hf, hm⟩)
        · split at h
          · rename_i hc
            rw [Node.lookupE_spec' n ws s] at h
            obtain ⟨f, hf, hm⟩ := h
            refine ⟨w' :: f, (Kids.mem_abs_cons _ _ _ _ _ _).mpr (Or.inl ⟨rfl, hf⟩), ?_⟩
            simp only [matchesE, Bool.and_eq_true]
            exact ⟨hc, hm⟩
          · simp at h
        · cases f with
          | nil => exact absurd hf (Kids.nil_not_mem_abs _ _)
          | cons a t => exact ⟨a :: t, (Kids.mem_abs_cons _ _ _ _ _ _).mpr (Or.inr hf), hm⟩
      · rintro ⟨f, h, hm⟩
        cases f with
        | nil => exact absurd h (Kids.nil_not_mem_abs _ _)
        | cons a t =>
            rcases (Kids.mem_abs_cons _ _ _ _ _ _).mp h with ⟨rfl, h1⟩ | h1
            · simp only [matchesE, Bool.and_eq_true] at hm
              left
              rw [if_pos hm.1, Node.lookupE_spec' n ws s]
              exact ⟨t, h1, hm.2⟩
            · exact Or.inr ⟨a :: t, h1, hm⟩
end

mutual
theorem Node.lookupM_spec' (n : Node) (q : Path) (s : Sub) :
    s ∈ n.lookupM q ↔ ∃ f, (f, s) ∈ n.abs ∧ matchesM f q = true := by
  match n, q with
  | .mk subs kids, [] =>
      simp only [Node.lookupM]
      constructor
      · intro h; exact ⟨[], (Node.mem_abs_nil _ _ _).mpr h, rfl⟩
      · rintro ⟨f, h, hm⟩
        cases f with
        | nil => exact (Node.mem_abs_nil _ _ _).mp h
        | cons a t => simp [matchesM] at hm
  | .mk subs kids, w :: ws =>
      simp only [Node.lookupM]
      rw [Kids.lookupM_spec' kids w ws s]
      constructor
      · rintro ⟨f, h, hm⟩
        cases f with
        | nil => exact absurd h (Kids.nil_not_mem_abs _ _)
        | cons a t => exact ⟨a :: t, (Node.mem_abs_cons _ _ _ _ _).mpr h, hm⟩
      · rintro ⟨f, h, hm⟩
        cases f with
        | nil => simp [matchesM] at hm
        | cons a t => exact ⟨a :: t, (Node.mem_abs_cons _ _ _ _ _).mp h, hm⟩
theorem Kids.lookupM_spec' (k : Kids) (w : Word) (ws : Path) (s : Sub) :
    s ∈ k.lookupM w ws ↔ ∃ f, (f, s) ∈ k.abs ∧ matchesM f (w :: ws) = true := by
  match k with
  | .nil => simp [Kids.lookupM, Kids.abs]
  | .cons w' n rest =>
      simp only [Kids.lookupM, List.mem_append]
      rw [Kids.lookupM_spec' rest w ws s]
      constructor
      · rintro ((h | h) | ⟨f, hf, hm⟩)
        · split at h
          · rename_i hc
            rw [Node.lookupM_spec' n ws s] at h
            obtain ⟨f, hf, hm⟩ := h
            refine ⟨w' :: f, (Kids.mem_abs_cons _ _ _ _ _ _).mpr (Or.inl ⟨rfl, hf⟩), ?_⟩
            simp only [matchesM, Bool.or_eq_true, Bool.and_eq_true]
            exact Or.inl ⟨by simpa using hc, hm⟩
          · simp at h
        · split at h
          · rename_i hc
            rw [Node.mem_subs_iff] at h
            refine ⟨[w'], (Kids.mem_abs_cons _ _ _ _ _ _).mpr (Or.inl ⟨rfl, h⟩), ?_⟩
            simp only [matchesM, Bool.or_eq_true, Bool.and_eq_true]
            exact Or.inr ⟨hc, rfl⟩
          · simp at h
        · cases f with
          | nil => exact absurd hf (Kids.nil_not_mem_abs _ _)
          | cons a t => exact ⟨a :: t, (Kids.mem_abs_cons _ _ _ _ _ _).mpr (Or.inr hf), hm⟩
      · rintro ⟨f, h, hm⟩
        cases f with
        | nil => exact absurd h (Kids.nil_not_mem_abs _ _)
        | cons a t =>
            rcases (Kids.mem_abs_cons _ _ _ _ _ _).mp h with ⟨rfl, h1⟩ | h1
            · simp only [matchesM, Bool.or_eq_true, Bool.and_eq_true] at hm
              rcases hm with ⟨hc, hm⟩ | ⟨hc, ht⟩
              · left; left
                rw [if_pos (by simpa using hc), Node.lookupM_spec' n ws s]
                exact ⟨t, h1, hm⟩
              · left; right
                have : t = [] := by simpa using ht
                subst this
                rw [if_pos hc, Node.mem_subs_iff]
                exact h1
            · exact Or.inr ⟨a :: t, h1, hm⟩
end

/-! share groups -/
theorem Kids.find?_some_abs : (k : Kids) → (w : Word) → (n : Node) → k.distinct = true →
    k.find? w = some n → ∀ (p : Path) (s : Sub), (w :: p, s) ∈ k.abs ↔ (p, s) ∈ n.abs
  | .nil, w, n, _, h => by simp [Kids.find?] at h
  | .cons w' n' rest, w, n, hd, h => by
      intro p s
      rw [Kids.distinct_cons] at hd
      obtain ⟨hf, _, hdr⟩ := hd
      rw [Kids.mem_abs_cons]
      by_cases hw : w' = w
      · subst hw
        rw [Kids.find?_cons_self] at h
        cases h
        have := Kids.not_mem_abs_of_find_none rest w' p s hf
        simp [this]
      · rw [Kids.find?_cons_ne _ _ _ _ hw] at h
        rw [← Kids.find?_some_abs rest w n hdr h p s]
        simp [hw]

theorem Kids.find?_some_distinct : (k : Kids) → (w : Word) → (n : Node) → k.distinct = true →
    k.find? w = some n → n.distinct = true
  | .nil, w, n, _, h => by simp [Kids.find?] at h
  | .cons w' n' rest, w, n, hd, h => by
      rw [Kids.distinct_cons] at hd
      obtain ⟨_, hdn, hdr⟩ := hd
      by_cases hw : w' = w
      · subst hw
        rw [Kids.find?_cons_self] at h
        cases h; exact hdn
      · rw [Kids.find?_cons_ne _ _ _ _ hw] at h
        exact Kids.find?_some_distinct rest w n hdr h

theorem Kids.find?_isSome_of_mem_abs (k : Kids) (w : Word) (p : Path) (s : Sub)
    (h : (w :: p, s) ∈ k.abs) : ∃ n, k.find? w = some n := by
  cases hf : k.find? w with
  | none => exact absurd h (Kids.not_mem_abs_of_find_none k w p s hf)
  | some n => exact ⟨n, rfl⟩

theorem Node.kids_distinct (n : Node) (h : n.distinct = true) : n.kids.distinct = true := by
  match n with
  | .mk _ _ => simpa [Node.distinct, Node.kids] using h

theorem Node.mem_abs_cons' (n : Node) (w : Word) (ws : Path) (s : Sub) :
    (w :: ws, s) ∈ n.abs ↔ (w :: ws, s) ∈ n.kids.abs := by
  match n with
  | .mk _ _ => rw [Node.mem_abs_cons]; rfl

/-- descending one level in a node whose children are distinct -/
theorem Node.child_abs (n c : Node) (w : Word) (hd : n.distinct = true) (hf : n.kids.find? w = some c)
    (p : Path) (s : Sub) : (w :: p, s) ∈ n.abs ↔ (p, s) ∈ c.abs := by
  rw [Node.mem_abs_cons']
  exact Kids.find?_some_abs n.kids w c (Node.kids_distinct n hd) hf p s

theorem Node.child_distinct (n c : Node) (w : Word) (hd : n.distinct = true)
    (hf : n.kids.find? w = some c) : c.distinct = true :=
  Kids.find?_some_distinct n.kids w c (Node.kids_distinct n hd) hf

theorem Node.child_exists (n : Node) (w : Word) (p : Path) (s : Sub) (h : (w :: p, s) ∈ n.abs) :
    ∃ c, n.kids.find? w = some c :=
  Kids.find?_isSome_of_mem_abs n.kids w p s ((Node.mem_abs_cons' n w p s).mp h)

theorem Kids.groups_find : (k : Kids) → (m : Mode) → (q : Path) → (g : Word) → (cands : List Sub) →
    k.distinct = true → (g, cands) ∈ k.groups m q → ∃ n, k.find? g = some n ∧ cands = n.lookup m q
  | .nil, m, q, g, cands, _, h => by simp [Kids.groups] at h
  | .cons w n rest, m, q, g, cands, hd, h => by
      rw [Kids.distinct_cons] at hd
      obtain ⟨hf, _, hdr⟩ := hd
      simp only [Kids.groups, List.mem_cons, Prod.mk.injEq] at h
      rcases h with ⟨rfl, rfl⟩ | h
      · exact ⟨n, Kids.find?_cons_self _ _ _, rfl⟩
      · obtain ⟨n', hn', hc⟩ := Kids.groups_find rest m q g cands hdr h
        refine ⟨n', ?_, hc⟩
        have hw : ¬ w = g := by
          intro hw; subst hw; rw [hf] at hn'; cases hn'
        rw [Kids.find?_cons_ne _ _ _ _ hw]; exact hn'

theorem Kids.groups_of_find : (k : Kids) → (m : Mode) → (q : Path) → (g : Word) → (n : Node) →
    k.find? g = some n → (g, n.lookup m q) ∈ k.groups m q
  | .nil, m, q, g, n, h => by simp [Kids.find?] at h
  | .cons w n' rest, m, q, g, n, h => by
      simp only [Kids.groups, List.mem_cons, Prod.mk.injEq]
      by_cases hw : w = g
      · subst hw
        rw [Kids.find?_cons_self] at h
        cases h; exact Or.inl ⟨rfl, rfl⟩
      · rw [Kids.find?_cons_ne _ _ _ _ hw] at h
        exact Or.inr (Kids.groups_of_find rest m q g n h)

theorem Kids.groups_keys_not_mem : (k : Kids) → (m : Mode) → (q : Path) → (g : Word) →
    k.find? g = none → g ∉ (k.groups m q).map Prod.fst
  | .nil, m, q, g, _ => by simp [Kids.groups]
  | .cons w n rest, m, q, g, h => by
      have hw : ¬ w = g := by
        intro hw; subst hw; rw [Kids.find?_cons_self] at h; cases h
      rw [Kids.find?_cons_ne _ _ _ _ hw] at h
      simp only [Kids.groups, List.map_cons, List.mem_cons, not_or]
      exact ⟨fun h' => hw h'.symm, Kids.groups_keys_not_mem rest m q g h⟩

theorem Kids.groups_keys_nodup : (k : Kids) → (m : Mode) → (q : Path) → k.distinct = true →
    ((k.groups m q).map Prod.fst).Nodup
  | .nil, m, q, _ => by simp [Kids.groups]
  | .cons w n rest, m, q, hd => by
      rw [Kids.distinct_cons] at hd
      obtain ⟨hf, _, hdr⟩ := hd
      simp only [Kids.groups, List.map_cons, List.nodup_cons]
      exact ⟨Kids.groups_keys_not_mem rest m q w hf, Kids.groups_keys_nodup rest m q hdr⟩

/-! ### the statements -/

theorem wf_empty : Node.empty.wf := by
  refine ⟨by decide, by decide, by decide⟩

/-! ### subscribe / unsubscribe refine insertion / removal on the set of pairs -/

theorem abs_insert (n : Node) (p : Path) (s : Sub) (h : n.wf) (e : Path × Sub) :
    e ∈ (n.insert p s).1.abs ↔ e = (p, s) ∨ e ∈ n.abs := by
  exact Node.abs_insert' n p s e

theorem insert_new_iff (n : Node) (p : Path) (s : Sub) (h : n.wf) :
    (n.insert p s).2 = true ↔ (p, s) ∉ n.abs := by
  exact Node.insert_new_iff' n p s h.1

theorem abs_length_insert (n : Node) (p : Path) (s : Sub) (h : n.wf) :
    (n.insert p s).1.abs.length = n.abs.length + (if (n.insert p s).2 then 1 else 0) := by
  exact Node.abs_length_insert' n p s

theorem wf_insert (n : Node) (p : Path) (s : Sub) (h : n.wf) : (n.insert p s).1.wf := by
  exact ⟨Node.distinct_insert n p s h.1, Node.pruned_insert n p s h.2.1,
    Node.nodupSubs_insert n p s h.2.2⟩

theorem abs_remove (n : Node) (p : Path) (s : Sub) (h : n.wf) (e : Path × Sub) :
    e ∈ (n.remove p s).1.abs ↔ e ∈ n.abs ∧ e ≠ (p, s) := by
  obtain ⟨f, t⟩ := e
  exact Node.abs_remove' n p s h.1 h.2.2 f t

theorem remove_hit_iff (n : Node) (p : Path) (s : Sub) (h : n.wf) :
    (n.remove p s).2 = true ↔ (p, s) ∈ n.abs := by
  exact Node.remove_hit_iff' n p s h.1

theorem abs_length_remove (n : Node) (p : Path) (s : Sub) (h : n.wf) :
    (n.remove p s).1.abs.length + (if (n.remove p s).2 then 1 else 0) = n.abs.length := by
  exact Node.abs_length_remove' n p s

theorem wf_remove (n : Node) (p : Path) (s : Sub) (h : n.wf) : (n.remove p s).1.wf := by
  exact ⟨Node.distinct_remove n p s h.1, Node.pruned_remove n p s h.2.1,
    Node.nodupSubs_remove n p s h.2.2⟩

/-- the pairs of a well-formed trie are pairwise distinct -/
theorem abs_nodup (n : Node) (h : n.wf) : n.abs.Nodup := by
  exact Node.abs_nodup' n h.1 h.2.2

/-! ### lookups return exactly the subscribers holding a matching filter -/

theorem lookupE_spec (n : Node) (q : Path) (s : Sub) :
    s ∈ n.lookupE q ↔ ∃ f, (f, s) ∈ n.abs ∧ matchesE f q = true := by
  exact Node.lookupE_spec' n q s

theorem lookupM_spec (n : Node) (q : Path) (s : Sub) :
    s ∈ n.lookupM q ↔ ∃ f, (f, s) ∈ n.abs ∧ matchesM f q = true := by
  exact Node.lookupM_spec' n q s

theorem lookup_spec (m : Mode) (n : Node) (q : Path) (s : Sub) :
    s ∈ n.lookup m q ↔ ∃ f, (f, s) ∈ n.abs ∧ matchesMode m f q = true := by
  cases m
  · exact lookupE_spec n q s
  · exact lookupM_spec n q s

/-- the candidates of a share group are the subscribers holding a matching filter inside
`contract/$share/group/…` -/
theorem shareGroups_spec (m : Mode) (root : Node) (c : Word) (q : Path) (h : root.wf)
    (g : Word) (cands : List Sub) (hg : (g, cands) ∈ shareGroups m root (c :: q)) (s : Sub) :
    s ∈ cands ↔ ∃ f, (c :: shareWord :: g :: f, s) ∈ root.abs ∧ matchesMode m f q = true := by
  simp only [shareGroups] at hg
  cases hc : root.kids.find? c with
  | none => rw [hc] at hg; simp at hg
  | some cn =>
      rw [hc] at hg
      simp only at hg
      have hdc := Node.child_distinct root cn c h.1 hc
      cases hs : cn.kids.find? shareWord with
      | none => rw [hs] at hg; simp at hg
      | some sn =>
          rw [hs] at hg
          simp only at hg
          have hds := Node.child_distinct cn sn shareWord hdc hs
          obtain ⟨gn, hgn, rfl⟩ := Kids.groups_find sn.kids m q g cands (Node.kids_distinct sn hds) hg
          rw [lookup_spec]
          have key : ∀ f, (c :: shareWord :: g :: f, s) ∈ root.abs ↔ (f, s) ∈ gn.abs := by
            intro f
            rw [Node.child_abs root cn c h.1 hc, Node.child_abs cn sn shareWord hdc hs,
              Node.child_abs sn gn g hds hgn]
          constructor
          · rintro ⟨f, hf, hm⟩; exact ⟨f, (key f).mpr hf, hm⟩
          · rintro ⟨f, hf, hm⟩; exact ⟨f, (key f).mp hf, hm⟩

/-- every group below `contract/$share` that holds any pair appears exactly once -/
theorem shareGroups_complete (m : Mode) (root : Node) (c : Word) (q : Path) (h : root.wf)
    (g : Word) (f : Path) (s : Sub) (hp : (c :: shareWord :: g :: f, s) ∈ root.abs) :
    ∃ cands, (g, cands) ∈ shareGroups m root (c :: q) := by
  obtain ⟨cn, hc⟩ := Node.child_exists root c _ s hp
  have hdc := Node.child_distinct root cn c h.1 hc
  rw [Node.child_abs root cn c h.1 hc] at hp
  obtain ⟨sn, hs⟩ := Node.child_exists cn shareWord _ s hp
  have hds := Node.child_distinct cn sn shareWord hdc hs
  rw [Node.child_abs cn sn shareWord hdc hs] at hp
  obtain ⟨gn, hgn⟩ := Node.child_exists sn g _ s hp
  refine ⟨gn.lookup m q, ?_⟩
  simp only [shareGroups, hc, hs]
  exact Kids.groups_of_find sn.kids m q g gn hgn

theorem shareGroups_nodup (m : Mode) (root : Node) (ssid : Path) (h : root.wf) :
    ((shareGroups m root ssid).map Prod.fst).Nodup := by
  cases ssid with
  | nil => simp [shareGroups]
  | cons c q =>
      simp only [shareGroups]
      cases hc : root.kids.find? c with
      | none => simp
      | some cn =>
          simp only
          have hdc := Node.child_distinct root cn c h.1 hc
          cases hs : cn.kids.find? shareWord with
          | none => simp
          | some sn =>
              simp only
              have hds := Node.child_distinct cn sn shareWord hdc hs
              exact Kids.groups_keys_nodup sn.kids m q (Node.kids_distinct sn hds)

/-- `Lookup`: the direct receivers plus, for every share group with a matching member, the
one member chosen by `pick` — for every choice function -/
theorem lookupAll_spec (m : Mode) (pick : List Sub → Sub) (root : Node) (ssid : Path) (s : Sub) :
    s ∈ lookupAll m pick root ssid ↔
      s ∈ root.lookup m ssid ∨ ∃ g ∈ shareGroups m root ssid, g.2 ≠ [] ∧ s = pick g.2 := by
  simp only [lookupAll, List.mem_append, List.mem_map, List.mem_filter]
  constructor
  · rintro (h | ⟨g, ⟨hg, hne⟩, rfl⟩)
    · exact Or.inl h
    · exact Or.inr ⟨g, hg, by simpa using hne, rfl⟩
  · rintro (h | ⟨g, hg, hne, rfl⟩)
    · exact Or.inl h
    · exact Or.inr ⟨g, ⟨hg, by simpa using hne⟩, rfl⟩

/-! ### the matching relations, in index form -/

theorem matchesE_iff (f q : Path) :
    matchesE f q = true ↔ f.length ≤ q.length ∧ ∀ i (h : i < f.length) (h' : i < q.length),
      f[i] = q[i] ∨ f[i] = wildcard := by
  induction f generalizing q with
  | nil => simp [matchesE]
  | cons a fs ih =>
      cases q with
      | nil => simp [matchesE]
      | cons c cs =>
          simp only [matchesE, Bool.and_eq_true, Bool.or_eq_true, beq_iff_eq, ih cs,
            List.length_cons, Nat.add_le_add_iff_right]
          constructor
          · rintro ⟨h0, hl, hi⟩
            refine ⟨hl, ?_⟩
            intro i h h'
            cases i with
            | zero => simpa using h0
            | succ j =>
                simp only [List.getElem_cons_succ]
                exact hi j (by omega) (by omega)
          · rintro ⟨hl, hi⟩
            refine ⟨by simpa using hi 0 (by omega) (by omega), hl, ?_⟩
            intro i h h'
            have := hi (i + 1) (by omega) (by omega)
            simpa only [List.getElem_cons_succ] using this

theorem matchesM_iff (f q : Path) :
    matchesM f q = true ↔
      (f.length = q.length ∧ ∀ i (h : i < f.length) (h' : i < q.length), f[i] = q[i] ∨ f[i] = wildcard) ∨
      (∃ g, f = g ++ [multiWildcard] ∧ g.length < q.length ∧
        ∀ i (h : i < g.length) (h' : i < q.length), g[i] = q[i] ∨ g[i] = wildcard) := by
  induction f generalizing q with
  | nil =>
      cases q with
      | nil => simp [matchesM]
      | cons c cs => simp [matchesM]
  | cons a fs ih =>
      cases q with
      | nil => simp [matchesM]
      | cons c cs =>
          simp only [matchesM, Bool.or_eq_true, Bool.and_eq_true, beq_iff_eq, List.isEmpty_iff, ih cs]
          constructor
          · rintro (⟨h0, ⟨hl, hi⟩ | ⟨g, rfl, hl, hi⟩⟩ | ⟨rfl, rfl⟩)
            · left
              refine ⟨by simp [hl], ?_⟩
              intro i h h'
              cases i with
              | zero => simpa using h0
              | succ j =>
                  simp only [List.getElem_cons_succ]
                  exact hi j (by simp at h; omega) (by simp at h'; omega)
            · right
              refine ⟨a :: g, rfl, by simp; omega, ?_⟩
              intro i h h'
              cases i with
              | zero => simpa using h0
              | succ j =>
                  simp only [List.getElem_cons_succ]
                  exact hi j (by simp at h; omega) (by simp at h'; omega)
            · right
              exact ⟨[], rfl, by simp, by intro i h; simp at h⟩
          · rintro (⟨hl, hi⟩ | ⟨g, hg, hl, hi⟩)
            · left
              have hl' : fs.length = cs.length := by simpa using hl
              have h0 := hi 0 (Nat.zero_lt_succ _) (Nat.zero_lt_succ _)
              simp only [List.getElem_cons_zero] at h0
              refine ⟨h0, Or.inl ⟨hl', ?_⟩⟩
              intro i h h'
              have := hi (i + 1) (by simp; omega) (by simp; omega)
              simpa only [List.getElem_cons_succ] using this
            · cases g with
              | nil =>
                  simp only [List.nil_append, List.cons.injEq] at hg
                  exact Or.inr ⟨hg.1, hg.2⟩
              | cons b g' =>
                  simp only [List.cons_append, List.cons.injEq] at hg
                  obtain ⟨rfl, rfl⟩ := hg
                  left
                  have h0 := hi 0 (Nat.zero_lt_succ _) (Nat.zero_lt_succ _)
                  simp only [List.getElem_cons_zero] at h0
                  refine ⟨h0, Or.inr ⟨g', rfl, by simp at hl; omega, ?_⟩⟩
                  intro i h h'
                  have := hi (i + 1) (by simp; omega) (by simp; omega)
                  simpa only [List.getElem_cons_succ] using this

/-! ### pruning: no subscription left ⇒ the index is the bare root again -/

mutual
theorem Node.eq_empty_of_abs_nil (n : Node) (hp : n.pruned = true) (he : n.abs = []) :
    n = Node.mk [] .nil := by
  match n with
  | .mk subs kids =>
      simp only [Node.abs, List.append_eq_nil_iff, List.map_eq_nil_iff] at he
      obtain ⟨rfl, hk⟩ := he
      rw [Kids.eq_nil_of_abs_nil kids (by simpa [Node.pruned] using hp) hk]
theorem Kids.eq_nil_of_abs_nil (k : Kids) (hp : k.pruned = true) (he : k.abs = []) :
    k = .nil := by
  match k with
  | .nil => rfl
  | .cons w n rest =>
      exfalso
      simp only [Kids.abs, List.append_eq_nil_iff, List.map_eq_nil_iff] at he
      simp only [Kids.pruned, Bool.and_eq_true, Bool.not_eq_eq_eq_not, Bool.not_true] at hp
      obtain ⟨⟨hne, hpn⟩, _⟩ := hp
      rw [Node.eq_empty_of_abs_nil n hpn he.1] at hne
      simp [Node.isEmpty, Kids.isNil] at hne
end

theorem empty_of_abs_nil (n : Node) (h : n.wf) (he : n.abs = []) : n = Node.empty := by
  exact Node.eq_empty_of_abs_nil n h.2.1 he

/-! ### histories -/

inductive Op where
  | sub (p : Path) (s : Sub)
  | unsub (p : Path) (s : Sub)
deriving Repr

def T.step (t : T) : Op → T
  | .sub p s => t.subscribe p s
  | .unsub p s => t.unsubscribe p s

/-- the specification state: the set of acknowledged (filter, subscriber) pairs -/
def specStep (S : List (Path × Sub)) : Op → List (Path × Sub)
  | .sub p s => if (p, s) ∈ S then S else (p, s) :: S
  | .unsub p s => S.filter (fun e => e != (p, s))

def run (ops : List Op) : T := ops.foldl T.step {}
def specRun (ops : List Op) : List (Path × Sub) := ops.foldl specStep []

theorem filter_ne_eq_self {α} [BEq α] [LawfulBEq α] (a : α) (l : List α) (h : a ∉ l) :
    l.filter (fun e => e != a) = l := by
  apply List.filter_eq_self.mpr
  intro b hb
  simp only [bne_iff_ne, ne_eq]
  intro hba; subst hba; exact h hb

theorem filter_ne_length {α} [BEq α] [LawfulBEq α] (a : α) : ∀ (l : List α), l.Nodup → a ∈ l →
    (l.filter (fun e => e != a)).length + 1 = l.length
  | [], _, h => by simp at h
  | b :: t, hn, h => by
      rw [List.nodup_cons] at hn
      by_cases hba : b = a
      · subst hba
        simp [filter_ne_eq_self b t hn.1]
      · have hat : a ∈ t := by
          rcases List.mem_cons.mp h with h | h
          · exact absurd h.symm hba
          · exact h
        have hb : (b != a) = true := by simpa using hba
        simp only [List.filter_cons, hb, if_true, List.length_cons]
        rw [filter_ne_length a t hn.2 hat]

/-- the simulation invariant between the trie and the specification state -/
structure Inv (t : T) (S : List (Path × Sub)) : Prop where
  wf : t.root.wf
  mem : ∀ e, e ∈ t.root.abs ↔ e ∈ S
  count : t.count = t.root.abs.length
  len : S.length = t.root.abs.length
  nodup : S.Nodup

theorem Inv.init : Inv {} [] := by
  refine ⟨wf_empty, ?_, ?_, ?_, List.nodup_nil⟩
  · intro e; simp [Node.empty, Node.abs, Kids.abs]
  · simp [Node.empty, Node.abs, Kids.abs]
  · simp [Node.empty, Node.abs, Kids.abs]

theorem Inv.step {t : T} {S : List (Path × Sub)} (h : Inv t S) (op : Op) :
    Inv (t.step op) (specStep S op) := by
  obtain ⟨hwf, hmem, hcount, hlen, hnd⟩ := h
  cases op with
  | sub p s =>
      simp only [T.step, T.subscribe, specStep]
      have hnew := insert_new_iff t.root p s hwf
      have hl := abs_length_insert t.root p s hwf
      by_cases hin : (p, s) ∈ S
      · have hf : (t.root.insert p s).2 = false := by
          cases hb : (t.root.insert p s).2 with
          | false => rfl
          | true => exact absurd ((hmem _).mpr hin) (hnew.mp hb)
        rw [if_pos hin]
        simp only [hf, Bool.false_eq_true, if_false, Nat.add_zero] at hl ⊢
        refine ⟨wf_insert t.root p s hwf, ?_, by rw [hl]; exact hcount, by rw [hl]; exact hlen, hnd⟩
        intro e
        rw [abs_insert t.root p s hwf e, hmem e]
        constructor
        · rintro (rfl | h)
          · exact hin
          · exact h
        · exact Or.inr
      · have hf : (t.root.insert p s).2 = true := hnew.mpr (fun h => hin ((hmem _).mp h))
        rw [if_neg hin]
        simp only [hf, if_true] at hl ⊢
        refine ⟨wf_insert t.root p s hwf, ?_, by rw [hl, hcount], by rw [hl, List.length_cons, hlen],
          List.nodup_cons.mpr ⟨hin, hnd⟩⟩
        intro e
        rw [abs_insert t.root p s hwf e, hmem e, List.mem_cons]
  | unsub p s =>
      simp only [T.step, T.unsubscribe, specStep]
      have hhit := remove_hit_iff t.root p s hwf
      have hl := abs_length_remove t.root p s hwf
      have hmem' : ∀ e, e ∈ (t.root.remove p s).1.abs ↔ e ∈ S.filter (fun e => e != (p, s)) := by
        intro e
        rw [abs_remove t.root p s hwf e, hmem e, List.mem_filter]
        simp
      have hnd' : (S.filter (fun e => e != (p, s))).Nodup := hnd.sublist List.filter_sublist
      by_cases hin : (p, s) ∈ S
      · have hf : (t.root.remove p s).2 = true := hhit.mpr ((hmem _).mpr hin)
        have hfl := filter_ne_length (p, s) S hnd hin
        simp only [hf, if_true] at hl ⊢
        refine ⟨wf_remove t.root p s hwf, hmem', ?_, ?_, hnd'⟩
        · dsimp only; omega
        · dsimp only; omega
      · have hf : (t.root.remove p s).2 = false := by
          cases hb : (t.root.remove p s).2 with
          | false => rfl
          | true => exact absurd ((hmem _).mp (hhit.mp hb)) hin
        simp only [hf, Bool.false_eq_true, if_false, Nat.add_zero] at hl ⊢
        refine ⟨wf_remove t.root p s hwf, hmem', by rw [hl]; exact hcount, ?_, hnd'⟩
        rw [filter_ne_eq_self (p, s) S hin, hl]; exact hlen

theorem Inv.fold : ∀ (ops : List Op) (t : T) (S : List (Path × Sub)), Inv t S →
    Inv (ops.foldl T.step t) (ops.foldl specStep S)
  | [], _, _, h => h
  | op :: ops, t, S, h => by
      simp only [List.foldl_cons]
      exact Inv.fold ops _ _ (h.step op)

theorem Inv.run (ops : List Op) : Inv (run ops) (specRun ops) :=
  Inv.fold ops _ _ Inv.init

/-- for every finite history from the empty trie: the trie is well-formed, holds exactly the
specification's pairs, and its counter is their number -/
theorem history_refines (ops : List Op) :
    (run ops).root.wf ∧ (∀ e, e ∈ (run ops).root.abs ↔ e ∈ specRun ops) ∧
    (run ops).count = (specRun ops).length ∧ (specRun ops).Nodup := by
  have h := Inv.run ops
  exact ⟨h.wf, h.mem, by rw [h.count, h.len], h.nodup⟩

/-- a lookup after any history returns exactly the subscribers that hold a matching filter -/
theorem history_lookup (ops : List Op) (m : Mode) (q : Path) (s : Sub) :
    s ∈ (run ops).root.lookup m q ↔ ∃ f, (f, s) ∈ specRun ops ∧ matchesMode m f q = true := by
  have h := Inv.run ops
  rw [lookup_spec]
  constructor
  · rintro ⟨f, hf, hm⟩; exact ⟨f, (h.mem _).mp hf, hm⟩
  · rintro ⟨f, hf, hm⟩; exact ⟨f, (h.mem _).mpr hf, hm⟩

/-- when every subscription has been removed the index is empty again (one node, count 0) -/
theorem history_empty (ops : List Op) (h : specRun ops = []) :
    (run ops).root = Node.empty ∧ (run ops).count = 0 ∧ (run ops).root.size = 1 := by
  have hi := Inv.run ops
  have habs : (run ops).root.abs = [] := by
    apply List.eq_nil_iff_forall_not_mem.mpr
    intro e he
    have := (hi.mem e).mp he
    rw [h] at this
    simp at this
  have hroot := empty_of_abs_nil _ hi.wf habs
  refine ⟨hroot, by rw [hi.count, habs]; rfl, ?_⟩
  rw [hroot]
  decide

end Emitter.Trie
