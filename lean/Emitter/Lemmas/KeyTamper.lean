import Emitter.Lemmas.Cipher
import Emitter.Model.KeyTamper
namespace Emitter.KeyTamper
open Emitter Emitter.Cipher

/-! ### bytes and bits -/

theorem xorBytes_nil_right (a : Bytes) : xorBytes a [] = a := by cases a <;> rfl

theorem xor3 (a k c : UInt8) : ((a ^^^ k) ^^^ c) ^^^ k = a ^^^ c := by
  rw [UInt8.xor_assoc a k c, UInt8.xor_comm k c, ← UInt8.xor_assoc, UInt8.xor_assoc (a ^^^ c) k k,
    UInt8.xor_self, UInt8.xor_zero]

/-- XOR stream: a mask applied to the ciphertext comes out applied to the plaintext, for every
keystream and all lengths -/
theorem xorBytes_mask (p ks m : Bytes) : xorBytes (xorBytes (xorBytes p ks) m) ks = xorBytes p m := by
  induction p generalizing ks m with
  | nil => cases ks <;> cases m <;> rfl
  | cons a as ih =>
      cases ks with
      | nil => simp [xorBytes_nil_right]
      | cons k ks =>
          cases m with
          | nil => simp [xorBytes, xorBytes_nil_right, xorBytes_invol, UInt8.xor_assoc]
          | cons c m => simp [xorBytes, ih, xor3]

/-- setting bits that are clear: everything that was granted stays granted, the new bits are granted -/
theorem perm_or (p g w : UInt8) (hw : p &&& w = 0) (hg : p &&& g = g) :
    (p ^^^ w) &&& g = g ∧ (p ^^^ w) &&& w = w := by
  have hw' := congrArg UInt8.toBitVec hw
  have hg' := congrArg UInt8.toBitVec hg
  simp at hw' hg'
  constructor
  · apply UInt8.eq_of_toBitVec_eq
    simp
    ext i hi
    have h1 := congrArg (fun b => b.getLsbD i) hw'
    have h2 := congrArg (fun b => b.getLsbD i) hg'
    simp at h1 h2 ⊢
    cases h : g.toBitVec.getLsbD i <;> cases h' : w.toBitVec.getLsbD i <;> simp_all
  · apply UInt8.eq_of_toBitVec_eq
    simp
    ext i hi
    have h1 := congrArg (fun b => b.getLsbD i) hw'
    simp at h1 ⊢
    cases h' : w.toBitVec.getLsbD i <;> simp_all

/-! ### key strings -/

theorem encryptRaw_length (c : CipherSpec) (k : Bytes) : (encryptRaw c k).length = k.length := by
  cases c with
  | xtea key => simp [encryptRaw, mapBlocks_length, whiten_length]
  | salsa key nonce => simp [encryptRaw, xorBytes_length]
  | shuffle key nonce => simp [encryptRaw, shuffleCrypt_length]

theorem decryptRaw_length (c : CipherSpec) (k : Bytes) : (decryptRaw c k).length = k.length := by
  cases c with
  | xtea key => simp [decryptRaw, mapBlocks_length, whiten_length]
  | salsa key nonce => simp [decryptRaw, xorBytes_length]
  | shuffle key nonce => simp [decryptRaw, shuffleCrypt_length]

theorem decryptRaw_encryptRaw (c : CipherSpec) (k : Bytes) : decryptRaw c (encryptRaw c k) = k := by
  cases c with
  | xtea key =>
      simp only [encryptRaw, decryptRaw]
      rw [mapBlocks_inv (encBlock key) (decBlock key) (decBlock_encBlock key), whiten_invol]
  | salsa key nonce => simp [encryptRaw, decryptRaw, xorBytes_invol]
  | shuffle key nonce => simp [encryptRaw, decryptRaw, shuffleCrypt_invol]

theorem encryptKey_eq (c : CipherSpec) (k : Bytes) (hk : k.length = 24) :
    encryptKey c k = .ok (b64Encode (encryptRaw c k)) := by
  cases c with
  | xtea key =>
      have : ¬ k.length < 24 := by omega
      simp [encryptKey, this, List.take_of_length_le (Nat.le_of_eq hk)]
  | salsa key nonce =>
      have : (k ++ List.replicate 24 0).take 24 = k := by rw [← hk, List.take_left]
      simp only [encryptKey, this]
  | shuffle key nonce =>
      have : (k ++ List.replicate 24 0).take 24 = k := by rw [← hk, List.take_left]
      simp only [encryptKey, this]

theorem decodeKey_b64 (raw : Bytes) : decodeKey (b64Encode raw) = .ok raw := decodeKeyAux_encode raw 0

theorem b64_length24 (raw : Bytes) (h : raw.length = 24) : (b64Encode raw).length = 32 := by
  rw [b64Encode_length _ (by omega), h]

theorem decryptKey_b64 (c : CipherSpec) (raw : Bytes) (h : raw.length = 24) :
    decryptKey c (b64Encode raw) = .ok (decryptRaw c raw) := by
  simp [decryptKey, b64_length24 raw h, decodeKey_b64]

theorem xorString_b64 (raw m : Bytes) : xorString (b64Encode raw) m = b64Encode (xorBytes raw m) := by
  simp [xorString, decodeKey_b64]

/-- the issued string decrypts to the key -/
theorem decryptKey_issued (c : CipherSpec) (k : Bytes) (hk : k.length = 24) :
    decryptKey c (b64Encode (encryptRaw c k)) = .ok k := by
  rw [decryptKey_b64 c _ (by rw [encryptRaw_length, hk]), decryptRaw_encryptRaw]

/-- `authorize` on a string whose decryption is known -/
theorem authorize_of_decrypt (cs : CipherSpec) (ct : Contract) (now : Int) (s k : Bytes) (ch : Chan) (g : UInt8)
    (hd : decryptKey cs s = .ok k) (hk : k.length = 24) : authorize cs ct now s ch g = .ok (grants ct now k ch g) := by
  have : ¬ k.length < 24 := by omega
  simp [authorize, hd, this]

/-! ### v2 / v3: malleability -/

/-- v3: the salt bytes select the keystream; a mask that leaves them alone passes through, for
every salt-indexed family of keystreams -/
theorem shuffleCrypt_mask (ks : UInt8 → UInt8 → Bytes) (p m : Bytes) :
    shuffleCrypt ks (xorBytes (shuffleCrypt ks p) (0 :: 0 :: m)) = xorBytes p (0 :: 0 :: m) := by
  match p with
  | [] => rfl
  | [a] => simp [shuffleCrypt, xorBytes]
  | a :: b :: r => simp [shuffleCrypt, xorBytes, xorBytes_mask]

theorem decryptRaw_mask (cs : CipherSpec) (hs : isStream cs = true) (p m : Bytes) :
    decryptRaw cs (xorBytes (encryptRaw cs p) (0 :: 0 :: m)) = xorBytes p (0 :: 0 :: m) := by
  cases cs with
  | xtea key => simp [isStream] at hs
  | salsa key nonce => simp [encryptRaw, decryptRaw, xorBytes_mask]
  | shuffle key nonce => simp only [encryptRaw, decryptRaw, shuffleCrypt_mask]

theorem stream_malleable_key (cs : CipherSpec) (hs : isStream cs = true) (p m : Bytes) (hp : p.length = 24) :
    decryptKey cs (xorString (b64Encode (encryptRaw cs p)) (0 :: 0 :: m)) = .ok (xorBytes p (0 :: 0 :: m)) := by
  rw [xorString_b64, decryptKey_b64 cs _ (by rw [xorBytes_length, encryptRaw_length, hp]), decryptRaw_mask cs hs]

/-! ### fields under masks -/

/-- everything `grants` checks except the permission bit -/
def grantsBase (c : Contract) (now : Int) (k : Bytes) (ch : Chan) : Bool :=
  !expired now k && keyContract k == c.id && validate c k && validateChannel k ch

theorem grants_split (c : Contract) (now : Int) (k : Bytes) (ch : Chan) (g : UInt8) :
    grants c now k ch g = (grantsBase c now k ch && hasPermission k g) := by
  simp only [grants, grantsBase, Bool.and_assoc]
  rw [Bool.and_comm (hasPermission k g)]

theorem xor_cancel_left (a b : UInt8) : a ^^^ (a ^^^ b) = b := by
  rw [← UInt8.xor_assoc, UInt8.xor_self, UInt8.zero_xor]

theorem permMask_eq (w : UInt8) : permMask w = 0 :: 0 :: (List.replicate 13 0 ++ [w]) := by
  simp [permMask, List.replicate]

theorem tailMask_eq (old new : Bytes) : tailMask old new = 0 :: 0 :: (List.replicate 10 0 ++ xorBytes old new) := by
  simp [tailMask, List.replicate]

/-- the mask `tailMask (k.drop 12) new` replaces bytes 12..23 by `new` -/
theorem xor_tailMask (k new : Bytes) (hk : k.length = 24) (hn : new.length = 12) :
    xorBytes k (tailMask (k.drop 12) new) = k.take 12 ++ new := by
  match k, hk, new, hn with
  | [k0, k1, k2, k3, k4, k5, k6, k7, k8, k9, k10, k11, k12, k13, k14, k15, k16, k17, k18, k19, k20, k21, k22, k23], _,
    [n0, n1, n2, n3, n4, n5, n6, n7, n8, n9, n10, n11], _ =>
    simp [tailMask, xorBytes, List.replicate, xor_cancel_left]

/-- the mask `permMask w` XORs `w` into byte 15 and nothing else -/
theorem grants_permMask (c : Contract) (now : Int) (k : Bytes) (hk : k.length = 24) (ch : Chan) (w g : UInt8) :
    grants c now (xorBytes k (permMask w)) ch g = (grantsBase c now k ch && ((keyPerms k ^^^ w) &&& g == g)) := by
  match k, hk with
  | [k0, k1, k2, k3, k4, k5, k6, k7, k8, k9, k10, k11, k12, k13, k14, k15, k16, k17, k18, k19, k20, k21, k22, k23], _ =>
    have : xorBytes [k0, k1, k2, k3, k4, k5, k6, k7, k8, k9, k10, k11, k12, k13, k14, k15, k16, k17, k18, k19, k20, k21, k22, k23] (permMask w)
        = [k0, k1, k2, k3, k4, k5, k6, k7, k8, k9, k10, k11, k12, k13, k14, k15 ^^^ w, k16, k17, k18, k19, k20, k21, k22, k23] := by
      simp [permMask, xorBytes, List.replicate]
    rw [this, grants_split]
    rfl

/-! ### v2 / v3: escalation -/

theorem encryptKey_issued (cs : CipherSpec) (k : Bytes) (hk : k.length = 24) : encryptKey cs k = .ok (issued cs k) :=
  encryptKey_eq cs k hk

theorem authorize_issued (cs : CipherSpec) (ct : Contract) (now : Int) (k : Bytes) (hk : k.length = 24) (ch : Chan) (g : UInt8) :
    authorize cs ct now (issued cs k) ch g = .ok (grants ct now k ch g) :=
  authorize_of_decrypt cs ct now _ k ch g (decryptKey_issued cs k hk) hk

theorem authorize_permMask (cs : CipherSpec) (hs : isStream cs = true) (ct : Contract) (now : Int) (k : Bytes)
    (hk : k.length = 24) (ch : Chan) (w g : UInt8) :
    authorize cs ct now (xorString (issued cs k) (permMask w)) ch g
      = .ok (grantsBase ct now k ch && ((keyPerms k ^^^ w) &&& g == g)) := by
  have hd : decryptKey cs (xorString (issued cs k) (permMask w)) = .ok (xorBytes k (permMask w)) := by
    rw [permMask_eq]; exact stream_malleable_key cs hs k _ hk
  rw [authorize_of_decrypt cs ct now _ _ ch g hd (by rw [xorBytes_length, hk]), grants_permMask ct now k hk]

/-- the recorded finding, for every secret: XOR 0x04 into cipher byte 15 -/
theorem escalation_write (cs : CipherSpec) (hs : isStream cs = true) (ct : Contract) (now : Int) (k : Bytes)
    (hk : k.length = 24) (ch : Chan) (f : UInt8) (hf : grants ct now k ch f = true)
    (hw : keyPerms k &&& allowWrite = 0) :
    authorize cs ct now (issued cs k) ch allowWrite = .ok false ∧
    authorize cs ct now (xorString (issued cs k) (permMask allowWrite)) ch allowWrite = .ok true ∧
    ∀ g, authorize cs ct now (issued cs k) ch g = .ok true →
      authorize cs ct now (xorString (issued cs k) (permMask allowWrite)) ch g = .ok true := by
  rw [grants_split] at hf
  have hb : grantsBase ct now k ch = true := by
    cases h : grantsBase ct now k ch <;> simp_all
  refine ⟨?_, ?_, ?_⟩
  · rw [authorize_issued cs ct now k hk, grants_split]
    have : hasPermission k allowWrite = false := by
      simp only [hasPermission, hw]; decide
    simp [this]
  · rw [authorize_permMask cs hs ct now k hk, hb]
    have := (perm_or (keyPerms k) 0 allowWrite hw (by simp)).2
    simp [this]
  · intro g hg
    rw [authorize_issued cs ct now k hk, grants_split, hb] at hg
    rw [authorize_permMask cs hs ct now k hk, hb]
    have hg' : keyPerms k &&& g = g := by simpa [hasPermission] using hg
    have := (perm_or (keyPerms k) g allowWrite hw hg').1
    simp [this]

theorem ff_and (g : UInt8) : (0xFF : UInt8) &&& g = g := by
  have h : ∀ x : Fin 256, (0xFF : UInt8) &&& UInt8.ofNat x.val = UInt8.ofNat x.val := by decide +kernel
  have := h ⟨g.toNat, g.toNat_lt⟩
  simpa using this

theorem grants_universal (ct : Contract) (now : Int) (k : Bytes) (hk : k.length = 24) (ch : Chan) (g : UInt8)
    (hv : validate ct k = true) (hc : keyContract k = ct.id) (hn : ch.name ≠ []) :
    grants ct now (k.take 12 ++ universalTail) ch g = true := by
  revert hv hc
  match k, hk with
  | [k0, k1, k2, k3, k4, k5, k6, k7, k8, k9, k10, k11, k12, k13, k14, k15, k16, k17, k18, k19, k20, k21, k22, k23], _ =>
    intro hv hc
    have hl : [k0, k1, k2, k3, k4, k5, k6, k7, k8, k9, k10, k11, k12, k13, k14, k15, k16, k17, k18, k19, k20, k21, k22, k23].take 12 ++ universalTail
       = [k0, k1, k2, k3, k4, k5, k6, k7, k8, k9, k10, k11, 0, 0, 0, 0xFF, 0x4F, 0x07, 0x56, 0x98, 0, 0, 0, 0] := by
      simp [universalTail]
    rw [hl]
    generalize hK : [k0, k1, k2, k3, k4, k5, k6, k7, k8, k9, k10, k11, 0, 0, 0, 0xFF, 0x4F, 0x07, 0x56, 0x98, 0, 0, 0, 0] = K
    have e1 : expired now K = false := by
      have hz : (be32 0 0 0 0).toNat = 0 := by decide
      subst hK; simp [expired, keyExpire, kb, hz]
    have e2 : keyContract K = ct.id := by subst hK; exact hc
    have e3 : validate ct K = true := by subst hK; exact hv
    have e4 : hasPermission K g = true := by
      subst hK; simp [hasPermission, keyPerms, kb, ff_and]
    have hp : keyPath K = 0 := by subst hK; simp [keyPath, kb]
    have ht : keyTarget K = hashEmpty := by subst hK; simp [keyTarget, kb]; decide
    have hne : ch.name.isEmpty = false := by
      cases h : ch.name with
      | nil => exact absurd h hn
      | cons a b => rfl
    have e5 : validateChannel K ch = true := by simp [validateChannel, hne, hp, ht]
    simp [grants, e1, e2, e3, e4, e5]

theorem stream_rewrite_tail (cs : CipherSpec) (hs : isStream cs = true) (k new : Bytes) (hk : k.length = 24)
    (hn : new.length = 12) :
    decryptKey cs (xorString (issued cs k) (tailMask (k.drop 12) new)) = .ok (k.take 12 ++ new) := by
  rw [tailMask_eq]
  have := stream_malleable_key cs hs k (List.replicate 10 0 ++ xorBytes (k.drop 12) new) hk
  rw [← tailMask_eq, xor_tailMask k new hk hn] at this
  rw [← tailMask_eq]
  exact this

theorem stream_universal_key (cs : CipherSpec) (hs : isStream cs = true) (ct : Contract) (k : Bytes) (hk : k.length = 24)
    (hv : validate ct k = true) (hc : keyContract k = ct.id) (now : Int) (ch : Chan) (g : UInt8) (hn : ch.name ≠ []) :
    authorize cs ct now (xorString (issued cs k) (tailMask (k.drop 12) universalTail)) ch g = .ok true := by
  have hd := stream_rewrite_tail cs hs k universalTail hk rfl
  rw [authorize_of_decrypt cs ct now _ _ ch g hd (by simp [hk, universalTail]),
    grants_universal ct now k hk ch g hv hc hn]

/-! ### the property as a statement about attacks -/

theorem witness_weak_read : grants witnessContract 0 witnessWeak witnessChan allowRead = true := by decide
theorem witness_weak_write : grants witnessContract 0 witnessWeak witnessChan allowWrite = false := by decide
theorem witness_strong_write : grants witnessContract 0 witnessStrong witnessChan allowWrite = true := by decide
theorem witness_weak_perms : keyPerms witnessWeak &&& allowWrite = 0 := by decide

/-- v2 / v3: ONE modification (flip the Write bit of cipher byte 15) escalates under EVERY secret -/
theorem stream_not_resistant :
    ∃ attack : Bytes → Bytes, ∀ cs, isStream cs = true → ¬ NoEscalationBy cs attack := by
  refine ⟨fun e => xorString e (permMask allowWrite), ?_⟩
  intro cs hs hno
  have h := escalation_write cs hs witnessContract 0 witnessWeak rfl witnessChan allowRead witness_weak_read witness_weak_perms
  have := hno witnessContract 0 witnessWeak rfl witnessChan allowWrite h.2.1
  rw [h.1] at this
  cases this

/-- quantifying over ALL functions of the key string is hopeless for every cipher (the function
may have the secret built in): resistance can only be a computational / probabilistic statement -/
theorem unconditional_resistance_impossible (cs : CipherSpec) : ∃ attack : Bytes → Bytes, ¬ NoEscalationBy cs attack := by
  refine ⟨fun _ => issued cs witnessStrong, ?_⟩
  intro hno
  have := hno witnessContract 0 witnessWeak rfl witnessChan allowWrite
    (by rw [authorize_issued cs _ _ _ rfl, witness_strong_write])
  rw [authorize_issued cs _ _ _ rfl, witness_weak_write] at this
  cases this

/-! ### v1: XTEA blocks -/

theorem encRound_decRound (k : XteaKey) (st : UInt32 × UInt32 × UInt32) : encRound k (decRound k st) = st := by
  obtain ⟨y, z, s⟩ := st
  simp [decRound, encRound, UInt32.sub_add_cancel]

theorem iter_enc_dec (k : XteaKey) (n : Nat) (st : UInt32 × UInt32 × UInt32) :
    iter (encRound k) n (iter (decRound k) n st) = st := by
  induction n generalizing st with
  | zero => rfl
  | succ n ih =>
      rw [iter_succ' (decRound k)]
      simp only [iter]
      rw [encRound_decRound, ih]

theorem decRound_sum (k : XteaKey) (n : Nat) (st : UInt32 × UInt32 × UInt32) :
    (iter (decRound k) n st).2.2 + UInt32.ofNat n * xteaDelta = st.2.2 := by
  induction n generalizing st with
  | zero => simp [iter]
  | succ n ih =>
      simp only [iter]
      have h := ih (decRound k st)
      obtain ⟨y, z, s⟩ := st
      simp only [decRound] at h ⊢
      have e : UInt32.ofNat (n + 1) = UInt32.ofNat n + 1 := by
        apply UInt32.toNat.inj; simp [UInt32.toNat_ofNat', UInt32.toNat_add]
      rw [e, UInt32.add_mul, UInt32.one_mul, ← UInt32.add_assoc, h, UInt32.sub_add_cancel]

theorem encBlock_decBlock (k : XteaKey) (y z : UInt32) :
    encBlock k (decBlock k y z).1 (decBlock k y z).2 = (y, z) := by
  unfold decBlock encBlock
  have hs := decRound_sum k xteaRounds (y, z, xteaSum)
  have hi := iter_enc_dec k xteaRounds (y, z, xteaSum)
  generalize iter (decRound k) xteaRounds (y, z, xteaSum) = r at hs hi
  obtain ⟨y', z', s'⟩ := r
  simp only at hs
  have h0 : s' = 0 := by
    have : s' = s' + UInt32.ofNat xteaRounds * xteaDelta - UInt32.ofNat xteaRounds * xteaDelta := by
      rw [UInt32.add_sub_cancel]
    rw [this, hs, xteaSum_eq, UInt32.sub_self]
  subst h0
  simp only
  rw [hi]

/-- the block functions are injective (both directions of the round trip) -/
theorem decBlock_injective (k : XteaKey) (y z y' z' : UInt32) (h : decBlock k y z = decBlock k y' z') : (y, z) = (y', z') := by
  rw [← encBlock_decBlock k y z, ← encBlock_decBlock k y' z', h]

theorem encBlock_injective (k : XteaKey) (y z y' z' : UInt32) (h : encBlock k y z = encBlock k y' z') : (y, z) = (y', z') := by
  rw [← decBlock_encBlock k y z, ← decBlock_encBlock k y' z', h]

theorem mapBlocks_nil (f : UInt32 → UInt32 → UInt32 × UInt32) : mapBlocks f [] = [] := by
  rw [mapBlocks.eq_def]

theorem mapBlocks_append8 (f : UInt32 → UInt32 → UInt32 × UInt32) (B rest : Bytes) (h : B.length = 8) :
    mapBlocks f (B ++ rest) = mapBlocks f B ++ mapBlocks f rest := by
  match B, h with
  | [a, b, c, d, e, f', g, h'], _ => simp [mapBlocks]

theorem whitenTail_append (s0 s1 : UInt8) (a b : Bytes) (h : a.length % 2 = 0) :
    whitenTail s0 s1 (a ++ b) = whitenTail s0 s1 a ++ whitenTail s0 s1 b := by
  fun_induction whitenTail s0 s1 a with
  | case1 x y rest ih =>
      have : rest.length % 2 = 0 := by simp at h; omega
      simp [whitenTail, ih this]
  | case2 t hne =>
      match t, hne, h with
      | [], _, _ => simp
      | [x], _, h => simp at h
      | x :: y :: r, hne, _ => exact absurd rfl (hne x y r)

theorem whiten_append (P Q : Bytes) (h2 : 2 ≤ P.length) (he : P.length % 2 = 0) :
    whiten (P ++ Q) = whiten P ++ whitenTail (P.getD 0 0) (P.getD 1 0) Q := by
  match P, h2 with
  | s0 :: s1 :: P', _ =>
      have : P'.length % 2 = 0 := by simp at he; omega
      simp [whiten, whitenTail_append s0 s1 P' Q this]

/-- v1 decryption, block by block: the three blocks are deciphered independently, then bytes
2.. are XORed with the two salt bytes, which come out of block 0 -/
theorem xtea_decrypt_blocks (key : XteaKey) (B0 B1 B2 : Bytes) (h0 : B0.length = 8) (h1 : B1.length = 8) :
    decryptRaw (.xtea key) (B0 ++ B1 ++ B2)
      = whiten (mapBlocks (decBlock key) B0) ++
        whitenTail ((mapBlocks (decBlock key) B0).getD 0 0) ((mapBlocks (decBlock key) B0).getD 1 0)
          (mapBlocks (decBlock key) B1 ++ mapBlocks (decBlock key) B2) := by
  simp only [decryptRaw]
  rw [List.append_assoc, mapBlocks_append8 _ B0 _ h0, mapBlocks_append8 _ B1 _ h1]
  rw [whiten_append _ _ (by rw [mapBlocks_length, h0]; omega) (by rw [mapBlocks_length, h0])]

theorem xtea_encrypt_blocks (key : XteaKey) (A M C : Bytes) (hA : A.length = 8) (hM : M.length = 8) :
    encryptRaw (.xtea key) (A ++ M ++ C)
      = mapBlocks (encBlock key) (whiten A) ++ mapBlocks (encBlock key) (whitenTail (A.getD 0 0) (A.getD 1 0) M) ++
        mapBlocks (encBlock key) (whitenTail (A.getD 0 0) (A.getD 1 0) C) := by
  simp only [encryptRaw]
  rw [List.append_assoc, whiten_append _ _ (by omega) (by rw [hA]), whitenTail_append _ _ M C (by rw [hM])]
  rw [mapBlocks_append8 _ _ _ (by rw [whiten_length, hA]), mapBlocks_append8 _ _ _ (by rw [whitenTail_length, hM])]
  rw [List.append_assoc]

theorem block_0 (X Y : Bytes) (hX : X.length = 8) : block (X ++ Y) 0 = X := by
  simp [block, ← hX]

theorem block_1 (X Y Z : Bytes) (hX : X.length = 8) (hY : Y.length = 8) : block (X ++ Y ++ Z) 1 = Y := by
  have : (X ++ Y ++ Z).drop (8 * 1) = Y ++ Z := by
    rw [List.append_assoc, Nat.mul_one, ← hX, List.drop_left]
  rw [block, this, ← hY, List.take_left]

theorem block_2 (X Y Z : Bytes) (hX : X.length = 8) (hY : Y.length = 8) (hZ : Z.length = 8) : block (X ++ Y ++ Z) 2 = Z := by
  have : (X ++ Y ++ Z).drop (8 * 2) = Z := by
    have : (X ++ Y).length = 8 * 2 := by simp [hX, hY]
    rw [← this, List.drop_left]
  rw [block, this, ← hZ, List.take_length]

/-- cut-and-paste: with equal first 8 key bytes (salt, master id, contract id), block 1 of one
issued key between blocks 0 and 2 of another IS the string the broker would issue for the key
with the middle 8 bytes (signature, bit-path, permissions) of the one and the rest of the other -/
theorem xtea_splice_raw (key : XteaKey) (A M1 C1 M2 C2 : Bytes) (hA : A.length = 8) (hM1 : M1.length = 8)
    (hC1 : C1.length = 8) (hM2 : M2.length = 8) :
    block (encryptRaw (.xtea key) (A ++ M1 ++ C1)) 0 ++ block (encryptRaw (.xtea key) (A ++ M2 ++ C2)) 1 ++
      block (encryptRaw (.xtea key) (A ++ M1 ++ C1)) 2 = encryptRaw (.xtea key) (A ++ M2 ++ C1) := by
  rw [xtea_encrypt_blocks key A M1 C1 hA hM1, xtea_encrypt_blocks key A M2 C2 hA hM2, xtea_encrypt_blocks key A M2 C1 hA hM2]
  have l0 : (mapBlocks (encBlock key) (whiten A)).length = 8 := by rw [mapBlocks_length, whiten_length, hA]
  have lw (s0 s1 : UInt8) (X : Bytes) (h : X.length = 8) : (mapBlocks (encBlock key) (whitenTail s0 s1 X)).length = 8 := by
    rw [mapBlocks_length, whitenTail_length, h]
  rw [List.append_assoc (mapBlocks (encBlock key) (whiten A)), block_0 _ _ l0, ← List.append_assoc,
    block_1 _ _ _ l0 (lw _ _ M2 hM2), block_2 _ _ _ l0 (lw _ _ M1 hM1) (lw _ _ C1 hC1)]

theorem encryptRaw_decryptRaw_xtea (key : XteaKey) (r : Bytes) : encryptRaw (.xtea key) (decryptRaw (.xtea key) r) = r := by
  simp only [encryptRaw, decryptRaw]
  rw [whiten_invol, mapBlocks_inv (decBlock key) (encBlock key) (encBlock_decBlock key)]

/-- v1: decryption of the 24 cipher bytes is injective: a changed ciphertext is a changed key -/
theorem xtea_decrypt_injective (key : XteaKey) (r r' : Bytes) (h : decryptRaw (.xtea key) r = decryptRaw (.xtea key) r') : r = r' := by
  rw [← encryptRaw_decryptRaw_xtea key r, ← encryptRaw_decryptRaw_xtea key r', h]

/-- three-piece form of `xtea_decrypt_blocks` -/
theorem xtea_decrypt_blocks3 (key : XteaKey) (B0 B1 B2 : Bytes) (h0 : B0.length = 8) (h1 : B1.length = 8) :
    decryptRaw (.xtea key) (B0 ++ B1 ++ B2)
      = whiten (mapBlocks (decBlock key) B0) ++
        whitenTail ((mapBlocks (decBlock key) B0).getD 0 0) ((mapBlocks (decBlock key) B0).getD 1 0) (mapBlocks (decBlock key) B1) ++
        whitenTail ((mapBlocks (decBlock key) B0).getD 0 0) ((mapBlocks (decBlock key) B0).getD 1 0) (mapBlocks (decBlock key) B2) := by
  rw [xtea_decrypt_blocks key B0 B1 B2 h0 h1, whitenTail_append _ _ _ _ (by rw [mapBlocks_length, h1]), List.append_assoc]

/-- block locality (1): with blocks 0 and 1 untouched, whatever replaces block 2 leaves the first
16 key bytes (salt, master, contract, signature, bit-path, permissions) as they were -/
theorem xtea_block2_local (key : XteaKey) (B0 B1 B2 B2' : Bytes) (h0 : B0.length = 8) (h1 : B1.length = 8) :
    (decryptRaw (.xtea key) (B0 ++ B1 ++ B2')).take 16 = (decryptRaw (.xtea key) (B0 ++ B1 ++ B2)).take 16 := by
  rw [xtea_decrypt_blocks3 key B0 B1 B2' h0 h1, xtea_decrypt_blocks3 key B0 B1 B2 h0 h1]
  have hl : (whiten (mapBlocks (decBlock key) B0) ++
        whitenTail ((mapBlocks (decBlock key) B0).getD 0 0) ((mapBlocks (decBlock key) B0).getD 1 0) (mapBlocks (decBlock key) B1)).length = 16 := by
    simp [whiten_length, whitenTail_length, mapBlocks_length, h0, h1]
  rw [← hl, List.take_left, List.take_left]

/-- block locality (2): with blocks 0 and 2 untouched, whatever replaces block 1 leaves key bytes
0..7 (salt, master, contract) and 16..23 (target hash, expiry) as they were -/
theorem xtea_block1_local (key : XteaKey) (B0 B1 B1' B2 : Bytes) (h0 : B0.length = 8) (h1 : B1.length = 8) (h1' : B1'.length = 8) :
    (decryptRaw (.xtea key) (B0 ++ B1' ++ B2)).take 8 = (decryptRaw (.xtea key) (B0 ++ B1 ++ B2)).take 8 ∧
    (decryptRaw (.xtea key) (B0 ++ B1' ++ B2)).drop 16 = (decryptRaw (.xtea key) (B0 ++ B1 ++ B2)).drop 16 := by
  rw [xtea_decrypt_blocks3 key B0 B1' B2 h0 h1', xtea_decrypt_blocks3 key B0 B1 B2 h0 h1]
  have hl0 : (whiten (mapBlocks (decBlock key) B0)).length = 8 := by rw [whiten_length, mapBlocks_length, h0]
  have hl (B : Bytes) (h : B.length = 8) : (whiten (mapBlocks (decBlock key) B0) ++
        whitenTail ((mapBlocks (decBlock key) B0).getD 0 0) ((mapBlocks (decBlock key) B0).getD 1 0) (mapBlocks (decBlock key) B)).length = 16 := by
    simp [whiten_length, whitenTail_length, mapBlocks_length, h0, h]
  constructor
  · rw [List.append_assoc, List.append_assoc, ← hl0, List.take_left, List.take_left]
  · have a := hl B1 h1
    have b := hl B1' h1'
    rw [show (16 : Nat) = (whiten (mapBlocks (decBlock key) B0) ++
        whitenTail ((mapBlocks (decBlock key) B0).getD 0 0) ((mapBlocks (decBlock key) B0).getD 1 0) (mapBlocks (decBlock key) B1')).length from b.symm, List.drop_left, b, ← a, List.drop_left]

theorem kb_of_take (k k' : Bytes) (n : Nat) (h : k'.take n = k.take n) (i : Nat) (hi : i < n) : kb k' i = kb k i := by
  have e (l : Bytes) : kb l i = kb (l.take n) i := by
    simp [kb, List.getD_eq_getElem?_getD, hi]
  rw [e k', e k, h]

/-- the fields in key bytes 0..15 -/
theorem fields_of_take16 (k k' : Bytes) (h : k'.take 16 = k.take 16) :
    keySalt k' = keySalt k ∧ keyMaster k' = keyMaster k ∧ keyContract k' = keyContract k ∧
    keySignature k' = keySignature k ∧ keyPath k' = keyPath k ∧ keyPerms k' = keyPerms k := by
  have e (i : Nat) (hi : i < 16) := kb_of_take k k' 16 h i hi
  simp [keySalt, keyMaster, keyContract, keySignature, keyPath, keyPerms, e]

/-- v1: a modification confined to cipher block 2 (characters 22..31 and two bits of character
21 of the key string) yields a key whose first 16 bytes are those of the issued key -/
theorem xtea_block2_confined (key : XteaKey) (k : Bytes) (hk : k.length = 24) (B2' : Bytes) (h2 : B2'.length = 8) :
    ∃ k', decryptKey (.xtea key) (b64Encode ((encryptRaw (.xtea key) k).take 16 ++ B2')) = .ok k' ∧
      k'.length = 24 ∧ k'.take 16 = k.take 16 := by
  have hr : (encryptRaw (.xtea key) k).length = 24 := by rw [encryptRaw_length, hk]
  generalize hraw : encryptRaw (.xtea key) k = raw at hr
  have hsplit : raw = raw.take 8 ++ (raw.drop 8).take 8 ++ raw.drop 16 := by
    rw [← List.take_add, show (16 : Nat) = 8 + 8 from rfl, List.take_append_drop]
  have h16 : raw.take 16 = raw.take 8 ++ (raw.drop 8).take 8 := by
    rw [show (16 : Nat) = 8 + 8 from rfl, List.take_add]
  have l0 : (raw.take 8).length = 8 := by simp [hr]
  have l1 : ((raw.drop 8).take 8).length = 8 := by simp [hr]
  refine ⟨decryptRaw (.xtea key) (raw.take 16 ++ B2'), ?_, ?_, ?_⟩
  · exact decryptKey_b64 _ _ (by simp [hr, h2])
  · rw [decryptRaw_length]; simp [hr, h2]
  · rw [h16, xtea_block2_local key _ _ (raw.drop 16) B2' l0 l1, ← hsplit, ← hraw, decryptRaw_encryptRaw]

/-- … hence it grants no permission bit the issued key does not carry, and only under the
issued key's own contract fields and bit-path: all that can differ is target hash and expiry -/
theorem xtea_block2_grants (key : XteaKey) (ct : Contract) (now : Int) (k : Bytes) (hk : k.length = 24) (B2' : Bytes)
    (h2 : B2'.length = 8) (ch : Chan) (g : UInt8)
    (h : authorize (.xtea key) ct now (b64Encode ((encryptRaw (.xtea key) k).take 16 ++ B2')) ch g = .ok true) :
    hasPermission k g = true ∧ validate ct k = true ∧ keyContract k = ct.id := by
  obtain ⟨k', hd, hl, ht⟩ := xtea_block2_confined key k hk B2' h2
  rw [authorize_of_decrypt _ ct now _ k' ch g hd hl] at h
  obtain ⟨_, hm, hc, hs, _, hp⟩ := fields_of_take16 k k' ht
  simp only [Outcome.ok.injEq, grants, Bool.and_eq_true] at h
  obtain ⟨⟨⟨⟨_, h2⟩, h3⟩, h4⟩, _⟩ := h
  refine ⟨?_, ?_, ?_⟩
  · simpa [hasPermission, hp] using h4
  · simpa [validate, hm, hc, hs] using h3
  · simpa [hc] using h2

/-- every cipher: a string is accepted for anything only if it decrypts to a key carrying the
contract's master id, contract id and signature (10 check bytes) and the permission asked for -/
theorem accept_requires_check_bytes (cs : CipherSpec) (ct : Contract) (now : Int) (s : Bytes) (ch : Chan) (g : UInt8)
    (h : authorize cs ct now s ch g = .ok true) :
    ∃ k, decryptKey cs s = .ok k ∧ keyMaster k = ct.master ∧ keyContract k = ct.id ∧ keySignature k = ct.sign ∧
      hasPermission k g = true ∧ expired now k = false := by
  unfold authorize at h
  split at h
  · rename_i k hd
    split at h
    · cases h
    · simp only [Outcome.ok.injEq, grants, Bool.and_eq_true, validate] at h
      obtain ⟨⟨⟨⟨h1, h2⟩, ⟨⟨⟨hm, hs⟩, hc⟩, _⟩⟩, h4⟩, _⟩ := h
      refine ⟨k, hd, ?_, ?_, ?_, h4, ?_⟩
      · exact (by simpa using hm : ct.master = keyMaster k).symm
      · simpa using h2
      · exact (by simpa using hs : ct.sign = keySignature k).symm
      · simpa using h1
  · cases h
  · cases h

theorem decodeKeyAux_length (s : Bytes) (idx : Nat) (r : Bytes) (h : decodeKeyAux s idx = .ok r) (h4 : s.length % 4 = 0) :
    r.length * 4 = s.length * 3 := by
  fun_induction decodeKeyAux s idx generalizing r <;> simp_all
  all_goals first | (subst h; simp; omega) | omega

theorem decodeKeyAux_nopanic (s : Bytes) (idx : Nat) (w : String) : decodeKeyAux s idx ≠ .panic w := by
  fun_induction decodeKeyAux s idx <;> simp_all

theorem decryptKey_length (cs : CipherSpec) (s k : Bytes) (h : decryptKey cs s = .ok k) : k.length = 24 := by
  unfold decryptKey at h
  split at h
  · cases h
  · rename_i hl
    split at h
    · rename_i raw hd
      cases h
      have := decodeKeyAux_length s 0 raw hd (by simp at hl; omega)
      rw [decryptRaw_length]
      simp at hl; omega
    · cases h
    · cases h

/-- `Service.Authorize` never panics on a key string, whatever its bytes -/
theorem authorize_total (cs : CipherSpec) (ct : Contract) (now : Int) (s : Bytes) (ch : Chan) (g : UInt8) :
    (authorize cs ct now s ch g).isPanic = false := by
  unfold authorize
  split
  · rename_i k hd
    have := decryptKey_length cs s k hd
    have : ¬ k.length < 24 := by omega
    simp [this, Outcome.isPanic]
  · rfl
  · rename_i w hd
    exfalso
    unfold decryptKey at hd
    split at hd
    · cases hd
    · split at hd
      · cases hd
      · cases hd
      · rename_i w' hp
        exact decodeKeyAux_nopanic s 0 w' hp

/-- v1: two issued keys with equal salt / master id / contract id: the cut-and-paste of their
strings IS the string the broker would issue for the mixed key -/
theorem xtea_splice (key : XteaKey) (A M1 C1 M2 C2 : Bytes) (hA : A.length = 8) (hM1 : M1.length = 8)
    (hC1 : C1.length = 8) (hM2 : M2.length = 8) :
    spliceString (issued (.xtea key) (A ++ M1 ++ C1)) (issued (.xtea key) (A ++ M2 ++ C2)) = issued (.xtea key) (A ++ M2 ++ C1) := by
  simp only [spliceString, issued, decodeKey_b64]
  rw [xtea_splice_raw key A M1 C1 M2 C2 hA hM1 hC1 hM2]

/-- … and that is an escalation under EVERY XTEA key: publish on a channel neither key allows -/
theorem xtea_splice_escalates (key : XteaKey) :
    authorize (.xtea key) witnessContract 0
      (spliceString (issued (.xtea key) (spliceA ++ spliceM1 ++ spliceC1)) (issued (.xtea key) (spliceA ++ spliceM2 ++ spliceC2)))
      spliceChan allowWrite = .ok true ∧
    authorize (.xtea key) witnessContract 0 (issued (.xtea key) (spliceA ++ spliceM1 ++ spliceC1)) spliceChan allowWrite = .ok false ∧
    authorize (.xtea key) witnessContract 0 (issued (.xtea key) (spliceA ++ spliceM2 ++ spliceC2)) spliceChan allowWrite = .ok false := by
  rw [xtea_splice key spliceA spliceM1 spliceC1 spliceM2 spliceC2 rfl rfl rfl rfl]
  rw [authorize_issued _ _ _ _ rfl, authorize_issued _ _ _ _ rfl, authorize_issued _ _ _ _ rfl]
  decide


theorem valid_char_fin : ∀ c : Fin 256, (decodeMap (UInt8.ofNat c.val) == 0xFF) = false →
    (decodeMap (UInt8.ofNat c.val)).toNat < 64 ∧ encChar (decodeMap (UInt8.ofNat c.val)).toNat = UInt8.ofNat c.val := by
  decide +kernel

theorem valid_char (c : UInt8) (h : ¬ (decodeMap c == 0xFF) = true) :
    (decodeMap c).toNat < 64 ∧ encChar (decodeMap c).toNat = c := by
  have := valid_char_fin ⟨c.toNat, c.toNat_lt⟩
  simp only [UInt8.ofNat_toNat] at this
  exact this (by simpa using h)

theorem b64Encode_decodeKeyAux (s : Bytes) (idx : Nat) (r : Bytes) (h : decodeKeyAux s idx = .ok r)
    (h4 : s.length % 4 = 0) : b64Encode r = s := by
  fun_induction decodeKeyAux s idx generalizing r with
  | case5 a b c d rest idx da db dc dd h1 h2 h3 h4' v r' hr ih =>
      cases h
      have hrest : rest.length % 4 = 0 := by simp at h4; omega
      have ihr := ih r' hr hrest
      obtain ⟨la, ea⟩ := valid_char a h1
      obtain ⟨lb, eb⟩ := valid_char b h2
      obtain ⟨lc, ec⟩ := valid_char c h3
      obtain ⟨ld, ed⟩ := valid_char d h4'
      have hv : v = da.toNat * 262144 + db.toNat * 4096 + dc.toNat * 64 + dd.toNat := rfl
      have ea' : encChar da.toNat = a := ea
      have eb' : encChar db.toNat = b := eb
      have ec' : encChar dc.toNat = c := ec
      have ed' : encChar dd.toNat = d := ed
      clear ea eb ec ed
      have la' : da.toNat < 64 := la
      have lb' : db.toNat < 64 := lb
      have lc' : dc.toNat < 64 := lc
      have ld' : dd.toNat < 64 := ld
      clear la lb lc ld h1 h2 h3 h4' hr ih
      clear_value v da db dc dd
      subst hv
      generalize da.toNat = A at *
      generalize db.toNat = B at *
      generalize dc.toNat = C at *
      generalize dd.toNat = D at *
      have hlt : A * 262144 + B * 4096 + C * 64 + D < 16777216 := by
        omega
      have e0 : (UInt8.ofNat ((A * 262144 + B * 4096 + C * 64 + D) / 65536)).toNat = (A * 262144 + B * 4096 + C * 64 + D) / 65536 := by simp [UInt8.toNat_ofNat']; omega
      have e1 : (UInt8.ofNat ((A * 262144 + B * 4096 + C * 64 + D) / 256)).toNat = (A * 262144 + B * 4096 + C * 64 + D) / 256 % 256 := by simp [UInt8.toNat_ofNat']
      have e2 : (UInt8.ofNat (A * 262144 + B * 4096 + C * 64 + D)).toNat = (A * 262144 + B * 4096 + C * 64 + D) % 256 := by simp [UInt8.toNat_ofNat']; omega
      rw [b64Encode, ihr]
      simp only [e0, e1, e2]
      have hN : (A * 262144 + B * 4096 + C * 64 + D) / 65536 * 65536 + (A * 262144 + B * 4096 + C * 64 + D) / 256 % 256 * 256 + (A * 262144 + B * 4096 + C * 64 + D) % 256 = (A * 262144 + B * 4096 + C * 64 + D) := by omega
      rw [hN]
      have q0 : (A * 262144 + B * 4096 + C * 64 + D) / 262144 % 64 = A := by
        omega
      have q1 : (A * 262144 + B * 4096 + C * 64 + D) / 4096 % 64 = B := by
        omega
      have q2 : (A * 262144 + B * 4096 + C * 64 + D) / 64 % 64 = C := by
        omega
      have q3 : (A * 262144 + B * 4096 + C * 64 + D) % 64 = D := by
        omega
      rw [q0, q1, q2, q3]
      rw [ea', eb', ec', ed']
  | case15 => cases h; rfl
  | case1 => cases h
  | case2 => cases h
  | case3 => cases h
  | case4 => cases h
  | case6 a b c d rest idx da db dc dd h1 h2 h3 h4' hne ih =>
      exfalso
      cases hr : decodeKeyAux rest (idx + 4) with
      | ok x => exact hne x hr
      | err e => simp [hr] at h
      | panic w => simp [hr] at h
  | case7 => cases h
  | case8 => cases h
  | case9 => cases h
  | case10 => simp at h4
  | case11 => cases h
  | case12 => cases h
  | case13 => simp at h4
  | case14 => cases h

/-- the in-place base64 decoder is injective on strings of whole groups (32 characters) -/
theorem base64_injective (s s' r : Bytes) (h : decodeKey s = .ok r) (h' : decodeKey s' = .ok r)
    (h4 : s.length % 4 = 0) (h4' : s'.length % 4 = 0) : s = s' := by
  rw [← b64Encode_decodeKeyAux s 0 r h h4, ← b64Encode_decodeKeyAux s' 0 r h' h4']

theorem encryptRaw_decryptRaw (cs : CipherSpec) (r : Bytes) : encryptRaw cs (decryptRaw cs r) = r := by
  cases cs with
  | xtea key => exact encryptRaw_decryptRaw_xtea key r
  | salsa key nonce => simp [encryptRaw, decryptRaw, xorBytes_invol]
  | shuffle key nonce => simp [encryptRaw, decryptRaw, shuffleCrypt_invol]

/-- under every cipher two different strings never decrypt to the same key: a string other than
the issued one is a different key -/
theorem decryptKey_injective (cs : CipherSpec) (s s' k : Bytes) (h : decryptKey cs s = .ok k)
    (h' : decryptKey cs s' = .ok k) : s = s' := by
  unfold decryptKey at h h'
  split at h
  · cases h
  · rename_i hl
    split at h'
    · cases h'
    · rename_i hl'
      split at h
      · rename_i raw hd
        split at h'
        · rename_i raw' hd'
          cases h
          simp only [Outcome.ok.injEq] at h'
          have : raw' = raw := by
            rw [← encryptRaw_decryptRaw cs raw', h', encryptRaw_decryptRaw]
          subst this
          exact base64_injective s s' raw' hd hd' (by simp at hl; omega) (by simp at hl'; omega)
        · cases h'
        · cases h'
      · cases h
      · cases h

end Emitter.KeyTamper
