import Emitter.Model.Lww
namespace Emitter.Lww
open Emitter

/-- the (add, remove) times of a key -/
def tget (m : Map) (k : Bytes) : Int × Int := ((get m k).add, (get m k).del)

def tmax (a b : Int × Int) : Int × Int := (max a.1 b.1, max a.2 b.2)

/-- every stored time is ≥ 0 (true of every reachable local state, see `nonneg_*`) -/
def NonNeg (m : Map) : Prop := ∀ k, 0 ≤ (get m k).add ∧ 0 ≤ (get m k).del

/-- no key occurs twice (a Go map) -/
def NoDup (m : Map) : Prop := (m.map Prod.fst).Nodup

/-- equal add/remove times on every key -/
def Equiv (a b : Map) : Prop := ∀ k, tget a k = tget b k

theorem get_set (m : Map) (k k' : Bytes) (v : Val) :
    get (set m k v) k' = if k' = k then v else get m k' := by
  sorry

theorem nodup_set (m : Map) (k : Bytes) (v : Val) (h : NoDup m) : NoDup (set m k v) := by
  sorry

/-- one merged entry: pointwise maximum on that key, nothing else touched -/
theorem tget_mergeOne (s : Map) (k : Bytes) (rt : Val) (k' : Bytes) (hs : NonNeg s) :
    tget (mergeOne s k rt).1 k' = if k' = k then tmax (tget s k) (rt.add, rt.del) else tget s k' := by
  sorry

/-- `Merge`: pointwise maximum of add and remove times, for every key — absent keys, ties,
zero and negative incoming times included -/
theorem tget_merge (s r : Map) (hs : NonNeg s) (hr : NoDup r) (k : Bytes) :
    tget (merge s r).1 k = tmax (tget s k) (tget r k) := by
  sorry

theorem nonneg_merge (s r : Map) (hs : NonNeg s) : NonNeg (merge s r).1 := by
  sorry
theorem nonneg_add (s : Map) (k : Bytes) (now : Int) (p : Bytes) (hs : NonNeg s) : NonNeg (add s k now p) := by
  sorry
theorem nonneg_del (s : Map) (k : Bytes) (now : Int) (hs : NonNeg s) : NonNeg (del s k now) := by
  sorry
theorem nodup_merge (s r : Map) (hs : NoDup s) : NoDup (merge s r).1 := by
  sorry
theorem nodup_add (s : Map) (k : Bytes) (now : Int) (p : Bytes) (hs : NoDup s) : NoDup (add s k now p) := by
  sorry
theorem nodup_del (s : Map) (k : Bytes) (now : Int) (hs : NoDup s) : NoDup (del s k now) := by
  sorry

/-- a local `Add` / `Del` is, on the times, the merge of a one-entry update -/
theorem add_as_merge (s : Map) (k : Bytes) (now : Int) (p : Bytes) (hs : NonNeg s) :
    Equiv (add s k now p) (merge s [(k, ⟨now, 0, p⟩)]).1 := by
  sorry
theorem del_as_merge (s : Map) (k : Bytes) (now : Int) (hs : NonNeg s) :
    Equiv (del s k now) (merge s [(k, ⟨0, now, []⟩)]).1 := by
  sorry

/-! ### semilattice laws (on the times) -/

theorem merge_idem (s : Map) (hs : NonNeg s) (hd : NoDup s) : Equiv (merge s s).1 s := by
  sorry

theorem merge_comm (a b : Map) (ha : NonNeg a) (hb : NonNeg b) (da : NoDup a) (db : NoDup b) :
    Equiv (merge a b).1 (merge b a).1 := by
  sorry

theorem merge_assoc (a b c : Map) (ha : NonNeg a) (hb : NonNeg b) (da : NoDup a) (db : NoDup b) (dc : NoDup c) :
    Equiv (merge (merge a b).1 c).1 (merge a (merge b c).1).1 := by
  sorry

/-! ### convergence -/

/-- deliver a sequence of updates (single operations, deltas, snapshots) to a replica -/
def deliver (s : Map) (ds : List Map) : Map := ds.foldl (fun s u => (merge s u).1) s

/-- the join of a collection of updates on key `k` -/
def joinT (ds : List Map) (k : Bytes) : Int × Int := ds.foldl (fun acc u => tmax acc (tget u k)) (0, 0)

theorem deliver_eq_join (s : Map) (ds : List Map) (hs : NonNeg s) (h : ∀ u ∈ ds, NoDup u) (k : Bytes) :
    tget (deliver s ds) k = tmax (tget s k) (joinT ds k) := by
  sorry

/-- Any two replicas that have received the same set of updates — in any order, any number
of times — hold the same add and remove times for every key. -/
theorem converge (ds₁ ds₂ : List Map) (h₁ : ∀ u ∈ ds₁, NoDup u) (h₂ : ∀ u ∈ ds₂, NoDup u)
    (hset : ∀ u, u ∈ ds₁ ↔ u ∈ ds₂) : Equiv (deliver [] ds₁) (deliver [] ds₂) := by
  sorry

/-- hence the same answer to "is this event active" -/
theorem converge_has (ds₁ ds₂ : List Map) (h₁ : ∀ u ∈ ds₁, NoDup u) (h₂ : ∀ u ∈ ds₂, NoDup u)
    (hset : ∀ u, u ∈ ds₁ ↔ u ∈ ds₂) (k : Bytes) : has (deliver [] ds₁) k = has (deliver [] ds₂) k := by
  sorry

/-! ### replicas exchanging state under an arbitrary schedule -/

/-- a network event: a replica absorbs a local update, or merges another replica's current
full state (a snapshot hop), or merges the delta another replica computed for a third party -/
inductive NetEv where
  | localUpd (r : Nat) (u : Map)
  | sync (dst src : Nat)
deriving Repr

/-- replica states with, as ghost state, the list of original updates each has absorbed -/
structure Net where
  reps : List (Map × List Map)

def Net.step (n : Net) : NetEv → Net
  | .localUpd r u =>
      { reps := n.reps.mapIdx (fun i p => if i = r then ((merge p.1 u).1, p.2 ++ [u]) else p) }
  | .sync dst src =>
      match n.reps[src]? with
      | some ps => { reps := n.reps.mapIdx (fun i p => if i = dst then ((merge p.1 ps.1).1, p.2 ++ ps.2) else p) }
      | none => n

def Net.init (k : Nat) : Net := { reps := List.replicate k ([], []) }

/-- invariant: every replica's times are exactly the join of the updates it has absorbed,
its times are non-negative and its keys distinct -/
def Net.Inv (n : Net) : Prop :=
  ∀ p ∈ n.reps, NonNeg p.1 ∧ NoDup p.1 ∧ ∀ k, tget p.1 k = joinT p.2 k

theorem net_inv (k : Nat) (evs : List NetEv)
    (hu : ∀ e ∈ evs, ∀ r u, e = NetEv.localUpd r u → NoDup u) :
    (evs.foldl Net.step (Net.init k)).Inv := by
  sorry

/-- for every schedule: two replicas that have (directly or transitively) absorbed the same
set of updates agree on every key -/
theorem net_converge (k : Nat) (evs : List NetEv)
    (hu : ∀ e ∈ evs, ∀ r u, e = NetEv.localUpd r u → NoDup u)
    (a b : Map × List Map) (ha : a ∈ (evs.foldl Net.step (Net.init k)).reps)
    (hb : b ∈ (evs.foldl Net.step (Net.init k)).reps) (hsame : ∀ u, u ∈ a.2 ↔ u ∈ b.2) :
    Equiv a.1 b.1 := by
  sorry

/-! ### deltas (C13, first sentence) -/

/-- the delta holds, for each key, exactly the incoming times that were newer, else 0 -/
theorem delta_times (s r : Map) (hs : NonNeg s) (hr : NoDup r) (k : Bytes) :
    tget (merge s r).2 k =
      (if (get s k).add < (get r k).add then (get r k).add else 0,
       if (get s k).del < (get r k).del then (get r k).del else 0) := by
  sorry

/-- a key is in the delta iff its times changed -/
theorem delta_mem_iff (s r : Map) (hs : NonNeg s) (hr : NoDup r) (k : Bytes) :
    (∃ v, (k, v) ∈ (merge s r).2) ↔ tget (merge s r).1 k ≠ tget s k := by
  sorry

/-- the delta is empty precisely when nothing changed -/
theorem delta_empty_iff (s r : Map) (hs : NonNeg s) (hr : NoDup r) :
    (merge s r).2 = [] ↔ Equiv (merge s r).1 s := by
  sorry

theorem delta_nodup (s r : Map) (hr : NoDup r) : NoDup (merge s r).2 := by
  sorry

/-- relaying the delta instead of the payload loses nothing: for every third replica -/
theorem relay_sufficient (s r t : Map) (hs : NonNeg s) (ht : NonNeg t) (hr : NoDup r) (k : Bytes) :
    tmax (tget s k) (tget (merge t (merge s r).2).1 k) = tmax (tget s k) (tget (merge t r).1 k) := by
  sorry

/-- re-gossiping stops: merging the same payload again yields an empty delta -/
theorem regossip_stops (s r : Map) (hs : NonNeg s) (hr : NoDup r) :
    (merge (merge s r).1 r).2 = [] := by
  sorry

/-- `State.Merge` returns nil iff all three deltas are empty -/
theorem state_merge_none_iff (s o : State) :
    (s.merge o).2 = none ↔ (merge s.sub o.sub).2 = [] ∧ (merge s.ban o.ban).2 = [] ∧ (merge s.conn o.conn).2 = [] := by
  sorry

/-! ### activity -/

theorem isAdded_iff (v : Val) : v.isAdded = true ↔ v.add ≠ 0 ∧ v.add ≥ v.del := by
  sorry

/-- after an add at a clock reading above every earlier time the entry is active … -/
theorem has_after_add (s : Map) (k : Bytes) (now : Int) (p : Bytes)
    (h : (get s k).add < now ∧ (get s k).del ≤ now ∧ now ≠ 0) : has (add s k now p) k = true := by
  sorry
/-- … and after a remove at a later reading it is not -/
theorem not_has_after_del (s : Map) (k : Bytes) (now : Int) (h : (get s k).add < now) :
    has (del s k now) k = false := by
  sorry

/-! ### durable backend: read cache coherence and refinement of the plain map (C14) -/

theorem coherent_init : ({} : Durable).coherent := by
  sorry
theorem coherent_store (d : Durable) (k : Bytes) (v : Val) (h : d.coherent) : (d.store k v).coherent := by
  sorry
theorem coherent_fetch (d : Durable) (k : Bytes) (h : d.coherent) : (d.fetch k).2.coherent := by
  sorry
theorem coherent_add (d : Durable) (k : Bytes) (now : Int) (p : Bytes) (h : d.coherent) : (d.add k now p).coherent := by
  sorry
theorem coherent_del (d : Durable) (k : Bytes) (now : Int) (h : d.coherent) : (d.del k now).coherent := by
  sorry
theorem coherent_merge (d : Durable) (r : Map) (h : d.coherent) : (d.merge r).1.coherent := by
  sorry

/-- with a coherent cache, `Has` answers from the stored value -/
theorem durable_has_truth (d : Durable) (k : Bytes) (h : d.coherent) :
    (d.has k).1 = (get d.db k).isAdded ∧ (d.has k).2.db = d.db := by
  sorry

/-- the durable backend stores exactly what the volatile map would hold -/
theorem durable_refines (d : Durable) (k : Bytes) (now : Int) (p : Bytes) (r : Map) :
    (d.add k now p).db = add d.db k now p ∧ (d.del k now).db = del d.db k now ∧
    (d.merge r).1.db = (merge d.db r).1 ∧ (d.merge r).2 = (merge d.db r).2 := by
  sorry

end Emitter.Lww
