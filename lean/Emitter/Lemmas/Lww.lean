import Emitter.Model.Lww
namespace Emitter.Lww
open Emitter

/-- the (add, remove) times of a key -/
def tget (m : Map) (k : Bytes) : Int × Int := ((get m k).add, (get m k).del)
def tmax (a b : Int × Int) : Int × Int := (max a.1 b.1, max a.2 b.2)
/-- every stored time is ≥ 0 (true of every reachable local state, see `nonneg_*`) -/
def NonNeg (m : Map) : Prop := ∀ k, 0 ≤ (get m k).add ∧ 0 ≤ (get m k).del
/-- no key occurs twice (a Go map) -/
def NoDup (m : Map) : Prop := (m.map Prod.fst).Nodup
/-- equal add/remove times on every key -/
def Equiv (a b : Map) : Prop := ∀ k, tget a k = tget b k

theorem lookup_cons_eq (m : Map) (k k' : Bytes) (v : Val) :
    List.lookup k' ((k, v) :: m) = if k' = k then some v else List.lookup k' m := by
  rw [List.lookup_cons]
  by_cases h : k' = k
  · simp [h]
  · have : (k' == k) = false := by simpa using h
    simp [h, this]

theorem lookup_filter_ne (m : Map) (k k' : Bytes) :
    List.lookup k' (m.filter (fun e => e.1 != k)) = if k' = k then none else List.lookup k' m := by
  induction m with
  | nil => simp
  | cons e m ih =>
    obtain ⟨a, b⟩ := e
    by_cases ha : a = k
    · subst ha
      rw [List.filter_cons_of_neg (by simp), ih, lookup_cons_eq]
      by_cases h : k' = a <;> simp [h]
    · rw [List.filter_cons_of_pos (by simpa using ha), lookup_cons_eq, lookup_cons_eq, ih]
      by_cases h : k' = a
      · subst h; simp [ha]
      · simp [h]

theorem lookup_set (m : Map) (k k' : Bytes) (v : Val) :
    List.lookup k' (set m k v) = if k' = k then some v else List.lookup k' m := by
  unfold set
  rw [lookup_cons_eq, lookup_filter_ne]
  by_cases h : k' = k <;> simp [h]

theorem get_set (m : Map) (k k' : Bytes) (v : Val) :
    get (set m k v) k' = if k' = k then v else get m k' := by
  unfold get
  rw [lookup_set]
  by_cases h : k' = k <;> simp [h]

theorem nodup_filter (m : Map) (p : Bytes × Val → Bool) (h : NoDup m) : NoDup (m.filter p) :=
  List.Sublist.nodup (List.Sublist.map _ List.filter_sublist) h

theorem nodup_set (m : Map) (k : Bytes) (v : Val) (h : NoDup m) : NoDup (set m k v) := by
  unfold set NoDup
  rw [List.map_cons, List.nodup_cons]
  refine ⟨?_, nodup_filter m _ h⟩
  simp [List.mem_map, List.mem_filter]

/-- what is left of an incoming entry `rt` against the stored `st` -/
def mDelta (st rt : Val) : Val :=
  ⟨if st.add < rt.add then rt.add else 0, if st.del < rt.del then rt.del else 0, rt.payload⟩
/-- the stored entry after merging `rt` -/
def mNew (st rt : Val) : Val :=
  ⟨if st.add < rt.add then rt.add else st.add, if st.del < rt.del then rt.del else st.del, rt.payload⟩

theorem mergeOne_def (s : Map) (k : Bytes) (rt : Val) :
    mergeOne s k rt = if (mDelta (get s k) rt).isZero = true then (s, none)
      else (set s k (mNew (get s k) rt), some (mDelta (get s k) rt)) := by
  unfold mergeOne mDelta mNew
  simp only [decide_eq_true_eq]

theorem isZero_mDelta (st rt : Val) :
    (mDelta st rt).isZero = true ↔ (st.add < rt.add → rt.add = 0) ∧ (st.del < rt.del → rt.del = 0) := by
  unfold mDelta Val.isZero
  simp only [Bool.and_eq_true, beq_iff_eq]
  constructor
  · rintro ⟨h1, h2⟩
    constructor
    · intro h; rw [if_pos h] at h1; exact h1
    · intro h; rw [if_pos h] at h2; exact h2
  · rintro ⟨h1, h2⟩
    constructor
    · split
      · exact h1 ‹_›
      · rfl
    · split
      · exact h2 ‹_›
      · rfl

theorem get_mergeOne_ne (s : Map) (k : Bytes) (rt : Val) (k' : Bytes) (h : k' ≠ k) :
    get (mergeOne s k rt).1 k' = get s k' := by
  rw [mergeOne_def]
  split
  · rfl
  · simp only [get_set, h, if_false]

/-- one merged entry: pointwise maximum on that key, nothing else touched -/
theorem tget_mergeOne (s : Map) (k : Bytes) (rt : Val) (k' : Bytes) (hs : NonNeg s) :
    tget (mergeOne s k rt).1 k' = if k' = k then tmax (tget s k) (rt.add, rt.del) else tget s k' := by
  by_cases h : k' = k
  · subst h
    have := hs k'
    simp only [if_true]
    rw [mergeOne_def]
    split
    · rename_i hz
      rw [isZero_mDelta] at hz
      unfold tget tmax
      simp only [Prod.mk.injEq]
      omega
    · unfold tget tmax mNew
      simp only [get_set, if_true, Prod.mk.injEq]
      constructor
      · split <;> omega
      · split <;> omega
  · simp only [h, if_false]
    unfold tget
    rw [get_mergeOne_ne s k rt k' h]

theorem merge_nil (s : Map) : merge s [] = (s, []) := rfl

theorem merge_cons (s : Map) (k : Bytes) (rt : Val) (rest : Map) :
    merge s ((k, rt) :: rest) =
      ((merge (mergeOne s k rt).1 rest).1,
        match (mergeOne s k rt).2 with
        | some v => (k, v) :: (merge (mergeOne s k rt).1 rest).2
        | none => (merge (mergeOne s k rt).1 rest).2) := rfl

theorem get_nil (k : Bytes) : get [] k = Val.zero := rfl
theorem tget_nil (k : Bytes) : tget [] k = (0, 0) := rfl

theorem get_cons (m : Map) (k k' : Bytes) (v : Val) :
    get ((k, v) :: m) k' = if k' = k then v else get m k' := by
  unfold get
  rw [lookup_cons_eq]
  by_cases h : k' = k <;> simp [h]

theorem lookup_of_not_mem (m : Map) (k : Bytes) (h : k ∉ m.map Prod.fst) : List.lookup k m = none := by
  induction m with
  | nil => rfl
  | cons e m ih =>
    obtain ⟨a, b⟩ := e
    simp only [List.map_cons, List.mem_cons, not_or] at h
    rw [lookup_cons_eq, if_neg h.1, ih h.2]

theorem get_of_not_mem (m : Map) (k : Bytes) (h : k ∉ m.map Prod.fst) : get m k = Val.zero := by
  unfold get; rw [lookup_of_not_mem m k h]; rfl

theorem nonneg_nil : NonNeg [] := by
  intro k; rw [get_nil]; simp [Val.zero]

theorem nodup_nil : NoDup [] := List.nodup_nil

theorem tmax_zero_right (a : Int × Int) (h : 0 ≤ a.1 ∧ 0 ≤ a.2) : tmax a (0, 0) = a := by
  obtain ⟨x, y⟩ := a
  unfold tmax
  simp only [Prod.mk.injEq] at *
  omega

theorem tmax_zero_left (a : Int × Int) (h : 0 ≤ a.1 ∧ 0 ≤ a.2) : tmax (0, 0) a = a := by
  obtain ⟨x, y⟩ := a
  unfold tmax
  simp only [Prod.mk.injEq] at *
  omega

theorem tmax_comm (a b : Int × Int) : tmax a b = tmax b a := by
  unfold tmax; simp only [Prod.mk.injEq]; omega

theorem tmax_assoc (a b c : Int × Int) : tmax (tmax a b) c = tmax a (tmax b c) := by
  unfold tmax; simp only [Prod.mk.injEq]; omega

theorem tmax_self (a : Int × Int) : tmax a a = a := by
  unfold tmax; simp only [Int.max_self]

theorem nonneg_tget (s : Map) (hs : NonNeg s) (k : Bytes) : 0 ≤ (tget s k).1 ∧ 0 ≤ (tget s k).2 := hs k

theorem nonneg_mergeOne (s : Map) (k : Bytes) (rt : Val) (hs : NonNeg s) : NonNeg (mergeOne s k rt).1 := by
  intro k'
  have h := tget_mergeOne s k rt k' hs
  have h1 := hs k
  have h2 := hs k'
  unfold tget tmax at h
  split at h <;> simp only [Prod.mk.injEq] at h <;> omega

theorem nodup_mergeOne (s : Map) (k : Bytes) (rt : Val) (hs : NoDup s) : NoDup (mergeOne s k rt).1 := by
  rw [mergeOne_def]
  split
  · exact hs
  · exact nodup_set _ _ _ hs

/-- `Merge`: pointwise maximum of add and remove times, for every key — absent keys, ties,
zero and negative incoming times included -/
theorem tget_merge (s r : Map) (hs : NonNeg s) (hr : NoDup r) (k : Bytes) :
    tget (merge s r).1 k = tmax (tget s k) (tget r k) := by
  induction r generalizing s with
  | nil => rw [merge_nil, tget_nil, tmax_zero_right _ (hs k)]
  | cons e rest ih =>
    obtain ⟨k0, rt⟩ := e
    unfold NoDup at hr
    rw [List.map_cons, List.nodup_cons] at hr
    rw [merge_cons]
    simp only
    rw [ih _ (nonneg_mergeOne s k0 rt hs) hr.2, tget_mergeOne _ _ _ _ hs]
    by_cases h : k = k0
    · subst h
      have : tget rest k = (0, 0) := by unfold tget; rw [get_of_not_mem _ _ hr.1]; rfl
      rw [this, if_pos rfl]
      have : tget ((k, rt) :: rest) k = (rt.add, rt.del) := by unfold tget; rw [get_cons, if_pos rfl]
      rw [this]
      have h1 := hs k
      unfold tmax tget
      simp only [Prod.mk.injEq]
      omega
    · rw [if_neg h]
      have : tget ((k0, rt) :: rest) k = tget rest k := by unfold tget; rw [get_cons, if_neg h]
      rw [this]

theorem nonneg_merge (s r : Map) (hs : NonNeg s) : NonNeg (merge s r).1 := by
  induction r generalizing s with
  | nil => exact hs
  | cons e rest ih =>
    obtain ⟨k0, rt⟩ := e
    rw [merge_cons]
    exact ih _ (nonneg_mergeOne s k0 rt hs)

theorem nodup_merge (s r : Map) (hs : NoDup s) : NoDup (merge s r).1 := by
  induction r generalizing s with
  | nil => exact hs
  | cons e rest ih =>
    obtain ⟨k0, rt⟩ := e
    rw [merge_cons]
    exact ih _ (nodup_mergeOne s k0 rt hs)

theorem nonneg_add (s : Map) (k : Bytes) (now : Int) (p : Bytes) (hs : NonNeg s) : NonNeg (add s k now p) := by
  unfold add
  simp only
  split
  · intro k'
    rw [get_set]
    have h1 := hs k
    have h2 := hs k'
    split
    · simp only; omega
    · exact h2
  · exact hs
theorem nonneg_del (s : Map) (k : Bytes) (now : Int) (hs : NonNeg s) : NonNeg (del s k now) := by
  unfold del
  simp only
  split
  · intro k'
    rw [get_set]
    have h1 := hs k
    have h2 := hs k'
    split
    · simp only; omega
    · exact h2
  · exact hs
theorem nodup_add (s : Map) (k : Bytes) (now : Int) (p : Bytes) (hs : NoDup s) : NoDup (add s k now p) := by
  unfold add
  simp only
  split
  · exact nodup_set _ _ _ hs
  · exact hs
theorem nodup_del (s : Map) (k : Bytes) (now : Int) (hs : NoDup s) : NoDup (del s k now) := by
  unfold del
  simp only
  split
  · exact nodup_set _ _ _ hs
  · exact hs

theorem nodup_singleton (k : Bytes) (v : Val) : NoDup [(k, v)] := by
  unfold NoDup; simp

theorem merge_singleton (s : Map) (k : Bytes) (v : Val) : (merge s [(k, v)]).1 = (mergeOne s k v).1 := rfl

/-- a local `Add` / `Del` is, on the times, the merge of a one-entry update -/
theorem add_as_merge (s : Map) (k : Bytes) (now : Int) (p : Bytes) (hs : NonNeg s) :
    Equiv (add s k now p) (merge s [(k, ⟨now, 0, p⟩)]).1 := by
  intro k'
  rw [merge_singleton, tget_mergeOne _ _ _ _ hs]
  have h1 := hs k
  unfold add
  simp only
  by_cases h : k' = k
  · subst h
    rw [if_pos rfl]
    split
    · unfold tget tmax; simp only [get_set, if_true, Prod.mk.injEq]; omega
    · unfold tget tmax; simp only [Prod.mk.injEq]; omega
  · rw [if_neg h]
    split
    · unfold tget; simp only [get_set, if_neg h]
    · rfl
theorem del_as_merge (s : Map) (k : Bytes) (now : Int) (hs : NonNeg s) :
    Equiv (del s k now) (merge s [(k, ⟨0, now, []⟩)]).1 := by
  intro k'
  rw [merge_singleton, tget_mergeOne _ _ _ _ hs]
  have h1 := hs k
  unfold del
  simp only
  by_cases h : k' = k
  · subst h
    rw [if_pos rfl]
    split
    · unfold tget tmax; simp only [get_set, if_true, Prod.mk.injEq]; omega
    · unfold tget tmax; simp only [Prod.mk.injEq]; omega
  · rw [if_neg h]
    split
    · unfold tget; simp only [get_set, if_neg h]
    · rfl

/-! ### semilattice laws (on the times) -/

theorem merge_idem (s : Map) (hs : NonNeg s) (hd : NoDup s) : Equiv (merge s s).1 s := by
  intro k; rw [tget_merge s s hs hd, tmax_self]

theorem merge_comm (a b : Map) (ha : NonNeg a) (hb : NonNeg b) (da : NoDup a) (db : NoDup b) :
    Equiv (merge a b).1 (merge b a).1 := by
  intro k; rw [tget_merge a b ha db, tget_merge b a hb da, tmax_comm]

theorem merge_assoc (a b c : Map) (ha : NonNeg a) (hb : NonNeg b) (da : NoDup a) (db : NoDup b) (dc : NoDup c) :
    Equiv (merge (merge a b).1 c).1 (merge a (merge b c).1).1 := by
  have _ := da  -- not needed
  intro k
  rw [tget_merge _ c (nonneg_merge a b ha) dc, tget_merge a b ha db,
    tget_merge a _ ha (nodup_merge b c db), tget_merge b c hb dc, tmax_assoc]

/-! ### convergence -/

/-- deliver a sequence of updates (single operations, deltas, snapshots) to a replica -/
def deliver (s : Map) (ds : List Map) : Map := ds.foldl (fun s u => (merge s u).1) s
/-- the join of a collection of updates on key `k` -/
def joinT (ds : List Map) (k : Bytes) : Int × Int := ds.foldl (fun acc u => tmax acc (tget u k)) (0, 0)

/-- the fold behind `joinT` from an arbitrary start -/
def joinFrom (acc : Int × Int) (ds : List Map) (k : Bytes) : Int × Int :=
  ds.foldl (fun acc u => tmax acc (tget u k)) acc

theorem joinT_eq (ds : List Map) (k : Bytes) : joinT ds k = joinFrom (0, 0) ds k := rfl

theorem joinFrom_nil (acc : Int × Int) (k : Bytes) : joinFrom acc [] k = acc := rfl
theorem joinFrom_cons (acc : Int × Int) (u : Map) (ds : List Map) (k : Bytes) :
    joinFrom acc (u :: ds) k = joinFrom (tmax acc (tget u k)) ds k := rfl

theorem joinFrom_fst_le_iff (acc : Int × Int) (ds : List Map) (k : Bytes) (B : Int) :
    (joinFrom acc ds k).1 ≤ B ↔ acc.1 ≤ B ∧ ∀ u ∈ ds, (tget u k).1 ≤ B := by
  induction ds generalizing acc with
  | nil => simp [joinFrom_nil]
  | cons u ds ih =>
    rw [joinFrom_cons, ih]
    simp only [List.mem_cons, forall_eq_or_imp]
    unfold tmax
    simp only
    constructor
    · rintro ⟨h1, h2⟩; exact ⟨by omega, by omega, h2⟩
    · rintro ⟨h1, h2, h3⟩; exact ⟨by omega, h3⟩

theorem joinFrom_snd_le_iff (acc : Int × Int) (ds : List Map) (k : Bytes) (B : Int) :
    (joinFrom acc ds k).2 ≤ B ↔ acc.2 ≤ B ∧ ∀ u ∈ ds, (tget u k).2 ≤ B := by
  induction ds generalizing acc with
  | nil => simp [joinFrom_nil]
  | cons u ds ih =>
    rw [joinFrom_cons, ih]
    simp only [List.mem_cons, forall_eq_or_imp]
    unfold tmax
    simp only
    constructor
    · rintro ⟨h1, h2⟩; exact ⟨by omega, by omega, h2⟩
    · rintro ⟨h1, h2, h3⟩; exact ⟨by omega, h3⟩

/-- `joinFrom` is the least upper bound of its start and the updates, so it is `tmax` of the
start and the join from `(0, 0)` whenever the start is non-negative -/
theorem joinFrom_eq (acc : Int × Int) (ds : List Map) (k : Bytes) (h : 0 ≤ acc.1 ∧ 0 ≤ acc.2) :
    joinFrom acc ds k = tmax acc (joinT ds k) := by
  rw [joinT_eq]
  have a1 := joinFrom_fst_le_iff acc ds k
  have a2 := joinFrom_snd_le_iff acc ds k
  have z1 := joinFrom_fst_le_iff (0, 0) ds k
  have z2 := joinFrom_snd_le_iff (0, 0) ds k
  apply Prod.ext
  · apply Int.le_antisymm
    · rw [a1]
      have := (z1 (joinFrom (0, 0) ds k).1).1 (Int.le_refl _)
      refine ⟨?_, fun u hu => ?_⟩
      · unfold tmax; simp only; omega
      · have := this.2 u hu; unfold tmax; simp only; omega
    · have := (a1 (joinFrom acc ds k).1).1 (Int.le_refl _)
      have hz := (z1 (joinFrom acc ds k).1).2 ⟨by simp only; omega, this.2⟩
      unfold tmax; simp only; omega
  · apply Int.le_antisymm
    · rw [a2]
      have := (z2 (joinFrom (0, 0) ds k).2).1 (Int.le_refl _)
      refine ⟨?_, fun u hu => ?_⟩
      · unfold tmax; simp only; omega
      · have := this.2 u hu; unfold tmax; simp only; omega
    · have := (a2 (joinFrom acc ds k).2).1 (Int.le_refl _)
      have hz := (z2 (joinFrom acc ds k).2).2 ⟨by simp only; omega, this.2⟩
      unfold tmax; simp only; omega

theorem joinT_nonneg (ds : List Map) (k : Bytes) : 0 ≤ (joinT ds k).1 ∧ 0 ≤ (joinT ds k).2 := by
  rw [joinT_eq]
  have h1 := (joinFrom_fst_le_iff (0, 0) ds k (joinFrom (0, 0) ds k).1).1 (Int.le_refl _)
  have h2 := (joinFrom_snd_le_iff (0, 0) ds k (joinFrom (0, 0) ds k).2).1 (Int.le_refl _)
  exact ⟨h1.1, h2.1⟩

theorem joinT_nil (k : Bytes) : joinT [] k = (0, 0) := rfl

theorem joinT_append (a b : List Map) (k : Bytes) : joinT (a ++ b) k = tmax (joinT a k) (joinT b k) := by
  have : joinT (a ++ b) k = joinFrom (joinT a k) b k := by
    unfold joinT joinFrom; rw [List.foldl_append]
  rw [this, joinFrom_eq _ _ _ (joinT_nonneg a k)]

theorem joinT_singleton (u : Map) (k : Bytes) : joinT [u] k = tmax (0, 0) (tget u k) := rfl

/-- the join depends only on the set of updates -/
theorem joinT_mono (ds₁ ds₂ : List Map) (h : ∀ u, u ∈ ds₁ → u ∈ ds₂) (k : Bytes) :
    (joinT ds₁ k).1 ≤ (joinT ds₂ k).1 ∧ (joinT ds₁ k).2 ≤ (joinT ds₂ k).2 := by
  simp only [joinT_eq]
  have h1 := (joinFrom_fst_le_iff (0, 0) ds₂ k (joinFrom (0, 0) ds₂ k).1).1 (Int.le_refl _)
  have h2 := (joinFrom_snd_le_iff (0, 0) ds₂ k (joinFrom (0, 0) ds₂ k).2).1 (Int.le_refl _)
  constructor
  · rw [joinFrom_fst_le_iff]; exact ⟨h1.1, fun u hu => h1.2 u (h u hu)⟩
  · rw [joinFrom_snd_le_iff]; exact ⟨h2.1, fun u hu => h2.2 u (h u hu)⟩

theorem joinT_congr (ds₁ ds₂ : List Map) (h : ∀ u, u ∈ ds₁ ↔ u ∈ ds₂) (k : Bytes) :
    joinT ds₁ k = joinT ds₂ k := by
  have a := joinT_mono ds₁ ds₂ (fun u => (h u).1) k
  have b := joinT_mono ds₂ ds₁ (fun u => (h u).2) k
  apply Prod.ext <;> omega

theorem deliver_nil (s : Map) : deliver s [] = s := rfl
theorem deliver_cons (s u : Map) (ds : List Map) : deliver s (u :: ds) = deliver (merge s u).1 ds := rfl

theorem deliver_eq_join (s : Map) (ds : List Map) (hs : NonNeg s) (h : ∀ u ∈ ds, NoDup u) (k : Bytes) :
    tget (deliver s ds) k = tmax (tget s k) (joinT ds k) := by
  rw [← joinFrom_eq _ _ _ (hs k)]
  induction ds generalizing s with
  | nil => rfl
  | cons u ds ih =>
    rw [deliver_cons, joinFrom_cons, ih _ (nonneg_merge s u hs) (fun v hv => h v (List.mem_cons_of_mem _ hv)),
      tget_merge s u hs (h u List.mem_cons_self)]

/-- Any two replicas that have received the same set of updates — in any order, any number
of times — hold the same add and remove times for every key. -/
theorem converge (ds₁ ds₂ : List Map) (h₁ : ∀ u ∈ ds₁, NoDup u) (h₂ : ∀ u ∈ ds₂, NoDup u)
    (hset : ∀ u, u ∈ ds₁ ↔ u ∈ ds₂) : Equiv (deliver [] ds₁) (deliver [] ds₂) := by
  intro k
  rw [deliver_eq_join [] ds₁ nonneg_nil h₁, deliver_eq_join [] ds₂ nonneg_nil h₂, joinT_congr ds₁ ds₂ hset]

theorem has_congr (a b : Map) (k : Bytes) (h : tget a k = tget b k) : has a k = has b k := by
  unfold tget at h
  simp only [Prod.mk.injEq] at h
  unfold has Val.isAdded
  rw [h.1, h.2]

/-- hence the same answer to "is this event active" -/
theorem converge_has (ds₁ ds₂ : List Map) (h₁ : ∀ u ∈ ds₁, NoDup u) (h₂ : ∀ u ∈ ds₂, NoDup u)
    (hset : ∀ u, u ∈ ds₁ ↔ u ∈ ds₂) (k : Bytes) : has (deliver [] ds₁) k = has (deliver [] ds₂) k :=
  has_congr _ _ k (converge ds₁ ds₂ h₁ h₂ hset k)

/-! ### replicas exchanging state under an arbitrary schedule -/

/-- a network event: a replica absorbs a local update, or merges another replica's current
full state (a snapshot hop), or merges the delta another replica computed for a third party -/
inductive NetEv where
  | localUpd (r : Nat) (u : Map)
  | sync (dst src : Nat)
deriving Repr

/-- replica states with, as ghost state, the list of original updates each has absorbed -/
structure Net where
  reps : List (Map × List Map)

def Net.step (n : Net) : NetEv → Net
  | .localUpd r u =>
      { reps := n.reps.mapIdx (fun i p => if i = r then ((merge p.1 u).1, p.2 ++ [u]) else p) }
  | .sync dst src =>
      match n.reps[src]? with
      | some ps => { reps := n.reps.mapIdx (fun i p => if i = dst then ((merge p.1 ps.1).1, p.2 ++ ps.2) else p) }
      | none => n

def Net.init (k : Nat) : Net := { reps := List.replicate k ([], []) }

/-- invariant: every replica's times are exactly the join of the updates it has absorbed,
its times are non-negative and its keys distinct -/
def Net.Inv (n : Net) : Prop :=
  ∀ p ∈ n.reps, NonNeg p.1 ∧ NoDup p.1 ∧ ∀ k, tget p.1 k = joinT p.2 k

theorem net_inv_init (k : Nat) : (Net.init k).Inv := by
  intro p hp
  unfold Net.init at hp
  rw [List.mem_replicate] at hp
  rw [hp.2]
  exact ⟨nonneg_nil, nodup_nil, fun _ => rfl⟩

/-- absorbing a batch of updates `us` whose join is the (non-negative part of the) times of
`m` keeps the invariant -/
theorem net_inv_absorb (p : Map × List Map) (m : Map) (us : List Map)
    (hp : NonNeg p.1 ∧ NoDup p.1 ∧ ∀ k, tget p.1 k = joinT p.2 k)
    (hm : NoDup m) (hj : ∀ k, tmax (0, 0) (tget m k) = joinT us k) :
    NonNeg (merge p.1 m).1 ∧ NoDup (merge p.1 m).1 ∧ ∀ k, tget (merge p.1 m).1 k = joinT (p.2 ++ us) k := by
  refine ⟨nonneg_merge _ _ hp.1, nodup_merge _ _ hp.2.1, fun k => ?_⟩
  rw [tget_merge _ _ hp.1 hm, joinT_append, ← hp.2.2 k, ← hj k, ← tmax_assoc, tmax_zero_right _ (hp.1 k)]

theorem net_inv_step (n : Net) (e : NetEv) (hn : n.Inv)
    (hu : ∀ r u, e = NetEv.localUpd r u → NoDup u) : (n.step e).Inv := by
  cases e with
  | localUpd r u =>
    intro p hp
    simp only [Net.step, List.mem_mapIdx] at hp
    obtain ⟨i, hi, rfl⟩ := hp
    have hq := hn _ (List.getElem_mem hi)
    split
    · exact net_inv_absorb _ u [u] hq (hu r u rfl) (fun k => rfl)
    · exact hq
  | sync dst src =>
    simp only [Net.step]
    cases hps : n.reps[src]? with
    | none => exact hn
    | some ps =>
      have hs := hn ps (List.mem_of_getElem? hps)
      intro p hp
      simp only [List.mem_mapIdx] at hp
      obtain ⟨i, hi, rfl⟩ := hp
      have hq := hn _ (List.getElem_mem hi)
      split
      · exact net_inv_absorb _ ps.1 ps.2 hq hs.2.1 (fun k => by rw [← hs.2.2 k, tmax_zero_left _ (hs.1 k)])
      · exact hq

theorem net_inv_foldl (n : Net) (evs : List NetEv) (hn : n.Inv)
    (hu : ∀ e ∈ evs, ∀ r u, e = NetEv.localUpd r u → NoDup u) : (evs.foldl Net.step n).Inv := by
  induction evs generalizing n with
  | nil => exact hn
  | cons e evs ih =>
    rw [List.foldl_cons]
    exact ih _ (net_inv_step n e hn (hu e List.mem_cons_self)) (fun e' he' => hu e' (List.mem_cons_of_mem _ he'))

theorem net_inv (k : Nat) (evs : List NetEv)
    (hu : ∀ e ∈ evs, ∀ r u, e = NetEv.localUpd r u → NoDup u) :
    (evs.foldl Net.step (Net.init k)).Inv :=
  net_inv_foldl _ evs (net_inv_init k) hu

/-- for every schedule: two replicas that have (directly or transitively) absorbed the same
set of updates agree on every key -/
theorem net_converge (k : Nat) (evs : List NetEv)
    (hu : ∀ e ∈ evs, ∀ r u, e = NetEv.localUpd r u → NoDup u)
    (a b : Map × List Map) (ha : a ∈ (evs.foldl Net.step (Net.init k)).reps)
    (hb : b ∈ (evs.foldl Net.step (Net.init k)).reps) (hsame : ∀ u, u ∈ a.2 ↔ u ∈ b.2) :
    Equiv a.1 b.1 := by
  intro key
  have hi := net_inv k evs hu
  rw [(hi a ha).2.2 key, (hi b hb).2.2 key, joinT_congr _ _ hsame]

/-! ### deltas (C13, first sentence) -/

theorem mergeOne_snd (s : Map) (k : Bytes) (rt : Val) :
    (mergeOne s k rt).2 = if (mDelta (get s k) rt).isZero = true then none else some (mDelta (get s k) rt) := by
  rw [mergeOne_def]; split <;> rfl

/-- the delta entry of a key: what `mergeOne` leaves of the incoming entry for that key -/
theorem lookup_delta (s r : Map) (hr : NoDup r) (k : Bytes) :
    List.lookup k (merge s r).2 = (List.lookup k r).bind (fun rt => (mergeOne s k rt).2) := by
  induction r generalizing s with
  | nil => rfl
  | cons e rest ih =>
    obtain ⟨k0, rt⟩ := e
    unfold NoDup at hr
    rw [List.map_cons, List.nodup_cons] at hr
    rw [merge_cons, lookup_cons_eq]
    simp only
    by_cases h : k = k0
    · subst h
      rw [if_pos rfl, Option.bind_some]
      cases hd : (mergeOne s k rt).2 with
      | some v => simp only; rw [lookup_cons_eq, if_pos rfl]
      | none => simp only; rw [ih _ hr.2, lookup_of_not_mem _ _ hr.1]; rfl
    · rw [if_neg h]
      have hk : List.lookup k (merge (mergeOne s k0 rt).1 rest).2
          = (List.lookup k rest).bind (fun rt' => (mergeOne s k rt').2) := by
        rw [ih _ hr.2]
        congr 1
        funext rt'
        rw [mergeOne_snd, mergeOne_snd, get_mergeOne_ne s k0 rt k h]
      cases hd : (mergeOne s k0 rt).2 with
      | some v => simp only; rw [lookup_cons_eq, if_neg h, hk]
      | none => simp only; rw [hk]

theorem get_delta (s r : Map) (hr : NoDup r) (k : Bytes) :
    get (merge s r).2 k = if (mDelta (get s k) (get r k)).isZero = true then Val.zero else mDelta (get s k) (get r k) := by
  unfold get
  rw [lookup_delta s r hr k]
  cases List.lookup k r with
  | none =>
    have : (mDelta (get s k) Val.zero).isZero = true := by
      rw [isZero_mDelta]; simp [Val.zero]
    simp only [Option.bind_none, Option.getD_none]
    unfold get at this
    rw [if_pos this]
  | some rt =>
    simp only [Option.bind_some, Option.getD_some]
    rw [mergeOne_snd]
    unfold get
    split <;> rfl

/-- the delta holds, for each key, exactly the incoming times that were newer, else 0 -/
theorem delta_times (s r : Map) (hs : NonNeg s) (hr : NoDup r) (k : Bytes) :
    tget (merge s r).2 k =
      (if (get s k).add < (get r k).add then (get r k).add else 0,
       if (get s k).del < (get r k).del then (get r k).del else 0) := by
  have _ := hs  -- not needed: the formula holds for any `s`
  unfold tget
  rw [get_delta s r hr k]
  split
  · rename_i hz
    rw [isZero_mDelta] at hz
    simp only [Val.zero, Prod.mk.injEq]
    constructor
    · split
      · exact (hz.1 ‹_›).symm
      · rfl
    · split
      · exact (hz.2 ‹_›).symm
      · rfl
  · rfl

theorem exists_mem_iff_lookup (m : Map) (k : Bytes) : (∃ v, (k, v) ∈ m) ↔ List.lookup k m ≠ none := by
  induction m with
  | nil => simp
  | cons e m ih =>
    obtain ⟨a, b⟩ := e
    rw [lookup_cons_eq]
    by_cases h : k = a
    · subst h
      simp only [if_true, ne_eq, reduceCtorEq, not_false_eq_true, iff_true]
      exact ⟨b, List.mem_cons_self⟩
    · rw [if_neg h, ← ih]
      constructor
      · rintro ⟨v, hv⟩
        rw [List.mem_cons] at hv
        rcases hv with hv | hv
        · exact absurd (Prod.mk.inj hv).1 h
        · exact ⟨v, hv⟩
      · rintro ⟨v, hv⟩
        exact ⟨v, List.mem_cons_of_mem _ hv⟩

/-- a key is in the delta iff its times changed -/
theorem delta_mem_iff (s r : Map) (hs : NonNeg s) (hr : NoDup r) (k : Bytes) :
    (∃ v, (k, v) ∈ (merge s r).2) ↔ tget (merge s r).1 k ≠ tget s k := by
  rw [exists_mem_iff_lookup, lookup_delta s r hr k, tget_merge s r hs hr k]
  have h1 := hs k
  have hget : get r k = (List.lookup k r).getD Val.zero := rfl
  unfold tget tmax
  rw [hget]
  cases List.lookup k r with
  | none =>
    simp only [Option.bind_none, Option.getD_none, Val.zero, ne_eq, not_true_eq_false, Prod.mk.injEq, false_iff,
      Classical.not_not]
    omega
  | some rt =>
    simp only [Option.bind_some, Option.getD_some, mergeOne_snd]
    have hz := isZero_mDelta (get s k) rt
    split
    · rename_i h
      rw [hz] at h
      simp only [ne_eq, not_true_eq_false, Prod.mk.injEq, false_iff, Classical.not_not]
      omega
    · rename_i h
      rw [hz] at h
      simp only [ne_eq, reduceCtorEq, not_false_eq_true, Prod.mk.injEq, true_iff]
      omega

/-- the delta is empty precisely when nothing changed -/
theorem delta_empty_iff (s r : Map) (hs : NonNeg s) (hr : NoDup r) :
    (merge s r).2 = [] ↔ Equiv (merge s r).1 s := by
  constructor
  · intro h k
    apply Classical.byContradiction
    intro hne
    obtain ⟨v, hv⟩ := (delta_mem_iff s r hs hr k).2 hne
    rw [h] at hv
    exact absurd hv List.not_mem_nil
  · intro h
    rw [List.eq_nil_iff_forall_not_mem]
    rintro ⟨k, v⟩ hm
    exact (delta_mem_iff s r hs hr k).1 ⟨v, hm⟩ (h k)

theorem delta_keys_sublist (s r : Map) : ((merge s r).2.map Prod.fst).Sublist (r.map Prod.fst) := by
  induction r generalizing s with
  | nil => exact List.Sublist.refl _
  | cons e rest ih =>
    obtain ⟨k0, rt⟩ := e
    rw [merge_cons]
    simp only
    cases (mergeOne s k0 rt).2 with
    | some v => simp only [List.map_cons]; exact List.Sublist.cons_cons _ (ih _)
    | none => simp only [List.map_cons]; exact List.Sublist.cons _ (ih _)

theorem delta_nodup (s r : Map) (hr : NoDup r) : NoDup (merge s r).2 :=
  List.Sublist.nodup (delta_keys_sublist s r) hr

/-- relaying the delta instead of the payload loses nothing: for every third replica -/
theorem relay_sufficient (s r t : Map) (hs : NonNeg s) (ht : NonNeg t) (hr : NoDup r) (k : Bytes) :
    tmax (tget s k) (tget (merge t (merge s r).2).1 k) = tmax (tget s k) (tget (merge t r).1 k) := by
  rw [tget_merge t _ ht (delta_nodup s r hr), tget_merge t r ht hr, delta_times s r hs hr]
  have h1 := hs k
  have h2 := ht k
  unfold tmax tget
  simp only [Prod.mk.injEq]
  constructor
  · split <;> omega
  · split <;> omega

/-- re-gossiping stops: merging the same payload again yields an empty delta -/
theorem regossip_stops (s r : Map) (hs : NonNeg s) (hr : NoDup r) :
    (merge (merge s r).1 r).2 = [] := by
  rw [delta_empty_iff _ _ (nonneg_merge s r hs) hr]
  intro k
  rw [tget_merge _ r (nonneg_merge s r hs) hr, tget_merge s r hs hr, tmax_assoc, tmax_self]

/-- `State.Merge` returns nil iff all three deltas are empty -/
theorem state_merge_none_iff (s o : State) :
    (s.merge o).2 = none ↔ (merge s.sub o.sub).2 = [] ∧ (merge s.ban o.ban).2 = [] ∧ (merge s.conn o.conn).2 = [] := by
  have : (s.merge o).2 = if (merge s.sub o.sub).2.length + (merge s.ban o.ban).2.length + (merge s.conn o.conn).2.length == 0
      then none else some ⟨(merge s.sub o.sub).2, (merge s.ban o.ban).2, (merge s.conn o.conn).2⟩ := rfl
  rw [this]
  simp only [← List.length_eq_zero_iff]
  split
  · rename_i h
    simp only [beq_iff_eq] at h
    simp only [true_iff]; omega
  · rename_i h
    simp only [beq_iff_eq] at h
    simp only [reduceCtorEq, false_iff]; omega

/-! ### activity -/

theorem isAdded_iff (v : Val) : v.isAdded = true ↔ v.add ≠ 0 ∧ v.add ≥ v.del := by
  unfold Val.isAdded
  simp only [Bool.and_eq_true, bne_iff_ne, ne_eq, decide_eq_true_eq]

/-- after an add at a clock reading above every earlier time the entry is active … -/
theorem has_after_add (s : Map) (k : Bytes) (now : Int) (p : Bytes)
    (h : (get s k).add < now ∧ (get s k).del ≤ now ∧ now ≠ 0) : has (add s k now p) k = true := by
  unfold has add
  simp only
  rw [if_pos h.1, get_set, if_pos rfl, isAdded_iff]
  exact ⟨h.2.2, h.2.1⟩

/-- … and after a remove at a later reading it is not -/
theorem not_has_after_del (s : Map) (k : Bytes) (now : Int) (h : (get s k).add < now) :
    has (del s k now) k = false := by
  rw [← Bool.not_eq_true]
  unfold has del
  simp only
  split
  · rw [get_set, if_pos rfl, isAdded_iff]
    simp only
    omega
  · rw [isAdded_iff]
    omega

/-! ### durable backend: read cache coherence and refinement of the plain map (C14) -/

theorem coherent_init : ({} : Durable).coherent := by
  intro k v h
  exact absurd h (by simp)

theorem coherent_store (d : Durable) (k : Bytes) (v : Val) (h : d.coherent) : (d.store k v).coherent := by
  intro k' v' hc
  unfold Durable.store at hc ⊢
  simp only at hc ⊢
  rw [lookup_filter_ne] at hc
  rw [lookup_set]
  by_cases hk : k' = k
  · rw [if_pos hk] at hc; exact absurd hc (by simp)
  · rw [if_neg hk] at hc; rw [if_neg hk]; exact h k' v' hc

theorem fetch_cases (d : Durable) (k : Bytes) :
    (∃ v, d.cache.lookup k = some v ∧ d.fetch k = (v, d)) ∨
    (∃ v, d.cache.lookup k = none ∧ d.db.lookup k = some v ∧ d.fetch k = (v, { d with cache := (k, v) :: d.cache })) ∨
    (d.cache.lookup k = none ∧ d.db.lookup k = none ∧ d.fetch k = (Val.zero, d)) := by
  unfold Durable.fetch
  cases h1 : d.cache.lookup k with
  | some v => exact Or.inl ⟨v, rfl, rfl⟩
  | none =>
    cases h2 : d.db.lookup k with
    | some v => exact Or.inr (Or.inl ⟨v, rfl, rfl, rfl⟩)
    | none => exact Or.inr (Or.inr ⟨rfl, rfl, rfl⟩)

theorem coherent_fetch (d : Durable) (k : Bytes) (h : d.coherent) : (d.fetch k).2.coherent := by
  rcases fetch_cases d k with ⟨v, _, hf⟩ | ⟨v, _, hdb, hf⟩ | ⟨_, _, hf⟩
  · rw [hf]; exact h
  · rw [hf]
    intro k' v' hc
    simp only at hc ⊢
    rw [lookup_cons_eq] at hc
    by_cases hk : k' = k
    · rw [if_pos hk] at hc; rw [hk, hdb]; exact hc
    · rw [if_neg hk] at hc; exact h k' v' hc
  · rw [hf]; exact h

theorem coherent_add (d : Durable) (k : Bytes) (now : Int) (p : Bytes) (h : d.coherent) : (d.add k now p).coherent := by
  unfold Durable.add
  simp only
  split
  · exact coherent_store _ _ _ h
  · exact h
theorem coherent_del (d : Durable) (k : Bytes) (now : Int) (h : d.coherent) : (d.del k now).coherent := by
  unfold Durable.del
  simp only
  split
  · exact coherent_store _ _ _ h
  · exact h

theorem durable_mergeOne_cases (d : Durable) (k : Bytes) (rt : Val) :
    ((mDelta (get d.db k) rt).isZero = true ∧ d.mergeOne k rt = (d, none)) ∨
    ((mDelta (get d.db k) rt).isZero ≠ true ∧
      d.mergeOne k rt = (d.store k (mNew (get d.db k) rt), some (mDelta (get d.db k) rt))) := by
  unfold Durable.mergeOne
  simp only
  rw [mergeOne_def]
  by_cases hz : (mDelta (get d.db k) rt).isZero = true
  · left; rw [if_pos hz]; exact ⟨hz, rfl⟩
  · right; rw [if_neg hz]; simp only [get_set, if_true]; exact ⟨hz, trivial⟩

theorem durable_merge_cons (d : Durable) (k : Bytes) (rt : Val) (rest : Map) :
    d.merge ((k, rt) :: rest) =
      (((d.mergeOne k rt).1.merge rest).1,
        match (d.mergeOne k rt).2 with
        | some v => (k, v) :: ((d.mergeOne k rt).1.merge rest).2
        | none => ((d.mergeOne k rt).1.merge rest).2) := rfl

theorem coherent_mergeOne (d : Durable) (k : Bytes) (rt : Val) (h : d.coherent) : (d.mergeOne k rt).1.coherent := by
  rcases durable_mergeOne_cases d k rt with ⟨_, he⟩ | ⟨_, he⟩
  · rw [he]; exact h
  · rw [he]; exact coherent_store _ _ _ h

theorem coherent_merge (d : Durable) (r : Map) (h : d.coherent) : (d.merge r).1.coherent := by
  induction r generalizing d with
  | nil => exact h
  | cons e rest ih =>
    obtain ⟨k0, rt⟩ := e
    rw [durable_merge_cons]
    exact ih _ (coherent_mergeOne d k0 rt h)

/-- with a coherent cache, `Has` answers from the stored value -/
theorem durable_has_truth (d : Durable) (k : Bytes) (h : d.coherent) :
    (d.has k).1 = (get d.db k).isAdded ∧ (d.has k).2.db = d.db := by
  have hh : d.has k = ((d.fetch k).1.isAdded, (d.fetch k).2) := rfl
  rw [hh]
  simp only
  unfold get
  rcases fetch_cases d k with ⟨v, hc, hf⟩ | ⟨v, _, hdb, hf⟩ | ⟨_, hdb, hf⟩
  · rw [hf, h k v hc]; exact ⟨rfl, rfl⟩
  · rw [hf, hdb]; exact ⟨rfl, rfl⟩
  · rw [hf, hdb]; exact ⟨rfl, rfl⟩

theorem durable_mergeOne_refines (d : Durable) (k : Bytes) (rt : Val) :
    (d.mergeOne k rt).1.db = (mergeOne d.db k rt).1 ∧ (d.mergeOne k rt).2 = (mergeOne d.db k rt).2 := by
  rw [mergeOne_def]
  rcases durable_mergeOne_cases d k rt with ⟨hz, he⟩ | ⟨hz, he⟩
  · rw [he, if_pos hz]; exact ⟨rfl, rfl⟩
  · rw [he, if_neg hz]; exact ⟨rfl, rfl⟩

theorem durable_merge_refines (d : Durable) (r : Map) :
    (d.merge r).1.db = (merge d.db r).1 ∧ (d.merge r).2 = (merge d.db r).2 := by
  induction r generalizing d with
  | nil => exact ⟨rfl, rfl⟩
  | cons e rest ih =>
    obtain ⟨k0, rt⟩ := e
    rw [durable_merge_cons, merge_cons]
    have h1 := durable_mergeOne_refines d k0 rt
    have h2 := ih (d.mergeOne k0 rt).1
    simp only
    rw [h2.1, h2.2, h1.1, h1.2]
    exact ⟨rfl, rfl⟩

/-- the durable backend stores exactly what the volatile map would hold -/
theorem durable_refines (d : Durable) (k : Bytes) (now : Int) (p : Bytes) (r : Map) :
    (d.add k now p).db = add d.db k now p ∧ (d.del k now).db = del d.db k now ∧
    (d.merge r).1.db = (merge d.db r).1 ∧ (d.merge r).2 = (merge d.db r).2 := by
  refine ⟨?_, ?_, durable_merge_refines d r⟩
  · unfold Durable.add add
    simp only
    split <;> rfl
  · unfold Durable.del del
    simp only
    split <;> rfl
end Emitter.Lww
