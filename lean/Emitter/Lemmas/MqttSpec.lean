/-
  Lemmas relating the model of mqtt.go (`Emitter/Model/Mqtt.lean`) to the MQTT 3.1.1 specification
  (`Emitter/Spec/Mqtt.lean`). Re-exported by Emitter/Props/C16.lean: `encode_conforms`,
  `decode_conforms`, `spec_roundtrip`, `spec_packet_roundtrip`, `decode_standard_packet`,
  `remaining_length_conforms`, `remaining_length_parse`; everything else is a helper.
-/
import Emitter.Lemmas.Mqtt
import Emitter.Spec.Mqtt
namespace Emitter.MqttSpec
open Emitter Emitter.Mqtt
open Emitter.Spec.Mqtt hiding connectFlags connectBody strOk encode decode

/-! ## bytes, 16-bit integers, strings -/

theorem ofNat_mod256 (n : Nat) : UInt8.ofNat (n % 256) = UInt8.ofNat n := by
  apply UInt8.toNat.inj
  simp [UInt8.toNat_ofNat']

theorem encU16_eq (x : UInt16) : encU16 x = putBe16 x := by
  simp [encU16, putBe16, ofNat_mod256]

theorem encStr_eq (v : Bytes) : encStr v = writeString v := by
  simp [encStr, writeString, encU16_eq]

theorem u16_enc (x : UInt16) (r : Bytes) : u16 (encU16 x ++ r) = some (x, r) := by
  have := x.toNat_lt
  simp only [encU16, List.cons_append, List.nil_append, u16]
  congr 2
  apply UInt16.toNat.inj
  simp [UInt16.toNat_ofNat', UInt8.toNat_ofNat']
  omega

theorem u16_enc' (x : UInt16) : u16 (encU16 x) = some (x, []) := by
  simpa using u16_enc x []

theorem str_enc (v r : Bytes) (h : v.length ≤ 65535) : str (encStr v ++ r) = some (v, r) := by
  have hl : (UInt16.ofNat v.length).toNat = v.length := by
    simp [UInt16.toNat_ofNat']; omega
  simp only [str, encStr, List.append_assoc, u16_enc, hl]
  simp

theorem str_enc' (v : Bytes) (h : v.length ≤ 65535) : str (encStr v) = some (v, []) := by
  simpa using str_enc v [] h

theorem encStr_length (v : Bytes) : (encStr v).length = 2 + v.length := by
  simp [encStr, encU16]; omega

/-! ## 2.2.3 Remaining Length -/

theorem encRemainingLength_eq (n : Nat) (h : n < 268435456) : encRemainingLength n = some (encLen n) := by
  unfold encRemainingLength encLen
  by_cases h1 : n < 128
  · have : n ≤ 127 := by omega
    simp [encLenF, h1, this]
  · have g1 : ¬ n ≤ 127 := by omega
    by_cases h2 : n < 16384
    · have a1 : n / 128 < 128 := by omega
      have g2 : n ≤ 16383 := by omega
      simp only [encLenF, h1, g1, g2, a1, if_true, if_false, Nat.add_comm]
    · have g2 : ¬ n ≤ 16383 := by omega
      have a1 : ¬ n / 128 < 128 := by omega
      by_cases h3 : n < 2097152
      · have a2 : n / 128 / 128 < 128 := by omega
        have g3 : n ≤ 2097151 := by omega
        have e : n / 16384 = n / 128 / 128 := by omega
        simp only [encLenF, h1, g1, g2, g3, a1, a2, if_true, if_false, Nat.add_comm, e]
      · have a2 : ¬ n / 128 / 128 < 128 := by omega
        have a3 : n / 128 / 128 / 128 < 128 := by omega
        have g3 : ¬ n ≤ 2097151 := by omega
        have g4 : n ≤ 268435455 := by omega
        have e : n / 16384 = n / 128 / 128 := by omega
        have e' : n / 2097152 = n / 128 / 128 / 128 := by omega
        simp only [encLenF, h1, g1, g2, g3, g4, a1, a2, a3, if_true, if_false, Nat.add_comm, e, e']

theorem encRemainingLength_none (n : Nat) (h : 268435456 ≤ n) : encRemainingLength n = none := by
  unfold encRemainingLength
  have g1 : ¬ n ≤ 127 := by omega
  have g2 : ¬ n ≤ 16383 := by omega
  have g3 : ¬ n ≤ 2097151 := by omega
  have g4 : ¬ n ≤ 268435455 := by omega
  simp [g1, g2, g3, g4]

theorem encRemainingLength_some {n : Nat} {l : Bytes} (h : encRemainingLength n = some l) :
    n < 268435456 ∧ l = encLen n := by
  by_cases hn : n < 268435456
  · rw [encRemainingLength_eq n hn] at h
    exact ⟨hn, by simpa using h.symm⟩
  · rw [encRemainingLength_none n (by omega)] at h
    cases h

theorem rl_last (k : Nat) (b : UInt8) (r : Bytes) (h : b.toNat < 128) :
    remainingLength (k + 1) (b :: r) = some (b.toNat, r) := by
  simp [remainingLength, h]

theorem rl_cont (k : Nat) (b : UInt8) (r : Bytes) (h : ¬ b.toNat < 128) :
    remainingLength (k + 1) (b :: r) =
      match remainingLength k r with
      | some (v, r') => some (b.toNat - 128 + 128 * v, r')
      | none => none := by
  simp only [remainingLength, h, if_false]
  cases remainingLength k r with
  | none => rfl
  | some x => rfl

theorem remainingLength_enc (n : Nat) (l r : Bytes) (h : encRemainingLength n = some l) :
    remainingLength 4 (l ++ r) = some (n, r) := by
  unfold encRemainingLength at h
  by_cases g1 : n ≤ 127
  · simp only [g1, if_true, Option.some.injEq] at h
    subst h
    have : (UInt8.ofNat n).toNat = n := by simp [UInt8.toNat_ofNat']; omega
    rw [List.cons_append, rl_last _ _ _ (by omega), this]; rfl
  · by_cases g2 : n ≤ 16383
    · simp only [g1, g2, if_true, if_false, Option.some.injEq] at h
      subst h
      have t0 : (UInt8.ofNat (128 + n % 128)).toNat = 128 + n % 128 := by simp [UInt8.toNat_ofNat']; omega
      have t1 : (UInt8.ofNat (n / 128)).toNat = n / 128 := by simp [UInt8.toNat_ofNat']; omega
      simp only [List.cons_append, List.nil_append]
      rw [rl_cont _ _ _ (by omega), rl_last _ _ _ (by omega), t0, t1]
      simp only [Option.some.injEq, Prod.mk.injEq, and_true]
      omega
    · by_cases g3 : n ≤ 2097151
      · simp only [g1, g2, g3, if_true, if_false, Option.some.injEq] at h
        subst h
        have t0 : (UInt8.ofNat (128 + n % 128)).toNat = 128 + n % 128 := by simp [UInt8.toNat_ofNat']; omega
        have t1 : (UInt8.ofNat (128 + n / 128 % 128)).toNat = 128 + n / 128 % 128 := by
          simp [UInt8.toNat_ofNat']; omega
        have t2 : (UInt8.ofNat (n / 16384)).toNat = n / 16384 := by simp [UInt8.toNat_ofNat']; omega
        simp only [List.cons_append, List.nil_append]
        rw [rl_cont _ _ _ (by omega), rl_cont _ _ _ (by omega), rl_last _ _ _ (by omega), t0, t1, t2]
        simp only [Option.some.injEq, Prod.mk.injEq, and_true]
        omega
      · by_cases g4 : n ≤ 268435455
        · simp only [g1, g2, g3, g4, if_true, if_false, Option.some.injEq] at h
          subst h
          have t0 : (UInt8.ofNat (128 + n % 128)).toNat = 128 + n % 128 := by simp [UInt8.toNat_ofNat']; omega
          have t1 : (UInt8.ofNat (128 + n / 128 % 128)).toNat = 128 + n / 128 % 128 := by
            simp [UInt8.toNat_ofNat']; omega
          have t2 : (UInt8.ofNat (128 + n / 16384 % 128)).toNat = 128 + n / 16384 % 128 := by
            simp [UInt8.toNat_ofNat']; omega
          have t3 : (UInt8.ofNat (n / 2097152)).toNat = n / 2097152 := by simp [UInt8.toNat_ofNat']; omega
          simp only [List.cons_append, List.nil_append]
          rw [rl_cont _ _ _ (by omega), rl_cont _ _ _ (by omega), rl_cont _ _ _ (by omega),
              rl_last _ _ _ (by omega), t0, t1, t2, t3]
          simp only [Option.some.injEq, Prod.mk.injEq, and_true]
          omega
        · simp [g1, g2, g3, g4] at h

/-- the length loop of `decodeHeader` computes the same value as the standard's reader on every length
field the standard accepts (one to four bytes, minimal or not), for any multiplier / accumulator -/
theorem decodeLen_of_remainingLength : ∀ (k : Nat) (r r' : Bytes) (n : Nat) (mult len : UInt32),
    remainingLength k r = some (n, r') → decodeLen r mult len = .ok (len + UInt32.ofNat n * mult, r') := by
  intro k
  induction k with
  | zero => intro r r' n mult len h; simp [remainingLength] at h
  | succ k ih =>
    intro r r' n mult len h
    cases r with
    | nil => simp [remainingLength] at h
    | cons b r =>
      by_cases hb : b.toNat < 128
      · rw [rl_last k b r hb] at h
        simp only [Option.some.injEq, Prod.mk.injEq] at h
        obtain ⟨rfl, rfl⟩ := h
        exact decodeLen_last b r mult len hb
      · rw [rl_cont k b r hb] at h
        cases hr : remainingLength k r with
        | none => simp [hr] at h
        | some x =>
          obtain ⟨v, r''⟩ := x
          simp only [hr, Option.some.injEq, Prod.mk.injEq] at h
          obtain ⟨rfl, rfl⟩ := h
          rw [decodeLen_cont b r mult len (by omega), ih r r'' v _ _ hr]
          congr 2
          have e : b.toNat - 128 + 128 * v = b.toNat % 128 + 128 * v := by have := b.toNat_lt; omega
          have e2 : UInt32.ofNat (b.toNat % 128 + 128 * v) = UInt32.ofNat (b.toNat % 128) + 128 * UInt32.ofNat v := by
            rw [UInt32.ofNat_add, UInt32.ofNat_mul]; rfl
          rw [e, e2, UInt32.add_mul, ← UInt32.add_assoc]
          congr 1
          rw [UInt32.mul_comm mult 128, ← UInt32.mul_assoc, UInt32.mul_comm (UInt32.ofNat v) 128]

/-! ## 2.2 Fixed header, byte 1 -/

theorem firstByte_spec_fin : ∀ (i : Fin 16) (j : Fin 4) (d r : Bool),
    firstByte (UInt8.ofNat i.val) ⟨d, UInt8.ofNat j.val, r⟩ =
      UInt8.ofNat (16 * i.val + (8 * bit d + 2 * j.val + bit r)) := by
  decide

theorem firstByte_spec (ty : UInt8) (h : Header) (hty : ty.toNat < 16) (hq : h.qos.toNat < 4) :
    firstByte ty h = UInt8.ofNat (16 * ty.toNat + (8 * bit h.dup + 2 * h.qos.toNat + bit h.retain)) := by
  have := firstByte_spec_fin ⟨ty.toNat, hty⟩ ⟨h.qos.toNat, hq⟩ h.dup h.retain
  simpa only [UInt8.ofNat_toNat] using this

theorem byte1_split (t f : Nat) (ht : t < 16) (hf : f < 16) :
    (UInt8.ofNat (16 * t + f)).toNat / 16 = t ∧ (UInt8.ofNat (16 * t + f)).toNat % 16 = f := by
  simp only [UInt8.toNat_ofNat']
  omega

theorem bit_le (b : Bool) : bit b ≤ 1 := by cases b <;> simp [bit]

theorem publishFlags_bits (d r : Bool) (q : Nat) (hq : q < 4) :
    (8 * bit d + 2 * q + bit r) < 16 ∧
    (decide ((8 * bit d + 2 * q + bit r) / 8 % 2 = 1) = d) ∧ (8 * bit d + 2 * q + bit r) / 2 % 4 = q ∧
    (decide ((8 * bit d + 2 * q + bit r) % 2 = 1) = r) := by
  cases d <;> cases r <;> simp [bit] <;> omega

/-! ## 3.1.2.3 Connect Flags -/

theorem flag_bits (u p wr w cs : Bool) (q : Nat) (hq : q < 4) :
    (128 * bit u + 64 * bit p + 32 * bit wr + 8 * q + 4 * bit w + 2 * bit cs) < 256 ∧
    (128 * bit u + 64 * bit p + 32 * bit wr + 8 * q + 4 * bit w + 2 * bit cs) % 2 = 0 ∧
    (decide ((128 * bit u + 64 * bit p + 32 * bit wr + 8 * q + 4 * bit w + 2 * bit cs) / 128 % 2 = 1) = u) ∧
    (decide ((128 * bit u + 64 * bit p + 32 * bit wr + 8 * q + 4 * bit w + 2 * bit cs) / 64 % 2 = 1) = p) ∧
    (decide ((128 * bit u + 64 * bit p + 32 * bit wr + 8 * q + 4 * bit w + 2 * bit cs) / 32 % 2 = 1) = wr) ∧
    (128 * bit u + 64 * bit p + 32 * bit wr + 8 * q + 4 * bit w + 2 * bit cs) / 8 % 4 = q ∧
    (decide ((128 * bit u + 64 * bit p + 32 * bit wr + 8 * q + 4 * bit w + 2 * bit cs) / 4 % 2 = 1) = w) ∧
    (decide ((128 * bit u + 64 * bit p + 32 * bit wr + 8 * q + 4 * bit w + 2 * bit cs) / 2 % 2 = 1) = cs) := by
  cases u <;> cases p <;> cases wr <;> cases w <;> cases cs <;> simp [bit] <;> omega

/-! ## 3.1 CONNECT: the spec parser inverts the spec layout -/

theorem strOk_le {s : Bytes} (h : Spec.Mqtt.strOk s = true) : s.length ≤ 65535 := by
  simpa [Spec.Mqtt.strOk] using h

theorem qosOk_le {q : UInt8} (h : qosOk q = true) : q.toNat ≤ 2 := by
  simpa [qosOk] using h

/-- the Connect Flags byte as a number, in the shape of `flag_bits` -/
theorem connectFlags_toNat (c : Spec.Mqtt.Connect) (hq : ∀ w, c.will = some w → w.qos.toNat < 4) :
    (Spec.Mqtt.connectFlags c).toNat =
      128 * bit c.userName.isSome + 64 * bit c.password.isSome +
      32 * bit (match c.will with | some w => w.retain | none => false) +
      8 * (match c.will with | some w => w.qos.toNat | none => 0) +
      4 * bit c.will.isSome + 2 * bit c.cleanSession := by
  unfold Spec.Mqtt.connectFlags
  rw [UInt8.toNat_ofNat']
  cases hw : c.will with
  | none =>
    have := flag_bits c.userName.isSome c.password.isSome false false c.cleanSession 0 (by omega)
    simp only [bit] at this ⊢
    simp at this ⊢
    omega
  | some w =>
    have := flag_bits c.userName.isSome c.password.isSome w.retain true c.cleanSession w.qos.toNat (hq w hw)
    simp only [bit] at this ⊢
    simp at this ⊢
    omega



theorem connectFlags_bits (c : Spec.Mqtt.Connect) (hq : ∀ w, c.will = some w → w.qos.toNat < 4) :
    (Spec.Mqtt.connectFlags c).toNat % 2 = 0 ∧
    decide ((Spec.Mqtt.connectFlags c).toNat / 128 % 2 = 1) = c.userName.isSome ∧
    decide ((Spec.Mqtt.connectFlags c).toNat / 64 % 2 = 1) = c.password.isSome ∧
    decide ((Spec.Mqtt.connectFlags c).toNat / 32 % 2 = 1) = (match c.will with | some w => w.retain | none => false) ∧
    (Spec.Mqtt.connectFlags c).toNat / 8 % 4 = (match c.will with | some w => w.qos.toNat | none => 0) ∧
    decide ((Spec.Mqtt.connectFlags c).toNat / 4 % 2 = 1) = c.will.isSome ∧
    decide ((Spec.Mqtt.connectFlags c).toNat / 2 % 2 = 1) = c.cleanSession := by
  rw [connectFlags_toNat c hq]
  refine (flag_bits _ _ _ _ _ _ ?_).2
  cases hw : c.will with
  | none => simp
  | some w => exact hq w hw

theorem parseConnect_body (c : Spec.Mqtt.Connect) (hv : c.valid = true) :
    parseConnect (Spec.Mqtt.connectBody c) = some c := by
  have hq : ∀ w, c.will = some w → w.qos.toNat < 4 := by
    intro w hw
    simp only [Connect.valid, hw, Bool.and_eq_true] at hv
    have := qosOk_le hv.1.1.1.2.2
    omega
  obtain ⟨f0, f1, f2, f3, f4, f5, f6⟩ := connectFlags_bits c hq
  obtain ⟨name, level, cs, will, user, pass, ka, cid⟩ := c
  simp only [Connect.valid, Bool.and_eq_true, Bool.or_eq_true, Bool.not_eq_true'] at hv
  obtain ⟨⟨⟨⟨⟨h1, h2⟩, hw⟩, hu⟩, hp⟩, hup⟩ := hv
  have h1 := strOk_le h1
  have h2 := strOk_le h2
  cases will with
  | none =>
    cases user <;> cases pass <;> simp_all [parseConnect, Spec.Mqtt.connectBody, str_enc, str_enc', u8, u16_enc, optStr, encOptStr, optStrOk, Spec.Mqtt.strOk]
  | some w =>
    obtain ⟨wt, wm, wq, wr⟩ := w
    simp only [Bool.and_eq_true] at hw
    obtain ⟨⟨hw1, hw2⟩, hw3⟩ := hw
    have hw1 := strOk_le hw1
    have hw2 := strOk_le hw2
    cases user <;> cases pass <;> simp_all [parseConnect, Spec.Mqtt.connectBody, str_enc, str_enc', u8, u16_enc, optStr, encOptStr, optStrOk, Spec.Mqtt.strOk]

/-! ## 3.8.3 / 3.10.3 payloads -/

theorem subscribePayload_length_ge (fs : List (Bytes × UInt8)) : fs.length ≤ (subscribePayload fs).length := by
  induction fs with
  | nil => simp
  | cons f l ih => obtain ⟨t, q⟩ := f; simp [subscribePayload, encStr_length]; omega

theorem unsubscribePayload_length_ge (fs : List Bytes) : fs.length ≤ (unsubscribePayload fs).length := by
  induction fs with
  | nil => simp
  | cons f l ih => simp [unsubscribePayload, encStr_length]; omega

theorem parseSubscribePayload_enc (fs : List (Bytes × UInt8)) :
    ∀ fuel, fs.length ≤ fuel → (∀ f ∈ fs, f.1.length ≤ 65535) →
      parseSubscribePayload fuel (subscribePayload fs) = some fs := by
  induction fs with
  | nil => intro fuel _ _; cases fuel <;> simp [parseSubscribePayload, subscribePayload]
  | cons f l ih =>
    intro fuel hf hs
    obtain ⟨t, q⟩ := f
    cases fuel with
    | zero => simp at hf
    | succ k =>
      have ht : t.length ≤ 65535 := hs (t, q) (by simp)
      have := ih k (by simpa using hf) (fun x hx => hs x (by simp [hx]))
      have ne : (encStr t ++ q :: subscribePayload l).isEmpty = false := by simp [encStr, encU16]
      simp [parseSubscribePayload, subscribePayload, str_enc _ _ ht, this, ne]

theorem parseUnsubscribePayload_enc (fs : List Bytes) :
    ∀ fuel, fs.length ≤ fuel → (∀ f ∈ fs, f.length ≤ 65535) →
      parseUnsubscribePayload fuel (unsubscribePayload fs) = some fs := by
  induction fs with
  | nil => intro fuel _ _; cases fuel <;> simp [parseUnsubscribePayload, unsubscribePayload]
  | cons t l ih =>
    intro fuel hf hs
    cases fuel with
    | zero => simp at hf
    | succ k =>
      have ht : t.length ≤ 65535 := hs t (by simp)
      have := ih k (by simpa using hf) (fun x hx => hs x (by simp [hx]))
      have ne : (encStr t ++ unsubscribePayload l).isEmpty = false := by simp [encStr, encU16]
      simp [parseUnsubscribePayload, unsubscribePayload, str_enc _ _ ht, this, ne]

/-! ## every packet type: `parseBody` inverts `body` -/

theorem parseIdOnly_enc (id : UInt16) (k : UInt16 → ControlPacket) : parseIdOnly (encU16 id) k = some (k id) := by
  simp [parseIdOnly, u16_enc']

theorem ofNat_toNat_of_eq {q : UInt8} {n : Nat} (h : q.toNat = n) : UInt8.ofNat n = q := by
  rw [← h]; simp

theorem parseBody_publish (dup : Bool) (qos : UInt8) (retain : Bool) (topic : Bytes) (id : Option UInt16)
    (payload : Bytes) (hv : valid (.publish dup qos retain topic id payload) = true) :
    parseBody 3 (flagBits (.publish dup qos retain topic id payload)) (body (.publish dup qos retain topic id payload))
      = some (.publish dup qos retain topic id payload) := by
  simp only [valid, Bool.and_eq_true, Bool.or_eq_true, decide_eq_true_eq, Bool.not_eq_true'] at hv
  obtain ⟨⟨⟨hq, ht⟩, hd⟩, hid⟩ := hv
  have hq := qosOk_le hq
  have ht := strOk_le ht
  obtain ⟨_, b1, b2, b3⟩ := publishFlags_bits dup retain qos.toNat (by omega)
  cases id with
  | none =>
    have hz : qos.toNat = 0 := by simpa using hid
    have hq0 : qos = 0 := by apply UInt8.toNat.inj; simpa using hz
    subst hq0
    obtain ⟨_, c1, c2, c3⟩ := publishFlags_bits dup retain 0 (by omega)
    simp only [Nat.mul_zero, Nat.add_zero] at c1 c2 c3
    simp [parseBody, flagBits, body, str_enc _ _ ht, c1, c2, c3]
  | some i =>
    have hnz : qos.toNat ≠ 0 := by simp at hid; exact hid.1
    simp [parseBody, flagBits, body, str_enc _ _ ht, b2, hnz, u16_enc]
    exact ⟨b1, b3⟩

theorem parseBody_body (p : ControlPacket) (hv : valid p = true) : parseBody (typeOf p) (flagBits p) (body p) = some p := by
  cases p with
  | connect c =>
    simp only [valid] at hv
    simp [parseBody, typeOf, flagBits, body, parseConnect_body c hv]
  | connack sp rc => cases sp <;> simp [parseBody, typeOf, flagBits, body, bit]
  | publish dup qos retain topic id payload => exact parseBody_publish dup qos retain topic id payload hv
  | puback id => simp [parseBody, typeOf, flagBits, body, parseIdOnly_enc]
  | pubrec id => simp [parseBody, typeOf, flagBits, body, parseIdOnly_enc]
  | pubrel id => simp [parseBody, typeOf, flagBits, body, parseIdOnly_enc]
  | pubcomp id => simp [parseBody, typeOf, flagBits, body, parseIdOnly_enc]
  | unsuback id => simp [parseBody, typeOf, flagBits, body, parseIdOnly_enc]
  | subscribe id fs =>
    simp only [valid, Bool.and_eq_true, List.all_eq_true] at hv
    have hs : ∀ f ∈ fs, f.1.length ≤ 65535 := fun f hf => strOk_le (hv.2 f hf).1
    have := parseSubscribePayload_enc fs (subscribePayload fs).length (subscribePayload_length_ge fs) hs
    simp [parseBody, typeOf, flagBits, body, u16_enc, this]
  | suback id rcs => simp [parseBody, typeOf, flagBits, body, u16_enc]
  | unsubscribe id fs =>
    simp only [valid, Bool.and_eq_true, List.all_eq_true] at hv
    have hs : ∀ f ∈ fs, f.length ≤ 65535 := fun f hf => strOk_le (hv.2 f hf)
    have := parseUnsubscribePayload_enc fs (unsubscribePayload fs).length (unsubscribePayload_length_ge fs) hs
    simp [parseBody, typeOf, flagBits, body, u16_enc, this]
  | pingreq => simp [parseBody, typeOf, flagBits, body]
  | pingresp => simp [parseBody, typeOf, flagBits, body]
  | disconnect => simp [parseBody, typeOf, flagBits, body]

theorem typeOf_lt (p : ControlPacket) : typeOf p < 16 := by cases p <;> simp [typeOf]

theorem flagsOf_lt (p : ControlPacket) (hv : valid p = true) : flagBits p < 16 := by
  cases p with
  | publish dup qos retain topic id payload =>
    simp only [valid, Bool.and_eq_true] at hv
    have hq := qosOk_le hv.1.1.1
    exact (publishFlags_bits dup retain qos.toNat (by omega)).1
  | _ => simp [flagBits]

/-- the specification is consistent: its parser inverts its encoder on every valid packet -/
theorem decodePacket_encodePacket (p : ControlPacket) (bs rest : Bytes) (hv : valid p = true)
    (he : encodePacket p = some bs) : decodePacket (bs ++ rest) = some (p, rest) := by
  unfold encodePacket at he
  cases hl : encRemainingLength (body p).length with
  | none => simp [hl] at he
  | some l =>
    simp only [hl, Option.some.injEq] at he
    subst he
    obtain ⟨s1, s2⟩ := byte1_split (typeOf p) (flagBits p) (typeOf_lt p) (flagsOf_lt p hv)
    have hr := remainingLength_enc (body p).length l (body p ++ rest) hl
    simp only [decodePacket, List.cons_append, List.append_assoc, hr, s1, s2]
    simp [parseBody_body p hv, hv]

/-! ## the model's layout is the standard's layout -/

theorem connectFlags_spec_fin : ∀ (u p wr w cs : Bool) (j : Fin 4),
    Mqtt.flagsOf u p wr (UInt8.ofNat j.val) w cs =
      UInt8.ofNat (128 * bit u + 64 * bit p + 32 * bit wr + 8 * j.val + 4 * bit w + 2 * bit cs) := by
  decide

theorem connectFlags_spec (c : Mqtt.Connect) (hq : c.willQos.toNat < 4) :
    connectFlags c = UInt8.ofNat (128 * bit c.usernameFlag + 64 * bit c.passwordFlag + 32 * bit c.willRetain +
      8 * c.willQos.toNat + 4 * bit c.willFlag + 2 * bit c.cleanSession) := by
  have := connectFlags_spec_fin c.usernameFlag c.passwordFlag c.willRetain c.willFlag c.cleanSession ⟨c.willQos.toNat, hq⟩
  simp only [UInt8.ofNat_toNat] at this
  exact this

theorem u8_eq_zero {q : UInt8} (h : (q != 0) = false) : q.toNat = 0 := by
  have : q = 0 := by simpa using h
  simp [this]

theorem connectBody_spec (c : Mqtt.Connect) (sc : Spec.Mqtt.Connect) (h : ofModel (.connect c) = some (.connect sc))
    (hv : sc.valid = true) : Spec.Mqtt.connectBody sc = connectBody c := by
  obtain ⟨pn, ver, uf, pf, wr, wq, wf, cs, ka, cid, wt, wm, un, pw⟩ := c
  simp only [ofModel] at h
  split at h
  · cases h
  · rename_i hno
    simp only [Option.some.injEq, ControlPacket.connect.injEq] at h
    subst h
    have h0 : wf = false → wq.toNat = 0 ∧ wr = false := by
      intro e; subst e
      simp at hno
      exact ⟨u8_eq_zero (q := wq) (by simp [hno.1]), hno.2⟩
    have hq : wq.toNat < 4 := by
      cases wf
      · have := (h0 rfl).1; omega
      · simp only [Connect.valid, if_true, Bool.and_eq_true] at hv
        have := qosOk_le hv.1.1.1.2.2
        omega
    have hf := connectFlags_spec ⟨pn, ver, uf, pf, wr, wq, wf, cs, ka, cid, wt, wm, un, pw⟩ hq
    have hfl : Spec.Mqtt.connectFlags
        { protocolName := pn, protocolLevel := ver, cleanSession := cs,
          will := if wf = true then some ⟨wt, wm, wq, wr⟩ else none,
          userName := if uf = true then some un else none,
          password := if pf = true then some pw else none, keepAlive := ka, clientId := cid } =
        connectFlags ⟨pn, ver, uf, pf, wr, wq, wf, cs, ka, cid, wt, wm, un, pw⟩ := by
      rw [hf]; unfold Spec.Mqtt.connectFlags
      congr 1
      cases wf
      · obtain ⟨z1, z2⟩ := h0 rfl
        subst z2
        cases uf <;> cases pf <;> simp [bit, z1]
      · cases uf <;> cases pf <;> simp [bit] <;> omega
    simp only [connectBody, Spec.Mqtt.connectBody, hfl, encStr_eq, encU16_eq]
    cases wf <;> cases uf <;> cases pf <;> simp [encOptStr, encStr_eq]


theorem subsBody_spec (subs : List TopicQos) :
    subscribePayload (subs.map (fun t => (t.topic, t.qos))) = subsBody subs := by
  induction subs with
  | nil => rfl
  | cons t ts ih => simp [subscribePayload, subsBody, ih, encStr_eq]

theorem topicsBody_spec (ts : List TopicQos) :
    unsubscribePayload (ts.map (fun t => t.topic)) = topicsBody ts := by
  induction ts with
  | nil => rfl
  | cons t ts ih => simp [unsubscribePayload, topicsBody, ih, encStr_eq]

theorem u8_pos_iff (q : UInt8) : (q > 0) ↔ q.toNat ≠ 0 := by
  rw [gt_iff_lt, UInt8.lt_iff_toNat_lt]
  simp; omega

/-- header + Remaining Length + body: the model's `wire` is the standard's frame -/
theorem wire_spec {sp : ControlPacket} {bs : Bytes} (he : encodePacket sp = some bs)
    (ty : UInt8) (h : Header) (bd : Bytes)
    (hty : ty.toNat = typeOf sp) (hq : h.qos.toNat < 4)
    (hfl : 8 * bit h.dup + 2 * h.qos.toNat + bit h.retain = flagBits sp)
    (hb : body sp = bd) : wire ty h bd = bs := by
  unfold encodePacket at he
  cases hl : encRemainingLength (body sp).length with
  | none => simp [hl] at he
  | some l =>
    simp only [hl, Option.some.injEq] at he
    obtain ⟨_, rfl⟩ := encRemainingLength_some hl
    have ht := typeOf_lt sp
    rw [← he, ← hb, ← hty, ← hfl]
    unfold wire
    rw [firstByte_spec ty h (by omega) hq]

theorem noHeader_flags : 8 * bit noHeader.dup + 2 * noHeader.qos.toNat + bit noHeader.retain = 0 := by decide

theorem reservedHeader_flags :
    8 * bit reservedHeader.dup + 2 * reservedHeader.qos.toNat + bit reservedHeader.retain = 2 := by decide

theorem tyNat :
    tyConnect.toNat = 1 ∧ tyConnack.toNat = 2 ∧ tyPublish.toNat = 3 ∧ tyPuback.toNat = 4 ∧ tyPubrec.toNat = 5 ∧
    tyPubrel.toNat = 6 ∧ tyPubcomp.toNat = 7 ∧ tySubscribe.toNat = 8 ∧ tySuback.toNat = 9 ∧
    tyUnsubscribe.toNat = 10 ∧ tyUnsuback.toNat = 11 := by decide

/-- variable header and payload: what `EncodeTo` assembles behind the header is what the standard
prescribes for the packet the Go value denotes -/
theorem body_spec (p : Packet) (sp : ControlPacket) (hm : ofModel p = some sp) (hv : valid sp = true) :
    body sp = (parts p).2.2 := by
  cases p with
  | connect c =>
    have hm' := hm
    simp only [ofModel] at hm
    split at hm
    · cases hm
    · simp only [Option.some.injEq] at hm
      subst hm
      exact connectBody_spec c _ hm' hv
  | connack rc => simp only [ofModel, Option.some.injEq] at hm; subst hm; rfl
  | publish h topic mid payload =>
    simp only [ofModel, Option.some.injEq] at hm; subst hm
    by_cases hz : h.qos.toNat = 0
    · have : ¬ h.qos > 0 := by rw [u8_pos_iff]; omega
      simp [body, parts, hz, this, encStr_eq]
    · have : h.qos > 0 := by rw [u8_pos_iff]; exact hz
      simp [body, parts, hz, this, encStr_eq, encU16_eq]
  | puback mid => simp only [ofModel, Option.some.injEq] at hm; subst hm; exact encU16_eq mid
  | pubrec mid => simp only [ofModel, Option.some.injEq] at hm; subst hm; exact encU16_eq mid
  | pubcomp mid => simp only [ofModel, Option.some.injEq] at hm; subst hm; exact encU16_eq mid
  | unsuback mid => simp only [ofModel, Option.some.injEq] at hm; subst hm; exact encU16_eq mid
  | pubrel h mid =>
    simp only [ofModel] at hm
    split at hm
    · simp only [Option.some.injEq] at hm; subst hm; exact encU16_eq mid
    · cases hm
  | subscribe h mid subs =>
    simp only [ofModel] at hm
    split at hm
    · simp only [Option.some.injEq] at hm; subst hm
      simp [body, parts, subsBody_spec, encU16_eq]
    · cases hm
  | suback mid qos =>
    simp only [ofModel, Option.some.injEq] at hm; subst hm
    simp [body, parts, encU16_eq]
  | unsubscribe h mid ts =>
    simp only [ofModel] at hm
    split at hm
    · simp only [Option.some.injEq] at hm; subst hm
      simp [body, parts, topicsBody_spec, encU16_eq]
    · cases hm
  | pingreq => simp only [ofModel, Option.some.injEq] at hm; subst hm; rfl
  | pingresp => simp only [ofModel, Option.some.injEq] at hm; subst hm; rfl
  | disconnect => simp only [ofModel, Option.some.injEq] at hm; subst hm; rfl

/-- type code and flag nibble: what `writeHeader` puts into byte 1 is what the standard prescribes -/
theorem header_spec (p : Packet) (sp : ControlPacket) (hm : ofModel p = some sp) (hv : valid sp = true) :
    (parts p).1.toNat = typeOf sp ∧ (parts p).2.1.qos.toNat < 4 ∧
    8 * bit (parts p).2.1.dup + 2 * (parts p).2.1.qos.toNat + bit (parts p).2.1.retain = flagBits sp := by
  obtain ⟨t1, t2, t3, t4, t5, t6, t7, t8, t9, t10, t11⟩ := tyNat
  have nq : noHeader.qos.toNat < 4 := by decide
  have rq : reservedHeader.qos.toNat < 4 := by decide
  have nf := noHeader_flags
  have rf := reservedHeader_flags
  cases p with
  | connect c =>
    simp only [ofModel] at hm
    split at hm
    · cases hm
    · simp only [Option.some.injEq] at hm; subst hm; exact ⟨t1, nq, nf⟩
  | publish h topic mid payload =>
    simp only [ofModel, Option.some.injEq] at hm; subst hm
    simp only [valid, Bool.and_eq_true] at hv
    have hq := qosOk_le hv.1.1.1
    exact ⟨t3, by simp only [parts]; omega, rfl⟩
  | pubrel h mid =>
    simp only [ofModel] at hm
    split at hm
    · rename_i hh; subst hh; simp only [Option.some.injEq] at hm; subst hm; exact ⟨t6, rq, rf⟩
    · cases hm
  | subscribe h mid subs =>
    simp only [ofModel] at hm
    split at hm
    · rename_i hh; subst hh; simp only [Option.some.injEq] at hm; subst hm; exact ⟨t8, rq, rf⟩
    · cases hm
  | unsubscribe h mid ts =>
    simp only [ofModel] at hm
    split at hm
    · rename_i hh; subst hh; simp only [Option.some.injEq] at hm; subst hm; exact ⟨t10, rq, rf⟩
    · cases hm
  | connack rc => simp only [ofModel, Option.some.injEq] at hm; subst hm; exact ⟨t2, nq, nf⟩
  | puback mid => simp only [ofModel, Option.some.injEq] at hm; subst hm; exact ⟨t4, nq, nf⟩
  | pubrec mid => simp only [ofModel, Option.some.injEq] at hm; subst hm; exact ⟨t5, nq, nf⟩
  | pubcomp mid => simp only [ofModel, Option.some.injEq] at hm; subst hm; exact ⟨t7, nq, nf⟩
  | suback mid qos => simp only [ofModel, Option.some.injEq] at hm; subst hm; exact ⟨t9, nq, nf⟩
  | unsuback mid => simp only [ofModel, Option.some.injEq] at hm; subst hm; exact ⟨t11, nq, nf⟩
  | pingreq => simp only [ofModel, Option.some.injEq] at hm; subst hm; decide
  | pingresp => simp only [ofModel, Option.some.injEq] at hm; subst hm; decide
  | disconnect => simp only [ofModel, Option.some.injEq] at hm; subst hm; decide

/-- `EncodeTo` lays a packet out exactly as the standard prescribes for the packet it denotes -/
theorem encodeWire_spec (p : Packet) (sp : ControlPacket) (bs : Bytes) (hm : ofModel p = some sp)
    (hv : valid sp = true) (he : encodePacket sp = some bs) : encodeWire p = bs := by
  obtain ⟨h1, h2, h3⟩ := header_spec p sp hm hv
  have hw := wire_spec he (parts p).1 (parts p).2.1 (parts p).2.2 h1 h2 h3 (body_spec p sp hm hv)
  cases p with
  | pingreq =>
    simp only [ofModel, Option.some.injEq] at hm; subst hm
    have : encodePacket .pingreq = some [0xc0, 0] := by decide
    rw [this] at he; simpa [encodeWire] using he
  | pingresp =>
    simp only [ofModel, Option.some.injEq] at hm; subst hm
    have : encodePacket .pingresp = some [0xd0, 0] := by decide
    rw [this] at he; simpa [encodeWire] using he
  | disconnect =>
    simp only [ofModel, Option.some.injEq] at hm; subst hm
    have : encodePacket .disconnect = some [0xe0, 0] := by decide
    rw [this] at he; simpa [encodeWire] using he
  | _ => exact hw

/-! ## decoded normal form -/

theorem toModel_ofModel (p : Packet) (sp : ControlPacket) (hm : ofModel p = some sp) : toModel sp = normal p := by
  cases p with
  | connect c =>
    obtain ⟨pn, ver, uf, pf, wr, wq, wf, cs, ka, cid, wt, wm, un, pw⟩ := c
    simp only [ofModel] at hm
    split at hm
    · cases hm
    · rename_i hno
      simp only [Option.some.injEq] at hm; subst hm
      cases wf
      · simp at hno
        obtain ⟨z1, z2⟩ := hno
        subst z1 z2
        cases uf <;> cases pf <;> simp [toModel, normal]
      · cases uf <;> cases pf <;> simp [toModel, normal]
  | publish h topic mid payload =>
    simp only [ofModel, Option.some.injEq] at hm; subst hm
    by_cases hz : h.qos.toNat = 0
    · have : ¬ h.qos > 0 := by rw [u8_pos_iff]; omega
      simp [toModel, normal, hz, this]
    · have : h.qos > 0 := by rw [u8_pos_iff]; exact hz
      simp [toModel, normal, hz, this]
  | pubrel h mid =>
    simp only [ofModel] at hm
    split at hm
    · rename_i hh; subst hh; simp only [Option.some.injEq] at hm; subst hm; rfl
    · cases hm
  | subscribe h mid subs =>
    simp only [ofModel] at hm
    split at hm
    · rename_i hh; subst hh; simp only [Option.some.injEq] at hm; subst hm
      simp only [toModel, normal, List.map_map]
      congr 1
      exact List.map_id' _
    · cases hm
  | unsubscribe h mid ts =>
    simp only [ofModel] at hm
    split at hm
    · rename_i hh; subst hh; simp only [Option.some.injEq] at hm; subst hm
      simp [toModel, normal]
    · cases hm
  | connack rc => simp only [ofModel, Option.some.injEq] at hm; subst hm; rfl
  | puback mid => simp only [ofModel, Option.some.injEq] at hm; subst hm; rfl
  | pubrec mid => simp only [ofModel, Option.some.injEq] at hm; subst hm; rfl
  | pubcomp mid => simp only [ofModel, Option.some.injEq] at hm; subst hm; rfl
  | suback mid qos => simp only [ofModel, Option.some.injEq] at hm; subst hm; rfl
  | unsuback mid => simp only [ofModel, Option.some.injEq] at hm; subst hm; rfl
  | pingreq => simp only [ofModel, Option.some.injEq] at hm; subst hm; rfl
  | pingresp => simp only [ofModel, Option.some.injEq] at hm; subst hm; rfl
  | disconnect => simp only [ofModel, Option.some.injEq] at hm; subst hm; rfl

theorem ofModel_normal (p : Packet) : ofModel (normal p) = ofModel p := by
  cases p with
  | connect c =>
    obtain ⟨pn, ver, uf, pf, wr, wq, wf, cs, ka, cid, wt, wm, un, pw⟩ := c
    cases wf <;> cases uf <;> cases pf <;> simp [ofModel, normal]
  | publish h topic mid payload =>
    by_cases hz : h.qos.toNat = 0
    · simp [ofModel, normal, hz]
    · have : h.qos > 0 := by rw [u8_pos_iff]; exact hz
      simp [ofModel, normal, hz, this]
  | unsubscribe h mid ts =>
    have : ((fun t : TopicQos => t.topic) ∘ fun t : TopicQos => ({ topic := t.topic, qos := 0 } : TopicQos)) = (fun t : TopicQos => t.topic) := rfl
    simp [ofModel, normal, this]
  | _ => rfl

theorem normal_normal (p : Packet) : normal (normal p) = normal p := by
  cases p with
  | connect c =>
    obtain ⟨pn, ver, uf, pf, wr, wq, wf, cs, ka, cid, wt, wm, un, pw⟩ := c
    cases wf <;> cases uf <;> cases pf <;> simp [normal]
  | publish h topic mid payload =>
    by_cases hq : h.qos > 0 <;> simp [normal, hq]
  | unsubscribe h mid ts => simp [normal]
  | _ => rfl


theorem encodePacket_some_len {sp : ControlPacket} {bs : Bytes} (he : encodePacket sp = some bs) :
    (body sp).length < 268435456 := by
  unfold encodePacket at he
  cases hl : encRemainingLength (body sp).length with
  | none => simp [hl] at he
  | some l => exact (encRemainingLength_some hl).1

theorem mstrOk_of {s : Bytes} (h : Spec.Mqtt.strOk s = true) : Mqtt.strOk s = true := by
  have := strOk_le h
  simp [Mqtt.strOk]; omega

theorem topicsBody_map0 (ts : List TopicQos) :
    topicsBody (ts.map (fun t => { t with qos := 0 })) = topicsBody ts := by
  induction ts with
  | nil => rfl
  | cons t ts ih => simp [topicsBody, ih]

/-- a Go value that denotes a valid standard packet is well-formed in the sense of the model (in decoded
normal form; PUBLISH is treated separately because `wellFormed` reserves two bytes for a packet identifier
whether or not there is one) -/
theorem wellFormed_normal (p : Packet) (sp : ControlPacket) (bs : Bytes) (hm : ofModel p = some sp)
    (hv : valid sp = true) (he : encodePacket sp = some bs) (hnp : ∀ h t m pl, p ≠ .publish h t m pl) :
    wellFormed (normal p) = true := by
  have hlen := encodePacket_some_len he
  rw [body_spec p sp hm hv] at hlen
  cases p with
  | publish h t m pl => exact absurd rfl (hnp h t m pl)
  | connect c =>
    obtain ⟨pn, ver, uf, pf, wr, wq, wf, cs, ka, cid, wt, wm, un, pw⟩ := c
    simp only [ofModel] at hm
    split at hm
    · cases hm
    · rename_i hno
      simp only [Option.some.injEq] at hm; subst hm
      simp only [valid, Connect.valid, Bool.and_eq_true] at hv
      obtain ⟨⟨⟨⟨⟨h1, h2⟩, hw⟩, hu⟩, hp⟩, _⟩ := hv
      have e0 : Mqtt.strOk [] = true := by decide
      have a1 := mstrOk_of h1
      have a2 := mstrOk_of h2
      cases wf
      · simp at hno
        obtain ⟨z1, z2⟩ := hno
        subst z1
        cases uf <;> cases pf <;> simp_all [wellFormed, normal, optStrOk, mstrOk_of]
      · simp only [if_true, Bool.and_eq_true] at hw
        have b1 := mstrOk_of hw.1.1
        have b2 := mstrOk_of hw.1.2
        have b3 : wq < 4 := by
          have := qosOk_le hw.2
          rw [UInt8.lt_iff_toNat_lt]; simp; omega
        cases uf <;> cases pf <;> simp_all [wellFormed, normal, optStrOk, mstrOk_of]
  | pubrel h mid =>
    simp only [ofModel] at hm
    split at hm
    · rename_i hh; subst hh
      have hr : reservedHeader.ok = true := by decide
      simpa [wellFormed, normal] using hr
    · cases hm
  | subscribe h mid subs =>
    simp only [ofModel] at hm
    split at hm
    · rename_i hh; subst hh; simp only [Option.some.injEq] at hm; subst hm
      simp only [valid, Bool.and_eq_true, List.all_eq_true] at hv
      have hs : ∀ t ∈ subs, Mqtt.strOk t.topic = true := by
        intro t ht
        exact mstrOk_of (hv.2 (t.topic, t.qos) (List.mem_map.mpr ⟨t, ht, rfl⟩)).1
      have hr : reservedHeader.ok = true := by decide
      simp only [parts, List.length_append, putBe16_length] at hlen
      simp only [wellFormed, normal, hr, Bool.true_and, Bool.and_eq_true, List.all_eq_true, decide_eq_true_eq]
      exact ⟨hs, by omega⟩
    · cases hm
  | suback mid qos =>
    simp only [parts, List.length_append, putBe16_length] at hlen
    simp only [wellFormed, normal, decide_eq_true_eq]
    omega
  | unsubscribe h mid ts =>
    simp only [ofModel] at hm
    split at hm
    · rename_i hh; subst hh; simp only [Option.some.injEq] at hm; subst hm
      simp only [valid, Bool.and_eq_true, List.all_eq_true] at hv
      have hs : ∀ t ∈ ts, Mqtt.strOk t.topic = true := by
        intro t ht
        exact mstrOk_of (hv.2 t.topic (List.mem_map.mpr ⟨t, ht, rfl⟩))
      have hr : reservedHeader.ok = true := by decide
      simp only [parts, List.length_append, putBe16_length] at hlen
      simp only [wellFormed, normal, hr, Bool.true_and, Bool.and_eq_true, List.all_eq_true, decide_eq_true_eq,
        topicsBody_map0, List.mem_map, forall_exists_index, and_imp, forall_apply_eq_imp_iff₂]
      exact ⟨hs, by omega⟩
    · cases hm
  | _ => rfl

/-! ## the model decodes what the standard prescribes -/

theorem model_decode_spec (p : Packet) (sp : ControlPacket) (bs rest : Bytes) (max : Nat)
    (hm : ofModel p = some sp) (hv : valid sp = true) (he : encodePacket sp = some bs)
    (hmax : (body sp).length ≤ max) : Mqtt.decode (bs ++ rest) max = .ok (normal p, rest) := by
  have hlen := encodePacket_some_len he
  by_cases hp : ∃ h t m pl, p = .publish h t m pl
  · obtain ⟨h, t, m, pl, rfl⟩ := hp
    obtain ⟨e1, e2, e3, e4, e5, e6, e7, e8, e9, e10, e11, e12, e13, e14⟩ := tyCodes
    have hb := body_spec _ sp hm hv
    rw [← encodeWire_spec _ sp bs hm hv he]
    simp only [ofModel, Option.some.injEq] at hm; subst hm
    simp only [valid, Bool.and_eq_true] at hv
    have hq : h.qos < 4 := by
      have := qosOk_le hv.1.1.1
      rw [UInt8.lt_iff_toNat_lt]; simp; omega
    have ht : t.length < 65536 := by have := strOk_le hv.1.1.2; omega
    rw [hb] at hlen hmax
    refine decode_wire_ok tyPublish h _ rest max _ (by rw [e3]; decide) hq hlen
      (by rw [e3, e12, e13, e14]; decide) hmax ?_
    rw [show (if tyPublish == tyPublish || tyPublish == tySubscribe || tyPublish == tyUnsubscribe ||
          tyPublish == tyPubrel then h else noHeader) = h by simp]
    exact decodeBody_publish h t m pl ht
  · have hnp : ∀ h t m pl, p ≠ .publish h t m pl := fun h t m pl e => hp ⟨h, t, m, pl, e⟩
    have hm' : ofModel (normal p) = some sp := by rw [ofModel_normal]; exact hm
    have := decode_encodeWire (normal p) (wellFormed_normal p sp bs hm hv he hnp) rest max
      (by rw [← body_spec (normal p) sp hm' hv]; exact hmax)
    rw [normal_normal, encodeWire_spec (normal p) sp bs hm' hv he] at this
    exact this

/-! ## statements on the model's packet type (`Spec.Mqtt.encode`, `Spec.Mqtt.decode`) -/

theorem encode_some {p : Packet} {bs : Bytes} (h : Spec.Mqtt.encode p = some bs) :
    ∃ sp, ofModel p = some sp ∧ valid sp = true ∧ encodePacket sp = some bs := by
  unfold Spec.Mqtt.encode at h
  cases hm : ofModel p with
  | none => simp [hm] at h
  | some sp =>
    simp only [hm] at h
    by_cases hv : valid sp = true
    · simp only [hv, if_true] at h
      exact ⟨sp, rfl, hv, h⟩
    · simp [hv] at h

theorem encode_defined_iff (p : Packet) : (Spec.Mqtt.encode p).isSome = Spec.Mqtt.conforming p := by
  unfold Spec.Mqtt.encode Spec.Mqtt.conforming
  cases hm : ofModel p with
  | none => rfl
  | some sp =>
    simp only []
    by_cases hv : valid sp = true
    · simp only [hv, if_true, Bool.true_and]
      by_cases hl : (body sp).length ≤ 268435455
      · have := encRemainingLength_eq (body sp).length (by omega)
        simp [encodePacket, this, hl]
      · have := encRemainingLength_none (body sp).length (by omega)
        simp [encodePacket, this, hl]
    · simp [hv]

theorem encode_conforms (p : Packet) (bs : Bytes) (h : Spec.Mqtt.encode p = some bs) : encodeWire p = bs := by
  obtain ⟨sp, hm, hv, he⟩ := encode_some h
  exact encodeWire_spec p sp bs hm hv he

theorem remainingLengthOf_some {p : Packet} {bs : Bytes} (h : Spec.Mqtt.encode p = some bs) :
    Spec.Mqtt.remainingLengthOf p = some (parts p).2.2.length := by
  obtain ⟨sp, hm, hv, he⟩ := encode_some h
  simp [Spec.Mqtt.remainingLengthOf, hm, body_spec p sp hm hv]

theorem decode_conforms (p : Packet) (bs rest : Bytes) (max n : Nat) (h : Spec.Mqtt.encode p = some bs)
    (hn : Spec.Mqtt.remainingLengthOf p = some n) (hmax : n ≤ max) :
    Mqtt.decode (bs ++ rest) max = .ok (normal p, rest) := by
  obtain ⟨sp, hm, hv, he⟩ := encode_some h
  have : (body sp).length = n := by simpa [Spec.Mqtt.remainingLengthOf, hm] using hn
  exact model_decode_spec p sp bs rest max hm hv he (by omega)

theorem spec_roundtrip (p : Packet) (bs rest : Bytes) (h : Spec.Mqtt.encode p = some bs) :
    Spec.Mqtt.decode (bs ++ rest) = some (normal p, rest) := by
  obtain ⟨sp, hm, hv, he⟩ := encode_some h
  simp [Spec.Mqtt.decode, decodePacket_encodePacket sp bs rest hv he, toModel_ofModel p sp hm]

theorem ofModel_toModel (sp : ControlPacket) (hv : valid sp = true) (hc : ∀ rc, sp ≠ .connack true rc) :
    ofModel (toModel sp) = some sp := by
  cases sp with
  | connect c =>
    obtain ⟨name, level, cs, will, user, pass, ka, cid⟩ := c
    cases will <;> cases user <;> cases pass <;> simp [ofModel, toModel]
  | connack sp rc =>
    cases sp
    · rfl
    · exact absurd rfl (hc rc)
  | publish d q r t id pl =>
    simp only [valid, Bool.and_eq_true] at hv
    have hid := hv.2
    cases id with
    | none =>
      have hz : q.toNat = 0 := by simpa using hid
      simp [ofModel, toModel, hz]
    | some i =>
      have hnz : q.toNat ≠ 0 := by simp at hid; exact hid.1
      simp [ofModel, toModel, hnz]
  | subscribe id fs =>
    simp only [ofModel, toModel, if_true, List.map_map]
    congr 2
    exact List.map_id' _
  | unsubscribe id fs =>
    simp only [ofModel, toModel, if_true, List.map_map]
    congr 2
    exact List.map_id' _
  | pubrel id => simp [ofModel, toModel]
  | _ => rfl

/-- every valid standard packet (not only those a Go value denotes — e.g. a CONNACK with Session Present) is
accepted by the model's decoder with the right type and fields -/
theorem decode_standard_packet (sp : ControlPacket) (bs rest : Bytes) (max : Nat) (hv : valid sp = true)
    (he : encodePacket sp = some bs) (hmax : (body sp).length ≤ max) :
    Mqtt.decode (bs ++ rest) max = .ok (toModel sp, rest) := by
  by_cases hc : ∃ rc, sp = .connack true rc
  · obtain ⟨rc, rfl⟩ := hc
    obtain ⟨e1, e2, e3, e4, e5, e6, e7, e8, e9, e10, e11, e12, e13, e14⟩ := tyCodes
    have hw : bs = wire tyConnack noHeader [1, rc] := by
      have : encodePacket (.connack true rc) = some (wire tyConnack noHeader [1, rc]) := by
        simp only [encodePacket, body, typeOf, flagBits, wire, e2]
        rfl
      rw [this] at he
      exact (Option.some.inj he).symm
    subst hw
    refine decode_wire_ok tyConnack noHeader [1, rc] rest max _ (by rw [e2]; decide) noHeader_qos
      (by simp) (by rw [e2, e12, e13, e14]; decide) hmax ?_
    simp [decodeBody, e1, e2, readByte, toModel]
  · have hc' : ∀ rc, sp ≠ .connack true rc := fun rc e => hc ⟨rc, e⟩
    have hm := ofModel_toModel sp hv hc'
    have := model_decode_spec (toModel sp) sp bs rest max hm hv he hmax
    rw [← toModel_ofModel (toModel sp) sp hm] at this
    exact this

end Emitter.MqttSpec
