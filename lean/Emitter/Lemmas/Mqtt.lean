import Emitter.Model.Mqtt
namespace Emitter.Mqtt
open Emitter

theorem encLen_length (n : Nat) (h : n < 268435456) :
    (encLen n).length = if n < 128 then 1 else if n < 16384 then 2 else if n < 2097152 then 3 else 4 := by
  sorry

theorem decodeLen_encLen (n : Nat) (h : n < 268435456) (rest : Bytes) :
    decodeLen (encLen n ++ rest) 1 0 = .ok (UInt32.ofNat n, rest) := by
  sorry

theorem readString_writeString (v pre post : Bytes) (h : v.length < 65536) :
    readString (pre ++ writeString v ++ post) pre.length = .ok (v, pre.length + 2 + v.length) := by
  sorry

theorem decode_encodeWire (p : Packet) (wf : wellFormed p = true) (rest : Bytes) (max : Nat)
    (hmax : (parts p).2.2.length ≤ max) :
    decode (encodeWire p ++ rest) max = .ok (normal p, rest) := by
  sorry

theorem encode_of_fits (p : Packet) (h : (parts p).2.2.length ≤ bodyRoom) : encode p = .ok (encodeWire p) := by
  sorry

theorem encode_publish_no_panic (h : Header) (t : Bytes) (mid : UInt16) (pl : Bytes) :
    (encode (.publish h t mid pl)).isPanic = false := by
  sorry

theorem decode_oversize (p : Packet) (rest : Bytes) (max : Nat)
    (hty : p ≠ .pingreq ∧ p ≠ .pingresp ∧ p ≠ .disconnect)
    (hlen : (parts p).2.2.length < 268435456) (hbig : max < (parts p).2.2.length) :
    decode (encodeWire p ++ rest) max = .err "too-large" := by
  sorry

end Emitter.Mqtt
