/-
  Lemmas for C16 (MQTT codec). The seven theorems re-exported by Emitter/Props/C16.lean are
  `encLen_length`, `decodeLen_encLen`, `readString_writeString`, `decode_encodeWire`,
  `encode_of_fits`, `encode_publish_no_panic`, `decode_oversize`; everything else is a helper.
  `decode_oversize` carries one hypothesis more than originally stated (see its docstring).
-/
import Emitter.Model.Mqtt
namespace Emitter.Mqtt
open Emitter

/-! ## byte-level facts -/

theorem forall_byte {P : UInt8 → Prop} (h : ∀ i : Fin 256, P (UInt8.ofNat i.val)) (b : UInt8) : P b := by
  have := h ⟨b.toNat, b.toNat_lt⟩
  simpa using this

theorem and7f (b : UInt8) : (b &&& 0x7f).toUInt32 = UInt32.ofNat (b.toNat % 128) := by
  revert b; apply forall_byte; decide +kernel

theorem and80 (b : UInt8) : ((b &&& 0x80) != 0) = decide (128 ≤ b.toNat) := by
  revert b; apply forall_byte; decide +kernel

theorem encLen_length (n : Nat) (h : n < 268435456) :
    (encLen n).length = if n < 128 then 1 else if n < 16384 then 2 else if n < 2097152 then 3 else 4 := by
  unfold encLen
  by_cases h1 : n < 128
  · simp [encLenF, h1]
  · by_cases h2 : n < 16384
    · have : n / 128 < 128 := by omega
      simp [encLenF, h1, h2, this]
    · by_cases h3 : n < 2097152
      · have a1 : ¬ n / 128 < 128 := by omega
        have a2 : n / 128 / 128 < 128 := by omega
        simp [encLenF, h1, h2, h3, a1, a2]
      · have a1 : ¬ n / 128 < 128 := by omega
        have a2 : ¬ n / 128 / 128 < 128 := by omega
        have a3 : n / 128 / 128 / 128 < 128 := by omega
        simp [encLenF, h1, h2, h3, a1, a2, a3]

theorem decodeLen_last (b : UInt8) (rest : Bytes) (mult len : UInt32) (hb : b.toNat < 128) :
    decodeLen (b :: rest) mult len = .ok (len + UInt32.ofNat b.toNat * mult, rest) := by
  have : ¬ 128 ≤ b.toNat := by omega
  have e : b.toNat % 128 = b.toNat := by omega
  simp only [decodeLen, and7f, and80, e]
  simp [this]

theorem decodeLen_cont (b : UInt8) (rest : Bytes) (mult len : UInt32) (hb : 128 ≤ b.toNat) :
    decodeLen (b :: rest) mult len = decodeLen rest (mult * 128) (len + UInt32.ofNat (b.toNat % 128) * mult) := by
  simp only [decodeLen, and7f, and80]
  simp [hb]

theorem decodeLen_encLen (n : Nat) (h : n < 268435456) (rest : Bytes) :
    decodeLen (encLen n ++ rest) 1 0 = .ok (UInt32.ofNat n, rest) := by
  unfold encLen
  by_cases h1 : n < 128
  · simp only [encLenF, h1, if_true, List.cons_append, List.nil_append]
    rw [decodeLen_last _ _ _ _ (by simp [UInt8.toNat_ofNat']; omega)]
    congr 2
    apply UInt32.toNat.inj
    simp [UInt32.toNat_ofNat', UInt8.toNat_ofNat']
    omega
  · have m1 : (1 : UInt32) * 128 = 128 := by decide
    have m2 : (128 : UInt32) * 128 = 16384 := by decide
    have m3 : (16384 : UInt32) * 128 = 2097152 := by decide
    by_cases h2 : n < 16384
    · have a1 : n / 128 < 128 := by omega
      simp only [encLenF, h1, a1, if_true, if_false, List.cons_append, List.nil_append]
      rw [decodeLen_cont _ _ _ _ (by simp [UInt8.toNat_ofNat']; omega),
          decodeLen_last _ _ _ _ (by simp [UInt8.toNat_ofNat']; omega)]
      congr 2
      apply UInt32.toNat.inj
      simp [UInt32.toNat_ofNat', UInt8.toNat_ofNat', m1]
      omega
    · by_cases h3 : n < 2097152
      · have a1 : ¬ n / 128 < 128 := by omega
        have a2 : n / 128 / 128 < 128 := by omega
        simp only [encLenF, h1, a1, a2, if_true, if_false, List.cons_append, List.nil_append]
        rw [decodeLen_cont _ _ _ _ (by simp [UInt8.toNat_ofNat']; omega),
            decodeLen_cont _ _ _ _ (by simp [UInt8.toNat_ofNat']; omega),
            decodeLen_last _ _ _ _ (by simp [UInt8.toNat_ofNat']; omega)]
        congr 2
        apply UInt32.toNat.inj
        simp [UInt32.toNat_ofNat', UInt8.toNat_ofNat', m1, m2]
        omega
      · have a1 : ¬ n / 128 < 128 := by omega
        have a2 : ¬ n / 128 / 128 < 128 := by omega
        have a3 : n / 128 / 128 / 128 < 128 := by omega
        simp only [encLenF, h1, a1, a2, a3, if_true, if_false, List.cons_append, List.nil_append]
        rw [decodeLen_cont _ _ _ _ (by simp [UInt8.toNat_ofNat']; omega),
            decodeLen_cont _ _ _ _ (by simp [UInt8.toNat_ofNat']; omega),
            decodeLen_cont _ _ _ _ (by simp [UInt8.toNat_ofNat']; omega),
            decodeLen_last _ _ _ _ (by simp [UInt8.toNat_ofNat']; omega)]
        congr 2
        apply UInt32.toNat.inj
        simp [UInt32.toNat_ofNat', UInt8.toNat_ofNat', m1, m2, m3]
        omega

/-! ## the Outcome monad -/

@[simp] theorem ok_bind {α β} (a : α) (f : α → Outcome β) : (Outcome.ok a >>= f) = f a := rfl
theorem pure_bind' {α β} (a : α) (f : α → Outcome β) : ((pure a : Outcome α) >>= f) = f a := rfl
@[simp] theorem pure_eq_ok {α} (a : α) : (pure a : Outcome α) = Outcome.ok a := rfl
@[simp] theorem map_ok {α β} (f : α → β) (a : α) : (Outcome.ok a).map f = Outcome.ok (f a) := rfl

/-! ## field readers, stated relative to the unread suffix `data.drop pos` -/

theorem drop_add_of_drop {data : Bytes} {pos : Nat} {x post : Bytes} (k : Nat)
    (hd : data.drop pos = x ++ post) (hk : x.length = k) : data.drop (pos + k) = post := by
  rw [← List.drop_drop, hd, ← hk]
  simp

theorem readByte_of_drop {data : Bytes} {pos : Nat} {a : UInt8} {post : Bytes}
    (hd : data.drop pos = a :: post) : readByte data pos = .ok (a, pos + 1) := by
  have : data[pos]? = some a := by
    have := List.getElem?_drop (xs := data) (i := pos) (j := 0)
    rw [hd] at this; simpa using this.symm
  simp [readByte, this]

theorem readU16_of_drop {data : Bytes} {pos : Nat} {a b : UInt8} {post : Bytes}
    (hd : data.drop pos = a :: b :: post) : readU16 data pos = .ok (be16 a b, pos + 2) := by
  have h0 : data[pos]? = some a := by
    have := List.getElem?_drop (xs := data) (i := pos) (j := 0)
    rw [hd] at this; simpa using this.symm
  have h1 : data[pos + 1]? = some b := by
    have := List.getElem?_drop (xs := data) (i := pos) (j := 1)
    rw [hd] at this; simpa using this.symm
  simp [readU16, h0, h1]

theorem readString_of_drop {data : Bytes} {pos : Nat} {v post : Bytes}
    (hd : data.drop pos = writeString v ++ post) (hv : v.length < 65536) :
    readString data pos = .ok (v, pos + 2 + v.length) := by
  have hd' : data.drop pos = UInt8.ofNat ((UInt16.ofNat v.length).toNat / 256) ::
      UInt8.ofNat (UInt16.ofNat v.length).toNat :: (v ++ post) := by
    rw [hd]; simp [writeString, putBe16]
  have hl : (UInt16.ofNat v.length).toNat = v.length := by
    simp [UInt16.toNat_ofNat']; omega
  have hlen : data.length - pos = 2 + v.length + post.length := by
    have := congrArg List.length hd'
    simp at this; omega
  have hdrop : data.drop (pos + 2) = v ++ post := by
    rw [← List.drop_drop, hd']; simp
  unfold readString
  rw [readU16_of_drop hd', be16_putBe16]
  simp only [hl]
  have : ¬ (v.length + (pos + 2) > data.length) := by omega
  simp [this, hdrop]

theorem readString_writeString (v pre post : Bytes) (h : v.length < 65536) :
    readString (pre ++ writeString v ++ post) pre.length = .ok (v, pre.length + 2 + v.length) := by
  exact readString_of_drop (post := post) (by simp) h


/-! ## fixed header -/

theorem firstByte_fin : ∀ (i : Fin 16) (j : Fin 4) (d r : Bool),
    (firstByte (UInt8.ofNat i.val) ⟨d, UInt8.ofNat j.val, r⟩ &&& 0xf0) >>> 4 = UInt8.ofNat i.val ∧
    decide ((firstByte (UInt8.ofNat i.val) ⟨d, UInt8.ofNat j.val, r⟩ &&& 0x08) > 0) = d ∧
    (firstByte (UInt8.ofNat i.val) ⟨d, UInt8.ofNat j.val, r⟩ &&& 0x06) >>> 1 = UInt8.ofNat j.val ∧
    decide ((firstByte (UInt8.ofNat i.val) ⟨d, UInt8.ofNat j.val, r⟩ &&& 0x01) > 0) = r := by
  decide

theorem firstByte_facts (ty : UInt8) (h : Header) (hty : ty < 16) (hq : h.qos < 4) :
    (firstByte ty h &&& 0xf0) >>> 4 = ty ∧
    ({ dup := (firstByte ty h &&& 0x08) > 0, qos := (firstByte ty h &&& 0x06) >>> 1,
       retain := (firstByte ty h &&& 0x01) > 0 } : Header) = h := by
  have h1 : ty.toNat < 16 := by simpa [UInt8.lt_iff_toNat_lt] using hty
  have h2 : h.qos.toNat < 4 := by simpa [UInt8.lt_iff_toNat_lt] using hq
  have := firstByte_fin ⟨ty.toNat, h1⟩ ⟨h.qos.toNat, h2⟩ h.dup h.retain
  simp only [UInt8.ofNat_toNat] at this
  obtain ⟨a, b, c, d⟩ := this
  refine ⟨a, ?_⟩
  cases h
  simp_all

theorem decode_wire (ty : UInt8) (h : Header) (body rest : Bytes) (max : Nat)
    (hty : ty < 16) (hq : h.qos < 4) (hlen : body.length < 268435456)
    (hnp : ty ≠ tyPingreq ∧ ty ≠ tyPingresp ∧ ty ≠ tyDisconnect) :
    decode (wire ty h body ++ rest) max =
      if body.length > max then .err "too-large"
      else (decodeBody ty (headerOf ty (firstByte ty h)) body).map (fun p => (p, rest)) := by
  obtain ⟨n1, n2, n3⟩ := hnp
  have hl : (UInt32.ofNat body.length).toNat = body.length := by
    simp [UInt32.toNat_ofNat']; omega
  unfold wire
  simp only [List.cons_append, List.append_assoc, decode, decodeLen_encLen _ hlen,
    (firstByte_facts ty h hty hq).1, hl]
  have : ¬ (body.length + rest.length < body.length) := by omega
  simp [n1, n2, n3, this]


/-! ## step lemmas: result of a read and the new unread suffix -/

theorem readByte_step {data : Bytes} {pos : Nat} {a : UInt8} {post : Bytes}
    (hd : data.drop pos = a :: post) :
    readByte data pos = .ok (a, pos + 1) ∧ data.drop (pos + 1) = post :=
  ⟨readByte_of_drop hd, drop_add_of_drop (x := [a]) 1 hd rfl⟩

theorem readU16_step {data : Bytes} {pos : Nat} {x : UInt16} {post : Bytes}
    (hd : data.drop pos = putBe16 x ++ post) :
    readU16 data pos = .ok (x, pos + 2) ∧ data.drop (pos + 2) = post := by
  refine ⟨?_, drop_add_of_drop 2 hd rfl⟩
  have := readU16_of_drop (data := data) (pos := pos) (post := post) (by rw [hd]; rfl)
  rw [this, be16_putBe16]

theorem readString_step {data : Bytes} {pos : Nat} {v post : Bytes}
    (hd : data.drop pos = writeString v ++ post) (hv : v.length < 65536) :
    readString data pos = .ok (v, pos + 2 + v.length) ∧ data.drop (pos + 2 + v.length) = post := by
  refine ⟨readString_of_drop hd hv, ?_⟩
  rw [Nat.add_assoc]
  exact drop_add_of_drop _ hd (by simp [writeString, putBe16]; omega)

theorem optString_step {data : Bytes} {pos : Nat} {v post : Bytes} (f : Bool)
    (hd : data.drop pos = (if f then writeString v else []) ++ post) (hv : v.length < 65536) :
    ∃ pos', (if f then readString data pos else pure ([], pos) : Outcome (Bytes × Nat))
        = .ok (if f then v else [], pos') ∧ data.drop pos' = post := by
  cases f
  · exact ⟨pos, by simp, by simpa using hd⟩
  · have := readString_step (by simpa using hd) hv
    exact ⟨_, by simpa using this.1, this.2⟩


/-! ## CONNECT -/

def flagsOf (u p wr : Bool) (wq : UInt8) (w cs : Bool) : UInt8 :=
  (b2u u <<< 7) ||| (b2u p <<< 6) ||| (b2u wr <<< 5) ||| (wq <<< 3) ||| (b2u w <<< 2) ||| (b2u cs <<< 1)

theorem flagsOf_fin : ∀ (u p wr w cs : Bool) (j : Fin 4),
    (flagsOf u p wr (UInt8.ofNat j.val) w cs &&& 128 > 0 ↔ u = true) ∧
    (flagsOf u p wr (UInt8.ofNat j.val) w cs &&& 64 > 0 ↔ p = true) ∧
    (flagsOf u p wr (UInt8.ofNat j.val) w cs &&& 32 > 0 ↔ wr = true) ∧
    (flagsOf u p wr (UInt8.ofNat j.val) w cs >>> 3 &&& 3 = UInt8.ofNat j.val) ∧
    (flagsOf u p wr (UInt8.ofNat j.val) w cs &&& 4 > 0 ↔ w = true) ∧
    (flagsOf u p wr (UInt8.ofNat j.val) w cs &&& 2 > 0 ↔ cs = true) := by
  decide

theorem connectFlags_facts (c : Connect) (hq : c.willQos < 4) :
    (connectFlags c &&& 128 > 0 ↔ c.usernameFlag = true) ∧
    (connectFlags c &&& 64 > 0 ↔ c.passwordFlag = true) ∧
    (connectFlags c &&& 32 > 0 ↔ c.willRetain = true) ∧
    (connectFlags c >>> 3 &&& 3 = c.willQos) ∧
    (connectFlags c &&& 4 > 0 ↔ c.willFlag = true) ∧
    (connectFlags c &&& 2 > 0 ↔ c.cleanSession = true) := by
  have h2 : c.willQos.toNat < 4 := by simpa [UInt8.lt_iff_toNat_lt] using hq
  have := flagsOf_fin c.usernameFlag c.passwordFlag c.willRetain c.willFlag c.cleanSession ⟨c.willQos.toNat, h2⟩
  simp only [UInt8.ofNat_toNat] at this
  exact this

theorem decodeConnect_connectBody (c : Connect)
    (h1 : c.protoName.length < 65536) (h2 : c.clientId.length < 65536)
    (h3 : c.willTopic.length < 65536) (h4 : c.willMessage.length < 65536)
    (h5 : c.username.length < 65536) (h6 : c.password.length < 65536) (hq : c.willQos < 4) :
    decodeConnect (connectBody c) = .ok (normal (.connect c)) := by
  obtain ⟨fu, fp, fwr, fq, fw, fcs⟩ := connectFlags_facts c hq
  unfold decodeConnect
  simp only []
  cases hw : c.willFlag
  · have d0 : (connectBody c).drop 0 = writeString c.protoName ++ (c.version :: connectFlags c ::
        (putBe16 c.keepAlive ++ (writeString c.clientId ++
        ((if c.usernameFlag then writeString c.username else []) ++
        ((if c.passwordFlag then writeString c.password else []) ++ []))))) := by
      simp [connectBody, hw]
    obtain ⟨r1, d1⟩ := readString_step d0 h1
    obtain ⟨r2, d2⟩ := readByte_step d1
    obtain ⟨r3, d3⟩ := readByte_step d2
    obtain ⟨r4, d4⟩ := readU16_step d3
    obtain ⟨r5, d5⟩ := readString_step d4 h2
    obtain ⟨p6, r6, d6⟩ := optString_step _ d5 h5
    obtain ⟨p7, r7, d7⟩ := optString_step _ d6 h6
    simp only [r1, r2, r3, r4, r5, ok_bind, fu, fp, fwr, fq, fw, fcs, hw]
    simp only [Bool.false_eq_true, if_false, pure_bind', r6, r7, ok_bind]
    cases c
    simp_all [normal]
  · have d0 : (connectBody c).drop 0 = writeString c.protoName ++ (c.version :: connectFlags c ::
        (putBe16 c.keepAlive ++ (writeString c.clientId ++
        (writeString c.willTopic ++ (writeString c.willMessage ++
        ((if c.usernameFlag then writeString c.username else []) ++
        ((if c.passwordFlag then writeString c.password else []) ++ []))))))) := by
      simp [connectBody, hw]
    obtain ⟨r1, d1⟩ := readString_step d0 h1
    obtain ⟨r2, d2⟩ := readByte_step d1
    obtain ⟨r3, d3⟩ := readByte_step d2
    obtain ⟨r4, d4⟩ := readU16_step d3
    obtain ⟨r5, d5⟩ := readString_step d4 h2
    obtain ⟨r5a, d5a⟩ := readString_step d5 h3
    obtain ⟨r5b, d5b⟩ := readString_step d5a h4
    obtain ⟨p6, r6, d6⟩ := optString_step _ d5b h5
    obtain ⟨p7, r7, d7⟩ := optString_step _ d6 h6
    simp only [r1, r2, r3, r4, r5, ok_bind, fu, fp, fwr, fq, fw, fcs, hw]
    simp only [if_true, r5a, r5b, pure_bind', r6, r7, ok_bind]
    cases c
    simp_all [normal]


/-! ## SUBSCRIBE / UNSUBSCRIBE topic loops -/

theorem subsBody_length_ge (subs : List TopicQos) : subs.length ≤ (subsBody subs).length := by
  induction subs with
  | nil => simp
  | cons t ts ih => simp [subsBody, writeString, putBe16]; omega

theorem topicsBody_length_ge (ts : List TopicQos) : ts.length ≤ (topicsBody ts).length := by
  induction ts with
  | nil => simp
  | cons t ts ih => simp [topicsBody, writeString, putBe16]; omega

theorem decodeSubs_subsBody (data : Bytes) (subs : List TopicQos) :
    ∀ (fuel pos : Nat), subs.length ≤ fuel → data.drop pos = subsBody subs →
      (∀ t ∈ subs, t.topic.length < 65536) → decodeSubs data true fuel pos = .ok subs := by
  induction subs with
  | nil =>
    intro fuel pos _ hd _
    have : data.length ≤ pos := by simpa [subsBody] using hd
    cases fuel with
    | zero => simp [decodeSubs]
    | succ f => have : ¬ pos < data.length := by omega
                simp [decodeSubs, this]
  | cons t ts ih =>
    intro fuel pos hf hd hs
    cases fuel with
    | zero => simp at hf
    | succ f =>
      have hd' : data.drop pos = writeString t.topic ++ (t.qos :: subsBody ts) := by
        rw [hd]; simp [subsBody]
      have hlt : pos < data.length := by
        have := congrArg List.length hd'
        simp [writeString, putBe16] at this; omega
      obtain ⟨r1, d1⟩ := readString_step hd' (hs t (by simp))
      obtain ⟨r2, d2⟩ := readByte_step d1
      have := ih f _ (by simpa using hf) d2 (fun x hx => hs x (by simp [hx]))
      simp [decodeSubs, hlt, r1, r2, this]

theorem decodeSubs_topicsBody (data : Bytes) (ts : List TopicQos) :
    ∀ (fuel pos : Nat), ts.length ≤ fuel → data.drop pos = topicsBody ts →
      (∀ t ∈ ts, t.topic.length < 65536) →
      decodeSubs data false fuel pos = .ok (ts.map (fun t => { t with qos := 0 })) := by
  induction ts with
  | nil =>
    intro fuel pos _ hd _
    have : data.length ≤ pos := by simpa [topicsBody] using hd
    cases fuel with
    | zero => simp [decodeSubs]
    | succ f => have : ¬ pos < data.length := by omega
                simp [decodeSubs, this]
  | cons t ts ih =>
    intro fuel pos hf hd hs
    cases fuel with
    | zero => simp at hf
    | succ f =>
      have hd' : data.drop pos = writeString t.topic ++ topicsBody ts := by
        rw [hd]; simp [topicsBody]
      have hlt : pos < data.length := by
        have := congrArg List.length hd'
        simp [writeString, putBe16] at this; omega
      obtain ⟨r1, d1⟩ := readString_step hd' (hs t (by simp))
      have := ih f _ (by simpa using hf) d1 (fun x hx => hs x (by simp [hx]))
      simp [decodeSubs, hlt, r1, this]


/-! ## one lemma per packet type: `decodeBody` inverts the body layout of `parts` -/

theorem tyCodes :
    tyConnect = 1 ∧ tyConnack = 2 ∧ tyPublish = 3 ∧ tyPuback = 4 ∧ tyPubrec = 5 ∧ tyPubrel = 6 ∧
    tyPubcomp = 7 ∧ tySubscribe = 8 ∧ tySuback = 9 ∧ tyUnsubscribe = 10 ∧ tyUnsuback = 11 ∧
    tyPingreq = 12 ∧ tyPingresp = 13 ∧ tyDisconnect = 14 := by decide

theorem readU16_putBe16 (mid : UInt16) (post : Bytes) :
    readU16 (putBe16 mid ++ post) 0 = .ok (mid, 0 + 2) ∧ (putBe16 mid ++ post).drop (0 + 2) = post :=
  readU16_step (by simp)

theorem decodeBody_connack (h : Header) (rc : UInt8) :
    decodeBody tyConnack h [0, rc] = .ok (.connack rc) := by
  obtain ⟨e1, e2, e3, e4, e5, e6, e7, e8, e9, e10, e11, e12, e13, e14⟩ := tyCodes
  simp [decodeBody, e1, e2, readByte]

theorem decodeBody_mid (ty : UInt8) (h : Header) (mid : UInt16) (k : UInt16 → Packet)
    (hb : ∀ data, decodeBody ty h data = (readU16 data 0).map (fun r => k r.1)) :
    decodeBody ty h (putBe16 mid) = .ok (k mid) := by
  have := (readU16_putBe16 mid []).1
  simp only [List.append_nil] at this
  rw [hb, this]; rfl

theorem decodeBody_publish (h : Header) (t : Bytes) (mid : UInt16) (pl : Bytes) (ht : t.length < 65536) :
    decodeBody tyPublish h (writeString t ++ (if h.qos > 0 then putBe16 mid else []) ++ pl)
      = .ok (.publish h t (if h.qos > 0 then mid else 0) pl) := by
  obtain ⟨e1, e2, e3, e4, e5, e6, e7, e8, e9, e10, e11, e12, e13, e14⟩ := tyCodes
  by_cases hq : h.qos > 0
  · simp only [hq, if_true]
    have d0 : (writeString t ++ putBe16 mid ++ pl).drop 0 = writeString t ++ (putBe16 mid ++ pl) := by simp
    obtain ⟨r1, d1⟩ := readString_step d0 ht
    obtain ⟨r2, d2⟩ := readU16_step d1
    have hl : ¬ (0 + 2 + t.length + 2 > (writeString t ++ putBe16 mid ++ pl).length) := by
      simp [writeString, putBe16]; omega
    simp only [decodeBody, e1, e2, e3]
    simp only [r1, ok_bind, hq, if_true, r2, hl, if_false, d2, pure_eq_ok]
    simp
  · simp only [hq, if_false]
    have d0 : (writeString t ++ [] ++ pl).drop 0 = writeString t ++ pl := by simp
    obtain ⟨r1, d1⟩ := readString_step d0 ht
    have hl : ¬ (0 + 2 + t.length > (writeString t ++ [] ++ pl).length) := by
      simp [writeString, putBe16]; omega
    simp only [decodeBody, e1, e2, e3]
    simp only [r1, ok_bind, hq, if_false, hl, d1, pure_eq_ok]
    simp

theorem decodeBody_subscribe (h : Header) (mid : UInt16) (subs : List TopicQos)
    (hs : ∀ t ∈ subs, t.topic.length < 65536) :
    decodeBody tySubscribe h (putBe16 mid ++ subsBody subs) = .ok (.subscribe h mid subs) := by
  obtain ⟨e1, e2, e3, e4, e5, e6, e7, e8, e9, e10, e11, e12, e13, e14⟩ := tyCodes
  obtain ⟨r1, d1⟩ := readU16_putBe16 mid (subsBody subs)
  have r2 := decodeSubs_subsBody _ subs (putBe16 mid ++ subsBody subs).length _
    (by have := subsBody_length_ge subs; simp; omega) d1 hs
  simp only [decodeBody, e1, e2, e3, e4, e5, e6, e7, e8]
  simp only [r1, ok_bind, r2, pure_eq_ok]
  simp

theorem decodeBody_unsubscribe (h : Header) (mid : UInt16) (ts : List TopicQos)
    (hs : ∀ t ∈ ts, t.topic.length < 65536) :
    decodeBody tyUnsubscribe h (putBe16 mid ++ topicsBody ts)
      = .ok (.unsubscribe h mid (ts.map (fun t => { t with qos := 0 }))) := by
  obtain ⟨e1, e2, e3, e4, e5, e6, e7, e8, e9, e10, e11, e12, e13, e14⟩ := tyCodes
  obtain ⟨r1, d1⟩ := readU16_putBe16 mid (topicsBody ts)
  have r2 := decodeSubs_topicsBody _ ts (putBe16 mid ++ topicsBody ts).length _
    (by have := topicsBody_length_ge ts; simp; omega) d1 hs
  simp only [decodeBody, e1, e2, e3, e4, e5, e6, e7, e8, e9, e10]
  simp only [r1, ok_bind, r2, pure_eq_ok]
  simp

theorem decodeBody_suback (h : Header) (mid : UInt16) (qos : List UInt8) :
    decodeBody tySuback h (putBe16 mid ++ qos) = .ok (.suback mid qos) := by
  obtain ⟨e1, e2, e3, e4, e5, e6, e7, e8, e9, e10, e11, e12, e13, e14⟩ := tyCodes
  obtain ⟨r1, d1⟩ := readU16_putBe16 mid qos
  simp only [decodeBody, e1, e2, e3, e4, e5, e6, e7, e8, e9]
  simp only [r1, ok_bind, d1, pure_eq_ok]
  simp


/-! ## combination -/

theorem headerOf_firstByte (ty : UInt8) (h : Header) (hty : ty < 16) (hq : h.qos < 4) :
    headerOf ty (firstByte ty h) =
      if ty == tyPublish || ty == tySubscribe || ty == tyUnsubscribe || ty == tyPubrel then h else noHeader := by
  simp only [headerOf, (firstByte_facts ty h hty hq).2]

theorem strOk_iff (b : Bytes) : strOk b = true ↔ b.length < 65536 := by simp [strOk]


theorem decode_wire_ok (ty : UInt8) (h : Header) (body rest : Bytes) (max : Nat) (q : Packet)
    (hty : ty < 16) (hq : h.qos < 4) (hlen : body.length < 268435456)
    (hnp : ty ≠ tyPingreq ∧ ty ≠ tyPingresp ∧ ty ≠ tyDisconnect) (hmax : body.length ≤ max)
    (hb : decodeBody ty (if ty == tyPublish || ty == tySubscribe || ty == tyUnsubscribe || ty == tyPubrel
            then h else noHeader) body = .ok q) :
    decode (wire ty h body ++ rest) max = .ok (q, rest) := by
  have hn : ¬ (body.length > max) := by omega
  rw [decode_wire ty h body rest max hty hq hlen hnp, if_neg hn, headerOf_firstByte ty h hty hq, hb]
  rfl

theorem connectBody_length_lt (c : Connect)
    (h1 : c.protoName.length < 65536) (h2 : c.clientId.length < 65536)
    (h3 : c.willTopic.length < 65536) (h4 : c.willMessage.length < 65536)
    (h5 : c.username.length < 65536) (h6 : c.password.length < 65536) :
    (connectBody c).length < 268435456 := by
  simp only [connectBody, writeString, putBe16, List.length_append, List.length_cons, List.length_nil]
  split <;> split <;> split <;> simp <;> omega

theorem noHeader_qos : noHeader.qos < 4 := by decide

theorem all_strOk {l : List TopicQos} (h : l.all (fun t => strOk t.topic) = true) :
    ∀ t ∈ l, t.topic.length < 65536 := by
  simpa [strOk] using h


theorem decodeBody_connect (h : Header) (c : Connect) :
    decodeBody tyConnect h (connectBody c) = decodeConnect (connectBody c) := by
  simp [decodeBody]

theorem decodeBody_puback (h : Header) (mid : UInt16) : decodeBody tyPuback h (putBe16 mid) = .ok (.puback mid) := by
  obtain ⟨e1, e2, e3, e4, e5, e6, e7, e8, e9, e10, e11, e12, e13, e14⟩ := tyCodes
  exact decodeBody_mid _ _ _ (fun m => .puback m) (by intro d; simp [decodeBody, e1, e2, e3, e4])
theorem decodeBody_pubrec (h : Header) (mid : UInt16) : decodeBody tyPubrec h (putBe16 mid) = .ok (.pubrec mid) := by
  obtain ⟨e1, e2, e3, e4, e5, e6, e7, e8, e9, e10, e11, e12, e13, e14⟩ := tyCodes
  exact decodeBody_mid _ _ _ (fun m => .pubrec m) (by intro d; simp [decodeBody, e1, e2, e3, e4, e5])
theorem decodeBody_pubrel (h : Header) (mid : UInt16) : decodeBody tyPubrel h (putBe16 mid) = .ok (.pubrel h mid) := by
  obtain ⟨e1, e2, e3, e4, e5, e6, e7, e8, e9, e10, e11, e12, e13, e14⟩ := tyCodes
  exact decodeBody_mid _ _ _ (fun m => .pubrel h m) (by intro d; simp [decodeBody, e1, e2, e3, e4, e5, e6])
theorem decodeBody_pubcomp (h : Header) (mid : UInt16) : decodeBody tyPubcomp h (putBe16 mid) = .ok (.pubcomp mid) := by
  obtain ⟨e1, e2, e3, e4, e5, e6, e7, e8, e9, e10, e11, e12, e13, e14⟩ := tyCodes
  exact decodeBody_mid _ _ _ (fun m => .pubcomp m) (by intro d; simp [decodeBody, e1, e2, e3, e4, e5, e6, e7])
theorem decodeBody_unsuback (h : Header) (mid : UInt16) : decodeBody tyUnsuback h (putBe16 mid) = .ok (.unsuback mid) := by
  obtain ⟨e1, e2, e3, e4, e5, e6, e7, e8, e9, e10, e11, e12, e13, e14⟩ := tyCodes
  exact decodeBody_mid _ _ _ (fun m => .unsuback m)
    (by intro d; simp [decodeBody, e1, e2, e3, e4, e5, e6, e7, e8, e9, e10, e11])

theorem putBe16_length (x : UInt16) : (putBe16 x).length = 2 := rfl

theorem decode_encodeWire (p : Packet) (wf : wellFormed p = true) (rest : Bytes) (max : Nat)
    (hmax : (parts p).2.2.length ≤ max) :
    decode (encodeWire p ++ rest) max = .ok (normal p, rest) := by
  obtain ⟨e1, e2, e3, e4, e5, e6, e7, e8, e9, e10, e11, e12, e13, e14⟩ := tyCodes
  cases p with
  | connect c =>
    simp only [wellFormed, Bool.and_eq_true, strOk_iff, decide_eq_true_eq] at wf
    obtain ⟨⟨⟨⟨⟨⟨h1, h2⟩, h3⟩, h4⟩, h5⟩, h6⟩, hq⟩ := wf
    refine decode_wire_ok tyConnect noHeader (connectBody c) rest max _ (by rw [e1]; decide) noHeader_qos
      (connectBody_length_lt c h1 h2 h3 h4 h5 h6) (by rw [e1, e12, e13, e14]; decide) hmax ?_
    rw [decodeBody_connect]
    exact decodeConnect_connectBody c h1 h2 h3 h4 h5 h6 hq
  | connack rc =>
    exact decode_wire_ok tyConnack noHeader [0, rc] rest max _ (by rw [e2]; decide) noHeader_qos
      (by simp) (by rw [e2, e12, e13, e14]; decide) hmax (decodeBody_connack _ rc)
  | publish h t mid pl =>
    simp only [wellFormed, Bool.and_eq_true, strOk_iff, decide_eq_true_eq, Header.ok] at wf
    obtain ⟨⟨hq, ht⟩, hl⟩ := wf
    refine decode_wire_ok tyPublish h _ rest max _ (by rw [e3]; decide) hq
      ?_ (by rw [e3, e12, e13, e14]; decide) hmax ?_
    · simp only [writeString, putBe16_length, List.length_append]
      split <;> simp [putBe16_length] <;> omega
    · rw [show (if tyPublish == tyPublish || tyPublish == tySubscribe || tyPublish == tyUnsubscribe ||
          tyPublish == tyPubrel then h else noHeader) = h by simp]
      exact decodeBody_publish h t mid pl ht
  | puback mid =>
    exact decode_wire_ok tyPuback noHeader (putBe16 mid) rest max _ (by rw [e4]; decide) noHeader_qos
      (by simp [putBe16_length]) (by rw [e4, e12, e13, e14]; decide) hmax (decodeBody_puback _ mid)
  | pubrec mid =>
    exact decode_wire_ok tyPubrec noHeader (putBe16 mid) rest max _ (by rw [e5]; decide) noHeader_qos
      (by simp [putBe16_length]) (by rw [e5, e12, e13, e14]; decide) hmax (decodeBody_pubrec _ mid)
  | pubrel h mid =>
    simp only [wellFormed, decide_eq_true_eq, Header.ok] at wf
    refine decode_wire_ok tyPubrel h (putBe16 mid) rest max _ (by rw [e6]; decide) wf
      (by simp [putBe16_length]) (by rw [e6, e12, e13, e14]; decide) hmax ?_
    rw [show (if tyPubrel == tyPublish || tyPubrel == tySubscribe || tyPubrel == tyUnsubscribe ||
          tyPubrel == tyPubrel then h else noHeader) = h by simp]
    exact decodeBody_pubrel h mid
  | pubcomp mid =>
    exact decode_wire_ok tyPubcomp noHeader (putBe16 mid) rest max _ (by rw [e7]; decide) noHeader_qos
      (by simp [putBe16_length]) (by rw [e7, e12, e13, e14]; decide) hmax (decodeBody_pubcomp _ mid)
  | subscribe h mid subs =>
    simp only [wellFormed, Bool.and_eq_true, decide_eq_true_eq, Header.ok] at wf
    obtain ⟨⟨hq, hs⟩, hl⟩ := wf
    refine decode_wire_ok tySubscribe h _ rest max _ (by rw [e8]; decide) hq
      (by simp [putBe16_length]; omega) (by rw [e8, e12, e13, e14]; decide) hmax ?_
    rw [show (if tySubscribe == tyPublish || tySubscribe == tySubscribe || tySubscribe == tyUnsubscribe ||
          tySubscribe == tyPubrel then h else noHeader) = h by simp]
    exact decodeBody_subscribe h mid subs (all_strOk hs)
  | suback mid qos =>
    simp only [wellFormed, decide_eq_true_eq] at wf
    exact decode_wire_ok tySuback noHeader _ rest max _ (by rw [e9]; decide) noHeader_qos
      (by simp [putBe16_length]; omega) (by rw [e9, e12, e13, e14]; decide) hmax (decodeBody_suback _ mid qos)
  | unsubscribe h mid ts =>
    simp only [wellFormed, Bool.and_eq_true, decide_eq_true_eq, Header.ok] at wf
    obtain ⟨⟨hq, hs⟩, hl⟩ := wf
    refine decode_wire_ok tyUnsubscribe h _ rest max _ (by rw [e10]; decide) hq
      (by simp [putBe16_length]; omega) (by rw [e10, e12, e13, e14]; decide) hmax ?_
    rw [show (if tyUnsubscribe == tyPublish || tyUnsubscribe == tySubscribe || tyUnsubscribe == tyUnsubscribe ||
          tyUnsubscribe == tyPubrel then h else noHeader) = h by simp]
    exact decodeBody_unsubscribe h mid ts (all_strOk hs)
  | unsuback mid =>
    exact decode_wire_ok tyUnsuback noHeader (putBe16 mid) rest max _ (by rw [e11]; decide) noHeader_qos
      (by simp [putBe16_length]) (by rw [e11, e12, e13, e14]; decide) hmax (decodeBody_unsuback _ mid)
  | pingreq =>
    have k : ((192 : UInt8) &&& 240) >>> 4 = 12 := by decide
    simp [encodeWire, decode, decodeLen, e12, k, normal]
  | pingresp =>
    have k : ((208 : UInt8) &&& 240) >>> 4 = 13 := by decide
    simp [encodeWire, decode, decodeLen, e12, e13, k, normal]
  | disconnect =>
    have k : ((224 : UInt8) &&& 240) >>> 4 = 14 := by decide
    simp [encodeWire, decode, decodeLen, e12, e13, e14, k, normal]


theorem encode_of_fits (p : Packet) (h : (parts p).2.2.length ≤ bodyRoom) : encode p = .ok (encodeWire p) := by
  cases p with
  | publish hd t mid pl =>
    have hl : ¬ (2 + t.length + pl.length + (if hd.qos > 0 then 2 else 0) > bodyRoom) := by
      have : (parts (.publish hd t mid pl)).2.2.length =
          2 + t.length + pl.length + (if hd.qos > 0 then 2 else 0) := by
        simp only [parts, writeString, putBe16_length, List.length_append]
        split <;> simp [putBe16_length] <;> omega
      omega
    simp only [encode, hl, if_false]
  | pingreq | pingresp | disconnect => rfl
  | _ =>
    have hn : ¬ ((parts _).2.2.length > bodyRoom) := Nat.not_lt.mpr h
    simp only [encode, hn, if_false]

theorem encode_publish_no_panic (h : Header) (t : Bytes) (mid : UInt16) (pl : Bytes) :
    (encode (.publish h t mid pl)).isPanic = false := by
  simp only [encode]
  generalize 2 + t.length + pl.length + (if h.qos > 0 then 2 else 0) = n
  by_cases hn : n > bodyRoom
  · simp only [hn, if_true]; rfl
  · simp only [hn, if_false]; rfl

/-- AMENDED (see REPORT.md): the extra hypothesis `hq` is needed. Without it the statement is false:
a header QoS ≥ 8 spills into the type nibble of the first byte, e.g. `.pubrel ⟨false, 64, false⟩ 0`
goes on the wire as `e0 02 ..`, which `decode` reads as DISCONNECT before looking at `max`. -/
theorem decode_oversize (p : Packet) (rest : Bytes) (max : Nat)
    (hty : p ≠ .pingreq ∧ p ≠ .pingresp ∧ p ≠ .disconnect)
    (hq : (parts p).2.1.ok = true)
    (hlen : (parts p).2.2.length < 268435456) (hbig : max < (parts p).2.2.length) :
    decode (encodeWire p ++ rest) max = .err "too-large" := by
  obtain ⟨e1, e2, e3, e4, e5, e6, e7, e8, e9, e10, e11, e12, e13, e14⟩ := tyCodes
  have hq' : (parts p).2.1.qos < 4 := by simpa [Header.ok] using hq
  have key : ∀ ty, ty < 16 → (ty ≠ tyPingreq ∧ ty ≠ tyPingresp ∧ ty ≠ tyDisconnect) →
      ty = (parts p).1 → encodeWire p = wire ty (parts p).2.1 (parts p).2.2 →
      decode (encodeWire p ++ rest) max = .err "too-large" := by
    intro ty h1 h2 _ h4
    rw [h4, decode_wire ty _ _ rest max h1 hq' hlen h2, if_pos hbig]
  cases p with
  | pingreq => exact absurd rfl hty.1
  | pingresp => exact absurd rfl hty.2.1
  | disconnect => exact absurd rfl hty.2.2
  | connect c => exact key tyConnect (by rw [e1]; decide) (by rw [e1, e12, e13, e14]; decide) rfl rfl
  | connack rc => exact key tyConnack (by rw [e2]; decide) (by rw [e2, e12, e13, e14]; decide) rfl rfl
  | publish h t mid pl => exact key tyPublish (by rw [e3]; decide) (by rw [e3, e12, e13, e14]; decide) rfl rfl
  | puback mid => exact key tyPuback (by rw [e4]; decide) (by rw [e4, e12, e13, e14]; decide) rfl rfl
  | pubrec mid => exact key tyPubrec (by rw [e5]; decide) (by rw [e5, e12, e13, e14]; decide) rfl rfl
  | pubrel h mid => exact key tyPubrel (by rw [e6]; decide) (by rw [e6, e12, e13, e14]; decide) rfl rfl
  | pubcomp mid => exact key tyPubcomp (by rw [e7]; decide) (by rw [e7, e12, e13, e14]; decide) rfl rfl
  | subscribe h mid subs => exact key tySubscribe (by rw [e8]; decide) (by rw [e8, e12, e13, e14]; decide) rfl rfl
  | suback mid qos => exact key tySuback (by rw [e9]; decide) (by rw [e9, e12, e13, e14]; decide) rfl rfl
  | unsubscribe h mid ts => exact key tyUnsubscribe (by rw [e10]; decide) (by rw [e10, e12, e13, e14]; decide) rfl rfl
  | unsuback mid => exact key tyUnsuback (by rw [e11]; decide) (by rw [e11, e12, e13, e14]; decide) rfl rfl

end Emitter.Mqtt
