import Emitter.Model.Security
import Emitter.Spec.Covers
namespace Emitter.Security
open Emitter Emitter.Spec

/-! ### Authorize: the decision logic, stated outright -/

theorem authorize_iff (e : Env) (ch : Channel) (perm : UInt8) (k : Key) :
    authorize e ch perm = some k ↔
      ch.ctype ≠ chInvalid ∧ e.banned.contains ch.key = false ∧ e.decrypt ch.key = some k ∧
      k.isExpired e.now = false ∧ e.contractOk k = true ∧ k.hasPermission perm = true ∧
      k.validateChannel ch = true := by
  sorry

/-- A key of one contract is never accepted for another: any mismatch of contract id,
signature or master id refuses the request, whatever else holds. -/
theorem contract_isolation (e : Env) (ch : Channel) (perm : UInt8) (k : Key)
    (hd : e.decrypt ch.key = some k)
    (hm : k.contract ≠ e.contractId ∨ k.signature ≠ e.signature ∨ k.master ≠ e.masterId) :
    authorize e ch perm = none := by
  sorry

theorem banned_refused (e : Env) (ch : Channel) (perm : UInt8) (h : e.banned.contains ch.key = true) :
    authorize e ch perm = none := by
  sorry

theorem expired_refused (e : Env) (ch : Channel) (perm : UInt8) (k : Key)
    (hd : e.decrypt ch.key = some k) (h : k.isExpired e.now = true) : authorize e ch perm = none := by
  sorry

theorem permission_required (e : Env) (ch : Channel) (perm : UInt8) (k : Key)
    (hd : e.decrypt ch.key = some k) (h : k.hasPermission perm = false) : authorize e ch perm = none := by
  sorry

theorem undecryptable_refused (e : Env) (ch : Channel) (perm : UInt8) (h : e.decrypt ch.key = none) :
    authorize e ch perm = none := by
  sorry

/-- a permission check for a mask succeeds iff every bit of the mask is in the key -/
theorem hasPermission_iff (k : Key) (flag : UInt8) :
    k.hasPermission flag = true ↔ k.permissions &&& flag = flag := by
  sorry

/-! ### targets -/

/-- well-formed level names: non-empty, no '/' inside -/
def levelWf (p : Bytes) : Prop := p ≠ [] ∧ sep ∉ p

/-- the bit path `SetTarget` computes for levels `tp` (exact unless `tw`) -/
def pathOf (tp : List Bytes) (tw : Bool) : Nat := (if tw then 0 else 2 ^ 23) + bitPathOf tp 0

/-- the request channel string of levels `rp` (with a trailing "#" level when `rw`) -/
def chanOf (rp : List Bytes) (rw : Bool) : Bytes := joinSlash (rp ++ (if rw then [hashSym] else [])) ++ [sep]

/-- level-list form of `Spec.covers` -/
def coversParts (tp : List Bytes) (tw : Bool) (rp : List Bytes) (rw : Bool) : Bool :=
  if tw then rp.length ≥ tp.length && levelsOk tp rp
  else !rw && rp.length == tp.length && levelsOk tp rp

/-- `SetTarget` writes the bit path and the hash of the joined levels (and nothing else) -/
theorem setTarget_fields (k : Key) (hk : k.length = 24) (tp : List Bytes) (tw : Bool)
    (hwf : ∀ p ∈ tp, levelWf p) (hne : tp ≠ [] ∨ tw = true) (hlen : tp.length ≤ 23) (hnh : hashSym ∉ tp) :
    ∃ k', k.setTarget (chanOf tp tw) = .ok k' ∧ k'.targetPath = pathOf tp tw ∧
      k'.target = Hash.hashOf (joinSlash tp) ∧ k'.length = 24 ∧
      (∀ i, i < 12 ∨ i = 15 ∨ 20 ≤ i → k'.b i = k.b i) := by
  sorry

/-- splitting the joined levels gives the levels back -/
theorem splitSlash_joinSlash (ps : List Bytes) (hne : ps ≠ []) (hwf : ∀ p ∈ ps, sep ∉ p) :
    splitSlash (joinSlash ps) = ps := by
  sorry

/-- joining is injective on '/'-free levels -/
theorem joinSlash_injective (a b : List Bytes) (ha : ∀ p ∈ a, sep ∉ p) (hb : ∀ p ∈ b, sep ∉ p)
    (hna : a ≠ []) (hnb : b ≠ []) (h : joinSlash a = joinSlash b) : a = b := by
  sorry

/-- The key "#/" (hash of the empty string, zero bit path) covers every channel. -/
theorem validate_hash_all (k : Key) (hp : k.targetPath = 0) (ht : k.target = 1325880984) (ch : Channel)
    (hc : ch.channel ≠ []) : k.validateChannel ch = true := by
  sorry

/-- ValidateChannel decides `covers`, on the targets the key format can express, provided the
one pair of strings whose 32-bit hashes it compares does not collide.
`tp`/`tw`: the levels of the target and whether it ends in '#'; `rp`/`rw`: same for the request. -/
theorem validate_covers (k : Key) (tp : List Bytes) (tw : Bool) (rp : List Bytes) (rw : Bool) (ch : Channel)
    (hpath : k.targetPath = pathOf tp tw) (hhash : k.target = Hash.hashOf (joinSlash tp))
    (hch : ch.channel = chanOf rp rw)
    (htw : ∀ p ∈ tp, levelWf p) (hrw : ∀ p ∈ rp, levelWf p) (hrne : rp ≠ [])
    (hlen : tp.length ≤ 23) (hnh : hashSym ∉ tp)
    (hsup : tp ≠ [] ∧ (tp.getLast? ≠ some plus ∨ (tw = false ∧ ∀ p ∈ tp, p = plus)))
    (hcol : ∀ m : List Bytes, (∀ p ∈ m, sep ∉ p) → m.length = tp.length →
              Hash.hashOf (joinSlash m) = Hash.hashOf (joinSlash tp) → joinSlash m = joinSlash tp) :
    k.validateChannel ch = coversParts tp tw rp rw := by
  sorry

end Emitter.Security
