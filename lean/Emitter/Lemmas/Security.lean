import Emitter.Model.Security
import Emitter.Spec.Covers
namespace Emitter.Security
open Emitter Emitter.Spec

/-! ### Authorize: the decision logic, stated outright -/

theorem authorize_iff (e : Env) (ch : Channel) (perm : UInt8) (k : Key) :
    authorize e ch perm = some k ↔
      ch.ctype ≠ chInvalid ∧ e.banned.contains ch.key = false ∧ e.decrypt ch.key = some k ∧
      k.isExpired e.now = false ∧ e.contractOk k = true ∧ k.hasPermission perm = true ∧
      k.validateChannel ch = true := by
  unfold authorize
  generalize e.banned.contains ch.key = b
  by_cases h1 : ch.ctype = chInvalid
  · simp [h1]
  · cases b with
    | true => simp [h1]
    | false =>
      cases hd : e.decrypt ch.key with
      | none => simp [h1]
      | some k' =>
        dsimp only
        by_cases hk : k' = k
        · subst hk
          generalize Key.isExpired k' e.now = b1
          generalize e.contractOk k' = b2
          generalize Key.hasPermission k' perm = b3
          generalize Key.validateChannel k' ch = b4
          cases b1 <;> cases b2 <;> cases b3 <;> cases b4 <;> simp [h1]
        · have hk' : ¬ (some k' = some k) := by simpa using hk
          simp only [hk', false_and, and_false, iff_false]
          split <;> (try split) <;> simp [hk]

theorem contract_isolation (e : Env) (ch : Channel) (perm : UInt8) (k : Key)
    (hd : e.decrypt ch.key = some k)
    (hm : k.contract ≠ e.contractId ∨ k.signature ≠ e.signature ∨ k.master ≠ e.masterId) :
    authorize e ch perm = none := by
  cases h : authorize e ch perm with
  | none => rfl
  | some k' =>
    rw [authorize_iff] at h
    obtain ⟨_, _, hd', _, hc, _⟩ := h
    rw [hd] at hd'; cases hd'
    unfold Env.contractOk at hc
    simp at hc
    rcases hm with hm | hm | hm <;> simp_all

theorem banned_refused (e : Env) (ch : Channel) (perm : UInt8) (h : e.banned.contains ch.key = true) :
    authorize e ch perm = none := by
  cases h' : authorize e ch perm with
  | none => rfl
  | some k' =>
    rw [authorize_iff] at h'
    simp_all

theorem expired_refused (e : Env) (ch : Channel) (perm : UInt8) (k : Key)
    (hd : e.decrypt ch.key = some k) (h : k.isExpired e.now = true) : authorize e ch perm = none := by
  cases h' : authorize e ch perm with
  | none => rfl
  | some k' =>
    rw [authorize_iff] at h'
    obtain ⟨_, _, hd', he, _⟩ := h'
    rw [hd] at hd'; cases hd'; simp_all

theorem permission_required (e : Env) (ch : Channel) (perm : UInt8) (k : Key)
    (hd : e.decrypt ch.key = some k) (h : k.hasPermission perm = false) : authorize e ch perm = none := by
  cases h' : authorize e ch perm with
  | none => rfl
  | some k' =>
    rw [authorize_iff] at h'
    obtain ⟨_, _, hd', _, _, hp, _⟩ := h'
    rw [hd] at hd'; cases hd'; simp_all

theorem undecryptable_refused (e : Env) (ch : Channel) (perm : UInt8) (h : e.decrypt ch.key = none) :
    authorize e ch perm = none := by
  cases h' : authorize e ch perm with
  | none => rfl
  | some k' =>
    rw [authorize_iff] at h'
    simp_all

theorem hasPermission_iff (k : Key) (flag : UInt8) :
    k.hasPermission flag = true ↔ k.permissions &&& flag = flag := by
  unfold Key.hasPermission
  simp

/-! ### targets -/

/-- well-formed level names: non-empty, no '/' inside -/
def levelWf (p : Bytes) : Prop := p ≠ [] ∧ sep ∉ p

/-- the bit path `SetTarget` computes for levels `tp` (exact unless `tw`) -/
def pathOf (tp : List Bytes) (tw : Bool) : Nat := (if tw then 0 else 2 ^ 23) + bitPathOf tp 0

/-- the request channel string of levels `rp` (with a trailing "#" level when `rw`) -/
def chanOf (rp : List Bytes) (rw : Bool) : Bytes := joinSlash (rp ++ (if rw then [hashSym] else [])) ++ [sep]

/-- level-list form of `Spec.covers` -/
def coversParts (tp : List Bytes) (tw : Bool) (rp : List Bytes) (rw : Bool) : Bool :=
  if tw then rp.length ≥ tp.length && levelsOk tp rp
  else !rw && rp.length == tp.length && levelsOk tp rp

/-! ### strings -/

theorem splitSlashAux_append (p rest acc : Bytes) (hp : sep ∉ p) :
    splitSlashAux (p ++ rest) acc = splitSlashAux rest (acc ++ p) := by
  induction p generalizing acc with
  | nil => simp
  | cons c p ih =>
    have hc : (c == sep) = false := by
      simp only [beq_eq_false_iff_ne, ne_eq]; intro h; exact hp (by simp [h])
    have hp' : sep ∉ p := fun h => hp (List.mem_cons_of_mem _ h)
    simp only [List.cons_append, splitSlashAux, hc, Bool.false_eq_true, ↓reduceIte]
    rw [ih _ hp']; simp

theorem splitSlashAux_joinSlash (p : Bytes) (ps : List Bytes) (acc : Bytes) (hwf : ∀ q ∈ p :: ps, sep ∉ q) :
    splitSlashAux (joinSlash (p :: ps)) acc = (acc ++ p) :: ps := by
  induction ps generalizing p acc with
  | nil =>
    have := splitSlashAux_append p [] acc (hwf p (by simp))
    simp only [List.append_nil] at this
    simp [joinSlash, this, splitSlashAux]
  | cons q ps ih =>
    simp only [joinSlash, List.append_assoc]
    rw [splitSlashAux_append _ _ _ (hwf p (by simp))]
    simp only [List.singleton_append, splitSlashAux, beq_self_eq_true, if_true]
    rw [ih q [] (fun r hr => hwf r (List.mem_cons_of_mem _ hr))]
    simp

theorem splitSlash_joinSlash (ps : List Bytes) (hne : ps ≠ []) (hwf : ∀ p ∈ ps, sep ∉ p) :
    splitSlash (joinSlash ps) = ps := by
  cases ps with
  | nil => exact absurd rfl hne
  | cons p ps => unfold splitSlash; rw [splitSlashAux_joinSlash p ps [] hwf]; simp

theorem joinSlash_injective (a b : List Bytes) (ha : ∀ p ∈ a, sep ∉ p) (hb : ∀ p ∈ b, sep ∉ p)
    (hna : a ≠ []) (hnb : b ≠ []) (h : joinSlash a = joinSlash b) : a = b := by
  rw [← splitSlash_joinSlash a hna ha, ← splitSlash_joinSlash b hnb hb, h]

/-- the joined string of non-empty '/'-free levels ends in a character other than '/' -/
theorem joinSlash_getLast (ps : List Bytes) (hne : ps ≠ []) (hwf : ∀ p ∈ ps, p ≠ [] ∧ sep ∉ p) :
    ∃ l c, joinSlash ps = l ++ [c] ∧ c ≠ sep := by
  induction ps with
  | nil => exact absurd rfl hne
  | cons p ps ih =>
    cases ps with
    | nil =>
      obtain ⟨hp1, hp2⟩ := hwf p (by simp)
      refine ⟨p.dropLast, p.getLast hp1, ?_, ?_⟩
      · simp [joinSlash, List.dropLast_concat_getLast]
      · intro h; exact hp2 (h ▸ List.getLast_mem hp1)
    | cons q ps =>
      obtain ⟨l, c, hl, hc⟩ := ih (by simp) (fun r hr => hwf r (List.mem_cons_of_mem _ hr))
      refine ⟨p ++ [sep] ++ l, c, ?_, hc⟩
      simp only [joinSlash] at hl ⊢
      rw [hl]; simp

theorem trimRightSlash_join (ps : List Bytes) (hne : ps ≠ []) (hwf : ∀ p ∈ ps, p ≠ [] ∧ sep ∉ p) :
    trimRightSlash (joinSlash ps ++ [sep]) = joinSlash ps := by
  obtain ⟨l, c, hl, hc⟩ := joinSlash_getLast ps hne hwf
  have hc' : (c == sep) = false := by simpa using hc
  rw [hl]; unfold trimRightSlash
  simp [List.dropWhile, hc']

/-- The key "#/" (hash of the empty string, zero bit path) covers every channel. -/
theorem validate_hash_all (k : Key) (hp : k.targetPath = 0) (ht : k.target = 1325880984) (ch : Channel)
    (hc : ch.channel ≠ []) : k.validateChannel ch = true := by
  unfold Key.validateChannel
  simp [hp, ht, hc]

/-! ### bit paths -/

/-- a level is a literal: neither "+" nor "#" -/
def lit (p : Bytes) : Bool := p != plus && p != hashSym

theorem bitSet_eq_testBit (x i : Nat) : bitSet x i = x.testBit i := by
  unfold bitSet
  rw [Nat.testBit_eq_decide_div_mod_eq]
  cases h : decide (x / 2 ^ i % 2 = 1) <;> simp_all

theorem lit_plus : lit plus = false := by decide

theorem bitPathOf_spec (ps : List Bytes) (s : Nat) (h : s + ps.length ≤ 23) :
    bitPathOf ps s < 2 ^ (23 - s) ∧
    ∀ j, s ≤ j → j ≤ 22 → (bitPathOf ps s).testBit (22 - j) = lit (ps.getD (j - s) plus) := by
  induction ps generalizing s with
  | nil =>
    refine ⟨by simp only [bitPathOf]; exact Nat.two_pow_pos _, fun j _ _ => ?_⟩
    simp [bitPathOf, lit_plus]
  | cons p ps ih =>
    simp only [List.length_cons] at h
    have hs : s ≤ 22 := by omega
    obtain ⟨hlt, hbits⟩ := ih (s + 1) (by omega)
    have e1 : 23 - (s + 1) = 22 - s := by omega
    have e2 : 23 - s = (22 - s) + 1 := by omega
    rw [e1] at hlt
    have hcond : (p != plus && p != hashSym && decide (s ≤ 22)) = lit p := by simp [lit, hs]
    unfold bitPathOf
    rw [hcond]
    constructor
    · rw [e2, Nat.pow_succ]
      split <;> omega
    · intro j hj1 hj2
      by_cases hjs : j = s
      · subst hjs
        simp only [Nat.sub_self, List.getD_cons_zero]
        cases hl : lit p
        · simp [Nat.testBit_lt_two_pow hlt]
        · simp [Nat.testBit_two_pow_add_eq, Nat.testBit_lt_two_pow hlt]
      · have hjs' : s + 1 ≤ j := by omega
        have e3 : j - s = (j - (s + 1)) + 1 := by omega
        rw [e3, List.getD_cons_succ, ← hbits j hjs' hj2]
        cases hl : lit p
        · simp
        · simp only [if_true]
          exact Nat.testBit_two_pow_add_gt (by omega) _


/-- the code's test "level `idx` of the target is a literal" -/
def litAt (P idx : Nat) : Bool := decide (idx ≤ 22) && bitSet P (22 - idx)

theorem pathOf_bit23 (tp : List Bytes) (tw : Bool) (hlen : tp.length ≤ 23) :
    bitSet (pathOf tp tw) 23 = !tw := by
  obtain ⟨hlt, -⟩ := bitPathOf_spec tp 0 (by omega)
  rw [bitSet_eq_testBit]; unfold pathOf
  cases tw
  · simp only [Bool.false_eq_true, if_false, Bool.not_false]
    rw [Nat.testBit_two_pow_add_eq, Nat.testBit_lt_two_pow hlt]; rfl
  · simp only [if_true, Nat.zero_add, Bool.not_true]
    exact Nat.testBit_lt_two_pow hlt

theorem pathOf_litAt (tp : List Bytes) (tw : Bool) (hlen : tp.length ≤ 23) (idx : Nat) :
    litAt (pathOf tp tw) idx = lit (tp.getD idx plus) := by
  obtain ⟨hlt, hbits⟩ := bitPathOf_spec tp 0 (by omega)
  unfold litAt
  by_cases h : idx ≤ 22
  · have := hbits idx (by omega) h
    simp only [Nat.sub_zero] at this
    rw [bitSet_eq_testBit]; unfold pathOf
    simp only [h, decide_true, Bool.true_and]
    cases tw
    · simp only [Bool.false_eq_true, if_false]
      rw [Nat.testBit_two_pow_add_gt (by omega)]; exact this
    · simpa using this
  · have : tp.getD idx plus = plus := by
      rw [List.getD_eq_getElem?_getD, List.getElem?_eq_none (by omega)]; rfl
    simp only [h, decide_false, Bool.false_and]
    rw [this, lit_plus]

theorem maxDepthOf_zero (P n : Nat) (h : ∀ j, j < n → bitSet P (22 - j) = false) : maxDepthOf P n = 0 := by
  induction n with
  | zero => rfl
  | succ n ih =>
    unfold maxDepthOf
    simp only [h n (by omega), Bool.false_eq_true, if_false]
    exact ih (fun j hj => h j (by omega))

theorem maxDepthOf_last (P L n : Nat) (h1 : 1 ≤ L) (h2 : L ≤ n) (h3 : n ≤ 23)
    (hb : bitSet P (22 - (L - 1)) = true) (hz : ∀ j, L ≤ j → j < n → bitSet P (22 - j) = false) :
    maxDepthOf P n = L := by
  induction n with
  | zero => omega
  | succ n ih =>
    unfold maxDepthOf
    by_cases hL : L = n + 1
    · subst hL
      simp only [Nat.add_sub_cancel] at hb
      simp only [hb, if_true]; omega
    · simp only [hz n (by omega) (by omega), Bool.false_eq_true, if_false]
      exact ih (by omega) (by omega) (fun j hj1 hj2 => hz j hj1 (by omega))

/-! ### masking -/

theorem maskParts_cons (P : Nat) (r : Bytes) (rs : List Bytes) (idx : Nat) :
    maskParts P (r :: rs) idx =
      if litAt P idx then (if r == plus then none else (maskParts P rs (idx + 1)).map (r :: ·))
      else (maskParts P rs (idx + 1)).map (plus :: ·) := rfl

theorem lit_false_eq_plus (t : Bytes) (h : lit t = false) (hh : t ≠ hashSym) : t = plus := by
  unfold lit at h
  simp only [Bool.and_eq_false_iff, bne_eq_false_iff_eq] at h
  rcases h with h | h
  · exact h
  · exact absurd h hh

theorem lit_true_ne_plus (t : Bytes) (h : lit t = true) : t ≠ plus := by
  unfold lit at h
  simp only [Bool.and_eq_true, bne_iff_ne, ne_eq] at h
  exact h.1

theorem mask_spec (P : Nat) (rp : List Bytes) : ∀ (ts : List Bytes) (idx : Nat),
    (∀ j, litAt P (idx + j) = lit (ts.getD j plus)) → hashSym ∉ ts →
    (maskParts P rp idx = none → levelsOk ts rp = false) ∧
    (∀ m, maskParts P rp idx = some m → m.length = rp.length ∧ (∀ p ∈ m, p = plus ∨ p ∈ rp) ∧
      (ts.length ≤ rp.length → (m.take ts.length = ts ↔ levelsOk ts rp = true))) := by
  induction rp with
  | nil =>
    intro ts idx _ _
    refine ⟨by simp [maskParts], ?_⟩
    intro m hm
    simp only [maskParts, Option.some.injEq] at hm
    subst hm
    refine ⟨rfl, by simp, ?_⟩
    intro hl
    have : ts = [] := by simpa using hl
    subst this; simp [levelsOk]
  | cons r rs ih =>
    intro ts idx hlit hnh
    rw [maskParts_cons]
    cases ts with
    | nil =>
      have h0 : litAt P idx = false := by simpa [lit_plus] using hlit 0
      obtain ⟨ih1, ih2⟩ := ih [] (idx + 1) (fun j => by
        have := hlit (j + 1); simp only [List.getD_nil] at this ⊢
        rw [← this]; congr 1; omega) (by simp)
      simp only [h0, Bool.false_eq_true, if_false]
      cases hm' : maskParts P rs (idx + 1) with
      | none => have := ih1 hm'; simp [levelsOk] at this
      | some m' =>
        obtain ⟨hl, hmem, _⟩ := ih2 m' hm'
        refine ⟨by simp, ?_⟩
        intro m hm
        simp only [Option.map_some, Option.some.injEq] at hm
        subst hm
        refine ⟨by simp [hl], ?_, by simp [levelsOk]⟩
        intro p hp
        rcases List.mem_cons.1 hp with hp | hp
        · exact Or.inl hp
        · rcases hmem p hp with h | h
          · exact Or.inl h
          · exact Or.inr (List.mem_cons_of_mem _ h)
    | cons t ts' =>
      have h0 : litAt P idx = lit t := by simpa using hlit 0
      have hnh' : hashSym ∉ ts' := fun h => hnh (List.mem_cons_of_mem _ h)
      have hth : t ≠ hashSym := fun h => hnh (by simp [h])
      obtain ⟨ih1, ih2⟩ := ih ts' (idx + 1) (fun j => by
        have := hlit (j + 1); simp only [List.getD_cons_succ] at this
        rw [← this]; congr 1; omega) hnh'
      rw [h0]
      cases hlt : lit t with
      | true =>
        have htp : t ≠ plus := lit_true_ne_plus t hlt
        simp only [if_true]
        by_cases hr : r = plus
        · subst hr
          simp only [beq_self_eq_true, if_true]
          refine ⟨fun _ => ?_, by simp⟩
          simp [levelsOk, levelOk, htp]
        · have hr' : (r == plus) = false := by simpa using hr
          simp only [hr', Bool.false_eq_true, if_false]
          cases hm' : maskParts P rs (idx + 1) with
          | none =>
            refine ⟨fun _ => ?_, by simp⟩
            simp [levelsOk, ih1 hm']
          | some m' =>
            obtain ⟨hl, hmem, htake⟩ := ih2 m' hm'
            refine ⟨by simp, ?_⟩
            intro m hm
            simp only [Option.map_some, Option.some.injEq] at hm
            subst hm
            refine ⟨by simp [hl], ?_, ?_⟩
            · intro p hp
              rcases List.mem_cons.1 hp with hp | hp
              · exact Or.inr (by simp [hp])
              · rcases hmem p hp with h | h
                · exact Or.inl h
                · exact Or.inr (List.mem_cons_of_mem _ h)
            · intro hlen
              simp only [List.length_cons, Nat.add_le_add_iff_right] at hlen
              simp only [List.length_cons, List.take_succ_cons, List.cons.injEq, levelsOk,
                Bool.and_eq_true]
              rw [htake hlen]
              have : levelOk t r = true ↔ r = t := by
                simp only [levelOk, Bool.or_eq_true, beq_iff_eq, Bool.and_eq_true, bne_iff_ne, ne_eq]
                constructor
                · rintro (h | ⟨h, _⟩)
                  · exact absurd h htp
                  · exact h.symm
                · intro h; exact Or.inr ⟨h.symm, hr⟩
              rw [this]
      | false =>
        have htp : t = plus := lit_false_eq_plus t hlt hth
        subst htp
        simp only [Bool.false_eq_true, if_false]
        cases hm' : maskParts P rs (idx + 1) with
        | none =>
          refine ⟨fun _ => ?_, by simp⟩
          simp [levelsOk, ih1 hm']
        | some m' =>
          obtain ⟨hl, hmem, htake⟩ := ih2 m' hm'
          refine ⟨by simp, ?_⟩
          intro m hm
          simp only [Option.map_some, Option.some.injEq] at hm
          subst hm
          refine ⟨by simp [hl], ?_, ?_⟩
          · intro p hp
            rcases List.mem_cons.1 hp with hp | hp
            · exact Or.inl hp
            · rcases hmem p hp with h | h
              · exact Or.inl h
              · exact Or.inr (List.mem_cons_of_mem _ h)
          · intro hlen
            simp only [List.length_cons, Nat.add_le_add_iff_right] at hlen
            simp only [List.length_cons, List.take_succ_cons, List.cons.injEq, levelsOk,
              Bool.and_eq_true, true_and]
            rw [htake hlen]
            simp [levelOk]

/-- with no literal position at or after `idx`, masking yields "+" everywhere -/
theorem mask_allplus (P : Nat) (rp : List Bytes) : ∀ idx, (∀ j, litAt P (idx + j) = false) →
    maskParts P rp idx = some (List.replicate rp.length plus) := by
  induction rp with
  | nil => intro _ _; rfl
  | cons r rs ih =>
    intro idx h
    rw [maskParts_cons]
    have h0 : litAt P idx = false := by simpa using h 0
    rw [h0, ih (idx + 1) (fun j => by rw [← h (j + 1)]; congr 1; omega)]
    simp [List.replicate_succ]

theorem levelsOk_allplus (ts rs : List Bytes) (h : ∀ t ∈ ts, t = plus) (hl : ts.length ≤ rs.length) :
    levelsOk ts rs = true := by
  induction ts generalizing rs with
  | nil => simp [levelsOk]
  | cons t ts ih =>
    cases rs with
    | nil => simp at hl
    | cons r rs =>
      simp only [levelsOk, Bool.and_eq_true]
      refine ⟨?_, ih rs (fun t' ht' => h t' (List.mem_cons_of_mem _ ht')) (by simpa using hl)⟩
      simp [levelOk, h t (by simp)]

theorem levelsOk_length (ts rs : List Bytes) (h : levelsOk ts rs = true) : ts.length ≤ rs.length := by
  induction ts generalizing rs with
  | nil => simp
  | cons t ts ih =>
    cases rs with
    | nil => simp [levelsOk] at h
    | cons r rs =>
      simp only [levelsOk, Bool.and_eq_true] at h
      simpa using ih rs h.2

/-! ### ValidateChannel -/

theorem hashSym_wf : hashSym ≠ [] ∧ sep ∉ hashSym := by decide

/-- what `validateChannel` computes on a well-formed request channel, with the string
handling (trim, split, trailing "#") done -/
theorem validate_unfold (k : Key) (rp : List Bytes) (rw : Bool) (ch : Channel)
    (hch : ch.channel = chanOf rp rw) (hrw : ∀ p ∈ rp, levelWf p) (hrne : rp ≠ [])
    (hrh : rw = false → rp.getLast? ≠ some hashSym) (hP : k.targetPath ≠ 0) :
    k.validateChannel ch =
      (if rp.length < (if maxDepthOf k.targetPath 23 == 0 then rp.length else maxDepthOf k.targetPath 23) ||
          (bitSet k.targetPath 23 && (rw || rp.length != (if maxDepthOf k.targetPath 23 == 0 then rp.length else maxDepthOf k.targetPath 23)))
       then false else
       match maskParts k.targetPath rp 0 with
       | none => false
       | some masked => Hash.hashOf (joinSlash (masked.take (if maxDepthOf k.targetPath 23 == 0 then rp.length else maxDepthOf k.targetPath 23))) == k.target) := by
  have hwf0 : ∀ p ∈ rp ++ (if rw then [hashSym] else []), p ≠ [] ∧ sep ∉ p := by
    intro p hp
    rcases List.mem_append.1 hp with hp | hp
    · exact hrw p hp
    · cases rw
      · simp at hp
      · simp only [if_true, List.mem_singleton] at hp; subst hp; exact hashSym_wf
  have hne0 : rp ++ (if rw then [hashSym] else []) ≠ [] := by simp [hrne]
  have hA : (chanOf rp rw).isEmpty = false := by simp [chanOf]
  have hB : (chanOf rp rw).getLast? = some sep := by simp [chanOf]
  have hC : (chanOf rp rw).dropLast = joinSlash (rp ++ (if rw then [hashSym] else [])) := by
    simp [chanOf]
  have hD := splitSlash_joinSlash _ hne0 (fun p hp => (hwf0 p hp).2)
  have hE : ((rp ++ (if rw then [hashSym] else [])).getLast? == some hashSym) = rw := by
    cases rw
    · simp only [Bool.false_eq_true, if_false, List.append_nil]
      simpa using hrh rfl
    · simp
  have hF : (if rw = true then (rp ++ (if rw then [hashSym] else [])).dropLast else rp ++ (if rw then [hashSym] else [])) = rp := by
    cases rw <;> simp
  have hP' : (k.targetPath == 0) = false := by simpa using hP
  unfold Key.validateChannel
  simp only [hch, hA, hB, hC, hD, hE, hF, hP', beq_self_eq_true, if_true, Bool.false_eq_true, if_false]
  rfl

theorem getD_allplus (tp : List Bytes) (h : ∀ p ∈ tp, p = plus) (j : Nat) : tp.getD j plus = plus := by
  rw [List.getD_eq_getElem?_getD]
  cases hj : tp[j]? with
  | none => rfl
  | some x => exact h x (List.mem_of_getElem? hj)

theorem litAt_eq_bitSet (P j : Nat) (h : j ≤ 22) : bitSet P (22 - j) = litAt P j := by
  simp [litAt, h]

theorem bitSet_zero (i : Nat) : bitSet 0 i = false := by simp [bitSet]

theorem replicate_eq_of_all (tp : List Bytes) (h : ∀ p ∈ tp, p = plus) :
    List.replicate tp.length plus = tp := by
  induction tp with
  | nil => rfl
  | cons t ts ih =>
    rw [List.length_cons, List.replicate_succ, ih (fun p hp => h p (List.mem_cons_of_mem _ hp)),
      h t (by simp)]

/-- `validate_covers` in a sharper form: the non-collision hypotheses speak only of the one pair of
strings the code actually hashes and compares (the masked request cut to the target's depth
against the target), and a last request level "#" is excluded only when `rw = false`. -/
theorem validate_covers_gen (k : Key) (tp : List Bytes) (tw : Bool) (rp : List Bytes) (rw : Bool) (ch : Channel)
    (hpath : k.targetPath = pathOf tp tw) (hhash : k.target = Hash.hashOf (joinSlash tp))
    (hch : ch.channel = chanOf rp rw)
    (htw : ∀ p ∈ tp, levelWf p) (hrw : ∀ p ∈ rp, levelWf p) (hrne : rp ≠ [])
    (hlen : tp.length ≤ 23) (hnh : hashSym ∉ tp)
    (hsup : tp ≠ [] ∧ (tp.getLast? ≠ some plus ∨ (tw = false ∧ ∀ p ∈ tp, p = plus)))
    (hcol : ∀ m : List Bytes, maskParts (pathOf tp tw) rp 0 = some m →
              (∀ p ∈ m.take tp.length, sep ∉ p) → (m.take tp.length).length = tp.length →
              Hash.hashOf (joinSlash (m.take tp.length)) = Hash.hashOf (joinSlash tp) →
              joinSlash (m.take tp.length) = joinSlash tp)
    (hrh : rw = false → rp.getLast? ≠ some hashSym)
    (hcolp : (tw = false ∧ ∀ p ∈ tp, p = plus) →
              Hash.hashOf (joinSlash (List.replicate rp.length plus)) = Hash.hashOf (joinSlash tp) →
              rp.length = tp.length) :
    k.validateChannel ch = coversParts tp tw rp rw := by
  obtain ⟨htne, hsup⟩ := hsup
  have hL1 : 1 ≤ tp.length := by
    cases tp with
    | nil => exact absurd rfl htne
    | cons _ _ => simp
  have hlitAt := pathOf_litAt tp tw hlen
  have hb23 := pathOf_bit23 tp tw hlen
  have hplus_sep : sep ∉ plus := by decide
  rcases hsup with hlast | ⟨htwf, hall⟩
  · -- the last level of the target is a literal
    have hlastlit : lit (tp.getD (tp.length - 1) plus) = true := by
      have hl : tp.getLast? = some (tp.getD (tp.length - 1) plus) := by
        rw [List.getLast?_eq_getElem?, List.getD_eq_getElem?_getD,
          List.getElem?_eq_getElem (by omega)]; rfl
      have hmem : tp.getD (tp.length - 1) plus ∈ tp := List.mem_of_getLast? hl
      unfold lit
      simp only [Bool.and_eq_true, bne_iff_ne, ne_eq]
      refine ⟨fun h => hlast (by rw [hl, h]), fun h => hnh (h ▸ hmem)⟩
    have hbit : bitSet (pathOf tp tw) (22 - (tp.length - 1)) = true := by
      rw [litAt_eq_bitSet _ _ (by omega), hlitAt]; exact hlastlit
    have hP : k.targetPath ≠ 0 := by
      intro h0
      rw [← hpath, h0, bitSet_zero] at hbit
      exact Bool.noConfusion hbit
    have hmd : maxDepthOf (pathOf tp tw) 23 = tp.length := by
      apply maxDepthOf_last _ _ _ hL1 hlen (by omega) hbit
      intro j hj1 hj2
      rw [litAt_eq_bitSet _ _ (by omega), hlitAt,
        List.getD_eq_getElem?_getD, List.getElem?_eq_none (by omega)]
      exact lit_plus
    rw [validate_unfold k rp rw ch hch hrw hrne hrh hP, hpath, hmd, hb23, hhash]
    have hne0 : (tp.length == 0) = false := by simp; omega
    simp only [hne0, Bool.false_eq_true, if_false]
    obtain ⟨hm1, hm2⟩ := mask_spec (pathOf tp tw) rp tp 0 (fun j => by rw [Nat.zero_add]; exact hlitAt j) hnh
    unfold coversParts
    by_cases hlt : rp.length < tp.length
    · have hlo : levelsOk tp rp = false := by
        cases h : levelsOk tp rp with
        | false => rfl
        | true => have := levelsOk_length _ _ h; omega
      simp [hlt, hlo]
    · have hge : tp.length ≤ rp.length := by omega
      have hX : ∀ m, maskParts (pathOf tp tw) rp 0 = some m →
          (Hash.hashOf (joinSlash (m.take tp.length)) == Hash.hashOf (joinSlash tp)) = levelsOk tp rp := by
        intro m hm
        obtain ⟨hml, hmem, htake⟩ := hm2 m hm
        have htake := htake hge
        have hsepm : ∀ p ∈ m.take tp.length, sep ∉ p := by
          intro p hp
          rcases hmem p (List.mem_of_mem_take hp) with h | h
          · rw [h]; exact hplus_sep
          · exact (hrw p h).2
        have hlenm : (m.take tp.length).length = tp.length := by
          rw [List.length_take]; omega
        have hnem : m.take tp.length ≠ [] := by
          intro h; rw [h] at hlenm; simp at hlenm; omega
        cases hlo : levelsOk tp rp with
        | true =>
          rw [htake.2 hlo]; simp
        | false =>
          simp only [beq_eq_false_iff_ne, ne_eq]
          intro hh
          have hj := hcol m hm hsepm hlenm hh
          have := joinSlash_injective _ _ hsepm (fun p hp => (htw p hp).2) hnem htne hj
          rw [htake.1 this] at hlo
          exact Bool.noConfusion hlo
      cases hm : maskParts (pathOf tp tw) rp 0 with
      | none =>
        have hlo := hm1 hm
        cases tw <;> cases rw <;> simp [hlo]
      | some m =>
        have hx := hX m hm
        simp only [hx]
        cases tw
        · -- exact target
          by_cases heq : rp.length = tp.length
          · cases rw <;> simp [heq]
          · cases rw <;> simp [hlt, heq]
        · simp [hlt, hge]
  · -- an exact target made of "+" levels only
    subst htwf
    have hlitF : ∀ j, litAt (pathOf tp false) j = false := by
      intro j; rw [hlitAt, getD_allplus tp hall]; exact lit_plus
    have hP : k.targetPath ≠ 0 := by
      intro h0
      rw [← hpath, h0, bitSet_zero] at hb23
      exact Bool.noConfusion hb23
    have hmd : maxDepthOf (pathOf tp false) 23 = 0 := by
      apply maxDepthOf_zero
      intro j hj
      rw [litAt_eq_bitSet _ _ (by omega)]; exact hlitF j
    rw [validate_unfold k rp rw ch hch hrw hrne hrh hP, hpath, hmd, hb23, hhash,
      mask_allplus _ rp 0 (fun j => hlitF _)]
    unfold coversParts
    simp only [beq_self_eq_true, if_true, Nat.lt_irrefl, decide_false, Bool.false_or, Bool.not_false,
      Bool.true_and, bne_self_eq_false, Bool.or_false, List.take_replicate, Nat.min_self,
      Bool.false_eq_true, if_false]
    cases rw
    · simp only [Bool.false_eq_true, if_false, Bool.not_false, Bool.true_and]
      by_cases heq : rp.length = tp.length
      · rw [heq, replicate_eq_of_all tp hall, levelsOk_allplus tp rp hall (by omega)]
        simp
      · have : Hash.hashOf (joinSlash (List.replicate rp.length plus)) ≠ Hash.hashOf (joinSlash tp) :=
          fun h => heq (hcolp ⟨rfl, hall⟩ h)
        have h1 : (Hash.hashOf (joinSlash (List.replicate rp.length plus)) == Hash.hashOf (joinSlash tp)) = false := by
          rw [beq_eq_false_iff_ne]; exact this
        have h2 : (rp.length == tp.length) = false := by
          rw [beq_eq_false_iff_ne]; exact heq
        rw [h1, h2]; rfl
    · rfl

/-! ### SetTarget -/

theorem setAt_length (k : Key) (i : Nat) (v : Bytes) (h : i + v.length ≤ k.length) :
    (k.setAt i v).length = k.length := by
  unfold Key.setAt
  simp only [List.length_append, List.length_take, List.length_drop]
  omega

theorem setAt_b_out (k : Key) (i : Nat) (v : Bytes) (j : Nat) (h : i + v.length ≤ k.length)
    (hj : j < i ∨ i + v.length ≤ j) : (k.setAt i v).b j = k.b j := by
  unfold Key.b Key.setAt
  simp only [List.getD_eq_getElem?_getD]
  congr 1
  have hl : (k.take i ++ v).length = i + v.length := by
    simp only [List.length_append, List.length_take]; omega
  rcases hj with hj | hj
  · rw [List.getElem?_append_left (by rw [hl]; omega), List.getElem?_append_left (by simp; omega),
      List.getElem?_take_of_lt hj]
  · rw [List.getElem?_append_right (by rw [hl]; omega), hl, List.getElem?_drop]
    congr 1; omega

theorem setAt_b_in (k : Key) (i : Nat) (v : Bytes) (j : Nat) (h : i ≤ k.length)
    (hj1 : i ≤ j) (hj2 : j < i + v.length) : (k.setAt i v).b j = v.getD (j - i) 0 := by
  unfold Key.b Key.setAt
  simp only [List.getD_eq_getElem?_getD]
  congr 1
  have hl : (k.take i).length = i := by simp only [List.length_take]; omega
  rw [List.append_assoc, List.getElem?_append_right (by rw [hl]; omega), hl,
    List.getElem?_append_left (by omega)]

theorem setTarget_eq (k : Key) (tp : List Bytes) (tw : Bool)
    (hwf : ∀ p ∈ tp, levelWf p) (hne : tp ≠ [] ∨ tw = true) (hlen : tp.length ≤ 23) (hnh : hashSym ∉ tp) :
    k.setTarget (chanOf tp tw) =
      .ok ((k.setAt 12 [UInt8.ofNat (pathOf tp tw / 65536), UInt8.ofNat (pathOf tp tw / 256),
        UInt8.ofNat (pathOf tp tw)]).setAt 16 (putBe32 (Hash.hashOf (joinSlash tp)))) := by
  have hwf0 : ∀ p ∈ tp ++ (if tw then [hashSym] else []), p ≠ [] ∧ sep ∉ p := by
    intro p hp
    rcases List.mem_append.1 hp with hp | hp
    · exact hwf p hp
    · cases tw
      · simp at hp
      · simp only [if_true, List.mem_singleton] at hp; subst hp; decide
  have hne0 : tp ++ (if tw then [hashSym] else []) ≠ [] := by
    rcases hne with h | h
    · simp [h]
    · simp [h]
  have hB : ((chanOf tp tw).getLast? != some sep) = false := by simp [chanOf]
  have hC : trimRightSlash (chanOf tp tw) = joinSlash (tp ++ (if tw then [hashSym] else [])) :=
    trimRightSlash_join _ hne0 hwf0
  have hD := splitSlash_joinSlash _ hne0 (fun p hp => (hwf0 p hp).2)
  have hE : ((tp ++ (if tw then [hashSym] else [])).getLast? == some hashSym) = tw := by
    cases tw
    · simp only [Bool.false_eq_true, if_false, List.append_nil, beq_eq_false_iff_ne, ne_eq]
      intro h
      exact hnh (List.mem_of_getLast? h)
    · simp
  have hF : (if tw = true then (tp ++ (if tw then [hashSym] else [])).dropLast else tp ++ (if tw then [hashSym] else [])) = tp := by
    cases tw <;> simp
  have hG : ¬ (tp.length > 23) := by omega
  unfold Key.setTarget
  simp only [hB, hC, hD, hE, hF, hG, Bool.false_eq_true, if_false]
  rfl

theorem pathOf_lt (tp : List Bytes) (tw : Bool) (hlen : tp.length ≤ 23) : pathOf tp tw < 16777216 := by
  obtain ⟨hlt, -⟩ := bitPathOf_spec tp 0 (by omega)
  unfold pathOf
  simp only [Nat.sub_zero] at hlt
  split <;> omega

/-- `SetTarget` writes the bit path and the hash of the joined levels (and nothing else) -/
theorem setTarget_fields (k : Key) (hk : k.length = 24) (tp : List Bytes) (tw : Bool)
    (hwf : ∀ p ∈ tp, levelWf p) (hne : tp ≠ [] ∨ tw = true) (hlen : tp.length ≤ 23) (hnh : hashSym ∉ tp) :
    ∃ k', k.setTarget (chanOf tp tw) = .ok k' ∧ k'.targetPath = pathOf tp tw ∧
      k'.target = Hash.hashOf (joinSlash tp) ∧ k'.length = 24 ∧
      (∀ i, i < 12 ∨ i = 15 ∨ 20 ≤ i → k'.b i = k.b i) := by
  have hP := pathOf_lt tp tw hlen
  have hl3 : ([UInt8.ofNat (pathOf tp tw / 65536), UInt8.ofNat (pathOf tp tw / 256),
      UInt8.ofNat (pathOf tp tw)] : Bytes).length = 3 := rfl
  have hl4 : (putBe32 (Hash.hashOf (joinSlash tp))).length = 4 := rfl
  have hk1 := setAt_length k 12 _ (by rw [hl3, hk]; omega : 12 + ([UInt8.ofNat (pathOf tp tw / 65536),
      UInt8.ofNat (pathOf tp tw / 256), UInt8.ofNat (pathOf tp tw)] : Bytes).length ≤ k.length)
  rw [hk] at hk1
  refine ⟨_, setTarget_eq k tp tw hwf hne hlen hnh, ?_, ?_, ?_, ?_⟩
  · unfold Key.targetPath
    rw [setAt_b_out _ 16 _ 12 (by rw [hl4, hk1]; omega) (Or.inl (by omega)),
      setAt_b_out _ 16 _ 13 (by rw [hl4, hk1]; omega) (Or.inl (by omega)),
      setAt_b_out _ 16 _ 14 (by rw [hl4, hk1]; omega) (Or.inl (by omega)),
      setAt_b_in _ 12 _ 12 (by omega) (by omega) (by rw [hl3]; omega),
      setAt_b_in _ 12 _ 13 (by omega) (by omega) (by rw [hl3]; omega),
      setAt_b_in _ 12 _ 14 (by omega) (by omega) (by rw [hl3]; omega)]
    simp only [Nat.sub_self, List.getD_cons_zero, List.getD_cons_succ, UInt8.toNat_ofNat']
    omega
  · unfold Key.target
    rw [setAt_b_in _ 16 _ 16 (by omega) (by omega) (by rw [hl4]; omega),
      setAt_b_in _ 16 _ 17 (by omega) (by omega) (by rw [hl4]; omega),
      setAt_b_in _ 16 _ 18 (by omega) (by omega) (by rw [hl4]; omega),
      setAt_b_in _ 16 _ 19 (by omega) (by omega) (by rw [hl4]; omega)]
    exact be32_putBe32 _
  · rw [setAt_length _ 16 _ (by rw [hl4, hk1]; omega), hk1]
  · intro i hi
    rw [setAt_b_out _ 16 _ i (by rw [hl4, hk1]; omega) (by rw [hl4]; omega),
      setAt_b_out _ 12 _ i (by rw [hl3, hk]; omega) (by rw [hl3]; omega)]

/-- ValidateChannel decides `covers`, on the targets the key format can express, provided the
one pair of strings whose 32-bit hashes it compares does not collide.
`tp`/`tw`: the levels of the target and whether it ends in '#'; `rp`/`rw`: same for the request.

Two hypotheses were added to the statement as first written:
* `hrh`: the last level of the request is not itself "#" (the code cannot tell such a level from
  the trailing wildcard marker; without it the statement is false: target `+/` (exact), request
  levels `["#"]`, `rw = false` is refused by the code but covered by the spec);
* `hcolp`: for an exact target made of "+" levels only the code has no depth to compare (no
  literal bit is set, so `maxDepth` is the request's own depth) and the depth check is left to the
  hash comparison of "+/+/…/+" (request depth) against the target; `hcol` says nothing about
  strings of another depth, so that pair is assumed not to collide either. -/
theorem validate_covers (k : Key) (tp : List Bytes) (tw : Bool) (rp : List Bytes) (rw : Bool) (ch : Channel)
    (hpath : k.targetPath = pathOf tp tw) (hhash : k.target = Hash.hashOf (joinSlash tp))
    (hch : ch.channel = chanOf rp rw)
    (htw : ∀ p ∈ tp, levelWf p) (hrw : ∀ p ∈ rp, levelWf p) (hrne : rp ≠ [])
    (hlen : tp.length ≤ 23) (hnh : hashSym ∉ tp)
    (hsup : tp ≠ [] ∧ (tp.getLast? ≠ some plus ∨ (tw = false ∧ ∀ p ∈ tp, p = plus)))
    (hcol : ∀ m : List Bytes, (∀ p ∈ m, sep ∉ p) → m.length = tp.length →
              Hash.hashOf (joinSlash m) = Hash.hashOf (joinSlash tp) → joinSlash m = joinSlash tp)
    (hrh : rp.getLast? ≠ some hashSym)
    (hcolp : (tw = false ∧ ∀ p ∈ tp, p = plus) →
              Hash.hashOf (joinSlash (List.replicate rp.length plus)) = Hash.hashOf (joinSlash tp) →
              rp.length = tp.length) :
    k.validateChannel ch = coversParts tp tw rp rw :=
  validate_covers_gen k tp tw rp rw ch hpath hhash hch htw hrw hrne hlen hnh hsup
    (fun _ _ h1 h2 hh => hcol _ h1 h2 hh) (fun _ => hrh) hcolp

end Emitter.Security
