/-
  Proofs for C17: byte-stream preservation of the sniffer / serve loop, the write queue and
  the websocket transport, by state-machine invariants and induction over arbitrary
  read / write sequences.
-/
import Emitter.Model.Transport

set_option linter.unusedSimpArgs false

namespace Emitter.Transport
open Emitter

/-! ## the chunked source -/

theorem Src.read_stream (s : Src) (n : Nat) : (s.read n).1 ++ (s.read n).2.2.stream = s.stream := by
  obtain ⟨chunks, t⟩ := s
  unfold Src.read Src.stream
  cases chunks with
  | nil => simp
  | cons c rest =>
      by_cases hc : c.length ≤ n
      · simp [hc]
      · simp [hc, ← List.append_assoc, List.take_append_drop]

theorem Src.read_len (s : Src) (n : Nat) : (s.read n).1.length ≤ n := by
  unfold Src.read
  cases h : s.chunks with
  | nil => simp
  | cons c rest =>
      by_cases hc : c.length ≤ n
      · simp [hc]
      · simp [hc, List.length_take]; omega

/-- a call that reports the error leaves the source exhausted -/
theorem Src.read_err (s : Src) (n : Nat) (h : (s.read n).2.1 = true) : (s.read n).2.2.chunks = [] := by
  unfold Src.read at h ⊢
  cases hs : s.chunks with
  | nil => simp [hs]
  | cons c rest =>
      rw [hs] at h
      by_cases hc : c.length ≤ n
      · simp [hc] at h ⊢; exact h.2
      · simp [hc] at h

theorem Src.read_tailErr (s : Src) (n : Nat) : (s.read n).2.2.tailErr = s.tailErr := by
  unfold Src.read
  cases hs : s.chunks with
  | nil => simp
  | cons c rest => by_cases hc : c.length ≤ n <;> simp [hc]

/-- a source that never reports the error together with data (`net.Conn`) -/
theorem Src.read_err_nodata (s : Src) (n : Nat) (ht : s.tailErr = false) (h : (s.read n).2.1 = true) :
    (s.read n).1 = [] := by
  unfold Src.read at h ⊢
  cases hs : s.chunks with
  | nil => simp
  | cons c rest =>
      rw [hs] at h
      by_cases hc : c.length ≤ n
      · simp [hc, ht] at h
      · simp [hc] at h

/-- an exhausted source stays exhausted -/
theorem Src.read_nil (s : Src) (n : Nat) (h : s.chunks = []) :
    (s.read n).1 = [] ∧ (s.read n).2.2.chunks = [] := by
  unfold Src.read; simp [h]

/-- progress: a call with a non-empty buffer returns a byte, reports the error, or uses up an
(empty) chunk -/
theorem Src.read_progress (s : Src) (n : Nat) (hn : 0 < n) :
    (s.read n).1 ≠ [] ∨ (s.read n).2.1 = true ∨ (s.read n).2.2.chunks.length < s.chunks.length := by
  unfold Src.read
  cases hs : s.chunks with
  | nil => simp
  | cons c rest =>
      by_cases hc : c.length ≤ n
      · simp [hc]
      · simp only [hc, if_false]
        left
        cases c with
        | nil => simp at hc
        | cons a t =>
            cases n with
            | zero => omega
            | succ k => simp

theorem stream_nil (s : Src) (h : s.chunks = []) : s.stream = [] := by
  unfold Src.stream; simp [h]

/-! ## sniffer: invariants -/

/-- what holds of the sniffer between phases, for the client stream `T` -/
structure Base (T : Bytes) (s : Sniffer) : Prop where
  str : s.buf ++ s.src.stream = T
  le : s.lastErr = true → s.src.chunks = []

/-- inside a sniffing phase that has returned `out` so far -/
structure SInv (T : Bytes) (s : Sniffer) (out : Bytes) : Prop where
  sn : s.sniffing = true
  str : s.buf ++ s.src.stream = T
  le1 : s.bufRead ≤ s.bufSize
  le2 : s.bufSize ≤ s.buf.length
  full : s.bufRead < s.bufSize → s.bufSize = s.buf.length
  out : out = s.buf.take s.bufRead ++ s.buf.drop s.bufSize
  le : s.lastErr = true → s.src.chunks = []

/-- after `doneSniffing`, having returned `out` so far -/
structure DInv (T : Bytes) (s : Sniffer) (out : Bytes) : Prop where
  sn : s.sniffing = false
  le1 : s.bufRead ≤ s.bufSize
  le2 : s.bufRead < s.bufSize → s.bufSize ≤ s.buf.length
  str : out ++ s.pending ++ s.src.stream = T
  le : s.lastErr = true → s.src.chunks = []

theorem Base.new (src : Src) : Base src.stream (Sniffer.new src) := by
  constructor <;> simp [Sniffer.new]

theorem SInv.base {T s out} (h : SInv T s out) : Base T s := ⟨h.str, h.le⟩

theorem Base.start {T s} (h : Base T s) : SInv T (s.reset true) [] := by
  constructor <;> simp [Sniffer.reset, h.str]
  exact h.le

theorem Base.done {T s} (h : Base T s) : DInv T (s.reset false) [] := by
  constructor
  · simp [Sniffer.reset]
  · simp [Sniffer.reset]
  · simp [Sniffer.reset]
  · simp only [Sniffer.reset, Sniffer.pending, List.nil_append]
    by_cases hb : 0 < s.buf.length
    · simp [hb, h.str]
    · have : s.buf = [] := by
        cases hbb : s.buf with
        | nil => rfl
        | cons a t => simp [hbb] at hb
      have hs := h.str
      rw [this] at hs
      simpa [this] using hs
  · simpa [Sniffer.reset] using h.le

theorem SInv.prefix {T s out} (h : SInv T s out) : out <+: T := by
  rw [h.out, ← h.str]
  by_cases hr : s.bufRead < s.bufSize
  · have := h.full hr
    rw [this, List.drop_length, List.append_nil]
    exact List.IsPrefix.trans (List.take_prefix _ _) (List.prefix_append _ _)
  · have : s.bufRead = s.bufSize := by have := h.le1; omega
    rw [this, List.take_append_drop]
    exact List.prefix_append _ _

theorem take_length_take {α} (l : List α) (n : Nat) : l.take (l.take n).length = l.take n := by
  rw [List.take_eq_take_iff, List.length_take]; omega

/-- one `Read` inside a sniffing phase -/
theorem SInv.read {T s out} (h : SInv T s out) (n : Nat) :
    SInv T (s.read n).2 (out ++ (s.read n).1.data) := by
  unfold Sniffer.read
  by_cases hr : s.bufRead < s.bufSize
  · -- replay
    have hz := h.full hr
    simp only [hr, if_true]
    have htake : s.buf.take s.bufSize = s.buf := by rw [hz]; exact List.take_length
    have hlen : ((s.buf.drop s.bufRead).take n).length ≤ s.bufSize - s.bufRead := by
      simp [List.length_take, List.length_drop]; omega
    constructor
    · exact h.sn
    · exact h.str
    · simp only [htake]; omega
    · exact h.le2
    · intro _; exact hz
    · simp only [htake]
      rw [h.out, hz, List.drop_length, List.append_nil, List.append_nil]
      rw [List.take_add, take_length_take]
    · exact h.le
  · -- read the source
    have he : s.bufRead = s.bufSize := by have := h.le1; omega
    simp only [hr, if_false, h.sn, if_true]
    have hs := Src.read_stream s.src n
    have herr := Src.read_err s.src n
    have hnil := fun hc => (Src.read_nil s.src n hc).2
    generalize s.src.read n = res at hs herr hnil
    obtain ⟨d, e, src'⟩ := res
    simp only at hs herr hnil
    cases d with
    | nil =>
        simp only [List.length_nil, Nat.lt_irrefl, decide_false, Bool.false_and, Bool.false_eq_true, if_false]
        simp only [List.nil_append] at hs
        constructor
        · rfl
        · show s.buf ++ src'.stream = T
          rw [hs]; exact h.str
        · exact h.le1
        · exact h.le2
        · exact h.full
        · show out ++ [] = _
          rw [List.append_nil]; exact h.out
        · intro hl; exact hnil (h.le hl)
    | cons a t =>
        simp only [List.length_cons, Nat.zero_lt_succ, decide_true, h.sn, Bool.and_self, if_true]
        constructor
        · rfl
        · show (s.buf ++ a :: t) ++ src'.stream = T
          rw [List.append_assoc, hs]; exact h.str
        · exact h.le1
        · show s.bufSize ≤ (s.buf ++ a :: t).length
          rw [List.length_append]; have := h.le2; omega
        · intro hh; exact absurd hh hr
        · show out ++ (a :: t) = (s.buf ++ a :: t).take s.bufRead ++ (s.buf ++ a :: t).drop s.bufSize
          rw [h.out, List.take_append_of_le_length (by have := h.le2; omega),
            List.drop_append_of_le_length h.le2, List.append_assoc]
        · intro hl; exact herr hl

@[simp] theorem cat_nil : cat [] = [] := rfl
@[simp] theorem cat_cons (r : RR) (rs : List RR) : cat (r :: rs) = r.data ++ cat rs := by simp [cat]
@[simp] theorem cat_append (a b : List RR) : cat (a ++ b) = cat a ++ cat b := by simp [cat]

theorem pending_of_not_lt {s : Sniffer} (h : ¬ s.bufRead < s.bufSize) : s.pending = [] := by
  simp [Sniffer.pending, h]

/-- one `Read` after `doneSniffing`: the stream equation is kept, and a call that reports the
error without raising the flag has delivered the last byte -/
theorem DInv.read {T s out} (h : DInv T s out) (n : Nat) :
    DInv T (s.read n).2 (out ++ (s.read n).1.data) ∧
    ((s.read n).1.err = true → (s.read n).1.early = false → out ++ (s.read n).1.data = T) := by
  unfold Sniffer.read
  by_cases hr : s.bufRead < s.bufSize
  · simp only [hr, if_true]
    have hp : s.pending = (s.buf.take s.bufSize).drop s.bufRead := by simp [Sniffer.pending, hr]
    have hstr := h.str
    rw [hp] at hstr
    have hPlen : ((s.buf.take s.bufSize).drop s.bufRead).length = s.bufSize - s.bufRead := by
      simp [List.length_drop, List.length_take]; have := h.le2 hr; omega
    generalize (s.buf.take s.bufSize).drop s.bufRead = P at hstr hPlen hp
    have hk : (P.take n).length = min n P.length := List.length_take
    have hpend : Sniffer.pending { s with bufRead := s.bufRead + (P.take n).length } = P.drop n := by
      unfold Sniffer.pending
      by_cases hlt : s.bufRead + (P.take n).length < s.bufSize
      · simp only [hlt, if_true]
        have : (P.take n).length = n := by omega
        rw [this, ← List.drop_drop]
        have hp' := hp
        simp only [Sniffer.pending, hr, if_true] at hp'
        rw [← hp']
      · simp only [hlt, if_false]
        symm; apply List.drop_of_length_le; omega
    refine ⟨⟨h.sn, ?_, ?_, ?_, h.le⟩, ?_⟩
    · show s.bufRead + (P.take n).length ≤ s.bufSize
      omega
    · intro _; exact h.le2 hr
    · rw [hpend]
      show out ++ P.take n ++ P.drop n ++ s.src.stream = T
      rw [List.append_assoc out, List.take_append_drop]; exact hstr
    · intro he hearly
      have he : s.lastErr = true := he
      have hearly : (s.lastErr && decide (s.bufRead + (P.take n).length < s.bufSize)) = false := hearly
      simp only [he, Bool.true_and, decide_eq_false_iff_not] at hearly
      have hn : P.length ≤ n := by omega
      show out ++ P.take n = T
      rw [List.take_of_length_le hn]
      have := stream_nil _ (h.le he)
      rw [this, List.append_nil] at hstr
      exact hstr
  · simp only [hr, if_false, h.sn, Bool.false_eq_true, if_false]
    have hp : s.pending = [] := by simp [Sniffer.pending, hr]
    have hstr := h.str
    rw [hp, List.append_nil] at hstr
    have hs := Src.read_stream s.src n
    have herr := Src.read_err s.src n
    have hnil := fun hc => (Src.read_nil s.src n hc).2
    generalize s.src.read n = res at hs herr hnil
    obtain ⟨d, e, src'⟩ := res
    simp only at hs herr hnil
    simp only [Bool.and_false, Bool.false_eq_true, if_false]
    refine ⟨⟨rfl, h.le1, ?_, ?_, ?_⟩, ?_⟩
    · intro hh; exact absurd hh hr
    · rw [pending_of_not_lt (by exact hr)]
      show out ++ d ++ [] ++ src'.stream = T
      rw [List.append_nil, List.append_assoc, hs]; exact hstr
    · intro hl; exact hnil (h.le hl)
    · intro he _
      show out ++ d = T
      have := stream_nil _ (herr he)
      rw [this, List.append_nil] at hs
      rw [hs]; exact hstr

/-- a source that never reports the error together with data never sets `lastErr`, so the
flagged branch is never taken -/
def NoTail (s : Sniffer) : Prop := s.src.tailErr = false ∧ s.lastErr = false

theorem NoTail.reset {s} (h : NoTail s) (b : Bool) : NoTail (s.reset b) := h

theorem NoTail.read {s} (h : NoTail s) (n : Nat) : NoTail (s.read n).2 ∧ (s.read n).1.early = false := by
  unfold Sniffer.read
  by_cases hr : s.bufRead < s.bufSize
  · simp only [hr, if_true]
    exact ⟨h, by simp [h.2]⟩
  · simp only [hr, if_false]
    have h1 : NoTail (if s.sniffing then s else { s with buf := [] }) := by
      by_cases hs : s.sniffing <;> simp [hs] <;> exact h
    generalize (if s.sniffing then s else { s with buf := [] }) = s1 at h1
    have ht := Src.read_tailErr s1.src n
    have hd := Src.read_err_nodata s1.src n h1.1
    generalize s1.src.read n = res at ht hd
    obtain ⟨d, e, src'⟩ := res
    simp only at ht hd
    by_cases hc : (0 < d.length && s1.sniffing) = true
    · simp only [hc, if_true]
      refine ⟨⟨by show src'.tailErr = false; rw [ht]; exact h1.1, ?_⟩, by first | rfl | trivial⟩
      show e = false
      cases e with
      | false => rfl
      | true =>
          have := hd rfl
          simp [this] at hc
    · simp only [hc, if_false]
      exact ⟨⟨by show src'.tailErr = false; rw [ht]; exact h1.1, h1.2⟩, by first | rfl | trivial⟩

/-! ### sequences of reads, `io.ReadFull`, matchers -/

theorem SInv.reads {T} : ∀ (ns : List Nat) {s out}, SInv T s out →
    SInv T (s.reads ns).2 (out ++ cat (s.reads ns).1)
  | [], s, out, h => by simpa [Sniffer.reads] using h
  | n :: ns, s, out, h => by
      have h1 := h.read n
      have h2 := SInv.reads ns h1
      simp only [Sniffer.reads, cat_cons]
      rw [← List.append_assoc]; exact h2

/-- every error is reported only once everything was delivered -/
def errAtEnd (T : Bytes) : Bytes → List RR → Bool
  | _, [] => true
  | got, r :: rs => (!r.err || got ++ r.data == T) && errAtEnd T (got ++ r.data) rs

theorem DInv.reads {T} : ∀ (ns : List Nat) {s out}, DInv T s out →
    DInv T (s.reads ns).2 (out ++ cat (s.reads ns).1) ∧
    ((∀ r ∈ (s.reads ns).1, r.early = false) → errAtEnd T out (s.reads ns).1 = true)
  | [], s, out, h => by simpa [Sniffer.reads, errAtEnd] using h
  | n :: ns, s, out, h => by
      have h1 := h.read n
      have h2 := DInv.reads ns h1.1
      simp only [Sniffer.reads, cat_cons]
      refine ⟨by rw [← List.append_assoc]; exact h2.1, ?_⟩
      intro hall
      simp only [errAtEnd, Bool.and_eq_true, Bool.or_eq_true, Bool.not_eq_true', beq_iff_eq]
      refine ⟨?_, h2.2 (fun r hr => hall r (List.mem_cons_of_mem _ hr))⟩
      cases he : (s.read n).1.err with
      | false => left; rfl
      | true => right; exact h1.2 he (hall _ (List.mem_cons_self))

theorem NoTail.reads : ∀ (ns : List Nat) {s}, NoTail s →
    NoTail (s.reads ns).2 ∧ ∀ r ∈ (s.reads ns).1, r.early = false
  | [], s, h => by simpa [Sniffer.reads] using h
  | n :: ns, s, h => by
      have h1 := h.read n
      have h2 := NoTail.reads ns h1.1
      simp only [Sniffer.reads]
      refine ⟨h2.1, ?_⟩
      intro r hr
      rcases List.mem_cons.mp hr with rfl | hr
      · exact h1.2
      · exact h2.2 r hr

theorem SInv.readFull {T} (k : Nat) : ∀ (fuel : Nat) {s : Sniffer} {acc : List RR} {o : Bytes},
    SInv T s (o ++ cat acc) → SInv T (s.readFull k fuel acc).2 (o ++ cat (s.readFull k fuel acc).1)
  | 0, s, acc, o, h => by simpa [Sniffer.readFull] using h
  | fuel + 1, s, acc, o, h => by
      unfold Sniffer.readFull
      by_cases hk : k ≤ (cat acc).length
      · simpa [hk] using h
      · simp only [hk, if_false]
        have h1 := h.read (k - (cat acc).length)
        rw [List.append_assoc] at h1
        by_cases he : (s.read (k - (cat acc).length)).1.err = true
        · simp only [he, if_true, cat_append, cat_cons, cat_nil, List.append_nil]; exact h1
        · simp only [he, if_false]
          apply SInv.readFull k fuel
          simp only [cat_append, cat_cons, cat_nil, List.append_nil]; exact h1

theorem NoTail.readFull (k : Nat) : ∀ (fuel : Nat) {s : Sniffer} {acc : List RR},
    NoTail s → (∀ r ∈ acc, r.early = false) →
    NoTail (s.readFull k fuel acc).2 ∧ ∀ r ∈ (s.readFull k fuel acc).1, r.early = false
  | 0, s, acc, h, ha => by simpa [Sniffer.readFull] using ⟨h, ha⟩
  | fuel + 1, s, acc, h, ha => by
      unfold Sniffer.readFull
      by_cases hk : k ≤ (cat acc).length
      · simpa [hk] using ⟨h, ha⟩
      · simp only [hk, if_false]
        have h1 := h.read (k - (cat acc).length)
        have ha' : ∀ r ∈ acc ++ [(s.read (k - (cat acc).length)).1], r.early = false := by
          intro r hr
          rcases List.mem_append.mp hr with hr | hr
          · exact ha r hr
          · rw [List.mem_singleton.mp hr]; exact h1.2
        by_cases he : (s.read (k - (cat acc).length)).1.err = true
        · simp only [he, if_true]; exact ⟨h1.1, ha'⟩
        · simp only [he, if_false]
          exact NoTail.readFull k fuel h1.1 ha'

/-- whatever a matcher does, it is a sniffing phase -/
theorem SInv.run {T} (m : Matcher) {s : Sniffer} (h : SInv T s []) :
    SInv T (m.run s).2.2 (cat (m.run s).2.1) := by
  cases m with
  | any => simpa [Matcher.run] using h
  | pref strs =>
      simp only [Matcher.run]
      have := SInv.readFull (T := T) (maxLen strs + 1) (maxLen strs + 1 + s.src.chunks.length + 1)
        (s := s) (acc := []) (o := []) (by simpa using h)
      simpa using this
  | custom sizes v =>
      simp only [Matcher.run]
      have := SInv.reads sizes h
      simpa using this

theorem NoTail.run (m : Matcher) {s : Sniffer} (h : NoTail s) :
    NoTail (m.run s).2.2 ∧ ∀ r ∈ (m.run s).2.1, r.early = false := by
  cases m with
  | any => simpa [Matcher.run] using h
  | pref strs =>
      simp only [Matcher.run]
      exact NoTail.readFull _ _ h (by simp)
  | custom sizes v =>
      simp only [Matcher.run]
      exact NoTail.reads sizes h

/-! ### the serve loop -/

theorem serve_inv {T} : ∀ (ms : List (Nat × Matcher)) {s : Sniffer}, Base T s →
    (∀ rs ∈ (serve s ms).2.1, cat rs <+: T) ∧
    ((serve s ms).1.isSome = true → DInv T (serve s ms).2.2 [])
  | [], s, h => by simp [serve]
  | (i, m) :: rest, s, h => by
      have h1 := SInv.run m h.start
      unfold serve
      simp only
      by_cases hok : (m.run (s.reset true)).1 = true
      · simp only [hok, if_true]
        refine ⟨?_, fun _ => h1.base.done⟩
        intro rs hrs
        rw [List.mem_singleton.mp hrs]; exact h1.prefix
      · simp only [hok, if_false]
        have h2 := serve_inv rest h1.base
        refine ⟨?_, h2.2⟩
        intro rs hrs
        rcases List.mem_cons.mp hrs with rfl | hrs
        · exact h1.prefix
        · exact h2.1 rs hrs

theorem serve_noTail : ∀ (ms : List (Nat × Matcher)) {s : Sniffer}, NoTail s →
    NoTail (serve s ms).2.2 ∧ ∀ rs ∈ (serve s ms).2.1, ∀ r ∈ rs, r.early = false
  | [], s, h => by simpa [serve] using h
  | (i, m) :: rest, s, h => by
      have h1 := NoTail.run m (h.reset true)
      unfold serve
      simp only
      by_cases hok : (m.run (s.reset true)).1 = true
      · simp only [hok, if_true]
        refine ⟨h1.1.reset false, ?_⟩
        intro rs hrs
        rw [List.mem_singleton.mp hrs]; exact h1.2
      · simp only [hok, if_false]
        have h2 := serve_noTail rest h1.1
        refine ⟨h2.1, ?_⟩
        intro rs hrs
        rcases List.mem_cons.mp hrs with rfl | hrs
        · exact h1.2
        · exact h2.2 rs hrs

/-! ### the replay slice never goes out of range, for ANY order of reset / Read calls -/

inductive SOp where
  | reset (snif : Bool)
  | read (n : Nat)

def Sniffer.step (s : Sniffer) : SOp → Sniffer
  | .reset b => s.reset b
  | .read n => (s.read n).2

def WF (s : Sniffer) : Prop := s.bufRead ≤ s.bufSize ∧ (s.bufRead < s.bufSize → s.bufSize ≤ s.buf.length)

theorem WF.step {s : Sniffer} (h : WF s) (op : SOp) : WF (s.step op) := by
  cases op with
  | reset b => simp [Sniffer.step, Sniffer.reset, WF]
  | read n =>
      simp only [Sniffer.step]
      unfold Sniffer.read
      by_cases hr : s.bufRead < s.bufSize
      · simp only [hr, if_true]
        have h2 := h.2 hr
        have : (((s.buf.take s.bufSize).drop s.bufRead).take n).length ≤ s.bufSize - s.bufRead := by
          simp [List.length_take, List.length_drop]; omega
        refine ⟨?_, fun _ => h2⟩
        show s.bufRead + _ ≤ s.bufSize
        omega
      · simp only [hr, if_false]
        have h1 : WF (if s.sniffing then s else { s with buf := [] }) ∧
            ¬ (if s.sniffing then s else { s with buf := [] }).bufRead < (if s.sniffing then s else { s with buf := [] }).bufSize := by
          by_cases hs : s.sniffing
          · simp only [hs, if_true]; exact ⟨h, hr⟩
          · simp only [hs]
            exact ⟨⟨h.1, fun hh => absurd hh hr⟩, hr⟩
        generalize (if s.sniffing then s else { s with buf := [] }) = s1 at h1
        generalize s1.src.read n = res
        obtain ⟨d, e, src'⟩ := res
        by_cases hc : (0 < d.length && s1.sniffing) = true
        · simp only [hc, if_true]
          exact ⟨h1.1.1, fun hh => absurd hh h1.2⟩
        · simp only [hc, if_false]
          exact ⟨h1.1.1, fun hh => absurd hh h1.2⟩

theorem WF.run : ∀ (ops : List SOp) {s : Sniffer}, WF s → WF (ops.foldl Sniffer.step s)
  | [], _, h => h
  | op :: ops, _, h => WF.run ops (h.step op)

theorem slice_in_range (src : Src) (ops : List SOp) : (ops.foldl Sniffer.step (Sniffer.new src)).sliceOk :=
  (WF.run ops (s := Sniffer.new src) (by simp [WF, Sniffer.new])).2

/-! ## the write queue -/

theorem WQ.flush_inv (s : WQ) :
    s.flush.2.sock.flatten ++ s.flush.2.queue = s.sock.flatten ++ s.queue ∧ s.flush.2.queue = [] := by
  unfold WQ.flush
  by_cases h : s.queue.length = 0
  · have : s.queue = [] := List.eq_nil_of_length_eq_zero h
    simp [h, this]
  · simp [h]

theorem WQ.step_inv (s : WQ) (op : WOp) :
    (s.step op).sock.flatten ++ (s.step op).queue = s.sock.flatten ++ s.queue ++ written [op] := by
  cases op with
  | flush => simpa [WQ.step, written] using (WQ.flush_inv s).1
  | write l p =>
      simp only [WQ.step, WQ.write, written, List.append_nil]
      by_cases hl : l = true
      · simp [hl]
      · simp only [hl, Bool.false_eq_true, if_false]
        by_cases hq : 0 < s.queue.length
        · simp only [hq, if_true]
          have := (WQ.flush_inv { s with queue := s.queue ++ p }).1
          simpa using this
        · simp only [hq, if_false]
          have : s.queue = [] := List.eq_nil_of_length_eq_zero (by omega)
          simp [this]

theorem written_append (a b : List WOp) : written (a ++ b) = written a ++ written b := by
  induction a with
  | nil => simp [written]
  | cons op rest ih => cases op <;> simp [written, ih]

theorem WQ.run_inv : ∀ (ops : List WOp) (s : WQ),
    (ops.foldl WQ.step s).sock.flatten ++ (ops.foldl WQ.step s).queue = s.sock.flatten ++ s.queue ++ written ops
  | [], s => by simp [written]
  | op :: ops, s => by
      rw [List.foldl_cons, WQ.run_inv ops (s.step op), WQ.step_inv]
      rw [show op :: ops = [op] ++ ops from rfl, written_append, List.append_assoc]

/-! ## the websocket transport -/

theorem nextData_some {fs : List Frame} {r : Src} {rest : List Frame} (h : nextData fs = some (r, rest)) :
    payload fs = r.stream ++ payload rest := by
  induction fs with
  | nil => simp [nextData] at h
  | cons f t ih =>
      by_cases hd : f.isData = true
      · simp only [nextData, hd, if_true, Option.some.injEq, Prod.mk.injEq] at h
        simp [payload, hd, ← h.1, ← h.2]
      · simp only [nextData, hd, if_false] at h
        simp [payload, hd, ih h]

theorem nextData_none {fs : List Frame} (h : nextData fs = none) : payload fs = [] := by
  induction fs with
  | nil => rfl
  | cons f t ih =>
      by_cases hd : f.isData = true
      · simp [nextData, hd] at h
      · simp only [nextData, hd, if_false] at h
        simp [payload, hd, ih h]

theorem Ws.readCur_inv (w : Ws) (r : Src) (n : Nat) :
    (w.readCur r n).1.data ++ (w.readCur r n).2.rest = r.stream ++ payload w.frames ∧
    (w.readCur r n).1.err = false := by
  unfold Ws.readCur
  have hs := Src.read_stream r n
  have herr := Src.read_err r n
  generalize r.read n = res at hs herr
  obtain ⟨d, e, r'⟩ := res
  simp only at hs herr
  refine ⟨?_, rfl⟩
  cases e with
  | true =>
      have := stream_nil _ (herr rfl)
      rw [this, List.append_nil] at hs
      simp [Ws.rest, hs]
  | false => simp [Ws.rest, ← hs]

/-- one `Read` of the transport: nothing is lost, and an error means nothing is left -/
theorem Ws.read_inv (w : Ws) (n : Nat) :
    (w.read n).1.data ++ (w.read n).2.rest = w.rest ∧ ((w.read n).1.err = true → (w.read n).2.rest = []) := by
  unfold Ws.read
  cases hc : w.cur with
  | some r =>
      simp only
      have := Ws.readCur_inv w r n
      refine ⟨by rw [this.1]; simp [Ws.rest, hc], fun he => ?_⟩
      rw [this.2] at he; cases he
  | none =>
      simp only
      cases hn : nextData w.frames with
      | none =>
          simp only
          refine ⟨?_, fun _ => ?_⟩ <;> simp [Ws.rest, hc, nextData_none hn, payload]
      | some p =>
          obtain ⟨r, rest⟩ := p
          simp only
          have := Ws.readCur_inv { cur := none, frames := rest } r n
          refine ⟨by rw [this.1]; simp [Ws.rest, hc, nextData_some hn], fun he => ?_⟩
          rw [this.2] at he; cases he

theorem Ws.reads_inv : ∀ (ns : List Nat) (w : Ws) (out : Bytes),
    cat (w.reads ns).1 ++ (w.reads ns).2.rest = w.rest ∧
    (out ++ w.rest = out ++ w.rest → errAtEnd (out ++ w.rest) out (w.reads ns).1 = true)
  | [], w, out => by simp [Ws.reads, errAtEnd]
  | n :: ns, w, out => by
      have h1 := Ws.read_inv w n
      have h2 := Ws.reads_inv ns (w.read n).2 (out ++ (w.read n).1.data)
      simp only [Ws.reads, cat_cons]
      refine ⟨by rw [List.append_assoc, h2.1, h1.1], fun _ => ?_⟩
      have hT : out ++ (w.read n).1.data ++ (w.read n).2.rest = out ++ w.rest := by
        rw [List.append_assoc, h1.1]
      simp only [errAtEnd, Bool.and_eq_true, Bool.or_eq_true, Bool.not_eq_true', beq_iff_eq]
      refine ⟨?_, by rw [← hT]; exact h2.2 rfl⟩
      cases he : (w.read n).1.err with
      | false => left; rfl
      | true =>
          right
          have := h1.2 he
          rw [← hT, this, List.append_nil]

theorem wsWrites_eq : ∀ (ps : List Bytes) (sink : List (Nat × Bytes)),
    wsWrites sink ps = sink ++ ps.map (fun b => (Generated.wsBinaryMessage, b))
  | [], sink => by simp [wsWrites]
  | b :: bs, sink => by simp [wsWrites, wsWrite, wsWrites_eq bs]

/-! ## a reader that drains gets everything (liveness) -/

theorem Src.read_size (s : Src) (n : Nat) (hn : 0 < n) (he : (s.read n).2.1 = false) :
    (s.read n).2.2.size < s.size := by
  obtain ⟨chunks, t⟩ := s
  unfold Src.read Src.size Src.stream at *
  cases chunks with
  | nil => simp at he
  | cons c rest =>
      by_cases hc : c.length ≤ n
      · simp [hc]; omega
      · simp [hc, List.length_drop]; omega

theorem DInv.read_todo {T s out} (h : DInv T s out) (n : Nat) (hn : 0 < n)
    (he : (s.read n).1.err = false) : (s.read n).2.todo < s.todo := by
  unfold Sniffer.read at he ⊢
  by_cases hr : s.bufRead < s.bufSize
  · simp only [hr, if_true] at he ⊢
    have hp : s.pending = (s.buf.take s.bufSize).drop s.bufRead := by simp [Sniffer.pending, hr]
    have hPlen : ((s.buf.take s.bufSize).drop s.bufRead).length = s.bufSize - s.bufRead := by
      simp [List.length_drop, List.length_take]; have := h.le2 hr; omega
    unfold Sniffer.todo
    rw [hp]
    generalize (s.buf.take s.bufSize).drop s.bufRead = P at hPlen hp
    have hk : (P.take n).length = min n P.length := List.length_take
    have hpend : (Sniffer.pending { s with bufRead := s.bufRead + (P.take n).length }).length ≤ P.length - min n P.length := by
      unfold Sniffer.pending
      by_cases hlt : s.bufRead + (P.take n).length < s.bufSize
      · simp only [hlt, if_true]
        simp [List.length_drop, List.length_take]; have := h.le2 hr; omega
      · simp only [hlt, if_false]; simp
    show (Sniffer.pending { s with bufRead := s.bufRead + (P.take n).length }).length + s.src.stream.length + s.src.chunks.length < _
    omega
  · simp only [hr, if_false, h.sn, Bool.false_eq_true, if_false] at he ⊢
    have hsz := Src.read_size s.src n hn
    generalize s.src.read n = res at hsz he
    obtain ⟨d, e, src'⟩ := res
    simp only [Bool.and_false, Bool.false_eq_true, if_false] at he ⊢
    have hsz := hsz he
    unfold Sniffer.todo
    rw [pending_of_not_lt hr, pending_of_not_lt (by exact hr)]
    unfold Src.size at hsz
    show 0 + src'.stream.length + src'.chunks.length < 0 + s.src.stream.length + s.src.chunks.length
    simp only [List.length_nil] at *
    omega

theorem DInv.drain {T} (d : Nat) (hd : 0 < d) : ∀ (fuel : Nat) {s out}, DInv T s out → s.todo < fuel →
    (∀ r ∈ (s.drain d fuel).1, r.early = false) →
    out ++ cat (s.drain d fuel).1 = T ∧ errAtEnd T out (s.drain d fuel).1 = true
  | 0, s, out, _, hf, _ => by omega
  | fuel + 1, s, out, h, hf, hall => by
      simp only [Sniffer.drain] at hall ⊢
      have h1 := h.read d
      by_cases he : (s.read d).1.err = true
      · simp only [he, if_true] at hall ⊢
        have := h1.2 he (hall _ (List.mem_singleton.mpr rfl))
        simp [errAtEnd, he, this]
      · simp only [he, Bool.false_eq_true, if_false] at hall ⊢
        have he' : (s.read d).1.err = false := by simpa using he
        have ht := h.read_todo d hd he'
        have ih := DInv.drain d hd fuel h1.1 (by omega)
          (fun r hr => hall r (List.mem_cons_of_mem _ hr))
        simp only [cat_cons, errAtEnd, he', Bool.not_false, Bool.true_or, Bool.true_and]
        rw [← List.append_assoc]; exact ih

theorem nextData_size {fs : List Frame} {r : Src} {rest : List Frame} (h : nextData fs = some (r, rest)) :
    r.size + 2 + framesSize rest ≤ framesSize fs := by
  induction fs with
  | nil => simp [nextData] at h
  | cons f t ih =>
      by_cases hd : f.isData = true
      · simp only [nextData, hd, if_true, Option.some.injEq, Prod.mk.injEq] at h
        simp [framesSize, ← h.1, ← h.2]
      · simp only [nextData, hd, if_false] at h
        have := ih h
        simp only [framesSize]; omega

theorem Ws.readCur_todo (w : Ws) (r : Src) (n : Nat) (hn : 0 < n) :
    (w.readCur r n).2.todo < r.size + 1 + framesSize w.frames := by
  unfold Ws.readCur
  have hsz := Src.read_size r n hn
  generalize r.read n = res at hsz
  obtain ⟨d, e, r'⟩ := res
  cases e with
  | true => simp [Ws.todo]
  | false =>
      have : r'.size < r.size := hsz rfl
      simp only [Ws.todo, Bool.false_eq_true, if_false]
      show r'.size + 1 + framesSize w.frames < _
      omega

theorem Ws.read_todo (w : Ws) (n : Nat) (hn : 0 < n) (he : (w.read n).1.err = false) :
    (w.read n).2.todo < w.todo := by
  unfold Ws.read at he ⊢
  cases hc : w.cur with
  | some r =>
      simp only [hc] at he ⊢
      have := Ws.readCur_todo w r n hn
      simp only [Ws.todo, hc] at this ⊢
      exact this
  | none =>
      simp only [hc] at he ⊢
      cases hnx : nextData w.frames with
      | none => simp [hnx] at he
      | some p =>
          obtain ⟨r, rest⟩ := p
          simp only [hnx] at he ⊢
          have h1 := Ws.readCur_todo { cur := none, frames := rest } r n hn
          have h2 := nextData_size hnx
          have h1 : (Ws.readCur { cur := none, frames := rest } r n).2.todo < r.size + 1 + framesSize rest := h1
          have : w.todo = framesSize w.frames := by simp [Ws.todo, hc]
          rw [this]
          omega

theorem Ws.drain_inv (d : Nat) (hd : 0 < d) : ∀ (fuel : Nat) (w : Ws) (out : Bytes), w.todo < fuel →
    out ++ cat (w.drain d fuel).1 = out ++ w.rest ∧ errAtEnd (out ++ w.rest) out (w.drain d fuel).1 = true
  | 0, w, out, hf => by omega
  | fuel + 1, w, out, hf => by
      simp only [Ws.drain]
      have h1 := Ws.read_inv w d
      by_cases he : (w.read d).1.err = true
      · simp only [he, if_true]
        have := h1.2 he
        rw [this, List.append_nil] at h1
        simp [errAtEnd, he, ← h1]
      · simp only [he, Bool.false_eq_true, if_false]
        have he' : (w.read d).1.err = false := by simpa using he
        have ht := Ws.read_todo w d hd he'
        have ih := Ws.drain_inv d hd fuel (w.read d).2 (out ++ (w.read d).1.data) (by omega)
        have hT : out ++ (w.read d).1.data ++ (w.read d).2.rest = out ++ w.rest := by
          rw [List.append_assoc, h1.1]
        rw [hT] at ih
        simp only [cat_cons, errAtEnd, he', Bool.not_false, Bool.true_or, Bool.true_and]
        rw [← List.append_assoc]; exact ih

theorem NoTail.drain (d : Nat) : ∀ (fuel : Nat) {s : Sniffer}, NoTail s →
    ∀ r ∈ (s.drain d fuel).1, r.early = false
  | 0, s, h => by simp [Sniffer.drain]
  | fuel + 1, s, h => by
      simp only [Sniffer.drain]
      have h1 := h.read d
      by_cases he : (s.read d).1.err = true
      · simp only [he, if_true]
        intro r hr; rw [List.mem_singleton.mp hr]; exact h1.2
      · simp only [he, Bool.false_eq_true, if_false]
        intro r hr
        rcases List.mem_cons.mp hr with rfl | hr
        · exact h1.2
        · exact NoTail.drain d fuel h1.1 r hr

theorem errAtEnd_append (T : Bytes) : ∀ (a b : List RR) (got : Bytes),
    errAtEnd T got (a ++ b) = (errAtEnd T got a && errAtEnd T (got ++ cat a) b)
  | [], b, got => by simp [errAtEnd]
  | r :: a, b, got => by
      simp only [List.cons_append, errAtEnd, cat_cons, errAtEnd_append T a b, Bool.and_assoc, List.append_assoc]

/-! ## the property-level statements (re-exported in Props/C17.lean) -/

/-- after the serve loop handed the connection over: first the reads `after`, then a drain -/
def handover (src : Src) (ms : List (Nat × Matcher)) (after : List Nat) (d : Nat) : List RR × List RR :=
  let s1 := (serve (Sniffer.new src) ms).2.2
  let q := s1.reads after
  (q.1, (q.2.drain d (q.2.todo + 1)).1)

theorem sniffer_seen (src : Src) (ms : List (Nat × Matcher)) :
    ∀ rs ∈ (serve (Sniffer.new src) ms).2.1, cat rs <+: src.stream :=
  (serve_inv ms (Base.new src)).1

theorem sniffer_stream_eq (src : Src) (ms : List (Nat × Matcher)) (after : List Nat)
    (hm : (serve (Sniffer.new src) ms).1.isSome = true) :
    let q := (serve (Sniffer.new src) ms).2.2.reads after
    cat q.1 ++ q.2.pending ++ q.2.src.stream = src.stream := by
  have h := (serve_inv ms (Base.new src)).2 hm
  have := (DInv.reads after h).1.str
  simpa using this

theorem sniffer_delivers_flagfree (src : Src) (ms : List (Nat × Matcher)) (after : List Nat) (d : Nat)
    (hd : 0 < d) (hm : (serve (Sniffer.new src) ms).1.isSome = true)
    (hflag : ∀ r ∈ (handover src ms after d).1 ++ (handover src ms after d).2, r.early = false) :
    cat (handover src ms after d).1 ++ cat (handover src ms after d).2 = src.stream ∧
    errAtEnd src.stream [] ((handover src ms after d).1 ++ (handover src ms after d).2) = true := by
  have h := (serve_inv ms (Base.new src)).2 hm
  have h1 := DInv.reads after h
  simp only [handover] at hflag ⊢
  have h2 := DInv.drain d hd _ h1.1 (Nat.lt_succ_self _)
    (fun r hr => hflag r (List.mem_append_right _ hr))
  have h3 := h1.2 (fun r hr => hflag r (List.mem_append_left _ hr))
  simp only [List.nil_append] at h2 h3
  refine ⟨h2.1, ?_⟩
  rw [errAtEnd_append, h3, List.nil_append, h2.2]; rfl

theorem sniffer_noflag (src : Src) (ms : List (Nat × Matcher)) (after : List Nat) (d : Nat)
    (ht : src.tailErr = false) :
    (∀ rs ∈ (serve (Sniffer.new src) ms).2.1, ∀ r ∈ rs, r.early = false) ∧
    ∀ r ∈ (handover src ms after d).1 ++ (handover src ms after d).2, r.early = false := by
  have h0 : NoTail (Sniffer.new src) := ⟨ht, rfl⟩
  have h1 := serve_noTail ms h0
  have h2 := NoTail.reads after h1.1
  refine ⟨h1.2, ?_⟩
  intro r hr
  simp only [handover] at hr
  rcases List.mem_append.mp hr with hr | hr
  · exact h2.2 r hr
  · exact NoTail.drain d _ h2.1 r hr

def wsHandover (frames : List Frame) (after : List Nat) (d : Nat) : List RR × List RR :=
  let q := (Ws.mk none frames).reads after
  (q.1, (q.2.drain d (q.2.todo + 1)).1)

theorem ws_stream_eq (frames : List Frame) (ns : List Nat) :
    let q := (Ws.mk none frames).reads ns
    cat q.1 ++ q.2.rest = payload frames := by
  have := (Ws.reads_inv ns (Ws.mk none frames) []).1
  simpa [Ws.rest] using this

theorem ws_delivers (frames : List Frame) (after : List Nat) (d : Nat) (hd : 0 < d) :
    cat (wsHandover frames after d).1 ++ cat (wsHandover frames after d).2 = payload frames ∧
    errAtEnd (payload frames) [] ((wsHandover frames after d).1 ++ (wsHandover frames after d).2) = true := by
  have h1 := Ws.reads_inv after (Ws.mk none frames) []
  have hr : (Ws.mk none frames).rest = payload frames := by simp [Ws.rest]
  simp only [wsHandover]
  have h2 := Ws.drain_inv d hd _ ((Ws.mk none frames).reads after).2 (cat ((Ws.mk none frames).reads after).1)
    (Nat.lt_succ_self _)
  rw [h1.1, hr] at h2
  have h3 := h1.2 rfl
  simp only [List.nil_append, hr] at h3
  refine ⟨h2.1, ?_⟩
  rw [errAtEnd_append, h3, List.nil_append, h2.2]; rfl

theorem wq_all (ops : List WOp) :
    let s := ops.foldl WQ.step {}
    s.sock.flatten ++ s.queue = written ops ∧ s.flush.2.sock.flatten = written ops ∧ s.flush.2.queue = [] := by
  have h := WQ.run_inv ops {}
  have hf := WQ.flush_inv (ops.foldl WQ.step {})
  simp only [List.flatten_nil, List.nil_append] at h
  refine ⟨h, ?_, hf.2⟩
  have := hf.1
  rw [hf.2, List.append_nil, h] at this
  exact this

end Emitter.Transport
