import Emitter.Model.Message
namespace Emitter.Message
open Emitter

/-- ssids are well-formed for `NewID` when they have at least two words -/
def ssidOk (s : Ssid) : Prop := 2 ≤ s.length

theorem idTime_newId (ssid : Ssid) (unix : Int) (seq uniq : UInt32) (id : Bytes)
    (h : newId ssid unix seq uniq = .ok id) (h0 : timeOffset ≤ unix) (h1 : unix - timeOffset < 4294967296) :
    idTime id = unix := by
  sorry

theorem idSsid_newId (ssid : Ssid) (unix : Int) (seq uniq : UInt32) (id : Bytes)
    (h : newId ssid unix seq uniq = .ok id) :
    idSsid id = ssid ∧ idContract id = ssid.getD 0 0 ∧ id.length = fixed + 4 * ssid.length := by
  sorry

theorem newId_ok_iff (ssid : Ssid) (unix : Int) (seq uniq : UInt32) :
    (∃ id, newId ssid unix seq uniq = .ok id) ↔ 2 ≤ ssid.length := by
  sorry

/-- ids are equal only if clock second, sequence number, nonce and ssid all are -/
theorem newId_injective (s₁ s₂ : Ssid) (u₁ u₂ : Int) (q₁ q₂ n₁ n₂ : UInt32) (id : Bytes)
    (h₁ : newId s₁ u₁ q₁ n₁ = .ok id) (h₂ : newId s₂ u₂ q₂ n₂ = .ok id) :
    relTime u₁ = relTime u₂ ∧ q₁ = q₂ ∧ n₁ = n₂ ∧ s₁ = s₂ := by
  sorry

/-- ids of one channel created in a later second sort first; within one second a larger
sequence number (no wrap in between) sorts first -/
theorem newId_order (ssid : Ssid) (u₁ u₂ : Int) (q₁ q₂ n : UInt32) (a b : Bytes)
    (ha : newId ssid u₁ q₁ n = .ok a) (hb : newId ssid u₂ q₂ n = .ok b)
    (h0 : timeOffset ≤ u₁) (h1 : u₂ - timeOffset < 4294967296)
    (hlt : u₁ < u₂ ∨ (u₁ = u₂ ∧ q₁ < q₂)) : bytesLt b a = true := by
  sorry

theorem readUvarint_uvarint (n : Nat) (h : n < 18446744073709551616) (rest : Bytes) :
    readUvarint (uvarint n ++ rest) = .ok (n, rest) := by
  sorry

/-- lengths that fit a Go `int` -/
def Msg.ok (m : Msg) : Prop :=
  m.id.length < 9223372036854775808 ∧ m.channel.length < 9223372036854775808 ∧
  m.payload.length < 9223372036854775808

theorem decodeMsg_encodeMsg (m : Msg) (h : m.ok) (rest : Bytes) :
    decodeMsg (encodeMsg m ++ rest) = .ok (m, rest) := by
  sorry

theorem decodeFrame_encodeFrame (f : List Msg) (h : ∀ m ∈ f, m.ok) (hl : f.length ≤ maxSliceLen) :
    decodeFrame (encodeFrame f) = .ok f := by
  sorry

def sizeSum (l : List Msg) : Nat := (l.map msgSize).foldl (· + ·) 0

/-- `Frame.Split`: nothing dropped, duplicated or reordered; the head stays below the bound;
the head is empty only for an empty frame or a first message at or above the bound; the head
is maximal. -/
theorem split_sound (f : List Msg) (max : Nat) :
    (split f max).1 ++ (split f max).2 = f ∧
    ((split f max).1 ≠ [] → sizeSum (split f max).1 < max) ∧
    ((split f max).1 = [] → f = [] ∨ ∃ m rest, f = m :: rest ∧ max ≤ msgSize m) ∧
    (∀ m rest, (split f max).2 = m :: rest → max ≤ sizeSum (split f max).1 + msgSize m) := by
  sorry

/-- one flush hands every message of the frame to the transport, once and in order, in
non-empty chunks that respect the bound unless they consist of a single oversize message -/
theorem flushLoop_sound (max : Nat) (f : List Msg) :
    (flushLoop max f.length f).1.flatten = f ∧ (flushLoop max f.length f).2 = [] ∧
    (∀ c ∈ (flushLoop max f.length f).1, c ≠ [] ∧ (sizeSum c < max ∨ ∃ m, c = [m] ∧ max ≤ msgSize m)) := by
  sorry

inductive PeerOp where
  | send (active : Bool) (m : Msg)
  | flush
deriving Repr

def Peer.step (max : Nat) (p : Peer) : PeerOp → Peer
  | .send a m => p.send a m
  | .flush => p.flush max

/-- the messages handed to the peer while it was active, in order -/
def accepted : List PeerOp → List Msg
  | [] => []
  | .send true m :: ops => m :: accepted ops
  | _ :: ops => accepted ops

/-- for every sequence of the atomic steps of `Peer.Send` and `processSendQueue`: what has
reached the transport followed by what is still queued is exactly the accepted messages -/
theorem queue_exactly_once (max : Nat) (ops : List PeerOp) (p : Peer) :
    ((ops.foldl (Peer.step max) p).sent.flatten ++ (ops.foldl (Peer.step max) p).frame
      = p.sent.flatten ++ p.frame ++ accepted ops) ∧
    ((ops.foldl (Peer.step max) p).dropped = p.dropped) := by
  sorry

end Emitter.Message
