import Emitter.Model.Message
namespace Emitter.Message
open Emitter

/-- ssids are well-formed for `NewID` when they have at least two words -/
def ssidOk (s : Ssid) : Prop := 2 ≤ s.length

/-! ### helper lemmas: message ids -/

theorem ssidBytes_length (s : Ssid) : (ssidBytes s).length = 4 * s.length := by
  induction s with
  | nil => rfl
  | cons w ws ih => simp [ssidBytes, putBe32, ih]; omega

theorem ssidOfBytes_ssidBytes (s : Ssid) : ssidOfBytes s.length (ssidBytes s) = s := by
  induction s with
  | nil => rfl
  | cons w ws ih =>
    simp only [ssidBytes, putBe32, List.length_cons, List.cons_append, List.nil_append, ssidOfBytes, ih,
      be32_putBe32]

theorem newId_words (ssid : Ssid) (unix : Int) (seq uniq : UInt32) (id : Bytes)
    (h : newId ssid unix seq uniq = .ok id) :
    word id 4 = maxU32 - relTime unix ∧ word id 8 = maxU32 - seq ∧ word id 12 = uniq ∧
    word id 16 = ssid.getD 0 0 ∧ id.drop 16 = ssidBytes ssid ∧ id.length = 16 + 4 * ssid.length ∧
    2 ≤ ssid.length := by
  match ssid, h with
  | s0 :: s1 :: tl, h =>
    simp only [newId, Outcome.ok.injEq] at h
    subst h
    refine ⟨?_, ?_, ?_, ?_, ?_, ?_, ?_⟩
    · simp only [word, putBe32, List.cons_append, List.nil_append, List.getD_cons_succ, List.getD_cons_zero, be32_putBe32, Nat.reduceAdd]
    · simp only [word, putBe32, List.cons_append, List.nil_append, List.getD_cons_succ, List.getD_cons_zero, be32_putBe32, Nat.reduceAdd]
    · simp only [word, putBe32, List.cons_append, List.nil_append, List.getD_cons_succ, List.getD_cons_zero, be32_putBe32, Nat.reduceAdd]
    · simp only [word, putBe32, ssidBytes, List.cons_append, List.nil_append, List.getD_cons_succ, List.getD_cons_zero, be32_putBe32, Nat.reduceAdd]
    · simp [putBe32]
    · simp [putBe32, ssidBytes_length]; omega
    · simp

theorem maxU32_sub_sub (x : UInt32) : maxU32 - (maxU32 - x) = x := by
  apply UInt32.toNat.inj
  have := x.toNat_lt
  simp [maxU32, UInt32.toNat_sub]
  omega

theorem maxU32_sub_inj (x y : UInt32) (h : maxU32 - x = maxU32 - y) : x = y := by
  rw [← maxU32_sub_sub x, h, maxU32_sub_sub]

theorem relTime_toNat (unix : Int) (h0 : timeOffset ≤ unix) (h1 : unix - timeOffset < 4294967296) :
    ((relTime unix).toNat : Int) = unix - timeOffset := by
  simp [relTime, UInt32.toNat_ofNat']
  omega

theorem idTime_newId (ssid : Ssid) (unix : Int) (seq uniq : UInt32) (id : Bytes)
    (h : newId ssid unix seq uniq = .ok id) (h0 : timeOffset ≤ unix) (h1 : unix - timeOffset < 4294967296) :
    idTime id = unix := by
  have hw := (newId_words ssid unix seq uniq id h).1
  unfold idTime
  rw [hw, maxU32_sub_sub, relTime_toNat unix h0 h1]
  omega

theorem idSsid_newId (ssid : Ssid) (unix : Int) (seq uniq : UInt32) (id : Bytes)
    (h : newId ssid unix seq uniq = .ok id) :
    idSsid id = ssid ∧ idContract id = ssid.getD 0 0 ∧ id.length = fixed + 4 * ssid.length := by
  obtain ⟨_, _, _, h16, hd, hl, _⟩ := newId_words ssid unix seq uniq id h
  have hf : fixed = 16 := rfl
  refine ⟨?_, ?_, ?_⟩
  · unfold idSsid
    rw [hf, hd, hl]
    have : (16 + 4 * ssid.length - 16) / 4 = ssid.length := by omega
    rw [this, ssidOfBytes_ssidBytes]
  · unfold idContract; rw [hf, h16]
  · rw [hf, hl]

theorem newId_ok_iff (ssid : Ssid) (unix : Int) (seq uniq : UInt32) :
    (∃ id, newId ssid unix seq uniq = .ok id) ↔ 2 ≤ ssid.length := by
  constructor
  · rintro ⟨id, h⟩
    exact (newId_words ssid unix seq uniq id h).2.2.2.2.2.2
  · intro h
    match ssid, h with
    | s0 :: s1 :: tl, _ => exact ⟨_, rfl⟩

/-- ids are equal only if clock second, sequence number, nonce and ssid all are -/
theorem newId_injective (s₁ s₂ : Ssid) (u₁ u₂ : Int) (q₁ q₂ n₁ n₂ : UInt32) (id : Bytes)
    (h₁ : newId s₁ u₁ q₁ n₁ = .ok id) (h₂ : newId s₂ u₂ q₂ n₂ = .ok id) :
    relTime u₁ = relTime u₂ ∧ q₁ = q₂ ∧ n₁ = n₂ ∧ s₁ = s₂ := by
  obtain ⟨a1, b1, c1, _, _, _, _⟩ := newId_words s₁ u₁ q₁ n₁ id h₁
  obtain ⟨a2, b2, c2, _, _, _, _⟩ := newId_words s₂ u₂ q₂ n₂ id h₂
  refine ⟨maxU32_sub_inj _ _ (a1.symm.trans a2), maxU32_sub_inj _ _ (b1.symm.trans b2), c1.symm.trans c2, ?_⟩
  rw [← (idSsid_newId s₁ u₁ q₁ n₁ id h₁).1, ← (idSsid_newId s₂ u₂ q₂ n₂ id h₂).1]

theorem bytesLt_cons (a b : UInt8) (as bs : Bytes) :
    bytesLt (a :: as) (b :: bs) = true ↔ a.toNat < b.toNat ∨ (a.toNat = b.toNat ∧ bytesLt as bs = true) := by
  simp [bytesLt, UInt8.lt_iff_toNat_lt, ← UInt8.toNat_inj]

theorem bytesLt_append (p a b : Bytes) : bytesLt (p ++ a) (p ++ b) = bytesLt a b := by
  induction p with
  | nil => rfl
  | cons x xs ih => simp [bytesLt, ih]

theorem digits32 (a : Nat) (h : a < 4294967296) :
    ∃ a3 a2 a1 a0, a3 < 256 ∧ a2 < 256 ∧ a1 < 256 ∧ a0 < 256 ∧
      a = a3 * 16777216 + a2 * 65536 + a1 * 256 + a0 ∧
      a / 16777216 % 256 = a3 ∧ a / 65536 % 256 = a2 ∧ a / 256 % 256 = a1 ∧ a % 256 = a0 :=
  ⟨a / 16777216, a / 65536 % 256, a / 256 % 256, a % 256, by omega, by omega, by omega, by omega,
    by omega, by omega, rfl, rfl, rfl⟩

theorem bytesLt_putBe32 (x y : UInt32) (r₁ r₂ : Bytes) (h : x.toNat < y.toNat) :
    bytesLt (putBe32 x ++ r₁) (putBe32 y ++ r₂) = true := by
  simp only [putBe32, List.cons_append, List.nil_append, bytesLt_cons, UInt8.toNat_ofNat']
  obtain ⟨a3, a2, a1, a0, _, _, _, _, ea, e3, e2, e1, e0⟩ := digits32 x.toNat x.toNat_lt
  obtain ⟨b3, b2, b1, b0, _, _, _, _, eb, f3, f2, f1, f0⟩ := digits32 y.toNat y.toNat_lt
  rw [e3, e2, e1, e0, f3, f2, f1, f0]
  omega

/-- ids of one channel created in a later second sort first; within one second a larger
sequence number (no wrap in between) sorts first -/
theorem newId_order (ssid : Ssid) (u₁ u₂ : Int) (q₁ q₂ n : UInt32) (a b : Bytes)
    (ha : newId ssid u₁ q₁ n = .ok a) (hb : newId ssid u₂ q₂ n = .ok b)
    (h0 : timeOffset ≤ u₁) (h1 : u₂ - timeOffset < 4294967296)
    (hlt : u₁ < u₂ ∨ (u₁ = u₂ ∧ q₁ < q₂)) : bytesLt b a = true := by
  match ssid, ha, hb with
  | s0 :: s1 :: tl, ha, hb =>
    simp only [newId, Outcome.ok.injEq] at ha hb
    subst ha hb
    simp only [List.append_assoc, bytesLt_append]
    rcases hlt with hlt | ⟨rfl, hq⟩
    · apply bytesLt_putBe32
      have e1 := relTime_toNat u₁ h0 (by omega)
      have e2 := relTime_toNat u₂ (by omega) h1
      have := (relTime u₁).toNat_lt
      have := (relTime u₂).toNat_lt
      simp only [maxU32, UInt32.toNat_sub]
      simp
      omega
    · rw [bytesLt_append]
      apply bytesLt_putBe32
      have := q₁.toNat_lt
      have := q₂.toNat_lt
      have hq' := UInt32.lt_iff_toNat_lt.mp hq
      simp only [maxU32, UInt32.toNat_sub]
      simp
      omega

theorem readUvarintF_uvarintF (fuel : Nat) : ∀ (n shift acc : Nat) (rest : Bytes),
    1 ≤ fuel → shift + 7 * fuel = 70 → n * 2 ^ shift < 2 ^ 64 →
    readUvarintF fuel (uvarintF fuel n ++ rest) shift acc = .ok (acc + n * 2 ^ shift, rest) := by
  induction fuel with
  | zero => intro n shift acc rest h; omega
  | succ k ih =>
    intro n shift acc rest _ hs hn
    unfold uvarintF
    by_cases hlt : n < 128
    · have hb : (UInt8.ofNat n).toNat = n := by simp [UInt8.toNat_ofNat']; omega
      have hb' : UInt8.ofNat n < 0x80 := by
        rw [UInt8.lt_iff_toNat_lt, hb]; exact hlt
      simp only [hlt, if_true, List.cons_append, List.nil_append, readUvarintF, hb', hb]
      have : ¬ ((shift == 63 && UInt8.ofNat n > 1) = true) := by
        intro hc
        simp only [Bool.and_eq_true, beq_iff_eq, decide_eq_true_eq] at hc
        obtain ⟨h63, h1⟩ := hc
        have h1' : 1 < n := by
          have := UInt8.lt_iff_toNat_lt.mp h1
          rw [hb] at this; exact this
        subst h63
        omega
      simp [this]
    · have hb : (UInt8.ofNat (n % 128 + 128)).toNat = n % 128 + 128 := by
        simp [UInt8.toNat_ofNat']; omega
      have hb' : ¬ (UInt8.ofNat (n % 128 + 128) < 0x80) := by
        rw [UInt8.lt_iff_toNat_lt, hb]; simp
      simp only [hlt, if_false, List.cons_append, readUvarintF, hb', hb]
      have hk : 1 ≤ k := by
        rcases k with _ | k
        · exfalso
          have : shift = 63 := by omega
          subst this; omega
        · omega
      have hp : 2 ^ (shift + 7) = 2 ^ shift * 128 := by rw [Nat.pow_add]
      have hdm := Nat.div_add_mod n 128
      have key : n % 128 * 2 ^ shift + n / 128 * 2 ^ (shift + 7) = n * 2 ^ shift := by
        rw [hp]
        generalize 2 ^ shift = p
        calc n % 128 * p + n / 128 * (p * 128) = (128 * (n / 128) + n % 128) * p := by
              rw [Nat.add_mul, Nat.add_comm, Nat.mul_comm p 128, ← Nat.mul_assoc, Nat.mul_comm (n/128) 128]
          _ = n * p := by rw [hdm]
      rw [ih (n / 128) (shift + 7) _ rest hk (by omega) (by
        have : n / 128 * 2 ^ (shift + 7) ≤ n * 2 ^ shift := by rw [← key]; omega
        omega)]
      congr 2
      have : n % 128 + 128 - 128 = n % 128 := by omega
      rw [this, Nat.add_assoc, key]

theorem readUvarint_uvarint (n : Nat) (h : n < 18446744073709551616) (rest : Bytes) :
    readUvarint (uvarint n ++ rest) = .ok (n, rest) := by
  have := readUvarintF_uvarintF 10 n 0 0 rest (by omega) (by omega) (by omega)
  simpa [readUvarint, uvarint] using this

/-- lengths that fit a Go `int` -/
def Msg.ok (m : Msg) : Prop :=
  m.id.length < 9223372036854775808 ∧ m.channel.length < 9223372036854775808 ∧
  m.payload.length < 9223372036854775808

theorem readBytes_enc (l : Bytes) (h : l.length < 9223372036854775808) (rest : Bytes) :
    readBytes (uvarint l.length ++ (l ++ rest)) = .ok (l, rest) := by
  unfold readBytes
  rw [readUvarint_uvarint _ (by omega)]
  by_cases h0 : l.length = 0
  · have : l = [] := List.eq_nil_of_length_eq_zero h0
    subst this
    simp
  · have h1 : ¬ (l.length ≥ 9223372036854775808) := by omega
    simp [h0, h1]

theorem decodeMsg_encodeMsg (m : Msg) (h : m.ok) (rest : Bytes) :
    decodeMsg (encodeMsg m ++ rest) = .ok (m, rest) := by
  obtain ⟨h1, h2, h3⟩ := h
  have ht := m.ttl.toNat_lt
  have httl : UInt32.ofNat (m.ttl.toNat % 4294967296) = m.ttl := by
    apply UInt32.toNat.inj
    simp
  unfold decodeMsg encodeMsg
  simp only [List.append_assoc, bind, Outcome.bind, readBytes_enc _ h1, readBytes_enc _ h2,
    readBytes_enc _ h3, readUvarint_uvarint _ (show m.ttl.toNat < 18446744073709551616 by omega), pure, httl]

theorem decodeMsgs_encodeMsgs (f : List Msg) (h : ∀ m ∈ f, m.ok) (rest : Bytes) :
    decodeMsgs f.length (encodeMsgs f ++ rest) = .ok (f, rest) := by
  induction f with
  | nil => rfl
  | cons m ms ih =>
    simp only [List.length_cons, decodeMsgs, encodeMsgs, List.append_assoc,
      decodeMsg_encodeMsg m (h m (by simp)), ih (fun x hx => h x (by simp [hx]))]

theorem decodeFrame_encodeFrame (f : List Msg) (h : ∀ m ∈ f, m.ok) (hl : f.length ≤ maxSliceLen) :
    decodeFrame (encodeFrame f) = .ok f := by
  have hl' : f.length ≤ 1099511627776 := hl
  unfold decodeFrame encodeFrame
  rw [readUvarint_uvarint _ (by omega)]
  by_cases h0 : f.length = 0
  · have : f = [] := List.eq_nil_of_length_eq_zero h0
    subst this; simp
  · have h1 : ¬ (f.length > maxSliceLen) := by omega
    have := decodeMsgs_encodeMsgs f h []
    rw [List.append_nil] at this
    simp [h0, h1, this, Outcome.map, Outcome.bind]

def sizeSum (l : List Msg) : Nat := (l.map msgSize).foldl (· + ·) 0

theorem foldl_add_acc (l : List Nat) (a : Nat) : l.foldl (· + ·) a = a + l.foldl (· + ·) 0 := by
  induction l generalizing a with
  | nil => simp
  | cons x xs ih => simp only [List.foldl_cons]; rw [ih (a + x), ih (0 + x)]; omega

theorem sizeSum_nil : sizeSum [] = 0 := rfl

theorem sizeSum_cons (m : Msg) (l : List Msg) : sizeSum (m :: l) = msgSize m + sizeSum l := by
  simp only [sizeSum, List.map_cons, List.foldl_cons]
  rw [foldl_add_acc]; omega

theorem splitAux_sound (max : Nat) (f : List Msg) : ∀ sum : Nat,
    (splitAux max sum f).1 ++ (splitAux max sum f).2 = f ∧
    ((splitAux max sum f).1 ≠ [] → sum + sizeSum (splitAux max sum f).1 < max) ∧
    ((splitAux max sum f).1 = [] → f = [] ∨ ∃ m rest, f = m :: rest ∧ max ≤ sum + msgSize m) ∧
    (∀ m rest, (splitAux max sum f).2 = m :: rest →
      max ≤ sum + sizeSum (splitAux max sum f).1 + msgSize m) := by
  induction f with
  | nil => intro sum; simp [splitAux]
  | cons x xs ih =>
    intro sum
    unfold splitAux
    by_cases hge : sum + msgSize x ≥ max
    · simp only [hge, if_true]
      refine ⟨rfl, fun h => absurd rfl h, fun _ => Or.inr ⟨x, xs, rfl, hge⟩, ?_⟩
      intro m rest hm
      simp only [List.cons.injEq] at hm
      rw [← hm.1, sizeSum_nil]; omega
    · simp only [hge, if_false]
      obtain ⟨i1, i2, i3, i4⟩ := ih (sum + msgSize x)
      refine ⟨by simp [i1], ?_, ?_, ?_⟩
      · intro _
        rw [sizeSum_cons]
        by_cases he : (splitAux max (sum + msgSize x) xs).1 = []
        · rw [he, sizeSum_nil]; omega
        · have := i2 he; omega
      · intro h; simp at h
      · intro m rest hm
        have := i4 m rest hm
        rw [sizeSum_cons]; omega

/-- `Frame.Split`: nothing dropped, duplicated or reordered; the head stays below the bound;
the head is empty only for an empty frame or a first message at or above the bound; the head
is maximal. -/
theorem split_sound (f : List Msg) (max : Nat) :
    (split f max).1 ++ (split f max).2 = f ∧
    ((split f max).1 ≠ [] → sizeSum (split f max).1 < max) ∧
    ((split f max).1 = [] → f = [] ∨ ∃ m rest, f = m :: rest ∧ max ≤ msgSize m) ∧
    (∀ m rest, (split f max).2 = m :: rest → max ≤ sizeSum (split f max).1 + msgSize m) := by
  have := splitAux_sound max f 0
  simpa [split] using this

theorem flushLoop_sound_aux (max : Nat) (fuel : Nat) : ∀ f : List Msg, f.length ≤ fuel →
    (flushLoop max fuel f).1.flatten = f ∧ (flushLoop max fuel f).2 = [] ∧
    (∀ c ∈ (flushLoop max fuel f).1, c ≠ [] ∧ (sizeSum c < max ∨ ∃ m, c = [m] ∧ max ≤ msgSize m)) := by
  induction fuel with
  | zero =>
    intro f hf
    have : f = [] := List.eq_nil_of_length_eq_zero (by omega)
    subst this
    simp [flushLoop]
  | succ k ih =>
    intro f hf
    obtain ⟨s1, s2, s3, _⟩ := split_sound f max
    unfold flushLoop
    generalize hsp : split f max = sp at s1 s2 s3
    obtain ⟨chunk, rest⟩ := sp
    simp only at s1 s2 s3 ⊢
    by_cases hc : chunk = []
    · subst hc
      simp only [List.nil_append] at s1
      subst s1
      simp only [List.isEmpty_nil, if_true]
      match rest, s3 rfl, hf with
      | [], _, _ => simp
      | m :: rest', s3, hf =>
        have hm : max ≤ msgSize m := by
          rcases s3 with h | ⟨m', r', he, hle⟩
          · cases h
          · cases he; exact hle
        obtain ⟨j1, j2, j3⟩ := ih rest' (by simp at hf; omega)
        refine ⟨by simp [j1], j2, ?_⟩
        intro c hcm
        simp only [List.mem_cons] at hcm
        rcases hcm with rfl | hcm
        · exact ⟨by simp, Or.inr ⟨m, rfl, hm⟩⟩
        · exact j3 c hcm
    · have hne : chunk.isEmpty = false := by
        cases chunk with
        | nil => exact absurd rfl hc
        | cons _ _ => rfl
      simp only [hne, Bool.false_eq_true, if_false]
      have hlen : rest.length ≤ k := by
        have : f.length = chunk.length + rest.length := by rw [← s1, List.length_append]
        have : 0 < chunk.length := List.length_pos_iff.mpr hc
        omega
      obtain ⟨j1, j2, j3⟩ := ih rest hlen
      refine ⟨by simp [j1, s1], j2, ?_⟩
      intro c hcm
      simp only [List.mem_cons] at hcm
      rcases hcm with rfl | hcm
      · exact ⟨hc, Or.inl (s2 hc)⟩
      · exact j3 c hcm

/-- one flush hands every message of the frame to the transport, once and in order, in
non-empty chunks that respect the bound unless they consist of a single oversize message -/
theorem flushLoop_sound (max : Nat) (f : List Msg) :
    (flushLoop max f.length f).1.flatten = f ∧ (flushLoop max f.length f).2 = [] ∧
    (∀ c ∈ (flushLoop max f.length f).1, c ≠ [] ∧ (sizeSum c < max ∨ ∃ m, c = [m] ∧ max ≤ msgSize m)) :=
  flushLoop_sound_aux max f.length f (Nat.le_refl _)

inductive PeerOp where
  | send (active : Bool) (m : Msg)
  | flush
deriving Repr

def Peer.step (max : Nat) (p : Peer) : PeerOp → Peer
  | .send a m => p.send a m
  | .flush => p.flush max

/-- the messages handed to the peer while it was active, in order -/
def accepted : List PeerOp → List Msg
  | [] => []
  | .send true m :: ops => m :: accepted ops
  | _ :: ops => accepted ops

theorem Peer.flush_inv (max : Nat) (p : Peer) :
    (p.flush max).sent.flatten ++ (p.flush max).frame = p.sent.flatten ++ p.frame ∧
    (p.flush max).dropped = p.dropped := by
  unfold Peer.flush
  by_cases he : p.frame.isEmpty = true
  · simp [he]
  · obtain ⟨j1, j2, _⟩ := flushLoop_sound max p.frame
    simp [he, j1, j2]

/-- for every sequence of the atomic steps of `Peer.Send` and `processSendQueue`: what has
reached the transport followed by what is still queued is exactly the accepted messages -/
theorem queue_exactly_once (max : Nat) (ops : List PeerOp) (p : Peer) :
    ((ops.foldl (Peer.step max) p).sent.flatten ++ (ops.foldl (Peer.step max) p).frame
      = p.sent.flatten ++ p.frame ++ accepted ops) ∧
    ((ops.foldl (Peer.step max) p).dropped = p.dropped) := by
  induction ops generalizing p with
  | nil => simp [accepted]
  | cons op ops ih =>
    simp only [List.foldl_cons]
    obtain ⟨i1, i2⟩ := ih (Peer.step max p op)
    rw [i1, i2]
    cases op with
    | flush =>
      obtain ⟨f1, f2⟩ := Peer.flush_inv max p
      simp only [Peer.step, accepted, f1, f2, and_self]
    | send a m =>
      cases a <;> simp [Peer.step, Peer.send, accepted]

end Emitter.Message
