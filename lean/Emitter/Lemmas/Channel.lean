/-
  Lemmas about the channel parser (Model/Security.lean: parseKey, parseChanLoop, parseOptions,
  parseChannel): every round of the option loop consumes input, so the fuel of the model never
  runs out, and what the parser builds is bounded by the text it was given.
-/
import Emitter.Model.Security
namespace Emitter.Security
open Emitter

theorem scanKey_some_lt : ∀ (text acc : Bytes) (k : Bytes) (rest : Bytes),
    scanKey text acc = some (some k, rest) → rest.length < text.length
  | [], acc, k, rest, h => by simp [scanKey] at h
  | c :: t, acc, k, rest, h => by
      unfold scanKey at h
      split at h
      · simp at h; obtain ⟨_, rfl⟩ := h; simp
      · split at h
        · simp at h
        · have := scanKey_some_lt t (acc ++ [c]) k rest h
          simp; omega

theorem scanKey_none_rest : ∀ (text acc : Bytes) (rest : Bytes),
    scanKey text acc = some (none, rest) → rest = []
  | [], acc, rest, h => by simp [scanKey] at h; exact h
  | c :: t, acc, rest, h => by
      unfold scanKey at h
      split at h
      · simp at h
      · split at h
        · simp at h
        · exact scanKey_none_rest t (acc ++ [c]) rest h

theorem scanVal_le : ∀ (text acc : Bytes) (v rest : Bytes),
    scanVal text acc = some (v, rest) → rest.length ≤ text.length
  | [], acc, v, rest, h => by simp [scanVal] at h; obtain ⟨_, rfl⟩ := h; simp
  | c :: t, acc, v, rest, h => by
      unfold scanVal at h
      split at h
      · simp at h; obtain ⟨_, rfl⟩ := h; simp
      · split at h
        · simp at h
        · have := scanVal_le t (acc ++ [c]) v rest h
          simp; omega

/-- the option list is never longer than the option text -/
theorem parseOptions_length : ∀ (fuel : Nat) (text : Bytes) (os : List (Bytes × Bytes)),
    parseOptions fuel text = some os → os.length ≤ text.length
  | 0, _, _, h => by simp [parseOptions] at h
  | _ + 1, [], os, h => by simp [parseOptions] at h; subst h; simp
  | fuel + 1, c :: t, os, h => by
      unfold parseOptions at h
      split at h
      · simp at h
      · rename_i k rest hk
        split at h
        · simp at h
        · rename_i v rest' hv
          split at h
          · simp at h
          · rename_i k'
            split at h
            · simp at h
            · simp only [Option.map_eq_some_iff] at h
              obtain ⟨os', hos', rfl⟩ := h
              have h1 := scanKey_some_lt (c :: t) [] k' rest hk
              have h2 := scanVal_le rest [] v rest' hv
              have h3 := parseOptions_length fuel rest' os' hos'
              simp at h1 ⊢; omega

/-- Termination argument of the Go loop, made explicit: with fuel above the length of the text
the result does not depend on the fuel — every round consumes at least one byte, so the
`none` of fuel exhaustion is never the answer. -/
theorem parseOptions_fuel : ∀ (fuel : Nat) (text : Bytes), text.length < fuel →
    parseOptions fuel text = parseOptions (text.length + 1) text
  | 0, _, h => by omega
  | _ + 1, [], _ => by simp [parseOptions]
  | fuel + 1, c :: t, h => by
      have hlen : (c :: t).length + 1 = t.length + 1 + 1 := by simp
      rw [hlen]
      unfold parseOptions
      split
      · rfl
      · rename_i k rest hk
        split
        · rfl
        · rename_i v rest' hv
          split
          · rfl
          · rename_i k'
            have h1 := scanKey_some_lt (c :: t) [] k' rest hk
            have h2 := scanVal_le rest [] v rest' hv
            simp at h1 h
            have e1 := parseOptions_fuel fuel rest' (by omega)
            have e2 := parseOptions_fuel (t.length + 1) rest' (by omega)
            rw [e1, e2]

/-- the number of levels never exceeds what was already collected plus the unread text -/
theorem parseChanLoop_query : ∀ (text : Bytes) (st : PC) (q : List UInt32) (clen ty used : Nat),
    parseChanLoop text st = some (q, clen, ty, used) → q.length ≤ st.query.length + text.length
  | [], _, _, _, _, _, h => by simp [parseChanLoop] at h
  | c :: rest, st, q, clen, ty, used, h => by
      unfold parseChanLoop at h
      repeat' split at h
      all_goals first
        | (simp at h; done)
        | (have := parseChanLoop_query _ _ q clen ty used h; simp at this ⊢; omega)
        | (simp at h; obtain ⟨rfl, _⟩ := h; simp; omega)
        | (simp at h; obtain ⟨rfl, _⟩ := h; simp)

theorem parseKey_rest_le (text k rest : Bytes) (h : parseKey text = some (k, rest)) :
    rest.length ≤ text.length := by
  unfold parseKey at h
  dsimp only at h
  split at h
  · simp at h; obtain ⟨_, rfl⟩ := h; simp
  · simp at h

/-- What `ParseChannel` builds is bounded by the topic it was given: at most one option and one
level per input byte (so its allocations are linear in the request). -/
theorem parseChannel_bounded (text : Bytes) :
    (parseChannel text).options.length ≤ text.length ∧ (parseChannel text).query.length ≤ text.length := by
  unfold parseChannel
  split
  · simp
  · rename_i k rest hk
    have hr := parseKey_rest_le text k rest hk
    split
    · simp
    · rename_i q clen ty used hq
      have hq' := parseChanLoop_query rest {} q clen ty used hq
      simp at hq'
      dsimp only
      split
      · simp; omega
      · split
        · simp; omega
        · rename_i os hos
          have := parseOptions_length _ _ os hos
          simp at this ⊢
          omega

end Emitter.Security
