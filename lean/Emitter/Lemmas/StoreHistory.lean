/-
  The history-level statement of C07: the broker model's message store refines the log of
  `Emitter/Spec/Retained.lean` — for every history of accepts, requests (connect with or without a
  will / publish with retain, ttl or neither / link / subscribe / … / disconnect) and ban-list
  changes, by any number of clients, in any order, under every authorizer — and what an accepted
  SUBSCRIBE is sent before its SUBACK is what `Spec.replay` says.
-/
import Emitter.Lemmas.BrokerHistory
import Emitter.Spec.Retained
namespace Emitter.Broker
open Emitter Emitter.Trie Emitter.Security

/-! ### the abstraction function -/

/-- a stored message of the model as a record of the log: the first word of the storage ssid is
the contract, the rest the channel; `k` is its position in the store -/
def absRec (k : Nat) (m : Stored) : Spec.Rec :=
  ⟨m.ssid.headD 0, m.ssid.drop 1, m.channel, m.payload, m.ttl, k⟩

def absFrom : Nat → List Stored → List Spec.Rec
  | _, [] => []
  | k, m :: ms => absRec k m :: absFrom (k + 1) ms

/-- the model's store as a log: same messages, same order, numbered from 0 -/
def absLog (store : List Stored) : List Spec.Rec := absFrom 0 store

/-- a record of the log as the model stores it -/
def Spec.Rec.toStored (r : Spec.Rec) : Stored := ⟨r.contract :: r.ssid, r.channel, r.payload, r.ttl⟩

/-- what the specification knows of a connection: open or not, the will announced by the last
CONNECT (if it had the will flag), the link shortcuts -/
def absInfo (c : Conn) : Spec.Client :=
  { open_ := c.alive
    will := if c.hasConnect && c.willFlag then some ⟨c.willRetain, c.willTopic, c.willMessage⟩ else none
    links := c.links }

def absClient (c : Conn) : String × Spec.Client := (c.name, absInfo c)

/-- **the abstraction function**: ban list, configured retention, the connections in order
(name, open, will, links), and the store as a log -/
def absStore (b : B) : Spec.StoreState :=
  { banned := b.banned, retention := b.retain, clients := b.conns.map absClient, log := absLog b.store }

theorem absFrom_length : ∀ (k : Nat) (s : List Stored), (absFrom k s).length = s.length
  | _, [] => rfl
  | k, _ :: ms => by simp [absFrom, absFrom_length (k + 1) ms]

theorem absFrom_append : ∀ (k : Nat) (s t : List Stored),
    absFrom k (s ++ t) = absFrom k s ++ absFrom (k + s.length) t
  | _, [], _ => by simp [absFrom]
  | k, m :: ms, t => by
      simp only [List.cons_append, absFrom, List.length_cons, absFrom_append (k + 1) ms t]
      congr 3
      omega

theorem absLog_length (s : List Stored) : (absLog s).length = s.length := absFrom_length 0 s

theorem absLog_snoc (s : List Stored) (m : Stored) : absLog (s ++ [m]) = absLog s ++ [absRec s.length m] := by
  unfold absLog
  rw [absFrom_append]
  simp [absFrom]

theorem absFrom_seq : ∀ (k : Nat) (s : List Stored), (absFrom k s).map (·.seq) = List.range' k s.length
  | _, [] => rfl
  | k, m :: ms => by simp [absFrom, absRec, absFrom_seq (k + 1) ms, List.range']

/-- the records of a log obtained from a store are numbered in order of arrival -/
theorem absLog_seq (s : List Stored) : (absLog s).map (·.seq) = List.range s.length := by
  unfold absLog
  rw [absFrom_seq, List.range_eq_range']

/-- the stores in which every message is filed under a contract (all the broker ever writes) -/
def StoreWF (store : List Stored) : Prop := ∀ m ∈ store, m.ssid ≠ []

theorem toStored_absRec (k : Nat) (m : Stored) (h : m.ssid ≠ []) : (absRec k m).toStored = m := by
  obtain ⟨ssid, ch, p, t⟩ := m
  cases ssid with
  | nil => exact absurd rfl h
  | cons a rest => rfl

theorem toStored_absFrom : ∀ (k : Nat) (s : List Stored), StoreWF s → (absFrom k s).map Spec.Rec.toStored = s
  | _, [], _ => rfl
  | k, m :: ms, h => by
      simp only [absFrom, List.map_cons]
      rw [toStored_absRec k m (h m (by simp)), toStored_absFrom (k + 1) ms (fun x hx => h x (by simp [hx]))]

/-! ### connections -/

theorem client?_abs (b : B) (name : String) : (absStore b).client? name = (b.conn? name).map absInfo := by
  unfold Spec.StoreState.client? B.conn? absStore
  simp only [List.find?_map, Option.map_map]
  rfl

theorem setConn_abs (b : B) (c' : Conn) :
    (b.setConn c').conns.map absClient =
      (b.conns.map absClient).map (fun e => if e.1 == c'.name then (c'.name, absInfo c') else e) := by
  simp only [B.setConn, List.map_map]
  apply List.map_congr_left
  intro x _
  by_cases hx : x.name = c'.name
  · simp [hx, absClient]
  · simp [hx, absClient]

theorem absStore_setConn (b : B) (c' : Conn) :
    absStore (b.setConn c') = (absStore b).setClient c'.name (absInfo c') := by
  unfold absStore Spec.StoreState.setClient
  simp only [setConn_abs]
  rfl

/-- replacing the record of a connection by one the specification cannot tell from it -/
theorem setConn_abs_same {b : B} {c c' : Conn} (hnd : (b.conns.map (·.name)).Nodup)
    (hc : b.conn? c.name = some c) (hn : c'.name = c.name) (hi : absInfo c' = absInfo c) :
    (b.setConn c').conns.map absClient = b.conns.map absClient := by
  simp only [B.setConn, List.map_map]
  apply List.map_congr_left
  intro x hx
  by_cases hxn : x.name = c'.name
  · have : x = c := eq_of_name_eq hnd hx (conn?_mem hc) (by rw [hxn, hn])
    subst this
    show absClient (if (x.name == c'.name) = true then c' else x) = absClient x
    rw [if_pos (by simp [hxn])]
    unfold absClient
    rw [hi, hn]
  · simp [hxn]

/-! ### the decision to store: model vs. specification -/

theorem requestedTtl_eq (R : Nat) (retain : Bool) (ch : Channel) :
    Spec.requestedTtl R retain ch =
      if ttlOf retain ch > 0 then
        some (if ttlOf retain ch == Generated.msgRetainedTTL then R else ttlOf retain ch)
      else none := by
  unfold Spec.requestedTtl ttlOf
  cases ht : ch.ttl with
  | none => cases retain <;> simp [Generated.msgRetainedTTL]
  | some t =>
      dsimp only
      by_cases hp : t > 0
      · have hM : (Generated.msgRetainedTTL : Int) = 4294967295 := rfl
        have hM' : Generated.msgRetainedTTL = 4294967295 := rfl
        simp only [hp, if_true]
        rcases Int.lt_trichotomy t 4294967295 with h | h | h
        · have h1 : ¬ t ≥ 4294967295 := by omega
          have h2 : ¬ t > (Generated.msgRetainedTTL : Int) := by omega
          have h3 : t.toNat > 0 := by omega
          have h4 : ¬ t.toNat = Generated.msgRetainedTTL := by omega
          simp [h1, h2, h3, h4]
        · subst h
          simp [hM']
        · have h1 : t ≥ 4294967295 := by omega
          have h2 : t > (Generated.msgRetainedTTL : Int) := by omega
          simp [h1, hM', h]
      · simp only [hp, if_false]
        cases retain <;> simp [Generated.msgRetainedTTL]
/-- the model's decision for an accepted message (`OnPublish` and `OnLastWill` alike) -/
def keep (b : B) (g : Grant) (ch : Channel) (retain : Bool) (payload : Bytes) : B :=
  if ttlOf retain ch > 0 && g.has permStore then
    storeMsg b ⟨g.contract :: ch.query, ch.channel, payload, ttlOf retain ch⟩
  else b

/-- the record an accepted message leaves, as the specification says it -/
def Spec.kept (R : Nat) (seq : Nat) (g : Grant) (ch : Channel) (retain : Bool) (payload : Bytes) : Option Spec.Rec :=
  if g.has permStore then
    (Spec.requestedTtl R retain ch).map (fun ttl => ⟨g.contract, ch.query, ch.channel, payload, ttl, seq⟩)
  else none

theorem keep_frame (b : B) (g : Grant) (ch : Channel) (retain : Bool) (payload : Bytes) :
    (keep b g ch retain payload).conns = b.conns ∧ (keep b g ch retain payload).banned = b.banned ∧
    (keep b g ch retain payload).retain = b.retain ∧ (keep b g ch retain payload).trie = b.trie ∧
    (keep b g ch retain payload).mode = b.mode := by
  unfold keep
  split <;> exact ⟨rfl, rfl, rfl, rfl, rfl⟩

theorem keep_log (b : B) (g : Grant) (ch : Channel) (retain : Bool) (payload : Bytes) :
    absLog (keep b g ch retain payload).store =
      absLog b.store ++ (Spec.kept b.retain b.store.length g ch retain payload).toList := by
  unfold keep Spec.kept
  rw [requestedTtl_eq]
  by_cases hs : g.has permStore = true
  · by_cases ht : ttlOf retain ch > 0
    · simp only [ht, hs, decide_true, Bool.and_self, if_true, storeMsg, absLog_snoc, Option.map_some,
        Option.toList_some]
      rfl
    · simp [ht, hs]
  · simp [hs]

theorem absStore_keep (b : B) (g : Grant) (ch : Channel) (retain : Bool) (payload : Bytes) :
    absStore (keep b g ch retain payload) =
      { absStore b with log := (absStore b).log ++
          (Spec.kept (absStore b).retention (absStore b).log.length g ch retain payload).toList } := by
  obtain ⟨h1, h2, h3, _, _⟩ := keep_frame b g ch retain payload
  unfold absStore
  rw [h1, h2, h3, keep_log, absLog_length]

theorem Spec.stored_accepted {auth : Auth} {banned : List Bytes} {topic : Bytes} {g : Grant}
    (R seq : Nat) (retain : Bool) (payload : Bytes)
    (hst : (parseChannel topic).ctype = chStatic) (hauth : auth banned (parseChannel topic) permWrite = some g)
    (hx : g.has permExtend = false) :
    Spec.stored auth banned R seq retain topic payload = Spec.kept R seq g (parseChannel topic) retain payload := by
  unfold Spec.stored Spec.kept
  simp only [hst, bne_self_eq_false, Bool.false_eq_true, if_false, hauth, hx]
  cases g.has permStore
  · simp
  · cases Spec.requestedTtl R retain (parseChannel topic) <;> simp

theorem Spec.stored_refused {auth : Auth} {banned : List Bytes} {topic : Bytes}
    (R seq : Nat) (retain : Bool) (payload : Bytes)
    (h : (parseChannel topic).ctype ≠ chStatic ∨ auth banned (parseChannel topic) permWrite = none ∨
         ∃ g, auth banned (parseChannel topic) permWrite = some g ∧ g.has permExtend = true) :
    Spec.stored auth banned R seq retain topic payload = none := by
  unfold Spec.stored
  rcases h with h | h | ⟨g, h1, h2⟩
  · simp [h]
  · simp only [h]; split <;> rfl
  · simp only [h1, h2, if_true]; split <;> rfl

/-! ### one request: the model does to the abstract state what the specification says -/

theorem absStore_of_frame {b b' : B} (hc : b'.conns.map absClient = b.conns.map absClient)
    (hb : b'.banned = b.banned) (hr : b'.retain = b.retain) (hs : b'.store = b.store) :
    absStore b' = absStore b := by
  unfold absStore; rw [hc, hb, hr, hs]

theorem subscribeConn_retain (b : B) (c : Conn) (σ : Path) (ch : Bytes) :
    (subscribeConn b c σ ch).1.retain = b.retain := by
  rw [subscribeConn_eq]; split <;> rfl

theorem unsubscribeConn_retain (b : B) (c : Conn) (σ : Path) (ch : Bytes) :
    (unsubscribeConn b c σ ch).1.retain = b.retain := by
  unfold unsubscribeConn
  rcases dec c.counters σ with ⟨cs, last⟩
  cases last <;> rfl

theorem absStore_subscribeConn {b : B} {c : Conn} (hnd : (b.conns.map (·.name)).Nodup)
    (hc : b.conn? c.name = some c) (σ : Path) (ch : Bytes) :
    absStore (subscribeConn b c σ ch).1 = absStore b := by
  refine absStore_of_frame ?_ (subscribeConn_frame b c σ ch).2.2.2 (subscribeConn_retain b c σ ch)
    (subscribeConn_frame b c σ ch).1
  rw [subscribeConn_eq]
  split
  · rfl
  · exact setConn_abs_same hnd hc rfl rfl

theorem absStore_unsubscribeConn {b : B} {c : Conn} (hnd : (b.conns.map (·.name)).Nodup)
    (hc : b.conn? c.name = some c) (σ : Path) (ch : Bytes) :
    absStore (unsubscribeConn b c σ ch).1 = absStore b := by
  refine absStore_of_frame ?_ (unsubscribeConn_frame b c σ ch).2.2.2 (unsubscribeConn_retain b c σ ch)
    (unsubscribeConn_frame b c σ ch).1
  rw [unsubscribeConn_conns']
  exact setConn_abs_same hnd hc rfl rfl

theorem client?_of_conn {b : B} {c : Conn} (hc : b.conn? c.name = some c) :
    (absStore b).client? c.name = some (absInfo c) := by
  rw [client?_abs, hc]; rfl

/-- a request that appends nothing and records nothing leaves the specification state alone -/
theorem Spec.stepStore_idle {auth : Auth} {s : Spec.StoreState} {name : String} {i : Spec.Client} {r : Req}
    (hi : s.client? name = some i)
    (hr : match r with | .subscribe .. => True | .unsubscribe .. => True | .presence .. => True | _ => False) :
    Spec.stepStore auth s name r = s := by
  unfold Spec.stepStore
  rw [hi]
  dsimp only
  split
  · rfl
  · cases r <;> simp only at hr <;> simp [Spec.appended]

theorem step_abs_connect (auth : Auth) (b : B) (c : Conn) (un : Bytes) (wf wr : Bool) (wt wm : Bytes)
    (hc : b.conn? c.name = some c) (ha : c.alive = true) :
    absStore (step auth b c.name (.connect un wf wr wt wm)).1 =
      Spec.stepStore auth (absStore b) c.name (.connect un wf wr wt wm) := by
  have hi := client?_of_conn hc
  have ho : (absInfo c).open_ = true := ha
  simp only [step, hc]; rw [if_neg (by simp [ha])]
  simp only [Spec.stepStore, hi, ho, Spec.appended]
  rw [absStore_setConn]
  simp [absInfo, Spec.StoreState.setClient, ha]

theorem step_abs_subscribe (auth : Auth) (b : B) (c : Conn) (mid : UInt16) (topic : Bytes) (qos : UInt8)
    (hnd : (b.conns.map (·.name)).Nodup) (hc : b.conn? c.name = some c) (ha : c.alive = true) :
    absStore (step auth b c.name (.subscribe mid topic qos)).1 =
      Spec.stepStore auth (absStore b) c.name (.subscribe mid topic qos) := by
  rw [Spec.stepStore_idle (client?_of_conn hc) trivial]
  cases hg : Spec.granted auth b.banned (parseChannel (fixTopic topic)) permRead with
  | none =>
      obtain ⟨st, hst⟩ := reject_subscribe auth b c.name c mid topic qos hc ha (Spec.granted_none hg)
      rw [hst]
  | some σ =>
      obtain ⟨hv, g, hauth, hx, rfl⟩ := Spec.granted_some hg
      rw [step_subscribe_eq auth b c.name c mid topic qos g hc ha hv hauth hx]
      exact absStore_subscribeConn hnd hc _ _

theorem step_abs_unsubscribe (auth : Auth) (b : B) (c : Conn) (mid : UInt16) (topic : Bytes)
    (hnd : (b.conns.map (·.name)).Nodup) (hc : b.conn? c.name = some c) (ha : c.alive = true) :
    absStore (step auth b c.name (.unsubscribe mid topic)).1 =
      Spec.stepStore auth (absStore b) c.name (.unsubscribe mid topic) := by
  rw [Spec.stepStore_idle (client?_of_conn hc) trivial]
  cases hg : Spec.granted auth b.banned (parseChannel topic) permRead with
  | none =>
      obtain ⟨st, hst⟩ := reject_unsubscribe auth b c.name c mid topic hc ha (Spec.granted_none hg)
      rw [hst]
  | some σ =>
      obtain ⟨hv, g, hauth, hx, rfl⟩ := Spec.granted_some hg
      rw [step_unsubscribe_eq auth b c.name c mid topic g hc ha hv hauth hx]
      exact absStore_unsubscribeConn hnd hc _ _

theorem step_publish_keep (auth : Auth) (b : B) (name : String) (c : Conn) (qos : UInt8) (retain : Bool)
    (mid : UInt16) (topic payload : Bytes) (g : Grant)
    (hc : b.conn? name = some c) (ha : c.alive = true)
    (hs : (parseChannel (resolve c topic)).ctype = chStatic)
    (hauth : auth b.banned (parseChannel (resolve c topic)) permWrite = some g) (hx : g.has permExtend = false) :
    (step auth b name (.publish qos retain mid topic payload)).1 =
      keep b g (parseChannel (resolve c topic)) retain payload := by
  have hi := static_ne_invalid hs
  unfold resolve at hs hauth hi ⊢
  simp only [step, hc]; rw [if_neg (by simp [ha])]
  generalize (if topic.length ≤ 2 then ((c.links.find? (·.1 == topic)).map (·.2)).getD [] else topic) = t at hs hauth hi ⊢
  rw [if_neg (by simpa using hi), if_neg (by simp [hs])]
  simp only [hauth, hx, Bool.false_eq_true, if_false]
  rfl

theorem absStore_banned (b : B) : (absStore b).banned = b.banned := rfl
theorem absStore_retention (b : B) : (absStore b).retention = b.retain := rfl
theorem absStore_log (b : B) : (absStore b).log = absLog b.store := rfl

theorem resolve_abs (c : Conn) (topic : Bytes) : (absInfo c).resolve topic = resolve c topic := rfl

theorem Spec.with_log_nil (s : Spec.StoreState) : { s with log := s.log ++ (none : Option Spec.Rec).toList } = s := by
  simp

theorem step_abs_publish (auth : Auth) (b : B) (c : Conn) (qos : UInt8) (retain : Bool) (mid : UInt16)
    (topic payload : Bytes) (hc : b.conn? c.name = some c) (ha : c.alive = true) :
    absStore (step auth b c.name (.publish qos retain mid topic payload)).1 =
      Spec.stepStore auth (absStore b) c.name (.publish qos retain mid topic payload) := by
  have hi := client?_of_conn hc
  have ho : (absInfo c).open_ = true := ha
  simp only [Spec.stepStore, hi, ho, Spec.appended, resolve_abs, absStore_banned]
  by_cases hbad : (parseChannel (resolve c topic)).ctype ≠ chStatic ∨
            auth b.banned (parseChannel (resolve c topic)) permWrite = none ∨
            ∃ g, auth b.banned (parseChannel (resolve c topic)) permWrite = some g ∧ g.has permExtend = true
  · obtain ⟨st, hst⟩ := reject_publish auth b c.name c qos retain mid topic payload hc ha hbad
    rw [hst, Spec.stored_refused _ _ _ _ hbad]
    simp only [Option.toList_none, List.append_nil, Bool.not_true, Bool.false_eq_true, if_false]
    rfl
  · simp only [not_or, Decidable.not_not, not_exists, not_and] at hbad
    obtain ⟨hst, hne, hnx⟩ := hbad
    cases hauth : auth b.banned (parseChannel (resolve c topic)) permWrite with
    | none => exact absurd hauth hne
    | some g =>
        have hx : g.has permExtend = false := by
          cases h : g.has permExtend with
          | false => rfl
          | true => exact absurd h (hnx g hauth)
        rw [step_publish_keep auth b c.name c qos retain mid topic payload g hc ha hst hauth hx, absStore_keep,
          Spec.stored_accepted _ _ _ _ hst hauth hx]
        rfl

theorem step_abs_link (auth : Auth) (b : B) (c : Conn) (mid : UInt16) (nm key channel : Bytes) (sub : Bool)
    (hnd : (b.conns.map (·.name)).Nodup) (hc : b.conn? c.name = some c) (ha : c.alive = true) :
    absStore (step auth b c.name (.link mid nm key channel sub)).1 =
      Spec.stepStore auth (absStore b) c.name (.link mid nm key channel sub) := by
  have hi := client?_of_conn hc
  have ho : (absInfo c).open_ = true := ha
  simp only [Spec.stepStore, hi, ho, Spec.appended, Option.toList_none, List.append_nil, Bool.not_true,
    Bool.false_eq_true, if_false]
  simp only [step, hc]; rw [if_neg (by simp [ha])]
  split
  · rename_i h1
    simp only [Bool.not_eq_true'] at h1
    simp only [h1, Bool.false_and, Bool.false_eq_true, if_false]
  rename_i h1
  simp only [Bool.not_eq_true', Bool.not_eq_false] at h1
  split
  · rename_i h2
    simp only [beq_iff_eq] at h2
    simp only [h2, bne_self_eq_false, Bool.and_false, Bool.false_eq_true, if_false]
  rename_i h2
  have h2' : ((parseChannel (key ++ [sep] ++ channel)).ctype != chInvalid) = true := by
    simpa using h2
  simp only [h1, h2', Bool.and_self, if_true]
  generalize hlk : ((nm, (parseChannel (key ++ [sep] ++ channel)).toBytes) :: c.links.filter (fun x => x.1 != nm)) = lk
  have hc1 : (b.setConn { c with links := lk }).conn? c.name = some { c with links := lk } :=
    conn?_setConn (c := { c with links := lk }) ⟨c, conn?_mem hc, rfl⟩
  have hnd1 : ((b.setConn { c with links := lk }).conns.map (·.name)).Nodup := by
    rw [setConn_names]; exact hnd
  have hset : absStore (b.setConn { c with links := lk }) =
      (absStore b).setClient c.name { absInfo c with links := lk } := absStore_setConn b { c with links := lk }
  refine Eq.trans ?_ (hset.trans ?_)
  · split
    · split
      · exact absStore_subscribeConn (c := { c with links := lk }) hnd1 hc1 _ _
      · rfl
    · rfl
  · rw [← hlk]
    simp [absInfo, ha, Spec.StoreState.setClient]

theorem step_abs_presence (auth : Auth) (b : B) (c : Conn) (mid : UInt16) (key channel : Bytes) (status : Bool)
    (changes : Option Bool) (hnd : (b.conns.map (·.name)).Nodup) (hc : b.conn? c.name = some c)
    (ha : c.alive = true) :
    absStore (step auth b c.name (.presence mid key channel status changes)).1 =
      Spec.stepStore auth (absStore b) c.name (.presence mid key channel status changes) := by
  rw [Spec.stepStore_idle (client?_of_conn hc) trivial]
  simp only [step, hc]; rw [if_neg (by simp [ha])]
  generalize (if channel.getLast? == some sep then channel else channel ++ [sep]) = chn
  split
  · rfl
  split
  · rfl
  split
  · rfl
  split <;> (dsimp only [Option.getD_some]; split)
  · exact absStore_subscribeConn hnd hc _ _
  · exact absStore_unsubscribeConn hnd hc _ _
  · rfl
  · exact absStore_subscribeConn hnd hc _ _
  · exact absStore_unsubscribeConn hnd hc _ _
  · rfl

/-! ### the end of a connection -/

theorem closeF_abs (name : String) : ∀ (cs : List Counter) (acc : B × Out),
    (acc.1.conns.map (·.name)).Nodup →
    absStore (cs.foldl (closeF name) acc).1 = absStore acc.1 ∧
    ((cs.foldl (closeF name) acc).1.conns.map (·.name)).Nodup
  | [], _, h => ⟨rfl, h⟩
  | ctr :: rest, acc, h => by
      rw [List.foldl_cons]
      have hstep : absStore (closeF name acc ctr).1 = absStore acc.1 ∧
          ((closeF name acc ctr).1.conns.map (·.name)).Nodup := by
        unfold closeF
        cases hcur : acc.1.conn? name with
        | none => exact ⟨rfl, h⟩
        | some cur =>
            dsimp only
            have hc : acc.1.conn? cur.name = some cur := by rw [conn?_name hcur]; exact hcur
            refine ⟨absStore_unsubscribeConn h hc _ _, ?_⟩
            rw [unsubscribeConn_conns', setConn_names]
            exact h
      obtain ⟨i1, i2⟩ := closeF_abs name rest (closeF name acc ctr) hstep.2
      exact ⟨i1.trans hstep.1, i2⟩

theorem lastWill_retain (auth : Auth) (b : B) (c : Conn) : (lastWill auth b c).1.retain = b.retain := by
  unfold lastWill
  dsimp only
  split
  · rfl
  split
  · rfl
  split
  · rfl
  split
  · rfl
  split <;> rfl

theorem lastWill_keep (auth : Auth) (b : B) (c : Conn) (g : Grant)
    (h1 : c.hasConnect = true) (h2 : c.willFlag = true) (h3 : (parseChannel c.willTopic).ctype = chStatic)
    (h4 : auth b.banned (parseChannel c.willTopic) permWrite = some g) (h5 : g.has permExtend = false) :
    (lastWill auth b c).1 = keep b g (parseChannel c.willTopic) c.willRetain c.willMessage := by
  unfold lastWill
  dsimp only
  rw [if_neg (by simp [h1, h2]), if_neg (by simp [h3])]
  simp only [h4, h5, Bool.false_eq_true, if_false]
  rfl

/-- the last will is stored under the rule of a publish: the record `Spec.stored` names for the
will announced at CONNECT -/
theorem lastWill_abs (auth : Auth) (b : B) (c : Conn) :
    absStore (lastWill auth b c).1 =
      { absStore b with log := (absStore b).log ++
          (match (absInfo c).will with
           | some w => Spec.stored auth b.banned b.retain (absStore b).log.length w.retain w.topic w.message
           | none => none).toList } := by
  by_cases hex : ∃ g, c.hasConnect = true ∧ c.willFlag = true ∧ (parseChannel c.willTopic).ctype = chStatic ∧
        auth b.banned (parseChannel c.willTopic) permWrite = some g ∧ g.has permExtend = false
  · obtain ⟨g, h1, h2, h3, h4, h5⟩ := hex
    rw [lastWill_keep auth b c g h1 h2 h3 h4 h5, absStore_keep]
    simp only [absInfo, h1, h2, Bool.and_self, if_true]
    rw [Spec.stored_accepted _ _ _ _ h3 h4 h5]
    rfl
  · rw [lastWill_bad auth b c hex]
    cases hw : (absInfo c).will with
    | none => simp
    | some w =>
        have hcw : c.hasConnect = true ∧ c.willFlag = true ∧ w = ⟨c.willRetain, c.willTopic, c.willMessage⟩ := by
          simp only [absInfo] at hw
          split at hw
          · rename_i h
            simp only [Bool.and_eq_true] at h
            exact ⟨h.1, h.2, (Option.some.inj hw).symm⟩
          · cases hw
        obtain ⟨h1, h2, rfl⟩ := hcw
        dsimp only
        rw [Spec.stored_refused]
        · simp
        · by_cases h3 : (parseChannel c.willTopic).ctype = chStatic
          · right
            cases h4 : auth b.banned (parseChannel c.willTopic) permWrite with
            | none => exact Or.inl rfl
            | some g =>
                right
                refine ⟨g, rfl, ?_⟩
                cases h5 : g.has permExtend with
                | true => rfl
                | false => exact absurd ⟨g, h1, h2, h3, h4, h5⟩ hex
          · exact Or.inl h3

theorem step_abs_close (auth : Auth) (b : B) (c : Conn)
    (hnd : (b.conns.map (·.name)).Nodup) (hc : b.conn? c.name = some c) (ha : c.alive = true) :
    absStore (step auth b c.name .close).1 = Spec.stepStore auth (absStore b) c.name .close := by
  have hi := client?_of_conn hc
  have ho : (absInfo c).open_ = true := ha
  simp only [Spec.stepStore, hi, ho, Spec.appended, Bool.not_true, Bool.false_eq_true, if_false]
  rw [step_close_eq auth b c.name c hc ha, closeConn_eq]
  generalize hF : (c.counters.foldl (closeF c.name) ({ b with open_ := b.open_ - 1 }, [])) = F
  obtain ⟨f1, f2⟩ := closeF_abs c.name c.counters ({ b with open_ := b.open_ - 1 }, []) hnd
  rw [hF] at f1 f2
  have f1' : absStore F.1 = absStore b := f1
  have hcl := client?_abs F.1 c.name
  rw [f1', hi] at hcl
  cases hq : F.1.conn? c.name with
  | none => rw [hq] at hcl; cases hcl
  | some cF =>
      rw [hq] at hcl
      have hinfo : absInfo cF = absInfo c := (Option.some.inj hcl).symm
      have hname : cF.name = c.name := conn?_name hq
      dsimp only [Option.getD_some]
      show absStore ((lastWill auth F.1 cF).1.setConn { cF with alive := false }) = _
      rw [absStore_setConn, lastWill_abs, f1', hinfo]
      have hb : F.1.banned = b.banned := congrArg Spec.StoreState.banned f1'
      have hr : F.1.retain = b.retain := congrArg Spec.StoreState.retention f1'
      rw [hb, hr]
      have : absInfo { cF with alive := false } = { absInfo c with open_ := false } := by
        rw [← hinfo]; rfl
      rw [this]
      show Spec.StoreState.setClient _ cF.name _ = _
      rw [hname]
      rfl

/-! ### histories -/

/-- **every request of every connection refines `Spec.stepStore`** (the connection names being
distinct): the abstraction of the model's next state is the specification's next state -/
theorem step_abs (auth : Auth) (b : B) (name : String) (r : Req) (hnd : (b.conns.map (·.name)).Nodup) :
    absStore (step auth b name r).1 = Spec.stepStore auth (absStore b) name r := by
  cases hc : b.conn? name with
  | none =>
      rw [step_none auth b name r hc]
      have : (absStore b).client? name = none := by rw [client?_abs, hc]; rfl
      simp only [Spec.stepStore, this]
  | some c =>
    have hname := conn?_name hc
    subst hname
    cases ha : c.alive with
    | false =>
        rw [dead_silent auth b c.name c r hc ha]
        have ho : (absInfo c).open_ = false := ha
        simp only [Spec.stepStore, client?_of_conn hc, ho, Bool.not_false, if_true]
    | true =>
        cases r with
        | connect un wf wr wt wm => exact step_abs_connect auth b c un wf wr wt wm hc ha
        | subscribe mid topic qos => exact step_abs_subscribe auth b c mid topic qos hnd hc ha
        | unsubscribe mid topic => exact step_abs_unsubscribe auth b c mid topic hnd hc ha
        | publish qos retain mid topic payload => exact step_abs_publish auth b c qos retain mid topic payload hc ha
        | link mid nm key channel sub => exact step_abs_link auth b c mid nm key channel sub hnd hc ha
        | presence mid key channel status changes =>
            exact step_abs_presence auth b c mid key channel status changes hnd hc ha
        | close => exact step_abs_close auth b c hnd hc ha

theorem applyEv_abs (auth : Auth) (b : B) (e : Spec.Ev) (hnd : (b.conns.map (·.name)).Nodup) :
    absStore (applyEv auth b e).1 = Spec.applyStore auth (absStore b) e := by
  cases e with
  | accept n g => simp [applyEv, accept, Spec.applyStore, absStore, absClient, absInfo]
  | req n r => exact step_abs auth b n r hnd
  | ban keys => rfl

theorem Spec.runStore_cons (auth : Auth) (S : Spec.StoreState) (e : Spec.Ev) (es : List Spec.Ev) :
    Spec.runStore auth S (e :: es) = Spec.runStore auth (Spec.applyStore auth S e) es := rfl

theorem Spec.runStore_append (auth : Auth) (S : Spec.StoreState) (h₁ h₂ : List Spec.Ev) :
    Spec.runStore auth S (h₁ ++ h₂) = Spec.runStore auth (Spec.runStore auth S h₁) h₂ := by
  unfold Spec.runStore; rw [List.foldl_append]

/-- `Sync` and the freshness of the remaining accepts are kept by one event -/
theorem applyEv_keeps (auth : Auth) (b : B) (e : Spec.Ev) (es : List Spec.Ev) (hs : Sync b) (hf : Fresh b (e :: es)) :
    Sync (applyEv auth b e).1 ∧ Fresh (applyEv auth b e).1 es := by
  obtain ⟨f1, f2, f3, f4⟩ := hf
  cases e with
  | accept n g =>
      simp only [Spec.acceptNames, Spec.acceptKeys, List.nodup_cons, List.mem_cons, not_or] at f1 f2 f3 f4
      have hn : ∀ c ∈ b.conns, c.name ≠ n := fun c hc => (f3 c hc).1
      have hk : ∀ c ∈ b.conns, c.key ≠ Hash.hashOf g := fun c hc => (f4 c hc).1
      have hmem : ∀ x, x ∈ (accept b n g).conns ↔ x ∈ b.conns ∨ x = { name := n, guid := g } := by
        intro x; simp [accept]
      refine ⟨sync_accept b n g hs hn hk, f1.2, f2.2, ?_, ?_⟩
      · intro c hc
        rcases (hmem c).1 hc with hc | rfl
        · exact (f3 c hc).2
        · exact f1.1
      · intro c hc
        rcases (hmem c).1 hc with hc | rfl
        · exact (f4 c hc).2
        · exact f2.1
  | req n r =>
      obtain ⟨_, _, hfr⟩ := step_frame auth b n r hs
      refine ⟨sync_step auth b n r hs, f1, f2, ?_, ?_⟩
      · intro x hx
        obtain ⟨y, hy, h1, _⟩ := hfr x hx
        rw [← h1]; exact f3 y hy
      · intro x hx
        obtain ⟨y, hy, _, h2⟩ := hfr x hx
        rw [← h2]; exact f4 y hy
  | ban keys => exact ⟨hs.congr rfl rfl, f1, f2, f3, f4⟩

/-- the refinement along any history with new accepts, from any state satisfying the invariant -/
theorem run_store (auth : Auth) : ∀ (evs : List Spec.Ev) (b : B), Sync b → Fresh b evs →
    absStore (run auth b evs) = Spec.runStore auth (absStore b) evs
  | [], _, _, _ => rfl
  | e :: es, b, hs, hf => by
      obtain ⟨hs', hf'⟩ := applyEv_keeps auth b e es hs hf
      rw [run_cons, Spec.runStore_cons, run_store auth es _ hs' hf', applyEv_abs auth b e hs.names]

/-- the specification state a pristine broker starts from: nobody connected; the ban list, the
configured retention and the messages already in the store are the broker's -/
def Spec.initStore (b₀ : B) : Spec.StoreState :=
  { banned := b₀.banned, retention := b₀.retain, clients := [], log := absLog b₀.store }

theorem absStore_pristine {b : B} (h : Pristine b) : absStore b = Spec.initStore b := by
  unfold absStore Spec.initStore; rw [h.1]; rfl

/-- **C07, "is stored" and "nothing else is stored", for every history**: after any well-formed
history from a pristine broker, under every authorizer, the abstraction of the model's state is
the specification's state after the same history — in particular the model's store, read as a
log by `absLog`, holds exactly the records `Spec.stepStore` appended, in the same order (⊇: every
message the property says is stored is there; ⊆: nothing else is) -/
theorem store_history_refines (auth : Auth) (b₀ : B) (h0 : Pristine b₀) (evs : List Spec.Ev)
    (hwf : Spec.wellFormed evs = true) :
    absStore (run auth b₀ evs) = Spec.runStore auth (Spec.initStore b₀) evs := by
  rw [← absStore_pristine h0]
  exact run_store auth evs b₀ (sync_pristine h0) (fresh_of_wellFormed h0 hwf)

/-! ### every stored message is filed under a contract -/

theorem keep_store_cases (b : B) (g : Grant) (ch : Channel) (retain : Bool) (payload : Bytes) :
    (keep b g ch retain payload).store = b.store ∨
      ∃ m, m.ssid ≠ [] ∧ (keep b g ch retain payload).store = b.store ++ [m] := by
  unfold keep
  split
  · right
    exact ⟨_, by simp, rfl⟩
  · exact Or.inl rfl

theorem lastWill_store_cases (auth : Auth) (b : B) (c : Conn) :
    (lastWill auth b c).1.store = b.store ∨ ∃ m, m.ssid ≠ [] ∧ (lastWill auth b c).1.store = b.store ++ [m] := by
  by_cases hex : ∃ g, c.hasConnect = true ∧ c.willFlag = true ∧ (parseChannel c.willTopic).ctype = chStatic ∧
        auth b.banned (parseChannel c.willTopic) permWrite = some g ∧ g.has permExtend = false
  · obtain ⟨g, h1, h2, h3, h4, h5⟩ := hex
    rw [lastWill_keep auth b c g h1 h2 h3 h4 h5]
    exact keep_store_cases b g _ _ _
  · rw [lastWill_bad auth b c hex]; exact Or.inl rfl

theorem closeF_store (name : String) : ∀ (cs : List Counter) (acc : B × Out),
    (cs.foldl (closeF name) acc).1.store = acc.1.store
  | [], _ => rfl
  | ctr :: rest, acc => by
      rw [List.foldl_cons, closeF_store name rest (closeF name acc ctr)]
      unfold closeF
      cases hcur : acc.1.conn? name with
      | none => rfl
      | some cur => exact (unsubscribeConn_frame _ _ _ _).1

/-- a request leaves the store alone or appends one message filed under a contract -/
theorem step_store_cases (auth : Auth) (b : B) (name : String) (r : Req) :
    (step auth b name r).1.store = b.store ∨
      ∃ m, m.ssid ≠ [] ∧ (step auth b name r).1.store = b.store ++ [m] := by
  cases hc : b.conn? name with
  | none => rw [step_none auth b name r hc]; exact Or.inl rfl
  | some c =>
    have hname := conn?_name hc
    subst hname
    cases ha : c.alive with
    | false => rw [dead_silent auth b c.name c r hc ha]; exact Or.inl rfl
    | true =>
        cases r with
        | connect un wf wr wt wm =>
            left
            simp only [step, hc]; rw [if_neg (by simp [ha])]
            rfl
        | subscribe mid topic qos =>
            left
            cases hg : Spec.granted auth b.banned (parseChannel (fixTopic topic)) permRead with
            | none =>
                obtain ⟨st, hst⟩ := reject_subscribe auth b c.name c mid topic qos hc ha (Spec.granted_none hg)
                rw [hst]
            | some σ =>
                obtain ⟨hv, g, hauth, hx, rfl⟩ := Spec.granted_some hg
                rw [step_subscribe_eq auth b c.name c mid topic qos g hc ha hv hauth hx]
                exact (subscribeConn_frame _ _ _ _).1
        | unsubscribe mid topic =>
            left
            cases hg : Spec.granted auth b.banned (parseChannel topic) permRead with
            | none =>
                obtain ⟨st, hst⟩ := reject_unsubscribe auth b c.name c mid topic hc ha (Spec.granted_none hg)
                rw [hst]
            | some σ =>
                obtain ⟨hv, g, hauth, hx, rfl⟩ := Spec.granted_some hg
                rw [step_unsubscribe_eq auth b c.name c mid topic g hc ha hv hauth hx]
                exact (unsubscribeConn_frame _ _ _ _).1
        | publish qos retain mid topic payload =>
            by_cases hbad : (parseChannel (resolve c topic)).ctype ≠ chStatic ∨
                auth b.banned (parseChannel (resolve c topic)) permWrite = none ∨
                ∃ g, auth b.banned (parseChannel (resolve c topic)) permWrite = some g ∧ g.has permExtend = true
            · obtain ⟨st, hst⟩ := reject_publish auth b c.name c qos retain mid topic payload hc ha hbad
              rw [hst]; exact Or.inl rfl
            · simp only [not_or, Decidable.not_not, not_exists, not_and] at hbad
              obtain ⟨hst, hne, hnx⟩ := hbad
              cases hauth : auth b.banned (parseChannel (resolve c topic)) permWrite with
              | none => exact absurd hauth hne
              | some g =>
                  have hx : g.has permExtend = false := by
                    cases h : g.has permExtend with
                    | false => rfl
                    | true => exact absurd h (hnx g hauth)
                  rw [step_publish_keep auth b c.name c qos retain mid topic payload g hc ha hst hauth hx]
                  exact keep_store_cases b g _ _ _
        | link mid nm key channel sub =>
            left
            simp only [step, hc]; rw [if_neg (by simp [ha])]
            split
            · rfl
            split
            · rfl
            split
            · split
              · exact (subscribeConn_frame _ _ _ _).1
              · rfl
            · rfl
        | presence mid key channel status changes =>
            left
            simp only [step, hc]; rw [if_neg (by simp [ha])]
            generalize (if channel.getLast? == some sep then channel else channel ++ [sep]) = chn
            split
            · rfl
            split
            · rfl
            split
            · rfl
            split <;> (dsimp only [Option.getD_some]; split)
            · exact (subscribeConn_frame _ _ _ _).1
            · exact (unsubscribeConn_frame _ _ _ _).1
            · rfl
            · exact (subscribeConn_frame _ _ _ _).1
            · exact (unsubscribeConn_frame _ _ _ _).1
            · rfl
        | close =>
            rw [step_close_eq auth b c.name c hc ha, closeConn_eq]
            have hF := closeF_store c.name c.counters ({ b with open_ := b.open_ - 1 }, [])
            generalize (c.counters.foldl (closeF c.name) ({ b with open_ := b.open_ - 1 }, [])) = F at hF ⊢
            have hF' : F.1.store = b.store := hF
            show (lastWill auth F.1 _).1.store = b.store ∨ ∃ m, m.ssid ≠ [] ∧ (lastWill auth F.1 _).1.store = b.store ++ [m]
            rw [← hF']
            exact lastWill_store_cases auth F.1 _

theorem storeWF_append {s : List Stored} {m : Stored} (h : StoreWF s) (hm : m.ssid ≠ []) : StoreWF (s ++ [m]) := by
  intro x hx
  rcases List.mem_append.1 hx with hx | hx
  · exact h x hx
  · simp only [List.mem_singleton] at hx; subst hx; exact hm

theorem applyEv_storeWF (auth : Auth) (b : B) (e : Spec.Ev) (h : StoreWF b.store) :
    StoreWF (applyEv auth b e).1.store := by
  cases e with
  | accept n g => exact h
  | ban keys => exact h
  | req n r =>
      rcases step_store_cases auth b n r with h1 | ⟨m, hm, h1⟩
      · show StoreWF (step auth b n r).1.store
        rw [h1]; exact h
      · show StoreWF (step auth b n r).1.store
        rw [h1]; exact storeWF_append h hm

theorem run_storeWF (auth : Auth) : ∀ (evs : List Spec.Ev) (b : B), StoreWF b.store → StoreWF (run auth b evs).store
  | [], _, h => h
  | e :: es, b, h => by
      rw [run_cons]
      exact run_storeWF auth es _ (applyEv_storeWF auth b e h)

/-- `store_history_refines` read on the store alone: the model's store after the history is,
message by message and in the same order, the log after the same history — every record filed as
`contract :: channel levels` — and the records are numbered in order of arrival -/
theorem store_history_exact (auth : Auth) (b₀ : B) (h0 : Pristine b₀) (hst : StoreWF b₀.store)
    (evs : List Spec.Ev) (hwf : Spec.wellFormed evs = true) :
    let L := (Spec.runStore auth (Spec.initStore b₀) evs).log
    L = absLog (run auth b₀ evs).store ∧
    (run auth b₀ evs).store = L.map Spec.Rec.toStored ∧
    L.map (·.seq) = List.range L.length := by
  intro L
  have h : L = absLog (run auth b₀ evs).store := by
    show (Spec.runStore auth (Spec.initStore b₀) evs).log = _
    rw [← store_history_refines auth b₀ h0 evs hwf]; rfl
  refine ⟨h, ?_, ?_⟩
  · rw [h]
    exact (toStored_absFrom 0 _ (run_storeWF auth evs b₀ hst)).symm
  · rw [h, absLog_seq, absLog_length]

/-! ### replay: the model's query is the specification's "last N matching" -/

theorem levelPrefix_eq : ∀ (q s : Path), Spec.levelPrefix q s =
    (decide (q.length ≤ s.length) &&
      (q.zip s).all (fun (a, x) => a == x || a == Trie.wildcard || a == Trie.multiWildcard))
  | [], _ => by simp [Spec.levelPrefix]
  | _ :: _, [] => by simp [Spec.levelPrefix]
  | a :: q, x :: s => by
      simp only [Spec.levelPrefix, levelPrefix_eq q s, List.length_cons, List.zip_cons_cons, List.all_cons,
        Nat.add_le_add_iff_right]
      cases (a == x || a == Trie.wildcard || a == Trie.multiWildcard) <;> simp

theorem ssidMatches_cons (c c' : UInt32) (q s : Path) :
    ssidMatches (c :: q) (c' :: s) = (c' == c && q.take 1 == s.take 1 && Spec.levelPrefix q s) := by
  rw [levelPrefix_eq]
  unfold ssidMatches
  simp only [List.length_cons, Nat.add_le_add_iff_right, List.zip_cons_cons, List.all_cons]
  have h2 : ((c :: q).take 2 == (c' :: s).take 2) = (c == c' && q.take 1 == s.take 1) := by
    show ((c :: q.take 1) == (c' :: s.take 1)) = _
    rw [List.cons_beq_cons]
  rw [h2]
  by_cases hcc : c = c'
  · subst hcc
    simp only [beq_self_eq_true, Bool.true_and, Bool.true_or]
    cases decide (q.length ≤ s.length) <;> cases (q.take 1 == s.take 1) <;> simp
  · have h1 : (c == c') = false := by simpa using hcc
    have h3 : (c' == c) = false := by simpa using fun h => hcc h.symm
    simp [h1, h3]

theorem matches_absRec (c : UInt32) (q : Path) (k : Nat) (m : Stored) (h : m.ssid ≠ []) :
    (absRec k m).matches c q = ssidMatches (c :: q) m.ssid := by
  obtain ⟨ssid, ch, p, t⟩ := m
  cases ssid with
  | nil => exact absurd rfl h
  | cons c' s => rw [ssidMatches_cons]; rfl

theorem filter_absFrom (c : UInt32) (q : Path) : ∀ (k : Nat) (s : List Stored), StoreWF s →
    ((absFrom k s).filter (Spec.Rec.matches c q)).map Spec.Rec.toStored =
      s.filter (fun m => ssidMatches (c :: q) m.ssid)
  | _, [], _ => rfl
  | k, m :: ms, h => by
      have hm : m.ssid ≠ [] := h m (by simp)
      have ih := filter_absFrom c q (k + 1) ms (fun x hx => h x (by simp [hx]))
      simp only [absFrom, List.filter_cons, matches_absRec c q k m hm]
      split
      · rw [List.map_cons, ih, toStored_absRec k m hm]
      · exact ih

/-- the model's history query, in the words of the specification -/
theorem queryStore_abs (b : B) (h : StoreWF b.store) (c : UInt32) (q : Path) (n : Nat) :
    queryStore b (c :: q) n =
      (Spec.lastN n ((absLog b.store).filter (Spec.Rec.matches c q))).map Spec.Rec.toStored := by
  unfold queryStore Spec.lastN absLog
  dsimp only
  rw [← filter_absFrom c q 0 b.store h, List.map_drop, List.length_map]

theorem replay_pkts (name : String) (l : List Spec.Rec) :
    (l.map Spec.Rec.toStored).map (fun m => (name, Pkt.pub m.channel m.payload)) =
      l.map (fun r => (name, Pkt.pub r.channel r.payload)) := by
  rw [List.map_map]; rfl

theorem Spec.acceptedSub_some {auth : Auth} {banned : List Bytes} {topic : Bytes} {g : Grant}
    (h : Spec.acceptedSub auth banned topic = some g) :
    (parseChannel (fixTopic topic)).ctype ≠ chInvalid ∧
    auth banned (parseChannel (fixTopic topic)) permRead = some g ∧ g.has permExtend = false := by
  unfold Spec.acceptedSub at h
  dsimp only at h
  by_cases h1 : (parseChannel (fixTopic topic)).ctype = chInvalid
  · rw [if_pos (by simp [h1])] at h; cases h
  · rw [if_neg (by simpa using h1)] at h
    refine ⟨h1, ?_⟩
    cases hg : auth banned (parseChannel (fixTopic topic)) permRead with
    | none => rw [hg] at h; cases h
    | some g' =>
        rw [hg] at h
        dsimp only at h
        cases hx : g'.has permExtend with
        | true => rw [hx] at h; simp at h
        | false =>
            rw [hx] at h
            simp only [Bool.false_eq_true, if_false, Option.some.injEq] at h
            subst h
            exact ⟨rfl, hx⟩

/-- **replay, in one state**: an accepted SUBSCRIBE of an open connection is answered with presence
notifications (to the watchers of the channel), then exactly the records `Spec.replay` names — as
PUBLISH packets to the subscriber, channel and payload unchanged, in order of arrival — and then the
SUBACK; the store is not changed -/
theorem replay_refined (auth : Auth) (b : B) (hwf : StoreWF b.store) (now : Int) (name : String) (c : Conn)
    (mid : UInt16) (topic : Bytes) (qos : UInt8) (g : Grant)
    (hc : b.conn? name = some c) (ha : c.alive = true)
    (hacc : Spec.acceptedSub auth b.banned topic = some g)
    (hwin : Spec.inWindow now (parseChannel (fixTopic topic)).window = true) :
    let ch := parseChannel (fixTopic topic)
    ∃ notes : Out, (∀ e ∈ notes, ∃ t f, e.2 = Pkt.json t f) ∧
      (step auth b name (.subscribe mid topic qos)).2 =
        notes ++ (Spec.replay now (absLog b.store) g ch.query ch.last ch.window).map
                    (fun r => (name, Pkt.pub r.channel r.payload))
              ++ [(name, .suback mid [qos])] := by
  intro ch
  obtain ⟨hv, hauth, hx⟩ := Spec.acceptedSub_some hacc
  rw [step_subscribe_eq auth b name c mid topic qos g hc ha hv hauth hx]
  refine ⟨(subscribeConn b c (g.contract :: ch.query) ch.channel).2,
    fun e he => subscribeConn_out_json _ _ _ _ e he, ?_⟩
  dsimp only
  have hst := (subscribeConn_frame b c (g.contract :: ch.query) ch.channel).1
  have hq : ∀ l, queryStore (subscribeConn b c (g.contract :: ch.query) ch.channel).1 (g.contract :: ch.query) l =
      queryStore b (g.contract :: ch.query) l := by
    intro l; unfold queryStore; rw [hst]
  congr 2
  rw [hq, queryStore_abs b hwf, replay_pkts]
  unfold Spec.replay
  rw [hwin]
  cases hl : g.has permLoad with
  | false => simp
  | true =>
      simp only [Bool.not_true, Bool.false_eq_true, if_false]
      congr 2
      unfold Spec.limitOf
      cases ch.last <;> rfl

/-! ### the history-level theorems about replay -/

/-- the client is open in the specification state -/
def Spec.StoreState.isOpen (s : Spec.StoreState) (name : String) : Bool :=
  match s.client? name with
  | some i => i.open_
  | none => false

theorem conn_of_isOpen {b : B} {name : String} (h : (absStore b).isOpen name = true) :
    ∃ c, b.conn? name = some c ∧ c.alive = true := by
  unfold Spec.StoreState.isOpen at h
  rw [client?_abs] at h
  cases hc : b.conn? name with
  | none => rw [hc] at h; cases h
  | some c => rw [hc] at h; exact ⟨c, rfl, h⟩

theorem Spec.replayFor_accepted {auth : Auth} {s : Spec.StoreState} {topic : Bytes} {g : Grant} (now : Int)
    (h : Spec.acceptedSub auth s.banned topic = some g) :
    Spec.replayFor auth now s topic =
      Spec.replay now s.log g (parseChannel (fixTopic topic)).query (parseChannel (fixTopic topic)).last
        (parseChannel (fixTopic topic)).window := by
  unfold Spec.replayFor; rw [h]

theorem Spec.replay_noload {now : Int} {L : List Spec.Rec} {g : Grant} {q : Path} {last : Option Int}
    {w : Int × Int} (h : g.has permLoad = false) : Spec.replay now L g q last w = [] := by
  unfold Spec.replay; rw [h]; rfl

/-- **C07, replay, for every history**: after any well-formed history from a pristine broker
(whose store, if not empty, files every message under a contract), under every authorizer, an
accepted SUBSCRIBE of an open client — the present lying inside its from/until window, see the
note on time in `Spec/Retained.lean` — is answered with presence notifications, then, as PUBLISH
packets to the subscriber in order of arrival, exactly the records `Spec.replay` takes from the LOG
OF THE SPECIFICATION after the same history — the last N matching ones when the key has the load
permission, none otherwise — and then, after all of them, the SUBACK. The subscription changes
neither the log nor the store. -/
theorem replay_history_exact (auth : Auth) (b₀ : B) (h0 : Pristine b₀) (hst : StoreWF b₀.store)
    (evs : List Spec.Ev) (hwf : Spec.wellFormed evs = true)
    (now : Int) (name : String) (mid : UInt16) (topic : Bytes) (qos : UInt8) (g : Grant)
    (hopen : (Spec.runStore auth (Spec.initStore b₀) evs).isOpen name = true)
    (hacc : Spec.acceptedSub auth (Spec.runStore auth (Spec.initStore b₀) evs).banned topic = some g)
    (hwin : Spec.inWindow now (parseChannel (fixTopic topic)).window = true) :
    let S := Spec.runStore auth (Spec.initStore b₀) evs
    let ch := parseChannel (fixTopic topic)
    let r := step auth (run auth b₀ evs) name (.subscribe mid topic qos)
    (∃ notes : Out, (∀ e ∈ notes, ∃ t f, e.2 = Pkt.json t f) ∧
      r.2 = notes ++ (Spec.replay now S.log g ch.query ch.last ch.window).map
                        (fun m => (name, Pkt.pub m.channel m.payload))
                  ++ [(name, .suback mid [qos])]) ∧
    (g.has permLoad = false → Spec.replay now S.log g ch.query ch.last ch.window = []) ∧
    Spec.replayFor auth now S topic = Spec.replay now S.log g ch.query ch.last ch.window ∧
    absStore r.1 = S ∧ r.1.store = (run auth b₀ evs).store := by
  intro S ch r
  have habs : absStore (run auth b₀ evs) = S := store_history_refines auth b₀ h0 evs hwf
  have hwf' : StoreWF (run auth b₀ evs).store := run_storeWF auth evs b₀ hst
  have hopen' : (absStore (run auth b₀ evs)).isOpen name = true := by rw [habs]; exact hopen
  obtain ⟨c, hc, ha⟩ := conn_of_isOpen hopen'
  have hb : S.banned = (run auth b₀ evs).banned := by rw [← habs]; rfl
  have hlog : S.log = absLog (run auth b₀ evs).store := by rw [← habs]; rfl
  have hacc' : Spec.acceptedSub auth (run auth b₀ evs).banned topic = some g := by rw [← hb]; exact hacc
  refine ⟨?_, fun h => Spec.replay_noload h, Spec.replayFor_accepted now hacc, ?_, ?_⟩
  · rw [hlog]
    exact replay_refined auth (run auth b₀ evs) hwf' now name c mid topic qos g hc ha hacc' hwin
  · obtain ⟨hs, _, _⟩ := history_refines auth b₀ h0 evs hwf
    show absStore (step auth (run auth b₀ evs) name (.subscribe mid topic qos)).1 = S
    rw [step_abs auth _ name _ hs.names, habs]
    have hcl : S.client? name = some (absInfo c) := by
      rw [← habs, client?_abs, hc]; rfl
    exact Spec.stepStore_idle hcl trivial
  · obtain ⟨hv, hauth, hx⟩ := Spec.acceptedSub_some hacc'
    exact (Broker.replay_exact auth (run auth b₀ evs) name c mid topic qos g hc ha hv hauth hx).1

/-! ### what is not stored is never replayed -/

/-- an event that appends nothing and is a PUBLISH leaves the specification state as it is -/
theorem Spec.publish_unstored (auth : Auth) (s : Spec.StoreState) (n : String) (qos : UInt8) (retain : Bool)
    (mid : UInt16) (topic payload : Bytes)
    (h : Spec.stores auth s (.req n (.publish qos retain mid topic payload)) = none) :
    Spec.applyStore auth s (.req n (.publish qos retain mid topic payload)) = s := by
  simp only [Spec.applyStore, Spec.stepStore]
  simp only [Spec.stores] at h
  cases hi : s.client? n with
  | none => rfl
  | some i =>
      rw [hi] at h
      dsimp only at h ⊢
      cases ho : i.open_ with
      | false => rfl
      | true =>
          rw [ho] at h
          simp only [if_true] at h
          simp [h]

/-- the property's words for "not to be stored": no retain flag and no positive ttl option, or
a key without the store permission (the publisher being the client `i`) -/
def Spec.unstorable (auth : Auth) (s : Spec.StoreState) (i : Spec.Client) (retain : Bool) (topic : Bytes) : Prop :=
  (retain = false ∧ ∀ t, (parseChannel (i.resolve topic)).ttl = some t → t ≤ 0) ∨
  (∀ g, auth s.banned (parseChannel (i.resolve topic)) permWrite = some g → g.has permStore = false)

theorem Spec.requestedTtl_none {R : Nat} {ch : Channel} (h : ∀ t, ch.ttl = some t → t ≤ 0) :
    Spec.requestedTtl R false ch = none := by
  unfold Spec.requestedTtl
  cases ht : ch.ttl with
  | none => rfl
  | some t =>
      have := h t ht
      dsimp only
      rw [if_neg (by omega)]
      rfl

theorem Spec.stores_unstorable (auth : Auth) (s : Spec.StoreState) (n : String) (qos : UInt8) (retain : Bool)
    (mid : UInt16) (topic payload : Bytes)
    (h : ∀ i, s.client? n = some i → Spec.unstorable auth s i retain topic) :
    Spec.stores auth s (.req n (.publish qos retain mid topic payload)) = none := by
  simp only [Spec.stores]
  cases hi : s.client? n with
  | none => rfl
  | some i =>
      dsimp only
      split
      · simp only [Spec.appended, Spec.stored]
        split
        · rfl
        split
        · rfl
        rename_i g hg
        split
        · rfl
        rcases h i hi with ⟨hr, ht⟩ | hs
        · subst hr
          rw [Spec.requestedTtl_none ht]
          split <;> rfl
        · rw [hs g hg]; rfl
      · rfl

/-- **C07, "nothing else … is replayed"**: a message published without the retain flag and
without a positive ttl option, or with a key that has no store permission, leaves no trace — the
specification state, hence the log, after the whole history is the one after the history WITHOUT
that publish, whatever follows; so (by `replay_history_exact`) every later accepted subscription
is replayed exactly what it would have been replayed had the message never been published. -/
theorem unstored_never_replayed (auth : Auth) (b₀ : B) (h0 : Pristine b₀) (hst : StoreWF b₀.store)
    (h₁ : List Spec.Ev) (n : String) (pq : UInt8) (retain : Bool) (pm : UInt16) (ptopic payload : Bytes)
    (h₂ : List Spec.Ev)
    (hwf : Spec.wellFormed (h₁ ++ .req n (.publish pq retain pm ptopic payload) :: h₂) = true)
    (hno : ∀ i, (Spec.runStore auth (Spec.initStore b₀) h₁).client? n = some i →
             Spec.unstorable auth (Spec.runStore auth (Spec.initStore b₀) h₁) i retain ptopic) :
    let evs := h₁ ++ .req n (.publish pq retain pm ptopic payload) :: h₂
    let S' := Spec.runStore auth (Spec.initStore b₀) (h₁ ++ h₂)
    Spec.runStore auth (Spec.initStore b₀) evs = S' ∧
    absStore (run auth b₀ evs) = S' ∧
    ∀ (now : Int) (name : String) (mid : UInt16) (topic : Bytes) (qos : UInt8) (g : Grant),
      S'.isOpen name = true → Spec.acceptedSub auth S'.banned topic = some g →
      Spec.inWindow now (parseChannel (fixTopic topic)).window = true →
      ∃ notes : Out, (∀ e ∈ notes, ∃ t f, e.2 = Pkt.json t f) ∧
        (step auth (run auth b₀ evs) name (.subscribe mid topic qos)).2 =
          notes ++ (Spec.replay now S'.log g (parseChannel (fixTopic topic)).query
                      (parseChannel (fixTopic topic)).last (parseChannel (fixTopic topic)).window).map
                        (fun m => (name, Pkt.pub m.channel m.payload))
                ++ [(name, .suback mid [qos])] := by
  intro evs S'
  have hS : Spec.runStore auth (Spec.initStore b₀) evs = S' := by
    show Spec.runStore auth _ (h₁ ++ _ :: h₂) = Spec.runStore auth _ (h₁ ++ h₂)
    rw [Spec.runStore_append, Spec.runStore_cons, Spec.runStore_append,
      Spec.publish_unstored auth _ n pq retain pm ptopic payload
        (Spec.stores_unstorable auth _ n pq retain pm ptopic payload hno)]
  refine ⟨hS, ?_, ?_⟩
  · rw [← hS]; exact store_history_refines auth b₀ h0 evs hwf
  · intro now name mid topic qos g hopen hacc hwin
    rw [← hS] at hopen hacc ⊢
    exact (replay_history_exact auth b₀ h0 hst evs hwf now name mid topic qos g hopen hacc hwin).1

/-! ### reading `Spec.replay` -/

/-- "the last N": the N most recent ones, oldest first (cf. `C07.last_n`) -/
theorem Spec.lastN_eq {α : Type} (n : Nat) (l : List α) : Spec.lastN n l = (l.reverse.take n).reverse := by
  unfold Spec.lastN
  rw [List.take_reverse, List.reverse_reverse]

theorem Spec.lastN_length {α : Type} (n : Nat) (l : List α) : (Spec.lastN n l).length = min n l.length := by
  unfold Spec.lastN
  rw [List.length_drop]
  omega

theorem Spec.lastN_sublist {α : Type} (n : Nat) (l : List α) : (Spec.lastN n l).Sublist l :=
  List.drop_sublist _ _

/-- `last=0`: nothing -/
theorem Spec.replay_zero (now : Int) (L : List Spec.Rec) (g : Grant) (q : Path) (w : Int × Int) :
    Spec.replay now L g q (some 0) w = [] := by
  unfold Spec.replay Spec.lastN Spec.limitOf
  split
  · rfl
  split
  · rfl
  simp

/-- what is replayed are matching records of the log, in the order of the log, at most N of them -/
theorem Spec.replay_sublist (now : Int) (L : List Spec.Rec) (g : Grant) (q : Path) (last : Option Int) (w : Int × Int) :
    (Spec.replay now L g q last w).Sublist (L.filter (Spec.Rec.matches g.contract q)) ∧
    (Spec.replay now L g q last w).length ≤ Spec.limitOf last := by
  unfold Spec.replay
  split
  · exact ⟨List.nil_sublist _, Nat.zero_le _⟩
  split
  · exact ⟨List.nil_sublist _, Nat.zero_le _⟩
  exact ⟨Spec.lastN_sublist _ _, by rw [Spec.lastN_length]; exact Nat.min_le_left _ _⟩

theorem Spec.replay_mem {now : Int} {L : List Spec.Rec} {g : Grant} {q : Path} {last : Option Int} {w : Int × Int}
    {r : Spec.Rec} (h : r ∈ Spec.replay now L g q last w) : r ∈ L ∧ r.matches g.contract q = true :=
  List.mem_filter.1 ((Spec.replay_sublist now L g q last w).1.subset h)

/-- a `last` at least as large as the number of matching records: all of them -/
theorem Spec.replay_all (now : Int) (L : List Spec.Rec) (g : Grant) (q : Path) (last : Option Int) (w : Int × Int)
    (hl : g.has permLoad = true) (hw : Spec.inWindow now w = true)
    (hn : (L.filter (Spec.Rec.matches g.contract q)).length ≤ Spec.limitOf last) :
    Spec.replay now L g q last w = L.filter (Spec.Rec.matches g.contract q) := by
  unfold Spec.replay Spec.lastN
  rw [hl, hw]
  simp only [Bool.not_true, Bool.false_eq_true, if_false]
  rw [Nat.sub_eq_zero_of_le hn, List.drop_zero]

/-- no from/until option (or values outside the accepted range): every second is inside -/
theorem Spec.inWindow_open (now : Int) (h : 0 ≤ now) : Spec.inWindow now (0, 0) = true := by
  simp [Spec.inWindow, h]

/-- `replay_history_exact` read on the PUBLISH packets alone: the PUBLISH packets the step emits —
to anybody — are exactly the replay, all addressed to the subscriber, and the last packet of the
step is the SUBACK -/
theorem replay_history_pubs (auth : Auth) (b₀ : B) (h0 : Pristine b₀) (hst : StoreWF b₀.store)
    (evs : List Spec.Ev) (hwf : Spec.wellFormed evs = true)
    (now : Int) (name : String) (mid : UInt16) (topic : Bytes) (qos : UInt8) (g : Grant)
    (hopen : (Spec.runStore auth (Spec.initStore b₀) evs).isOpen name = true)
    (hacc : Spec.acceptedSub auth (Spec.runStore auth (Spec.initStore b₀) evs).banned topic = some g)
    (hwin : Spec.inWindow now (parseChannel (fixTopic topic)).window = true) :
    let out := (step auth (run auth b₀ evs) name (.subscribe mid topic qos)).2
    out.filter isPub =
      (Spec.replayFor auth now (Spec.runStore auth (Spec.initStore b₀) evs) topic).map
        (fun m => (name, Pkt.pub m.channel m.payload)) ∧
    out.getLast? = some (name, .suback mid [qos]) := by
  intro out
  obtain ⟨⟨notes, hn, hout⟩, _, hrf, _, _⟩ :=
    replay_history_exact auth b₀ h0 hst evs hwf now name mid topic qos g hopen hacc hwin
  have hout' : out = notes ++ (Spec.replayFor auth now (Spec.runStore auth (Spec.initStore b₀) evs) topic).map
      (fun m => (name, Pkt.pub m.channel m.payload)) ++ [(name, .suback mid [qos])] := by
    rw [hrf]; exact hout
  rw [hout']
  refine ⟨?_, List.getLast?_concat⟩
  rw [List.filter_append, List.filter_append]
  have h1 : notes.filter isPub = [] := by
    rw [List.filter_eq_nil_iff]
    intro e he
    obtain ⟨t, f, hj⟩ := hn e he
    obtain ⟨n, p⟩ := e
    simp only at hj
    subst hj
    simp [isPub]
  have h2 : ∀ l : List Spec.Rec, (l.map (fun m => (name, Pkt.pub m.channel m.payload))).filter isPub =
      l.map (fun m => (name, Pkt.pub m.channel m.payload)) := by
    intro l
    rw [List.filter_eq_self]
    intro e he
    obtain ⟨m, _, rfl⟩ := List.mem_map.1 he
    rfl
  rw [h1, h2]
  simp [isPub]

end Emitter.Broker
