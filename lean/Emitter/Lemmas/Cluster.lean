/-
  C05 — lemma library, part 3: the remaining broker steps, the lift of the routing invariant to
  every schedule of the cluster model, and routing at quiescence.
-/
import Emitter.Lemmas.ClusterWalk
import Emitter.Lemmas.Trie

namespace Emitter.Cluster
open Emitter Emitter.Lww

/-! ## the other steps of one broker -/

/-- only the state changes, and no count of a remote peer moves -/
theorem binv_of_state (b b' : Broker) (hb : BInv b) (hself : b'.self = b.self) (hm : b'.members = b.members)
    (hr : b'.routes = b.routes) (hnd : NoDup b'.state) (hnn : NonNeg b'.state)
    (hcnt : ∀ p, p ≠ b.self → ∀ σ, cnt b'.state p σ = cnt b.state p σ) : BInv b' := by
  have hne : ∀ p r, mget b.members p = some r → p ≠ b.self := by
    intro p r h hp
    rw [hp, hb.noself] at h
    cases h
  constructor
  · rw [hself]; exact hb.selfRange
  · exact hnd
  · exact hnn
  · rw [hself, hm]; exact hb.noself
  · rw [hm]; exact hb.cwf
  · rw [hm]
    intro p r h σ
    rw [hcnt p (hne p r h) σ]
    exact hb.counters p r h σ
  · rw [hm, hself]
    intro p hp h σ
    rw [hcnt p hp σ]
    exact hb.absent p hp h σ
  · rw [hm, hr]; exact hb.routes

theorem cnt_set_self (s : Map) (hs : NoDup s) (self : PeerName) (hself : self < 18446744073709551616)
    (c : ConnId) (σ : Ssid) (v : Val) (p : PeerName) (hp : p ≠ self) (σ' : Ssid) :
    cnt (set s (encKey self c σ) v) p σ' = cnt s p σ' := by
  have hk : keyIs (encKey self c σ) p σ' = false := by
    cases h : keyIs (encKey self c σ) p σ' with
    | false => rfl
    | true => exact absurd (keyIs_encKey self hself c σ p σ' h) hp
  have := cnt_set s hs (encKey self c σ) v p σ'
  simpa [hk] using this

theorem cnt_add_self (s : Map) (hs : NoDup s) (self : PeerName) (hself : self < 18446744073709551616)
    (c : ConnId) (σ : Ssid) (now : Int) (pl : Bytes) (p : PeerName) (hp : p ≠ self) (σ' : Ssid) :
    cnt (add s (encKey self c σ) now pl) p σ' = cnt s p σ' := by
  simp only [add]
  split
  · exact cnt_set_self s hs self hself c σ _ p hp σ'
  · rfl

theorem cnt_del_self (s : Map) (hs : NoDup s) (self : PeerName) (hself : self < 18446744073709551616)
    (c : ConnId) (σ : Ssid) (now : Int) (p : PeerName) (hp : p ≠ self) (σ' : Ssid) :
    cnt (del s (encKey self c σ) now) p σ' = cnt s p σ' := by
  simp only [del]
  split
  · exact cnt_set_self s hs self hself c σ _ p hp σ'
  · rfl

theorem binv_localSub (b : Broker) (c : ConnId) (σ : Ssid) (now : Int) (hb : BInv b) :
    BInv (localSub b c σ now).broker := by
  unfold localSub
  split
  · exact hb
  · exact binv_of_state b _ hb rfl rfl rfl (nodup_add _ _ _ _ hb.nodup) (nonneg_add _ _ _ _ hb.nonneg)
      (fun p hp σ' => cnt_add_self b.state hb.nodup b.self hb.selfRange c σ now [] p hp σ')

theorem binv_localUnsub (b : Broker) (c : ConnId) (σ : Ssid) (now : Int) (hb : BInv b) :
    BInv (localUnsub b c σ now).broker := by
  unfold localUnsub
  split
  · exact hb
  · exact binv_of_state b _ hb rfl rfl rfl (nodup_del _ _ _ hb.nodup) (nonneg_del _ _ _ hb.nonneg)
      (fun p hp σ' => cnt_del_self b.state hb.nodup b.self hb.selfRange c σ now p hp σ')

theorem closeConn_fold_binv (c : ConnId) (now : Int) (l : List (ConnId × Ssid)) (st : Broker × List NotifyRes)
    (hb : BInv st.1) :
    BInv (l.foldl (fun (st : Broker × List NotifyRes) e =>
      let r := localUnsub st.1 c e.2 now
      (r.broker, st.2 ++ [r])) st).1 := by
  induction l generalizing st with
  | nil => exact hb
  | cons e l ih =>
    rw [List.foldl_cons]
    exact ih _ (binv_localUnsub _ _ _ _ hb)

theorem closeConn_fold_results (c : ConnId) (now : Int) (Q : Broker → Prop) (P : NotifyRes → Prop)
    (hQ : ∀ b σ, Q b → Q (localUnsub b c σ now).broker)
    (hP : ∀ b σ, Q b → P (localUnsub b c σ now))
    (l : List (ConnId × Ssid)) (st : Broker × List NotifyRes)
    (hb : Q st.1) (hacc : ∀ r ∈ st.2, P r) :
    ∀ r ∈ (l.foldl (fun (st : Broker × List NotifyRes) e =>
      let r := localUnsub st.1 c e.2 now
      (r.broker, st.2 ++ [r])) st).2, P r := by
  induction l generalizing st with
  | nil => exact hacc
  | cons e l ih =>
    rw [List.foldl_cons]
    apply ih
    · exact hQ _ _ hb
    · intro r hr
      rcases List.mem_append.1 hr with h | h
      · exact hacc r h
      · rw [List.mem_singleton] at h
        subst h
        exact hP _ _ hb

theorem binv_closeConn (b : Broker) (c : ConnId) (now : Int) (acc : List NotifyRes) (hb : BInv b) :
    BInv (closeConn b c now acc).1 :=
  closeConn_fold_binv c now _ (b, acc) hb


/-- only `active` of member records changes / nothing that the invariant reads -/
theorem binv_of_members (b b' : Broker) (hb : BInv b) (hself : b'.self = b.self) (hs : b'.state = b.state)
    (hr : b'.routes = b.routes)
    (hm : ∀ q, (mget b'.members q = none ∧ mget b.members q = none) ∨
      ∃ r r', mget b.members q = some r ∧ mget b'.members q = some r' ∧ r'.gen = r.gen ∧ r'.subs = r.subs) :
    BInv b' := by
  constructor
  · rw [hself]; exact hb.selfRange
  · rw [hs]; exact hb.nodup
  · rw [hs]; exact hb.nonneg
  · rw [hself]
    rcases hm b.self with h | ⟨r, r', h, _⟩
    · exact h.1
    · rw [hb.noself] at h; cases h
  · intro p r' h
    rcases hm p with h' | ⟨r, r'', h1, h2, _, h4⟩
    · rw [h'.1] at h; cases h
    · rw [h2] at h; cases h
      rw [h4]; exact hb.cwf p r h1
  · intro p r' h σ
    rcases hm p with h' | ⟨r, r'', h1, h2, _, h4⟩
    · rw [h'.1] at h; cases h
    · rw [h2] at h; cases h
      rw [h4, hs]; exact hb.counters p r h1 σ
  · intro p hp h σ
    rw [hself] at hp
    rcases hm p with h' | ⟨r, r'', _, h2, _, _⟩
    · rw [hs]; exact hb.absent p hp h'.2 σ
    · rw [h2] at h; cases h
  · intro σ p g
    rw [hr, hb.routes]
    rcases hm p with h' | ⟨r, r', h1, h2, h3, h4⟩
    · rw [h'.1, h'.2]
    · rw [h1, h2]
      constructor
      · rintro ⟨x, hx, hg, hc⟩
        cases hx
        exact ⟨r', rfl, by rw [h3]; exact hg, by rw [h4]; exact hc⟩
      · rintro ⟨x, hx, hg, hc⟩
        cases hx
        exact ⟨r, rfl, by rw [← h3]; exact hg, by rw [← h4]; exact hc⟩

theorem binv_mset_active (b : Broker) (p : PeerName) (r : PeerRec) (a : Bool) (hb : BInv b)
    (hp : mget b.members p = some r) :
    BInv { b with members := mset b.members p { r with active := a } } := by
  apply binv_of_members b { b with members := mset b.members p { r with active := a } } hb rfl rfl rfl
  intro q
  show (mget (mset b.members p { r with active := a }) q = none ∧ _) ∨
    ∃ r₁ r', _ ∧ mget (mset b.members p { r with active := a }) q = some r' ∧ _
  rw [mget_mset]
  by_cases hq : q = p
  · subst hq
    right
    exact ⟨r, { r with active := a }, hp, by simp [hp], rfl, rfl⟩
  · rw [if_neg hq]
    cases h : mget b.members q with
    | none => left; exact ⟨rfl, rfl⟩
    | some x => right; exact ⟨x, x, rfl, rfl, rfl, rfl⟩

theorem binv_touch (b : Broker) (p : PeerName) (hb : BInv b) : BInv (touch b p) := by
  unfold touch
  split
  · exact hb
  · rename_i hps
    have hps : p ≠ b.self := by simpa using hps
    split
    · rename_i r hr
      exact binv_mset_active b p r true hb hr
    · rename_i hn
      have hget : ∀ q, mget (b.members ++ [(p, ({ active := true, gen := b.nextGen, subs := [] } : PeerRec))]) q =
          if q = p then some { active := true, gen := b.nextGen, subs := [] } else mget b.members q :=
        fun q => mget_append_new b.members p q _ hn
      constructor
      · exact hb.selfRange
      · exact hb.nodup
      · exact hb.nonneg
      · show mget (b.members ++ _) b.self = none
        rw [hget, if_neg (Ne.symm hps)]; exact hb.noself
      · intro q r
        show mget (b.members ++ _) q = some r → _
        rw [hget]
        split
        · intro h; cases h; exact cwf_nil
        · exact hb.cwf q r
      · intro q r
        show mget (b.members ++ _) q = some r → ∀ σ, cget r.subs σ = cnt b.state q σ
        rw [hget]
        split
        · rename_i hq
          intro h σ; cases h
          rw [hq, hb.absent p hps hn σ]; rfl
        · exact hb.counters q r
      · intro q hq
        show mget (b.members ++ _) q = none → ∀ σ, cnt b.state q σ = 0
        rw [hget]
        split
        · intro h; cases h
        · exact hb.absent q hq
      · intro σ q g
        show (σ, q, g) ∈ b.routes ↔ ∃ r, mget (b.members ++ _) q = some r ∧ _
        rw [hget, hb.routes]
        split
        · rename_i hq
          rw [hq, hn]
          constructor
          · rintro ⟨r, h, _⟩; cases h
          · rintro ⟨r, h, _, h3⟩; cases h
            exact absurd h3 (by simp [cget])
        · exact Iff.rfl

theorem binv_expire (b : Broker) (p : PeerName) (hb : BInv b) : BInv (expire b p) := by
  unfold expire
  split
  · rename_i r hr
    exact binv_mset_active b p r false hb hr
  · exact hb

theorem offline_none (b : Broker) (p : PeerName) (now : Int) (h : mget b.members p = none) :
    offline b p now = (b, []) := by
  unfold offline; rw [h]

theorem offline_flags_nil (b : Broker) (p : PeerName) (now : Int) (r : PeerRec) (h : mget b.members p = some r)
    (hf : (offline b p now).2 = []) : activeOf b.state p = [] := by
  unfold offline at hf
  rw [h] at hf
  simp only [List.append_eq_nil_iff] at hf
  have h1 := hf.1
  cases ha : activeOf b.state p with
  | nil => rfl
  | cons x xs => rw [ha] at h1; simp at h1

theorem offline_some_nil (b : Broker) (p : PeerName) (now : Int) (r : PeerRec) (h : mget b.members p = some r)
    (ha : activeOf b.state p = []) :
    (offline b p now).1 = { b with members := b.members.filter (fun e => e.1 != p) } := by
  unfold offline; rw [h]; simp only [ha, List.foldl_nil]

/-- garbage collection of a peer that holds no active entry (anything else is flagged) -/
theorem binv_offline (b : Broker) (p : PeerName) (now : Int) (hb : BInv b) (hf : (offline b p now).2 = []) :
    BInv (offline b p now).1 := by
  cases hm : mget b.members p with
  | none => rw [offline_none b p now hm]; exact hb
  | some r =>
    have ha := offline_flags_nil b p now r hm hf
    rw [offline_some_nil b p now r hm ha]
    have hz : ∀ σ, cnt b.state p σ = 0 := cnt_zero_of_activeOf_nil b.state p ha
    constructor
    · exact hb.selfRange
    · exact hb.nodup
    · exact hb.nonneg
    · show mget (b.members.filter _) b.self = none
      rw [mget_filter_ne]; split
      · rfl
      · exact hb.noself
    · intro q x
      show mget (b.members.filter _) q = some x → _
      rw [mget_filter_ne]; split
      · intro h; cases h
      · exact hb.cwf q x
    · intro q x
      show mget (b.members.filter _) q = some x → ∀ σ, cget x.subs σ = cnt b.state q σ
      rw [mget_filter_ne]; split
      · intro h; cases h
      · exact hb.counters q x
    · intro q hq
      show mget (b.members.filter _) q = none → ∀ σ, cnt b.state q σ = 0
      rw [mget_filter_ne]; split
      · rename_i hqp
        intro _ σ; rw [hqp]; exact hz σ
      · exact hb.absent q hq
    · intro σ q g
      show (σ, q, g) ∈ b.routes ↔ ∃ x, mget (b.members.filter _) q = some x ∧ _
      rw [mget_filter_ne, hb.routes]; split
      · rename_i hqp
        rw [hqp, hm]
        constructor
        · rintro ⟨x, h, _, h3⟩; cases h
          rw [hb.counters p r hm σ, hz σ] at h3
          exact absurd h3 (Nat.lt_irrefl 0)
        · rintro ⟨x, h, _⟩; cases h
      · exact Iff.rfl

/-- payloads a broker hands to the transport have no repeated key -/
theorem localSub_payload_nodup (b : Broker) (c : ConnId) (σ : Ssid) (now : Int) : NoDup (localSub b c σ now).payload := by
  unfold localSub
  split
  · exact nodup_nil
  · exact nodup_singleton _ _
theorem localUnsub_payload_nodup (b : Broker) (c : ConnId) (σ : Ssid) (now : Int) : NoDup (localUnsub b c σ now).payload := by
  unfold localUnsub
  split
  · exact nodup_nil
  · exact nodup_singleton _ _
theorem closeConn_payload_nodup (b : Broker) (c : ConnId) (now : Int) (acc : List NotifyRes) (h : ∀ r ∈ acc, NoDup r.payload) :
    ∀ r ∈ (closeConn b c now acc).2, NoDup r.payload :=
  closeConn_fold_results c now (fun _ => True) (fun r => NoDup r.payload) (fun _ _ _ => trivial)
    (fun b σ _ => localUnsub_payload_nodup b c σ now) _ (b, acc) trivial h

/-- every result of closing a connection carries a broker that satisfies the invariant -/
theorem closeConn_results_binv (b : Broker) (c : ConnId) (now : Int) (acc : List NotifyRes) (hb : BInv b)
    (h : ∀ r ∈ acc, BInv r.broker) : ∀ r ∈ (closeConn b c now acc).2, BInv r.broker :=
  closeConn_fold_results c now BInv (fun r => BInv r.broker) (fun b σ hb => binv_localUnsub b c σ now hb)
    (fun b σ hb => binv_localUnsub b c σ now hb) _ (b, acc) hb h

/-! ## the cluster -/

def Wire.payload : Wire → Map
  | .gossip m => m
  | .bcast _ m => m

/-- everything queued or in flight on a link has no repeated key -/
structure LinkInv (l : Link) : Prop where
  gossip : ∀ m, l.gossip = some (.data m) → NoDup m
  bcasts : ∀ e ∈ l.bcasts, NoDup e.2
  wire : ∀ w ∈ l.wire, NoDup w.payload

structure CInv (c : Cluster) : Prop where
  brokers : ∀ b ∈ c.brokers, BInv b
  links : ∀ e ∈ c.links, LinkInv e.2

/-- the only flag that does not concern the routing invariant (it concerns whether a broker's own
entries tell the truth about its clients) -/
def clockFlag : Flag := "C05.clock-not-advancing"

/-! ### helpers: links, brokers, transport operations -/

theorem mem_of_lookup_some {α β} [BEq α] [LawfulBEq α] :
    ∀ (l : List (α × β)) (k : α) (v : β), l.lookup k = some v → (k, v) ∈ l
  | [], _, _, h => by simp at h
  | (a, b) :: l, k, v, h => by
    rw [List.lookup_cons] at h
    cases hk : k == a with
    | true =>
      rw [hk] at h
      have h1 := eq_of_beq hk
      have h2 : b = v := by simpa using h
      subst h1; subst h2
      exact List.mem_cons_self
    | false =>
      rw [hk] at h
      exact List.mem_cons_of_mem _ (mem_of_lookup_some l k v h)

theorem linkInv_empty (u : Bool) : LinkInv { up := u } :=
  ⟨fun m h => by simp at h, fun e h => by simp at h, fun w h => by simp at h⟩

theorem linkInv_complete (u : Bool) : LinkInv { up := u, gossip := some .complete } :=
  ⟨fun m h => by simp at h, fun e h => by simp at h, fun w h => by simp at h⟩

theorem linkInv_link (c : Cluster) (hc : CInv c) (a b : PeerName) : LinkInv (c.link a b) := by
  unfold Cluster.link
  cases h : c.links.lookup (a, b) with
  | none => exact linkInv_empty false
  | some l => exact hc.links _ (mem_of_lookup_some _ _ _ h)

theorem cinv_setBroker (c : Cluster) (b : Broker) (hc : CInv c) (hb : BInv b) : CInv (c.setBroker b) := by
  constructor
  · intro x hx
    simp only [Cluster.setBroker, List.mem_map] at hx
    obtain ⟨y, hy, rfl⟩ := hx
    split
    · exact hb
    · exact hc.brokers y hy
  · exact hc.links

theorem cinv_setLink (c : Cluster) (a b : PeerName) (l : Link) (hc : CInv c) (hl : LinkInv l) :
    CInv (c.setLink a b l) := by
  constructor
  · exact hc.brokers
  · intro x hx
    simp only [Cluster.setLink, List.mem_map] at hx
    obtain ⟨y, hy, rfl⟩ := hx
    split
    · exact hl
    · exact hc.links y hy

theorem broker?_mem (c : Cluster) (p : PeerName) (b : Broker) (h : c.broker? p = some b) : b ∈ c.brokers :=
  List.mem_of_find?_eq_some h

theorem nodup_payload (cur : Map) (hcur : NoDup cur) (g : Pending) (hg : ∀ m, g = .data m → NoDup m) :
    NoDup (g.payload cur) := by
  cases g with
  | complete => exact hcur
  | data m => exact hg m rfl

theorem nodup_pending_merge (cur : Map) (hcur : NoDup cur) (g d : Pending) (hg : ∀ m, g = .data m → NoDup m) :
    ∀ m, g.merge cur d = .data m → NoDup m := by
  intro m h
  simp only [Pending.merge, Pending.data.injEq] at h
  subst h
  exact nodup_merge _ _ (nodup_payload cur hcur g hg)

theorem linkInv_send (l : Link) (cur : Map) (hcur : NoDup cur) (d : Pending) (hl : LinkInv l)
    (hd : ∀ m, d = .data m → NoDup m) : LinkInv (l.send cur d) := by
  unfold Link.send
  split
  · exact hl
  · refine ⟨?_, hl.bcasts, hl.wire⟩
    intro m hm
    simp only [Option.some.injEq] at hm
    cases hg : l.gossip with
    | none => rw [hg] at hm; exact hd m hm
    | some g =>
      rw [hg] at hm
      exact nodup_pending_merge cur hcur g d (fun m' h' => hl.gossip m' (by rw [hg, h'])) m hm

theorem linkInv_broadcast (l : Link) (src : PeerName) (m : Map) (hl : LinkInv l) (hm : NoDup m) :
    LinkInv (l.broadcast src m) := by
  unfold Link.broadcast
  split
  · exact hl
  · split
    · refine ⟨hl.gossip, ?_, hl.wire⟩
      intro e he
      rcases List.mem_append.1 he with h | h
      · exact hl.bcasts e h
      · rw [List.mem_singleton] at h; subst h; exact hm
    · rename_i old ho
      refine ⟨hl.gossip, ?_, hl.wire⟩
      intro e he
      simp only [List.mem_map] at he
      obtain ⟨x, hx, rfl⟩ := he
      split
      · exact nodup_merge _ _ (hl.bcasts _ (mem_of_lookup_some _ _ _ ho))
      · exact hl.bcasts x hx

theorem nodup_stateOf (c : Cluster) (hc : CInv c) (a : PeerName) : NoDup (c.stateOf a) := by
  unfold Cluster.stateOf
  cases hb : c.broker? a with
  | none => exact nodup_nil
  | some x => exact (hc.brokers x (broker?_mem c a x hb)).nodup

theorem cinv_sendFrom (c : Cluster) (a : PeerName) (d : Pending) (to : List PeerName) (hc : CInv c)
    (hd : ∀ m, d = .data m → NoDup m) : CInv (c.sendFrom a d to) := by
  unfold Cluster.sendFrom
  induction to generalizing c with
  | nil => exact hc
  | cons x to ih =>
    rw [List.foldl_cons]
    exact ih _ (cinv_setLink c a x _ hc (linkInv_send _ _ (nodup_stateOf c hc a) d (linkInv_link c hc a x) hd))

theorem cinv_broadcastFrom (c : Cluster) (a src : PeerName) (m : Map) (to : List PeerName) (hc : CInv c)
    (hm : NoDup m) : CInv (c.broadcastFrom a src m to) := by
  unfold Cluster.broadcastFrom
  induction to generalizing c with
  | nil => exact hc
  | cons x to ih =>
    rw [List.foldl_cons]
    exact ih _ (cinv_setLink c a x _ hc (linkInv_broadcast _ src m (linkInv_link c hc a x) hm))

theorem cinv_applyNotify (c : Cluster) (a : PeerName) (r : NotifyRes) (hc : CInv c) (hb : BInv r.broker)
    (hp : NoDup r.payload) : CInv (c.applyNotify a r) := by
  unfold Cluster.applyNotify
  simp only
  split
  · exact cinv_setBroker c _ hc hb
  · exact cinv_broadcastFrom _ a a _ _ (cinv_setBroker c _ hc hb) hp

/-! ### flags of a merge / an offline are never the clock flag -/

def routingFlag (f : Flag) : Prop :=
  f = "C05.online-bypasses-counters" ∨ f = "C05.inactive-peer-transition" ∨
  f = "C05.offline-local-delete" ∨ f = "C05.offline-deletes-own-key"

theorem routingFlag_ne_clock (f : Flag) (h : routingFlag f) : f ≠ clockFlag := by
  rcases h with h | h | h | h <;> subst h <;> decide

theorem findPeer_flags (b : Broker) (before : Bytes → Bool) (p : PeerName) :
    ∀ f ∈ (findPeer b before p).2, routingFlag f := by
  unfold findPeer
  split
  · intro f hf; cases hf
  · simp only
    split
    · intro f hf
      rw [List.mem_singleton] at hf
      exact Or.inl hf
    · intro f hf; cases hf

theorem onAdded_flags (b : Broker) (p : PeerName) (σ : Ssid) : ∀ f ∈ (onAdded b p σ).2, routingFlag f := by
  unfold onAdded
  split
  · intro f hf; cases hf
  · simp only
    split
    · split
      · intro f hf; cases hf
      · intro f hf
        rw [List.mem_singleton] at hf
        exact Or.inr (Or.inl hf)
    · intro f hf; cases hf

theorem onRemoved_flags (b : Broker) (p : PeerName) (σ : Ssid) : ∀ f ∈ (onRemoved b p σ).2, routingFlag f := by
  unfold onRemoved
  split
  · intro f hf; cases hf
  · simp only
    split
    · split
      · intro f hf; cases hf
      · intro f hf
        rw [List.mem_singleton] at hf
        exact Or.inr (Or.inl hf)
    · intro f hf; cases hf

theorem walkOne_flags_routing (before : Bytes → Bool) (acc : Broker × List Flag) (k : Bytes)
    (h : ∀ f ∈ acc.2, routingFlag f) : ∀ f ∈ (walkOne before acc k).2, routingFlag f := by
  unfold walkOne
  split
  · exact h
  · split
    · exact h
    · simp only
      split
      · intro f hf
        rcases List.mem_append.1 hf with h1 | h1
        · rcases List.mem_append.1 h1 with h2 | h2
          · exact h f h2
          · exact findPeer_flags _ _ _ f h2
        · exact onAdded_flags _ _ _ f h1
      · split
        · intro f hf
          rcases List.mem_append.1 hf with h1 | h1
          · rcases List.mem_append.1 h1 with h2 | h2
            · exact h f h2
            · exact findPeer_flags _ _ _ f h2
          · exact onRemoved_flags _ _ _ f h1
        · intro f hf
          rcases List.mem_append.1 hf with h2 | h2
          · exact h f h2
          · exact findPeer_flags _ _ _ f h2

theorem walk_flags (before : Bytes → Bool) (b : Broker) (ks : List Bytes) :
    ∀ f ∈ (walk before b ks).2, routingFlag f := by
  unfold walk
  have : ∀ (acc : Broker × List Flag), (∀ f ∈ acc.2, routingFlag f) →
      ∀ f ∈ (ks.foldl (walkOne before) acc).2, routingFlag f := by
    induction ks with
    | nil => intro acc h; exact h
    | cons k ks ih =>
      intro acc h
      rw [List.foldl_cons]
      exact ih _ (walkOne_flags_routing before acc k h)
  exact this _ (by intro f hf; cases hf)

theorem mergeStepOrd_flags (ord : List Bytes → List Bytes) (b : Broker) (r : Map) :
    ∀ f ∈ (mergeStepOrd ord b r).flags, routingFlag f := by
  unfold mergeStepOrd
  exact walk_flags _ _ _

theorem offline_flags (b : Broker) (p : PeerName) (now : Int) : ∀ f ∈ (offline b p now).2, routingFlag f := by
  unfold offline
  split
  · intro f hf; cases hf
  · intro f hf
    simp only at hf
    rcases List.mem_append.1 hf with h | h
    · split at h
      · cases h
      · rw [List.mem_singleton] at h; exact Or.inr (Or.inr (Or.inl h))
    · split at h
      · rw [List.mem_singleton] at h; exact Or.inr (Or.inr (Or.inr h))
      · cases h

theorem flags_nil_of_clock (fs : List Flag) (h1 : ∀ f ∈ fs, routingFlag f) (h2 : ∀ f ∈ fs, f = clockFlag) : fs = [] := by
  rw [List.eq_nil_iff_forall_not_mem]
  intro f hf
  exact routingFlag_ne_clock f (h1 f hf) (h2 f hf)

theorem cinv_init (mode : Trie.Mode) (n : Nat) (hn : n < 18446744073709551615) : CInv (Cluster.init mode n) := by
  constructor
  · intro b hb
    simp only [Cluster.init, List.mem_map, List.mem_range] at hb
    obtain ⟨p, ⟨i, hi, rfl⟩, rfl⟩ := hb
    exact binv_init _ (by show i + 1 < 18446744073709551616; omega)
  · intro e he
    simp only [Cluster.init, List.mem_flatMap, List.mem_filterMap, List.mem_map] at he
    obtain ⟨a, _, b, _, h⟩ := he
    split at h
    · cases h
    · cases h; exact linkInv_empty true

/-! ### one lemma per kind of step -/

theorem binv_of_broker? (c : Cluster) (hc : CInv c) (p : PeerName) (b : Broker) (h : c.broker? p = some b) : BInv b :=
  hc.brokers b (broker?_mem c p b h)

theorem cinv_step_sub (c : Cluster) (a : PeerName) (cn : ConnId) (σ : Ssid) (now : Int) (hc : CInv c) :
    CInv (c.step (.sub a cn σ now)).1 := by
  simp only [Cluster.step]
  split
  · exact hc
  · rename_i b hb
    exact cinv_applyNotify c a _ hc (binv_localSub b cn σ now (binv_of_broker? c hc a b hb))
      (localSub_payload_nodup b cn σ now)

theorem cinv_step_unsub (c : Cluster) (a : PeerName) (cn : ConnId) (σ : Ssid) (now : Int) (hc : CInv c) :
    CInv (c.step (.unsub a cn σ now)).1 := by
  simp only [Cluster.step]
  split
  · exact hc
  · rename_i b hb
    exact cinv_applyNotify c a _ hc (binv_localUnsub b cn σ now (binv_of_broker? c hc a b hb))
      (localUnsub_payload_nodup b cn σ now)

theorem cinv_fold_applyNotify (a : PeerName) (rs : List NotifyRes) (c : Cluster) (hc : CInv c)
    (hb : ∀ r ∈ rs, BInv r.broker) (hp : ∀ r ∈ rs, NoDup r.payload) :
    CInv (rs.foldl (fun c r => c.applyNotify a r) c) := by
  induction rs generalizing c with
  | nil => exact hc
  | cons r rs ih =>
    rw [List.foldl_cons]
    exact ih _ (cinv_applyNotify c a r hc (hb r List.mem_cons_self) (hp r List.mem_cons_self))
      (fun x hx => hb x (List.mem_cons_of_mem _ hx)) (fun x hx => hp x (List.mem_cons_of_mem _ hx))

theorem cinv_step_close (c : Cluster) (a : PeerName) (cn : ConnId) (now : Int) (hc : CInv c) :
    CInv (c.step (.close a cn now)).1 := by
  simp only [Cluster.step]
  split
  · exact hc
  · rename_i b hb
    have hbi := binv_of_broker? c hc a b hb
    exact cinv_fold_applyNotify a _ c hc
      (closeConn_results_binv b cn now [] hbi (by intro r hr; cases hr))
      (closeConn_payload_nodup b cn now [] (by intro r hr; cases hr))

theorem cinv_step_pick (c : Cluster) (a b src : PeerName) (hc : CInv c) :
    CInv (c.step (.pick a b src)).1 := by
  simp only [Cluster.step]
  have hl := linkInv_link c hc a b
  split
  · exact hc
  · split
    · rename_i g hg
      apply cinv_setLink _ _ _ _ hc
      refine ⟨fun m h => by simp at h, hl.bcasts, ?_⟩
      intro w hw
      rcases List.mem_append.1 hw with h | h
      · exact hl.wire w h
      · rw [List.mem_singleton] at h
        subst h
        exact nodup_payload _ (nodup_stateOf c hc a) g (fun m hm => hl.gossip m (by rw [hg, hm]))
    · split
      · rename_i m hm
        apply cinv_setLink _ _ _ _ hc
        refine ⟨hl.gossip, ?_, ?_⟩
        · intro e he
          exact hl.bcasts e (List.mem_filter.1 he).1
        · intro w hw
          rcases List.mem_append.1 hw with h | h
          · exact hl.wire w h
          · rw [List.mem_singleton] at h
            subst h
            exact hl.bcasts _ (mem_of_lookup_some _ _ _ hm)
      · exact hc

theorem cinv_step_gossip (c : Cluster) (a b : PeerName) (hc : CInv c) :
    CInv (c.step (.gossip a b)).1 := by
  simp only [Cluster.step]
  exact cinv_setLink c a b _ hc (linkInv_send _ _ (nodup_stateOf c hc a) _ (linkInv_link c hc a b) (by intro m h; cases h))

theorem cinv_step_linkDown (c : Cluster) (a b : PeerName) (hc : CInv c) :
    CInv (c.step (.linkDown a b)).1 := by
  simp only [Cluster.step]
  exact cinv_setLink _ b a _ (cinv_setLink c a b _ hc (linkInv_empty false)) (linkInv_empty false)

theorem cinv_step_linkUp (c : Cluster) (a b : PeerName) (hc : CInv c) :
    CInv (c.step (.linkUp a b)).1 := by
  simp only [Cluster.step]
  split
  · exact hc
  · exact cinv_setLink _ b a _ (cinv_setLink c a b _ hc (linkInv_complete true)) (linkInv_complete true)

theorem cinv_step_touch (c : Cluster) (b p : PeerName) (hc : CInv c) :
    CInv (c.step (.touch b p)).1 := by
  simp only [Cluster.step]
  split
  · rename_i br hb
    exact cinv_setBroker c _ hc (binv_touch br p (binv_of_broker? c hc b br hb))
  · exact hc

theorem cinv_step_expire (c : Cluster) (b p : PeerName) (hc : CInv c) :
    CInv (c.step (.expire b p)).1 := by
  simp only [Cluster.step]
  split
  · rename_i br hb
    exact cinv_setBroker c _ hc (binv_expire br p (binv_of_broker? c hc b br hb))
  · exact hc

theorem cinv_step_offline (c : Cluster) (b p : PeerName) (now : Int) (hc : CInv c)
    (hf : ∀ f ∈ (c.step (.offline b p now)).2.flags, f = clockFlag) :
    CInv (c.step (.offline b p now)).1 := by
  cases hb : c.broker? b with
  | none =>
    simp only [Cluster.step, hb]
    exact hc
  | some br =>
    simp only [Cluster.step, hb] at hf ⊢
    exact cinv_setBroker c _ hc (binv_offline br p now (binv_of_broker? c hc b br hb)
      (flags_nil_of_clock _ (offline_flags br p now) hf))

theorem binv_mergeStep (rev : WalkOrder) (b : Broker) (m : Map) (hb : BInv b) (hm : NoDup m)
    (hf : ∀ f ∈ (mergeStep rev b m).flags, f = clockFlag) : BInv (mergeStep rev b m).broker := by
  unfold mergeStep at hf ⊢
  apply binv_mergeOrd _ b m hb hm
  · cases rev
    · exact List.Perm.refl _
    · exact List.reverse_perm _
    · exact List.filter_append_perm _ _
    · exact List.Perm.trans List.perm_append_comm (List.filter_append_perm _ _)
  · exact flags_nil_of_clock _ (mergeStepOrd_flags _ b m) hf

theorem mergeStep_delta_nodup (rev : WalkOrder) (b : Broker) (m : Map) (hm : NoDup m) (d : Map)
    (h : (mergeStep rev b m).delta = some d) : NoDup d := by
  unfold mergeStep at h
  rw [(mergeOrd_state _ b m).2.2.2] at h
  split at h
  · cases h
  · cases h; exact delta_nodup b.state m hm

theorem cinv_deliver_gossip (c : Cluster) (hc : CInv c) (br : Broker) (hbr : BInv br) (m : Map) (hm : NoDup m)
    (rev : WalkOrder) (b : PeerName) (to : List PeerName)
    (hf : ∀ f ∈ (mergeStep rev br m).flags, f = clockFlag) :
    CInv (match (mergeStep rev br m).delta with
      | some d => (c.setBroker (mergeStep rev br m).broker).sendFrom b (.data d) to
      | none => c.setBroker (mergeStep rev br m).broker) := by
  have h1 := cinv_setBroker c _ hc (binv_mergeStep rev br m hbr hm hf)
  split
  · rename_i d hd
    exact cinv_sendFrom _ b _ to h1 (by
      intro m' h'; cases h'
      exact mergeStep_delta_nodup rev br m hm _ hd)
  · exact h1

theorem cinv_deliver_bcast (c : Cluster) (hc : CInv c) (br : Broker) (hbr : BInv br) (m : Map) (hm : NoDup m)
    (rev : WalkOrder) (b src : PeerName) (to : List PeerName)
    (hf : ∀ f ∈ (mergeStep rev br m).flags, f = clockFlag) :
    CInv (match (mergeStep rev br m).delta with
      | some d => (c.setBroker (mergeStep rev br m).broker).broadcastFrom b src d to
      | none => c.setBroker (mergeStep rev br m).broker) := by
  have h1 := cinv_setBroker c _ hc (binv_mergeStep rev br m hbr hm hf)
  split
  · rename_i d hd
    exact cinv_broadcastFrom _ b src d to h1 (mergeStep_delta_nodup rev br m hm _ hd)
  · exact h1

theorem cinv_step_deliver (c : Cluster) (a b : PeerName) (relay : List PeerName) (keep : Bool) (rev : WalkOrder) (hc : CInv c)
    (hf : ∀ f ∈ (c.step (.deliver a b relay keep rev)).2.flags, f = clockFlag) :
    CInv (c.step (.deliver a b relay keep rev)).1 := by
  have hl := linkInv_link c hc a b
  cases hw : (c.link a b).wire with
  | nil =>
    simp only [Cluster.step, hw]
    exact hc
  | cons w rest =>
    cases hb : c.broker? b with
    | none =>
      simp only [Cluster.step, hw, hb]
      exact hc
    | some br =>
      have hbr := binv_of_broker? c hc b br hb
      have hwn : NoDup w.payload := hl.wire w (by rw [hw]; exact List.mem_cons_self)
      have hc0 : CInv (if keep then c else c.setLink a b { c.link a b with wire := rest }) := by
        split
        · exact hc
        · exact cinv_setLink c a b _ hc ⟨hl.gossip, hl.bcasts,
            fun x hx => hl.wire x (by rw [hw]; exact List.mem_cons_of_mem _ hx)⟩
      cases w with
      | gossip m =>
        simp only [Cluster.step, hw, hb] at hf ⊢
        exact cinv_deliver_gossip _ hc0 br hbr m hwn rev b _ hf
      | bcast src m =>
        simp only [Cluster.step, hw, hb] at hf ⊢
        split
        · exact hc0
        · rename_i hsrc
          rw [if_neg hsrc] at hf
          exact cinv_deliver_bcast _ hc0 br hbr m hwn rev b src _ hf

/-- every step kind preserves the invariant unless it raises a routing flag -/
theorem cinv_step (c : Cluster) (e : Ev) (hc : CInv c) (hf : ∀ f ∈ (c.step e).2.flags, f = clockFlag) :
    CInv (c.step e).1 := by
  cases e with
  | sub a cn σ now => exact cinv_step_sub c a cn σ now hc
  | unsub a cn σ now => exact cinv_step_unsub c a cn σ now hc
  | close a cn now => exact cinv_step_close c a cn now hc
  | pick a b src => exact cinv_step_pick c a b src hc
  | deliver a b relay keep rev => exact cinv_step_deliver c a b relay keep rev hc hf
  | gossip a b => exact cinv_step_gossip c a b hc
  | linkDown a b => exact cinv_step_linkDown c a b hc
  | linkUp a b => exact cinv_step_linkUp c a b hc
  | touch b p => exact cinv_step_touch c b p hc
  | expire b p => exact cinv_step_expire c b p hc
  | offline b p now => exact cinv_step_offline c b p now hc hf

theorem run_flags_mono (evs : List Ev) (acc : Cluster × List Flag) :
    ∀ f ∈ acc.2, f ∈ (evs.foldl (fun (acc : Cluster × List Flag) e =>
      let r := acc.1.step e; (r.1, acc.2 ++ r.2.flags)) acc).2 := by
  induction evs generalizing acc with
  | nil => intro f hf; exact hf
  | cons e evs ih =>
    intro f hf
    rw [List.foldl_cons]
    exact ih _ f (List.mem_append_left _ hf)

theorem cinv_run_aux (evs : List Ev) (acc : Cluster × List Flag) (hc : CInv acc.1)
    (hf : ∀ f ∈ (evs.foldl (fun (acc : Cluster × List Flag) e =>
      let r := acc.1.step e; (r.1, acc.2 ++ r.2.flags)) acc).2, f = clockFlag) :
    CInv (evs.foldl (fun (acc : Cluster × List Flag) e =>
      let r := acc.1.step e; (r.1, acc.2 ++ r.2.flags)) acc).1 := by
  induction evs generalizing acc with
  | nil => exact hc
  | cons e evs ih =>
    rw [List.foldl_cons] at hf ⊢
    apply ih _ _ hf
    apply cinv_step acc.1 e hc
    intro f hfl
    exact hf f (run_flags_mono evs _ f (List.mem_append_right _ hfl))

/-- … hence every schedule -/
theorem cinv_run (c : Cluster) (evs : List Ev) (hc : CInv c) (hf : ∀ f ∈ (c.run evs).2, f = clockFlag) :
    CInv (c.run evs).1 :=
  cinv_run_aux evs (c, []) hc hf

/-- what the invariant says about one remote peer -/
theorem binv_routing (b : Broker) (hb : BInv b) (p : PeerName) (hp : p ≠ b.self) (σ : Ssid) :
    counterOf b p σ = cnt b.state p σ ∧ (hasRoute b.routes σ p = true ↔ 0 < cnt b.state p σ) := by
  rw [hasRoute_iff]
  unfold counterOf
  cases hm : mget b.members p with
  | none =>
    have hz := hb.absent p hp hm σ
    refine ⟨hz.symm, ?_⟩
    rw [hz]
    constructor
    · rintro ⟨g, hg⟩
      obtain ⟨r, hr, _⟩ := (hb.routes σ p g).1 hg
      rw [hm] at hr; cases hr
    · intro h; exact absurd h (Nat.lt_irrefl 0)
  | some r =>
    have hcn := hb.counters p r hm σ
    refine ⟨hcn, ?_⟩
    rw [← hcn]
    constructor
    · rintro ⟨g, hg⟩
      obtain ⟨r', hr, _, h3⟩ := (hb.routes σ p g).1 hg
      rw [hm] at hr; cases hr
      exact h3
    · intro h
      exact ⟨r.gen, (hb.routes σ p r.gen).2 ⟨r, hm, rfl, h⟩⟩

/-! ## quiescence -/

/-- the broker's own entries tell the truth about its clients: an ssid has an active entry of
this broker iff a live local subscription holds it -/
def OwnTruth (b : Broker) : Prop := ∀ σ, 0 < cnt b.state b.self σ ↔ ∃ c, (c, σ) ∈ b.locals

/-- equal times on every key give the same positive counts -/
theorem cnt_pos_equiv (s t : Map) (hs : NoDup s) (ht : NoDup t) (h : Equiv s t) (p : PeerName) (σ : Ssid) :
    0 < cnt s p σ ↔ 0 < cnt t p σ := by
  rw [cnt_pos_iff_has s hs, cnt_pos_iff_has t ht]
  constructor
  · rintro ⟨k, h1, h2⟩
    exact ⟨k, by rw [← has_congr s t k (h k)]; exact h1, h2⟩
  · rintro ⟨k, h1, h2⟩
    exact ⟨k, by rw [has_congr s t k (h k)]; exact h1, h2⟩

theorem nodup_eraseDups {α : Type} [BEq α] [LawfulBEq α] :
    ∀ (n : Nat) (l : List α), l.length ≤ n → l.eraseDups.Nodup
  | _, [], _ => by simp
  | 0, a :: as, h => by simp at h
  | n + 1, a :: as, h => by
    rw [List.eraseDups_cons, List.nodup_cons]
    refine ⟨?_, nodup_eraseDups n _ ?_⟩
    · simp [List.mem_eraseDups, List.mem_filter]
    · exact Nat.le_trans (List.length_filter_le _ _) (by simpa using h)

theorem mem_forwardTo (mode : Trie.Mode) (b : Broker) (q : Ssid) (p : PeerName) :
    p ∈ forwardTo mode b q ↔ ∃ σ g, (σ, p, g) ∈ b.routes ∧ Trie.matchesMode mode σ q = true ∧ sendable b (σ, p, g) = true := by
  unfold forwardTo
  rw [List.mem_eraseDups, List.mem_map]
  constructor
  · rintro ⟨⟨σ, p', g⟩, hr, rfl⟩
    rw [List.mem_filter, Bool.and_eq_true] at hr
    exact ⟨σ, g, hr.1, hr.2.1, hr.2.2⟩
  · rintro ⟨σ, g, h1, h2, h3⟩
    refine ⟨(σ, p, g), ?_, rfl⟩
    rw [List.mem_filter, Bool.and_eq_true]
    exact ⟨h1, h2, h3⟩

theorem mem_localTo (mode : Trie.Mode) (b : Broker) (q : Ssid) (cn : ConnId) :
    cn ∈ localTo mode b q ↔ ∃ σ, (cn, σ) ∈ b.locals ∧ Trie.matchesMode mode σ q = true := by
  unfold localTo
  rw [List.mem_eraseDups, List.mem_map]
  constructor
  · rintro ⟨⟨c, σ⟩, hr, rfl⟩
    rw [List.mem_filter] at hr
    exact ⟨σ, hr.1, hr.2⟩
  · rintro ⟨σ, h1, h2⟩
    refine ⟨(cn, σ), ?_, rfl⟩
    rw [List.mem_filter]
    exact ⟨h1, h2⟩

theorem localTo_nodup (mode : Trie.Mode) (b : Broker) (q : Ssid) : (localTo mode b q).Nodup :=
  nodup_eraseDups _ _ (Nat.le_refl _)

theorem forwardTo_nodup (mode : Trie.Mode) (b : Broker) (q : Ssid) : (forwardTo mode b q).Nodup :=
  nodup_eraseDups _ _ (Nat.le_refl _)

/-- Routing at quiescence, for one publishing broker `a`: with equal states everywhere, truthful
own entries, every known peer active, and every entry naming a broker of the cluster, a message
with ssid `q` is forwarded to exactly the other brokers that hold a live local subscription
whose filter matches `q`. -/
theorem forward_exact (mode : Trie.Mode) (bs : List Broker) (a : Broker) (ha : a ∈ bs)
    (hinv : ∀ x ∈ bs, BInv x)
    (heq : ∀ x ∈ bs, Equiv a.state x.state)
    (hown : ∀ x ∈ bs, OwnTruth x)
    (hact : ∀ p r, mget a.members p = some r → r.active = true)
    (hpeers : ∀ p σ, 0 < cnt a.state p σ → ∃ y ∈ bs, y.self = p)
    (q : Ssid) (p : PeerName) :
    p ∈ forwardTo mode a q ↔
      p ≠ a.self ∧ ∃ y ∈ bs, y.self = p ∧ ∃ cn σ, (cn, σ) ∈ y.locals ∧ Trie.matchesMode mode σ q = true := by
  have hba := hinv a ha
  rw [mem_forwardTo]
  constructor
  · rintro ⟨σ, g, hr, hmatch, _⟩
    obtain ⟨r, hm, _, hpos⟩ := (hba.routes σ p g).1 hr
    have hne : p ≠ a.self := by
      intro h; rw [h, hba.noself] at hm; cases hm
    rw [hba.counters p r hm σ] at hpos
    obtain ⟨y, hy, hys⟩ := hpeers p σ hpos
    have hposy := (cnt_pos_equiv a.state y.state hba.nodup (hinv y hy).nodup (heq y hy) p σ).1 hpos
    rw [← hys] at hposy
    obtain ⟨cn, hcn⟩ := (hown y hy σ).1 hposy
    exact ⟨hne, y, hy, hys, cn, σ, hcn, hmatch⟩
  · rintro ⟨hne, y, hy, hys, cn, σ, hcn, hmatch⟩
    have hposy : 0 < cnt y.state y.self σ := (hown y hy σ).2 ⟨cn, hcn⟩
    rw [hys] at hposy
    have hpos := (cnt_pos_equiv a.state y.state hba.nodup (hinv y hy).nodup (heq y hy) p σ).2 hposy
    cases hm : mget a.members p with
    | none =>
      rw [hba.absent p hne hm σ] at hpos
      exact absurd hpos (Nat.lt_irrefl 0)
    | some r =>
      have hc : 0 < cget r.subs σ := by rw [hba.counters p r hm σ]; exact hpos
      refine ⟨σ, r.gen, (hba.routes σ p r.gen).2 ⟨r, hm, rfl, hc⟩, hmatch, ?_⟩
      unfold sendable
      show (match mget a.members p with | some m => m.active && m.gen == r.gen | none => false) = true
      rw [hm]
      simp [hact p r hm]

end Emitter.Cluster
