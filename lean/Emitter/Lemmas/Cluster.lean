/-
  C05 — lemma library, part 3: the remaining broker steps, the lift of the routing invariant to
  every schedule of the cluster model, and routing at quiescence.
-/
import Emitter.Lemmas.ClusterWalk
import Emitter.Lemmas.Trie

namespace Emitter.Cluster
open Emitter Emitter.Lww

/-! ## the other steps of one broker -/

theorem binv_localSub (b : Broker) (c : ConnId) (σ : Ssid) (now : Int) (hb : BInv b) :
    BInv (localSub b c σ now).broker := by
  sorry

theorem binv_localUnsub (b : Broker) (c : ConnId) (σ : Ssid) (now : Int) (hb : BInv b) :
    BInv (localUnsub b c σ now).broker := by
  sorry

theorem binv_closeConn (b : Broker) (c : ConnId) (now : Int) (acc : List NotifyRes) (hb : BInv b) :
    BInv (closeConn b c now acc).1 := by
  sorry

theorem binv_touch (b : Broker) (p : PeerName) (hb : BInv b) : BInv (touch b p) := by
  sorry

theorem binv_expire (b : Broker) (p : PeerName) (hb : BInv b) : BInv (expire b p) := by
  sorry

/-- garbage collection of a peer that holds no active entry (anything else is flagged) -/
theorem binv_offline (b : Broker) (p : PeerName) (now : Int) (hb : BInv b) (hf : (offline b p now).2 = []) :
    BInv (offline b p now).1 := by
  sorry

/-- payloads a broker hands to the transport have no repeated key -/
theorem localSub_payload_nodup (b : Broker) (c : ConnId) (σ : Ssid) (now : Int) : NoDup (localSub b c σ now).payload := by
  sorry
theorem localUnsub_payload_nodup (b : Broker) (c : ConnId) (σ : Ssid) (now : Int) : NoDup (localUnsub b c σ now).payload := by
  sorry
theorem closeConn_payload_nodup (b : Broker) (c : ConnId) (now : Int) (acc : List NotifyRes) (h : ∀ r ∈ acc, NoDup r.payload) :
    ∀ r ∈ (closeConn b c now acc).2, NoDup r.payload := by
  sorry

/-! ## the cluster -/

def Wire.payload : Wire → Map
  | .gossip m => m
  | .bcast _ m => m

/-- everything queued or in flight on a link has no repeated key -/
structure LinkInv (l : Link) : Prop where
  gossip : ∀ m, l.gossip = some (.data m) → NoDup m
  bcasts : ∀ e ∈ l.bcasts, NoDup e.2
  wire : ∀ w ∈ l.wire, NoDup w.payload

structure CInv (c : Cluster) : Prop where
  brokers : ∀ b ∈ c.brokers, BInv b
  links : ∀ e ∈ c.links, LinkInv e.2

/-- the only flag that does not concern the routing invariant (it concerns whether a broker's own
entries tell the truth about its clients) -/
def clockFlag : Flag := "C05.clock-not-advancing"

theorem cinv_init (mode : Trie.Mode) (n : Nat) (hn : n < 18446744073709551615) : CInv (Cluster.init mode n) := by
  sorry

/-- every step kind preserves the invariant unless it raises a routing flag -/
theorem cinv_step (c : Cluster) (e : Ev) (hc : CInv c) (hf : ∀ f ∈ (c.step e).2.flags, f = clockFlag) :
    CInv (c.step e).1 := by
  sorry

/-- … hence every schedule -/
theorem cinv_run (c : Cluster) (evs : List Ev) (hc : CInv c) (hf : ∀ f ∈ (c.run evs).2, f = clockFlag) :
    CInv (c.run evs).1 := by
  sorry

/-- what the invariant says about one remote peer -/
theorem binv_routing (b : Broker) (hb : BInv b) (p : PeerName) (hp : p ≠ b.self) (σ : Ssid) :
    counterOf b p σ = cnt b.state p σ ∧ (hasRoute b.routes σ p = true ↔ 0 < cnt b.state p σ) := by
  sorry

/-! ## quiescence -/

/-- the broker's own entries tell the truth about its clients: an ssid has an active entry of
this broker iff a live local subscription holds it -/
def OwnTruth (b : Broker) : Prop := ∀ σ, 0 < cnt b.state b.self σ ↔ ∃ c, (c, σ) ∈ b.locals

/-- equal times on every key give the same positive counts -/
theorem cnt_pos_equiv (s t : Map) (hs : NoDup s) (ht : NoDup t) (h : Equiv s t) (p : PeerName) (σ : Ssid) :
    0 < cnt s p σ ↔ 0 < cnt t p σ := by
  sorry

theorem mem_forwardTo (mode : Trie.Mode) (b : Broker) (q : Ssid) (p : PeerName) :
    p ∈ forwardTo mode b q ↔ ∃ σ g, (σ, p, g) ∈ b.routes ∧ Trie.matchesMode mode σ q = true ∧ sendable b (σ, p, g) = true := by
  sorry

theorem mem_localTo (mode : Trie.Mode) (b : Broker) (q : Ssid) (cn : ConnId) :
    cn ∈ localTo mode b q ↔ ∃ σ, (cn, σ) ∈ b.locals ∧ Trie.matchesMode mode σ q = true := by
  sorry

theorem localTo_nodup (mode : Trie.Mode) (b : Broker) (q : Ssid) : (localTo mode b q).Nodup := by
  sorry

theorem forwardTo_nodup (mode : Trie.Mode) (b : Broker) (q : Ssid) : (forwardTo mode b q).Nodup := by
  sorry

/-- Routing at quiescence, for one publishing broker `a`: with equal states everywhere, truthful
own entries, every known peer active, and every entry naming a broker of the cluster, a message
with ssid `q` is forwarded to exactly the other brokers that hold a live local subscription
whose filter matches `q`. -/
theorem forward_exact (mode : Trie.Mode) (bs : List Broker) (a : Broker) (ha : a ∈ bs)
    (hinv : ∀ x ∈ bs, BInv x)
    (heq : ∀ x ∈ bs, Equiv a.state x.state)
    (hown : ∀ x ∈ bs, OwnTruth x)
    (hact : ∀ p r, mget a.members p = some r → r.active = true)
    (hpeers : ∀ p σ, 0 < cnt a.state p σ → ∃ y ∈ bs, y.self = p)
    (q : Ssid) (p : PeerName) :
    p ∈ forwardTo mode a q ↔
      p ≠ a.self ∧ ∃ y ∈ bs, y.self = p ∧ ∃ cn σ, (cn, σ) ∈ y.locals ∧ Trie.matchesMode mode σ q = true := by
  sorry

end Emitter.Cluster
