import Emitter.Lemmas.Message
import Emitter.Model.Storage
import Emitter.Spec.Storage

namespace Emitter.Storage
open Emitter Emitter.Message

/-! ### A. the byte order of keys is a strict total order -/

theorem bytesLt_irrefl (a : Bytes) : bytesLt a a = false := by
  induction a with
  | nil => rfl
  | cons x xs ih =>
    have : ¬ (bytesLt (x :: xs) (x :: xs) = true) := by
      rw [bytesLt_cons]; simp [ih]
    simpa using this

theorem bytesLt_trans : ∀ (a b c : Bytes), bytesLt a b = true → bytesLt b c = true → bytesLt a c = true
  | [], [], _, h, _ => by simp [bytesLt] at h
  | [], _ :: _, [], _, h => by simp [bytesLt] at h
  | [], _ :: _, _ :: _, _, _ => rfl
  | _ :: _, [], _, h, _ => by simp [bytesLt] at h
  | _ :: _, _ :: _, [], _, h => by simp [bytesLt] at h
  | x :: xs, y :: ys, z :: zs, h₁, h₂ => by
    rw [bytesLt_cons] at h₁ h₂ ⊢
    rcases h₁ with h₁ | ⟨e₁, h₁⟩
    · rcases h₂ with h₂ | ⟨e₂, _⟩
      · left; omega
      · left; omega
    · rcases h₂ with h₂ | ⟨e₂, h₂⟩
      · left; omega
      · right; exact ⟨by omega, bytesLt_trans xs ys zs h₁ h₂⟩

theorem bytesLt_total : ∀ (a b : Bytes), bytesLt a b = false → bytesLt b a = false → a = b
  | [], [], _, _ => rfl
  | [], _ :: _, h, _ => by simp [bytesLt] at h
  | _ :: _, [], _, h => by simp [bytesLt] at h
  | x :: xs, y :: ys, h₁, h₂ => by
    have n₁ : ¬ (bytesLt (x :: xs) (y :: ys) = true) := by simp [h₁]
    have n₂ : ¬ (bytesLt (y :: ys) (x :: xs) = true) := by simp [h₂]
    rw [bytesLt_cons] at n₁ n₂
    have hxy : x.toNat = y.toNat := by omega
    have t₁ : bytesLt xs ys = false := by
      cases h : bytesLt xs ys with
      | false => rfl
      | true => exact absurd (Or.inr ⟨hxy, h⟩) n₁
    have t₂ : bytesLt ys xs = false := by
      cases h : bytesLt ys xs with
      | false => rfl
      | true => exact absurd (Or.inr ⟨hxy.symm, h⟩) n₂
    rw [bytesLt_total xs ys t₁ t₂, UInt8.toNat_inj.mp hxy]

theorem bytesLt_asymm (a b : Bytes) (h : bytesLt a b = true) : bytesLt b a = false := by
  cases h' : bytesLt b a with
  | false => rfl
  | true =>
    have := bytesLt_trans a b a h h'
    rw [bytesLt_irrefl] at this
    exact absurd this (by simp)

/-- `a ≤ b < c → a < c` -/
theorem bytesLt_of_le_of_lt (a b c : Bytes) (h₁ : bytesLt b a = false) (h₂ : bytesLt b c = true) :
    bytesLt a c = true := by
  cases h : bytesLt a b with
  | true => exact bytesLt_trans a b c h h₂
  | false => rw [bytesLt_total a b h h₁]; exact h₂

/-- `a < b ≤ c → a < c` -/
theorem bytesLt_of_lt_of_le (a b c : Bytes) (h₁ : bytesLt a b = true) (h₂ : bytesLt c b = false) :
    bytesLt a c = true := by
  cases h : bytesLt b c with
  | true => exact bytesLt_trans a b c h₁ h
  | false => rw [← bytesLt_total b c h h₂]; exact h₁

/-! ### B. the first eight bytes of an id: (prefix word, inverted time word) -/

theorem bytesLt_putBe32_iff (x y : UInt32) (r₁ r₂ : Bytes) :
    bytesLt (putBe32 x ++ r₁) (putBe32 y ++ r₂) = true ↔
      x.toNat < y.toNat ∨ (x = y ∧ bytesLt r₁ r₂ = true) := by
  constructor
  · intro h
    rcases Nat.lt_trichotomy x.toNat y.toNat with hlt | heq | hgt
    · exact Or.inl hlt
    · have e : x = y := UInt32.toNat_inj.mp heq
      subst e
      rw [bytesLt_append] at h
      exact Or.inr ⟨rfl, h⟩
    · have := bytesLt_putBe32 y x r₂ r₁ hgt
      rw [bytesLt_asymm _ _ h] at this
      exact absurd this (by simp)
  · rintro (h | ⟨rfl, h⟩)
    · exact bytesLt_putBe32 x y r₁ r₂ h
    · rw [bytesLt_append]; exact h

/-- an id of at least eight bytes is its two leading words followed by the rest -/
theorem split8 : ∀ (id : Bytes), 8 ≤ id.length →
    id = putBe32 (word id 0) ++ (putBe32 (word id 4) ++ id.drop 8)
  | a :: b :: c :: d :: e :: f :: g :: h :: rest, _ => by
    simp only [word, List.getD_cons_zero, List.getD_cons_succ, Nat.zero_add, Nat.reduceAdd, putBe32_be32,
      List.drop_succ_cons, List.drop_zero, List.cons_append, List.nil_append]
  | [], h | [_], h | [_, _], h | [_, _, _], h | [_, _, _, _], h | [_, _, _, _, _], h
  | [_, _, _, _, _, _], h | [_, _, _, _, _, _, _], h => by simp at h

/-- the time word of an id, read as a number (smaller = more recent) -/
theorem idTime_eq (id : Bytes) : idTime id = (4294967295 - (word id 4).toNat : Nat) + timeOffset := by
  unfold idTime
  have := (word id 4).toNat_lt
  have : (maxU32 - word id 4).toNat = 4294967295 - (word id 4).toNat := by
    simp only [maxU32, UInt32.toNat_sub]
    simp
    omega
  rw [this]

/-- order of two ids as read off their leading words -/
def le8 (a b : Bytes) : Prop :=
  (word a 0).toNat < (word b 0).toNat ∨ (word a 0 = word b 0 ∧ idTime b ≤ idTime a)

theorem le8_of_bytesLt (a b : Bytes) (ha : 8 ≤ a.length) (hb : 8 ≤ b.length) (h : bytesLt a b = true) :
    le8 a b := by
  rw [split8 a ha, split8 b hb, bytesLt_putBe32_iff] at h
  rcases h with h | ⟨e, h⟩
  · exact Or.inl h
  · right
    refine ⟨e, ?_⟩
    rw [bytesLt_putBe32_iff] at h
    rw [idTime_eq, idTime_eq]
    have := (word a 4).toNat_lt
    have := (word b 4).toNat_lt
    rcases h with h | ⟨e', _⟩
    · omega
    · rw [e']; omega

/-! ### C. the store stays strictly sorted and well-formed under every history of puts -/

def StrictSorted (s : Store) : Prop := s.Pairwise (fun a b => bytesLt a.key b.key = true)

theorem mem_insert (e x : Entry) : ∀ (s : Store), x ∈ insert e s → x = e ∨ x ∈ s
  | [], h => by simp [insert] at h; exact Or.inl h
  | y :: ys, h => by
    unfold insert at h
    split at h
    · simp only [List.mem_cons] at h ⊢; rcases h with h | h | h <;> simp [h]
    · split at h
      · simp only [List.mem_cons] at h ⊢
        rcases h with h | h
        · simp [h]
        · rcases mem_insert e x ys h with h | h <;> simp [h]
      · simp only [List.mem_cons] at h ⊢; rcases h with h | h <;> simp [h]

theorem insert_sorted (e : Entry) : ∀ (s : Store), StrictSorted s → StrictSorted (insert e s)
  | [], _ => by simp [insert, StrictSorted]
  | y :: ys, h => by
    unfold StrictSorted at h ⊢
    rw [List.pairwise_cons] at h
    unfold insert
    split
    · next hlt =>
      refine List.pairwise_cons.mpr ⟨?_, List.pairwise_cons.mpr h⟩
      intro a ha
      rcases List.mem_cons.mp ha with rfl | ha
      · exact hlt
      · exact bytesLt_trans _ _ _ hlt (h.1 a ha)
    · next hnlt =>
      split
      · next hgt =>
        refine List.pairwise_cons.mpr ⟨?_, insert_sorted e ys h.2⟩
        intro a ha
        rcases mem_insert e a ys ha with rfl | ha
        · exact hgt
        · exact h.1 a ha
      · next hngt =>
        have hk : e.key = y.key := bytesLt_total _ _ (by simpa using hnlt) (by simpa using hngt)
        refine List.pairwise_cons.mpr ⟨?_, h.2⟩
        intro a ha
        rw [hk]; exact h.1 a ha

/-- what every stored entry looks like: the key is a `NewID` id (fixed part, at least two ssid
words, prefix word = contract xor first level) and the stored message carries it -/
structure WF (e : Entry) : Prop where
  len : 24 ≤ e.key.length
  pfx : word e.key 0 = (idSsid e.key).getD 0 0 ^^^ (idSsid e.key).getD 1 0
  id : e.msg.id = e.key

def Inv (s : Store) : Prop := StrictSorted s ∧ ∀ e ∈ s, WF e

theorem newId_wf (ssid : Ssid) (unix : Int) (seq uniq : UInt32) (id : Bytes)
    (h : newId ssid unix seq uniq = .ok id) :
    24 ≤ id.length ∧ word id 0 = (idSsid id).getD 0 0 ^^^ (idSsid id).getD 1 0 := by
  have hs := (idSsid_newId ssid unix seq uniq id h).1
  obtain ⟨_, _, _, _, _, hl, h2⟩ := newId_words ssid unix seq uniq id h
  refine ⟨by omega, ?_⟩
  rw [hs]
  match ssid, h with
  | s0 :: s1 :: tl, h =>
    simp only [newId, Outcome.ok.injEq] at h
    subst h
    simp only [word, putBe32, List.cons_append, List.nil_append, List.getD_cons_succ, List.getD_cons_zero,
      be32_putBe32, Nat.reduceAdd, Nat.zero_add]

theorem applyPut_cases (retain : UInt32) (s : Store) (p : Put) :
    applyPut retain s p = s ∨
    ∃ id, newId p.ssid p.unix p.seq p.uniq = .ok id ∧ applyPut retain s p = insert (p.entry retain id) s := by
  unfold applyPut
  cases hnew : newId p.ssid p.unix p.seq p.uniq with
  | ok id =>
    by_cases hlen : id.length < 8
    · left; simp [store, hlen]
    · right; exact ⟨id, rfl, by simp [store, hlen, Put.entry]⟩
  | err k => left; rfl
  | panic w => left; rfl

theorem applyPut_inv (retain : UInt32) (s : Store) (p : Put) (h : Inv s) : Inv (applyPut retain s p) := by
  rcases applyPut_cases retain s p with e | ⟨id, hid, e⟩
  · rw [e]; exact h
  · rw [e]
    obtain ⟨hl, hp⟩ := newId_wf _ _ _ _ id hid
    refine ⟨insert_sorted _ _ h.1, ?_⟩
    intro x hx
    rcases mem_insert _ x _ hx with rfl | hx
    · exact ⟨hl, hp, rfl⟩
    · exact h.2 x hx

theorem foldl_inv (retain : UInt32) : ∀ (ps : List Put) (s : Store), Inv s → Inv (ps.foldl (applyPut retain) s)
  | [], _, h => h
  | p :: ps, s, h => foldl_inv retain ps _ (applyPut_inv retain s p h)

theorem runPuts_inv (retain : UInt32) (ps : List Put) : Inv (runPuts retain ps) :=
  foldl_inv retain ps [] ⟨List.Pairwise.nil, by simp⟩

/-- every entry in the store is the entry of some put of the history -/
theorem mem_foldl_puts (retain : UInt32) : ∀ (ps : List Put) (s : Store) (e : Entry),
    e ∈ ps.foldl (applyPut retain) s →
    e ∈ s ∨ ∃ p ∈ ps, ∃ id, newId p.ssid p.unix p.seq p.uniq = .ok id ∧ e = p.entry retain id
  | [], _, _, h => Or.inl h
  | p :: ps, s, e, h => by
    rcases mem_foldl_puts retain ps _ e h with h | ⟨p', hp', id, hid, he⟩
    · rcases applyPut_cases retain s p with e' | ⟨id, hid, e'⟩
      · rw [e'] at h; exact Or.inl h
      · rw [e'] at h
        rcases mem_insert _ e _ h with rfl | h
        · exact Or.inr ⟨p, by simp, id, hid, rfl⟩
        · exact Or.inl h
    · exact Or.inr ⟨p', by simp [hp'], id, hid, he⟩

/-! ### D. the scan loop = filter, then take while the limit and the size cap allow -/

/-- what the loop of `lookup` accepts -/
def matchE (ssid : Ssid) (f u : Int) (e : Entry) : Bool :=
  hasPrefix e.key ssid f && idMatch e.key ssid f u

def Mono (l : List Entry) : Prop := l.Pairwise (fun a b => le8 a.key b.key)
def Above (P : UInt32) (l : List Entry) : Prop := ∀ e ∈ l, P.toNat ≤ (word e.key 0).toNat

theorem firstFitting_full (limit cap n size : Nat) (l : List Entry) (h : limit ≤ n) :
    Spec.firstFitting limit cap n size l = [] := by
  cases l <;> simp [Spec.firstFitting, h]

/-- once an entry at or above the query prefix fails `HasPrefix`, nothing behind it matches -/
theorem no_match_after (ssid : Ssid) (f u : Int) (e : Entry) (rest : List Entry)
    (hm : ∀ x ∈ rest, le8 e.key x.key)
    (ha : (ssid.getD 0 0 ^^^ ssid.getD 1 0).toNat ≤ (word e.key 0).toNat)
    (hp : hasPrefix e.key ssid f = false) : rest.filter (matchE ssid f u) = [] := by
  rw [List.filter_eq_nil_iff]
  intro x hx
  have hle := hm x hx
  simp only [matchE, Bool.and_eq_true]
  rintro ⟨hpx, _⟩
  simp only [hasPrefix, Bool.and_eq_false_iff, beq_eq_false_iff_ne, decide_eq_false_iff_not, ne_eq] at hp
  simp only [hasPrefix, Bool.and_eq_true, beq_iff_eq, decide_eq_true_eq] at hpx
  obtain ⟨hx0, hxt⟩ := hpx
  rcases hp with hp | hp
  · have hne : (word e.key 0).toNat ≠ (ssid.getD 0 0 ^^^ ssid.getD 1 0).toNat := fun h => hp (UInt32.toNat_inj.mp h)
    rcases hle with h | ⟨h, _⟩
    · rw [hx0] at h; omega
    · rw [← h] at hx0; exact hp hx0
  · rcases hle with h | ⟨h, ht⟩
    · rw [hx0] at h; omega
    · omega

theorem scan_exact (ssid : Ssid) (f u : Int) (limit : Nat) : ∀ (l : List Entry) (n size : Nat),
    Mono l → Above (ssid.getD 0 0 ^^^ ssid.getD 1 0) l →
    scan ssid f u limit l n size =
      (Spec.firstFitting limit replyCap n size (l.filter (matchE ssid f u))).map (·.msg)
  | [], _, _, _, _ => by simp [scan, Spec.firstFitting]
  | e :: rest, n, size, hm, ha => by
    unfold Mono at hm
    rw [List.pairwise_cons] at hm
    have ha' : Above (ssid.getD 0 0 ^^^ ssid.getD 1 0) rest := fun x hx => ha x (by simp [hx])
    have ih := fun n size => scan_exact ssid f u limit rest n size hm.2 ha'
    unfold scan
    cases hp : hasPrefix e.key ssid f with
    | false =>
      have h0 := no_match_after ssid f u e rest hm.1 (ha e (by simp)) hp
      have : (e :: rest).filter (matchE ssid f u) = [] := by
        rw [List.filter_cons]; simp [matchE, hp, h0]
      simp [this, Spec.firstFitting]
    | true =>
      by_cases hl : limit ≤ n
      · simp [hl, firstFitting_full]
      · cases hmm : idMatch e.key ssid f u with
        | false =>
          have : (e :: rest).filter (matchE ssid f u) = rest.filter (matchE ssid f u) := by
            rw [List.filter_cons]; simp [matchE, hmm]
          simp [hl, this, ih]
        | true =>
          have : (e :: rest).filter (matchE ssid f u) = e :: rest.filter (matchE ssid f u) := by
            rw [List.filter_cons]; simp [matchE, hp, hmm]
          rw [this]
          simp only [Spec.firstFitting, hl, if_false, Bool.not_true, Bool.false_or, decide_eq_true_eq]
          by_cases hs : size + msgLen e.msg > replyCap
          · simp [hs]
          · simp [hs, ih]

/-- everything the loop returns is a visited entry accepted by `HasPrefix` and `Match` -/
theorem scan_sound (ssid : Ssid) (f u : Int) (limit : Nat) : ∀ (l : List Entry) (n size : Nat) (m : Msg),
    m ∈ scan ssid f u limit l n size → ∃ e ∈ l, e.msg = m ∧ matchE ssid f u e = true
  | [], _, _, _, h => by simp [scan] at h
  | e :: rest, n, size, m, h => by
    unfold scan at h
    split at h
    · simp at h
    · next h1 =>
      split at h
      · obtain ⟨x, hx, hm⟩ := scan_sound ssid f u limit rest n size m h
        exact ⟨x, by simp [hx], hm⟩
      · next h2 =>
        split at h
        · simp at h
        · rcases List.mem_cons.mp h with rfl | h
          · refine ⟨e, by simp, rfl, ?_⟩
            simp only [Bool.or_eq_true, Bool.not_eq_true', not_or, Bool.not_eq_false, decide_eq_true_eq] at h1 h2
            simp [matchE, h1.1, h2]
          · obtain ⟨x, hx, hm⟩ := scan_sound ssid f u limit rest _ _ m h
            exact ⟨x, by simp [hx], hm⟩

theorem scan_length (ssid : Ssid) (f u : Int) (limit : Nat) : ∀ (l : List Entry) (n size : Nat),
    (scan ssid f u limit l n size).length + n ≤ max limit n
  | [], _, _ => by simp [scan]; omega
  | e :: rest, n, size => by
    unfold scan
    split
    · simp; omega
    · next h1 =>
      split
      · exact scan_length ssid f u limit rest n size
      · split
        · simp; omega
        · have := scan_length ssid f u limit rest (n + 1) (size + msgLen e.msg)
          simp only [Bool.or_eq_true, Bool.not_eq_true', not_or, Bool.not_eq_false, decide_eq_true_eq] at h1
          simp only [List.length_cons]
          omega

/-! ### E. where the iteration starts -/

theorem bytesLt_nil_right (a : Bytes) : bytesLt a [] = false := by cases a <;> rfl

theorem seek_eq_filter (T : Bytes) : ∀ (l : List Entry), StrictSorted l →
    seek T l = l.filter (fun e => !bytesLt e.key T)
  | [], _ => rfl
  | e :: rest, h => by
    unfold StrictSorted at h
    rw [List.pairwise_cons] at h
    unfold seek
    rw [List.dropWhile_cons, List.filter_cons]
    cases hlt : bytesLt e.key T with
    | true => simpa [seek] using seek_eq_filter T rest h.2
    | false =>
      simp only [Bool.false_eq_true, if_false, Bool.not_false, if_true, List.cons.injEq, true_and]
      symm
      rw [List.filter_eq_self]
      intro a ha
      cases h' : bytesLt a.key T with
      | false => rfl
      | true =>
        have := bytesLt_trans _ _ _ (h.1 a ha) h'
        rw [hlt] at this; exact absurd this (by simp)

/-- continuation behind a key that is present: exactly the entries strictly after it -/
theorem after_present (x : Bytes) : ∀ (l : List Entry), StrictSorted l → (∃ e ∈ l, e.key = x) →
    (seek x l).drop 1 = l.filter (fun e => bytesLt x e.key)
  | [], _, h => by simp at h
  | e :: rest, h, hx => by
    unfold StrictSorted at h
    rw [List.pairwise_cons] at h
    unfold seek
    rw [List.dropWhile_cons, List.filter_cons]
    cases hlt : bytesLt e.key x with
    | true =>
      have hx' : ∃ e' ∈ rest, e'.key = x := by
        obtain ⟨e', he', hk⟩ := hx
        rcases List.mem_cons.mp he' with rfl | he'
        · rw [hk, bytesLt_irrefl] at hlt; exact absurd hlt (by simp)
        · exact ⟨e', he', hk⟩
      simp only [if_true, bytesLt_asymm _ _ hlt, Bool.false_eq_true, if_false]
      simpa [seek] using after_present x rest h.2 hx'
    | false =>
      have hk : e.key = x := by
        obtain ⟨e', he', hk⟩ := hx
        rcases List.mem_cons.mp he' with rfl | he'
        · exact hk
        · have := h.1 e' he'
          rw [hk, hlt] at this; exact absurd this (by simp)
      simp only [Bool.false_eq_true, if_false, List.drop_succ_cons, List.drop_zero]
      rw [← hk, bytesLt_irrefl]
      simp only [Bool.false_eq_true, if_false]
      symm
      rw [List.filter_eq_self]
      intro a ha
      exact h.1 a ha

/-- the repaired continuation: exactly the entries strictly after the id, present or not -/
theorem after_repaired (x : Bytes) : ∀ (l : List Entry), StrictSorted l →
    stepOverIfEqual x (seek x l) = l.filter (fun e => bytesLt x e.key)
  | [], _ => rfl
  | e :: rest, h => by
    unfold StrictSorted at h
    rw [List.pairwise_cons] at h
    unfold seek
    rw [List.dropWhile_cons, List.filter_cons]
    cases hlt : bytesLt e.key x with
    | true =>
      simp only [if_true, bytesLt_asymm _ _ hlt, Bool.false_eq_true, if_false]
      simpa [seek] using after_repaired x rest h.2
    | false =>
      simp only [Bool.false_eq_true, if_false, stepOverIfEqual]
      by_cases hk : e.key = x
      · simp only [hk, beq_self_eq_true, if_true, bytesLt_irrefl, Bool.false_eq_true, if_false]
        symm
        rw [List.filter_eq_self]
        intro a ha
        rw [← hk]; exact h.1 a ha
      · have hgt : bytesLt x e.key = true := by
          cases h' : bytesLt x e.key with
          | true => rfl
          | false => exact absurd (bytesLt_total _ _ hlt h') hk
        have : (e.key == x) = false := by simpa using hk
        simp only [this, Bool.false_eq_true, if_false, hgt, if_true, List.cons.injEq, true_and]
        symm
        rw [List.filter_eq_self]
        intro a ha
        exact bytesLt_trans _ _ _ hgt (h.1 a ha)

/-- the seek target `NewPrefix(ssid, until)` splits the order at (prefix, until) -/
theorem bytesLt_newPrefix (id : Bytes) (hl : 8 ≤ id.length) (ssid : Ssid) (u : Int) :
    bytesLt id (newPrefix ssid u) = true ↔
      (word id 0).toNat < (ssid.getD 0 0 ^^^ ssid.getD 1 0).toNat ∨
      (word id 0 = ssid.getD 0 0 ^^^ ssid.getD 1 0 ∧ (word id 4).toNat < (maxU32 - relTime u).toNat) := by
  have e : newPrefix ssid u = putBe32 (ssid.getD 0 0 ^^^ ssid.getD 1 0) ++ (putBe32 (maxU32 - relTime u) ++ []) := by
    simp [newPrefix]
  rw [e]
  conv => lhs; rw [split8 id hl]
  rw [bytesLt_putBe32_iff, bytesLt_putBe32_iff, bytesLt_nil_right]
  simp

theorem matchE_not_before (ssid : Ssid) (f u : Int) (e : Entry) (hl : 8 ≤ e.key.length)
    (hu : u < timeOffset + 4294967296) (hm : matchE ssid f u e = true) :
    bytesLt e.key (newPrefix ssid u) = false := by
  cases h : bytesLt e.key (newPrefix ssid u) with
  | false => rfl
  | true =>
    exfalso
    rw [bytesLt_newPrefix _ hl] at h
    simp only [matchE, hasPrefix, idMatch, Bool.and_eq_true, beq_iff_eq, decide_eq_true_eq] at hm
    obtain ⟨⟨h0, _⟩, hm⟩ := hm
    split at hm
    · simp at hm
    · simp only [Bool.and_eq_true, decide_eq_true_eq] at hm
      obtain ⟨_, htu⟩ := hm
      rcases h with h | ⟨_, h⟩
      · rw [h0] at h; omega
      · rw [idTime_eq] at htu
        have hw := (word e.key 4).toNat_lt
        have hr := (relTime u).toNat_lt
        have hU : (maxU32 - relTime u).toNat = 4294967295 - (relTime u).toNat := by
          simp only [maxU32, UInt32.toNat_sub]
          simp
          omega
        rw [hU] at h
        have hoff : timeOffset = 1514764800 := rfl
        by_cases hlow : timeOffset ≤ u
        · have := relTime_toNat u hlow (by omega)
          omega
        · omega

theorem above_of_not_before (ssid : Ssid) (u : Int) (l : List Entry)
    (hl : ∀ e ∈ l, 8 ≤ e.key.length) (h : ∀ e ∈ l, bytesLt e.key (newPrefix ssid u) = false) :
    Above (ssid.getD 0 0 ^^^ ssid.getD 1 0) l := by
  intro e he
  have := h e he
  have hn : ¬ (bytesLt e.key (newPrefix ssid u) = true) := by simp [this]
  rw [bytesLt_newPrefix _ (hl e he)] at hn
  omega

theorem above_of_after (P : UInt32) (x : Bytes) (hx : 8 ≤ x.length) (hp : word x 0 = P) (l : List Entry)
    (hl : ∀ e ∈ l, 8 ≤ e.key.length) (h : ∀ e ∈ l, bytesLt x e.key = true) : Above P l := by
  intro e he
  rcases le8_of_bytesLt x e.key hx (hl e he) (h e he) with h' | ⟨h', _⟩
  · rw [hp] at h'; omega
  · rw [← h', hp]; omega

theorem mono_of_sorted (l : List Entry) (hs : StrictSorted l) (hl : ∀ e ∈ l, 8 ≤ e.key.length) : Mono l := by
  induction l with
  | nil => exact List.Pairwise.nil
  | cons e rest ih =>
    unfold StrictSorted at hs
    rw [List.pairwise_cons] at hs
    refine List.pairwise_cons.mpr ⟨?_, ih hs.2 (fun x hx => hl x (by simp [hx]))⟩
    intro a ha
    exact le8_of_bytesLt _ _ (hl e (by simp)) (hl a (by simp [ha])) (hs.1 a ha)

/-! ### F. what `HasPrefix` + `Match` accept = what the specification asks for -/

theorem ssidOfBytes_length : ∀ (n : Nat) (bs : Bytes), 4 * n ≤ bs.length → (ssidOfBytes n bs).length = n
  | 0, _, _ => rfl
  | n + 1, a :: b :: c :: d :: rest, h => by
    simp only [ssidOfBytes, List.length_cons]
    rw [ssidOfBytes_length n rest (by simp only [List.length_cons] at h; omega)]
  | _ + 1, [], h | _ + 1, [_], h | _ + 1, [_, _], h | _ + 1, [_, _, _], h => by
    simp only [List.length_cons, List.length_nil] at h; omega

theorem idSsid_length (id : Bytes) (h : 16 ≤ id.length) : (idSsid id).length = (id.length - 16) / 4 := by
  unfold idSsid
  have hf : fixed = 16 := rfl
  rw [hf]
  apply ssidOfBytes_length
  rw [List.length_drop]
  omega

theorem levelsMatch_length : ∀ (q e : Ssid), levelsMatch q e = true → q.length ≤ e.length
  | [], _, _ => by simp
  | _ :: _, [], h => by simp [levelsMatch] at h
  | _ :: qs, _ :: es, h => by
    simp only [levelsMatch, Bool.and_eq_true] at h
    have := levelsMatch_length qs es h.2
    simp only [List.length_cons]; omega

theorem levelsMatch_eq_channelMatch : ∀ (q e : Ssid), levelsMatch q e = Spec.channelMatch q e
  | [], e => by simp [levelsMatch, Spec.channelMatch]
  | _ :: _, [] => by simp [levelsMatch, Spec.channelMatch]
  | a :: qs, b :: es => by
    have ih := levelsMatch_eq_channelMatch qs es
    simp only [Spec.channelMatch, List.length_cons, List.zip_cons_cons, List.all_cons, levelsMatch] at ih ⊢
    rw [ih]
    by_cases hl : qs.length ≤ es.length
    · have : qs.length + 1 ≤ es.length + 1 := by omega
      simp [hl, this]
    · have : ¬ (qs.length + 1 ≤ es.length + 1) := by omega
      simp [hl, this]

theorem idMatch_eq (id : Bytes) (h16 : 16 ≤ id.length) (q : Ssid) (f u : Int) :
    idMatch id q f u = (levelsMatch q (idSsid id) && decide (f ≤ idTime id) && decide (idTime id ≤ u)) := by
  unfold idMatch
  split
  · next hgt =>
    cases hm : levelsMatch q (idSsid id) with
    | false => simp
    | true =>
      have := levelsMatch_length _ _ hm
      rw [idSsid_length id h16] at this
      have hf : (fixed : Int) = 16 := rfl
      rw [hf] at hgt
      omega
  · rfl

theorem ssidOfBytes_head : ∀ (n : Nat) (bs : Bytes), 0 < n → 4 ≤ bs.length →
    (ssidOfBytes n bs).getD 0 0 = be32 (bs.getD 0 0) (bs.getD 1 0) (bs.getD 2 0) (bs.getD 3 0)
  | n + 1, a :: b :: c :: d :: rest, _, _ => by simp [ssidOfBytes]
  | 0, _, h, _ => by omega
  | _ + 1, [], _, h | _ + 1, [_], _, h | _ + 1, [_, _], _, h | _ + 1, [_, _, _], _, h => by
    simp only [List.length_cons, List.length_nil] at h; omega

theorem getD_drop (l : Bytes) (k i : Nat) : (l.drop k).getD i 0 = l.getD (k + i) 0 := by
  simp [List.getD_eq_getElem?_getD, List.getElem?_drop]

theorem idContract_eq (id : Bytes) (h : 24 ≤ id.length) : idContract id = (idSsid id).getD 0 0 := by
  unfold idContract idSsid word
  have hf : fixed = 16 := rfl
  rw [hf, ssidOfBytes_head _ _ (by omega) (by rw [List.length_drop]; omega)]
  simp only [getD_drop]

theorem xor_cancel_right (a b c : UInt32) : (a ^^^ c == b ^^^ c) = (a == b) := by
  by_cases h : a = b
  · simp [h]
  · have : a ^^^ c ≠ b ^^^ c := by
      intro h'
      apply h
      have := congrArg (· ^^^ c) h'
      simpa [UInt32.xor_assoc] using this
    have hb : (a == b) = false := by simpa using h
    have hc : (a ^^^ c == b ^^^ c) = false := by simpa using this
    rw [hb, hc]

theorem two_le_length {α} (l : List α) (h : 2 ≤ l.length) : ∃ a b t, l = a :: b :: t := by
  match l, h with
  | a :: b :: t, _ => exact ⟨a, b, t, rfl⟩

/-- the query as the specification sees it -/
def ask (q : Query) : Spec.Ask :=
  { ssid := q.ssid, from_ := q.from_, until_ := q.until_, start := q.start, limit := q.limit.toNat }

theorem wanted_eq (q : Query) (now : Int) (e : Entry) (hw : WF e) (h2 : 2 ≤ q.ssid.length)
    (h1 : isWild (q.ssid.getD 1 0) = false) :
    Spec.wanted (ask q) now e =
      (live now e && (q.start.isEmpty || bytesLt q.start e.key) && matchE q.ssid q.from_ q.until_ e) := by
  obtain ⟨hlen, hpfx, _⟩ := hw
  have hc := idContract_eq e.key hlen
  have hsl := idSsid_length e.key (by omega)
  unfold Spec.wanted matchE hasPrefix ask
  simp only
  rw [idMatch_eq e.key (by omega), hc, hpfx]
  obtain ⟨q0, q1, qt, hq⟩ := two_le_length q.ssid h2
  obtain ⟨e0, e1, et, hes⟩ := two_le_length (idSsid e.key) (by omega)
  rw [hq] at h1 ⊢
  rw [hes]
  simp only [List.getD_cons_zero, List.getD_cons_succ] at h1
  simp only [List.getD_cons_zero, List.getD_cons_succ, List.drop_succ_cons, List.drop_zero,
    ← levelsMatch_eq_channelMatch, levelsMatch]
  rw [h1]
  by_cases hA : q1 = e1
  · subst hA
    rw [xor_cancel_right]
    by_cases h0 : e0 = q0
    · subst h0
      simp only [beq_self_eq_true, Bool.true_or, Bool.or_false, Bool.true_and, Bool.and_true]
      cases live now e <;> cases (q.start.isEmpty || bytesLt q.start e.key) <;>
        cases levelsMatch qt et <;> cases decide (q.from_ ≤ idTime e.key) <;>
        cases decide (idTime e.key ≤ q.until_) <;> rfl
    · have h0' : (e0 == q0) = false := by simpa using h0
      simp [h0']
  · have hA' : (q1 == e1) = false := by simpa using hA
    simp [hA']

/-! ### G. lookup and Query -/

/-- the first level of the filter is literal, the contract word need not be -/
def Query.ok (q : Query) : Prop :=
  2 ≤ q.ssid.length ∧ 0 ≤ q.limit ∧ isWild (q.ssid.getD 1 0) = false ∧ q.until_ < timeOffset + 4294967296

instance (q : Query) : Decidable q.ok := by unfold Query.ok; infer_instance

/-- the continuation id is absent, or an id of this query's key prefix (every id an earlier
page returned is) that — for the pinned code — is still live in the store -/
def StartOk (repaired : Bool) (q : Query) (now : Int) (s : Store) : Prop :=
  q.start = [] ∨
  (8 ≤ q.start.length ∧ word q.start 0 = q.ssid.getD 0 0 ^^^ q.ssid.getD 1 0 ∧
    (repaired = true ∨ ∃ e ∈ s, live now e = true ∧ e.key = q.start))

theorem vis_sorted (now : Int) (s : Store) (hs : StrictSorted s) : StrictSorted (s.filter (live now)) :=
  List.Pairwise.filter _ hs

theorem startPos_sublist (r : Bool) (q : Query) (vis : List Entry) : (startPos r q vis).Sublist vis := by
  unfold startPos
  split
  · exact List.dropWhile_sublist _
  · split
    · have hsub : (seek q.start vis).Sublist vis := List.dropWhile_sublist _
      refine List.Sublist.trans ?_ hsub
      cases seek q.start vis with
      | nil => exact List.nil_sublist _
      | cons e rest =>
        simp only [stepOverIfEqual]
        by_cases hk : (e.key == q.start) = true
        · rw [if_pos hk]; exact List.sublist_cons_self e rest
        · rw [if_neg hk]; exact List.Sublist.refl _
    · exact (List.drop_sublist _ _).trans (List.dropWhile_sublist _)

theorem drop_one_after (x : Bytes) : ∀ (l : List Entry), StrictSorted l →
    (∀ a ∈ l, bytesLt a.key x = false) → ∀ e ∈ l.drop 1, bytesLt x e.key = true
  | [], _, _, e, he => by simp at he
  | h :: t, hs, hge, e, he => by
    simp only [List.drop_succ_cons, List.drop_zero] at he
    unfold StrictSorted at hs
    rw [List.pairwise_cons] at hs
    exact bytesLt_of_le_of_lt _ _ _ (hge h (by simp)) (hs.1 e he)

/-- behind a continuation id everything visited is strictly after it, repaired or not -/
theorem startPos_after (r : Bool) (q : Query) (vis : List Entry) (hs : StrictSorted vis) (hne : q.start ≠ []) :
    ∀ e ∈ startPos r q vis, bytesLt q.start e.key = true := by
  have hemp : q.start.isEmpty = false := by cases h : q.start <;> simp_all
  unfold startPos
  simp only [hemp, Bool.false_eq_true, if_false]
  cases r with
  | true =>
    simp only [if_true]
    rw [after_repaired q.start vis hs]
    intro e he
    exact (List.mem_filter.mp he).2
  | false =>
    simp only [Bool.false_eq_true, if_false]
    rw [seek_eq_filter q.start vis hs]
    have hs' : StrictSorted (vis.filter (fun e => !bytesLt e.key q.start)) := List.Pairwise.filter _ hs
    have hge : ∀ x ∈ vis.filter (fun e => !bytesLt e.key q.start), bytesLt x.key q.start = false :=
      fun x hx => by simpa using (List.mem_filter.mp hx).2
    exact drop_one_after q.start _ hs' hge

theorem lookupWith_ok (r : Bool) (q : Query) (now : Int) (s : Store) (h2 : 2 ≤ q.ssid.length) (hl : 0 ≤ q.limit) :
    lookupWith r q now s =
      .ok (scan q.ssid q.from_ q.until_ q.limit.toNat (startPos r q (s.filter (live now))) 0 0) := by
  unfold lookupWith
  have h1 : ¬ q.limit < 0 := by omega
  have h3 : ¬ q.ssid.length < 2 := by omega
  simp [h1, h3]

/-- soundness, for every query with a well-formed ssid and every continuation id: whatever is
returned is the message of a stored entry that is live and accepted by `HasPrefix` and `Match` -/
theorem lookupWith_sound (r : Bool) (q : Query) (now : Int) (s : Store) (res : List Msg)
    (h : lookupWith r q now s = .ok res) :
    ∀ m ∈ res, ∃ e ∈ s, e.msg = m ∧ live now e = true ∧ matchE q.ssid q.from_ q.until_ e = true := by
  unfold lookupWith at h
  split at h
  · simp at h
  · simp only at h
    split at h
    · split at h
      · simp at h
      · split at h
        · simp only [Outcome.ok.injEq] at h; subst h; simp
        · simp at h
    · simp only [Outcome.ok.injEq] at h
      subst h
      intro m hm
      obtain ⟨e, he, hem, hmm⟩ := scan_sound _ _ _ _ _ _ _ m hm
      have := (startPos_sublist r q _).subset he
      obtain ⟨hes, hlive⟩ := List.mem_filter.mp this
      exact ⟨e, hes, hem, hlive, hmm⟩

theorem lookupWith_length (r : Bool) (q : Query) (now : Int) (s : Store) (res : List Msg)
    (h : lookupWith r q now s = .ok res) : (res.length : Int) ≤ q.limit := by
  unfold lookupWith at h
  split at h
  · simp at h
  · next hl =>
    simp only at h
    split at h
    · split at h
      · simp at h
      · split at h
        · simp only [Outcome.ok.injEq] at h; subst h; simp; omega
        · simp at h
    · simp only [Outcome.ok.injEq] at h
      subst h
      have := scan_length q.ssid q.from_ q.until_ q.limit.toNat (startPos r q (s.filter (live now))) 0 0
      omega

/-- exactness of the scan behind a given start list -/
theorem lookupWith_exact (r : Bool) (q : Query) (now : Int) (s : Store) (hs : Inv s) (hq : q.ok)
    (hst : StartOk r q now s) :
    lookupWith r q now s = .ok (Spec.answer (ask q) now s) := by
  obtain ⟨h2, hl, hw1, hu⟩ := hq
  rw [lookupWith_ok r q now s h2 hl]
  have hvs := vis_sorted now s hs.1
  have hlen8 : ∀ e ∈ s, 8 ≤ e.key.length := fun e he => by have := (hs.2 e he).len; omega
  have hvlen : ∀ e ∈ s.filter (live now), 8 ≤ e.key.length := fun e he => hlen8 e (List.mem_filter.mp he).1
  unfold Spec.answer
  congr 2
  have hask : (ask q).limit = q.limit.toNat := rfl
  rw [hask]
  rcases hst with hst | ⟨hx8, hxp, hxl⟩
  · -- no continuation: the iteration starts at the window end
    have hemp : q.start.isEmpty = true := by rw [hst]; rfl
    have hpos : startPos r q (s.filter (live now)) =
        (s.filter (live now)).filter (fun e => !bytesLt e.key (newPrefix q.ssid q.until_)) := by
      unfold startPos; simp only [hemp, if_true]; exact seek_eq_filter _ _ hvs
    rw [hpos]
    have hsub : ((s.filter (live now)).filter (fun e => !bytesLt e.key (newPrefix q.ssid q.until_))).Sublist
        (s.filter (live now)) := List.filter_sublist
    rw [scan_exact q.ssid q.from_ q.until_ q.limit.toNat _ 0 0
      (mono_of_sorted _ (List.Pairwise.sublist hsub hvs) (fun e he => hvlen e (hsub.subset he)))
      (above_of_not_before q.ssid q.until_ _ (fun e he => hvlen e (hsub.subset he))
        (fun e he => by simpa using (List.mem_filter.mp he).2))]
    congr 2
    rw [List.filter_filter, List.filter_filter]
    apply List.filter_congr
    intro e he
    rw [wanted_eq q now e (hs.2 e he) h2 hw1, hemp]
    cases hm : matchE q.ssid q.from_ q.until_ e with
    | false => simp
    | true => simp [matchE_not_before q.ssid q.from_ q.until_ e (hlen8 e he) hu hm]
  · -- continuation: the iteration starts behind the id
    have hne : q.start ≠ [] := by intro h; rw [h] at hx8; simp at hx8
    have hemp : q.start.isEmpty = false := by cases h : q.start <;> simp_all
    have hpos : startPos r q (s.filter (live now)) =
        (s.filter (live now)).filter (fun e => bytesLt q.start e.key) := by
      unfold startPos
      simp only [hemp, Bool.false_eq_true, if_false]
      cases r with
      | true => simp only [if_true]; exact after_repaired _ _ hvs
      | false =>
        simp only [Bool.false_eq_true, if_false]
        apply after_present _ _ hvs
        rcases hxl with hxl | ⟨e, he, hlv, hk⟩
        · simp at hxl
        · exact ⟨e, List.mem_filter.mpr ⟨he, hlv⟩, hk⟩
    rw [hpos]
    have hsub : ((s.filter (live now)).filter (fun e => bytesLt q.start e.key)).Sublist
        (s.filter (live now)) := List.filter_sublist
    rw [scan_exact q.ssid q.from_ q.until_ q.limit.toNat _ 0 0
      (mono_of_sorted _ (List.Pairwise.sublist hsub hvs) (fun e he => hvlen e (hsub.subset he)))
      (above_of_after _ q.start hx8 hxp _ (fun e he => hvlen e (hsub.subset he))
        (fun e he => (List.mem_filter.mp he).2))]
    congr 2
    rw [List.filter_filter, List.filter_filter]
    apply List.filter_congr
    intro e he
    rw [wanted_eq q now e (hs.2 e he) h2 hw1, hemp]
    cases matchE q.ssid q.from_ q.until_ e <;> cases live now e <;> cases bytesLt q.start e.key <;> rfl

/-! ### Frame.Sort / Frame.Limit -/

def timeLe (a b : Msg) : Bool := decide (idTime a.id ≤ idTime b.id)

theorem sortByTime_perm (l : List Msg) : (sortByTime l).Perm l := List.mergeSort_perm _ _

theorem sortByTime_sorted (l : List Msg) :
    (sortByTime l).Pairwise (fun a b => idTime a.id ≤ idTime b.id) := by
  have := List.pairwise_mergeSort (le := fun a b : Msg => decide (idTime a.id ≤ idTime b.id))
    (by intro a b c h₁ h₂; simp only [decide_eq_true_eq] at *; omega)
    (by intro a b; simp only [Bool.or_eq_true, decide_eq_true_eq]; omega) l
  exact List.Pairwise.imp (by intro a b h; simpa using h) this

theorem frameLimit_id (n : Int) (f : List Msg) (h : (f.length : Int) ≤ n) : frameLimit n f = .ok (sortByTime f) := by
  unfold frameLimit
  have : (sortByTime f).length = f.length := (sortByTime_perm f).length_eq
  simp only [this]
  split
  · omega
  · rfl

/-- `Frame.Limit(n)`, `n ≥ 0`: the last `n` of the frame sorted by time -/
theorem frameLimit_spec (n : Int) (f : List Msg) (hn : 0 ≤ n) :
    ∃ r, frameLimit n f = .ok r ∧ r <:+ sortByTime f ∧ r.length = min n.toNat f.length ∧
      r.Pairwise (fun a b => idTime a.id ≤ idTime b.id) := by
  have hlen : (sortByTime f).length = f.length := (sortByTime_perm f).length_eq
  unfold frameLimit
  simp only
  split
  · next hgt =>
    have : ¬ n < 0 := by omega
    simp only [this, if_false]
    refine ⟨_, rfl, List.drop_suffix _ _, ?_, List.Pairwise.sublist (List.drop_sublist _ _) (sortByTime_sorted f)⟩
    rw [List.length_drop, hlen]; omega
  · next hle =>
    refine ⟨_, rfl, List.suffix_refl _, ?_, sortByTime_sorted f⟩
    rw [hlen]; omega

theorem queryWith_eq (r : Bool) (ssid : Ssid) (f u : Int) (start : Bytes) (limit now : Int) (s : Store)
    (res : List Msg)
    (h : lookupWith r { ssid := ssid, from_ := f, until_ := (window f u).2, start := start, limit := limit } now s = .ok res) :
    queryWith r ssid f u start limit now s = .ok (sortByTime res) := by
  unfold queryWith
  have hw : (window f u).1 = f := rfl
  simp only [hw, h]
  exact frameLimit_id limit res (lookupWith_length _ _ _ _ _ h)

theorem queryWith_inv (r : Bool) (ssid : Ssid) (f u : Int) (start : Bytes) (limit now : Int) (s : Store)
    (out : List Msg) (h : queryWith r ssid f u start limit now s = .ok out) :
    ∃ res, lookupWith r { ssid := ssid, from_ := f, until_ := (window f u).2, start := start, limit := limit } now s = .ok res ∧
      out = sortByTime res := by
  cases hl : lookupWith r { ssid := ssid, from_ := f, until_ := (window f u).2, start := start, limit := limit } now s with
  | ok res =>
    rw [queryWith_eq r ssid f u start limit now s res hl] at h
    exact ⟨res, rfl, by simpa using h.symm⟩
  | err k =>
    unfold queryWith at h
    have hw : (window f u).1 = f := rfl
    simp [hw, hl] at h
  | panic w =>
    unfold queryWith at h
    have hw : (window f u).1 = f := rfl
    simp [hw, hl] at h

/-! ### H. corollaries used by the property statements -/

theorem lookupWith_after (r : Bool) (q : Query) (now : Int) (s : Store) (hs : Inv s) (res : List Msg)
    (h : lookupWith r q now s = .ok res) (hne : q.start ≠ []) :
    ∀ m ∈ res, bytesLt q.start m.id = true := by
  unfold lookupWith at h
  split at h
  · simp at h
  · simp only at h
    split at h
    · split at h
      · simp at h
      · split at h
        · simp only [Outcome.ok.injEq] at h; subst h; simp
        · simp at h
    · simp only [Outcome.ok.injEq] at h
      subst h
      intro m hm
      obtain ⟨e, he, hem, _⟩ := scan_sound _ _ _ _ _ _ _ m hm
      have hlt := startPos_after r q _ (vis_sorted now s hs.1) hne e he
      have hes := (List.mem_filter.mp ((startPos_sublist r q _).subset he)).1
      rw [← hem, (hs.2 e hes).id]; exact hlt

/-- what `HasPrefix` + `Match` accepting a well-formed entry means in terms of the id's fields -/
theorem matchE_fields (ssid : Ssid) (f u : Int) (e : Entry) (hw : WF e) (hm : matchE ssid f u e = true) :
    word e.key 0 = ssid.getD 0 0 ^^^ ssid.getD 1 0 ∧ levelsMatch ssid (idSsid e.key) = true ∧
    f ≤ idTime e.key ∧ idTime e.key ≤ u := by
  unfold matchE at hm
  rw [idMatch_eq e.key (by have := hw.len; omega)] at hm
  simp only [hasPrefix, Bool.and_eq_true, beq_iff_eq, decide_eq_true_eq] at hm
  exact ⟨hm.1.1, hm.2.1.1, hm.2.1.2, hm.2.2⟩

theorem matchE_contract (ssid : Ssid) (f u : Int) (e : Entry) (hw : WF e) (h2 : 2 ≤ ssid.length)
    (hwild : ¬ (isWild (ssid.getD 0 0) = true ∧ isWild (ssid.getD 1 0) = true))
    (hm : matchE ssid f u e = true) : idContract e.key = ssid.getD 0 0 := by
  obtain ⟨hp, hl, _, _⟩ := matchE_fields ssid f u e hw hm
  rw [idContract_eq e.key hw.len]
  rw [hw.pfx] at hp
  obtain ⟨q0, q1, qt, hq⟩ := two_le_length ssid h2
  obtain ⟨e0, e1, et, hes⟩ := two_le_length (idSsid e.key)
    (by rw [idSsid_length e.key (by have := hw.len; omega)]; have := hw.len; omega)
  rw [hq] at hp hl hwild ⊢
  rw [hes] at hp hl ⊢
  simp only [List.getD_cons_zero, List.getD_cons_succ, levelsMatch, Bool.and_eq_true, Bool.or_eq_true,
    beq_iff_eq] at hp hl hwild ⊢
  obtain ⟨h0, h1, _⟩ := hl
  rcases h0 with h0 | h0
  · exact h0.symm
  · rcases h1 with h1 | h1
    · subst h1
      have := xor_cancel_right e0 q0 q1
      rw [hp] at this
      simpa using this.symm
    · exact absurd ⟨h0, h1⟩ hwild

theorem firstFitting_prefix (limit cap : Nat) : ∀ (l : List Entry) (n size : Nat),
    Spec.firstFitting limit cap n size l <+: l
  | [], _, _ => by simp [Spec.firstFitting]
  | e :: es, n, size => by
    unfold Spec.firstFitting
    split
    · exact List.nil_prefix
    · split
      · exact List.nil_prefix
      · exact List.prefix_cons_inj e |>.mpr (firstFitting_prefix limit cap es _ _)

def bytesOf (l : List Entry) : Nat := (l.map (fun e => msgLen e.msg)).sum

/-- when the `limit` most recent wanted entries fit the reply cap, exactly those are taken -/
theorem firstFitting_take (limit cap : Nat) : ∀ (l : List Entry) (n size : Nat),
    size + bytesOf (l.take (limit - n)) ≤ cap → Spec.firstFitting limit cap n size l = l.take (limit - n)
  | [], _, _, _ => by simp [Spec.firstFitting]
  | e :: es, n, size, h => by
    unfold Spec.firstFitting
    by_cases hl : limit ≤ n
    · have : limit - n = 0 := by omega
      simp [hl, this]
    · obtain ⟨k, hk⟩ : ∃ k, limit - n = k + 1 := ⟨limit - n - 1, by omega⟩
      rw [hk, List.take_succ_cons] at h ⊢
      simp only [bytesOf, List.map_cons, List.sum_cons] at h
      have h1 : ¬ (size + msgLen e.msg > cap) := by omega
      simp only [hl, if_false, h1, List.cons.injEq, true_and]
      have hk' : limit - (n + 1) = k := by omega
      rw [← hk']
      apply firstFitting_take limit cap es (n + 1) (size + msgLen e.msg)
      rw [hk']
      simp only [bytesOf]
      omega

theorem firstFitting_size (limit cap : Nat) : ∀ (l : List Entry) (n size : Nat), size ≤ cap →
    size + bytesOf (Spec.firstFitting limit cap n size l) ≤ cap
  | [], _, _, h => by simp [Spec.firstFitting, bytesOf]; exact h
  | e :: es, n, size, h => by
    unfold Spec.firstFitting
    split
    · simp [bytesOf]; exact h
    · split
      · simp [bytesOf]; exact h
      · next h1 =>
        have := firstFitting_size limit cap es (n + 1) (size + msgLen e.msg) (by omega)
        simp only [bytesOf, List.map_cons, List.sum_cons] at this ⊢
        omega

theorem firstFitting_length (limit cap : Nat) : ∀ (l : List Entry) (n size : Nat),
    (Spec.firstFitting limit cap n size l).length + n ≤ max limit n
  | [], _, _ => by simp [Spec.firstFitting]; omega
  | e :: es, n, size => by
    unfold Spec.firstFitting
    split
    · simp; omega
    · split
      · simp; omega
      · have := firstFitting_length limit cap es (n + 1) (size + msgLen e.msg)
        simp only [List.length_cons]
        omega

theorem answer_shape (limit : Nat) (l : List Entry) :
    Spec.firstFitting limit replyCap 0 0 l <+: l ∧
    (Spec.firstFitting limit replyCap 0 0 l).length ≤ limit ∧
    bytesOf (Spec.firstFitting limit replyCap 0 0 l) ≤ replyCap := by
  refine ⟨firstFitting_prefix _ _ l 0 0, ?_, ?_⟩
  · have := firstFitting_length limit replyCap l 0 0
    omega
  · have := firstFitting_size limit replyCap l 0 0 (by simp)
    omega

/-! ### I. property-level statements over histories of puts -/

section props
variable (r : Bool) (retain : UInt32) (ps : List Put) (ssid : Ssid) (f u : Int) (start : Bytes)
  (limit now : Int)

/-- the `lookupQuery` that `Query` builds -/
def mkQuery (ssid : Ssid) (f u : Int) (start : Bytes) (limit : Int) : Query :=
  { ssid := ssid, from_ := f, until_ := (window f u).2, start := start, limit := limit }

theorem query_exact' (hq : (mkQuery ssid f u start limit).ok)
    (hst : StartOk r (mkQuery ssid f u start limit) now (runPuts retain ps)) :
    queryWith r ssid f u start limit now (runPuts retain ps) =
      .ok (sortByTime (Spec.answer (ask (mkQuery ssid f u start limit)) now (runPuts retain ps))) :=
  queryWith_eq r ssid f u start limit now _ _
    (lookupWith_exact r _ now _ (runPuts_inv retain ps) hq hst)

theorem query_sound' (out : List Msg)
    (h : queryWith r ssid f u start limit now (runPuts retain ps) = .ok out) :
    ∀ m ∈ out, ∃ e ∈ runPuts retain ps, e.msg = m ∧ m.id = e.key ∧ live now e = true ∧
      levelsMatch ssid (idSsid m.id) = true ∧ f ≤ idTime m.id ∧ idTime m.id ≤ (window f u).2 := by
  obtain ⟨res, hl, rfl⟩ := queryWith_inv r ssid f u start limit now _ out h
  intro m hm
  have hm' := (sortByTime_perm res).mem_iff.mp hm
  obtain ⟨e, he, hem, hlv, hmm⟩ := lookupWith_sound r _ now _ res hl m hm'
  have hw := (runPuts_inv retain ps).2 e he
  obtain ⟨_, h2, h3, h4⟩ := matchE_fields _ _ _ e hw hmm
  have hid : m.id = e.key := by rw [← hem]; exact hw.id
  refine ⟨e, he, hem, hid, hlv, ?_, ?_, ?_⟩
  · rw [hid]; exact h2
  · rw [hid]; exact h3
  · rw [hid]; exact h4

theorem isolation' (h2 : 2 ≤ ssid.length)
    (hwild : ¬ (isWild (ssid.getD 0 0) = true ∧ isWild (ssid.getD 1 0) = true)) (out : List Msg)
    (h : queryWith r ssid f u start limit now (runPuts retain ps) = .ok out) :
    ∀ m ∈ out, idContract m.id = ssid.getD 0 0 := by
  obtain ⟨res, hl, rfl⟩ := queryWith_inv r ssid f u start limit now _ out h
  intro m hm
  have hm' := (sortByTime_perm res).mem_iff.mp hm
  obtain ⟨e, he, hem, _, hmm⟩ := lookupWith_sound r _ now _ res hl m hm'
  have hw := (runPuts_inv retain ps).2 e he
  have hid : m.id = e.key := by rw [← hem]; exact hw.id
  rw [hid]
  exact matchE_contract ssid f (window f u).2 e hw h2 hwild hmm

theorem continuation_after' (hne : start ≠ []) (out : List Msg)
    (h : queryWith r ssid f u start limit now (runPuts retain ps) = .ok out) :
    ∀ m ∈ out, bytesLt start m.id = true := by
  obtain ⟨res, hl, rfl⟩ := queryWith_inv r ssid f u start limit now _ out h
  intro m hm
  have hm' := (sortByTime_perm res).mem_iff.mp hm
  exact lookupWith_after r _ now _ (runPuts_inv retain ps) res hl hne m hm'

theorem limit_bound' (out : List Msg)
    (h : queryWith r ssid f u start limit now (runPuts retain ps) = .ok out) :
    (out.length : Int) ≤ limit := by
  obtain ⟨res, hl, rfl⟩ := queryWith_inv r ssid f u start limit now _ out h
  rw [(sortByTime_perm res).length_eq]
  exact lookupWith_length r _ now _ res hl

theorem query_ordered' (out : List Msg)
    (h : queryWith r ssid f u start limit now (runPuts retain ps) = .ok out) :
    out.Pairwise (fun a b => idTime a.id ≤ idTime b.id) := by
  obtain ⟨res, _, rfl⟩ := queryWith_inv r ssid f u start limit now _ out h
  exact sortByTime_sorted res

end props

end Emitter.Storage
