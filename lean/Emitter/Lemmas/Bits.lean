/-
  Bridging lemmas between the bitwise form of the Go code (as translated by tools/go2lean into
  `Emitter/Generated/Go*.lean`: shifts, ors, masks, conversions on `UInt8/16/32/64`, `Int64`) and the
  arithmetic form of the hand-written model (`a*256+b`, `/`, `%`, unbounded `Int`).  Core Lean only; proved once,
  used by `Props/Tie/*.lean`.
-/
import Emitter.Model.Base
set_option linter.unusedSimpArgs false
namespace Emitter.Bits
open Emitter

theorem nat_or2 (a b : Nat) (hb : b < 256) : a <<< 8 ||| b = a * 256 + b := by
  rw [← Nat.shiftLeft_add_eq_or_of_lt (by omega) a, Nat.shiftLeft_eq]

theorem nat_or4 (a b c d : Nat) (hb : b < 256) (hc : c < 256) (hd : d < 256) :
    a <<< 24 ||| b <<< 16 ||| c <<< 8 ||| d = a * 16777216 + b * 65536 + c * 256 + d := by
  rw [Nat.or_assoc, Nat.or_assoc]
  have h1 : c <<< 8 ||| d = c <<< 8 + d := (Nat.shiftLeft_add_eq_or_of_lt (by omega) c).symm
  rw [h1]
  have h2 : b <<< 16 ||| (c <<< 8 + d) = b <<< 16 + (c <<< 8 + d) :=
    (Nat.shiftLeft_add_eq_or_of_lt (by simp [Nat.shiftLeft_eq]; omega) b).symm
  rw [h2]
  have h3 : a <<< 24 ||| (b <<< 16 + (c <<< 8 + d)) = a <<< 24 + (b <<< 16 + (c <<< 8 + d)) :=
    (Nat.shiftLeft_add_eq_or_of_lt (by simp [Nat.shiftLeft_eq]; omega) a).symm
  rw [h3]; simp [Nat.shiftLeft_eq]; omega

theorem or16 (a b : UInt8) : (a.toUInt16 <<< 8 ||| b.toUInt16) = be16 a b := by
  apply UInt16.toNat.inj
  have ha := a.toNat_lt; have hb := b.toNat_lt
  simp [be16]
  rw [Nat.mod_eq_of_lt (by simp [Nat.shiftLeft_eq]; omega), nat_or2 _ _ hb, Nat.mod_eq_of_lt (by omega)]

theorem or32 (a b c d : UInt8) :
    (a.toUInt32 <<< 24 ||| b.toUInt32 <<< 16 ||| c.toUInt32 <<< 8 ||| d.toUInt32) = be32 a b c d := by
  apply UInt32.toNat.inj
  have ha := a.toNat_lt; have hb := b.toNat_lt; have hc := c.toNat_lt; have hd := d.toNat_lt
  simp [be32]
  rw [Nat.mod_eq_of_lt (a := _ <<< 24) (by simp [Nat.shiftLeft_eq]; omega), Nat.mod_eq_of_lt (a := _ <<< 16) (by simp [Nat.shiftLeft_eq]; omega),
    Nat.mod_eq_of_lt (a := _ <<< 8) (by simp [Nat.shiftLeft_eq]; omega), nat_or4 _ _ _ _ hb hc hd, Nat.mod_eq_of_lt (by omega)]

/-! byte extraction: the model's `UInt8.ofNat (x / 256^i)` is the code's `byte(x >> 8*i)`; stated towards the bitwise
form, which is also the normal form of core's simp set (`UInt8.ofNat_uInt32ToNat : UInt8.ofNat x.toNat = x.toUInt8`) -/
theorem lo8_16 (v : UInt16) : UInt8.ofNat v.toNat = v.toUInt8 := by
  apply UInt8.toNat.inj; simp
theorem hi8_16 (v : UInt16) : UInt8.ofNat (v.toNat / 256) = (v >>> 8).toUInt8 := by
  apply UInt8.toNat.inj; simp [Nat.shiftRight_eq_div_pow]
theorem b0_32 (v : UInt32) : UInt8.ofNat v.toNat = v.toUInt8 := by
  apply UInt8.toNat.inj; simp
theorem b1_32 (v : UInt32) : UInt8.ofNat (v.toNat / 256) = (v >>> 8).toUInt8 := by
  apply UInt8.toNat.inj; simp [Nat.shiftRight_eq_div_pow]
theorem b2_32 (v : UInt32) : UInt8.ofNat (v.toNat / 65536) = (v >>> 16).toUInt8 := by
  apply UInt8.toNat.inj; simp [Nat.shiftRight_eq_div_pow]
theorem b3_32 (v : UInt32) : UInt8.ofNat (v.toNat / 16777216) = (v >>> 24).toUInt8 := by
  apply UInt8.toNat.inj; simp [Nat.shiftRight_eq_div_pow]

/-! masks -/
theorem mask_lo_16 (v : UInt16) : (v &&& 255).toUInt8 = v.toUInt8 := by
  apply UInt8.toNat.inj
  simp
  rw [show (255:Nat) = 2^8 - 1 by rfl, Nat.and_two_pow_sub_one_eq_mod]; omega
theorem mask_hi_16 (v : UInt16) : ((v &&& 65280) >>> 8) = v >>> 8 := by
  apply UInt16.toNat.inj
  simp
  have h := v.toNat_lt
  rw [Nat.shiftRight_and_distrib, show (65280:Nat) >>> 8 = 2^8 - 1 by decide, Nat.and_two_pow_sub_one_eq_mod,
    Nat.shiftRight_eq_div_pow]
  omega

/-! Int64 -/
theorem toInt_u32 (x : UInt32) : (x.toUInt64.toInt64).toInt = x.toNat := by
  have h := x.toNat_lt
  unfold Int64.toInt
  rw [UInt64.toBitVec_toInt64, BitVec.toInt_eq_toNat_of_lt]
  · simp
  · simp; omega

theorem toNat_toUInt64_i64 (e : Int64) : (e.toUInt64.toNat : Int) = e.toInt % 18446744073709551616 := by
  have h : e.toUInt64.toNat = e.toBitVec.toNat := by
    rw [← Int64.toBitVec_toUInt64]; rfl
  have hlt : e.toBitVec.toNat < 2 ^ 64 := e.toBitVec.isLt
  unfold Int64.toInt
  rw [h, BitVec.toInt_eq_toNat_cond]
  split <;> omega

theorem u32_of_i64 (e : Int64) : e.toUInt64.toUInt32 = UInt32.ofNat (e.toInt % 4294967296).toNat := by
  apply UInt32.toNat.inj
  have h := toNat_toUInt64_i64 e
  simp [UInt32.toNat_ofNat']
  omega

theorem i64_sub (a b : Int64) (h1 : -9223372036854775808 ≤ a.toInt - b.toInt) (h2 : a.toInt - b.toInt < 9223372036854775808) :
    (a - b).toInt = a.toInt - b.toInt := by
  rw [Int64.toInt_sub]; simp [Int.bmod]; omega

theorem i64_add (a b : Int64) (h1 : -9223372036854775808 ≤ a.toInt + b.toInt) (h2 : a.toInt + b.toInt < 9223372036854775808) :
    (a + b).toInt = a.toInt + b.toInt := by
  rw [Int64.toInt_add]; simp [Int.bmod]; omega


theorem or24 (a b c : UInt8) : (a.toUInt32 <<< 16 ||| b.toUInt32 <<< 8 ||| c.toUInt32) = be32 0 a b c := by
  rw [← or32]; simp

/-! the int64 arithmetic around the expiry field of a key (`Key.Expires`, `Key.SetExpires`; 1262304000 = timeOffset) -/
def expireOf (x : UInt32) : Int64 :=
  if (decide (x.toUInt64.toInt64 > (0 : Int64))) then (1262304000 : Int64) + x.toUInt64.toInt64 else x.toUInt64.toInt64

theorem expireOf_toInt (x : UInt32) :
    (expireOf x).toInt = if (x.toNat : Int) > 0 then 1262304000 + (x.toNat : Int) else (x.toNat : Int) := by
  have h := x.toNat_lt
  have e := toInt_u32 x
  unfold expireOf
  simp only [decide_eq_true_eq, GT.gt, Int64.lt_iff_toInt_lt, e]
  have z : (0 : Int64).toInt = 0 := by decide
  have o : (1262304000 : Int64).toInt = 1262304000 := by decide
  rw [z]
  split
  · rw [i64_add _ _ (by rw [o, e]; omega) (by rw [o, e]; omega), o, e]
  · exact e

def unexpireOf (u : Int64) : Int64 := if (decide (u > (0 : Int64))) then u - (1262304000 : Int64) else u

theorem unexpireOf_toInt (u : Int64) :
    (unexpireOf u).toInt = if u.toInt > 0 then u.toInt - 1262304000 else u.toInt := by
  have h1 := u.toInt_lt; have h2 := u.le_toInt
  unfold unexpireOf
  simp only [decide_eq_true_eq, GT.gt, Int64.lt_iff_toInt_lt]
  have z : (0 : Int64).toInt = 0 := by decide
  have o : (1262304000 : Int64).toInt = 1262304000 := by decide
  rw [z]
  split
  · rw [i64_sub _ _ (by rw [o]; omega) (by rw [o]; omega), o]
  · rfl

theorem u32_of_sub (a b : Int64) :
    (a - b).toUInt64.toUInt32 = UInt32.ofNat ((a.toInt - b.toInt) % 4294967296).toNat := by
  rw [u32_of_i64, Int64.toInt_sub]
  congr 2
  simp only [Int.bmod]
  split <;> omega

/-! 64-bit analogue (the value of `binary.BigEndian.Uint64`) -/
theorem nat_or_step (x y n : Nat) (hy : y < 2 ^ n) : x <<< n ||| y = x * 2 ^ n + y := by
  rw [← Nat.shiftLeft_add_eq_or_of_lt hy x, Nat.shiftLeft_eq]

theorem or64 (a b c d e f g h : UInt8) :
    (a.toUInt64 <<< 56 ||| b.toUInt64 <<< 48 ||| c.toUInt64 <<< 40 ||| d.toUInt64 <<< 32 ||| e.toUInt64 <<< 24 |||
      f.toUInt64 <<< 16 ||| g.toUInt64 <<< 8 ||| h.toUInt64).toNat =
      a.toNat * 2 ^ 56 + b.toNat * 2 ^ 48 + c.toNat * 2 ^ 40 + d.toNat * 2 ^ 32 + e.toNat * 2 ^ 24 + f.toNat * 2 ^ 16 +
        g.toNat * 2 ^ 8 + h.toNat := by
  have ha := a.toNat_lt; have hb := b.toNat_lt; have hc := c.toNat_lt; have hd := d.toNat_lt
  have he := e.toNat_lt; have hf := f.toNat_lt; have hg := g.toNat_lt; have hh := h.toNat_lt
  simp only [UInt64.toNat_or, UInt64.toNat_shiftLeft, UInt8.toNat_toUInt64]
  simp only [Nat.or_assoc]
  rw [Nat.mod_eq_of_lt (a := _ <<< _) (by simp [Nat.shiftLeft_eq]; omega), Nat.mod_eq_of_lt (a := _ <<< _) (by simp [Nat.shiftLeft_eq]; omega),
    Nat.mod_eq_of_lt (a := _ <<< _) (by simp [Nat.shiftLeft_eq]; omega), Nat.mod_eq_of_lt (a := _ <<< _) (by simp [Nat.shiftLeft_eq]; omega),
    Nat.mod_eq_of_lt (a := _ <<< _) (by simp [Nat.shiftLeft_eq]; omega), Nat.mod_eq_of_lt (a := _ <<< _) (by simp [Nat.shiftLeft_eq]; omega),
    Nat.mod_eq_of_lt (a := _ <<< _) (by simp [Nat.shiftLeft_eq]; omega)]
  simp
  rw [nat_or_step g.toNat _ 8 (by omega), nat_or_step f.toNat _ 16 (by omega), nat_or_step e.toNat _ 24 (by omega),
    nat_or_step d.toNat _ 32 (by omega), nat_or_step c.toNat _ 40 (by omega), nat_or_step b.toNat _ 48 (by omega),
    nat_or_step a.toNat _ 56 (by omega)]
  omega

/-! exhaustive case analysis on one byte (kernel evaluation, `decide`) -/
theorem forall_uint8 (p : UInt8 → Bool) (h : ∀ n, n < 256 → p (UInt8.ofNat n) = true) : ∀ x, p x = true := by
  intro x
  have := h x.toNat x.toNat_lt
  simpa using this

theorem not_eq_xor (f : UInt8) : ~~~f = 255 ^^^ f := by
  have := forall_uint8 (fun f => ~~~f == 255 ^^^ f) (by set_option maxRecDepth 8192 in decide) f
  simpa using this

/-! lists of known length, runs of `List.set` -/
theorem list24 {α} (k : List α) (h : k.length = 24) :
    ∃ a0 a1 a2 a3 a4 a5 a6 a7 a8 a9 a10 a11 a12 a13 a14 a15 a16 a17 a18 a19 a20 a21 a22 a23,
      k = [a0, a1, a2, a3, a4, a5, a6, a7, a8, a9, a10, a11, a12, a13, a14, a15, a16, a17, a18, a19, a20, a21, a22, a23] := by
  obtain ⟨a0, k, rfl⟩ := List.exists_cons_of_length_eq_add_one (n := 23) h
  replace h : k.length = 23 := by simpa using h
  obtain ⟨a1, k, rfl⟩ := List.exists_cons_of_length_eq_add_one (n := 22) h
  replace h : k.length = 22 := by simpa using h
  obtain ⟨a2, k, rfl⟩ := List.exists_cons_of_length_eq_add_one (n := 21) h
  replace h : k.length = 21 := by simpa using h
  obtain ⟨a3, k, rfl⟩ := List.exists_cons_of_length_eq_add_one (n := 20) h
  replace h : k.length = 20 := by simpa using h
  obtain ⟨a4, k, rfl⟩ := List.exists_cons_of_length_eq_add_one (n := 19) h
  replace h : k.length = 19 := by simpa using h
  obtain ⟨a5, k, rfl⟩ := List.exists_cons_of_length_eq_add_one (n := 18) h
  replace h : k.length = 18 := by simpa using h
  obtain ⟨a6, k, rfl⟩ := List.exists_cons_of_length_eq_add_one (n := 17) h
  replace h : k.length = 17 := by simpa using h
  obtain ⟨a7, k, rfl⟩ := List.exists_cons_of_length_eq_add_one (n := 16) h
  replace h : k.length = 16 := by simpa using h
  obtain ⟨a8, k, rfl⟩ := List.exists_cons_of_length_eq_add_one (n := 15) h
  replace h : k.length = 15 := by simpa using h
  obtain ⟨a9, k, rfl⟩ := List.exists_cons_of_length_eq_add_one (n := 14) h
  replace h : k.length = 14 := by simpa using h
  obtain ⟨a10, k, rfl⟩ := List.exists_cons_of_length_eq_add_one (n := 13) h
  replace h : k.length = 13 := by simpa using h
  obtain ⟨a11, k, rfl⟩ := List.exists_cons_of_length_eq_add_one (n := 12) h
  replace h : k.length = 12 := by simpa using h
  obtain ⟨a12, k, rfl⟩ := List.exists_cons_of_length_eq_add_one (n := 11) h
  replace h : k.length = 11 := by simpa using h
  obtain ⟨a13, k, rfl⟩ := List.exists_cons_of_length_eq_add_one (n := 10) h
  replace h : k.length = 10 := by simpa using h
  obtain ⟨a14, k, rfl⟩ := List.exists_cons_of_length_eq_add_one (n := 9) h
  replace h : k.length = 9 := by simpa using h
  obtain ⟨a15, k, rfl⟩ := List.exists_cons_of_length_eq_add_one (n := 8) h
  replace h : k.length = 8 := by simpa using h
  obtain ⟨a16, k, rfl⟩ := List.exists_cons_of_length_eq_add_one (n := 7) h
  replace h : k.length = 7 := by simpa using h
  obtain ⟨a17, k, rfl⟩ := List.exists_cons_of_length_eq_add_one (n := 6) h
  replace h : k.length = 6 := by simpa using h
  obtain ⟨a18, k, rfl⟩ := List.exists_cons_of_length_eq_add_one (n := 5) h
  replace h : k.length = 5 := by simpa using h
  obtain ⟨a19, k, rfl⟩ := List.exists_cons_of_length_eq_add_one (n := 4) h
  replace h : k.length = 4 := by simpa using h
  obtain ⟨a20, k, rfl⟩ := List.exists_cons_of_length_eq_add_one (n := 3) h
  replace h : k.length = 3 := by simpa using h
  obtain ⟨a21, k, rfl⟩ := List.exists_cons_of_length_eq_add_one (n := 2) h
  replace h : k.length = 2 := by simpa using h
  obtain ⟨a22, k, rfl⟩ := List.exists_cons_of_length_eq_add_one (n := 1) h
  replace h : k.length = 1 := by simpa using h
  obtain ⟨a23, k, rfl⟩ := List.exists_cons_of_length_eq_add_one (n := 0) h
  replace h : k.length = 0 := by simpa using h
  cases List.eq_nil_of_length_eq_zero h
  exact ⟨a0, a1, a2, a3, a4, a5, a6, a7, a8, a9, a10, a11, a12, a13, a14, a15, a16, a17, a18, a19, a20, a21, a22, a23, rfl⟩

theorem set2 {α} (l : List α) (i : Nat) (a b : α) (h : i + 2 ≤ l.length) :
    (l.set i a).set (i + 1) b = l.take i ++ [a, b] ++ l.drop (i + 2) := by
  induction i generalizing l with
  | zero =>
      match l, h with
      | x :: y :: r, _ => simp
  | succ n ih =>
      match l, h with
      | x :: r, h => simp at h; simp [ih r h]

theorem set4 {α} (l : List α) (i : Nat) (a b c d : α) (h : i + 4 ≤ l.length) :
    (((l.set i a).set (i + 1) b).set (i + 2) c).set (i + 3) d = l.take i ++ [a, b, c, d] ++ l.drop (i + 4) := by
  induction i generalizing l with
  | zero =>
      match l, h with
      | x :: y :: z :: w :: r, _ => simp
  | succ n ih =>
      match l, h with
      | x :: r, h => simp at h; simp [ih r h]

/-! normalisation modulo associativity and commutativity of the bitwise operators (ordered rewriting by `simp`;
`ac_rfl` is not usable here: it unfolds the shifts by literals when it compares atoms) -/
theorem or_left_comm8 (a b c : UInt8) : a ||| (b ||| c) = b ||| (a ||| c) := by
  rw [← UInt8.or_assoc, UInt8.or_comm a b, UInt8.or_assoc]
theorem and_left_comm8 (a b c : UInt8) : a &&& (b &&& c) = b &&& (a &&& c) := by
  rw [← UInt8.and_assoc, UInt8.and_comm a b, UInt8.and_assoc]
theorem xor_left_comm8 (a b c : UInt8) : a ^^^ (b ^^^ c) = b ^^^ (a ^^^ c) := by
  rw [← UInt8.xor_assoc, UInt8.xor_comm a b, UInt8.xor_assoc]
theorem or_left_comm16 (a b c : UInt16) : a ||| (b ||| c) = b ||| (a ||| c) := by
  rw [← UInt16.or_assoc, UInt16.or_comm a b, UInt16.or_assoc]
theorem and_left_comm16 (a b c : UInt16) : a &&& (b &&& c) = b &&& (a &&& c) := by
  rw [← UInt16.and_assoc, UInt16.and_comm a b, UInt16.and_assoc]
theorem xor_left_comm16 (a b c : UInt16) : a ^^^ (b ^^^ c) = b ^^^ (a ^^^ c) := by
  rw [← UInt16.xor_assoc, UInt16.xor_comm a b, UInt16.xor_assoc]
theorem or_left_comm32 (a b c : UInt32) : a ||| (b ||| c) = b ||| (a ||| c) := by
  rw [← UInt32.or_assoc, UInt32.or_comm a b, UInt32.or_assoc]
theorem and_left_comm32 (a b c : UInt32) : a &&& (b &&& c) = b &&& (a &&& c) := by
  rw [← UInt32.and_assoc, UInt32.and_comm a b, UInt32.and_assoc]
theorem xor_left_comm32 (a b c : UInt32) : a ^^^ (b ^^^ c) = b ^^^ (a ^^^ c) := by
  rw [← UInt32.xor_assoc, UInt32.xor_comm a b, UInt32.xor_assoc]
theorem or_left_comm64 (a b c : UInt64) : a ||| (b ||| c) = b ||| (a ||| c) := by
  rw [← UInt64.or_assoc, UInt64.or_comm a b, UInt64.or_assoc]
theorem and_left_comm64 (a b c : UInt64) : a &&& (b &&& c) = b &&& (a &&& c) := by
  rw [← UInt64.and_assoc, UInt64.and_comm a b, UInt64.and_assoc]
theorem xor_left_comm64 (a b c : UInt64) : a ^^^ (b ^^^ c) = b ^^^ (a ^^^ c) := by
  rw [← UInt64.xor_assoc, UInt64.xor_comm a b, UInt64.xor_assoc]

/-- closes / normalises a goal whose two sides differ by re-ordering operands of `|||`, `&&&`, `^^^` -/
macro "tie_ac" : tactic => `(tactic| simp only [UInt8.or_assoc, UInt8.or_comm, Emitter.Bits.or_left_comm8, UInt8.and_assoc, UInt8.and_comm, Emitter.Bits.and_left_comm8, UInt8.xor_assoc, UInt8.xor_comm, Emitter.Bits.xor_left_comm8, UInt16.or_assoc, UInt16.or_comm, Emitter.Bits.or_left_comm16, UInt16.and_assoc, UInt16.and_comm, Emitter.Bits.and_left_comm16, UInt16.xor_assoc, UInt16.xor_comm, Emitter.Bits.xor_left_comm16, UInt32.or_assoc, UInt32.or_comm, Emitter.Bits.or_left_comm32, UInt32.and_assoc, UInt32.and_comm, Emitter.Bits.and_left_comm32, UInt32.xor_assoc, UInt32.xor_comm, Emitter.Bits.xor_left_comm32, UInt64.or_assoc, UInt64.or_comm, Emitter.Bits.or_left_comm64, UInt64.and_assoc, UInt64.and_comm, Emitter.Bits.and_left_comm64, UInt64.xor_assoc, UInt64.xor_comm, Emitter.Bits.xor_left_comm64])

end Emitter.Bits
